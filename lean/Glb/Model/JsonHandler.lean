/-
  Model of /repo/logger/json_handler.go (C01), function by function, colour off.

  * `appendJsonString`   — the byte loop of `appendJsonString` (safeSet / hex from `Generated`,
                            `Utf8.decodeRune` = hand model of `utf8.DecodeRuneInString`).  The Go code
                            copies runs `str[start:i]` lazily; the model emits the same bytes one by one.
  * `Leaf`               — what `appendJsonValue` is given after `Value.Resolve()`; results of stdlib
                            calls (strconv, time.AppendFormat, encoding/json, Error()) are payloads.
  * `Attr`               — resolved attribute trees; empty groups (inline or keyed) allowed anywhere.
  * `appendJsonAttr`     — separator bookkeeping exactly as the repaired code (fix 8b83b56): returns
                            whether a member was written, the separator is written only with a member.
  * `H`, `withAttrs`, `withGroup`, `handle` — handler state and the three Handler methods.
  * `trimSource`         — the last-two-path-components loop of `appendJsonSource`.

  Core Lean only (the driver links this file).
-/
import Glb.Basic
import Glb.Model.Utf8
import Glb.Generated.Logger

namespace Glb.JsonHandler
open Glb

/-! ### appendJsonString -/

/-- `safeSet[b]` (Go: array of 128 bools, only indexed under the guard `b < utf8.RuneSelf`;
    `Tie/Logger.lean` proves the table has 128 entries, so the default is never used). -/
def safe (b : UInt8) : Bool := Generated.safeSet[b.toNat]?.getD false

/-- `hex[i]` (only indexed with `i < 16`; `Tie/Logger.lean`: the table has 16 entries). -/
def hexAt (i : Nat) : UInt8 := Generated.hex[i]?.getD 0

/-- the `switch b` of the loop for an ASCII byte outside `safeSet` -/
def escAscii (b : UInt8) : Bytes :=
  if b == 0x5C || b == 0x22 then [0x5C, b]            -- '\\', '"'
  else if b == 0x0A then [0x5C, 0x6E]                  -- \n
  else if b == 0x0D then [0x5C, 0x72]                  -- \r
  else if b == 0x09 then [0x5C, 0x74]                  -- \t
  else [0x5C, 0x75, 0x30, 0x30, hexAt (b.toNat / 16), hexAt (b.toNat % 16)]   -- \u00XX

/-- `�` -/
def escInvalid : Bytes := [0x5C, 0x75, 0x66, 0x66, 0x66, 0x64]

/-- `\u202` ++ hex[c & 0xF] for c = U+2028 / U+2029 -/
def escLineSep (c : Nat) : Bytes := [0x5C, 0x75, 0x32, 0x30, 0x32, hexAt (c % 16)]

/-- The loop.  `pend` = number of continuation bytes of the current multi-byte rune still to pass
    (`i += size` in Go), `cp` = whether they are copied (ordinary rune) or dropped (U+2028/9,
    already written as an escape).  Structural in the input, so closed instances reduce by `decide`. -/
def ajsGo : Nat → Bool → Bytes → Bytes
  | _, _, [] => []
  | k + 1, cp, b :: rest => if cp then b :: ajsGo k cp rest else ajsGo k cp rest
  | 0, _, b :: rest =>
    if b < 0x80 then
      (if safe b then [b] else escAscii b) ++ ajsGo 0 true rest
    else
      let cs := Utf8.decodeRune (b :: rest)
      if cs.1 == Utf8.runeError && cs.2 == 1 then escInvalid ++ ajsGo 0 true rest
      else if cs.1 == 0x2028 || cs.1 == 0x2029 then escLineSep cs.1 ++ ajsGo (cs.2 - 1) false rest
      else b :: ajsGo (cs.2 - 1) true rest

/-- bytes that `appendJsonString(buf, str)` appends to `buf` -/
def appendJsonString (s : Bytes) : Bytes := ajsGo 0 true s

/-! ### values -/

/-- A resolved non-group `slog.Value` as `appendJsonValue` sees it. -/
inductive Leaf where
  /-- KindString -/
  | str (s : Bytes)
  /-- KindInt64 / KindUint64 / KindDuration: the text `strconv.AppendInt/AppendUint` produced -/
  | num (text : Bytes)
  /-- KindBool (`strconv.AppendBool`) -/
  | bool (b : Bool)
  /-- KindTime: the text of `Time.AppendFormat(RFC3339Nano)` (written between quotes, unescaped) -/
  | time (text : Bytes)
  /-- KindFloat64, json.Marshaler and every other `any`: result of `json.Encoder.Encode`
      (`.ok raw` = output without the trailing newline, `.error msg` = the message that
      `appendJsonMarshal` picks: `Unwrap().Error()` when the error unwraps, else `Error()`) -/
  | enc (r : Except Bytes Bytes)
  /-- `error` value: `Error()` -/
  | err (msg : Bytes)
  /-- `AnsiString` (colour off): its `Value` -/
  | ansi (value : Bytes)
  /-- formatting panicked and the value is a nil pointer: `"<nil>"` -/
  | panicNil
  /-- formatting panicked otherwise: `"!PANIC: " + fmt.Sprint(r)` -/
  | panicMsg (msg : Bytes)
  deriving Repr, Inhabited

def quote (s : Bytes) : Bytes := 0x22 :: appendJsonString s ++ [0x22]

def nilText : Bytes := [0x3C, 0x6E, 0x69, 0x6C, 0x3E]                       -- <nil>
def panicPrefix : Bytes := [0x21, 0x50, 0x41, 0x4E, 0x49, 0x43, 0x3A, 0x20]   -- "!PANIC: "
def trueText : Bytes := [0x74, 0x72, 0x75, 0x65]
def falseText : Bytes := [0x66, 0x61, 0x6C, 0x73, 0x65]

/-- bytes that `appendJsonValue(buf, v, false)` appends -/
def appendJsonValue : Leaf → Bytes
  | .str s => quote s
  | .num t => t
  | .bool b => if b then trueText else falseText
  | .time t => 0x22 :: t ++ [0x22]
  | .enc (.ok raw) => raw
  | .enc (.error msg) => quote msg
  | .err msg => quote msg
  | .ansi v => quote v
  | .panicNil => 0x22 :: nilText ++ [0x22]
  | .panicMsg m => quote (panicPrefix ++ m)

/-! ### attributes -/

inductive Attr where
  | leaf (key : Bytes) (v : Leaf)
  | group (key : Bytes) (as : List Attr)
  deriving Inhabited

mutual
/-- `appendJsonAttr(buf, a, addSep, false)`: new buffer and the returned "wrote a member" flag -/
def appendJsonAttr (buf : Bytes) : Attr → Bool → Bytes × Bool
  | .leaf k v, addSep =>
    let buf := if addSep then buf ++ [0x2C] else buf
    (buf ++ 0x22 :: appendJsonString k ++ [0x22, 0x3A] ++ appendJsonValue v, true)
  | .group k as, addSep =>
    if k.isEmpty then
      let r := attrLoop buf as addSep false
      (r.1, r.2.2)
    else
      let buf := if addSep then buf ++ [0x2C] else buf
      let buf := buf ++ 0x22 :: appendJsonString k ++ [0x22, 0x3A, 0x7B]
      let r := attrLoop buf as false false
      (r.1 ++ [0x7D], true)
/-- `for _, aa := range group { if appendJsonAttr(buf, aa, addSep, …) { addSep, wrote = true, true } }`;
    state `(buf, addSep, wrote)` -/
def attrLoop (buf : Bytes) : List Attr → Bool → Bool → Bytes × Bool × Bool
  | [], addSep, wrote => (buf, addSep, wrote)
  | a :: as, addSep, wrote =>
    let r := appendJsonAttr buf a addSep
    if r.2 then attrLoop r.1 as true true else attrLoop r.1 as addSep wrote
end

/-! ### handler -/

/-- `JsonHandler` state that matters for the output (`Options`, `outMu`, `out` are C02/C03 matter) -/
structure H where
  pre : Bytes := []
  nOpenGroups : Nat := 0
  addSep : Bool := true
  deriving Repr

/-- `NewJsonHandler` -/
def H.init : H := {}

/-- `WithAttrs` (for `attrs = []` Go returns `h` itself, which is the same state) -/
def withAttrs (h : H) (as : List Attr) : H :=
  let r := attrLoop h.pre as h.addSep false
  { h with pre := r.1, addSep := r.2.1 }

/-- `WithGroup` (the handler method does not test for the empty name; `Logger.WithGroup` does) -/
def withGroup (h : H) (name : Bytes) : H :=
  { pre := (if h.addSep then h.pre ++ [0x2C, 0x22] else h.pre ++ [0x22])
           ++ appendJsonString name ++ [0x22, 0x3A, 0x7B],
    nOpenGroups := h.nOpenGroups + 1,
    addSep := false }

/-- `appendFullLevel(buf, l, false)`: `labelList[l+2]`, an index expression that can panic -/
def fullLevel (l : Int) : Except GoPanic Bytes :=
  if l + 2 < 0 then .error (.other "index out of range (negative)")
  else idx? Generated.labelList (l + 2).toNat

/-- The loop of `appendJsonSource`: `for idx = len(file)-1; idx > 0; idx-- { if file[idx]=='/' { if first {break}; first = true } }`;
    returns the final `idx` when started at `idx`. -/
def sourceLoop (file : Bytes) : Nat → Bool → Nat
  | 0, _ => 0
  | idx + 1, first =>
    if file[idx + 1]? == some 0x2F then
      if first then idx + 1 else sourceLoop file idx true
    else sourceLoop file idx first

/-- `f.File[idx+1:]` after the loop (`idx = -1` for the empty file name: `f.File[0:]`) -/
def trimSource (file : Bytes) : Bytes :=
  if file.isEmpty then [] else file.drop (sourceLoop file (file.length - 1) false + 1)

structure Rec where
  /-- `r.Time.AppendFormat(RFC3339Nano)` -/
  time : Bytes
  level : Int
  /-- `runtime.CallersFrames(r.PC)` frame: file and the strconv text of the line -/
  file : Bytes := []
  line : Bytes := [0x30]
  msg : Bytes
  attrs : List Attr
  deriving Inhabited

def kTime : Bytes := [0x74, 0x69, 0x6D, 0x65]
def kLevel : Bytes := [0x6C, 0x65, 0x76, 0x65, 0x6C]
def kSource : Bytes := [0x73, 0x6F, 0x75, 0x72, 0x63, 0x65]
def kMsg : Bytes := [0x6D, 0x73, 0x67]
def kFile : Bytes := [0x66, 0x69, 0x6C, 0x65]
def kLine : Bytes := [0x6C, 0x69, 0x6E, 0x65]

/-- bytes appended by `appendJsonSource` -/
def appendJsonSource (file line : Bytes) : Bytes :=
  0x22 :: kFile ++ [0x22, 0x3A, 0x22] ++ appendJsonString (trimSource file)
    ++ [0x22, 0x2C, 0x22] ++ kLine ++ [0x22, 0x3A] ++ line

/-- `Handle`: the bytes given to the single `out.Write` (or the panic of `labelList[l+2]`) -/
def handle (addSource : Bool) (h : H) (r : Rec) : Except GoPanic Bytes := do
  let lvl ← fullLevel r.level
  let buf : Bytes := 0x7B :: 0x22 :: kTime ++ [0x22, 0x3A, 0x22] ++ r.time
  let buf := buf ++ [0x22, 0x2C, 0x22] ++ kLevel ++ [0x22, 0x3A, 0x22] ++ lvl ++ [0x22]
  let buf := if addSource then
      buf ++ [0x2C, 0x22] ++ kSource ++ [0x22, 0x3A, 0x7B] ++ appendJsonSource r.file r.line ++ [0x7D]
    else buf
  let buf := buf ++ [0x2C, 0x22] ++ kMsg ++ [0x22, 0x3A, 0x22] ++ appendJsonString r.msg ++ [0x22]
  let buf := buf ++ h.pre
  let buf := (attrLoop buf r.attrs h.addSep false).1
  let buf := buf ++ List.replicate h.nOpenGroups 0x7D
  return buf ++ [0x7D, 0x0A]

/-- one derivation step of a logger -/
inductive Deriv where
  | attrs (as : List Attr)
  | group (name : Bytes)
  deriving Inhabited

def derive (h : H) : Deriv → H
  | .attrs as => withAttrs h as
  | .group g => withGroup h g

/-- the handler reached from `NewJsonHandler` through a chain of `WithAttrs` / `WithGroup` -/
def deriveAll (h : H) (ds : List Deriv) : H := ds.foldl derive h

/-! ### the pinned separator logic (before fix 8b83b56), kept only for `C01_pinned_counterexample` -/
namespace Pinned

mutual
/-- pinned `appendJsonAttr`: the separator is written before looking at the attribute -/
def appendJsonAttr (buf : Bytes) : Attr → Bool → Bytes
  | .leaf k v, addSep =>
    (if addSep then buf ++ [0x2C] else buf) ++ 0x22 :: appendJsonString k ++ [0x22, 0x3A] ++ appendJsonValue v
  | .group k as, addSep =>
    let buf := if addSep then buf ++ [0x2C] else buf
    if k.isEmpty then attrLoop buf as false
    else attrLoop (buf ++ 0x22 :: appendJsonString k ++ [0x22, 0x3A, 0x7B]) as false ++ [0x7D]
/-- pinned loops: `addSep` becomes true after every attribute, unconditionally -/
def attrLoop (buf : Bytes) : List Attr → Bool → Bytes
  | [], _ => buf
  | a :: as, addSep => attrLoop (appendJsonAttr buf a addSep) as true
end

/-- pinned `WithAttrs(as)` on a fresh handler followed by `Handle` of a record with fixed head `head` -/
def line (head : Bytes) (withAs recAs : List Attr) : Bytes :=
  attrLoop (attrLoop head withAs true) recAs true ++ [0x7D]

end Pinned

end Glb.JsonHandler
