/-
  Glb.Model.LogSys — model for C02 (logging is atomic per record).

  N goroutines each run a program: a list of `log handler level rid` calls (and `derive`, which
  creates a clone that shares the root's `outMu` and `out` — a step without effect on the shared
  protocol state; what the clone renders is C03's business and enters here through `render`).
  One call is the step sequence of `Logger.log` + `Handler.Handle`:

      gate → getBuf → format → lock → (Write: enter … leave) → unlock → freeBuf

  Shared state: the mutex `owner` (ONE mutex: the root handler allocates it, every clone copies
  the pointer — regenerated tie `Glb/Tie/LoggerHandle.lean`), the buffer pool, the destination log
  with an `inWrite` marker and a latched `overlap` flag. `Write` is deliberately two steps and
  `enter` is enabled whenever the goroutine reaches it: that two Writes never overlap is a theorem
  about the lock protocol, not a modelling decision.

    * `getBuf` takes ANY pooled buffer or a fresh one (sync.Pool), the pool may also lose any buffer
      at any time (`gc`);
    * `format` appends the record's line to whatever the buffer holds (so a dirty recycled buffer
      WOULD pollute the line) and may grow it to any capacity;
    * `freeBuf` resets the length and drops buffers with cap > maxBuf (any maxBuf).

  `render handler rec` is the line the record produces when logged alone (opaque: C01/C13).
  Core Lean only.
-/
import Glb.Basic

namespace Glb.LogSys

structure Call where
  handler : Nat
  level : Int
  rid : Nat
  deriving Repr, DecidableEq

inductive Op where
  | log (c : Call)
  | derive (parent : Nat)
  deriving Repr, DecidableEq

inductive Pc where
  | gate | getBuf | format | lock | enter | leave | unlock | free
  deriving Repr, DecidableEq

/-- a `*[]byte` line buffer: contents (`len` = `data.length`) and capacity -/
structure Buf where
  data : Bytes
  cap : Nat
  deriving Repr, DecidableEq

structure GState where
  prog : List Op
  pc : Pc
  buf : Buf
  deriving Repr, DecidableEq

/-- one completed `Write` call on the destination -/
structure Entry where
  g : Nat
  handler : Nat
  rid : Nat
  bytes : Bytes
  deriving Repr, DecidableEq

structure Params where
  /-- `Options.level`, shared by the root handler and every clone -/
  threshold : Int
  /-- the line `handler` writes for `rec` when logged alone -/
  render : Nat → Nat → Bytes
  /-- `maxBufferSize` — any value -/
  maxBuf : Nat
  /-- capacity of a fresh buffer (`initBufferSize`) — any value -/
  initCap : Nat
  /-- growth of a line buffer: spare capacity beyond the needed length — any function -/
  grow : (cap needed : Nat) → Nat

structure St where
  gs : List GState
  owner : Option Nat
  pool : List Buf
  dest : List Entry
  inWrite : Option Nat
  overlap : Bool

def St.init (progs : List (List Op)) : St :=
  { gs := progs.map fun p => ⟨p, .gate, ⟨[], 0⟩⟩,
    owner := none, pool := [], dest := [], inWrite := none, overlap := false }

/-- `l >= opts.level` -/
def want (P : Params) (c : Call) : Bool := decide (P.threshold ≤ c.level)

/-- `append(*buf, line...)` on a line buffer -/
def Buf.appendLine (P : Params) (b : Buf) (line : Bytes) : Buf :=
  let n := b.data.length + line.length
  ⟨b.data ++ line, if n ≤ b.cap then b.cap else n + P.grow b.cap n⟩

def setG (s : St) (g : Nat) (x : GState) : St := { s with gs := s.gs.set g x }

/-- The step goroutine `g` (in local state `x`) can take; `choice` selects the pooled buffer at
    `getBuf` (`none` = a fresh one). `none` = blocked / finished / invalid choice. -/
def stepG (P : Params) (s : St) (g : Nat) (x : GState) (choice : Option Nat) : Option St :=
  match x.prog with
  | [] => none
  | .derive _ :: rest =>
    -- `h.WithAttrs/WithGroup`: a fresh clone sharing outMu/out; nothing shared is written
    if x.pc = .gate then some (setG s g { x with prog := rest }) else none
  | .log c :: rest =>
    match x.pc with
    | .gate =>
      if want P c then some (setG s g { x with pc := .getBuf })
      else some (setG s g { x with prog := rest })           -- `return nil` before anything else
    | .getBuf =>
      match choice with
      | none => some (setG s g { x with pc := .format, buf := ⟨[], P.initCap⟩ })
      | some i =>
        match s.pool[i]? with
        | none => none
        | some b => some (setG { s with pool := s.pool.eraseIdx i } g { x with pc := .format, buf := b })
    | .format =>
      some (setG s g { x with pc := .lock, buf := x.buf.appendLine P (P.render c.handler c.rid) })
    | .lock =>
      match s.owner with
      | none => some (setG { s with owner := some g } g { x with pc := .enter })
      | some _ => none                                          -- blocked
    | .enter =>
      some (setG { s with inWrite := some g, overlap := s.overlap || s.inWrite.isSome } g
        { x with pc := .leave })
    | .leave =>
      some (setG { s with inWrite := none, dest := s.dest ++ [⟨g, c.handler, c.rid, x.buf.data⟩] } g
        { x with pc := .unlock })
    | .unlock =>
      some (setG { s with owner := none } g { x with pc := .free })
    | .free =>
      -- `if cap(*buf) <= maxBufferSize { *buf = (*buf)[:0]; bufferPool.Put(buf) }`
      let pool' := if x.buf.cap ≤ P.maxBuf then ⟨[], x.buf.cap⟩ :: s.pool else s.pool
      some (setG { s with pool := pool' } g { x with prog := rest, pc := .gate })

inductive Label where
  | go (g : Nat) (choice : Option Nat)
  | gc (i : Nat)
  deriving Repr, DecidableEq

/-- choices worth trying at `getBuf` -/
def choices (s : St) : List (Option Nat) := none :: (List.range s.pool.length).map some

/-- every step enabled in `s` (executable) -/
def enabled (P : Params) (s : St) : List (Label × St) :=
  ((List.range s.gs.length).flatMap fun g =>
    match s.gs[g]? with
    | none => []
    | some x => (choices s).filterMap fun ch => (stepG P s g x ch).map fun s' => (Label.go g ch, s'))
  ++ (List.range s.pool.length).map fun i => (Label.gc i, { s with pool := s.pool.eraseIdx i })

inductive Reachable (P : Params) (progs : List (List Op)) : St → Prop where
  | init : Reachable P progs (St.init progs)
  | step {s l s'} : Reachable P progs s → (l, s') ∈ enabled P s → Reachable P progs s'

/-- all goroutines have run their programs to the end -/
def Finished (s : St) : Prop := ∀ x ∈ s.gs, x.prog = []

/-! ### what the destination should contain -/

/-- identity of a written line: handler, record, bytes -/
abbrev Key := Nat × Nat × Bytes

def Entry.key (e : Entry) : Key := (e.handler, e.rid, e.bytes)

def keyOf (P : Params) (c : Call) : Key := (c.handler, c.rid, P.render c.handler c.rid)

/-- the lines a program must produce: its `log` calls at an enabled level, rendered alone -/
def pending (P : Params) : List Op → List Key
  | [] => []
  | .derive _ :: r => pending P r
  | .log c :: r => if want P c then keyOf P c :: pending P r else pending P r

def expected (P : Params) (progs : List (List Op)) : List Key := (progs.map (pending P)).flatten

end Glb.LogSys
