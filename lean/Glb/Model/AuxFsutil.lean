/-
  Supporting model of `/repo/util/fsutil/path.go: ExpandHomeDir`.

  `os.UserHomeDir` on unix (stdlib — modelled, not verified): the value of `$HOME`, an error when it
  is empty or unset.  `$HOME` is a parameter (`home`, `[]` when unset).  `filepath.Clean` /
  `filepath.Join` are `Glb.PathClean.clean` / `join` (POSIX).  The result is the pair
  (string, err != nil).

  `expandHomeDir?` follows the condition of the `if` literally, index expressions with their bounds
  checks; `expandHomeDir` is the same function by cases on the first two bytes, and
  `Glb.Aux.home_never_panics` shows that they agree (so no index can panic).  Core Lean only.
-/
import Glb.Basic
import Glb.Model.PathClean

namespace Glb.Aux.Home
open Glb Glb.PathClean

def tilde : UInt8 := 126
def backslash : UInt8 := 92

/-- `os.UserHomeDir()` on unix -/
def userHomeDir (home : Bytes) : Bytes × Bool :=
  if home = [] then ([], true) else (home, false)

/-- `len(p) == 0 || p[0] != '~' || (len(p) > 1 && p[1] != '/' && p[1] != '\\')` with short-circuit
    evaluation and checked indices -/
def keepCond? (raw : Bytes) : Except GoPanic Bool :=
  if raw.length = 0 then pure true else do
    let r0 ← idx? raw 0
    if r0 ≠ tilde then pure true
    else if raw.length > 1 then do
      let r1 ← idx? raw 1
      if r1 ≠ slash then do
        let r1' ← idx? raw 1
        pure (decide (r1' ≠ backslash))
      else pure false
    else pure false

def expandHomeDir? (home raw : Bytes) : Except GoPanic (Bytes × Bool) := do
  let keep ← keepCond? raw
  if keep then pure (clean raw, false)
  else
    let (h, err) := userHomeDir home
    -- `if err != nil || len(rawFilePath) == 1 { return homeDir, err }`
    if err || raw.length = 1 then pure (h, err)
    else do
      let t ← slice? raw 1 raw.length
      pure (join [h, t], false)

/-- which inputs are expanded: "~", "~/…", "~\…" -/
def expands : Bytes → Bool
  | [] => false
  | [c] => c = tilde
  | c :: d :: _ => c = tilde && (d = slash || d = backslash)

def expandHomeDir (home raw : Bytes) : Bytes × Bool :=
  if !expands raw then (clean raw, false)
  else if home = [] then ([], true)
  else if raw.length = 1 then (home, false)
  else (join [home, raw.tail], false)

end Glb.Aux.Home
