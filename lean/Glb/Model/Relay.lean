/-
  Model of /repo/logger/httpd.go `(*Logger).Relay` together with /repo/httpd/store.go
  `ResponseWriter` (C15).

  * A handler behaviour is a list of events `writeHeader c | write | flush | panic v | ret`; the
    end of the list is a plain return.  `flush` is `store.W.Flush()` / `FlushError()` on an
    origin that can flush (recorder, net/http server): net/http sends the implicit 200 header.
  * `RW` is the pair (ResponseWriter.Status, header already sent by the underlying
    http.ResponseWriter).  The origin keeps the FIRST header ("superfluous WriteHeader" is
    ignored by net/http) and sends an implicit 200 on the first body write; when the handler
    chain returns without having sent anything the server sends 200.
  * `Relay` is interpreted from the statement order the extractor read from the source
    (`Generated.relayBody`): deferred functions are pushed on a stack and run in LIFO order when
    the body ends — normally or because the handler panicked.  `recover()` inside the recover
    function clears the panic; whatever is still panicking after the last deferred function
    escapes to the caller (`Mux.ServeHTTP`, then net/http).
  * Level gates, the `Status == 0` guards and the codes are the regenerated parameters.
  net/http's wire semantics (first header wins, implicit 200) are modelled, not verified.
-/
import Glb.Basic
import Glb.Generated.Relay
import Glb.Generated.Logger

namespace Glb.Relay

/-- a panic value: `http.ErrAbortHandler`, or any other value (identified by a number) -/
inductive PanicVal where
  | abort
  | other (k : Nat)
  deriving Repr, DecidableEq

inductive Ev where
  | writeHeader (c : Nat)
  | write
  | flush
  | panic (v : PanicVal)
  | ret
  deriving Repr, DecidableEq

/-- what the records say about the request: method, RequestURI, client ip, request id -/
structure Req where
  method : Bytes
  uri : Bytes
  ip : Bytes
  id : Bytes
  deriving Repr, DecidableEq

inductive Rec where
  | reqBeg (r : Req)
  | reqEnd (code : Nat) (r : Req)
  | error (v : Nat) (id : Bytes)
  deriving Repr, DecidableEq

def Rec.isBeg : Rec → Bool
  | .reqBeg _ => true
  | _ => false
def Rec.isEnd : Rec → Bool
  | .reqEnd _ _ => true
  | _ => false
def Rec.isErr : Rec → Bool
  | .error _ _ => true
  | _ => false
/-- the `tid` attribute every record carries -/
def Rec.id : Rec → Bytes
  | .reqBeg r => r.id
  | .reqEnd _ r => r.id
  | .error _ id => id

/-! ### ResponseWriter over the origin writer -/

structure RW where
  status : Nat := 0            -- ResponseWriter.Status
  wire : Option Nat := none    -- header sent by the origin (first one wins)
  deriving Repr, DecidableEq

/-- top-level statements of `Relay` that the model interprets -/
inductive Stmt where
  | logBeg | deferEnd | deferRecover | callHandler
  | other          -- anything the extractor could not classify: no effect in the model, breaks the tie
  deriving Repr, DecidableEq

def Stmt.ofString (s : String) : Stmt :=
  if s = "logBeg" then .logBeg
  else if s = "deferEnd" then .deferEnd
  else if s = "deferRecover" then .deferRecover
  else if s = "callHandler" then .callHandler
  else .other

/-- the parameters read from the source -/
structure Prog where
  body : List Stmt
  begLevel : Option Nat
  endLevel : Option Nat
  errLevel : Option Nat
  endDefault : Option (Nat × Nat)
  recovers : Bool
  nilExcluded : Bool
  abortExcluded : Bool
  code500 : Option Nat
  guard500 : Option Nat
  writeImplicit : Option (Nat × Nat)
  writeHeaderRecords : Bool
  flushImplicit : Option (Nat × Nat)   -- Flush/FlushError: `if Status == a { WriteHeader(b) }` first
  deriving Repr, DecidableEq

/-- what /repo says now -/
def prog : Prog where
  body := Generated.relayBody.map Stmt.ofString
  begLevel := Generated.relayBegLevel
  endLevel := Generated.relayEndLevel
  errLevel := Generated.relayErrLevel
  endDefault := Generated.relayEndDefault
  recovers := Generated.relayRecovers
  nilExcluded := Generated.relayNilExcluded
  abortExcluded := Generated.relayAbortExcluded
  code500 := Generated.relay500Code
  guard500 := Generated.relay500Guard
  writeImplicit := Generated.storeWriteImplicit
  writeHeaderRecords := Generated.storeWriteHeaderRecords
  flushImplicit := Generated.storeFlushImplicit

/-- net/http: only the first WriteHeader reaches the client -/
def originWriteHeader (w : Option Nat) (c : Nat) : Option Nat :=
  match w with
  | none => some c
  | some x => some x

/-- net/http: a body write without a header sends 200 first -/
def originWrite (w : Option Nat) : Option Nat := originWriteHeader w 200

/-- `(*ResponseWriter).WriteHeader` -/
def RW.writeHeader (P : Prog) (rw : RW) (c : Nat) : RW :=
  { wire := originWriteHeader rw.wire c, status := if P.writeHeaderRecords then c else rw.status }

/-- `(*ResponseWriter).Write` -/
def RW.write (P : Prog) (rw : RW) : RW :=
  let rw1 := match P.writeImplicit with
    | some (a, b) => if rw.status = a then rw.writeHeader P b else rw
    | none => rw
  { rw1 with wire := originWrite rw1.wire }

/-- `(*ResponseWriter).Flush` / `FlushError` (origin is a Flusher): record the implicit status
    if the code does so, then the origin flushes — which sends 200 if no header was sent yet -/
def RW.flush (P : Prog) (rw : RW) : RW :=
  let rw1 := match P.flushImplicit with
    | some (a, b) => if rw.status = a then rw.writeHeader P b else rw
    | none => rw
  { rw1 with wire := originWrite rw1.wire }

/-- `http.Error(w, msg, code)`: `w.WriteHeader(code)` then the message -/
def RW.httpError (P : Prog) (rw : RW) (c : Nat) : RW := (rw.writeHeader P c).write P

/-- run the handler: final writer state and the panic value if it panicked -/
def runH (P : Prog) : List Ev → RW → RW × Option PanicVal
  | [], rw => (rw, none)
  | .ret :: _, rw => (rw, none)
  | .panic v :: _, rw => (rw, some v)
  | .writeHeader c :: es, rw => runH P es (rw.writeHeader P c)
  | .write :: es, rw => runH P es (rw.write P)
  | .flush :: es, rw => runH P es (rw.flush P)

/-! ### Relay -/

/-- `l.h.Enabled(level)` for a handler with threshold `thr` (`none` = the guard is absent) -/
def enabled (thr : Nat) : Option Nat → Bool
  | none => true
  | some l => thr ≤ l

structure St where
  log : List Rec := []
  rw : RW := {}
  defers : List Stmt := []              -- stack: head = registered last = runs first
  panicking : Option PanicVal := none
  relay500 : Bool := false              -- Relay itself called http.Error
  deriving Repr, DecidableEq

/-- the function body up to its end or the handler's panic -/
def execBody (P : Prog) (thr : Nat) (req : Req) (beh : List Ev) : List Stmt → St → St
  | [], s => s
  | .logBeg :: rest, s =>
    execBody P thr req beh rest
      { s with log := s.log ++ (if enabled thr P.begLevel then [.reqBeg req] else []) }
  | .deferEnd :: rest, s => execBody P thr req beh rest { s with defers := .deferEnd :: s.defers }
  | .deferRecover :: rest, s =>
    execBody P thr req beh rest { s with defers := .deferRecover :: s.defers }
  | .callHandler :: rest, s =>
    let r := runH P beh s.rw
    match r.2 with
    | none => execBody P thr req beh rest { s with rw := r.1 }
    | some v => { s with rw := r.1, panicking := some v }    -- the rest of the body is abandoned
  | .other :: rest, s => execBody P thr req beh rest s

/-- the REQ_END function -/
def endFn (P : Prog) (thr : Nat) (req : Req) (s : St) : St :=
  if enabled thr P.endLevel then
    let rw := match P.endDefault with
      | some (a, b) => if s.rw.status = a then { s.rw with status := b } else s.rw
      | none => s.rw
    { s with rw := rw, log := s.log ++ [.reqEnd rw.status req] }
  else s

/-- what happens with a recovered value `v` that passed the condition -/
def handlePanic (P : Prog) (thr : Nat) (req : Req) (k : Nat) (s : St) : St :=
  let s1 := if enabled thr P.errLevel then { s with log := s.log ++ [.error k req.id] } else s
  match P.code500 with
  | none => s1
  | some c =>
    let send := match P.guard500 with
      | none => true
      | some g => s1.rw.status = g
    if send then { s1 with rw := s1.rw.httpError P c, relay500 := true } else s1

/-- the recover function: `if err := recover(); err != nil && err != http.ErrAbortHandler {…}` -/
def recoverFn (P : Prog) (thr : Nat) (req : Req) (s : St) : St :=
  if P.recovers then
    match s.panicking with
    | none => s
    | some .abort =>
      let s0 := { s with panicking := none }
      if P.abortExcluded then s0 else handlePanic P thr req 0 s0
    | some (.other k) => handlePanic P thr req k { s with panicking := none }
  else s

/-- deferred functions in LIFO order -/
def runDefers (P : Prog) (thr : Nat) (req : Req) : List Stmt → St → St
  | [], s => s
  | .deferRecover :: ds, s => runDefers P thr req ds (recoverFn P thr req s)
  | .deferEnd :: ds, s => runDefers P thr req ds (endFn P thr req s)
  | _ :: ds, s => runDefers P thr req ds s

structure Out where
  log : List Rec
  /-- status the client receives; `0` = no response (a panic escaped before anything was sent) -/
  wire : Nat
  relay500 : Bool
  escaped : Option PanicVal
  deriving Repr, DecidableEq

def relayWith (P : Prog) (thr : Nat) (req : Req) (beh : List Ev) : Out :=
  let s1 := execBody P thr req beh P.body {}
  let s2 := runDefers P thr req s1.defers { s1 with defers := [] }
  { log := s2.log
    wire := match s2.panicking with
      | none => s2.rw.wire.getD 200           -- the server's implicit 200
      | some _ => s2.rw.wire.getD 0
    relay500 := s2.relay500
    escaped := s2.panicking }

/-- `Relay` as /repo has it now -/
def relay (thr : Nat) (req : Req) (beh : List Ev) : Out := relayWith prog thr req beh

/-! ### what a behaviour does, independently of Relay (used by the property statements) -/

/-- status the handler itself put on the response before it ended (explicit, or the implicit 200
    of the first write or flush) -/
def statusOf : List Ev → Option Nat
  | .writeHeader c :: _ => some c
  | .write :: _ => some 200
  | .flush :: _ => some 200
  | _ => none

/-- the value the handler panicked with, if it did -/
def panicOf : List Ev → Option PanicVal
  | [] => none
  | .ret :: _ => none
  | .panic v :: _ => some v
  | _ :: es => panicOf es

/-- no `WriteHeader` is executed in this (remaining) behaviour -/
def noHeader : List Ev → Bool
  | [] => true
  | .ret :: _ => true
  | .panic _ :: _ => true
  | .writeHeader _ :: _ => false
  | .write :: es => noHeader es
  | .flush :: es => noHeader es

/-- "status set once": once the status is set (explicitly, or implicitly by writing or flushing), the handler
    does not call `WriteHeader` again. -/
def setOnce : List Ev → Bool
  | .writeHeader _ :: es => noHeader es
  | .write :: es => noHeader es
  | .flush :: es => noHeader es
  | _ => true

/-- every explicit status code is in `lo..hi` -/
def codesIn (lo hi : Nat) (beh : List Ev) : Prop := ∀ c, Ev.writeHeader c ∈ beh → lo ≤ c ∧ c ≤ hi

def levelInfo : Nat := Generated.levelInfo.toNat
def levelError : Nat := Generated.levelError.toNat

end Glb.Relay
