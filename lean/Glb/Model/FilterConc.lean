/-
  Lock-level small-step interleaving model of /repo/util/netutil/filter.go (IPv4Filter).

  Any number of threads (`Tid = Nat`), each running a program of already validated calls
  `add ip ones | remove ip ones | contains ip` (ones in 0..32).  Every call is a sequence of
  fine-grained steps that follow the statements of filter.go:

    Add/Remove, ones = 0 :  one atomic `matchAll.Store`, return.
    Add, ones > 0        :  mutex.Lock()            (enabled iff no writer and no reader holds it)
                            read f.mode             aMode
                            read f.index < listSize aIdx
                            ipList[index]=…;index++ aStore
                            f.mode = modeMaps       aSetMode     \
                            ipMaps[i] = make(...)   aAlloc        | the list→maps migration,
                            copy slot i             aCopy i       | one step per statement / slot
                            ipMaps[ones-1][key]=true aIns        /
                            (deferred) Unlock       unlock
    Remove, ones > 0     :  Lock, read mode (rMode), one step per list slot (rScan i) or one
                            map delete (rDel), Unlock.
    Contains             :  atomic `matchAll.Load` (true: return true)
                            mutex.RLock()           (enabled iff no writer holds it)
                            read f.mode             mode
                            one step per list slot (list i) / per map probed (map i), leaving
                            the loop with the result as soon as a slot / map matches
                            (deferred) RUnlock, return the accumulated result.

  The shared state is the C11 state `Glb.Filter.St` (matchAll, mode, ipList[0:index], ipMaps) plus
  the RWMutex state (`writer : Option Tid`, `readers : List Tid`).  RWMutex is modelled by its
  contract only (Lock needs the lock free, RLock needs no writer); Go's writer preference (a
  blocked Lock() holds back new RLock()s) only removes interleavings, so every real execution is
  an execution of this model.

  The flag `rl` switches the reader lock on (`true`: the code as it is) or off (`false`: the
  mutant "Contains without RLock" used by `no_rlock_counterexample`).

  Below the fine model: the COARSE model of Glb.Props.C12 as an explicit transition system
  (each Add/Remove one `cstep`, Contains = load step + one `scan` step) with ghost history.
-/
import Glb.Props.C11

namespace Glb.FilterConc
open Glb.Filter Glb.C11

abbrev Tid := Nat

/-- a validated call -/
inductive Call where
  | add (ip : Addr) (ones : Nat)
  | remove (ip : Addr) (ones : Nat)
  | contains (ip : Addr)
  deriving Repr, DecidableEq

/-- program counter inside a writer critical section (the lock is held) -/
inductive WPc where
  | aMode | aIdx | aStore | aSetMode | aAlloc | aCopy (i : Nat) | aIns
  | rMode | rScan (i : Nat) | rDel
  | unlock
  deriving Repr, DecidableEq

/-- program counter of `Contains` after the `matchAll` load -/
inductive RPc where
  | rlock                       -- about to RLock (lock not held yet)
  | mode | list (i : Nat) | map (i : Nat)
  | runlock (b : Bool)          -- result accumulated, about to RUnlock and return
  deriving Repr, DecidableEq

inductive Pc where
  | idle                                        -- between calls / before the first step of a call
  | w (k : WPc) (key : Addr) (ones : Nat)       -- writer critical section, `key = ip & mask`
  | r (k : RPc) (ip : Addr)
  deriving Repr, DecidableEq

structure Thread where
  rest : List Call := []        -- head = the call in progress (or the next one when `idle`)
  pc : Pc := .idle
  results : List Bool := []     -- results of the finished `contains` calls, in order
  deriving Repr, DecidableEq

structure Cfg where
  st : St := {}
  writer : Option Tid := none
  readers : List Tid := []
  th : Tid → Thread

/-- the slot predicate of the list scan in `Contains` -/
def slotHit (ip : Addr) (e : Addr × Nat) : Bool := e.2 > 0 && (ip &&& maskOf e.2 == e.1)

/-- the slot update of the list scan in `Remove` -/
def slotClear (key : Addr) (ones : Nat) (e : Addr × Nat) : Addr × Nat :=
  if ones = e.2 ∧ key = e.1 then (0, 0) else e

/-- one slot of the migration loop -/
def copySlot (m : List (Nat × Addr)) (e : Addr × Nat) : List (Nat × Addr) :=
  if e.2 > 0 then mapsInsert m (e.2, e.1) else m

/-- one statement of a writer critical section (the holder of the lock is the only caller) -/
def wstep (ls : Nat) (s : St) (key : Addr) (ones : Nat) : WPc → St × WPc
  | .aMode => (s, if !s.mapsMode then .aIdx else .aIns)
  | .aIdx => (s, if s.list.length < ls then .aStore else .aSetMode)
  | .aStore => ({ s with list := s.list ++ [(key, ones)] }, .unlock)
  | .aSetMode => ({ s with mapsMode := true }, .aAlloc)
  | .aAlloc => ({ s with maps := [] }, .aCopy 0)
  | .aCopy i =>
    match s.list[i]? with
    | some e => ({ s with maps := copySlot s.maps e }, .aCopy (i + 1))
    | none => (s, .aIns)
  | .aIns => ({ s with maps := mapsInsert s.maps (ones, key) }, .unlock)
  | .rMode => (s, if !s.mapsMode then .rScan 0 else .rDel)
  | .rScan i =>
    match s.list[i]? with
    | some e => ({ s with list := s.list.set i (slotClear key ones e) }, .rScan (i + 1))
    | none => (s, .unlock)
  | .rDel => ({ s with maps := s.maps.filter fun e => !(e == (ones, key)) }, .unlock)
  | .unlock => (s, .unlock)

/-- one statement of the read section of `Contains` -/
def rstep (s : St) (ip : Addr) : RPc → RPc
  | .rlock => .mode
  | .mode => if !s.mapsMode then .list 0 else .map 0
  | .list i =>
    match s.list[i]? with
    | some e => if slotHit ip e then .runlock true else .list (i + 1)
    | none => .runlock false
  | .map i =>
    if i < 32 then
      if s.maps.contains (i + 1, ip &&& maskOf (i + 1)) then .runlock true else .map (i + 1)
    else .runlock false
  | .runlock b => .runlock b

def setTh (th : Tid → Thread) (t : Tid) (x : Thread) : Tid → Thread :=
  fun u => if u = t then x else th u

/-- thread `t` takes its next step (`none`: not enabled / program finished).
    `rl = true`: `Contains` takes the reader lock; `rl = false`: the mutant without it. -/
def step (ls : Nat) (rl : Bool) (c : Cfg) (t : Tid) : Option Cfg :=
  let x := c.th t
  match x.pc with
  | .idle =>
    match x.rest with
    | [] => none
    | .add ip ones :: rest =>
      if ones = 0 then
        some { c with st := { c.st with matchAll := true }, th := setTh c.th t { x with rest := rest } }
      else if c.writer = none ∧ c.readers = [] then
        some { c with writer := some t,
                      th := setTh c.th t { x with pc := .w .aMode (ip &&& maskOf ones) ones } }
      else none
    | .remove ip ones :: rest =>
      if ones = 0 then
        some { c with st := { c.st with matchAll := false }, th := setTh c.th t { x with rest := rest } }
      else if c.writer = none ∧ c.readers = [] then
        some { c with writer := some t,
                      th := setTh c.th t { x with pc := .w .rMode (ip &&& maskOf ones) ones } }
      else none
    | .contains ip :: rest =>
      if c.st.matchAll then
        some { c with th := setTh c.th t { x with rest := rest, results := x.results ++ [true] } }
      else some { c with th := setTh c.th t { x with pc := .r .rlock ip } }
  | .w .unlock _ _ =>
    some { c with writer := none, th := setTh c.th t { x with rest := x.rest.tail, pc := .idle } }
  | .w k key ones =>
    let (s', k') := wstep ls c.st key ones k
    some { c with st := s', th := setTh c.th t { x with pc := .w k' key ones } }
  | .r .rlock ip =>
    if rl then
      if c.writer = none then
        some { c with readers := t :: c.readers, th := setTh c.th t { x with pc := .r .mode ip } }
      else none
    else some { c with th := setTh c.th t { x with pc := .r .mode ip } }
  | .r (.runlock b) _ =>
    some { c with readers := if rl then c.readers.erase t else c.readers,
                  th := setTh c.th t { x with rest := x.rest.tail, pc := .idle,
                                              results := x.results ++ [b] } }
  | .r k ip => some { c with th := setTh c.th t { x with pc := .r (rstep c.st ip k) ip } }

/-- the initial configuration for the programs `progs` -/
def initCfg (progs : Tid → List Call) : Cfg := { th := fun t => { rest := progs t } }

/-- one step of some thread of the real (locking) code -/
def Step (ls : Nat) (c c' : Cfg) : Prop := ∃ t, step ls true c t = some c'

inductive Reachable (ls : Nat) (progs : Tid → List Call) : Cfg → Prop
  | init : Reachable ls progs (initCfg progs)
  | step {c c'} (t : Tid) : Reachable ls progs c → step ls true c t = some c' → Reachable ls progs c'

/-- run a schedule (list of thread ids); `none` if some scheduled thread is not enabled -/
def runSched (ls : Nat) (rl : Bool) (c : Cfg) : List Tid → Option Cfg
  | [] => some c
  | t :: ts => match step ls rl c t with
    | some c' => runSched ls rl c' ts
    | none => none

/-- reachability in the mutant without the reader lock -/
inductive ReachableNoRLock (ls : Nat) (progs : Tid → List Call) : Cfg → Prop
  | init : ReachableNoRLock ls progs (initCfg progs)
  | step {c c'} (t : Tid) : ReachableNoRLock ls progs c → step ls false c t = some c' →
      ReachableNoRLock ls progs c'

/-- all calls of all programs carry a prefix length ≤ 32 (what argument validation guarantees) -/
def Validated (progs : Tid → List Call) : Prop :=
  ∀ t, ∀ c ∈ progs t, match c with
    | .add _ n => n ≤ 32 | .remove _ n => n ≤ 32 | .contains _ => True

/-! ## The coarse model of Glb.Props.C12, as an explicit transition system

  Every Add/Remove is ONE step (`cstep`), `Contains` is the atomic load and then ONE `scan`.
  Ghost fields record the order of the writer steps (`hist`), for each pending lookup the history
  at its load (`pre`), and one record per finished lookup. -/

/-- the coarse operation of a writer call -/
def Call.op? : Call → Option COp
  | .add a n => some (.add a n)
  | .remove a n => some (.remove a n)
  | .contains _ => none

def writeOps (p : List Call) : List COp := p.filterMap Call.op?

structure CThread where
  rest : List Call := []
  loaded : Option Addr := none    -- `some ip`: the load of `Contains(ip)` returned false, scan pending
  results : List Bool := []
  deriving Repr, DecidableEq

abbrev Hist := List (Tid × COp)

def Hist.ops (h : Hist) : List COp := h.map (·.2)

/-- record of one finished lookup -/
structure Rec where
  tid : Tid
  ip : Addr
  pre : Hist        -- writer steps before the load
  whole : Hist      -- writer steps before the scan (`pre` is a prefix of it)
  result : Bool

structure CCfg where
  st : St := {}
  th : Tid → CThread
  hist : Hist := []
  pre : Tid → Hist := fun _ => []
  log : List Rec := []

def setCTh (th : Tid → CThread) (t : Tid) (x : CThread) : Tid → CThread :=
  fun u => if u = t then x else th u

def setPre (pre : Tid → Hist) (t : Tid) (h : Hist) : Tid → Hist :=
  fun u => if u = t then h else pre u

/-- thread `t` takes its next coarse step -/
def cstepT (ls : Nat) (a : CCfg) (t : Tid) : Option CCfg :=
  let x := a.th t
  match x.loaded with
  | some ip =>
    let b := scan a.st ip
    some { a with th := setCTh a.th t { rest := x.rest.tail, loaded := none, results := x.results ++ [b] },
                  log := a.log ++ [⟨t, ip, a.pre t, a.hist, b⟩] }
  | none =>
    match x.rest with
    | [] => none
    | .add ip n :: rest =>
      some { a with st := cstep ls a.st (.add ip n), hist := a.hist ++ [(t, .add ip n)],
                    th := setCTh a.th t { x with rest := rest } }
    | .remove ip n :: rest =>
      some { a with st := cstep ls a.st (.remove ip n), hist := a.hist ++ [(t, .remove ip n)],
                    th := setCTh a.th t { x with rest := rest } }
    | .contains ip :: rest =>
      if a.st.matchAll then
        some { a with th := setCTh a.th t { x with rest := rest, results := x.results ++ [true] },
                      log := a.log ++ [⟨t, ip, a.hist, a.hist, true⟩] }
      else
        some { a with th := setCTh a.th t { x with loaded := some ip }, pre := setPre a.pre t a.hist }

def initCCfg (progs : Tid → List Call) : CCfg := { th := fun t => { rest := progs t } }

inductive CReachable (ls : Nat) (progs : Tid → List Call) : CCfg → Prop
  | init : CReachable ls progs (initCCfg progs)
  | step {a a'} (t : Tid) : CReachable ls progs a → cstepT ls a t = some a' → CReachable ls progs a'

/-! ## Abstraction: fine configuration ↦ coarse state and coarse threads -/

/-- the state at the end of the critical section, seen from program counter `k`
    (literally: what the remaining statements will do) -/
def finishW (ls : Nat) (s : St) (key : Addr) (ones : Nat) : WPc → St
  | .aMode =>
    if !s.mapsMode then
      if s.list.length < ls then { s with list := s.list ++ [(key, ones)] }
      else { s with mapsMode := true, maps := mapsInsert (s.list.foldl copySlot []) (ones, key) }
    else { s with maps := mapsInsert s.maps (ones, key) }
  | .aIdx =>
    if s.list.length < ls then { s with list := s.list ++ [(key, ones)] }
    else { s with mapsMode := true, maps := mapsInsert (s.list.foldl copySlot []) (ones, key) }
  | .aStore => { s with list := s.list ++ [(key, ones)] }
  | .aSetMode => { s with mapsMode := true, maps := mapsInsert (s.list.foldl copySlot []) (ones, key) }
  | .aAlloc => { s with maps := mapsInsert (s.list.foldl copySlot []) (ones, key) }
  | .aCopy i => { s with maps := mapsInsert ((s.list.drop i).foldl copySlot s.maps) (ones, key) }
  | .aIns => { s with maps := mapsInsert s.maps (ones, key) }
  | .rMode =>
    if !s.mapsMode then { s with list := s.list.map (slotClear key ones) }
    else { s with maps := s.maps.filter fun e => !(e == (ones, key)) }
  | .rScan i => { s with list := s.list.take i ++ (s.list.drop i).map (slotClear key ones) }
  | .rDel => { s with maps := s.maps.filter fun e => !(e == (ones, key)) }
  | .unlock => s

/-- the result the read section will return, seen from program counter `k` -/
def finishR (s : St) (ip : Addr) : RPc → Bool
  | .rlock => scan s ip
  | .mode => scan s ip
  | .list i => (s.list.drop i).any (slotHit ip)
  | .map i => (List.range' i (32 - i)).any fun j => s.maps.contains (j + 1, ip &&& maskOf (j + 1))
  | .runlock b => b

/-- the coarse state a fine configuration stands for: a writer's critical section takes effect
    as a whole when it takes the lock -/
def absSt (ls : Nat) (c : Cfg) : St :=
  match c.writer with
  | none => c.st
  | some t => match (c.th t).pc with
    | .w k key ones => finishW ls c.st key ones k
    | _ => c.st

/-- the coarse thread a fine thread stands for: a reader's scan takes effect when it takes the
    reader lock -/
def absTh (c : Cfg) (u : Tid) : CThread :=
  let x := c.th u
  match x.pc with
  | .idle => { rest := x.rest, loaded := none, results := x.results }
  | .w _ _ _ => { rest := x.rest.tail, loaded := none, results := x.results }
  | .r .rlock ip => { rest := x.rest, loaded := some ip, results := x.results }
  | .r k ip => { rest := x.rest.tail, loaded := none, results := x.results ++ [finishR c.st ip k] }

/-- simulation relation -/
def Sim (ls : Nat) (c : Cfg) (a : CCfg) : Prop := a.st = absSt ls c ∧ ∀ u, a.th u = absTh c u

end Glb.FilterConc
