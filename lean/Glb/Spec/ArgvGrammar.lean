/-
  The documented command-line grammar of package `config` (C10), written independently of the
  code's index arithmetic: a token classifier and a left-to-right fold.

      -name=value   --name=value      one token, split at the first '=' after the name's first byte
      -name value   --name value      two tokens; the value is taken whatever it looks like
      -bool         --bool            a boolean flag without '=' means "true" and consumes nothing
      --                              terminator: consumed, everything after it is Args()
      anything else                   first non-flag: parsing stops, it and everything after is Args()

  `-`, the empty token and tokens not starting with '-' are non-flags; `-=…`, `--=…`, `---…` are
  malformed.  The last occurrence of a repeated flag wins (`ArgParse.effective`).
  A declarative version of the same grammar (`WellFormed`) is used to characterise the errors.
-/
import Glb.Model.ArgParse

namespace Glb.ArgvGrammar
open Glb.ArgParse (dash equals trueText ArgErr)

/-- token classes -/
inductive Tok where
  | nonFlag
  | terminator
  | bad
  | flag (name : Bytes) (value : Option Bytes)
  deriving Repr, DecidableEq

/-- split at the first `=`: `(before, some after)`, or `(everything, none)` when there is none -/
def breakEq : Bytes → Bytes × Option Bytes
  | [] => ([], none)
  | c :: s =>
    if c = equals then ([], some s)
    else ((c :: (breakEq s).1), (breakEq s).2)

/-- the text after the dashes: first byte must not be '-' or '='; the name extends to the first
    '=' *after* that first byte -/
def classifyBody : Bytes → Tok
  | [] => .bad
  | b :: t =>
    if b = dash ∨ b = equals then .bad
    else .flag (b :: (breakEq t).1) (breakEq t).2

def classify : Bytes → Tok
  | [] => .nonFlag
  | [_] => .nonFlag                                   -- in particular "-"
  | c :: d :: t =>
    if c ≠ dash then .nonFlag
    else if d = dash then
      (if t = [] then .terminator else classifyBody t) -- "--" / "--body"
    else classifyBody (d :: t)                         -- "-body"

/-- result of reading an argument vector -/
inductive Parsed where
  | ok (assigns : List (Bytes × Bytes)) (rest : List Bytes)
  | err (e : ArgErr)
  deriving Repr, DecidableEq

/-- put an assignment in front of a result; errors absorb -/
def Parsed.cons (a : Bytes × Bytes) : Parsed → Parsed
  | .ok as rest => .ok (a :: as) rest
  | .err e => .err e

def Parsed.prepend (pre : List (Bytes × Bytes)) : Parsed → Parsed
  | .ok as rest => .ok (pre ++ as) rest
  | .err e => .err e

/-- the fold -/
def parse (lookup : Bytes → Option Bool) : List Bytes → Parsed
  | [] => .ok [] []
  | tok :: rest =>
    match classify tok with
    | .nonFlag => .ok [] (tok :: rest)
    | .terminator => .ok [] rest
    | .bad => .err (.badSyntax tok)
    | .flag n (some v) =>
      match lookup n with
      | none => .err (.undefined n)
      | some _ => (parse lookup rest).cons (n, v)
    | .flag n none =>
      match lookup n with
      | none => .err (.undefined n)
      | some true => (parse lookup rest).cons (n, trueText)
      | some false =>
        match rest with
        | [] => .err (.needsArg n)
        | v :: rest' => (parse lookup rest').cons (n, v)

/-! ### the same grammar, declaratively -/

/-- `WellFormed lookup toks as`: `toks` is a sequence of complete, defined flag groups and `as`
    are the assignments they denote, in order. -/
inductive WellFormed (lookup : Bytes → Option Bool) : List Bytes → List (Bytes × Bytes) → Prop where
  | nil : WellFormed lookup [] []
  | withEq {tok n v b ts as} : classify tok = .flag n (some v) → lookup n = some b →
      WellFormed lookup ts as → WellFormed lookup (tok :: ts) ((n, v) :: as)
  | boolFlag {tok n ts as} : classify tok = .flag n none → lookup n = some true →
      WellFormed lookup ts as → WellFormed lookup (tok :: ts) ((n, trueText) :: as)
  | withNext {tok n v ts as} : classify tok = .flag n none → lookup n = some false →
      WellFormed lookup ts as → WellFormed lookup (tok :: v :: ts) ((n, v) :: as)

/-- `Ends tail rest`: how a successful reading ends on the not-yet-read `tail`, and what `Args()` is -/
inductive Ends : List Bytes → List Bytes → Prop where
  | eof : Ends [] []
  | nonFlag {tok r} : classify tok = .nonFlag → Ends (tok :: r) (tok :: r)
  | terminator {tok r} : classify tok = .terminator → Ends (tok :: r) r

/-- the token `tok` (followed by `rest`) is the grammar violation `e` -/
def Offends (lookup : Bytes → Option Bool) (tok : Bytes) (rest : List Bytes) : ArgErr → Prop
  | .badSyntax t => t = tok ∧ classify tok = .bad
  | .undefined n => ∃ v, classify tok = .flag n v ∧ lookup n = none
  | .needsArg n => classify tok = .flag n none ∧ lookup n = some false ∧ rest = []

end Glb.ArgvGrammar
