/-
  Glb.Spec.PosixWords — what a POSIX shell makes of a piece of command-line text   (spec of C16)

  An executable reading of POSIX.1-2017 XCU
    2.2   Quoting (2.2.1 escape character, 2.2.2 single-quotes, 2.2.3 double-quotes),
    2.3   Token Recognition,
    2.6.1 Tilde Expansion, 2.6.7 Quote Removal,
  for text that stands in ARGUMENT position of a simple command.  The lexer reads bytes one at a
  time (`List.foldl step`) and produces

    * `words`        the fields the command would receive, after quote removal.  A word is a list
                     of atoms: literal bytes, or `home` = "the value of $HOME goes here"
                     (an unquoted `~` at the start of a word followed by `/` or the end of the word);
    * `special`      `true` as soon as ANYTHING other than plain quoting happens or may happen:
                     an operator character `| & ; < > ( )` or an unquoted newline (the text is no
                     longer a single list of arguments), `$` or backquote outside single quotes
                     (parameter / command / arithmetic expansion), an unquoted `* ? [` (pathname
                     expansion), `{ }` (reserved words; brace expansion in bash), `#` at the start
                     of a word (comment), `~` followed by anything but `/`/end of word (`~user`,
                     `~+`, quoted characters in the tilde-prefix), an unquoted `~` elsewhere in a
                     word (`a=~`, `a:~` are expanded by some shells), an unquoted NUL;
    * `unterminated` the text ends inside a quotation or right after a backslash.

  `special` is deliberately an OVER-approximation (it may be `true` for harmless text); the claim
  the harness validates against real `dash` and `bash` is: whenever `special = false` and
  `unterminated = false`, the words are exactly the argv the shell passes on (with `home` read
  as $HOME).  So "`lex t = ⟨[w], false, false⟩`" says: `t` is exactly one argument with value `w`,
  and nothing in `t` ended the word, started a command, or triggered an expansion.

  `!` is an ordinary character here: in POSIX it is a reserved word only in command position
  (history expansion is an interactive-bash feature outside the standard and outside this spec).
  Core Lean only.
-/
import Glb.Basic

namespace Glb.PosixWords

inductive Atom where
  | byte (b : UInt8)
  | home
  deriving DecidableEq, Repr

inductive Mode where
  | unq   -- not inside quotes
  | sq    -- inside '…'
  | dq    -- inside "…"
  deriving DecidableEq, Repr

structure St where
  mode : Mode := .unq
  /-- the previous byte was an (unquoted or double-quoted) backslash still to be resolved -/
  esc : Bool := false
  /-- the current word is so far exactly one unquoted `~` (kept out of `cur` until resolved) -/
  tilde : Bool := false
  /-- the word being built; `none` = between words -/
  cur : Option (List Atom) := none
  /-- finished words, in order -/
  words : List (List Atom) := []
  special : Bool := false
  deriving DecidableEq, Repr

structure Result where
  words : List (List Atom)
  special : Bool
  unterminated : Bool
  deriving DecidableEq, Repr

/-! byte classes (2.2: characters that must be quoted to represent themselves) -/

/-- `<blank>`: space, tab — field separators of token recognition (2.3 rule 7) -/
def isBlank (b : UInt8) : Prop := b = 32 ∨ b = 9
/-- newline and the operator characters `| & ; < > ( )` (2.3 rule 6, 2.10) -/
def isOperator (b : UInt8) : Prop :=
  b = 10 ∨ b = 124 ∨ b = 38 ∨ b = 59 ∨ b = 60 ∨ b = 62 ∨ b = 40 ∨ b = 41
/-- `$` and backquote (2.3 rule 5): special unquoted and inside double quotes -/
def isSubst (b : UInt8) : Prop := b = 36 ∨ b = 96
/-- `* ? [` (2.13 patterns), `{ }`, NUL: special when unquoted -/
def isActive (b : UInt8) : Prop := b = 42 ∨ b = 63 ∨ b = 91 ∨ b = 123 ∨ b = 125 ∨ b = 0

instance (b : UInt8) : Decidable (isBlank b) := by unfold isBlank; infer_instance
instance (b : UInt8) : Decidable (isOperator b) := by unfold isOperator; infer_instance
instance (b : UInt8) : Decidable (isSubst b) := by unfold isSubst; infer_instance
instance (b : UInt8) : Decidable (isActive b) := by unfold isActive; infer_instance

/-- append an atom to the current word (starting one if necessary) -/
def St.push (st : St) (a : Atom) : St := { st with cur := some (st.cur.getD [] ++ [a]) }
/-- a quotation starts a word even when it turns out empty (`''` is one empty argument) -/
def St.start (st : St) : St := { st with cur := some (st.cur.getD []) }
/-- the current word, if any, is finished -/
def St.endWord (st : St) : St :=
  match st.cur with
  | none => st
  | some w => { st with cur := none, words := st.words ++ [w] }
def St.flag (st : St) : St := { st with special := true }

/-- one byte outside quotes, no pending backslash, no pending tilde -/
def stepUnq (st : St) (b : UInt8) : St :=
  if isBlank b then st.endWord
  else if isOperator b then st.endWord.flag
  else if b = 92 then { st with esc := true }                    -- \
  else if b = 39 then { st.start with mode := .sq }              -- '
  else if b = 34 then { st.start with mode := .dq }              -- "
  else if isSubst b ∨ isActive b then st.flag.push (.byte b)
  else if b = 35 then                                            -- #
    (if st.cur.isNone then st.flag else st).push (.byte b)
  else if b = 126 then                                           -- ~
    if st.cur.isNone then { st with cur := some [], tilde := true }
    else st.flag.push (.byte b)
  else st.push (.byte b)

/-- one byte of input -/
def step (st : St) (b : UInt8) : St :=
  match st.mode with
  | .sq =>                                   -- 2.2.2: every character literal up to the next '
    if b = 39 then { st with mode := .unq } else st.push (.byte b)
  | .dq =>                                   -- 2.2.3
    if st.esc then
      let st := { st with esc := false }
      if b = 10 then st                      -- \<newline>: line continuation, removed
      else if b = 36 ∨ b = 96 ∨ b = 34 ∨ b = 92 then st.push (.byte b)
      else (st.push (.byte 92)).push (.byte b)   -- backslash stays literal before anything else
    else if b = 34 then { st with mode := .unq }
    else if b = 92 then { st with esc := true }
    else if isSubst b then st.flag.push (.byte b)
    else st.push (.byte b)
  | .unq =>
    if st.esc then                           -- 2.2.1
      let st := { st with esc := false }
      if b = 10 then st else st.push (.byte b)
    else if st.tilde then                    -- 2.6.1: the tilde-prefix ends at the first unquoted /
      if b = 47 then { st with tilde := false, cur := some [.home, .byte 47] }
      else if isBlank b then { st with tilde := false, cur := none, words := st.words ++ [[.home]] }
      else stepUnq { st with tilde := false, cur := some [.byte 126], special := true } b
    else stepUnq st b

def run (st : St) (bs : Bytes) : St := bs.foldl step st

/-- end of input -/
def finish (st : St) : Result :=
  { words := match st.cur with
      | none => st.words
      | some w => st.words ++ [if st.tilde then [.home] else w]
    special := st.special
    unterminated := st.mode != .unq || st.esc }

def lex (s : Bytes) : Result := finish (run {} s)

/-- literal word -/
def lit (s : Bytes) : List Atom := s.map .byte

end Glb.PosixWords
