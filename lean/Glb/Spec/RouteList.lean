/-
  Specification of route selection over the plain LIST of registered routes (C04) — no trie.

  * `pattern p`   : split on '/', drop empty fragments, `*` ends the pattern (what follows it is
                    ignored), `:name` is a parameter, everything else a literal.
  * `segments path`: the path with a leading '/' assumed when absent, split on '/'; empty
                    segments are dropped except a final one; each segment carries the remainder of
                    the path from its first byte (what a `*` binds).
  * `specFind`    : "/" (also "") is matched by a route with the empty pattern first; otherwise the
                    candidates are filtered segment by segment: those whose next element is the
                    literal segment, else those with a `:param` (bind the segment), else those with
                    `*` (bind the rest and stop), else none — never going back; finally, among the
                    exhausted candidates, the exact method, else the method `*`, else none.
  * `specRegister`: which registrations are refused, and why.

  Core Lean only: the driver evaluates `specFind` (`spec` operation).
-/
import Glb.Basic

namespace Glb.RouteList

/-- a registered route: `mux.Handle(pattern, method, _)` -/
structure Route where
  pattern : Bytes
  method : Bytes
  deriving Repr, DecidableEq

inductive Elem where
  | lit (s : Bytes)
  | param (name : Bytes)
  | star
  deriving Repr, DecidableEq

/-- what a captured text is bound to -/
inductive PName where
  | named (n : Bytes)
  | star
  deriving Repr, DecidableEq

/-- split on '/' (always at least one piece) -/
def splitSlash : Bytes → List Bytes
  | [] => [[]]
  | b :: s =>
    if b = 47 then [] :: splitSlash s
    else match splitSlash s with
      | h :: t => (b :: h) :: t
      | [] => [[b]]

def fragments (p : Bytes) : List Bytes := (splitSlash p).filter (· ≠ [])

def classify (f : Bytes) : Elem :=
  if f = [42] then .star
  else match f with
    | 58 :: n => .param n
    | _ => .lit f

/-- `*` ends the pattern -/
def cutStar : List Elem → List Elem
  | [] => []
  | .star :: _ => [.star]
  | e :: r => e :: cutStar r

def pattern (p : Bytes) : List Elem := cutStar ((fragments p).map classify)

/-- the names a route binds, in pattern order -/
def pnames : List Elem → List PName
  | [] => []
  | .lit _ :: r => pnames r
  | .param n :: r => .named n :: pnames r
  | .star :: r => .star :: pnames r

/-! ### segments of a request path -/

/-- split on '/', each piece with the remainder of the input from the piece's first byte -/
def splitRest : Bytes → List (Bytes × Bytes)
  | [] => [([], [])]
  | b :: s =>
    if b = 47 then ([], b :: s) :: splitRest s
    else match splitRest s with
      | (h, _) :: t => (b :: h, b :: s) :: t
      | [] => [([b], [b])]

/-- empty segments are ignored, except a final one -/
def dropEmptyButLast : List (Bytes × Bytes) → List (Bytes × Bytes)
  | [] => []
  | [x] => [x]
  | x :: y :: r => if x.1 = [] then dropEmptyButLast (y :: r) else x :: dropEmptyButLast (y :: r)

/-- the text after the (possibly absent) leading '/' -/
def body (path : Bytes) : Bytes :=
  match path with
  | 47 :: s => s
  | s => s

def segments (path : Bytes) : List (Bytes × Bytes) := dropEmptyButLast (splitRest (body path))

/-! ### selection -/

structure Cand where
  id : Nat
  method : Bytes
  rest : List Elem
  binds : List (PName × Bytes)
  deriving Repr, DecidableEq

/-- all routes as candidates; the id of a route is its position in the list -/
def candsFrom : Nat → List Route → List Cand
  | _, [] => []
  | i, r :: rs => ⟨i, r.method, pattern r.pattern, []⟩ :: candsFrom (i + 1) rs

def stepLit (seg : Bytes) (c : Cand) : Option Cand :=
  match c.rest with
  | .lit s :: r => if s = seg then some { c with rest := r } else none
  | _ => none

def stepParam (seg : Bytes) (c : Cand) : Option Cand :=
  match c.rest with
  | .param n :: r => some { c with rest := r, binds := c.binds ++ [(.named n, seg)] }
  | _ => none

def stepStar (rest : Bytes) (c : Cand) : Option Cand :=
  match c.rest with
  | .star :: _ => some { c with rest := [], binds := c.binds ++ [(.star, rest)] }
  | _ => none

/-- filter the candidates segment by segment: literal, else `:param`, else `*` (stop), else none -/
def walk : List Cand → List (Bytes × Bytes) → List Cand
  | cs, [] => cs
  | cs, (seg, rest) :: more =>
    let ls := cs.filterMap (stepLit seg)
    if ls ≠ [] then walk ls more
    else
      let ps := cs.filterMap (stepParam seg)
      if ps ≠ [] then walk ps more
      else cs.filterMap (stepStar rest)

def methodAll : Bytes := [42]

/-- among the exhausted candidates: exact method, else `*` -/
def pickMethod (cs : List Cand) (method : Bytes) : Option Cand :=
  let ex := cs.filter (fun c => c.rest = [])
  match ex.find? (fun c => c.method = method) with
  | some c => some c
  | none => ex.find? (fun c => c.method = methodAll)

structure Match where
  id : Nat
  binds : List (PName × Bytes)
  deriving Repr, DecidableEq

def specFind (routes : List Route) (path method : Bytes) : Option Match :=
  let cs := candsFrom 0 routes
  let general := (pickMethod (walk cs (segments path)) method).map fun c => ⟨c.id, c.binds⟩
  if body path = [] then
    -- "/" itself (and ""): a route with the empty pattern first
    match pickMethod cs method with
    | some c => some ⟨c.id, c.binds⟩
    | none => general
  else general

/-! ### registration -/

inductive RegErr where
  | invalidMethod
  | invalidFragment
  | duplicate
  deriving Repr, DecidableEq

/-- the nine methods of net/http and `*` -/
def knownMethods : List Bytes := [
  [71, 69, 84], [72, 69, 65, 68], [80, 79, 83, 84], [80, 85, 84], [80, 65, 84, 67, 72],
  [68, 69, 76, 69, 84, 69], [67, 79, 78, 78, 69, 67, 84], [79, 80, 84, 73, 79, 78, 83],
  [84, 82, 65, 67, 69], [42]]

def paramNames : List Elem → List Bytes
  | [] => []
  | .param n :: r => n :: paramNames r
  | _ :: r => paramNames r

/-- the first `:name` that is empty or repeats an earlier one makes the pattern invalid -/
def validPattern (es : List Elem) : Prop := [] ∉ paramNames es ∧ (paramNames es).Nodup

instance (es : List Elem) : Decidable (validPattern es) := by unfold validPattern; infer_instance

/-- a pattern with the parameter names forgotten: two routes collide iff shape and method agree -/
def shape : List Elem → List Elem
  | [] => []
  | .param _ :: r => .param [] :: shape r
  | e :: r => e :: shape r

/-- `Handle(r)` after the routes `ok` have been registered successfully: the number of captured
    values, or the reason for the refusal (checked in this order). -/
def specRegister (ok : List Route) (r : Route) : Except RegErr Nat :=
  if r.method ∉ knownMethods then .error .invalidMethod
  else if ¬ validPattern (pattern r.pattern) then .error .invalidFragment
  else if ∃ r' ∈ ok, shape (pattern r'.pattern) = shape (pattern r.pattern) ∧ r'.method = r.method then .error .duplicate
  else .ok (pnames (pattern r.pattern)).length

end Glb.RouteList
