/-
  Specification side of C13: what a Text line must decode to.

  The data types (`Leaf`, `Attr`, `Op`, `Record`) are shared with the model; nothing of the model's
  functions is used here except `sourceText` (the caller's `dir/file.go:line`).

  * dotted path: `dotted comps`, the components joined with '.', where joining onto an empty path
    gives the component itself (so for components that start with a non-empty one it is exactly
    `intercalate "."`, lemma `dotted_eq_intercalate` in Props/C13).
  * components of an attribute = names of the `WithGroup`s in force, then the keys of the enclosing
    groups (an empty group key is an inline group and contributes nothing), then its own key.
  * value text = the string value / the text the standard library produced for the value.
-/
import Glb.Model.TextHandler
import Glb.Spec.TextTokens

namespace Glb.TextExpected
open Glb Glb.TextHandler Glb.TextTokens

def dot (p k : Bytes) : Bytes := if p.isEmpty then k else p ++ 0x2e :: k

def dotted (comps : List Bytes) : Bytes := comps.foldl dot []

/-- the text a value stands for -/
def leafText : Leaf → Bytes
  | .str s => s
  | .raw _ t => t
  | .via _ s => s
  | .panicNil => nilText
  | .panicVal s => panicPrefix ++ s

mutual
/-- leaves of an attribute in order, each with its dotted path -/
def flatAttr (comps : List Bytes) : Attr → List (Bytes × Leaf)
  | .leaf key v => [(dotted (comps ++ [key]), v)]
  | .group key as => flatAttrs (if key.isEmpty then comps else comps ++ [key]) as
def flatAttrs (comps : List Bytes) : List Attr → List (Bytes × Leaf)
  | [] => []
  | a :: rest => flatAttr comps a ++ flatAttrs comps rest
end

/-- leaves contributed by a derivation chain, and the `WithGroup` names in force after it -/
def flatChain (names : List Bytes) : List Op → List (Bytes × Leaf) × List Bytes
  | [] => ([], names)
  | .withAttrs as :: rest =>
    let r := flatChain names rest
    (flatAttrs names as ++ r.1, r.2)
  | .withGroup g :: rest => flatChain (names ++ [g]) rest

/-- all attribute leaves of a record logged through a chain, in output order -/
def flat (chain : List Op) (r : Record) : List (Bytes × Leaf) :=
  let c := flatChain [] chain
  c.1 ++ flatAttrs c.2 r.attrs

/-- the five level names -/
def levelName (l : Int) : Bytes :=
  if l = 0 then [0x44, 0x45, 0x42, 0x55, 0x47]          -- DEBUG
  else if l = 4 then [0x49, 0x4e, 0x46, 0x4f]           -- INFO
  else if l = 8 then [0x57, 0x41, 0x52, 0x4e]           -- WARN
  else if l = 12 then [0x45, 0x52, 0x52, 0x4f, 0x52]    -- ERROR
  else [0x46, 0x41, 0x54, 0x41, 0x4c]                   -- FATAL

def validLevel (l : Int) : Prop := l = 0 ∨ l = 4 ∨ l = 8 ∨ l = 12 ∨ l = 16

instance (l : Int) : Decidable (validLevel l) := by unfold validLevel; infer_instance

/-- the decoded key/value pairs a line must tokenize to -/
def expected (addSource : Bool) (chain : List Op) (r : Record) : List (Bytes × Bytes) :=
  [(timeKey, r.time), (levelKey, levelName r.level)]
  ++ (if addSource then [(sourceKey, sourceText r)] else [])
  ++ [(msgKey, r.msg)]
  ++ (flat chain r).map fun e => (e.1, leafText e.2)

/-- the tokenizer's parameters that correspond to the handler's standard library -/
def lexOf (P : Std) (unquote : Bytes → Option Bytes) : Lex :=
  { isSpace := P.isSpace, isPrint := P.isPrint, unquote := unquote }

/-- the assumption on stdlib-rendered payloads (`strconv.AppendInt/Uint/Float/Bool`,
    `Duration.String`, `Time.AppendFormat`): text that is appended verbatim is a bare token -/
def leafOK (L : Lex) : Leaf → Prop
  | .raw _ t => bareTok L t
  | _ => True

instance (L : Lex) (v : Leaf) : Decidable (leafOK L v) := by
  cases v <;> simp only [leafOK] <;> infer_instance

end Glb.TextExpected
