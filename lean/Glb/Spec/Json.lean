/-
  Specification side of C01.

  * `JV`        ordered JSON trees: objects are ordered member lists (duplicate keys allowed), strings
                are byte strings, numbers are their text, `raw t` stands for an encoder payload `t`.
  * `P`/`IsJson` the RFC 8259 grammar as an inductive relation in "remaining input" style:
                `P s (.val v) r` = "`s` starts with a JSON value that denotes `v`, `r` is what follows".
                Whitespace may precede and follow every value, strings must be well-formed UTF-8, every
                escape form is decoded (`\" \\ \/ \b \f \n \r \t`, `\uXXXX`, surrogate pairs; an unpaired
                surrogate decodes to U+FFFD like in Go).
  * `san`       per-byte sanitisation: every byte that does not start a well-formed UTF-8 sequence
                becomes EF BF BD, well-formed sequences are kept.
  * `ser q`     canonical serializer (`,`-separated, no whitespace) with string quoting function `q`.
  * `expected`  the tree a record must decode to.
  * `shapeOk`   executable, deliberately lenient bracket/separator recogniser; every valid JSON text
                passes (`Proofs/Json.lean: shapeOk_of_isJson`), so `shapeOk b = false` refutes validity.

  Core Lean only (the driver prints `expected`).
-/
import Glb.Model.JsonHandler

namespace Glb.Json
open Glb

/-! ### trees -/

inductive JV where
  | null
  | lit (b : Bool)
  | num (text : Bytes)
  | str (s : Bytes)
  | raw (text : Bytes)
  | arr (xs : List JV)
  | obj (ms : List (Bytes × JV))
  deriving Inhabited

mutual
/-- apply `f` to every string and every member key -/
def JV.mapStr (f : Bytes → Bytes) : JV → JV
  | .str s => .str (f s)
  | .arr xs => .arr (mapStrL f xs)
  | .obj ms => .obj (mapStrM f ms)
  | .null => .null
  | .lit b => .lit b
  | .num t => .num t
  | .raw t => .raw t
def mapStrL (f : Bytes → Bytes) : List JV → List JV
  | [] => []
  | x :: xs => JV.mapStr f x :: mapStrL f xs
def mapStrM (f : Bytes → Bytes) : List (Bytes × JV) → List (Bytes × JV)
  | [] => []
  | (k, v) :: ms => (f k, JV.mapStr f v) :: mapStrM f ms
end

/-! ### lexical pieces -/

def isWs (b : UInt8) : Bool := b == 0x20 || b == 0x09 || b == 0x0A || b == 0x0D

def isDigit (b : UInt8) : Bool := 0x30 ≤ b && b ≤ 0x39

inductive NumSt where
  | start | minus | zero | int | dot | frac | e | esign | exp
  deriving DecidableEq, Repr

/-- DFA of `number = [ minus ] int [ frac ] [ exp ]` (RFC 8259 §6) -/
def numStep : NumSt → UInt8 → Option NumSt
  | .start, b => if b == 0x2D then some .minus else if b == 0x30 then some .zero
                 else if isDigit b then some .int else none
  | .minus, b => if b == 0x30 then some .zero else if isDigit b then some .int else none
  | .zero, b => if b == 0x2E then some .dot else if b == 0x65 || b == 0x45 then some .e else none
  | .int, b => if isDigit b then some .int else if b == 0x2E then some .dot
               else if b == 0x65 || b == 0x45 then some .e else none
  | .dot, b => if isDigit b then some .frac else none
  | .frac, b => if isDigit b then some .frac else if b == 0x65 || b == 0x45 then some .e else none
  | .e, b => if b == 0x2B || b == 0x2D then some .esign else if isDigit b then some .exp else none
  | .esign, b => if isDigit b then some .exp else none
  | .exp, b => if isDigit b then some .exp else none

def numAccept : NumSt → Bool
  | .zero | .int | .frac | .exp => true
  | _ => false

def numRun : NumSt → Bytes → Option NumSt
  | st, [] => some st
  | st, b :: t => match numStep st b with
    | some st' => numRun st' t
    | none => none

def isNumber (t : Bytes) : Bool :=
  match numRun .start t with
  | some st => numAccept st
  | none => false

def hexVal (b : UInt8) : Option Nat :=
  if 0x30 ≤ b && b ≤ 0x39 then some (b.toNat - 0x30)
  else if 0x61 ≤ b && b ≤ 0x66 then some (b.toNat - 0x61 + 10)
  else if 0x41 ≤ b && b ≤ 0x46 then some (b.toNat - 0x41 + 10)
  else none

def hex4 (a b c d : UInt8) : Option Nat :=
  match hexVal a, hexVal b, hexVal c, hexVal d with
  | some w, some x, some y, some z => some (w * 4096 + x * 256 + y * 16 + z)
  | _, _, _, _ => none

def isHiSurr (c : Nat) : Bool := 0xD800 ≤ c && c < 0xDC00
def isLoSurr (c : Nat) : Bool := 0xDC00 ≤ c && c < 0xE000
def isSurr (c : Nat) : Bool := 0xD800 ≤ c && c < 0xE000

/-- two-character escapes: the character after the backslash ↦ the byte it denotes -/
def simpleEsc (e : UInt8) : Option UInt8 :=
  if e == 0x22 then some 0x22        -- \"
  else if e == 0x5C then some 0x5C   -- \\
  else if e == 0x2F then some 0x2F   -- \/
  else if e == 0x62 then some 0x08   -- \b
  else if e == 0x66 then some 0x0C   -- \f
  else if e == 0x6E then some 0x0A   -- \n
  else if e == 0x72 then some 0x0D   -- \r
  else if e == 0x74 then some 0x09   -- \t
  else none

def replacement : Bytes := [0xEF, 0xBF, 0xBD]

/-- `\u` ++ four hex digits -/
def uEsc (a b c d : UInt8) (s : Bytes) : Bytes := 0x5C :: 0x75 :: a :: b :: c :: d :: s

/-- does `s` start with `\u` + the four hex digits of a low surrogate? -/
def startsLowEsc (s : Bytes) : Bool :=
  s.head? == some 0x5C && s.tail.head? == some 0x75 &&
    (match s.drop 2 with
     | a :: b :: c :: e :: _ => (match hex4 a b c e with
       | some lo => isLoSurr lo
       | none => false)
     | _ => false)

/-- `PStr s d r`: `s` (the input just after an opening quote) consists of string characters
    denoting the byte string `d`, the closing quote, and then `r`. -/
inductive PStr : Bytes → Bytes → Bytes → Prop where
  | done (r : Bytes) : PStr (0x22 :: r) [] r
  /-- unescaped ASCII: %x20-21 / %x23-5B / %x5D-7F -/
  | plain {b : UInt8} {s d r : Bytes} :
      0x20 ≤ b → b < 0x80 → b ≠ 0x22 → b ≠ 0x5C → PStr s d r → PStr (b :: s) (b :: d) r
  /-- unescaped non-ASCII must be well-formed UTF-8 (RFC 3629 table = `Utf8.lead`: lead byte ↦ length and
      the range of the second byte; further bytes are continuation bytes 80..BF); it denotes itself -/
  | multi2 {b0 b1 lo hi : UInt8} {s d r : Bytes} :
      Utf8.lead b0 = some (2, lo, hi) → lo ≤ b1 → b1 ≤ hi →
      PStr s d r → PStr (b0 :: b1 :: s) (b0 :: b1 :: d) r
  | multi3 {b0 b1 b2 lo hi : UInt8} {s d r : Bytes} :
      Utf8.lead b0 = some (3, lo, hi) → lo ≤ b1 → b1 ≤ hi → Utf8.isCont b2 = true →
      PStr s d r → PStr (b0 :: b1 :: b2 :: s) (b0 :: b1 :: b2 :: d) r
  | multi4 {b0 b1 b2 b3 lo hi : UInt8} {s d r : Bytes} :
      Utf8.lead b0 = some (4, lo, hi) → lo ≤ b1 → b1 ≤ hi → Utf8.isCont b2 = true → Utf8.isCont b3 = true →
      PStr s d r → PStr (b0 :: b1 :: b2 :: b3 :: s) (b0 :: b1 :: b2 :: b3 :: d) r
  | esc {e b : UInt8} {s d r : Bytes} :
      simpleEsc e = some b → PStr s d r → PStr (0x5C :: e :: s) (b :: d) r
  | uni {a b c e : UInt8} {cp : Nat} {s d r : Bytes} :
      hex4 a b c e = some cp → isSurr cp = false → PStr s d r →
      PStr (uEsc a b c e s) (Utf8.encodeRune cp ++ d) r
  | pair {a b c e a' b' c' e' : UInt8} {hi lo : Nat} {s d r : Bytes} :
      hex4 a b c e = some hi → isHiSurr hi = true → hex4 a' b' c' e' = some lo → isLoSurr lo = true →
      PStr s d r →
      PStr (uEsc a b c e (uEsc a' b' c' e' s))
        (Utf8.encodeRune (0x10000 + (hi - 0xD800) * 0x400 + (lo - 0xDC00)) ++ d) r
  /-- unpaired surrogate (a low one, or a high one not followed by an escaped low one): U+FFFD, which is
      what Go's decoder yields -/
  | lone {a b c e : UInt8} {cp : Nat} {s d r : Bytes} :
      hex4 a b c e = some cp → isSurr cp = true → (isHiSurr cp && startsLowEsc s) = false →
      PStr s d r → PStr (uEsc a b c e s) (replacement ++ d) r

/-- well-formed UTF-8 (RFC 3629, table `Utf8.lead`) -/
inductive WellFormedUtf8 : Bytes → Prop where
  | nil : WellFormedUtf8 []
  | ascii {b : UInt8} {s : Bytes} : b < 0x80 → WellFormedUtf8 s → WellFormedUtf8 (b :: s)
  | seq2 {b0 b1 lo hi : UInt8} {s : Bytes} : Utf8.lead b0 = some (2, lo, hi) → lo ≤ b1 → b1 ≤ hi →
      WellFormedUtf8 s → WellFormedUtf8 (b0 :: b1 :: s)
  | seq3 {b0 b1 b2 lo hi : UInt8} {s : Bytes} : Utf8.lead b0 = some (3, lo, hi) → lo ≤ b1 → b1 ≤ hi →
      Utf8.isCont b2 = true → WellFormedUtf8 s → WellFormedUtf8 (b0 :: b1 :: b2 :: s)
  | seq4 {b0 b1 b2 b3 lo hi : UInt8} {s : Bytes} : Utf8.lead b0 = some (4, lo, hi) → lo ≤ b1 → b1 ≤ hi →
      Utf8.isCont b2 = true → Utf8.isCont b3 = true → WellFormedUtf8 s → WellFormedUtf8 (b0 :: b1 :: b2 :: b3 :: s)

inductive Item where
  | val (v : JV)
  | elems (vs : List JV)
  | members (ms : List (Bytes × JV))

def nullText : Bytes := [0x6E, 0x75, 0x6C, 0x6C]

/-- The grammar.  `P s (.val v) r`: `s` = value denoting `v`, then `r`.
    `P s (.elems vs) r`: `s` = one or more `,`-separated values, `]`, then `r`.
    `P s (.members ms) r`: `s` = one or more `,`-separated `string : value` members, `}`, then `r`. -/
inductive P : Bytes → Item → Bytes → Prop where
  | ws {b : UInt8} {s r : Bytes} {v : JV} : isWs b = true → P s (.val v) r → P (b :: s) (.val v) r
  | wsAfter {b : UInt8} {s r : Bytes} {v : JV} : isWs b = true → P s (.val v) (b :: r) → P s (.val v) r
  | null (r : Bytes) : P (nullText ++ r) (.val .null) r
  | tru (r : Bytes) : P (JsonHandler.trueText ++ r) (.val (.lit true)) r
  | fls (r : Bytes) : P (JsonHandler.falseText ++ r) (.val (.lit false)) r
  | num {t : Bytes} (r : Bytes) : isNumber t = true → P (t ++ r) (.val (.num t)) r
  | str {s d r : Bytes} : PStr s d r → P (0x22 :: s) (.val (.str d)) r
  /-- `raw t` stands for any value whose text is exactly `t` -/
  | raw {t r : Bytes} {v : JV} : P (t ++ r) (.val v) r → P (t ++ r) (.val (.raw t)) r
  | arrEmpty (r : Bytes) : P (0x5B :: 0x5D :: r) (.val (.arr [])) r
  | arrWs {b : UInt8} {s r : Bytes} : isWs b = true → P (0x5B :: s) (.val (.arr [])) r →
      P (0x5B :: b :: s) (.val (.arr [])) r
  | arr {s r : Bytes} {vs : List JV} : P s (.elems vs) r → P (0x5B :: s) (.val (.arr vs)) r
  | objEmpty (r : Bytes) : P (0x7B :: 0x7D :: r) (.val (.obj [])) r
  | objWs {b : UInt8} {s r : Bytes} : isWs b = true → P (0x7B :: s) (.val (.obj [])) r →
      P (0x7B :: b :: s) (.val (.obj [])) r
  | obj {s r : Bytes} {ms : List (Bytes × JV)} : P s (.members ms) r → P (0x7B :: s) (.val (.obj ms)) r
  | elemsOne {s r : Bytes} {v : JV} : P s (.val v) (0x5D :: r) → P s (.elems [v]) r
  | elemsCons {s s' r : Bytes} {v : JV} {vs : List JV} :
      P s (.val v) (0x2C :: s') → P s' (.elems vs) r → P s (.elems (v :: vs)) r
  | memOne {s s' r k : Bytes} {v : JV} :
      P s (.val (.str k)) (0x3A :: s') → P s' (.val v) (0x7D :: r) → P s (.members [(k, v)]) r
  | memCons {s s' s'' r k : Bytes} {v : JV} {ms : List (Bytes × JV)} :
      P s (.val (.str k)) (0x3A :: s') → P s' (.val v) (0x2C :: s'') → P s'' (.members ms) r →
      P s (.members ((k, v) :: ms)) r

/-- `b` is a JSON text (RFC 8259: `ws value ws`) denoting the tree `v` -/
def IsJson (b : Bytes) (v : JV) : Prop := P b (.val v) []

/-- `b` is a JSON string literal (quotes included) denoting `d` -/
def IsJsonString (b d : Bytes) : Prop := ∃ s, b = 0x22 :: s ∧ PStr s d []

/-! ### contract of opaque payloads -/

mutual
/-- number texts are RFC 8259 numbers; raw payloads are JSON texts without a newline -/
def JV.Ok : JV → Prop
  | .num t => isNumber t = true
  | .raw t => (∃ v, IsJson t v) ∧ 0x0A ∉ t
  | .arr xs => OkL xs
  | .obj ms => OkM ms
  | .null => True
  | .lit _ => True
  | .str _ => True
def OkL : List JV → Prop
  | [] => True
  | x :: xs => x.Ok ∧ OkL xs
def OkM : List (Bytes × JV) → Prop
  | [] => True
  | (_, v) :: ms => v.Ok ∧ OkM ms
end

/-! ### sanitisation -/

/-- every byte that does not start a well-formed UTF-8 sequence ↦ EF BF BD; well-formed sequences kept.
    (Same result as `strings.ToValidUTF8`-per-byte / what `encoding/json` produces when decoding the
    handler's escapes.) -/
def san : Bytes → Bytes
  | [] => []
  | b :: rest =>
    let cs := Utf8.decodeRune (b :: rest)
    if cs.1 == Utf8.runeError && cs.2 == 1 then replacement ++ san rest
    else (b :: rest).take cs.2 ++ san ((b :: rest).drop cs.2)
termination_by s => s.length
decreasing_by
  all_goals simp only [List.length_cons, List.length_drop]
  · omega
  · have := Utf8.decodeRune_size_pos b rest
    omega

/-! ### canonical serializer -/

mutual
def ser (q : Bytes → Bytes) : JV → Bytes
  | .null => nullText
  | .lit b => if b then JsonHandler.trueText else JsonHandler.falseText
  | .num t => t
  | .str s => 0x22 :: q s ++ [0x22]
  | .raw t => t
  | .arr xs => 0x5B :: serElems q xs ++ [0x5D]
  | .obj ms => 0x7B :: serMems q ms ++ [0x7D]
def serElems (q : Bytes → Bytes) : List JV → Bytes
  | [] => []
  | [x] => ser q x
  | x :: y :: xs => ser q x ++ 0x2C :: serElems q (y :: xs)
/-- members joined with `,` -/
def serMems (q : Bytes → Bytes) : List (Bytes × JV) → Bytes
  | [] => []
  | [(k, v)] => 0x22 :: q k ++ [0x22, 0x3A] ++ ser q v
  | (k, v) :: m :: ms => 0x22 :: q k ++ [0x22, 0x3A] ++ ser q v ++ 0x2C :: serMems q (m :: ms)
end

/-- members joined with `,`, preceded by `,` when `sep` and there is at least one member -/
def serSep (q : Bytes → Bytes) (sep : Bool) (ms : List (Bytes × JV)) : Bytes :=
  if ms.isEmpty then [] else (if sep then [0x2C] else []) ++ serMems q ms

/-! ### the expected tree -/
open Glb.JsonHandler

/-- the tree of a leaf before sanitisation (strings as given to the handler) -/
def leafSrc : Leaf → JV
  | .str s => .str s
  | .num t => .num t
  | .bool b => .lit b
  | .time t => .str t
  | .enc (.ok raw) => .raw raw
  | .enc (.error msg) => .str msg
  | .err msg => .str msg
  | .ansi v => .str v
  | .panicNil => .str JsonHandler.nilText
  | .panicMsg m => .str (JsonHandler.panicPrefix ++ m)

mutual
/-- members an attribute contributes to the enclosing object: a leaf one member, a keyed group one member
    holding an object (`{}` when empty), an inline group (empty key) its own members (none when empty) -/
def membersSrc : Attr → List (Bytes × JV)
  | .leaf k v => [(k, leafSrc v)]
  | .group k as => if k.isEmpty then membersSrcL as else [(k, .obj (membersSrcL as))]
def membersSrcL : List Attr → List (Bytes × JV)
  | [] => []
  | a :: as => membersSrc a ++ membersSrcL as
end

/-- `With` attrs in order, each `WithGroup g` wraps everything after it; `tail` = the record's attrs -/
def nestSrc : List Deriv → List (Bytes × JV) → List (Bytes × JV)
  | [], tail => tail
  | .attrs as :: ds, tail => membersSrcL as ++ nestSrc ds tail
  | .group g :: ds, tail => [(g, .obj (nestSrc ds tail))]

def levelName (l : Int) : Bytes :=
  if l == 0 then [0x44, 0x45, 0x42, 0x55, 0x47]        -- DEBUG
  else if l == 4 then [0x49, 0x4E, 0x46, 0x4F]          -- INFO
  else if l == 8 then [0x57, 0x41, 0x52, 0x4E]          -- WARN
  else if l == 12 then [0x45, 0x52, 0x52, 0x4F, 0x52]   -- ERROR
  else if l == 16 then [0x46, 0x41, 0x54, 0x41, 0x4C]   -- FATAL
  else []

def validLevel (l : Int) : Bool := l == 0 || l == 4 || l == 8 || l == 12 || l == 16

/-- the tree before sanitisation -/
def expectedSrc (addSource : Bool) (chain : List Deriv) (r : Rec) : JV :=
  .obj ([(kTime, .str r.time), (kLevel, .str (levelName r.level))]
    ++ (if addSource then
          [(kSource, .obj [(kFile, .str (JsonHandler.trimSource r.file)), (kLine, .num r.line)])]
        else [])
    ++ [(kMsg, .str r.msg)]
    ++ nestSrc chain (membersSrcL r.attrs))

/-- What the line must decode to: time, level, (source{file,line})?, msg, then the attributes — `With`
    attrs and record attrs flattened through inline groups, keyed groups as nested objects, everything
    after a `WithGroup g` inside the object `g` — with every string and key sanitised per byte. -/
def expected (addSource : Bool) (chain : List Deriv) (r : Rec) : JV :=
  (expectedSrc addSource chain r).mapStr san

/-! ### contract of the stdlib payloads inside attributes and records -/

/-- printable ASCII other than `"` and `\\` — what `time.AppendFormat(RFC3339Nano)` produces -/
def plainAscii (b : UInt8) : Bool := 0x20 ≤ b && b < 0x80 && b != 0x22 && b != 0x5C

/-- strconv texts are JSON numbers, time texts are plain ASCII, successful encoder outputs are JSON
    texts without newline.  Nothing is required of strings, keys, error messages. -/
def LeafOk : Leaf → Prop
  | .num t => isNumber t = true
  | .time t => ∀ b ∈ t, plainAscii b = true
  | .enc (.ok raw) => (∃ v, IsJson raw v) ∧ 0x0A ∉ raw
  | _ => True

mutual
def AttrOk : Attr → Prop
  | .leaf _ v => LeafOk v
  | .group _ as => AttrsOk as
def AttrsOk : List Attr → Prop
  | [] => True
  | a :: as => AttrOk a ∧ AttrsOk as
end

def DerivOk : Deriv → Prop
  | .attrs as => AttrsOk as
  | .group _ => True

def ChainOk : List Deriv → Prop
  | [] => True
  | d :: ds => DerivOk d ∧ ChainOk ds

def RecOk (r : Rec) : Prop :=
  (∀ b ∈ r.time, plainAscii b = true) ∧ isNumber r.line = true ∧ AttrsOk r.attrs

/-! ### lenient executable recogniser -/

inductive Mode where
  | val | valOrClose | afterVal | str | strEsc
  deriving DecidableEq, Repr

/-- characters of numbers and literals -/
def isAtomChar (b : UInt8) : Bool :=
  isDigit b || b == 0x2D || b == 0x2B || b == 0x2E || (0x61 ≤ b && b ≤ 0x7A) || b == 0x45

/-- one step of the bracket/separator automaton; the stack holds `true` for `{`, `false` for `[` -/
def shapeStep : Mode × List Bool → UInt8 → Option (Mode × List Bool)
  | (.str, stk), b => if b == 0x22 then some (.afterVal, stk) else if b == 0x5C then some (.strEsc, stk)
                      else some (.str, stk)
  | (.strEsc, stk), _ => some (.str, stk)
  | (.afterVal, stk), b =>
    if isWs b || isAtomChar b then some (.afterVal, stk)
    else if b == 0x2C then (match stk with | [] => none | _ :: _ => some (.val, stk))
    else if b == 0x3A then (match stk with | true :: _ => some (.val, stk) | _ => none)
    else if b == 0x7D then (match stk with | true :: t => some (.afterVal, t) | _ => none)
    else if b == 0x5D then (match stk with | false :: t => some (.afterVal, t) | _ => none)
    else none
  | (m, stk), b =>   -- val / valOrClose
    if isWs b then some (m, stk)
    else if b == 0x7B then some (.valOrClose, true :: stk)
    else if b == 0x5B then some (.valOrClose, false :: stk)
    else if b == 0x22 then some (.str, stk)
    else if isAtomChar b then some (.afterVal, stk)
    else if m == .valOrClose && b == 0x7D then (match stk with | true :: t => some (.afterVal, t) | _ => none)
    else if m == .valOrClose && b == 0x5D then (match stk with | false :: t => some (.afterVal, t) | _ => none)
    else none

def shapeRun : Option (Mode × List Bool) → Bytes → Option (Mode × List Bool)
  | st, [] => st
  | none, _ => none
  | some st, b :: t => shapeRun (shapeStep st b) t

/-- necessary condition for being a JSON text -/
def shapeOk (b : Bytes) : Bool :=
  match shapeRun (some (.val, [])) b with
  | some (.afterVal, []) => true
  | _ => false

end Glb.Json
