/-
  Specification side of C13: an executable tokenizer for the line format

      line  ::= pair (' ' pair)* '\n'
      pair  ::= token '=' token
      token ::= bare | quoted

  * a BARE token is a maximal non-empty run of "bare runes":
      - an ASCII byte that is not a control byte (< 0x20), not ' ', not '=', not '"'
        (backslash and DEL are ordinary bare bytes), or
      - a well-formed multi-byte UTF-8 sequence whose rune is not `isSpace` and is `isPrint`
        (an ill-formed or truncated sequence is not a bare rune);
    it stands for itself.
  * a QUOTED token starts with '"' and ends at the first '"' that is not escaped, i.e. not
    preceded by an odd run of backslashes (scanned left to right: a backslash takes the next byte
    with it); raw bytes < 0x20 are not allowed inside; it stands for `unquote` of the whole token.
  Anything else (missing '=', junk after a token, text after the newline, no newline) is rejected,
  so `tokenize line = some kvs` means the line splits into exactly those pairs and nothing more.

  `unicode.IsSpace/IsPrint` and `strconv.Unquote` are parameters (`Lex`).  The assumed contract of
  `strconv.Quote/Unquote` is the structure `QuoteContract` (hypotheses, never axioms); the instance
  `xQuote/xUnquote` (every byte written `\xNN`) is proved to satisfy it, so it is not vacuous; and
  `Glb.Props.C13b.go_contract` proves it for the transcription of the real `strconv.Quote/Unquote`
  (`Glb/Model/StrconvQuote.lean`, tied to the standard library by the stream `quote`).
  Core Lean only (linked into the driver).
-/
import Glb.Basic
import Glb.Model.Utf8

namespace Glb.TextTokens
open Glb

structure Lex where
  isSpace : Nat → Bool
  isPrint : Nat → Bool
  unquote : Bytes → Option Bytes

/-- ASCII bytes allowed in a bare token -/
def bareAscii (b : UInt8) : Bool := !(b ≤ 0x20) && b != 0x3d && b != 0x22

/-- Number of bytes of the bare rune at the head of the input; `none` if the input does not start
    with a bare rune. -/
def bareRuneLen (L : Lex) : Bytes → Option Nat
  | [] => none
  | b :: rest =>
    if b < 0x80 then (if bareAscii b then some 1 else none)
    else
      let d := Utf8.decodeRune (b :: rest)
      if d.2 < 2 then none                         -- ill-formed UTF-8
      else if L.isSpace d.1 || !L.isPrint d.1 then none
      else some d.2

/-- `allBare L 0 s`: `s` consists of bare runes only (first argument: bytes of the current rune
    still to be stepped over). -/
def allBare (L : Lex) : Nat → Bytes → Bool
  | _, [] => true
  | k + 1, _ :: rest => allBare L k rest
  | 0, b :: rest =>
    match bareRuneLen L (b :: rest) with
    | none => false
    | some n => allBare L (n - 1) rest

/-- the class of byte strings that may appear as a bare token -/
def bareTok (L : Lex) (s : Bytes) : Prop := s ≠ [] ∧ allBare L 0 s = true

instance (L : Lex) (s : Bytes) : Decidable (bareTok L s) := by unfold bareTok; infer_instance

/-- split off the maximal run of bare runes -/
def spanBare (L : Lex) : Nat → Bytes → Bytes × Bytes
  | _, [] => ([], [])
  | k + 1, b :: rest => let r := spanBare L k rest; (b :: r.1, r.2)
  | 0, b :: rest =>
    match bareRuneLen L (b :: rest) with
    | none => ([], b :: rest)
    | some n => let r := spanBare L (n - 1) rest; (b :: r.1, r.2)

/-- Scan the inside of a quoted token (after the opening '"'): returns the interior and what
    follows the closing '"'.  The flag says that the previous byte was an unescaped backslash. -/
def scanQuoted : Bool → Bytes → Option (Bytes × Bytes)
  | _, [] => none
  | true, b :: rest =>
    if b < 0x20 then none
    else (scanQuoted false rest).map fun r => (b :: r.1, r.2)
  | false, b :: rest =>
    if b < 0x20 then none
    else if b == 0x22 then some ([], rest)
    else (scanQuoted (b == 0x5c) rest).map fun r => (b :: r.1, r.2)

/-- one token: its meaning and the rest of the input -/
def token (L : Lex) : Bytes → Option (Bytes × Bytes)
  | [] => none
  | b :: rest =>
    if b == 0x22 then
      match scanQuoted false rest with
      | none => none
      | some (body, after) =>
        match L.unquote (0x22 :: body ++ [0x22]) with
        | none => none
        | some v => some (v, after)
    else
      let r := spanBare L 0 (b :: rest)
      if r.1.isEmpty then none else some r

/-- `pair (' ' pair)* '\n'` and then end of input; the first argument bounds the number of pairs -/
def pairs (L : Lex) : Nat → Bytes → Option (List (Bytes × Bytes))
  | 0, _ => none
  | fuel + 1, s =>
    match token L s with
    | none => none
    | some (k, r1) =>
      match r1 with
      | [] => none
      | c :: r2 =>
        if c != 0x3d then none
        else match token L r2 with
          | none => none
          | some (v, r3) =>
            match r3 with
            | [] => none
            | d :: r4 =>
              if d == 0x0a then (if r4.isEmpty then some [(k, v)] else none)
              else if d == 0x20 then (pairs L fuel r4).map fun l => (k, v) :: l
              else none

/-- the tokenizer: every pair takes at least one byte, so `s.length` pairs are enough -/
def tokenize (L : Lex) (s : Bytes) : Option (List (Bytes × Bytes)) := pairs L s.length s

/-! ### contract of strconv.Quote / strconv.Unquote -/

/-- Interior of a quoted string: no byte < 0x20 (in particular no raw newline), no '"' unless
    escaped, and no dangling backslash at the end (else the closing '"' would be escaped).  The flag
    says that the previous byte was an unescaped backslash.  Equivalent to: every '"' is preceded by
    an odd run of backslashes and the interior ends in an even run. -/
def interiorOK : Bool → Bytes → Bool
  | esc, [] => !esc
  | true, b :: rest => !(b < 0x20) && interiorOK false rest
  | false, b :: rest => !(b < 0x20) && b != 0x22 && interiorOK (b == 0x5c) rest

structure QuoteContract (quote : Bytes → Bytes) (unquote : Bytes → Option Bytes) : Prop where
  /-- `Quote s` is `"…"` with a well-escaped interior -/
  shape : ∀ s, ∃ body, quote s = 0x22 :: body ++ [0x22] ∧ interiorOK false body = true
  /-- `Unquote (Quote s) = s` -/
  roundtrip : ∀ s, unquote (quote s) = some s
  /-- `Unquote "\"\"" = ""` (the handler writes the empty string as the literal `""`) -/
  empty : unquote [0x22, 0x22] = some []

/-! ### a concrete instance: every byte as `\xNN` -/

def hexNib (n : Nat) : UInt8 := if n < 10 then UInt8.ofNat (48 + n) else UInt8.ofNat (87 + n)

def nibVal (c : UInt8) : Option Nat :=
  if 48 ≤ c.toNat ∧ c.toNat ≤ 57 then some (c.toNat - 48)
  else if 97 ≤ c.toNat ∧ c.toNat ≤ 102 then some (c.toNat - 87)
  else none

def xBody : Bytes → Bytes
  | [] => []
  | b :: rest => 0x5c :: 0x78 :: hexNib (b.toNat / 16) :: hexNib (b.toNat % 16) :: xBody rest

def xQuote (s : Bytes) : Bytes := 0x22 :: xBody s ++ [0x22]

/-- decode `\xNN…"` -/
def xDecode : Bytes → Option Bytes
  | [0x22] => some []
  | 0x5c :: 0x78 :: h :: l :: rest =>
    match nibVal h, nibVal l, xDecode rest with
    | some a, some b, some r => some (UInt8.ofNat (a * 16 + b) :: r)
    | _, _, _ => none
  | _ => none

def xUnquote : Bytes → Option Bytes
  | 0x22 :: rest => xDecode rest
  | _ => none

end Glb.TextTokens
