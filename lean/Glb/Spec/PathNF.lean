/-
  Specification vocabulary of C17: the lexical normal form of a POSIX path and "lies beneath".

  `nf p = (rooted, stack)`: whether `p` starts at the root, and the sequence of directory moves
  that remains after lexical simplification, bottom first.  The stack of a well-formed normal
  form is `".."^k ++ segs` with `segs` normal segments and `k = 0` for rooted paths
  (`WellFormed`).  `beneath b r`: `r` has the rootedness of `b`, and its stack is the stack of `b`
  followed only by *normal* segments — names that are not empty, not ".", not ".." and contain no
  '/' byte.  So `r` is `b` itself (`xs = []`) or is reached from `b` by descending only.
-/
import Glb.Model.PathClean

namespace Glb.PathNF
open Glb.PathClean

structure NF where
  rooted : Bool
  stack : List Bytes
  deriving DecidableEq, Repr

/-- lexical normal form of a path -/
def nf (p : Bytes) : NF := ⟨isRooted p, stackOf (isRooted p) (split p)⟩

/-- a real path element: a file or directory name -/
def Normal (s : Bytes) : Prop := s ≠ [] ∧ s ≠ dot ∧ s ≠ dotdot ∧ slash ∉ s

instance (s : Bytes) : Decidable (Normal s) := by unfold Normal; infer_instance

/-- shape of a normal form: leading ".." only, and none at all under the root -/
def WellFormed (n : NF) : Prop :=
  ∃ k segs, n.stack = List.replicate k dotdot ++ segs ∧ (∀ s ∈ segs, Normal s) ∧ (n.rooted = true → k = 0)

/-- the path a normal form stands for (what Clean prints) -/
def NF.render (n : NF) : Bytes := PathClean.render n.rooted n.stack

/-- `r` is `b` or lies beneath it, witnessed by the descending segments `xs`. -/
def beneathVia (b r : Bytes) (xs : List Bytes) : Prop :=
  (nf r).rooted = (nf b).rooted ∧ (∀ x ∈ xs, Normal x) ∧ (nf r).stack = (nf b).stack ++ xs

def beneath (b r : Bytes) : Prop := ∃ xs, beneathVia b r xs

/-- no segment of the path is "." or ".." -/
def DotFree (p : Bytes) : Prop := ∀ s ∈ split p, s ≠ dot ∧ s ≠ dotdot

instance (p : Bytes) : Decidable (DotFree p) := by unfold DotFree; infer_instance

end Glb.PathNF
