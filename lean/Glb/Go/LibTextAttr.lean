/-
  `slog.Attr` as the translated `appendTextAttr` sees it: the text model's resolved attribute tree
  (Glb.TextHandler.Attr), with the accessors the Go code uses; `valueAppend` is the model's
  `appendTextValue` (leaf rendering: standard-library results are payloads there).
-/
import Glb.Go.Prelude
import Glb.Model.TextHandler

namespace Glb.Go.LibTextAttr
open Glb.TextHandler

def isGroup : Attr → Bool
  | .group _ _ => true
  | .leaf _ _ => false

def keyOf : Attr → Bytes
  | .group k _ => k
  | .leaf k _ => k

def groupOf : Attr → List Attr
  | .group _ as => as
  | .leaf _ _ => []

/-- `appendTextValue(buf, a.Value, false)` (only called for a non-group value) -/
def valueAppend (P : Std) (buf : Bytes) : Attr → Bytes
  | .leaf _ v => appendTextValue P buf v
  | .group _ _ => buf

end Glb.Go.LibTextAttr
