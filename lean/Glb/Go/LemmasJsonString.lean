/-
  Glb.Go.LemmasJsonString — a Hoare-style rule for `Glb.Go.loop` (helper of Tie/TrJsonString.lean).

  `loop_eq` needs a `model` that is a *function* of the state; for a loop whose final state is not a
  convenient function of the start state (here: the lazily copied run `str[start:i]`), a relational
  invariant is easier: if `Inv` is preserved by every evaluation, the loop never breaks / returns /
  panics under `Inv`, and a measure decreases, then the loop ends normally in some state satisfying
  `Inv` in which the condition is false.  Stated in continuation form so that it can be applied
  (`refine loop_inv_bind …`) to a goal `loop … >>= k = r` without naming the generated lambdas.
-/
import Glb.Go.Lemmas

namespace Glb.Go

/-- one evaluation of the loop from a state satisfying `Inv`: the condition does not panic; if it is
    true the body falls through (`next`), the post statement succeeds, `Inv` holds again and the
    measure went down -/
def StepInv {σ ρ} (cond : σ → M Bool) (body : σ → M (Ctl σ ρ)) (post : σ → M σ)
    (Inv : σ → Prop) (measure : σ → Nat) (st : σ) : Prop :=
  match cond st with
  | .error _ => False
  | .ok false => True
  | .ok true =>
    match body st with
    | .ok (.next s) =>
      match post s with
      | .error _ => False
      | .ok s' => Inv s' ∧ measure s' < measure st
    | _ => False

theorem loop_inv {σ ρ} {cond : σ → M Bool} {body : σ → M (Ctl σ ρ)} {post : σ → M σ}
    (Inv : σ → Prop) (measure : σ → Nat)
    (hstep : ∀ st, Inv st → StepInv cond body post Inv measure st) :
    ∀ (fuel : Nat) (st : σ), Inv st → measure st < fuel →
      ∃ st', loop st fuel cond body post = .ok (.inl st') ∧ Inv st' ∧ cond st' = .ok false := by
  intro fuel
  induction fuel with
  | zero => intro st _ h; omega
  | succ n ih =>
    intro st hinv hm
    have hs := hstep st hinv
    unfold StepInv at hs
    rw [loop_succ]
    cases hc : cond st with
    | error e => simp only [hc] at hs
    | ok b =>
      cases b with
      | false => exact ⟨st, rfl, hinv, hc⟩
      | true =>
        simp only [hc] at hs ⊢
        cases hb : body st with
        | error e => simp only [hb] at hs
        | ok ctl =>
          cases ctl with
          | ret r => simp only [hb] at hs
          | brk s => simp only [hb] at hs
          | next s =>
            simp only [hb] at hs ⊢
            cases hp : post s with
            | error e => simp only [hp] at hs
            | ok s' =>
              simp only [hp] at hs ⊢
              obtain ⟨hi, hlt⟩ := hs
              exact ih s' hi (by omega)

/-- continuation form of `loop_inv` -/
theorem loop_inv_bind {σ ρ β} {cond : σ → M Bool} {body : σ → M (Ctl σ ρ)} {post : σ → M σ}
    {st0 : σ} {fuel : Nat} {k : Sum σ ρ → M β} {r : M β}
    (Inv : σ → Prop) (measure : σ → Nat)
    (hstep : ∀ st, Inv st → StepInv cond body post Inv measure st)
    (hinv : Inv st0) (hm : measure st0 < fuel)
    (hk : ∀ st', Inv st' → cond st' = .ok false → k (.inl st') = r) :
    (loop st0 fuel cond body post >>= k) = r := by
  obtain ⟨st', h1, h2, h3⟩ := loop_inv Inv measure hstep fuel st0 hinv hm
  rw [h1]
  exact hk st' h2 h3

end Glb.Go
