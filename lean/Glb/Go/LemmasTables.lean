/-
  Glb.Go.LemmasTables — bounds-checked reads of the regenerated logger tables (`safeSet`, `hex`) and
  in-range slices, as the translated JSON and text string writers perform them.  Shared by
  Tie/TrJsonString (C01) and Tie/TrText (C13): it depends on the tables only, not on either
  translated function.
-/
import Glb.Go.Lemmas
import Glb.Model.JsonHandler
import Glb.Tie.Logger

namespace Glb.Go.Tables
open Glb Glb.Go Glb.JsonHandler

theorem idx_safeSet (c : UInt8) (hc : c < 128) : idx Generated.safeSet c = .ok (safe c) := by
  have hn : c.toNat < 128 := by simpa [UInt8.lt_iff_toNat_lt] using hc
  have hl := Tie.Logger.safeSet_length
  rw [idx_u8, idxI_nat, idx?_ok _ _ (by omega)]
  simp [safe, List.getElem?_eq_getElem (show c.toNat < Generated.safeSet.length by omega)]

theorem idxI_hex (n : Nat) (h : n < 16) : idxI Generated.hex (n : Int) = .ok (hexAt n) := by
  have hl := Tie.Logger.hex_length
  rw [idxI_nat, idx?_ok _ _ (by omega)]
  simp [hexAt, List.getElem?_eq_getElem (show n < Generated.hex.length by omega)]

theorem idx_hex_hi (c : UInt8) : idx Generated.hex (shr c 4) = .ok (hexAt (c.toNat / 16)) := by
  have : (c >>> 4).toNat = c.toNat / 16 := by
    simp [UInt8.toNat_shiftRight, Nat.shiftRight_eq_div_pow]
  rw [idx_u8, this]
  exact idxI_hex _ (by have := c.toNat_lt; omega)

theorem idx_hex_lo (c : UInt8) : idx Generated.hex (band c 15) = .ok (hexAt (c.toNat % 16)) := by
  have : (c &&& 15).toNat = c.toNat % 16 := by
    simp [UInt8.toNat_and]
    exact Nat.and_two_pow_sub_one_eq_mod c.toNat 4
  rw [idx_u8, this]
  exact idxI_hex _ (by omega)

theorem slice_ok (str : Bytes) (a b : Nat) (h1 : a ≤ b) (h2 : b ≤ str.length) :
    slice str (a : Int) (b : Int) = .ok ((str.drop a).take (b - a)) := by
  simp [Glb.slice?, h1, h2]

theorem sliceFrom_ok (str : Bytes) (a : Nat) (h : a ≤ str.length) :
    sliceFrom str (a : Int) = .ok (str.drop a) := by
  have : List.take (str.length - a) (List.drop a str) = List.drop a str :=
    List.take_of_length_le (by simp)
  simp [Glb.slice?, h, this]

end Glb.Go.Tables
