/-
  Standard-library functions called by the translated text-handler code, taken from the parameter
  record `Glb.TextHandler.Std` of the hand model (unicode.IsSpace / unicode.IsPrint / strconv.Quote are
  NOT modelled there either: the C13 theorems hold for every such record satisfying the quoting
  contract, and Props/C13b discharges the contract for the transcription of the real quoter).
-/
import Glb.Go.Prelude
import Glb.Model.TextHandler

namespace Glb.Go.LibText
open Glb.TextHandler

/-- `unicode.IsSpace(r)` for a Go rune -/
def isSpace (P : Std) (r : Int) : Bool := P.isSpace r.toNat
/-- `unicode.IsPrint(r)` -/
def isPrint (P : Std) (r : Int) : Bool := P.isPrint r.toNat
/-- `strconv.AppendQuote(buf, s)` -/
def appendQuote (P : Std) (buf s : Bytes) : Bytes := buf ++ P.quote s

end Glb.Go.LibText
