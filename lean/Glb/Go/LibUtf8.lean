/-
  Standard-library functions called by translated logger code, given by the hand models the
  framework already validates against the real library (stream `utf8`: every byte string of the
  exhaustive classes is compared with `utf8.DecodeRuneInString`).
-/
import Glb.Go.Prelude
import Glb.Model.Utf8

namespace Glb.Go.LibUtf8

/-- `utf8.DecodeRuneInString(s)`: (rune, size) as Go ints -/
def decodeRuneInString (s : Bytes) : Int × Int :=
  let r := Glb.Utf8.decodeRune s
  ((r.1 : Int), (r.2 : Int))

end Glb.Go.LibUtf8
