/-
  `slog.Value` as the translated `appendNanoValue` sees it: the Nano model's resolved attribute tree
  (a leaf stands for its value); `leafBytes` is what the `switch v.Kind()` writes after the space
  (standard-library results are payloads of the model).
-/
import Glb.Go.Prelude
import Glb.Model.NanoHandler

namespace Glb.Go.LibNano
open Glb.NanoHandler

def isGroup : Attr → Bool
  | .group _ _ => true
  | .leaf _ _ => false

def groupOf : Attr → List Attr
  | .group _ as => as
  | .leaf _ _ => []

def leafBytes : Attr → Bytes
  | .leaf _ v => leafText v
  | .group _ _ => []

end Glb.Go.LibNano
