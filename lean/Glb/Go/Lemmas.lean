/-
  Glb.Go.Lemmas — reasoning principles for translated code (`Glb.Go.loop`, bounds-checked access).
-/
import Glb.Go.Prelude

namespace Glb.Go

@[simp] theorem loop_zero {σ ρ} (st : σ) (c : σ → M Bool) (b : σ → M (Ctl σ ρ)) (p : σ → M σ) :
    loop st 0 c b p = .error (.other "fuel") := rfl

theorem loop_succ {σ ρ} (st : σ) (n : Nat) (c : σ → M Bool) (b : σ → M (Ctl σ ρ)) (p : σ → M σ) :
    loop st (n + 1) c b p =
      match c st with
      | .error e => .error e
      | .ok false => .ok (.inl st)
      | .ok true =>
        match b st with
        | .error e => .error e
        | .ok (.brk s) => .ok (.inl s)
        | .ok (.ret r) => .ok (.inr r)
        | .ok (.next s) =>
          match p s with
          | .error e => .error e
          | .ok s' => loop s' n c b p := rfl

/-- the condition is false: the loop ends in the same state -/
theorem loop_exit {σ ρ} (st : σ) (n : Nat) (c : σ → M Bool) (b : σ → M (Ctl σ ρ)) (p : σ → M σ)
    (h : c st = .ok false) : loop st (n + 1) c b p = .ok (.inl st) := by
  simp only [loop_succ, h]

/-- one full iteration -/
theorem loop_step {σ ρ} (st s s' : σ) (n : Nat) (c : σ → M Bool) (b : σ → M (Ctl σ ρ)) (p : σ → M σ)
    (hc : c st = .ok true) (hb : b st = .ok (.next s)) (hp : p s = .ok s') :
    loop st (n + 1) c b p = loop s' n c b p := by
  simp only [loop_succ, hc, hb, hp]

theorem loop_ret {σ ρ} (st : σ) (r : ρ) (n : Nat) (c : σ → M Bool) (b : σ → M (Ctl σ ρ)) (p : σ → M σ)
    (hc : c st = .ok true) (hb : b st = .ok (.ret r)) :
    loop st (n + 1) c b p = .ok (.inr r) := by
  simp only [loop_succ, hc, hb]

theorem loop_brk {σ ρ} (st s : σ) (n : Nat) (c : σ → M Bool) (b : σ → M (Ctl σ ρ)) (p : σ → M σ)
    (hc : c st = .ok true) (hb : b st = .ok (.brk s)) :
    loop st (n + 1) c b p = .ok (.inl s) := by
  simp only [loop_succ, hc, hb]

@[simp] theorem len_eq {α} (s : List α) : len s = (s.length : Int) := rfl

@[simp] theorem idxI_nat {α} (s : List α) (n : Nat) : idxI s (n : Int) = Glb.idx? s n := by
  simp [idxI]

theorem idx_nat {α} (s : List α) (n : Nat) : idx s (n : Int) = Glb.idx? s n := by
  simp

theorem idx_ok {α} (s : List α) (n : Nat) (h : n < s.length) : idx s (n : Int) = .ok s[n] := by
  simp [idxI, Glb.idx?, h]

theorem idxI_ok {α} (s : List α) (n : Nat) (h : n < s.length) : idxI s (n : Int) = .ok s[n] := by
  simp [idxI, Glb.idx?, h]

theorem idxI_neg {α} (s : List α) (i : Int) (h : i < 0) : idxI s i = .error (.other "index<0") := by
  simp [idxI]; omega

theorem idxI_ge {α} (s : List α) (i : Int) (h0 : 0 ≤ i) (h : (s.length : Int) ≤ i) :
    idxI s i = .error (.indexRange i.toNat s.length) := by
  have : s[i.toNat]? = none := by simp; omega
  simp [idxI, h0, Glb.idx?, this]

theorem idx?_ok {α} (s : List α) (n : Nat) (h : n < s.length) : Glb.idx? s n = .ok s[n] := by
  simp [Glb.idx?, h]

theorem idx_drop {α} (s : List α) (n : Nat) (c : α) (rest : List α) (h : s.drop n = c :: rest) :
    idx s (n : Int) = .ok c := by
  have hn : n < s.length := by
    rcases Nat.lt_or_ge n s.length with h1 | h1
    · exact h1
    · rw [List.drop_of_length_le h1] at h; cases h
  rw [idx_ok s n hn]
  have := List.getElem_cons_drop hn
  rw [h] at this
  injection this with h1 _
  rw [h1]

theorem drop_succ_of_drop {α} (s : List α) (n : Nat) (c : α) (rest : List α)
    (h : s.drop n = c :: rest) : s.drop (n + 1) = rest := by
  have : s.drop (n + 1) = (s.drop n).drop 1 := by simp [List.drop_drop]
  rw [this, h]; rfl

theorem length_of_drop_nil {α} (s : List α) (n : Nat) (h : s.drop n = []) : s.length ≤ n := by
  simpa [List.drop_eq_nil_iff] using h

theorem lt_length_of_drop_cons {α} (s : List α) (n : Nat) (c : α) (rest : List α)
    (h : s.drop n = c :: rest) : n < s.length := by
  rcases Nat.lt_or_ge n s.length with h1 | h1
  · exact h1
  · rw [List.drop_of_length_le h1] at h; cases h

@[simp] theorem slice_nat {α} (s : List α) (a b : Nat) : slice s (a : Int) (b : Int) = Glb.slice? s a b := by
  simp [slice]

@[simp] theorem sliceFrom_nat {α} (s : List α) (a : Nat) :
    sliceFrom s (a : Int) = Glb.slice? s a s.length := by
  simp [sliceFrom, slice]

end Glb.Go

namespace Glb.Go

/-- What one evaluation of a loop from state `st` must look like for `model` to describe the loop:
    `model st` is the loop's whole outcome from `st`. -/
def StepOK {σ ρ} (cond : σ → M Bool) (body : σ → M (Ctl σ ρ)) (post : σ → M σ)
    (Inv : σ → Prop) (measure : σ → Nat) (model : σ → M (Sum σ ρ)) (st : σ) : Prop :=
  match cond st with
  | .error e => model st = .error e
  | .ok false => model st = .ok (.inl st)
  | .ok true =>
    match body st with
    | .error e => model st = .error e
    | .ok (.ret r) => model st = .ok (.inr r)
    | .ok (.brk s) => model st = .ok (.inl s)
    | .ok (.next s) =>
      match post s with
      | .error e => model st = .error e
      | .ok s' => Inv s' ∧ measure s' < measure st ∧ model st = model s'

/-- The loop rule: a `model` that is correct for one evaluation from every state satisfying the
    invariant, with a measure that decreases around the loop, describes the loop whenever the fuel
    exceeds the measure (so the fuel never runs out). -/
theorem loop_eq {σ ρ} {cond : σ → M Bool} {body : σ → M (Ctl σ ρ)} {post : σ → M σ}
    (Inv : σ → Prop) (measure : σ → Nat) (model : σ → M (Sum σ ρ))
    (hstep : ∀ st, Inv st → StepOK cond body post Inv measure model st) :
    ∀ (fuel : Nat) (st : σ), Inv st → measure st < fuel → loop st fuel cond body post = model st := by
  intro fuel
  induction fuel with
  | zero => intro st _ h; omega
  | succ n ih =>
    intro st hinv hm
    have hs := hstep st hinv
    unfold StepOK at hs
    rw [loop_succ]
    cases hc : cond st with
    | error e => simp only [hc] at hs ⊢; exact hs.symm
    | ok b =>
      cases b with
      | false => simp only [hc] at hs ⊢; exact hs.symm
      | true =>
        simp only [hc] at hs ⊢
        cases hb : body st with
        | error e => simp only [hb] at hs ⊢; exact hs.symm
        | ok ctl =>
          cases ctl with
          | ret r => simp only [hb] at hs ⊢; exact hs.symm
          | brk s => simp only [hb] at hs ⊢; exact hs.symm
          | next s =>
            simp only [hb] at hs ⊢
            cases hp : post s with
            | error e => simp only [hp] at hs ⊢; exact hs.symm
            | ok s' =>
              simp only [hp] at hs ⊢
              obtain ⟨hi, hlt, he⟩ := hs
              rw [he]
              exact ih s' hi (by omega)

end Glb.Go
