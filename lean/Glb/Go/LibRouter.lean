/-
  Pointer statements of `parseRoute` (/repo/httpd/tree.go) over the model's trie: the Go variable
  `node *treeNode` is the pair (root, keys walked from the root).  `nextNodeOrNew` creates what is
  missing along the way (`Glb.Router.modifyAt`), the two field stores rebuild the trie at the node.
  These five definitions are the hand-written part of the translation of `parseRoute` (rewrite rules in
  tools/extract/golean.go); everything else of that function is translated from the source.
-/
import Glb.Go.Prelude
import Glb.Model.Router

namespace Glb.Go.LibRouter
open Glb.Router

/-- the node reached from `root` along `keys` (it exists: every key was walked with nextNodeOrNew) -/
def nodeAt (root : Node) (keys : List Bytes) : Node := (descend root keys).getD Node.empty

/-- `node = node.nextNodeOrNew(k)`: the trie afterwards (the node at `keys ++ [k]` exists) -/
def ensureAt (root : Node) (keys : List Bytes) (k : Bytes) : Node := modifyAt (fun n => n) root (keys ++ [k])

/-- `_, ok = node.next[k]` -/
def hasChildAt (root : Node) (keys : List Bytes) (k : Bytes) : Bool := ((nodeAt root keys).child k).isSome

/-- `node.info = info` -/
def setInfoAt (root : Node) (keys : List Bytes) (id : RouteId) : Node :=
  modifyAt (fun n => .mk n.next (some id) n.params) root keys

/-- `node.paramNameList = names` -/
def setParamsAt (root : Node) (keys : List Bytes) (names : List Bytes) : Node :=
  modifyAt (fun n => .mk n.next n.info names) root keys

end Glb.Go.LibRouter
