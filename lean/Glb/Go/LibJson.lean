/-
  `slog.Attr` as the translated `appendJsonAttr` sees it: the model's resolved attribute tree
  (Glb.JsonHandler.Attr; `a.Value = a.Value.Resolve()` has already happened), with the accessors the
  Go code uses.  `valueBytes` is what `appendJsonValue(buf, a.Value, false)` appends for a leaf (the
  model's leaf writer: results of strconv / time / encoding/json / Error() are payloads there).
-/
import Glb.Go.Prelude
import Glb.Model.JsonHandler

namespace Glb.Go.LibJson
open Glb.JsonHandler

/-- `a.Value.Kind() == slog.KindGroup` -/
def isGroup : Attr → Bool
  | .group _ _ => true
  | .leaf _ _ => false

/-- `a.Key` -/
def keyOf : Attr → Bytes
  | .group k _ => k
  | .leaf k _ => k

/-- `a.Value.Group()` -/
def groupOf : Attr → List Attr
  | .group _ as => as
  | .leaf _ _ => []

/-- what `appendJsonValue(buf, a.Value, false)` appends (only called for a non-group value) -/
def valueBytes : Attr → Bytes
  | .leaf _ v => appendJsonValue v
  | .group _ _ => []

end Glb.Go.LibJson
