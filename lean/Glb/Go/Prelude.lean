/-
  Glb.Go.Prelude — target language of the Go→Lean translator (`tools/extract/golean.go`).

  The translator prints every Go function of its subset as a Lean `do` block in the monad
  `M = Except GoPanic`; Lean's own `do` notation carries the mutable locals of straight-line code
  and of `if`/`switch`.  Loops are NOT left to `do` notation: every Go `for` becomes one call of
  `Go.loop` (state tuple = the variables the loop assigns, a fuel bound, condition / body / post
  statement), so that theorems about translated code are plain inductions over the fuel.

  Conventions (the translator's reading of Go, part of the trusted base):
    * `string`, `[]byte`  ↦ `Bytes = List UInt8` (value semantics; aliasing of slices is NOT
      represented — the translator refuses functions that store into a slice they did not build);
    * `byte`/`uint8` ↦ `UInt8`, `uint32` ↦ `UInt32` (wrap-around arithmetic, as in Go);
    * `int` ↦ `Int` (unbounded: overflow of 64-bit ints is not represented);
    * `s[i]`, `s[a:b]` panic exactly when Go's bounds checks fail (`GoPanic`), never totalised;
    * running out of fuel is the error `.other "fuel"`; every tie theorem shows it cannot happen.
  Core Lean only.
-/
import Glb.Basic

namespace Glb.Go

abbrev M := Except GoPanic

/-- `len(x)` -/
@[inline] def len {α} (s : List α) : Int := (s.length : Int)

/-- `s[i]` with Go's bounds check for a Go `int` index -/
def idxI {α} (s : List α) (i : Int) : M α :=
  if 0 ≤ i then Glb.idx? s i.toNat else .error (.other "index<0")

/-- `s[lo:hi]` -/
def slice {α} (s : List α) (lo hi : Int) : M (List α) :=
  if 0 ≤ lo ∧ 0 ≤ hi then Glb.slice? s lo.toNat hi.toNat else .error (.other "slice<0")

/-- `s[lo:]` -/
def sliceFrom {α} (s : List α) (lo : Int) : M (List α) := slice s lo (len s)

/-- `s[:hi]` -/
def sliceTo {α} (s : List α) (hi : Int) : M (List α) := slice s 0 hi

/-- `s[i] = v` on a slice/array the function owns -/
def set {α} (s : List α) (i : Int) (v : α) : M (List α) :=
  if 0 ≤ i ∧ i.toNat < s.length then .ok (s.set i.toNat v)
  else .error (.indexRange i.toNat s.length)

/-- `m[k]` on a Go map with string keys, as an association list (the models keep keys distinct);
    for pointer-valued maps `none` is Go's `nil` -/
def mapGet {α} : List (Bytes × α) → Bytes → Option α
  | [], _ => none
  | (k', v) :: r, k => if k' = k then some v else mapGet r k

/-- `m[k]` on a `map[string]string`: the empty string for a missing key -/
def mapGetD (m : List (Bytes × Bytes)) (k : Bytes) : Bytes := (mapGet m k).getD []

/-- control outcome of one loop iteration -/
inductive Ctl (σ ρ : Type) where
  | next (s : σ)      -- fell off the end of the body, or `continue`
  | brk (s : σ)       -- `break`
  | ret (r : ρ)       -- `return r` from the enclosing function

/-- `for ; cond; post { body }` from state `st`, at most `fuel` evaluations of `cond`.
    `.inl st'`: the loop was left normally (condition false, or `break`) in state `st'`;
    `.inr r`: the body executed `return r`. -/
def loop {σ ρ} (st : σ) (fuel : Nat) (cond : σ → M Bool) (body : σ → M (Ctl σ ρ))
    (post : σ → M σ) : M (Sum σ ρ) :=
  match fuel with
  | 0 => .error (.other "fuel")
  | fuel + 1 =>
    match cond st with
    | .error e => .error e
    | .ok false => .ok (.inl st)
    | .ok true =>
      match body st with
      | .error e => .error e
      | .ok (.brk s) => .ok (.inl s)
      | .ok (.ret r) => .ok (.inr r)
      | .ok (.next s) =>
        match post s with
        | .error e => .error e
        | .ok s' => loop s' fuel cond body post

/-- Go's `+` on strings is concatenation -/
instance : Add Bytes := ⟨List.append⟩
@[simp] theorem add_bytes (a b : Bytes) : a + b = a ++ b := rfl

/-- Go's `&` on (two's complement) ints -/
def iand : Int → Int → Int
  | .ofNat a, .ofNat b => ((a &&& b : Nat) : Int)
  | .ofNat a, .negSucc b => ((a - (a &&& b) : Nat) : Int)       -- a & ^b
  | .negSucc a, .ofNat b => ((b - (b &&& a) : Nat) : Int)
  | .negSucc a, .negSucc b => .negSucc (a ||| b)
instance : AndOp Int := ⟨iand⟩
theorem iand_nat (a b : Nat) : ((a : Int) &&& (b : Int)) = ((a &&& b : Nat) : Int) := rfl

/-- bit operators: both operands have the same Go type (a constant operand takes the other's type) -/
abbrev band {α} [AndOp α] (a b : α) : α := a &&& b
abbrev bor {α} [OrOp α] (a b : α) : α := a ||| b
abbrev bxor {α} [XorOp α] (a b : α) : α := a ^^^ b
abbrev shl {α} [HShiftLeft α α α] (a b : α) : α := a <<< b
abbrev shr {α} [HShiftRight α α α] (a b : α) : α := a >>> b

/-! ### conversions (resolved by Lean's elaborator from the operand's type) -/

class ToInt (α : Type) where toInt : α → Int
instance : ToInt Int := ⟨id⟩
instance : ToInt UInt8 := ⟨fun b => (b.toNat : Int)⟩
instance : ToInt UInt32 := ⟨fun b => (b.toNat : Int)⟩
instance : ToInt Nat := ⟨fun n => (n : Int)⟩

/-- `s[i]` for an index of any Go integer type (`int`, `byte`, `uint32`; an untyped constant
    index elaborates as `Nat`) -/
def idx {α ι} [ToInt ι] (s : List α) (i : ι) : M α := idxI s (ToInt.toInt i)

@[simp] theorem idx_int {α} (s : List α) (i : Int) : idx s i = idxI s i := rfl
@[simp] theorem idx_u8 {α} (s : List α) (b : UInt8) : idx s b = idxI s (b.toNat : Int) := rfl
@[simp] theorem idx_u32 {α} (s : List α) (b : UInt32) : idx s b = idxI s (b.toNat : Int) := rfl
@[simp] theorem idx_natlit {α} (s : List α) (n : Nat) : idx s n = idxI s (n : Int) := rfl

instance : ToInt (BitVec 32) := ⟨fun b => (b.toNat : Int)⟩

/-- `s[i] = v` for an index of any Go integer type -/
def setG {α ι} [ToInt ι] (s : List α) (i : ι) (v : α) : M (List α) := set s (ToInt.toInt i) v

/-- `uint32(x)` when Go's uint32 is modelled by `BitVec 32` -/
class ToBV32 (α : Type) where toBV32 : α → BitVec 32
instance : ToBV32 (BitVec 32) := ⟨id⟩
instance : ToBV32 Int := ⟨fun i => BitVec.ofInt 32 i⟩
instance : ToBV32 UInt8 := ⟨fun b => BitVec.ofNat 32 b.toNat⟩

/-! ### `map[K]bool` as an association list with distinct keys -/

/-- `m[k]` (false for a missing key) -/
def mapHas {κ} [DecidableEq κ] : List (κ × Bool) → κ → Bool
  | [], _ => false
  | (k', v) :: r, k => if k' = k then v else mapHas r k

/-- `m[k] = v` -/
def mapPut {κ} [DecidableEq κ] : List (κ × Bool) → κ → Bool → List (κ × Bool)
  | [], k, v => [(k, v)]
  | (k', v') :: r, k, v => if k' = k then (k, v) :: r else (k', v') :: mapPut r k v

/-- `delete(m, k)` -/
def mapDel {κ} [DecidableEq κ] (m : List (κ × Bool)) (k : κ) : List (κ × Bool) :=
  m.filter fun e => !(decide (e.1 = k))

class ToByte (α : Type) where toByte : α → UInt8
instance : ToByte UInt8 := ⟨id⟩
/-- `byte(i)` for a Go int: the low eight bits (two's complement) -/
instance : ToByte Int := ⟨fun i => UInt8.ofNat (i % 256).toNat⟩
instance : ToByte UInt32 := ⟨fun w => w.toUInt8⟩
instance : ToByte UInt64 := ⟨fun w => w.toUInt8⟩

class ToU32 (α : Type) where toU32 : α → UInt32
instance : ToU32 UInt32 := ⟨id⟩
instance : ToU32 UInt8 := ⟨fun b => b.toUInt32⟩
instance : ToU32 Int := ⟨fun i => UInt32.ofNat (i % 4294967296).toNat⟩

/-- `string(b)` / `[]byte(s)` — both sides are `Bytes` -/
@[inline] def toStr (b : Bytes) : Bytes := b

/-- Go's `/` and `%` on ints truncate toward zero; the translator only emits them for a non-zero
    literal divisor (anything else is refused), so they are total here. -/
@[inline] def idiv (a b : Int) : Int := Int.tdiv a b
@[inline] def imod (a b : Int) : Int := Int.tmod a b

/-! ### the few standard-library functions translated code calls (hand models, trusted;
    each is compared with the real function by the correspondence stream of its caller) -/
namespace Lib

/-- `strings.HasPrefix` -/
def hasPrefix (s p : Bytes) : Bool := p.isPrefixOf s

/-- does `old` occur at the head of `s` -/
def replaceAllAux (old new : Bytes) : Nat → Bytes → Bytes
  | 0, s => s
  | _ + 1, [] => []
  | f + 1, c :: rest =>
    if old.isPrefixOf (c :: rest) then new ++ replaceAllAux old new f ((c :: rest).drop old.length)
    else c :: replaceAllAux old new f rest

/-- `strings.Replace(s, old, new, n)` for non-empty `old` and `n < 0` (replace all,
    non-overlapping, left to right); other argument shapes are refused by the translator -/
def replaceAll (s old new : Bytes) : Bytes := replaceAllAux old new (s.length + 1) s

/-- decimal digits of a natural number, most significant first (`fuel` ≥ number of digits) -/
def natDigits : Nat → Nat → Bytes
  | 0, _ => []
  | f + 1, n => if n < 10 then [UInt8.ofNat (48 + n)] else natDigits f (n / 10) ++ [UInt8.ofNat (48 + n % 10)]

/-- `strconv.Itoa` / `strconv.FormatInt(n, 10)` -/
def itoa (n : Int) : Bytes :=
  if n < 0 then 45 :: natDigits (n.natAbs + 1) n.natAbs else natDigits (n.natAbs + 1) n.natAbs

/-- `strconv.AppendInt(buf, n, 10)` (the translator refuses another base) -/
def appendInt10 (buf : Bytes) (n : Int) : Bytes := buf ++ itoa n

/-- first index of `c` at or after position `k`, as a Go int (`-1`: absent) -/
def indexByteFrom (c : UInt8) : Bytes → Nat → Int
  | [], _ => -1
  | b :: rest, k => if b == c then (k : Int) else indexByteFrom c rest (k + 1)

/-- `strings.IndexByte(s, c)` -/
def indexByte (s : Bytes) (c : UInt8) : Int := indexByteFrom c s 0

/-- `strings.Repeat(s, n)` for `n ≥ 0` (a negative count panics in Go; the translator's callers guard it) -/
def repeatBytes (s : Bytes) (n : Int) : M Bytes :=
  if n < 0 then .error (.other "strings: negative Repeat count")
  else .ok ((List.replicate n.toNat s).flatten)

/-- `binary.BigEndian.Uint32(b)`: the first four bytes (panics when there are fewer) -/
def be32 (b : Bytes) : M (BitVec 32) :=
  match b with
  | a :: b :: c :: d :: _ =>
    .ok ((BitVec.ofNat 32 a.toNat <<< 24) ||| (BitVec.ofNat 32 b.toNat <<< 16) |||
         (BitVec.ofNat 32 c.toNat <<< 8) ||| BitVec.ofNat 32 d.toNat)
  | _ => .error (.indexRange 3 b.length)

/-- `net.IP.To4()`: the 4-byte form of an IPv4 address given in 4 or 16 bytes, `none` = nil -/
def to4 (ip : Bytes) : Option Bytes :=
  if ip.length = 4 then some ip
  else if ip.length = 16 ∧ (ip.take 10).all (· == 0) ∧ ip[10]? = some 0xff ∧ ip[11]? = some 0xff
  then some (ip.drop 12)
  else none

end Lib

end Glb.Go
