/-
  `path.Clean`, `filepath.Clean/FromSlash/Join` (Unix) as called by translated fsutil code: the byte-level
  transcription of Go's `lazybuf` loop (Model/PathCleanBytes, proved equal to the segment model the
  C17 theorems use, both compared exhaustively with the real functions on every run).
-/
import Glb.Go.Prelude
import Glb.Model.PathCleanBytes

namespace Glb.Go.LibPath

def clean (p : Bytes) : Bytes := Glb.PathCleanBytes.cleanBytes p
/-- Unix: the separator is already `/` -/
def fromSlash (p : Bytes) : Bytes := p
/-- `filepath.Join(a, b)` -/
def join2 (a b : Bytes) : Bytes := Glb.PathCleanBytes.joinB [a, b]

end Glb.Go.LibPath
