/-
  Helper lemmas for C05: Go slices, `findRoute` only appends to `V` and returns `K` no longer than
  `V` on every trie built by registrations, the per-store pool invariant, and the fact that a
  request's observations are a function of the trie and the request alone.
-/
import Glb.Model.Store
import Glb.Proofs.RouterMain

namespace Glb.Store
open Glb Glb.Router

/-! ### Go slices -/

namespace GoSlice
variable {α : Type}

/-- `len ≤ cap` -/
def WF (s : GoSlice α) : Prop := s.len ≤ s.cap

theorem elems_length {s : GoSlice α} (h : s.WF) : s.elems.length = s.len := by
  unfold WF cap at h
  simp only [elems, List.length_take]
  omega

theorem take_set_succ (l : List α) (n : Nat) (x : α) (h : n < l.length) :
    (l.set n x).take (n + 1) = l.take n ++ [x] := by
  induction l generalizing n with
  | nil => simp at h
  | cons a l ih =>
    cases n with
    | zero => simp
    | succ n => simp at h; simp [ih n h]

theorem push_len (grow : Nat → Nat) (zero : α) (s : GoSlice α) (x : α) :
    (push grow zero s x).len = s.len + 1 := by
  unfold push; split <;> rfl

theorem push_elems (grow : Nat → Nat) (zero : α) (s : GoSlice α) (x : α) (h : s.WF) :
    (push grow zero s x).elems = s.elems ++ [x] := by
  unfold push
  by_cases hc : s.len < s.cap
  · simp only [hc, if_true, elems]; exact take_set_succ _ _ _ hc
  · simp only [hc, if_false]
    have hl := elems_length h
    show List.take (s.len + 1) (s.elems ++ [x] ++ _) = s.elems ++ [x]
    have : (s.elems ++ [x]).length = s.len + 1 := by simp [hl]
    rw [← this, List.take_left']
    rfl

theorem push_cap (grow : Nat → Nat) (zero : α) (s : GoSlice α) (x : α) (h : s.WF) :
    (push grow zero s x).WF ∧ s.cap ≤ (push grow zero s x).cap := by
  unfold push
  by_cases hc : s.len < s.cap
  · simp only [hc, if_true]
    constructor
    · show s.len + 1 ≤ (s.arr.set s.len x).length; simp; exact hc
    · show s.arr.length ≤ (s.arr.set s.len x).length; simp
  · simp only [hc, if_false]
    have hl := elems_length h
    have hcap : s.len = s.cap := Nat.le_antisymm h (Nat.le_of_not_lt hc)
    constructor
    · show s.len + 1 ≤ (s.elems ++ [x] ++ List.replicate _ zero).length
      simp [hl]
    · show s.cap ≤ (s.elems ++ [x] ++ List.replicate _ zero).length
      simp [hl]; omega

theorem pushAll_spec (grow : Nat → Nat) (zero : α) (xs : List α) : ∀ (s : GoSlice α), s.WF →
    (pushAll grow zero s xs).elems = s.elems ++ xs ∧ (pushAll grow zero s xs).len = s.len + xs.length ∧
    (pushAll grow zero s xs).WF ∧ s.cap ≤ (pushAll grow zero s xs).cap := by
  induction xs with
  | nil => intro s h; simp [pushAll, h]
  | cons x xs ih =>
    intro s h
    have hp := push_cap grow zero s x h
    obtain ⟨h1, h2, h3, h4⟩ := ih (push grow zero s x) hp.1
    simp only [pushAll, List.foldl_cons] at h1 h2 h3 h4 ⊢
    refine ⟨?_, ?_, h3, Nat.le_trans hp.2 h4⟩
    · rw [h1, push_elems grow zero s x h]; simp
    · rw [h2, push_len]; simp; omega

end GoSlice

/-! ### `findRoute`: only appends to `V`; `K` never longer than `V` -/

theorem walkT_extends (segs : List (Bytes × Bytes)) : ∀ (node : Node) (V : List Bytes),
    ∃ suf, (walkT node segs V).2 = V ++ suf := by
  induction segs with
  | nil => intro node V; exact ⟨[], by simp [walkT]⟩
  | cons sg more ih =>
    intro node V
    obtain ⟨seg, rest⟩ := sg
    simp only [walkT]
    cases node.child seg with
    | some res => exact ih res V
    | none =>
      cases node.child Generated.routeParam with
      | some res =>
        obtain ⟨suf, h⟩ := ih res (V ++ [seg])
        exact ⟨[seg] ++ suf, by simp [h]⟩
      | none =>
        cases node.child Generated.routeParamAny with
        | some res => exact ⟨[rest], rfl⟩
        | none => exact ⟨[], by simp⟩

/-- on ANY trie: the number of captured values is the number of reserved keys walked -/
theorem walkT_captures (t : Node) (segs : List (Bytes × Bytes)) :
    ∀ (ks : List Bytes) (node : Node) (V : List Bytes), descend t ks = some node → V.length = captures ks →
      (∀ sg ∈ segs, (47 : UInt8) ∉ sg.1) → ∀ n' V', walkT node segs V = (some n', V') →
      ∃ ks', descend t ks' = some n' ∧ V'.length = captures ks' := by
  induction segs with
  | nil =>
    intro ks node V hd hV _ n' V' hw
    simp only [walkT, Prod.mk.injEq, Option.some.injEq] at hw
    obtain ⟨rfl, rfl⟩ := hw
    exact ⟨ks, hd, hV⟩
  | cons sg more ih =>
    intro ks node V hd hV hsf n' V' hw
    obtain ⟨seg, rest⟩ := sg
    have hseg : (47 : UInt8) ∉ seg := hsf (seg, rest) (by simp)
    have hsf' : ∀ sg ∈ more, (47 : UInt8) ∉ sg.1 := fun sg hs => hsf sg (by simp [hs])
    have hsr := slashfree_ne_reserved hseg
    simp only [walkT] at hw
    cases hc : node.child seg with
    | some res =>
      simp only [hc] at hw
      have hd' : descend t (ks ++ [seg]) = some res := by rw [← TInv.child_descend hd, hc]
      have hV' : V.length = captures (ks ++ [seg]) := by rw [captures_snoc]; simp [hsr.1, hsr.2, hV]
      exact ih _ res V hd' hV' hsf' n' V' hw
    | none =>
      simp only [hc] at hw
      cases hc2 : node.child Generated.routeParam with
      | some res =>
        simp only [hc2] at hw
        have hd' : descend t (ks ++ [Generated.routeParam]) = some res := by rw [← TInv.child_descend hd, hc2]
        have hV' : (V ++ [seg]).length = captures (ks ++ [Generated.routeParam]) := by
          rw [captures_snoc]; simp [hV]
        exact ih _ res _ hd' hV' hsf' n' V' hw
      | none =>
        simp only [hc2] at hw
        cases hc3 : node.child Generated.routeParamAny with
        | some res =>
          simp only [hc3, Prod.mk.injEq, Option.some.injEq] at hw
          obtain ⟨rfl, rfl⟩ := hw
          have hd' : descend t (ks ++ [Generated.routeParamAny]) = some res := by
            rw [← TInv.child_descend hd, hc3]
          exact ⟨_, hd', by rw [captures_snoc]; simp [hV]⟩
        | none => simp [hc3] at hw

/-- the `paramNameList` of a method node is as long as the number of values captured on the way
    to it (or the node carries no route at all) -/
theorem methodNode_params {S P t} (h : TInv S P t) {ks : List Bytes} {n nn : Node}
    (hd : descend t ks = some n) {m : Bytes} (hm : methodNodeOrNil n m = some nn) :
    nn.params.length = captures ks ∨ (nn.params = [] ∧ nn.info = none) := by
  have key : ∀ mm, n.child (tagOf mm) = some nn →
      nn.params.length = captures ks ∨ (nn.params = [] ∧ nn.info = none) := by
    intro mm hc
    have hdd : descend t (ks ++ [tagOf mm]) = some nn := by rw [← TInv.child_descend hd, hc]
    have hp := h.pay _ nn hdd
    rw [h.lookupPay_tag] at hp
    cases hs : sel S ks mm with
    | none =>
      rw [hs] at hp
      simp only [Router.pay, Prod.mk.injEq] at hp
      exact Or.inr ⟨hp.2, hp.1⟩
    | some e =>
      rw [hs] at hp
      simp only [Router.pay, payOf, Prod.mk.injEq] at hp
      have hk := List.find?_some hs
      simp only [decide_eq_true_eq] at hk
      left
      rw [hp.2, namesOf, List.length_map, pnames_length (pattern_good _), hk.1]
  unfold methodNodeOrNil at hm
  cases hc : n.child (tagOf m) with
  | some r => simp only [hc, Option.some.injEq] at hm; subst hm; exact key m hc
  | none => simp only [hc] at hm; exact key _ hm

theorem findRoute_lengths {S P t} (h : TInv S P t) (path method : Bytes) (info : Option RouteId) (ps : Params)
    (hf : findRoute t path method {} = .ok (info, ps)) : ps.K.length ≤ ps.V.length := by
  rw [findRoute_unfold] at hf
  have hgen : findGeneral t (normPath path) method {} = .ok (info, ps) → ps.K.length ≤ ps.V.length := by
    intro hg
    unfold findGeneral at hg
    rw [normPath_eq, findLoop_start] at hg
    simp only [bind, Except.bind] at hg
    have hsf : ∀ sg ∈ segsAcc (RouteList.body path) [], (47 : UInt8) ∉ sg.1 := segsAcc_slashfree _ [] (by simp)
    cases hw : walkT t (segsAcc (RouteList.body path) []) [] with
    | mk on V =>
      rw [hw] at hg
      cases on with
      | none => simp only [Except.ok.injEq, Prod.mk.injEq] at hg; rw [← hg.2]; simp
      | some n' =>
        obtain ⟨ks', hd', hV'⟩ := walkT_captures t _ [] t [] rfl rfl hsf n' V hw
        simp only at hg
        cases hm : methodNodeOrNil n' method with
        | none => simp only [hm, Except.ok.injEq, Prod.mk.injEq] at hg; rw [← hg.2]; simp
        | some nn =>
          simp only [hm, Except.ok.injEq, Prod.mk.injEq] at hg
          rw [← hg.2]
          rcases methodNode_params h hd' hm with hl | hl
          · simp [hl, hV']
          · simp [hl.1]
  split at hf
  · cases hm : methodNodeOrNil t method with
    | none => rw [hm] at hf; exact hgen hf
    | some nn =>
      rw [hm] at hf
      simp only [Except.ok.injEq, Prod.mk.injEq] at hf
      rw [← hf.2]
      rcases methodNode_params h (ks := []) rfl hm with hl | hl
      · simp [hl, captures]
      · simp [hl.1]
  · exact hgen hf

theorem findRoute_V_extends (t : Node) (path method : Bytes) (ps : Params) (info : Option RouteId) (ps' : Params)
    (hf : findRoute t path method ps = .ok (info, ps')) : ∃ suf, ps'.V = ps.V ++ suf := by
  rw [findRoute_unfold] at hf
  have hgen : findGeneral t (normPath path) method ps = .ok (info, ps') → ∃ suf, ps'.V = ps.V ++ suf := by
    intro hg
    unfold findGeneral at hg
    rw [normPath_eq, findLoop_start] at hg
    simp only [bind, Except.bind] at hg
    obtain ⟨suf, hs⟩ := walkT_extends (segsAcc (RouteList.body path) []) t ps.V
    cases hw : walkT t (segsAcc (RouteList.body path) []) ps.V with
    | mk on V =>
      rw [hw] at hg hs
      simp only at hs
      refine ⟨suf, ?_⟩
      cases on with
      | none => simp only [Except.ok.injEq, Prod.mk.injEq] at hg; rw [← hg.2]; exact hs
      | some n' =>
        simp only at hg
        cases hm : methodNodeOrNil n' method with
        | none => simp only [hm, Except.ok.injEq, Prod.mk.injEq] at hg; rw [← hg.2]; exact hs
        | some nn => simp only [hm, Except.ok.injEq, Prod.mk.injEq] at hg; rw [← hg.2]; exact hs
  split at hf
  · cases hm : methodNodeOrNil t method with
    | none => rw [hm] at hf; exact hgen hf
    | some nn =>
      rw [hm] at hf
      simp only [Except.ok.injEq, Prod.mk.injEq] at hf
      exact ⟨[], by rw [← hf.2]; simp⟩
  · exact hgen hf

/-! ### `Params.Get` never panics when `K` is no longer than `V` -/

theorem firstIdx_lt {key : Bytes} {K : List Bytes} {i : Nat} (h : firstIdx key K = some i) : i < K.length := by
  induction K generalizing i with
  | nil => simp [firstIdx] at h
  | cons k r ih =>
    unfold firstIdx at h
    by_cases hk : k = key
    · simp [hk] at h; subst h; simp
    · simp only [hk, if_false, Option.map_eq_some_iff] at h
      obtain ⟨j, hj, rfl⟩ := h
      have := ih hj
      simp; omega

theorem paramsGet_ok (K V : List Bytes) (h : K.length ≤ V.length) (key : Bytes) :
    ∃ r, paramsGet ⟨K, V⟩ key = .ok r := by
  unfold paramsGet
  cases hf : firstIdx key K with
  | none => exact ⟨none, rfl⟩
  | some i =>
    have hi := firstIdx_lt hf
    have hv : i < V.length := by omega
    refine ⟨some V[i], ?_⟩
    simp [idx?, hv, bind, Except.bind]

theorem mapM_ok {α β} (f : α → Except GoPanic β) (l : List α) (h : ∀ a ∈ l, ∃ r, f a = .ok r) :
    ∃ rs, l.mapM f = .ok rs := by
  induction l with
  | nil => exact ⟨[], rfl⟩
  | cons a l ih =>
    obtain ⟨r, hr⟩ := h a (by simp)
    obtain ⟨rs, hrs⟩ := ih (fun a' ha => h a' (by simp [ha]))
    exact ⟨r :: rs, by simp [List.mapM_cons, hr, hrs, bind, Except.bind, pure, Except.pure]⟩

/-! ### observations are a function of the trie, the request and the id -/

def observeRaw (tgt : Option Target) (K V : List Bytes) (status : Nat) (idb : Bytes) (names : List Bytes) :
    Except GoPanic Obs := do
  let tgt ← match tgt with
    | some t => (.ok t : Except GoPanic Target)
    | none => .error (.other "nil RouteInfo")
  let ps : Params := ⟨K, V⟩
  let gets ← names.mapM fun n => do
    let v ← paramsGet ps n
    pure (v.getD [])
  let any ← paramsGet ps Generated.routeParamAny
  pure ⟨tgt, gets, any.getD [], status, idb⟩

theorem observe_eq (st : StoreSt) (names : List Bytes) :
    observe st names = observeRaw st.target st.K st.V.elems st.status st.id.elems names := rfl

theorem observeRaw_ok (t : Target) (K V : List Bytes) (h : K.length ≤ V.length) (status : Nat) (idb : Bytes)
    (names : List Bytes) :
    ∃ o, observeRaw (some t) K V status idb names = .ok o ∧ o.target = t ∧ o.status = status ∧ o.id = idb := by
  unfold observeRaw
  obtain ⟨gets, hg⟩ := mapM_ok (fun n => do
      let v ← paramsGet ⟨K, V⟩ n
      (pure (v.getD []) : Except GoPanic Bytes)) names (by
    intro n _
    obtain ⟨r, hr⟩ := paramsGet_ok K V h n
    exact ⟨r.getD [], by simp [hr, bind, Except.bind, pure, Except.pure]⟩)
  obtain ⟨a, ha⟩ := paramsGet_ok K V h Generated.routeParamAny
  refine ⟨⟨t, gets, a.getD [], status, idb⟩, ?_, rfl, rfl, rfl⟩
  simp only [bind, Except.bind, pure, Except.pure] at hg ⊢
  rw [hg, ha]

/-- what the handlers of a request observe, as a function of the trie, the request, the probed
    names and the id bytes — no Store, no pool, no history -/
def obsPure (root : Node) (req : Req) (names : List Bytes) (idb : Bytes) : Except GoPanic Obs :=
  match findRoute root req.path req.method {} with
  | .error e => .error e
  | .ok (info, ps) => observeRaw (some (targetOf info)) ps.K ps.V 0 idb names

/-- `findRoute` never panics, on any trie -/
theorem findRoute_ok (t : Node) (path method : Bytes) (ps : Params) :
    ∃ r, findRoute t path method ps = .ok r := by
  rw [findRoute_unfold]
  have hg : ∃ r, findGeneral t (normPath path) method ps = .ok r := by
    unfold findGeneral
    rw [normPath_eq, findLoop_start]
    simp only [bind, Except.bind]
    cases walkT t (segsAcc (RouteList.body path) []) ps.V with
    | mk on V =>
      cases on with
      | none => exact ⟨_, rfl⟩
      | some n => simp only; cases methodNodeOrNil n method <;> exact ⟨_, rfl⟩
  split
  · cases methodNodeOrNil t method with
    | some n => exact ⟨_, rfl⟩
    | none => exact hg
  · exact hg

theorem obsPure_ok {S P} {root : Node} (h : TInv S P root) (req : Req) (names : List Bytes) (idb : Bytes) :
    ∃ o, obsPure root req names idb = .ok o ∧ o.status = 0 ∧ o.id = idb := by
  unfold obsPure
  obtain ⟨⟨info, ps⟩, hf⟩ := findRoute_ok root req.path req.method {}
  rw [hf]
  obtain ⟨o, ho, _, h2, h3⟩ := observeRaw_ok (targetOf info) ps.K ps.V (findRoute_lengths h _ _ _ _ hf) 0 idb names
  exact ⟨o, ho, h2, h3⟩

/-- the id bytes do not influence anything but the id -/
theorem obsPure_id (root : Node) (req : Req) (names : List Bytes) (idb idb' : Bytes) (o : Obs)
    (h : obsPure root req names idb = .ok o) : obsPure root req names idb' = .ok { o with id := idb' } := by
  unfold obsPure at h ⊢
  cases hf : findRoute root req.path req.method {} with
  | error e => rw [hf] at h; cases h
  | ok r =>
    obtain ⟨info, ps⟩ := r
    rw [hf] at h
    simp only at h ⊢
    unfold observeRaw at h ⊢
    simp only [bind, Except.bind, pure, Except.pure] at h ⊢
    generalize (List.mapM (m := Except GoPanic) _ names) = X at h ⊢
    cases X with
    | error e => cases h
    | ok gets =>
      simp only at h ⊢
      generalize paramsGet ⟨ps.K, ps.V⟩ Generated.routeParamAny = Y at h ⊢
      cases Y with
      | error e => cases h
      | ok a =>
        simp only [Except.ok.injEq] at h ⊢
        rw [← h]

/-! ### the pool invariant -/

/-- a Store at rest (pooled or new): nothing of an earlier request is observable -/
structure StoreInv (pfx : Bytes) (st : StoreSt) : Prop where
  hK : st.K = []
  hVlen : st.V.len = 0
  hstatus : st.status = 0
  htarget : st.target = none
  hidlen : st.id.len = 9
  hidwf : st.id.WF
  hidpfx : st.id.elems = pfx

structure MuxInv (mux : MuxSt) : Prop where
  pfx9 : mux.pfx.length = 9
  trie : ∃ S P, TInv S P mux.root
  pool : ∀ st ∈ mux.pool, StoreInv mux.pfx st

theorem newStore_inv (mux : MuxSt) (h : mux.pfx.length = 9) : StoreInv mux.pfx (newStore mux) := by
  have ht : mux.pfx.take 9 = mux.pfx := List.take_of_length_le (by omega)
  refine ⟨rfl, rfl, rfl, rfl, rfl, ?_, ?_⟩
  · simp [newStore, GoSlice.WF, GoSlice.cap, ht, h]
  · simp only [newStore, GoSlice.elems, ht]
    rw [← h, List.take_left']
    rfl

theorem getStore_inv {mux : MuxSt} (h : MuxInv mux) (choice : Option Nat) :
    StoreInv mux.pfx (getStore mux choice).1 ∧ ∀ st ∈ (getStore mux choice).2, StoreInv mux.pfx st := by
  unfold getStore
  cases choice with
  | none => exact ⟨newStore_inv mux h.pfx9, h.pool⟩
  | some i =>
    cases hi : mux.pool[i]? with
    | none => simp only [hi]; exact ⟨newStore_inv mux h.pfx9, h.pool⟩
    | some st =>
      simp only [hi]
      exact ⟨h.pool st (List.mem_of_getElem? hi), fun st' hs => h.pool st' (List.mem_of_mem_eraseIdx hs)⟩

theorem params_default : ({} : Params) = ⟨[], []⟩ := rfl

/-- One request: what is observed is `obsPure` of the trie, the request and `prefix ++ counter`,
    whatever Store the pool hands out; the invariant is kept; the counter moves by one. -/
theorem serve_spec (grow : Nat → Nat) (render : Nat → Bytes) {mux : MuxSt} (h : MuxInv mux)
    (req : Req) (names : List Bytes) (beh : Behaviour) (choice : Option Nat) :
    ∃ o, obsPure mux.root req names (mux.pfx ++ render (mux.counter + 1)) = .ok o ∧
      (serve grow render mux req names beh choice).2 = .ok [o, o] ∧
      MuxInv (serve grow render mux req names beh choice).1 ∧
      (serve grow render mux req names beh choice).1.counter = mux.counter + 1 ∧
      (serve grow render mux req names beh choice).1.root = mux.root ∧
      (serve grow render mux req names beh choice).1.pfx = mux.pfx ∧
      (serve grow render mux req names beh choice).1.nextId = mux.nextId := by
  obtain ⟨S, P, hT⟩ := h.trie
  obtain ⟨hst, hpool⟩ := getStore_inv h choice
  obtain ⟨o, ho, _, _⟩ := obsPure_ok hT req names (mux.pfx ++ render (mux.counter + 1))
  refine ⟨o, ho, ?_⟩
  unfold serve
  cases hgs : getStore mux choice with
  | mk st0 pool' =>
    rw [hgs] at hst hpool
    simp only at hst hpool ⊢
    -- the id after AppendUint
    obtain ⟨hid1, hid2, hid3, hid4⟩ := GoSlice.pushAll_spec grow (0 : UInt8) (render (mux.counter + 1)) st0.id hst.hidwf
    rw [hst.hidpfx] at hid1
    -- the store's Params are empty
    have hV0 : st0.V.elems = [] := by simp [GoSlice.elems, hst.hVlen]
    have hVwf : st0.V.WF := by simp [GoSlice.WF, hst.hVlen]
    rw [hst.hK, hV0, ← params_default]
    unfold obsPure at ho
    obtain ⟨⟨info, ps⟩, hf⟩ := findRoute_ok mux.root req.path req.method {}
    rw [hf] at ho ⊢
    simp only at ho ⊢
    have hv1 : (GoSlice.pushAll grow ([] : Bytes) st0.V (ps.V.drop st0.V.len)).elems = ps.V := by
      rw [(GoSlice.pushAll_spec grow ([] : Bytes) (ps.V.drop st0.V.len) st0.V hVwf).1, hV0, hst.hVlen]
      simp
    simp only [observe_eq, hv1, hid1, hst.hstatus, ho]
    have hpoolInv : MuxInv { mux with pool := pool', counter := mux.counter + 1 } :=
      ⟨h.pfx9, ⟨S, P, hT⟩, hpool⟩
    cases hp : beh.panics with
    | true =>
      simp only [if_true]
      refine ⟨?_, ?_, ?_, ?_, ?_, ?_⟩ <;> first | exact hpoolInv | trivial
    | false =>
      have h9 : 9 ≤ (GoSlice.pushAll grow 0 st0.id (render (mux.counter + 1))).cap := by
        have := hid3
        unfold GoSlice.WF at this
        rw [hid2, hst.hidlen] at this
        omega
      simp only [Bool.false_eq_true, if_false, GoSlice.reslice?, h9, if_true]
      refine ⟨?_, ⟨h.pfx9, ⟨S, P, hT⟩, ?_⟩, ?_, ?_, ?_, ?_⟩ <;> try trivial
      intro st hmem
      simp only [List.mem_cons] at hmem
      rcases hmem with rfl | hmem
      · refine ⟨rfl, rfl, rfl, rfl, rfl, h9, ?_⟩
        -- id[:9] is the prefix again
        show List.take 9 (GoSlice.pushAll grow 0 st0.id (render (mux.counter + 1))).arr = mux.pfx
        have hlen9 : 9 ≤ (GoSlice.pushAll grow 0 st0.id (render (mux.counter + 1))).len := by
          rw [hid2, hst.hidlen]; omega
        have : List.take 9 (GoSlice.pushAll grow 0 st0.id (render (mux.counter + 1))).arr =
            List.take 9 (GoSlice.pushAll grow 0 st0.id (render (mux.counter + 1))).elems := by
          simp only [GoSlice.elems, List.take_take]
          rw [Nat.min_eq_left hlen9]
        rw [this, hid1, ← h.pfx9, List.take_left']
        rfl
      · exact hpool st hmem

theorem handle_inv {mux : MuxSt} (h : MuxInv mux) (p m : Bytes) :
    ∃ mux' res, handle mux p m = .ok (mux', res) ∧ MuxInv mux' ∧ mux'.counter = mux.counter ∧ mux'.pfx = mux.pfx ∧
      mux'.pool = mux.pool := by
  obtain ⟨S, P, hT⟩ := h.trie
  obtain ⟨t', hp, hinv⟩ := parseRoute_spec hT p m mux.nextId
  unfold handle
  rw [hp]
  cases hr : regResult S ⟨slashed p, m⟩ with
  | error e =>
    rw [hr] at hinv
    obtain ⟨P', hinv⟩ := hinv
    exact ⟨_, _, rfl, ⟨h.pfx9, ⟨S, P', hinv⟩, h.pool⟩, rfl, rfl, rfl⟩
  | ok n =>
    rw [hr] at hinv
    exact ⟨_, _, rfl, ⟨h.pfx9, ⟨_, P, hinv⟩, h.pool⟩, rfl, rfl, rfl⟩

theorem fresh_inv (pfx : Bytes) (h : pfx.length = 9) : MuxInv (fresh pfx) :=
  ⟨h, ⟨[], [], tinv_empty⟩, by simp [fresh]⟩

theorem step_inv (grow : Nat → Nat) (render : Nat → Bytes) {mux : MuxSt} (h : MuxInv mux) (op : Op) :
    MuxInv (step grow render mux op) ∧ (step grow render mux op).pfx = mux.pfx := by
  cases op with
  | handle p m =>
    obtain ⟨mux', res, hh, hinv, _, hpfx, _⟩ := handle_inv h p m
    simp only [step, hh]
    exact ⟨hinv, hpfx⟩
  | request req names beh choice =>
    obtain ⟨o, _, _, hinv, _, _, hpfx, _⟩ := serve_spec grow render h req names beh choice
    exact ⟨hinv, hpfx⟩
  | drop i =>
    exact ⟨⟨h.pfx9, h.trie, fun st hs => h.pool st (List.mem_of_mem_eraseIdx hs)⟩, rfl⟩

theorem run_inv (grow : Nat → Nat) (render : Nat → Bytes) (ops : List Op) : ∀ {mux : MuxSt}, MuxInv mux →
    MuxInv (run grow render mux ops) ∧ (run grow render mux ops).pfx = mux.pfx := by
  induction ops with
  | nil => intro mux h; exact ⟨h, rfl⟩
  | cons op ops ih =>
    intro mux h
    obtain ⟨h1, h2⟩ := step_inv grow render h op
    obtain ⟨h3, h4⟩ := ih h1
    simp only [run, List.foldl_cons] at h3 h4 ⊢
    exact ⟨h3, h4.trans h2⟩

/-- the trie (and the id given to the next registration) depends on the registrations only -/
theorem run_root (grow grow' : Nat → Nat) (render : Nat → Bytes) (ops : List Op) :
    ∀ {mux mux' : MuxSt}, MuxInv mux → MuxInv mux' → mux.root = mux'.root → mux.nextId = mux'.nextId →
    (run grow render mux ops).root = (run grow' render mux' (ops.filter Op.isHandle)).root ∧
    (run grow render mux ops).nextId = (run grow' render mux' (ops.filter Op.isHandle)).nextId := by
  induction ops with
  | nil => intro mux mux' _ _ h1 h2; exact ⟨h1, h2⟩
  | cons op ops ih =>
    intro mux mux' hI hI' h1 h2
    cases op with
    | handle p m =>
      simp only [List.filter_cons, Op.isHandle, if_true, run, List.foldl_cons]
      have hs1 := (step_inv grow render hI (.handle p m)).1
      have hs2 := (step_inv grow' render hI' (.handle p m)).1
      refine ih hs1 hs2 ?_ ?_
      all_goals
        simp only [step, handle, h1, h2]
        cases parseRoute mux'.root p m mux'.nextId with
        | error e => simp [h1, h2]
        | ok r =>
          obtain ⟨root', res⟩ := r
          cases res <;> simp
    | request req names beh choice =>
      simp only [List.filter_cons, Op.isHandle, Bool.false_eq_true, if_false, run, List.foldl_cons]
      obtain ⟨o, _, _, hinv, _, hroot, _, hnext⟩ := serve_spec grow render hI req names beh choice
      exact ih hinv hI' (by simp only [step]; rw [hroot, h1]) (by simp only [step]; rw [hnext, h2])
    | drop i =>
      simp only [List.filter_cons, Op.isHandle, Bool.false_eq_true, if_false, run, List.foldl_cons]
      exact ih (step_inv grow render hI (.drop i)).1 hI' h1 h2

/-! ### base-36 rendering is injective -/

def ofLE : List Nat → Nat
  | [] => 0
  | d :: r => d + 36 * ofLE r

theorem ofLE_digitsLE (fuel : Nat) : ∀ n, n < fuel → ofLE (digitsLE fuel n) = n := by
  induction fuel with
  | zero => intro n h; omega
  | succ fuel ih =>
    intro n h
    unfold digitsLE
    by_cases hn : n < 36
    · simp [hn, ofLE]
    · simp only [hn, if_false, ofLE]
      rw [ih (n / 36) (by omega)]
      omega

theorem digitsLE_lt (fuel : Nat) : ∀ n, ∀ d ∈ digitsLE fuel n, d < 36 := by
  induction fuel with
  | zero => intro n d h; simp [digitsLE] at h
  | succ fuel ih =>
    intro n d h
    unfold digitsLE at h
    by_cases hn : n < 36
    · simp [hn] at h; omega
    · simp only [hn, if_false, List.mem_cons] at h
      rcases h with rfl | h
      · omega
      · exact ih _ d h

theorem digitChar_inj : ∀ a, a < 36 → ∀ b, b < 36 → digitChar a = digitChar b → a = b := by
  decide

theorem map_inj_on {α β} (f : α → β) : ∀ (l1 l2 : List α),
    (∀ x ∈ l1, ∀ y ∈ l2, f x = f y → x = y) → l1.map f = l2.map f → l1 = l2 := by
  intro l1
  induction l1 with
  | nil => intro l2 _ h; cases l2 <;> simp_all
  | cons a l1 ih =>
    intro l2 hinj h
    cases l2 with
    | nil => simp at h
    | cons b l2 =>
      simp only [List.map_cons, List.cons.injEq] at h
      have hab := hinj a (by simp) b (by simp) h.1
      have := ih l2 (fun x hx y hy => hinj x (by simp [hx]) y (by simp [hy])) h.2
      rw [hab, this]

theorem render36_inj {a b : Nat} (h : render36 a = render36 b) : a = b := by
  unfold render36 at h
  have hl := map_inj_on digitChar _ _ (by
    intro x hx y hy hxy
    exact digitChar_inj x (digitsLE_lt _ _ x (List.mem_reverse.mp hx)) y (digitsLE_lt _ _ y (List.mem_reverse.mp hy)) hxy) h
  have := List.reverse_inj.mp hl
  have h1 := ofLE_digitsLE (a + 1) a (by omega)
  have h2 := ofLE_digitsLE (b + 1) b (by omega)
  rw [this] at h1
  omega

theorem run_handles_counter (grow : Nat → Nat) (render : Nat → Bytes) (ops : List Op) :
    ∀ {mux : MuxSt}, MuxInv mux → (run grow render mux (ops.filter Op.isHandle)).counter = mux.counter := by
  induction ops with
  | nil => intro mux _; rfl
  | cons op ops ih =>
    intro mux h
    cases op with
    | handle p m =>
      obtain ⟨mux', res, hh, hinv, hc, _⟩ := handle_inv h p m
      simp only [List.filter_cons, Op.isHandle, if_true, run, List.foldl_cons, step, hh]
      have := ih hinv
      simp only [run] at this
      rw [this, hc]
    | request req names beh choice =>
      simpa [List.filter_cons, Op.isHandle] using ih h
    | drop i => simpa [List.filter_cons, Op.isHandle] using ih h

end Glb.Store
