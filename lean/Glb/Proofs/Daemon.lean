/-
  Helper lemmas for C20: the invariant of the launcher/daemon/caller system for every launcher
  order accepted by `good`, its preservation by every step, and what it gives at maximal states.
-/
import Glb.Model.Daemon

set_option linter.unusedSimpArgs false

namespace Glb.Daemon

/-- the invariant (for orders accepted by `good`) -/
structure Invariant (s : St) : Prop where
  j1 : s.lstatus = .running →
        good s.handler s.dstate.started s.printed s.selected s.todo = true
  j2 : s.lstatus = .running ∨ s.lstatus = .exited
  j3 : s.stderr = true → s.dstate = .crashed
  j3c : s.finished = true → s.stderr = true
  j4 : s.doneSeen = true ↔ s.dstate = .ran
  j5 : s.dstate ≠ .notStarted → s.handler = true
  j6 : s.lstatus = .exited → s.printed = true ∧ s.selected = true
  j7 : s.selected = true → s.doneSeen = true ∨ s.finished = true
  j7b : s.pending = true → s.doneSeen = true
  j7c : s.inflight = true → s.doneSeen = true
  j8 : (s.lstatus = .running → s.dparent = .launcher) ∧ (s.lstatus = .exited → s.dparent = .init)
  j9 : s.doneSeen = true → s.inflight = true ∨ s.pending = true ∨ s.selected = true
  j10 : ∀ r, s.result = some r →
        s.lstatus = .exited ∧ (r = .ok daemonPid ∨ (r = .err ∧ s.dstate = .crashed))
  j11 : ∀ p, s.result = some (.ok p) → s.retAfterDone = true
  j12 : s.retAfterDone = true → s.doneSeen = true

theorem inv_init (order : List LStep) (h : GoodOrder order) : Invariant (init order) := by
  constructor <;> simp_all [init, GoodOrder, DState.started]

theorem inv_lstep (s s' : St) (hi : Invariant s) (hr : s.lstatus = .running)
    (h : lstep s = some s') : Invariant s' := by
  obtain ⟨j1, j2, j3, j3c, j4, j5, j6, j7, j7b, j7c, j8, j9, j10, j11, j12⟩ := hi
  have g := j1 hr
  unfold lstep at h
  split at h
  · simp at h
  · -- notify
    rename_i r ht
    simp only [Option.some.injEq] at h; subst h
    rw [ht] at g; simp only [good] at g
    constructor <;> simp_all [DState.started]
  · -- start
    rename_i r ht
    rw [ht] at g; simp only [good, Bool.and_eq_true, Bool.not_eq_true'] at g
    have hns : s.dstate = .notStarted := by
      have := g.1.2; cases hd : s.dstate <;> simp_all [DState.started]
    simp only [hns, if_true, Option.some.injEq] at h; subst h
    obtain ⟨⟨gh, _⟩, g2⟩ := g
    rw [gh] at g2
    constructor <;> simp_all [DState.started]
  · -- printPid
    rename_i r ht
    rw [ht] at g; simp only [good, Bool.and_eq_true] at g
    have hst : s.dstate ≠ .notStarted := by
      have := g.1; cases hd : s.dstate <;> simp_all [DState.started]
    simp only [hst, if_false, Option.some.injEq] at h; subst h
    constructor <;> simp_all [DState.started]
  · -- spawnWaiter
    rename_i r ht
    simp only [Option.some.injEq] at h; subst h
    rw [ht] at g; simp only [good] at g
    constructor <;> simp_all [DState.started]
  · -- select
    rename_i r ht
    rw [ht] at g; simp only [good, Bool.and_eq_true, Bool.not_eq_true'] at g
    split at h
    · simp only [Option.some.injEq] at h; subst h
      constructor <;> simp_all [DState.started]
    · split at h
      · simp only [Option.some.injEq] at h; subst h
        constructor <;> simp_all [DState.started]
      · simp at h
  · -- pause
    rename_i r ht
    rw [ht] at g; simp only [good] at g
    split at h
    · simp only [Option.some.injEq] at h; subst h
      constructor <;> simp_all [DState.started]
    · simp at h
  · -- other
    rename_i r ht
    simp only [Option.some.injEq] at h; subst h
    rw [ht] at g; simp only [good] at g
    constructor <;> simp_all [DState.started]

theorem inv_step (s s' : St) (l : Label) (hi : Invariant s) (h : step s l = some s') :
    Invariant s' := by
  cases l with
  | lnext =>
    simp only [step] at h
    split at h
    · exact inv_lstep s s' hi (by assumption) h
    · simp at h
  | lexit =>
    obtain ⟨j1, j2, j3, j3c, j4, j5, j6, j7, j7b, j7c, j8, j9, j10, j11, j12⟩ := hi
    simp only [step] at h
    split at h
    · rename_i hc
      simp only [Option.some.injEq] at h; subst h
      have g := j1 hc.1
      rw [hc.2] at g; simp only [good, Bool.and_eq_true] at g
      constructor <;> simp_all [DState.started]
    · simp at h
  | work =>
    simp only [step] at h
    split at h
    · simp only [Option.some.injEq] at h; subst h; exact hi
    · simp at h
  | done =>
    obtain ⟨j1, j2, j3, j3c, j4, j5, j6, j7, j7b, j7c, j8, j9, j10, j11, j12⟩ := hi
    simp only [step] at h
    split at h
    · rename_i hc
      simp only [Option.some.injEq] at h; subst h
      constructor <;> simp_all [DState.started]
    · simp at h
  | deliver =>
    obtain ⟨j1, j2, j3, j3c, j4, j5, j6, j7, j7b, j7c, j8, j9, j10, j11, j12⟩ := hi
    simp only [step] at h
    split at h
    · rename_i hin
      have hd := j7c hin
      have hran : s.dstate = .ran := j4.mp hd
      have hh : s.handler = true := j5 (by simp [hran])
      split at h
      · simp only [hh, if_true, Option.some.injEq] at h; subst h
        constructor <;> simp_all [DState.started]
      · simp only [Option.some.injEq] at h; subst h
        rcases j2 with h2 | h2
        · simp_all [DState.started]
        · constructor <;> simp_all [DState.started]
    · simp at h
  | crash =>
    obtain ⟨j1, j2, j3, j3c, j4, j5, j6, j7, j7b, j7c, j8, j9, j10, j11, j12⟩ := hi
    simp only [step] at h
    split at h
    · rename_i hc
      simp only [Option.some.injEq] at h; subst h
      have hnd : s.doneSeen = false := by
        cases hds : s.doneSeen
        · rfl
        · have := j4.mp hds; simp_all [DState.started]
      constructor <;> simp_all [DState.started]
    · simp at h
  | waiter =>
    obtain ⟨j1, j2, j3, j3c, j4, j5, j6, j7, j7b, j7c, j8, j9, j10, j11, j12⟩ := hi
    simp only [step] at h
    split at h
    · rename_i hc
      simp only [Option.some.injEq] at h; subst h
      constructor <;> simp_all [DState.started]
    · simp at h
  | release =>
    obtain ⟨j1, j2, j3, j3c, j4, j5, j6, j7, j7b, j7c, j8, j9, j10, j11, j12⟩ := hi
    simp only [step] at h
    split at h
    · simp at h
    · simp only [Option.some.injEq] at h; subst h
      constructor <;> simp_all [DState.started]
  | ret =>
    obtain ⟨j1, j2, j3, j3c, j4, j5, j6, j7, j7b, j7c, j8, j9, j10, j11, j12⟩ := hi
    simp only [step] at h
    split at h
    · rename_i hc
      simp only [Option.some.injEq] at h; subst h
      have hex : s.lstatus = .exited := by
        rcases j2 with h2 | h2
        · exact absurd h2 hc.2
        · exact h2
      have h6 := j6 hex
      constructor <;> simp_all [DState.started]
      · cases hs : s.stderr <;> simp_all [DState.started]
      · intro p hp
        split at hp
        · simp at hp
        · rcases j7 with hds | hfin
          · exact hds
          · simp_all [DState.started]
    · simp at h

theorem inv_run (tr : List Label) (s s' : St) (hi : Invariant s) (h : run tr s = some s') :
    Invariant s' := by
  induction tr generalizing s with
  | nil => simp [run] at h; subst h; exact hi
  | cons l ls ih =>
    simp only [run] at h
    split at h
    · rename_i s1 hs1
      exact ih s1 (inv_step s s1 l hi hs1) h
    · simp at h

/-! ### ghost bookkeeping -/

theorem lstep_ghost (s s' : St) (h : lstep s = some s') :
    s'.doneSeen = s.doneSeen ∧ s'.result = s.result := by
  unfold lstep at h
  split at h
  · simp at h
  · simp only [Option.some.injEq] at h; subst h; simp
  · split at h <;> (simp only [Option.some.injEq] at h; subst h; simp)
  · split at h <;> (simp only [Option.some.injEq] at h; subst h; simp)
  · simp only [Option.some.injEq] at h; subst h; simp
  · split at h
    · simp only [Option.some.injEq] at h; subst h; simp
    · split at h
      · simp only [Option.some.injEq] at h; subst h; simp
      · simp at h
  · split at h
    · simp only [Option.some.injEq] at h; subst h; simp
    · simp at h
  · simp only [Option.some.injEq] at h; subst h; simp

theorem doneSeen_step (s s' : St) (l : Label) (h : step s l = some s') :
    s'.doneSeen = (s.doneSeen || l == .done) := by
  cases l <;> simp only [step] at h
  case lnext =>
    split at h
    · simp [(lstep_ghost s s' h).1]
    · simp at h
  case deliver =>
    split at h
    · split at h
      · split at h <;> (simp only [Option.some.injEq] at h; subst h; simp)
      · simp only [Option.some.injEq] at h; subst h; simp
    · simp at h
  all_goals
    split at h
    · first
      | (simp only [Option.some.injEq] at h; subst h; simp)
      | simp at h
    · first
      | (simp only [Option.some.injEq] at h; subst h; simp)
      | simp at h

theorem doneSeen_run (tr : List Label) (s s' : St) (h : run tr s = some s') :
    s'.doneSeen = (s.doneSeen || tr.contains .done) := by
  induction tr generalizing s with
  | nil => simp [run] at h; subst h; simp
  | cons l ls ih =>
    simp only [run] at h
    split at h
    · rename_i s1 hs1
      have hc : (l == Label.done) = (Label.done == l) := by cases l <;> rfl
      rw [ih s1 h, doneSeen_step s s1 l hs1, List.contains_cons, Bool.or_assoc, hc]
    · simp at h

theorem result_step (s s' : St) (l : Label) (r : Result) (hr : s.result = some r)
    (h : step s l = some s') : s'.result = some r := by
  cases l <;> simp only [step] at h
  case lnext =>
    split at h
    · rw [(lstep_ghost s s' h).2]; exact hr
    · simp at h
  case deliver =>
    split at h
    · split at h
      · split at h <;> (simp only [Option.some.injEq] at h; subst h; simpa using hr)
      · simp only [Option.some.injEq] at h; subst h; simpa using hr
    · simp at h
  case ret =>
    split at h
    · rename_i hc; simp [hr] at hc
    · simp at h
  all_goals
    split at h
    · first
      | (simp only [Option.some.injEq] at h; subst h; simpa using hr)
      | simp at h
    · first
      | (simp only [Option.some.injEq] at h; subst h; simpa using hr)
      | simp at h

theorem result_run (tr : List Label) (s s' : St) (r : Result) (hr : s.result = some r)
    (h : run tr s = some s') : s'.result = some r := by
  induction tr generalizing s with
  | nil => simp [run] at h; subst h; exact hr
  | cons l ls ih =>
    simp only [run] at h
    split at h
    · rename_i s1 hs1
      exact ih s1 (result_step s s1 l r hr hs1) h
    · simp at h

theorem run_append (a b : List Label) (s s' : St) (h : run (a ++ b) s = some s') :
    ∃ s1, run a s = some s1 ∧ run b s1 = some s' := by
  induction a generalizing s with
  | nil => exact ⟨s, rfl, h⟩
  | cons l ls ih =>
    simp only [List.cons_append, run] at h
    split at h
    · rename_i s1 hs1
      obtain ⟨s2, h1, h2⟩ := ih s1 h
      exact ⟨s2, by simp [run, hs1, h1], h2⟩
    · simp at h

/-! ### maximal states -/

/-- at a maximal state after `Done()`, Launch has returned the daemon's pid, the launcher has
    exited normally and the daemon is alive and re-parented -/
theorem maximal_done (s : St) (hi : Invariant s) (hd : s.doneSeen = true) (hm : Maximal s) :
    s.result = some (.ok daemonPid) ∧ s.retAfterDone = true ∧ s.lstatus = .exited
      ∧ s.dstate = .ran ∧ s.dparent = .init := by
  obtain ⟨j1, j2, j3, j3c, j4, j5, j6, j7, j7b, j7c, j8, j9, j10, j11, j12⟩ := hi
  have hran := j4.mp hd
  -- the pause has been released
  have hrel : s.released = true := by
    have := hm .release (by decide)
    simp only [step] at this
    split at this
    · assumption
    · simp at this
  -- the signal has been delivered
  have hnin : s.inflight = false := by
    have := hm .deliver (by decide)
    simp only [step] at this
    split at this
    · split at this
      · split at this <;> simp at this
      · simp at this
    · simp_all [DState.started]
  -- the launcher is not running any more
  have hex : s.lstatus = .exited := by
    rcases j2 with h2 | h2
    · exfalso
      have g := j1 h2
      have hl := hm .lnext (by decide)
      have hx := hm .lexit (by decide)
      simp only [step, h2, if_true] at hl
      simp only [step, h2, true_and] at hx
      have hsig := j9 hd
      unfold lstep at hl
      split at hl
      · rename_i ht; simp [ht] at hx
      all_goals (try simp at hl)
      · -- start while the daemon already exists
        rename_i r ht
        split at hl <;> simp at hl
      · rename_i r ht
        split at hl <;> simp at hl
      · -- select: blocked means no pending signal and not finished; then `selected` already,
        -- which `good` forbids with a select still ahead
        rename_i r ht
        rw [ht] at g; simp only [good, Bool.and_eq_true, Bool.not_eq_true'] at g
        split at hl
        · simp at hl
        · split at hl
          · simp at hl
          · simp_all [DState.started]
      · rename_i r ht
        simp [hrel] at hl
    · exact h2
  have h6 := j6 hex
  -- Launch has returned
  have hres : s.result ≠ none := by
    intro hn
    have := hm .ret (by decide)
    simp [step, hn, hex] at this
  obtain ⟨r, hr⟩ := Option.ne_none_iff_exists'.mp hres
  have h10 := j10 r hr
  rcases h10.2 with hok | herr
  · subst hok
    exact ⟨hr, j11 _ hr, hex, hran, j8.2 hex⟩
  · simp_all [DState.started]

/-! ### progress: every step other than the daemon's own work uses up a bounded budget -/

def DState.pot : DState → Nat
  | .notStarted => 2
  | .working => 2
  | .ran => 0
  | .crashed => 0

def budget (s : St) : Nat :=
  2 * s.todo.length + (if s.lstatus = .running then 1 else 0) + (if s.inflight then 1 else 0)
    + s.dstate.pot + (if s.finished then 0 else 1) + (if s.released then 0 else 1)
    + (if s.result = none then 1 else 0)

theorem budget_lstep (s s' : St) (hr : s.lstatus = .running) (h : lstep s = some s') :
    budget s' < budget s := by
  unfold lstep at h
  split at h
  · simp at h
  · rename_i r ht; simp only [Option.some.injEq] at h; subst h; simp [budget, ht]
  · rename_i r ht
    split at h <;> (simp only [Option.some.injEq] at h; subst h; simp_all [budget, DState.pot]) <;> omega
  · rename_i r ht
    split at h <;> (simp only [Option.some.injEq] at h; subst h; simp_all [budget]) <;> omega
  · rename_i r ht; simp only [Option.some.injEq] at h; subst h; simp [budget, ht]
  · rename_i r ht
    split at h
    · simp only [Option.some.injEq] at h; subst h; simp [budget, ht]
    · split at h
      · simp only [Option.some.injEq] at h; subst h; simp [budget, ht]
      · simp at h
  · rename_i r ht
    split at h
    · simp only [Option.some.injEq] at h; subst h; simp [budget, ht]
    · simp at h
  · rename_i r ht; simp only [Option.some.injEq] at h; subst h; simp [budget, ht]

theorem budget_step (s s' : St) (l : Label) (hl : l ≠ .work) (h : step s l = some s') :
    budget s' < budget s := by
  cases l <;> simp only [step] at h
  case work => exact absurd rfl hl
  case lnext =>
    split at h
    · exact budget_lstep s s' (by assumption) h
    · simp at h
  case deliver =>
    split at h
    · rename_i hin
      split at h
      · split at h <;> (simp only [Option.some.injEq] at h; subst h; simp_all [budget]) <;> omega
      · simp only [Option.some.injEq] at h; subst h; simp_all [budget]
    · simp at h
  case done =>
    split at h
    · rename_i hc
      simp only [Option.some.injEq] at h; subst h
      simp only [budget, hc, DState.pot]
      split <;> split <;> simp <;> omega
    · simp at h
  all_goals
    split at h
    · first
      | (simp only [Option.some.injEq] at h; subst h; simp_all [budget, DState.pot]; done)
      | (simp only [Option.some.injEq] at h; subst h; simp_all [budget, DState.pot]; omega)
      | simp at h
    · first
      | (simp only [Option.some.injEq] at h; subst h; simp_all [budget, DState.pot]; done)
      | (simp only [Option.some.injEq] at h; subst h; simp_all [budget, DState.pot]; omega)
      | simp at h

end Glb.Daemon
