/-
  Helper lemmas for C15: the regenerated parameters, symbolic execution of the handler under the
  "status set once" hypothesis, and the closed form of `relay`.
-/
import Glb.Model.Relay

set_option linter.unusedSimpArgs false

namespace Glb.Relay

/-- the program the theorems are about: exactly what the extractor read from /repo -/
def progNow : Prog :=
  ⟨[.logBeg, .deferEnd, .deferRecover, .callHandler], some 4, some 4, some 12, some (0, 200),
    true, true, true, some 500, some 0, some (0, 200), true, some (0, 200)⟩

/-- the pinned commit: `Flush` did not record the implicit 200 -/
def progPinned : Prog := { progNow with flushImplicit := none }

theorem prog_eq : prog = progNow := by decide

theorem levelInfo_eq : levelInfo = 4 := by decide
theorem levelError_eq : levelError = 12 := by decide

/-- after the status has been set, a handler that does not call `WriteHeader` again leaves the
    writer unchanged -/
theorem runH_noHeader (es : List Ev) (rw : RW) (hn : noHeader es = true) (hs : rw.status ≠ 0)
    (hw : rw.wire = some rw.status) : runH progNow es rw = (rw, panicOf es) := by
  induction es generalizing rw with
  | nil => simp [runH, panicOf]
  | cons e es ih =>
    cases e with
    | ret => simp [runH, panicOf]
    | panic v => simp [runH, panicOf]
    | writeHeader c => simp [noHeader] at hn
    | write =>
      have hwr : rw.write progNow = rw := by
        obtain ⟨st, w⟩ := rw
        simp only at hs hw
        subst hw
        simp [RW.write, progNow, hs, originWrite, originWriteHeader]
      simp only [runH, hwr, panicOf]
      exact ih rw (by simpa [noHeader] using hn) hs hw
    | flush =>
      have hfl : rw.flush progNow = rw := by
        obtain ⟨st, w⟩ := rw
        simp only at hs hw
        subst hw
        simp [RW.flush, progNow, hs, originWrite, originWriteHeader]
      simp only [runH, hfl, panicOf]
      exact ih rw (by simpa [noHeader] using hn) hs hw

/-- final writer state and panic of a "set once" behaviour -/
theorem runH_setOnce (beh : List Ev) (h1 : setOnce beh = true)
    (h0 : ∀ c, Ev.writeHeader c ∈ beh → c ≠ 0) :
    runH progNow beh {} =
      (match statusOf beh with
       | some c => { status := c, wire := some c }
       | none => {}, panicOf beh) := by
  cases beh with
  | nil => simp [runH, statusOf, panicOf]
  | cons e es =>
    cases e with
    | ret => simp [runH, statusOf, panicOf]
    | panic v => simp [runH, statusOf, panicOf]
    | writeHeader c =>
      have hc : c ≠ 0 := h0 c (by simp)
      simp only [runH, statusOf, panicOf]
      have : ({} : RW).writeHeader progNow c = { status := c, wire := some c } := by
        simp [RW.writeHeader, progNow, originWriteHeader]
      rw [this]
      exact runH_noHeader es _ (by simpa [setOnce] using h1) hc rfl
    | write =>
      simp only [runH, statusOf, panicOf]
      have : ({} : RW).write progNow = { status := 200, wire := some 200 } := by
        simp [RW.write, RW.writeHeader, progNow, originWriteHeader, originWrite]
      rw [this]
      exact runH_noHeader es _ (by simpa [setOnce] using h1) (by decide) rfl
    | flush =>
      simp only [runH, statusOf, panicOf]
      have : ({} : RW).flush progNow = { status := 200, wire := some 200 } := by
        simp [RW.flush, RW.writeHeader, progNow, originWriteHeader, originWrite]
      rw [this]
      exact runH_noHeader es _ (by simpa [setOnce] using h1) (by decide) rfl

/-- status the client receives, from the behaviour alone -/
def wireOf (beh : List Ev) : Nat :=
  match statusOf beh with
  | some c => c
  | none =>
    match panicOf beh with
    | some (.other _) => 500
    | _ => 200

/-- the Error record a behaviour produces -/
def errRecs (req : Req) (beh : List Ev) : List Rec :=
  match panicOf beh with
  | some (.other k) => [.error k req.id]
  | _ => []

/-- Relay itself answers 500: a panic (other than ErrAbortHandler) while nothing was set -/
def sends500 (beh : List Ev) : Bool :=
  match statusOf beh, panicOf beh with
  | none, some (.other _) => true
  | _, _ => false

/-- closed form of `relay` for "set once" behaviours -/
theorem relay_eq (thr : Nat) (req : Req) (beh : List Ev) (h1 : setOnce beh = true)
    (h0 : ∀ c, Ev.writeHeader c ∈ beh → c ≠ 0) :
    relay thr req beh =
      { log := (if thr ≤ 4 then [.reqBeg req] else []) ++
               (if thr ≤ 12 then errRecs req beh else []) ++
               (if thr ≤ 4 then [.reqEnd (wireOf beh) req] else [])
        wire := wireOf beh
        relay500 := sends500 beh
        escaped := none } := by
  unfold relay
  rw [prog_eq]
  have hr := runH_setOnce beh h1 h0
  have hc : ∀ c, statusOf beh = some c → c ≠ 0 := by
    intro c hc
    cases beh with
    | nil => simp [statusOf] at hc
    | cons e es =>
      cases e with
      | writeHeader c' => simp [statusOf] at hc; subst hc; exact h0 _ (by simp)
      | write => simp [statusOf] at hc; omega
      | flush => simp [statusOf] at hc; omega
      | ret => simp [statusOf] at hc
      | panic v => simp [statusOf] at hc
  have hb : progNow.body = [.logBeg, .deferEnd, .deferRecover, .callHandler] := rfl
  have e1 : progNow.begLevel = some 4 := rfl
  have e2 : progNow.endLevel = some 4 := rfl
  have e3 : progNow.errLevel = some 12 := rfl
  have e4 : progNow.endDefault = some (0, 200) := rfl
  have e5 : progNow.recovers = true := rfl
  have e6 : progNow.abortExcluded = true := rfl
  have e7 : progNow.code500 = some 500 := rfl
  have e8 : progNow.guard500 = some 0 := rfl
  have e9 : progNow.writeImplicit = some (0, 200) := rfl
  have e10 : progNow.writeHeaderRecords = true := rfl
  simp only [relayWith, hb, execBody, hr]
  cases hs : statusOf beh with
  | none =>
    cases hp : panicOf beh with
    | none =>
      by_cases h4 : thr ≤ 4 <;> by_cases h12 : thr ≤ 12 <;>
        simp [enabled, runDefers, recoverFn, endFn, handlePanic, wireOf, errRecs, sends500, hs, hp,
          h4, h12, e1, e2, e3, e4, e5, e6, e7, e8, e9, e10]
    | some v =>
      cases v with
      | abort =>
        by_cases h4 : thr ≤ 4 <;> by_cases h12 : thr ≤ 12 <;>
          simp [enabled, runDefers, recoverFn, endFn, handlePanic, wireOf, errRecs, sends500, hs,
            hp, h4, h12, e1, e2, e3, e4, e5, e6, e7, e8, e9, e10]
      | other k =>
        by_cases h4 : thr ≤ 4 <;> by_cases h12 : thr ≤ 12 <;>
          simp [enabled, runDefers, recoverFn, endFn, handlePanic, wireOf, errRecs, sends500, hs,
            hp, h4, h12, e1, e2, e3, e4, e5, e6, e7, e8, e9, e10, RW.httpError, RW.write, RW.writeHeader, originWrite,
            originWriteHeader]
  | some c =>
    have hcz := hc c hs
    cases hp : panicOf beh with
    | none =>
      by_cases h4 : thr ≤ 4 <;> by_cases h12 : thr ≤ 12 <;>
        simp [enabled, runDefers, recoverFn, endFn, handlePanic, wireOf, errRecs, sends500, hs, hp,
          h4, h12, e1, e2, e3, e4, e5, e6, e7, e8, e9, e10, hcz]
    | some v =>
      cases v with
      | abort =>
        by_cases h4 : thr ≤ 4 <;> by_cases h12 : thr ≤ 12 <;>
          simp [enabled, runDefers, recoverFn, endFn, handlePanic, wireOf, errRecs, sends500, hs,
            hp, h4, h12, e1, e2, e3, e4, e5, e6, e7, e8, e9, e10, hcz]
      | other k =>
        by_cases h4 : thr ≤ 4 <;> by_cases h12 : thr ≤ 12 <;>
          simp [enabled, runDefers, recoverFn, endFn, handlePanic, wireOf, errRecs, sends500, hs,
            hp, h4, h12, e1, e2, e3, e4, e5, e6, e7, e8, e9, e10, hcz]

/-- every record of a request carries the request's id -/
theorem log_ids (thr : Nat) (req : Req) (beh : List Ev) (h1 : setOnce beh = true)
    (h0 : ∀ c, Ev.writeHeader c ∈ beh → c ≠ 0) :
    ∀ r ∈ (relay thr req beh).log, r.id = req.id := by
  rw [relay_eq thr req beh h1 h0]
  intro r hr
  simp only [List.mem_append] at hr
  unfold errRecs at hr
  rcases hr with (hr | hr) | hr
  · split at hr <;> simp at hr; subst hr; rfl
  · split at hr
    · split at hr <;> simp at hr; subst hr; rfl
    · simp at hr
  · split at hr <;> simp at hr; subst hr; rfl

/-! ### interleaved logs of concurrent requests -/

def upd {α} (f : Nat → α) (i : Nat) (x : α) : Nat → α := fun j => if j = i then x else f j

/-- `out` is an interleaving of the per-request logs `f 0, f 1, …` (each in its own order) -/
inductive Shuffle : (Nat → List Rec) → List Rec → Prop
  | done (f : Nat → List Rec) : (∀ i, f i = []) → Shuffle f []
  | step (f : Nat → List Rec) (i : Nat) (x : Rec) (rest out : List Rec) :
      f i = x :: rest → Shuffle (upd f i rest) out → Shuffle f (x :: out)

theorem shuffle_filter (ids : Nat → Bytes) (hinj : ∀ i j, ids i = ids j → i = j)
    (f : Nat → List Rec) (out : List Rec) (hs : Shuffle f out)
    (hid : ∀ i, ∀ r ∈ f i, r.id = ids i) :
    ∀ i, out.filter (fun r => r.id == ids i) = f i := by
  induction hs with
  | done f hnil => intro i; simp [hnil i]
  | step f k x rest out hk _ ih =>
    have hx : x.id = ids k := hid k x (by simp [hk])
    have hid' : ∀ i, ∀ r ∈ upd f k rest i, r.id = ids i := by
      intro i r hr
      unfold upd at hr
      by_cases hik : i = k
      · subst hik; simp at hr; exact hid i r (by simp [hk, hr])
      · simp [hik] at hr; exact hid i r hr
    intro i
    have := ih hid' i
    by_cases hik : i = k
    · subst hik
      rw [List.filter_cons]
      simp only [hx, beq_self_eq_true, if_true, hk]
      congr 1
      simpa [upd] using this
    · have hne : (ids k == ids i) = false := by
        simpa using fun h => hik (hinj _ _ h).symm
      rw [List.filter_cons]
      simp only [hx, hne]
      simpa [upd, hik] using this

end Glb.Relay
