/-
  The byte-level transcription of Go's `path.Clean` (`Model/PathCleanBytes.lean`) computes the same
  function as the segment model (`Model/PathClean.lean`).

  Invariant of the byte loop (`Rel`): with `st` the (reversed) segment stack of the segment model,
    * `st = segs ++ ".."^k`, all `segs` real names, `k = 0` when rooted   (`PathClean.WFr`);
    * `out` (reversed buffer) is the rendering `outOf rooted st` of the stack: the leading '/' of a
      rooted path, then the elements separated by single slashes;
    * `dotdot` is the length of the rendering of the `".."^k` prefix alone (1 = the leading slash
      when rooted, 0 or `3k-1` otherwise).
  One loop iteration (`body`) consumes one path element `e` (up to the next '/') and maps the
  invariant for `st` to the invariant for `step rooted st e` (`body_spec`).
-/
import Glb.Model.PathCleanBytes
import Glb.Proofs.PathClean

namespace Glb.PathCleanBytes
open Glb.PathClean Glb.PathNF

/-! ### the next path element -/

/-- the element starting at the reading position and the unread rest behind it -/
def spanElem : Bytes → Bytes × Bytes
  | [] => ([], [])
  | c :: t => if c = slash then ([], c :: t) else (c :: (spanElem t).1, (spanElem t).2)

theorem copyElem_eq (p out : Bytes) :
    copyElem p out = ((spanElem p).2, (spanElem p).1.reverse ++ out) := by
  induction p generalizing out with
  | nil => simp [copyElem, spanElem]
  | cons c t ih =>
    by_cases hc : c = slash
    · simp [copyElem, spanElem, hc]
    · simp [copyElem, spanElem, hc, ih]

theorem spanElem_length (p : Bytes) : (spanElem p).2.length ≤ p.length := by
  induction p with
  | nil => simp [spanElem]
  | cons c t ih =>
    by_cases hc : c = slash
    · simp [spanElem, hc]
    · simp [spanElem, hc]; omega

theorem spanElem_noslash (p : Bytes) : slash ∉ (spanElem p).1 := by
  induction p with
  | nil => simp [spanElem]
  | cons c t ih =>
    by_cases hc : c = slash
    · simp [spanElem, hc]
    · simp only [spanElem, hc, if_false, List.mem_cons, not_or]
      exact ⟨fun e => hc e.symm, ih⟩

theorem spanElem_rest (p : Bytes) : (spanElem p).2 = [] ∨ ∃ t, (spanElem p).2 = slash :: t := by
  induction p with
  | nil => simp [spanElem]
  | cons c t ih =>
    by_cases hc : c = slash
    · simp [spanElem, hc]
    · simpa [spanElem, hc] using ih

theorem spanElem_atEnd (t : Bytes) (h : atEnd t = true) : spanElem t = ([], t) := by
  cases t with
  | nil => rfl
  | cons c t => simp [atEnd] at h; simp [spanElem, h]

theorem atEnd_of_spanElem (t : Bytes) (h : (spanElem t).1 = []) : atEnd t = true := by
  cases t with
  | nil => rfl
  | cons c t =>
    by_cases hc : c = slash
    · simp [atEnd, hc]
    · simp [spanElem, hc] at h

theorem split_span (p : Bytes) :
    split p = (spanElem p).1 :: (match (spanElem p).2 with | [] => [] | _ :: t => split t) := by
  induction p with
  | nil => simp [split, spanElem]
  | cons c t ih =>
    by_cases hc : c = slash
    · simp [split, spanElem, hc]
    · simp only [split, hc, if_false, spanElem]
      rw [ih]

/-- reading a path = reading its first element, then the rest -/
theorem foldl_split_span (r : Bool) (p : Bytes) (st : List Bytes) :
    (split p).foldl (step r) st =
      (split (spanElem p).2).foldl (step r) (step r st (spanElem p).1) := by
  rw [split_span p]
  rcases spanElem_rest p with h | ⟨t, h⟩
  · rw [h]; simp [split, step_empty]
  · rw [h]; simp [split_cons_slash, step_empty]

/-! ### rendering of a reversed stack into the reversed buffer -/

/-- the buffer before the first element: the leading '/' of a rooted path -/
def baseOut (r : Bool) : Bytes := if r then [slash] else []

/-- reversed buffer content for the reversed stack `st` (top first) -/
def outOf (r : Bool) : List Bytes → Bytes
  | [] => baseOut r
  | [s] => s.reverse ++ baseOut r
  | s :: t :: rest => s.reverse ++ slash :: outOf r (t :: rest)

theorem outOf_cons (r : Bool) (s : Bytes) (st : List Bytes) (h : st ≠ []) :
    outOf r (s :: st) = s.reverse ++ slash :: outOf r st := by
  cases st with
  | nil => exact absurd rfl h
  | cons t rest => rfl

theorem outOf_single (r : Bool) (s : Bytes) : outOf r [s] = s.reverse ++ baseOut r := rfl

theorem outOf_length_cons (r : Bool) (s : Bytes) (st : List Bytes) :
    (outOf r st).length + s.length ≤ (outOf r (s :: st)).length := by
  cases st with
  | nil => simp [outOf]; omega
  | cons t rest => simp [outOf]; omega

theorem outOf_length_append (r : Bool) (a b : List Bytes) :
    (outOf r b).length ≤ (outOf r (a ++ b)).length := by
  induction a with
  | nil => simp
  | cons s a ih =>
    have := outOf_length_cons r s (a ++ b)
    simp only [List.cons_append]
    omega

theorem outOf_length_eq_base (r : Bool) (st : List Bytes) (h : ∀ s ∈ st, s ≠ []) :
    (outOf r st).length = (baseOut r).length ↔ st = [] := by
  constructor
  · intro hl
    cases st with
    | nil => rfl
    | cons s st =>
      have h1 := outOf_length_cons r s st
      have h2 := outOf_length_append r st []
      have h3 : 0 < s.length := List.length_pos_iff.mpr (h s (by simp))
      simp only [List.append_nil, outOf] at h2
      omega
  · intro e; subst e; rfl

theorem unsplit_append_single (xs : List Bytes) (s : Bytes) (h : xs ≠ []) :
    unsplit (xs ++ [s]) = unsplit xs ++ slash :: s := by
  induction xs with
  | nil => exact absurd rfl h
  | cons x xs ih =>
    cases xs with
    | nil => simp [unsplit]
    | cons y ys =>
      have := ih (by simp)
      simp only [List.cons_append] at this ⊢
      simp [unsplit, this]

theorem outOf_reverse (r : Bool) (st : List Bytes) :
    (outOf r st).reverse = (baseOut r).reverse ++ unsplit st.reverse := by
  induction st with
  | nil => simp [outOf, unsplit]
  | cons s st ih =>
    cases st with
    | nil => simp [outOf, unsplit]
    | cons t rest =>
      rw [outOf_cons r s (t :: rest) (by simp)]
      simp only [List.reverse_append, List.reverse_cons, List.reverse_reverse] at ih ⊢
      rw [ih]
      have := unsplit_append_single (rest.reverse ++ [t]) s (by simp)
      simp only [List.append_assoc, List.cons_append, List.nil_append] at this
      simp [this]

/-! ### backtracking over the last element -/

theorem backtrack_stop (dd : Nat) (u T : Bytes) (hu : u ≠ []) (hs : slash ∉ u)
    (hT : T.length = dd) : backtrack dd (u ++ T) = T := by
  induction u with
  | nil => exact absurd rfl hu
  | cons b u ih =>
    have hb : b ≠ slash := by intro e; apply hs; simp [e]
    cases u with
    | nil => simp [backtrack, hT]
    | cons b' u' =>
      have := ih (by simp) (fun e => hs (List.mem_cons_of_mem _ e))
      simp only [List.cons_append] at this ⊢
      rw [backtrack]
      simp only [List.length_cons, List.length_append, hb, ne_eq, not_false_eq_true, and_true]
      rw [if_pos (by omega), this]

theorem backtrack_slash (dd : Nat) (u X : Bytes) (hu : u ≠ []) (hs : slash ∉ u)
    (hX : dd ≤ X.length) : backtrack dd (u ++ slash :: X) = X := by
  induction u with
  | nil => exact absurd rfl hu
  | cons b u ih =>
    have hb : b ≠ slash := by intro e; apply hs; simp [e]
    cases u with
    | nil =>
      simp only [List.cons_append, List.nil_append]
      rw [backtrack]
      simp only [List.length_cons, hb, ne_eq, not_false_eq_true, and_true]
      rw [if_pos (by omega), backtrack]
      simp
    | cons b' u' =>
      have := ih (by simp) (fun e => hs (List.mem_cons_of_mem _ e))
      simp only [List.cons_append] at this ⊢
      rw [backtrack]
      simp only [List.length_cons, List.length_append, hb, ne_eq, not_false_eq_true, and_true]
      rw [if_pos (by omega), this]

/-! ### the loop invariant -/

/-- relation between the segment stack `st` (reversed) and the byte state `(out, dotdot)` -/
def Rel (r : Bool) (st : List Bytes) (out : Bytes) (dd : Nat) : Prop :=
  ∃ k segs, st = segs ++ List.replicate k dotdot ∧ (∀ s ∈ segs, Normal s) ∧ (r = true → k = 0) ∧
    out = outOf r st ∧ dd = (outOf r (List.replicate k dotdot)).length

theorem Rel.wfr {r st out dd} (h : Rel r st out dd) : WFr r st := by
  obtain ⟨k, segs, h1, h2, h3, _, _⟩ := h
  exact ⟨k, segs, h1, h2, h3⟩

theorem Rel.out_eq {r st out dd} (h : Rel r st out dd) : out = outOf r st := by
  obtain ⟨_, _, _, _, _, h4, _⟩ := h
  exact h4

theorem rel_init (r : Bool) : Rel r [] (baseOut r) (baseOut r).length :=
  ⟨0, [], by simp, by simp, by simp, rfl, rfl⟩

theorem dotdot_ne_nil : dotdot ≠ [] := by decide

theorem wfr_mem_ne_nil {r : Bool} {st : List Bytes} (h : WFr r st) : ∀ s ∈ st, s ≠ [] := by
  obtain ⟨k, segs, h1, h2, _⟩ := h
  intro s hs
  rw [h1] at hs
  rcases List.mem_append.mp hs with h | h
  · exact (h2 s h).1
  · rw [(List.mem_replicate.mp h).2]; exact dotdot_ne_nil

/-- "add slash if needed" fires exactly when an element has been written already -/
theorem needSlash_iff (r : Bool) (st : List Bytes) (h : ∀ s ∈ st, s ≠ []) :
    ((r && (outOf r st).length != 1) || (!r && (outOf r st).length != 0)) = true ↔ st ≠ [] := by
  have := outOf_length_eq_base r st h
  cases r <;> simp [baseOut] at this ⊢ <;> simp [← this]

theorem dot_eq : [dotB] = dot := rfl
theorem dotdot_eq : [dotB, dotB] = dotdot := rfl

/-- the `..` case of the loop body on a related state -/
theorem body_dotdot (r : Bool) (t2 : Bytes) (st : List Bytes) (out : Bytes) (dd : Nat)
    (h : Rel r st out dd) (hend : atEnd t2 = true) :
    body r dotB (dotB :: t2) out dd =
        (t2, (body r dotB (dotB :: t2) out dd).2.1, (body r dotB (dotB :: t2) out dd).2.2) ∧
      Rel r (step r st dotdot) (body r dotB (dotB :: t2) out dd).2.1
        (body r dotB (dotB :: t2) out dd).2.2 := by
  have hb : ∀ x : Bytes × Bytes × Nat, body r dotB (dotB :: t2) out dd = x →
      x.1 = t2 → Rel r (step r st dotdot) x.2.1 x.2.2 →
      body r dotB (dotB :: t2) out dd =
        (t2, (body r dotB (dotB :: t2) out dd).2.1, (body r dotB (dotB :: t2) out dd).2.2) ∧
      Rel r (step r st dotdot) (body r dotB (dotB :: t2) out dd).2.1
        (body r dotB (dotB :: t2) out dd).2.2 := by
    intro x hx h1 h2
    rw [hx]
    exact ⟨by rw [← h1], h2⟩
  have hne : dotB ≠ slash := by decide
  have hnend : atEnd (dotB :: t2) = false := by simp [atEnd, hne]
  obtain ⟨k, segs, hst, hn, hk, hout, hdd⟩ := h
  cases segs with
  | cons s segs' =>
    have hsn := hn s (by simp)
    have hgt : out.length > dd := by
      have h1 := outOf_length_cons r s (segs' ++ List.replicate k dotdot)
      have h2 := outOf_length_append r segs' (List.replicate k dotdot)
      have h3 : 0 < s.length := List.length_pos_iff.mpr hsn.1
      rw [hout, hdd, hst]
      simp only [List.cons_append]
      omega
    have hrev1 : s.reverse ≠ [] := by simpa using hsn.1
    have hrev2 : slash ∉ s.reverse := by simpa using hsn.2.2.2
    have hbt : backtrack dd out = outOf r (segs' ++ List.replicate k dotdot) := by
      by_cases he : segs' ++ List.replicate k dotdot = []
      · obtain ⟨hs0, hk0⟩ := List.append_eq_nil_iff.mp he
        rw [hout, hst, hdd, hk0, hs0]
        exact backtrack_stop _ _ (baseOut r) hrev1 hrev2 rfl
      · rw [hout, hst]
        simp only [List.cons_append]
        rw [outOf_cons r s _ he]
        apply backtrack_slash _ _ _ hrev1 hrev2
        rw [hdd]
        exact outOf_length_append r segs' _
    apply hb (t2, backtrack dd out, dd)
    · simp [body, hne, hnend, hend, hgt]
    · rfl
    · have hstep : step r st dotdot = segs' ++ List.replicate k dotdot := by
        rw [hst]
        simp [step_dotdot_cons, hsn.2.2.1]
      rw [hstep]
      exact ⟨k, segs', rfl, fun x hx => hn x (by simp [hx]), hk, hbt, hdd⟩
  | nil =>
    simp only [List.nil_append] at hst
    have hle : ¬ out.length > dd := by rw [hout, hdd, hst]; omega
    cases r with
    | true =>
      have hk0 := hk rfl
      subst hk0
      simp only [List.replicate_zero] at hst
      apply hb (t2, out, dd)
      · simp [body, hne, hnend, hend, hle]
      · rfl
      · rw [hst, step_dotdot_nil, if_pos rfl]
        exact ⟨0, [], by simp, by simp, by simp, by rw [hout, hst], hdd⟩
    | false =>
      have hall : ∀ s ∈ st, s ≠ [] := by
        intro s hs
        rw [hst] at hs
        rw [(List.mem_replicate.mp hs).2]
        exact dotdot_ne_nil
      have hpos : out.length > 0 ↔ st ≠ [] := by
        have := outOf_length_eq_base false st hall
        simp only [baseOut, Bool.false_eq_true, if_false, List.length_nil] at this
        rw [hout, Ne, ← this]
        omega
      have hstep : step false st dotdot = List.replicate (k + 1) dotdot := by
        rw [hst]
        cases k with
        | zero => simp [step_dotdot_nil]
        | succ k => simp [List.replicate_succ, step_dotdot_cons]
      have hnew : dotB :: dotB :: (if out.length > 0 then slash :: out else out) =
          outOf false (List.replicate (k + 1) dotdot) := by
        rw [List.replicate_succ, ← hst]
        by_cases he : st = []
        · have : ¬ out.length > 0 := fun h => (hpos.mp h) he
          rw [if_neg this, hout, he]
          rfl
        · rw [if_pos (hpos.mpr he), outOf_cons false dotdot st he, hout]
          rfl
      apply hb (t2, dotB :: dotB :: (if out.length > 0 then slash :: out else out),
        (dotB :: dotB :: (if out.length > 0 then slash :: out else out)).length)
      · simp [body, hne, hnend, hend, hle]
      · rfl
      · rw [hstep]
        exact ⟨k + 1, [], by simp, by simp, by simp, hnew, by rw [hnew]⟩

/-- One loop iteration reads one element and performs the segment model's `step` on it. -/
theorem body_spec (r : Bool) (c : UInt8) (t : Bytes) (st : List Bytes) (out : Bytes) (dd : Nat)
    (h : Rel r st out dd) :
    ∃ st', Rel r st' (body r c t out dd).2.1 (body r c t out dd).2.2 ∧
      (split (body r c t out dd).1).foldl (step r) st' = (split (c :: t)).foldl (step r) st ∧
      (body r c t out dd).1.length ≤ t.length := by
  by_cases hc : c = slash
  · refine ⟨st, ?_, ?_, ?_⟩
    · simpa [body, hc] using h
    · simp [body, hc, split_cons_slash, step_empty]
    · simp [body, hc]
  · have hspan : spanElem (c :: t) = (c :: (spanElem t).1, (spanElem t).2) := by
      simp [spanElem, hc]
    have hfold := foldl_split_span r (c :: t) st
    rw [hspan] at hfold
    simp only at hfold
    by_cases h1 : c = dotB ∧ atEnd t = true
    · have hsp := spanElem_atEnd t h1.2
      refine ⟨st, ?_, ?_, ?_⟩
      · simpa [body, hc, h1] using h
      · rw [hfold, hsp, h1.1, dot_eq, step_dot]
        simp [body, h1]
      · simp [body, h1]
    · by_cases h2 : c = dotB ∧ t.head? = some dotB ∧ atEnd t.tail = true
      · obtain ⟨hc2, ht, hend⟩ := h2
        cases t with
        | nil => simp at ht
        | cons c2 t2 =>
          simp only [List.head?_cons, Option.some.injEq] at ht
          simp only [List.tail_cons] at hend
          subst hc2 ht
          obtain ⟨hb1, hb2⟩ := body_dotdot r t2 st out dd h hend
          have hsp : spanElem (dotB :: t2) = (dot, t2) := by
            have hne : dotB ≠ slash := by decide
            simp [spanElem, hne, spanElem_atEnd t2 hend, dot_eq]
          refine ⟨step r st dotdot, hb2, ?_, ?_⟩
          · rw [hfold, hsp, hb1]
            rfl
          · rw [hb1]; simp
      · -- real path element
        have he1 : c :: (spanElem t).1 ≠ dot := by
          intro e
          simp only [dot, List.cons.injEq] at e
          exact h1 ⟨e.1, atEnd_of_spanElem t e.2⟩
        have he2 : c :: (spanElem t).1 ≠ dotdot := by
          intro e
          simp only [dotdot, List.cons.injEq] at e
          obtain ⟨e1, e2⟩ := e
          cases t with
          | nil => simp [spanElem] at e2
          | cons c2 t2 =>
            by_cases hc2 : c2 = slash
            · simp [spanElem, hc2] at e2
            · simp only [spanElem, hc2, if_false, List.cons.injEq] at e2
              exact h2 ⟨e1, by simp [e2.1, dotB], by simpa using atEnd_of_spanElem t2 e2.2⟩
        have he3 : slash ∉ c :: (spanElem t).1 := by
          have := spanElem_noslash (c :: t)
          rwa [hspan] at this
        obtain ⟨k, segs, hst, hn, hk, hout, hdd⟩ := h
        have hall : ∀ s ∈ st, s ≠ [] := wfr_mem_ne_nil ⟨k, segs, hst, hn, hk⟩
        have hbody : body r c t out dd =
            ((spanElem t).2, (c :: (spanElem t).1).reverse ++
              (if st ≠ [] then slash :: out else out), dd) := by
          have hns := needSlash_iff r st hall
          rw [← hout] at hns
          simp only [body, hc, h1, h2, if_false, copyElem_eq, hspan]
          by_cases he : st = []
          · have : ¬ ((r && out.length != 1) || (!r && out.length != 0)) = true :=
              fun h => (hns.mp h) he
            simp [this, he]
          · have : ((r && out.length != 1) || (!r && out.length != 0)) = true := hns.mpr he
            simp [this, he]
        refine ⟨(c :: (spanElem t).1) :: st, ?_, ?_, ?_⟩
        · rw [hbody]
          refine ⟨k, (c :: (spanElem t).1) :: segs, by simp [hst], ?_, hk, ?_, hdd⟩
          · intro x hx
            cases hx with
            | head => exact ⟨by simp, he1, he2, he3⟩
            | tail _ hx => exact hn x hx
          · by_cases he : st = []
            · simp only [he, ne_eq, not_true_eq_false, if_false]
              rw [hout, he]; rfl
            · rw [if_pos he, outOf_cons r _ st he, hout]
        · rw [hfold, hbody, step_push r st _ (by simp) he1 he2]
        · rw [hbody]
          have := spanElem_length t
          simpa using this

/-! ### the loop -/

/-- every iteration consumes at least one byte (`r` increases) -/
theorem body_length (r : Bool) (c : UInt8) (t out : Bytes) (dd : Nat) :
    (body r c t out dd).1.length ≤ t.length := by
  unfold body
  split
  · simp
  · split
    · simp
    · split
      · split
        · simp
        · split <;> simp
      · rename_i hc _ _
        have := spanElem_length t
        simpa [copyElem_eq, spanElem, hc] using this

/-- the fuel `len(path)` never runs out: any two sufficient amounts give the same result -/
theorem loop_fuel (r : Bool) (f1 : Nat) : ∀ (f2 : Nat) (rest out : Bytes) (dd : Nat),
    rest.length ≤ f1 → rest.length ≤ f2 → loop r f1 rest out dd = loop r f2 rest out dd := by
  induction f1 with
  | zero =>
    intro f2 rest out dd h1 _
    have : rest = [] := List.eq_nil_of_length_eq_zero (by omega)
    subst this
    cases f2 <;> simp [loop]
  | succ f1 ih =>
    intro f2 rest out dd h1 h2
    cases rest with
    | nil => cases f2 <;> simp [loop]
    | cons c t =>
      cases f2 with
      | zero => simp at h2
      | succ f2 =>
        simp only [loop]
        have := body_length r c t out dd
        simp only [List.length_cons] at h1 h2
        exact ih f2 _ _ _ (by omega) (by omega)

/-- The byte loop started in a state related to the stack `st` ends in a state related to the
    stack the segment model computes from the unread input. -/
theorem loop_spec (r : Bool) (fuel : Nat) : ∀ (rest : Bytes) (st : List Bytes) (out : Bytes)
    (dd : Nat), Rel r st out dd → rest.length ≤ fuel →
    ∃ dd', Rel r ((split rest).foldl (step r) st) (loop r fuel rest out dd) dd' := by
  induction fuel with
  | zero =>
    intro rest st out dd h hl
    have : rest = [] := List.eq_nil_of_length_eq_zero (by omega)
    subst this
    exact ⟨dd, by simpa [loop, split, step_empty] using h⟩
  | succ fuel ih =>
    intro rest st out dd h hl
    cases rest with
    | nil => exact ⟨dd, by simpa [loop, split, step_empty] using h⟩
    | cons c t =>
      obtain ⟨st', hrel, hfold, hlen⟩ := body_spec r c t st out dd h
      simp only [List.length_cons] at hl
      obtain ⟨dd', hfin⟩ := ih (body r c t out dd).1 st' _ _ hrel (by omega)
      rw [hfold] at hfin
      exact ⟨dd', by simpa [loop] using hfin⟩

/-- **The byte algorithm of `path.Clean` equals the segment model, for every byte string.** -/
theorem cleanBytes_eq_clean (p : Bytes) : cleanBytes p = clean p := by
  cases p with
  | nil => rfl
  | cons c t =>
    by_cases hc : c = slash
    · subst hc
      obtain ⟨dd', hrel⟩ := loop_spec true (t.length + 1) t [] [slash] 1 (rel_init true)
        (by omega)
      have hout := hrel.out_eq
      have hrev := outOf_reverse true ((split t).foldl (step true) [])
      rw [← hout] at hrev
      have hne : (loop true (t.length + 1) t [slash] 1).length ≠ 0 := by
        intro h0
        have := congrArg List.length hrev
        simp [baseOut, h0] at this
      simp only [cleanBytes, List.length_cons, decide_true, if_true, hne, if_false, hrev]
      simp [clean, render, isRooted, stackOf, split_cons_slash, step_empty, baseOut]
    · obtain ⟨dd', hrel⟩ := loop_spec false (t.length + 1) (c :: t) [] [] 0 (rel_init false)
        (by simp)
      have hout := hrel.out_eq
      have hall := wfr_mem_ne_nil hrel.wfr
      have hrev := outOf_reverse false ((split (c :: t)).foldl (step false) [])
      have hlen := outOf_length_eq_base false _ hall
      rw [← hout] at hrev hlen
      simp only [baseOut, Bool.false_eq_true, if_false, List.length_nil, List.reverse_nil,
        List.nil_append] at hrev hlen
      simp only [cleanBytes, List.length_cons, hc, decide_false, Bool.false_eq_true, if_false, hrev]
      simp only [clean, render, isRooted, hc, decide_false, Bool.false_eq_true, if_false, stackOf]
      by_cases he : (split (c :: t)).foldl (step false) [] = []
      · rw [if_pos (hlen.mpr he), he]; rfl
      · rw [if_neg (fun h => he (hlen.mp h)), if_neg (by simpa using he)]

theorem cleanBytes_eq : cleanBytes = clean := funext cleanBytes_eq_clean

theorem joinB_eq (elems : List Bytes) : joinB elems = join elems := by
  unfold joinB join
  rw [cleanBytes_eq]
  cases List.dropWhile (fun e => decide (e = [])) elems <;> rfl

theorem resolveUrlPathB_eq (base url : Bytes) : resolveUrlPathB base url = resolveUrlPath base url := by
  simp only [resolveUrlPathB, resolveUrlPath, joinB_eq, cleanBytes_eq]

end Glb.PathCleanBytes
