/- Lemmas about the `argsToAttrs` pairing and the fixed-width decimal writers. -/
import Glb.Model.AuxLogger

namespace Glb.Aux.Args
variable {σ α ν : Type}

/-- induction principle following the loop (steps of one or two arguments) -/
theorem args_induction {P : List (Arg σ α ν) → Prop}
    (nil : P [])
    (pair : ∀ s v rest, P rest → P (.str s :: v :: rest))
    (lone : ∀ s, P [.str s])
    (attr : ∀ a rest, P rest → P (.attr a :: rest))
    (other : ∀ v rest, P rest → P (.other v :: rest)) : ∀ xs, P xs := by
  intro xs
  induction h : xs.length using Nat.strongRecOn generalizing xs with
  | _ n ih =>
    match xs, h with
    | [], _ => exact nil
    | [.str s], _ => exact lone s
    | .str s :: v :: rest, h => exact pair s v rest (ih rest.length (by simp at h; omega) rest rfl)
    | .attr a :: rest, h => exact attr a rest (ih rest.length (by simp at h; omega) rest rfl)
    | .other v :: rest, h => exact other v rest (ih rest.length (by simp at h; omega) rest rfl)

theorem unparse_argsToAttrs (xs : List (Arg σ α ν)) : unparse (argsToAttrs xs) = xs := by
  induction xs using args_induction with
  | nil => simp [argsToAttrs, unparse]
  | pair s v rest ih => simpa [argsToAttrs, unparse, Out.source] using ih
  | lone s => simp [argsToAttrs, unparse, Out.source]
  | attr a rest ih => simpa [argsToAttrs, unparse, Out.source] using ih
  | other v rest ih => simpa [argsToAttrs, unparse, Out.source] using ih

theorem length_le (xs : List (Arg σ α ν)) : (argsToAttrs xs).length ≤ xs.length := by
  induction xs using args_induction with
  | nil => simp [argsToAttrs]
  | pair s v rest ih => simp [argsToAttrs]; omega
  | lone s => simp [argsToAttrs]
  | attr a rest ih => simp [argsToAttrs]; omega
  | other v rest ih => simp [argsToAttrs]; omega

theorem length_ge (xs : List (Arg σ α ν)) : xs.length ≤ 2 * (argsToAttrs xs).length := by
  induction xs using args_induction with
  | nil => simp [argsToAttrs]
  | pair s v rest ih => simp [argsToAttrs]; omega
  | lone s => simp [argsToAttrs]
  | attr a rest ih => simp [argsToAttrs]; omega
  | other v rest ih => simp [argsToAttrs]; omega

/-- the number of outputs is exactly the number of arguments minus the number of pairs, and the
    roles of the independent scan are those of the produced attributes -/
theorem length_eq (xs : List (Arg σ α ν)) :
    (argsToAttrs xs).length + ((roles false xs).filter (· = .value)).length = xs.length ∧
    roles false xs = (argsToAttrs xs).flatMap Out.roles := by
  induction xs using args_induction with
  | nil => simp [argsToAttrs, roles]
  | pair s v rest ih =>
    obtain ⟨h1, h2⟩ := ih
    refine ⟨?_, ?_⟩
    · simp [argsToAttrs, roles]; omega
    · simp [argsToAttrs, roles, Out.roles, h2]
  | lone s => simp [argsToAttrs, roles, Out.roles]
  | attr a rest ih =>
    obtain ⟨h1, h2⟩ := ih
    refine ⟨?_, ?_⟩
    · simp [argsToAttrs, roles]; omega
    · simp [argsToAttrs, roles, Out.roles, h2]
  | other v rest ih =>
    obtain ⟨h1, h2⟩ := ih
    refine ⟨?_, ?_⟩
    · simp [argsToAttrs, roles]; omega
    · simp [argsToAttrs, roles, Out.roles, h2]

theorem roles_length (xs : List (Arg σ α ν)) : ∀ p, (roles p xs).length = xs.length := by
  induction xs with
  | nil => intro p; cases p <;> simp [roles]
  | cons x xs ih =>
    intro p
    cases p with
    | true => simp [roles, ih]
    | false =>
      cases x with
      | str s =>
        cases xs with
        | nil => simp [roles]
        | cons y ys =>
          have := ih true
          simp [roles] at this ⊢
          exact this
      | attr a => simp [roles, ih]
      | other v => simp [roles, ih]

/-- completeness of the pairing: every well-formed output list is produced from its own sources,
    provided no lone-string attribute stands before the end -/
theorem argsToAttrs_unparse_append (os : List (Out σ α ν)) (h : ∀ o ∈ os, o.isBadStr = false)
    (ys : List (Arg σ α ν)) : argsToAttrs (unparse os ++ ys) = os ++ argsToAttrs ys := by
  induction os with
  | nil => simp [unparse]
  | cons o os ih =>
    have ih' := ih (fun o ho => h o (List.mem_cons_of_mem _ ho))
    have ho := h o (List.mem_cons_self ..)
    cases o with
    | pair k v => simpa [unparse, Out.source, argsToAttrs] using ih'
    | badStr s => simp [Out.isBadStr] at ho
    | pass a => simpa [unparse, Out.source, argsToAttrs] using ih'
    | badAny v => simpa [unparse, Out.source, argsToAttrs] using ih'

theorem append_of_boundary (xs ys : List (Arg σ α ν))
    (h : ∀ o ∈ argsToAttrs xs, o.isBadStr = false) :
    argsToAttrs (xs ++ ys) = argsToAttrs xs ++ argsToAttrs ys := by
  have := argsToAttrs_unparse_append (argsToAttrs xs) h ys
  rwa [unparse_argsToAttrs] at this

theorem no_str_map (xs : List (Arg σ α ν)) (h : ∀ x ∈ xs, x.isStr = false) :
    argsToAttrs xs = xs.map direct := by
  induction xs with
  | nil => simp [argsToAttrs]
  | cons x xs ih =>
    have ih' := ih (fun y hy => h y (List.mem_cons_of_mem _ hy))
    have hx := h x (List.mem_cons_self ..)
    cases x with
    | str s => simp [Arg.isStr] at hx
    | attr a => simp [argsToAttrs, direct, ih']
    | other v => simp [argsToAttrs, direct, ih']

/-- a lone-string attribute can only be the last output, and then the last argument is that string -/
theorem badStr_only_last (xs : List (Arg σ α ν)) (s : σ) (pre post : List (Out σ α ν))
    (h : argsToAttrs xs = pre ++ .badStr s :: post) :
    post = [] ∧ xs = unparse pre ++ [.str s] := by
  induction xs using args_induction generalizing pre with
  | nil => simp [argsToAttrs] at h
  | lone t =>
    simp only [argsToAttrs] at h
    cases pre with
    | nil => simp at h; obtain ⟨rfl, rfl⟩ := h; simp [unparse]
    | cons p pre => simp at h
  | pair k v rest ih =>
    simp only [argsToAttrs] at h
    cases pre with
    | nil => simp at h
    | cons p pre =>
      simp at h
      obtain ⟨rfl, h⟩ := h
      obtain ⟨hp, hx⟩ := ih pre h
      exact ⟨hp, by simp [unparse, Out.source, hx]⟩
  | attr a rest ih =>
    simp only [argsToAttrs] at h
    cases pre with
    | nil => simp at h
    | cons p pre =>
      simp at h
      obtain ⟨rfl, h⟩ := h
      obtain ⟨hp, hx⟩ := ih pre h
      exact ⟨hp, by simp [unparse, Out.source, hx]⟩
  | other v rest ih =>
    simp only [argsToAttrs] at h
    cases pre with
    | nil => simp at h
    | cons p pre =>
      simp at h
      obtain ⟨rfl, h⟩ := h
      obtain ⟨hp, hx⟩ := ih pre h
      exact ⟨hp, by simp [unparse, Out.source, hx]⟩

theorem pass_mem (xs : List (Arg σ α ν)) (a : α) (h : .pass a ∈ argsToAttrs xs) : .attr a ∈ xs := by
  have hx := unparse_argsToAttrs xs
  rw [← hx]
  simp only [unparse, List.mem_flatMap]
  exact ⟨_, h, by simp [Out.source]⟩

end Glb.Aux.Args
namespace Glb.Aux.DateTime
open Glb

set_option maxRecDepth 100000 in
theorem smalls_length : smalls.length = 200 := by decide

set_option maxRecDepth 100000 in
theorem smalls_table : ∀ i < 100, (smalls.drop (2 * i)).take 2 = [digit (i / 10), digit i] := by decide

set_option maxRecDepth 100000 in
theorem smalls_odd : ∀ i < 10, smalls[2 * i + 1]? = some (digit i) := by decide

theorem pad_one (n : Nat) : pad 1 n = [digit n] := by simp [pad]
theorem pad_two (n : Nat) : pad 2 n = [digit (n / 10), digit n] := by simp [pad]
theorem pad_length (w n : Nat) : (pad w n).length = w := by
  induction w generalizing n with
  | zero => simp [pad]
  | succ w ih => simp [pad, ih]

theorem slice_pair (i : Nat) (h : i < 100) :
    sliceI? smalls ((i : Int) * 2) ((i : Int) * 2 + 2) = .ok (pad 2 i) := by
  have h1 : ¬ ((i : Int) * 2 < 0 ∨ (i : Int) * 2 + 2 < 0) := by omega
  have e1 : ((i : Int) * 2).toNat = 2 * i := by omega
  have e2 : ((i : Int) * 2 + 2).toNat = 2 * i + 2 := by omega
  have hl := smalls_length
  simp only [sliceI?, h1, if_false, e1, e2, slice?]
  rw [if_pos (by omega)]
  have := smalls_table i h
  simp only [show 2 * i + 2 - 2 * i = 2 by omega, this, pad_two]

theorem slice_pair_panics (i : Int) (h : i < 0 ∨ 100 ≤ i) :
    ∃ p, sliceI? smalls (i * 2) (i * 2 + 2) = .error p := by
  have hl := smalls_length
  unfold sliceI?
  by_cases hn : i * 2 < 0 ∨ i * 2 + 2 < 0
  · exact ⟨_, if_pos hn⟩
  · rw [if_neg hn]
    unfold slice?
    rw [if_neg (by omega)]
    exact ⟨_, rfl⟩

theorem idx_digit (i : Nat) (h : i < 10) : idxI? smalls ((i : Int) * 2 + 1) = .ok (digit i) := by
  have h1 : ¬ ((i : Int) * 2 + 1 < 0) := by omega
  have e1 : ((i : Int) * 2 + 1).toNat = 2 * i + 1 := by omega
  simp only [idxI?, h1, if_false, e1, idx?, smalls_odd i h]

theorem goDiv_nat (n : Nat) : goDiv (n : Int) 100 = ((n / 100 : Nat) : Int) := by
  simp [goDiv]

theorem width1_ok (buf : Bytes) (i : Nat) (h : i < 10) :
    appendIntWidth1 buf i = .ok (buf ++ pad 1 i) := by
  simp [appendIntWidth1, idx_digit i h, pad_one]; rfl

theorem width2_ok (buf : Bytes) (i : Nat) (h : i < 100) :
    appendIntWidth2 buf i = .ok (buf ++ pad 2 i) := by
  simp only [appendIntWidth2, slice_pair i h]; rfl

theorem width2_panics (buf : Bytes) (i : Int) (h : i < 0 ∨ 100 ≤ i) :
    ∃ p, appendIntWidth2 buf i = .error p := by
  obtain ⟨p, hp⟩ := slice_pair_panics i h
  exact ⟨p, by simp only [appendIntWidth2, hp]; rfl⟩

theorem pad_three (n : Nat) : pad 3 n = digit (n / 100) :: pad 2 n := by
  simp [pad, Nat.div_div_eq_div_mul]

theorem pad_four (n : Nat) : pad 4 n = pad 2 (n / 100) ++ pad 2 n := by
  simp [pad, Nat.div_div_eq_div_mul]

theorem digit_mod (n : Nat) : digit (n % 100) = digit n := by
  simp [digit, Nat.mod_mod_of_dvd n (by decide : 10 ∣ 100)]

theorem pad_two_mod (n : Nat) : pad 2 (n % 100) = pad 2 n := by
  have : digit (n % 100 / 10) = digit (n / 10) := by
    unfold digit
    have : n % 100 / 10 % 10 = n / 10 % 10 := by omega
    rw [this]
  simp only [pad_two, digit_mod, this]

theorem width3_ok (buf : Bytes) (i : Nat) (h : i < 1000) :
    appendIntWidth3 buf i = .ok (buf ++ pad 3 i) := by
  have hl : i / 100 < 10 := by omega
  have hr : i % 100 < 100 := by omega
  have e : (i : Int) - ((i / 100 : Nat) : Int) * 100 = ((i % 100 : Nat) : Int) := by omega
  simp only [appendIntWidth3, goDiv_nat, e, idx_digit _ hl, slice_pair _ hr, pad_two_mod, pad_three]
  simp [bind, Except.bind, pure, Except.pure]

theorem width4_ok (buf : Bytes) (i : Nat) (h : i < 10000) :
    appendIntWidth4 buf i = .ok (buf ++ pad 4 i) := by
  have hl : i / 100 < 100 := by omega
  have hr : i % 100 < 100 := by omega
  have e : (i : Int) - ((i / 100 : Nat) : Int) * 100 = ((i % 100 : Nat) : Int) := by omega
  simp only [appendIntWidth4, goDiv_nat, e, slice_pair _ hl, slice_pair _ hr, pad_two_mod, pad_four]
  simp [bind, Except.bind, pure, Except.pure]

end Glb.Aux.DateTime

namespace Glb.Aux.DateTime
open Glb

theorem width4_panics (buf : Bytes) (i : Int) (h : i < 0 ∨ 10000 ≤ i) :
    ∃ p, appendIntWidth4 buf i = .error p := by
  by_cases hl : goDiv i 100 < 0 ∨ 100 ≤ goDiv i 100
  · obtain ⟨p, hp⟩ := slice_pair_panics _ hl
    exact ⟨p, by simp only [appendIntWidth4, hp]; rfl⟩
  · have hi : i < 0 := by
      rcases h with h | h
      · exact h
      · exfalso; apply hl; right; unfold goDiv; rw [if_pos (by omega)]; omega
    have h0 : goDiv i 100 = 0 := by
      unfold goDiv at hl ⊢
      rw [if_neg (by omega)] at hl ⊢
      omega
    obtain ⟨p, hp⟩ := slice_pair_panics i (Or.inl hi)
    refine ⟨p, ?_⟩
    have := slice_pair 0 (by decide)
    simp only [appendIntWidth4, h0] at this ⊢
    simp only [Int.zero_mul, Int.sub_zero, Int.zero_add] at this ⊢
    simp at this
    rw [this, hp]
    rfl

def inR (x : Int) : Prop := 0 ≤ x ∧ x < 100

theorem width2_bind_ok (buf : Bytes) (i : Int) (k : Bytes → Except GoPanic Bytes) (r : Bytes) :
    (appendIntWidth2 buf i >>= k) = .ok r ↔ inR i ∧ k (buf ++ pad 2 i.toNat) = .ok r := by
  by_cases h : inR i
  · obtain ⟨h0, h1⟩ := h
    obtain ⟨n, rfl⟩ := Int.eq_ofNat_of_zero_le h0
    rw [width2_ok buf n (by omega)]
    simp [inR, bind, Except.bind]
    omega
  · obtain ⟨p, hp⟩ := width2_panics buf i (by unfold inR at h; omega)
    rw [hp]
    simp [h, bind, Except.bind]

theorem width4_bind_ok (buf : Bytes) (i : Int) (k : Bytes → Except GoPanic Bytes) (r : Bytes) :
    (appendIntWidth4 buf i >>= k) = .ok r ↔ (0 ≤ i ∧ i < 10000) ∧ k (buf ++ pad 4 i.toNat) = .ok r := by
  by_cases h : 0 ≤ i ∧ i < 10000
  · obtain ⟨h0, h1⟩ := h
    obtain ⟨n, rfl⟩ := Int.eq_ofNat_of_zero_le h0
    rw [width4_ok buf n (by omega)]
    simp [bind, Except.bind]
    omega
  · obtain ⟨p, hp⟩ := width4_panics buf i (by omega)
    rw [hp]
    simp [h, bind, Except.bind]

/-- the rendering `YYYY-MM-DD HH:MM:SS` -/
def render (Y M D h m s : Nat) : Bytes :=
  pad 4 Y ++ [45] ++ pad 2 M ++ [45] ++ pad 2 D ++ [32] ++ pad 2 h ++ [58] ++ pad 2 m ++ [58] ++ pad 2 s

theorem dateTime_ok_iff (buf : Bytes) (Y M D h m s : Int) (r : Bytes) :
    appendDateTime buf Y M D h m s = .ok r ↔
      ((0 ≤ Y ∧ Y < 10000) ∧ inR M ∧ inR D ∧ inR h ∧ inR m ∧ inR s) ∧
      r = buf ++ render Y.toNat M.toNat D.toNat h.toNat m.toNat s.toNat := by
  unfold appendDateTime
  simp only [width4_bind_ok, width2_bind_ok]
  have hlast : ∀ b, appendIntWidth2 b s = (appendIntWidth2 b s >>= pure) := by
    intro b; cases appendIntWidth2 b s <;> rfl
  rw [hlast, width2_bind_ok]
  simp [render, pure, Except.pure]
  grind
end Glb.Aux.DateTime

namespace Glb.Aux.DateTime
open Glb

theorem render_length (Y M D h m s : Nat) : (render Y M D h m s).length = 19 := by
  simp [render, pad_length]

def isDigitByte (b : UInt8) : Bool := 48 ≤ b && b ≤ 57

theorem digit_isDigit (n : Nat) : isDigitByte (digit n) = true := by
  have key : ∀ k < 10, isDigitByte (UInt8.ofNat (48 + k)) = true := by decide
  exact key _ (Nat.mod_lt _ (by decide))

theorem pad_digits (w n : Nat) : ∀ b ∈ pad w n, isDigitByte b = true := by
  induction w generalizing n with
  | zero => simp [pad]
  | succ w ih =>
    intro b hb
    simp only [pad, List.mem_append, List.mem_singleton] at hb
    rcases hb with hb | rfl
    · exact ih _ b hb
    · exact digit_isDigit n

/-- shape of the rendering: separators at the fixed positions 4, 7, 10, 13, 16, the decimal digits
    of the six numbers elsewhere -/
theorem render_explicit (Y M D h m s : Nat) :
    render Y M D h m s =
      [digit (Y / 1000), digit (Y / 100), digit (Y / 10), digit Y, 45, digit (M / 10), digit M, 45,
       digit (D / 10), digit D, 32, digit (h / 10), digit h, 58, digit (m / 10), digit m, 58,
       digit (s / 10), digit s] := by
  simp [render, pad, Nat.div_div_eq_div_mul]

/-- value of the rendering: the digit groups read back as decimal numbers are the inputs
    (`pad w n` denotes `n % 10^w`) -/
def decimal (bs : Bytes) : Nat := bs.foldl (fun acc b => acc * 10 + (b.toNat - 48)) 0

theorem decimal_append (a : Bytes) (b : UInt8) : decimal (a ++ [b]) = decimal a * 10 + (b.toNat - 48) := by
  simp [decimal, List.foldl_append]

theorem digit_toNat (n : Nat) : (digit n).toNat - 48 = n % 10 := by
  have key : ∀ k < 10, (UInt8.ofNat (48 + k)).toNat - 48 = k := by decide
  exact key _ (Nat.mod_lt _ (by decide))

theorem decimal_pad (w n : Nat) : decimal (pad w n) = n % 10 ^ w := by
  induction w generalizing n with
  | zero => simp [pad, decimal, Nat.mod_one]
  | succ w ih =>
    rw [pad, decimal_append, ih, digit_toNat, Nat.pow_succ, Nat.mul_comm (10 ^ w) 10, Nat.mod_mul]
    omega

instance exceptDecEq : DecidableEq (Except GoPanic Bytes) := fun a b =>
  match a, b with
  | .ok x, .ok y => if h : x = y then isTrue (by rw [h]) else isFalse (by intro e; cases e; exact h rfl)
  | .error x, .error y => if h : x = y then isTrue (by rw [h]) else isFalse (by intro e; cases e; exact h rfl)
  | .ok _, .error _ => isFalse (by intro e; cases e)
  | .error _, .ok _ => isFalse (by intro e; cases e)

end Glb.Aux.DateTime
