/-
  Helper lemmas for C04, part 5: assembling the refinement — tables built by successful
  registrations satisfy `TInv`, and `findRoute` on such a trie is `specFind` on the route list.
-/
import Glb.Proofs.RouterSim

namespace Glb.Router
open Glb.RouteList (Elem Route PName Cand pattern pnames specFind specRegister)
open Glb.Generated (routeParam routeParamAny)

theorem segsAcc_slashfree (s : Bytes) : ∀ cur : Bytes, (47 : UInt8) ∉ cur →
    ∀ sg ∈ segsAcc s cur, (47 : UInt8) ∉ sg.1 := by
  induction s with
  | nil => intro cur hc sg hs; simp [segsAcc] at hs; subst hs; exact hc
  | cons b s ih =>
    intro cur hc sg hs
    unfold segsAcc at hs
    by_cases hb : b = 47
    · simp only [hb, if_true] at hs
      by_cases hcur : cur = []
      · simp only [hcur, if_true] at hs; exact ih [] (by simp) sg hs
      · simp only [hcur, if_false, List.mem_cons] at hs
        rcases hs with rfl | hs
        · exact hc
        · exact ih [] (by simp) sg hs
    · simp only [hb, if_false] at hs
      refine ih (cur ++ [b]) ?_ sg hs
      simp only [List.mem_append, List.mem_singleton, not_or]
      exact ⟨hc, fun e => hb e.symm⟩

/-- routes with their ids: position in the list, counting from `i` -/
def indexFrom : Nat → List Route → List Entry
  | _, [] => []
  | i, r :: rs => (i, r) :: indexFrom (i + 1) rs

theorem indexFrom_append (i : Nat) (a b : List Route) :
    indexFrom i (a ++ b) = indexFrom i a ++ indexFrom (i + a.length) b := by
  induction a generalizing i with
  | nil => simp [indexFrom]
  | cons x a ih => simp [indexFrom, ih, Nat.add_assoc, Nat.add_comm 1]

theorem indexFrom_map_snd (i : Nat) (rs : List Route) : (indexFrom i rs).map (·.2) = rs := by
  induction rs generalizing i with
  | nil => rfl
  | cons r rs ih => simp [indexFrom, ih]

theorem candsFrom_eq (i : Nat) (rs : List Route) :
    RouteList.candsFrom i rs = candsAt (indexFrom i rs) [] [] := by
  induction rs generalizing i with
  | nil => rfl
  | cons r rs ih =>
    simp only [RouteList.candsFrom, indexFrom, candsAt, List.filterMap_cons]
    have : candOf [] [] (i, r) = some ⟨i, r.method, pattern r.pattern, []⟩ := by
      simp [candOf, candE, pnames]
    rw [this, ih (i + 1)]
    rfl

/-- how the code reads a registration -/
def normReg (r : Reg) : Route := ⟨slashed r.path, r.method⟩

theorem buildFrom_tinv (regs : List Reg) : ∀ (S : List Entry) (t : Node) (i : Nat) (t' : Node),
    TInv S [] t → buildFrom t i regs = some t' → TInv (S ++ indexFrom i (regs.map normReg)) [] t' := by
  induction regs with
  | nil =>
    intro S t i t' h hb
    simp only [buildFrom, Option.some.injEq] at hb
    subst hb
    simpa [indexFrom] using h
  | cons r rs ih =>
    intro S t i t' h hb
    obtain ⟨t1, hp, hinv⟩ := parseRoute_spec h r.path r.method i
    simp only [buildFrom, hp] at hb
    cases hr : regResult S ⟨slashed r.path, r.method⟩ with
    | error e => simp [hr] at hb
    | ok n =>
      simp only [hr] at hb hinv
      have := ih _ t1 (i + 1) t' hinv hb
      simpa [indexFrom, normReg, List.append_assoc] using this

theorem build_tinv {regs : List Reg} {t : Node} (hb : build regs = some t) :
    TInv (indexFrom 0 (regs.map normReg)) [] t := by
  have := buildFrom_tinv regs [] Node.empty 0 t tinv_empty hb
  simpa using this

/-- the part of `findRoute` after the root special case -/
def findGeneral (root : Node) (path method : Bytes) (ps : Params) : Except GoPanic (Option RouteId × Params) := do
  let (on, V) ← findLoop path (path.length + 1) 0 0 root ps.V
  match on with
  | none => .ok (none, { ps with V := V })
  | some node =>
    match methodNodeOrNil node method with
    | some n => .ok (n.info, { K := n.params, V := V })
    | none => .ok (none, { ps with V := V })

theorem findRoute_unfold (root : Node) (path0 method : Bytes) (ps : Params) :
    findRoute root path0 method ps =
      if (normPath path0).length = 1 then
        match methodNodeOrNil root method with
        | some n => .ok (n.info, { ps with K := n.params })
        | none => findGeneral root (normPath path0) method ps
      else findGeneral root (normPath path0) method ps := rfl

/-- `findRoute` on a trie satisfying the invariant is `specFind` on the route list -/
theorem findRoute_eq {routes : List Route} {t : Node} (h : TInv (indexFrom 0 routes) [] t)
    (path method : Bytes) :
    ∃ V', findRoute t path method {} = .ok (match specFind routes path method with
      | some mt => (some mt.id, { K := mt.binds.map (fun b => nameKey b.1), V := mt.binds.map (fun b => b.2) })
      | none => (none, { K := [], V := V' })) := by
  have hcs : RouteList.candsFrom 0 routes = candsAt (indexFrom 0 routes) [] [] := candsFrom_eq 0 routes
  have hroot := finish_sim h (ks := []) (n := t) (V := []) rfl rfl method
  -- the general walk
  have hgen : ∃ V', findGeneral t (normPath path) method {} =
      .ok (match (RouteList.pickMethod (RouteList.walk (RouteList.candsFrom 0 routes) (RouteList.segments path)) method).map
          (fun c => (⟨c.id, c.binds⟩ : RouteList.Match)) with
        | some mt => (some mt.id, { K := mt.binds.map (fun b => nameKey b.1), V := mt.binds.map (fun b => b.2) })
        | none => (none, { K := [], V := V' })) := by
    unfold findGeneral
    rw [normPath_eq, findLoop_start, segsAcc_segments, hcs]
    have hsf : ∀ sg ∈ RouteList.segments path, (47 : UInt8) ∉ sg.1 := by
      rw [← segsAcc_segments]; exact segsAcc_slashfree _ [] (by simp)
    have hw := walk_sim h (RouteList.segments path) [] t [] rfl rfl hsf
    cases hwt : walkT t (RouteList.segments path) [] with
    | mk on V =>
      rw [hwt] at hw
      cases on with
      | none =>
        simp only at hw
        refine ⟨V, ?_⟩
        simp [bind, Except.bind, hw, RouteList.pickMethod]
      | some n' =>
        simp only at hw
        obtain ⟨ks', hd', hwalk, hV'⟩ := hw
        have hfin := finish_sim h hd' hV' method
        rw [hwalk]
        cases hpk : RouteList.pickMethod (candsAt (indexFrom 0 routes) ks' V) method with
        | none =>
          rw [hpk] at hfin
          refine ⟨V, ?_⟩
          simp [bind, Except.bind, hfin]
        | some c =>
          rw [hpk] at hfin
          obtain ⟨nn, hmn, hinfo, hpar, hv⟩ := hfin
          refine ⟨V, ?_⟩
          simp only [bind, Except.bind, hmn, Option.map_some, hinfo, hpar]
          rw [← hv]
  obtain ⟨V', hgen⟩ := hgen
  refine ⟨V', ?_⟩
  rw [findRoute_unfold]
  unfold specFind
  have hlen : (normPath path).length = 1 ↔ RouteList.body path = [] := by
    rw [normPath_eq]; simp
  by_cases hbody : RouteList.body path = []
  · rw [if_pos (hlen.mpr hbody)]
    simp only [hbody, if_true]
    rw [hcs] at hgen ⊢
    cases hpk : RouteList.pickMethod (candsAt (indexFrom 0 routes) [] []) method with
    | some c =>
      rw [hpk] at hroot
      obtain ⟨nn, hmn, hinfo, hpar, hv⟩ := hroot
      simp only [hmn, hinfo, hpar]
      rw [← hv]
    | none =>
      rw [hpk] at hroot
      simp only [hroot]
      exact hgen
  · rw [if_neg (fun e => hbody (hlen.mp e))]
    simp only [hbody, if_false]
    exact hgen

/-! ### refused registrations, in terms of the route list -/

def shape1 : Elem → Elem
  | .param _ => .param []
  | e => e

theorem shape_eq_map (es : List Elem) : RouteList.shape es = es.map shape1 := by
  induction es with
  | nil => rfl
  | cons e r ih => cases e <;> simp [RouteList.shape, shape1, ih]

theorem map_eq_map_iff {α β γ} (f : α → β) (g : α → γ) : ∀ (a b : List α),
    (∀ x ∈ a, ∀ y ∈ b, f x = f y ↔ g x = g y) → (a.map f = b.map f ↔ a.map g = b.map g) := by
  intro a
  induction a with
  | nil => intro b _; cases b <;> simp
  | cons x a ih =>
    intro b h
    cases b with
    | nil => simp
    | cons y b =>
      have h1 := h x (by simp) y (by simp)
      have h2 := ih b (fun x' hx y' hy => h x' (by simp [hx]) y' (by simp [hy]))
      simp only [List.map_cons, List.cons.injEq, h1, h2]

theorem elemKey_eq_iff {x y : Elem} (hx : ∀ s, x = .lit s → (47 : UInt8) ∉ s) (hy : ∀ s, y = .lit s → (47 : UInt8) ∉ s) :
    elemKey x = elemKey y ↔ shape1 x = shape1 y := by
  have hd := Tie.Httpd.reserved_distinct
  cases x with
  | lit s =>
    have hs := slashfree_ne_reserved (hx s rfl)
    cases y with
    | lit s' => simp [elemKey, shape1]
    | param n => simp [elemKey, shape1, hs.1]
    | star => simp [elemKey, shape1, hs.2]
  | param n =>
    cases y with
    | lit s' =>
      have hs := slashfree_ne_reserved (hy s' rfl)
      simp [elemKey, shape1]; exact fun e => hs.1 e.symm
    | param n' => simp [elemKey, shape1]
    | star => simp [elemKey, shape1, hd]
  | star =>
    cases y with
    | lit s' =>
      have hs := slashfree_ne_reserved (hy s' rfl)
      simp [elemKey, shape1]; exact fun e => hs.2 e.symm
    | param n' => simp [elemKey, shape1]; exact fun e => hd e.symm
    | star => simp [elemKey, shape1]

theorem keysOf_eq_iff_shape {a b : List Elem} (ha : GoodElems a) (hb : GoodElems b) :
    keysOf a = keysOf b ↔ RouteList.shape a = RouteList.shape b := by
  rw [shape_eq_map, shape_eq_map]
  unfold keysOf
  apply map_eq_map_iff
  intro x hx y hy
  exact elemKey_eq_iff (fun s e => (ha s (e ▸ hx)).2) (fun s e => (hb s (e ▸ hy)).2)

/-- model error classes and specification error classes -/
def errOf : RouteList.RegErr → RegErr
  | .invalidMethod => .invalidMethod
  | .invalidFragment => .invalidFragment
  | .duplicate => .duplicate

theorem regResult_eq_spec (S : List Entry) (hS : ∀ e ∈ S, (methodTag? e.2.method).isSome) (r : Route) :
    regResult S r = (specRegister (S.map (·.2)) r).mapError errOf := by
  unfold regResult specRegister
  have hm : methodTag? r.method = none ↔ r.method ∉ RouteList.knownMethods := by
    rw [← methodTag_isSome_iff]; cases methodTag? r.method <;> simp
  by_cases h1 : r.method ∈ RouteList.knownMethods
  · have h1' : ¬ methodTag? r.method = none := fun e => (hm.mp e) h1
    have hknown : (methodTag? r.method).isSome := (methodTag_isSome_iff _).mpr h1
    simp only [h1', if_false, h1, not_true_eq_false]
    by_cases h2 : RouteList.validPattern (pattern r.pattern)
    · simp only [h2, not_true_eq_false, if_false]
      have hdup : (∃ e ∈ S, fullKeys e.2 = fullKeys r) ↔
          (∃ r' ∈ S.map (·.2), RouteList.shape (pattern r'.pattern) = RouteList.shape (pattern r.pattern) ∧ r'.method = r.method) := by
        constructor
        · rintro ⟨e, he, heq⟩
          refine ⟨e.2, List.mem_map.mpr ⟨e, he, rfl⟩, ?_⟩
          unfold fullKeys at heq
          have := List.append_inj' heq rfl
          simp only [List.cons.injEq, and_true] at this
          exact ⟨(keysOf_eq_iff_shape (pattern_good _) (pattern_good _)).mp this.1, tagOf_inj (hS e he) this.2⟩
        · rintro ⟨r', hr', hs, hmeq⟩
          obtain ⟨e, he, rfl⟩ := List.mem_map.mp hr'
          refine ⟨e, he, ?_⟩
          unfold fullKeys
          rw [(keysOf_eq_iff_shape (pattern_good _) (pattern_good _)).mpr hs, hmeq]
      by_cases h3 : ∃ e ∈ S, fullKeys e.2 = fullKeys r
      · have h3' := hdup.mp h3
        rw [if_pos h3, if_pos h3']
        rfl
      · have h3' : ¬ _ := fun x => h3 (hdup.mpr x)
        rw [if_neg h3, if_neg h3']
        simp [Except.mapError, namesOf]
    · simp [h2, Except.mapError, errOf]
  · have h1' : methodTag? r.method = none := hm.mpr h1
    simp [h1', h1, Except.mapError, errOf]

/-- the names a valid pattern binds are pairwise distinct (`/:any` contains a slash, names do not) -/
theorem paramNames_slashfree (p : Bytes) : ∀ n ∈ RouteList.paramNames (pattern p), (47 : UInt8) ∉ n := by
  have hmem : ∀ es : List Elem, ∀ n ∈ RouteList.paramNames es, Elem.param n ∈ es := by
    intro es
    induction es with
    | nil => simp [RouteList.paramNames]
    | cons e r ih =>
      intro n hn
      cases e with
      | param n' =>
        simp only [RouteList.paramNames, List.mem_cons] at hn
        rcases hn with rfl | hn
        · simp
        · exact List.mem_cons_of_mem _ (ih n hn)
      | lit s => exact List.mem_cons_of_mem _ (ih n (by simpa [RouteList.paramNames] using hn))
      | star => exact List.mem_cons_of_mem _ (ih n (by simpa [RouteList.paramNames] using hn))
  intro n hn
  have h1 := mem_cutStar (hmem _ n hn)
  obtain ⟨f, hf, hc⟩ := List.mem_map.mp h1
  have hsf := (fragments_good p f hf).2
  unfold RouteList.classify at hc
  split at hc
  · cases hc
  · split at hc
    · cases hc
      intro h47; exact hsf (List.mem_cons_of_mem _ h47)
    · cases hc

theorem namesOf_nodup (p : Bytes) (hv : RouteList.validPattern (pattern p)) : (namesOf (pattern p)).Nodup := by
  have hsf := paramNames_slashfree p
  have hstar := pattern_starLast p
  revert hsf hstar hv
  generalize pattern p = es
  intro hv hsf hstar
  induction es with
  | nil => simp [namesOf, pnames]
  | cons e r ih =>
    have hstar' : StarLast r := fun n x hx => hstar (n + 1) x (by simpa using hx)
    cases e with
    | lit s =>
      rw [namesOf_lit]
      exact ih (by simpa [RouteList.validPattern, RouteList.paramNames] using hv)
        (fun n hn => hsf n (by simpa [RouteList.paramNames] using hn)) hstar'
    | star =>
      have : r = [] := hstar 0 r rfl
      subst this
      simp [namesOf, pnames]
    | param n =>
      rw [namesOf_param]
      simp only [RouteList.validPattern, RouteList.paramNames, List.mem_cons, not_or, List.nodup_cons] at hv
      have ihr := ih ⟨hv.1.2, hv.2.2⟩ (fun n' hn => hsf n' (by simp [RouteList.paramNames, hn])) hstar'
      refine List.nodup_cons.mpr ⟨?_, ihr⟩
      intro hmem
      -- a name of `r` is either a parameter name of `r` or the reserved key with its slash
      have hsub : ∀ es : List Elem, ∀ x ∈ namesOf es, x ∈ RouteList.paramNames es ∨ x = routeParamAny := by
        intro es
        induction es with
        | nil => simp [namesOf, pnames]
        | cons e' r' ih' =>
          intro x hx
          cases e' with
          | lit s => rw [namesOf_lit] at hx; simpa [RouteList.paramNames] using ih' x hx
          | param n' =>
            rw [namesOf_param] at hx
            simp only [List.mem_cons] at hx
            rcases hx with rfl | hx
            · simp [RouteList.paramNames]
            · rcases ih' x hx with h | h
              · exact Or.inl (by simp [RouteList.paramNames, h])
              · exact Or.inr h
          | star =>
            rw [namesOf_star] at hx
            simp only [List.mem_cons] at hx
            rcases hx with rfl | hx
            · exact Or.inr rfl
            · simpa [RouteList.paramNames] using ih' x hx
      rcases hsub r n hmem with h | h
      · exact hv.2.1 h
      · have := hsf n (by simp [RouteList.paramNames])
        exact (slashfree_ne_reserved this).2 h

/-! ### what a selected candidate is -/

theorem pickMethod_candsAt {S : List Entry} {ks V : List Bytes} {m : Bytes} {c : Cand}
    (hV : V.length = captures ks) (hp : RouteList.pickMethod (candsAt S ks V) m = some c) :
    ∃ e ∈ S, c.id = e.1 ∧ (e.2.method = m ∨ e.2.method = RouteList.methodAll) ∧
      c.binds.map (·.1) = pnames (pattern e.2.pattern) := by
  unfold RouteList.pickMethod at hp
  simp only [spec_pick_exact] at hp
  have key : ∀ m', ∀ e, sel S ks m' = some e →
      e ∈ S ∧ e.2.method = m' ∧ ((pnames (pattern e.2.pattern)).zip V).map (·.1) = pnames (pattern e.2.pattern) := by
    intro m' e hs
    have hk := List.find?_some hs
    simp only [decide_eq_true_eq] at hk
    refine ⟨List.mem_of_find?_eq_some hs, hk.2, ?_⟩
    have hlen : (pnames (pattern e.2.pattern)).length = V.length := by
      rw [pnames_length (pattern_good _), hk.1, hV]
    exact List.map_fst_zip (by omega)
  cases hs : sel S ks m with
  | some e =>
    simp only [hs, Option.map_some, Option.some.injEq] at hp
    obtain ⟨h1, h2, h3⟩ := key m e hs
    subst hp
    exact ⟨e, h1, rfl, Or.inl h2, h3⟩
  | none =>
    simp only [hs, Option.map_none] at hp
    cases hs2 : sel S ks RouteList.methodAll with
    | some e =>
      simp only [hs2, Option.map_some, Option.some.injEq] at hp
      obtain ⟨h1, h2, h3⟩ := key _ e hs2
      subst hp
      exact ⟨e, h1, rfl, Or.inr h2, h3⟩
    | none => simp [hs2] at hp

theorem mem_indexFrom {i : Nat} {rs : List Route} {e : Entry} (h : e ∈ indexFrom i rs) :
    i ≤ e.1 ∧ rs[e.1 - i]? = some e.2 := by
  induction rs generalizing i with
  | nil => simp [indexFrom] at h
  | cons r rs ih =>
    simp only [indexFrom, List.mem_cons] at h
    rcases h with rfl | h
    · simp
    · obtain ⟨h1, h2⟩ := ih h
      refine ⟨by omega, ?_⟩
      have : e.1 - i = (e.1 - (i + 1)) + 1 := by omega
      rw [this]; simpa using h2

/-- the route `specFind` selects is a registered one with a matching method, and the names it
    binds are that route's names in pattern order -/
theorem specFind_sound {routes : List Route} {t : Node} (h : TInv (indexFrom 0 routes) [] t)
    {path method : Bytes} {mt : RouteList.Match} (hs : specFind routes path method = some mt) :
    ∃ r, routes[mt.id]? = some r ∧ (r.method = method ∨ r.method = RouteList.methodAll) ∧
      mt.binds.map (·.1) = pnames (pattern r.pattern) := by
  have hcs : RouteList.candsFrom 0 routes = candsAt (indexFrom 0 routes) [] [] := candsFrom_eq 0 routes
  have fin : ∀ ks V c, V.length = captures ks →
      RouteList.pickMethod (candsAt (indexFrom 0 routes) ks V) method = some c →
      ∃ r, routes[c.id]? = some r ∧ (r.method = method ∨ r.method = RouteList.methodAll) ∧
        c.binds.map (·.1) = pnames (pattern r.pattern) := by
    intro ks V c hV hp
    obtain ⟨e, he, hid, hm, hb⟩ := pickMethod_candsAt hV hp
    have := (mem_indexFrom he).2
    exact ⟨e.2, by rw [hid]; simpa using this, hm, hb⟩
  have gen : ∀ c, RouteList.pickMethod (RouteList.walk (RouteList.candsFrom 0 routes) (RouteList.segments path)) method = some c →
      ∃ r, routes[c.id]? = some r ∧ (r.method = method ∨ r.method = RouteList.methodAll) ∧
        c.binds.map (·.1) = pnames (pattern r.pattern) := by
    intro c hp
    have hsf : ∀ sg ∈ RouteList.segments path, (47 : UInt8) ∉ sg.1 := by
      rw [← segsAcc_segments]; exact segsAcc_slashfree _ [] (by simp)
    have hw := walk_sim h (RouteList.segments path) [] t [] rfl rfl hsf
    rw [hcs] at hp
    cases hwt : walkT t (RouteList.segments path) [] with
    | mk on V =>
      rw [hwt] at hw
      cases on with
      | none =>
        simp only at hw
        rw [hw] at hp
        simp [RouteList.pickMethod] at hp
      | some n' =>
        simp only at hw
        obtain ⟨ks', _, hwalk, hV'⟩ := hw
        rw [hwalk] at hp
        exact fin ks' V c hV' hp
  unfold specFind at hs
  by_cases hbody : RouteList.body path = []
  · simp only [hbody, if_true] at hs
    cases hpk : RouteList.pickMethod (RouteList.candsFrom 0 routes) method with
    | some c =>
      simp only [hpk, Option.some.injEq] at hs
      subst hs
      rw [hcs] at hpk
      exact fin [] [] c rfl hpk
    | none =>
      simp only [hpk] at hs
      cases hg : RouteList.pickMethod (RouteList.walk (RouteList.candsFrom 0 routes) (RouteList.segments path)) method with
      | none => simp [hg] at hs
      | some c =>
        simp only [hg, Option.map_some, Option.some.injEq] at hs
        subst hs
        exact gen c hg
  · simp only [hbody, if_false] at hs
    cases hg : RouteList.pickMethod (RouteList.walk (RouteList.candsFrom 0 routes) (RouteList.segments path)) method with
    | none => simp [hg] at hs
    | some c =>
      simp only [hg, Option.map_some, Option.some.injEq] at hs
      subst hs
      exact gen c hg

/-! ### `Params.Get` -/

theorem firstIdx_getElem {K : List Bytes} (hnd : K.Nodup) (i : Nat) (hi : i < K.length) :
    firstIdx K[i] K = some i := by
  induction K generalizing i with
  | nil => simp at hi
  | cons k r ih =>
    cases i with
    | zero => simp [firstIdx]
    | succ j =>
      have hr := (List.nodup_cons.mp hnd)
      have hj : j < r.length := by simpa using hi
      have hne : ¬ k = r[j] := fun e => hr.1 (e ▸ List.getElem_mem hj)
      simp [firstIdx, hne, ih hr.2 j hj]

theorem firstIdx_none {K : List Bytes} {key : Bytes} (h : key ∉ K) : firstIdx key K = none := by
  induction K with
  | nil => rfl
  | cons k r ih =>
    simp only [List.mem_cons, not_or] at h
    have : ¬ k = key := fun e => h.1 e.symm
    simp [firstIdx, this, ih h.2]

theorem paramsGet_bound (K V : List Bytes) (hlen : K.length = V.length) (hnd : K.Nodup) (i : Nat) (hi : i < K.length) :
    paramsGet ⟨K, V⟩ K[i] = .ok (some (V[i]'(hlen ▸ hi))) := by
  unfold paramsGet
  simp only [firstIdx_getElem hnd i hi, idx?]
  have : V[i]? = some (V[i]'(hlen ▸ hi)) := by simp [hlen ▸ hi]
  simp [this, bind, Except.bind]

theorem paramsGet_unbound (K V : List Bytes) (key : Bytes) (h : key ∉ K) : paramsGet ⟨K, V⟩ key = .ok none := by
  simp [paramsGet, firstIdx_none h]

/-! ### the patterns the property quantifies over -/

/-- a pattern as the property quantifies over them: empty, or starting with '/' -/
def LeadingSlash (p : Bytes) : Prop := p = [] ∨ p.head? = some 47

instance (p : Bytes) : Decidable (LeadingSlash p) := by unfold LeadingSlash; infer_instance

/-- `mux.Handle(r.pattern, r.method, _)` -/
def regOf (r : Route) : Reg := ⟨r.pattern, r.method⟩

theorem slashed_of_leadingSlash {p : Bytes} (h : LeadingSlash p) : slashed p = p := by
  rcases h with rfl | h
  · rfl
  · cases p with
    | nil => rfl
    | cons b s => simp at h; simp [slashed, h]

theorem normRegs_eq {routes : List Route} (hls : ∀ r ∈ routes, LeadingSlash r.pattern) :
    (routes.map regOf).map normReg = routes := by
  induction routes with
  | nil => rfl
  | cons r rs ih =>
    have h1 := slashed_of_leadingSlash (hls r (by simp))
    simp only [List.map_cons, normReg, regOf, h1]
    rw [ih (fun r hr => hls r (by simp [hr]))]

end Glb.Router
