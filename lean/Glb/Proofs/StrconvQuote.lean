/-
  Helper lemmas for C13b: the hand models of strconv.Quote / strconv.Unquote (Glb/Model/StrconvQuote.lean)
  satisfy the contract `QuoteContract` of Glb/Spec/TextTokens.lean.
  Parts: (1) one decoding step of a well-formed multi-byte sequence: `encodeRune` inverts `decodeRune`,
  the rune is a scalar value ≥ 0x80, the bytes decode again whatever follows; (2) hex digits;
  (3) the interior predicate on escape units; (4) `unquoteLoop` on one escape unit; (5) the quoting loop
  unit by unit: what `unquoteLoop` reads back and the interior predicate; (6) the shortcut of `Unquote`
  agrees with the escape loop (`goUnquote = slowUnquote`); (7) `decodeRune` inverts `encodeRune` on scalar
  values.  Property theorems are in Glb/Props/C13b.lean.
-/
import Glb.Model.StrconvQuote
import Glb.Spec.TextTokens
import Glb.Proofs.JsonString
import Glb.Proofs.TextHandler

namespace Glb.Quote
open Glb Glb.Utf8 Glb.TextTokens Glb.JsonString

/-! ## one decoding step of a well-formed multi-byte sequence -/

/-- everything the proofs need to know about one decoding step with a lead byte ≥ 0x80 -/
structure Multi (b0 : UInt8) (rest : Bytes) (d : Nat × Nat) : Prop where
  size : 2 ≤ d.2 ∧ d.2 ≤ 4
  enc : encodeRune d.1 = (b0 :: rest).take d.2
  len : d.2 ≤ (b0 :: rest).length
  ge : 0x80 ≤ d.1
  valid : validRune d.1 = true
  again : ∀ X, decodeRune ((b0 :: rest).take d.2 ++ X) = d
  lead : 0x80 ≤ b0
  high : ∀ x ∈ (b0 :: rest).take d.2, 0x80 ≤ x

theorem ofNat_eq {n : Nat} {b : UInt8} (h : n = b.toNat) : UInt8.ofNat n = b := by
  subst h; simp

theorem decode_multi (b0 : UInt8) (rest : Bytes) (h : 2 ≤ (decodeRune (b0 :: rest)).2) :
    Multi b0 rest (decodeRune (b0 :: rest)) := by
  have hc := decodeRune_cases b0 rest
  generalize decodeRune (b0 :: rest) = d at hc h
  cases hc with
  | ascii _ => simp at h
  | bad _ => simp at h
  | two hl hr h1 h2 =>
    rename_i lo hi b1 t
    subst hr
    have L := lead_some hl
    have h1' : lo.toNat ≤ b1.toNat := by simpa [UInt8.le_iff_toNat_le] using h1
    have h2' : b1.toNat ≤ hi.toNat := by simpa [UInt8.le_iff_toNat_le] using h2
    have hb0 : ¬ b0 < 0x80 := by simp [UInt8.lt_iff_toNat_lt]; omega
    refine ⟨by simp, ?_, by simp, by simp; omega, by simp [validRune]; omega, ?_,
      by simp [UInt8.le_iff_toNat_le]; omega, by simp [UInt8.le_iff_toNat_le]; omega⟩
    · have e1 : ¬ (b0.toNat % 32 * 64 + b1.toNat % 64 < 0x80) := by omega
      have e2 : b0.toNat % 32 * 64 + b1.toNat % 64 < 0x800 := by omega
      simp only [encodeRune, e1, e2, if_false, if_true]
      simp only [List.take_succ_cons, List.take_zero]
      rw [ofNat_eq (b := b0) (by omega), ofNat_eq (b := b1) (by omega)]
    · intro X
      simp [decodeRune, hb0, hl, h1, h2]
  | three hl hr h1 h2 h3 =>
    rename_i lo hi b1 b2 t
    subst hr
    have L := lead_some hl
    have h1' : lo.toNat ≤ b1.toNat := by simpa [UInt8.le_iff_toNat_le] using h1
    have h2' : b1.toNat ≤ hi.toNat := by simpa [UInt8.le_iff_toNat_le] using h2
    have C2 := isCont_range h3
    have hb0 : ¬ b0 < 0x80 := by simp [UInt8.lt_iff_toNat_lt]; omega
    refine ⟨by simp, ?_, by simp, by simp; omega, by simp [validRune]; omega, ?_,
      by simp [UInt8.le_iff_toNat_le]; omega, by simp [UInt8.le_iff_toNat_le]; omega⟩
    · have e1 : ¬ (b0.toNat % 16 * 4096 + b1.toNat % 64 * 64 + b2.toNat % 64 < 0x80) := by omega
      have e2 : ¬ (b0.toNat % 16 * 4096 + b1.toNat % 64 * 64 + b2.toNat % 64 < 0x800) := by omega
      have e3 : b0.toNat % 16 * 4096 + b1.toNat % 64 * 64 + b2.toNat % 64 < 0x10000 := by omega
      simp only [encodeRune, e1, e2, e3, if_false, if_true]
      simp only [List.take_succ_cons, List.take_zero]
      rw [ofNat_eq (b := b0) (by omega), ofNat_eq (b := b1) (by omega), ofNat_eq (b := b2) (by omega)]
    · intro X
      simp [decodeRune, hb0, hl, h1, h2, h3]
  | four hl hr h1 h2 h3 h4 =>
    rename_i lo hi b1 b2 b3 t
    subst hr
    have L := lead_some hl
    have h1' : lo.toNat ≤ b1.toNat := by simpa [UInt8.le_iff_toNat_le] using h1
    have h2' : b1.toNat ≤ hi.toNat := by simpa [UInt8.le_iff_toNat_le] using h2
    have C2 := isCont_range h3
    have C3 := isCont_range h4
    have hb0 : ¬ b0 < 0x80 := by simp [UInt8.lt_iff_toNat_lt]; omega
    refine ⟨by simp, ?_, by simp, by simp; omega, by simp [validRune]; omega, ?_,
      by simp [UInt8.le_iff_toNat_le]; omega, by simp [UInt8.le_iff_toNat_le]; omega⟩
    · have e1 : ¬ (b0.toNat % 8 * 262144 + b1.toNat % 64 * 4096 + b2.toNat % 64 * 64 + b3.toNat % 64 < 0x80) := by omega
      have e2 : ¬ (b0.toNat % 8 * 262144 + b1.toNat % 64 * 4096 + b2.toNat % 64 * 64 + b3.toNat % 64 < 0x800) := by omega
      have e3 : ¬ (b0.toNat % 8 * 262144 + b1.toNat % 64 * 4096 + b2.toNat % 64 * 64 + b3.toNat % 64 < 0x10000) := by omega
      simp only [encodeRune, e1, e2, e3, if_false]
      simp only [List.take_succ_cons, List.take_zero]
      rw [ofNat_eq (b := b0) (by omega), ofNat_eq (b := b1) (by omega), ofNat_eq (b := b2) (by omega),
        ofNat_eq (b := b3) (by omega)]
    · intro X
      simp [decodeRune, hb0, hl, h1, h2, h3, h4]


/-! ## hex digits -/

theorem hexDigit_mod (n : Nat) : hexDigit n = hexDigit (n % 16) := by simp [hexDigit]

theorem hexDigit_table : ∀ m ∈ List.range 16,
    unhex (hexDigit m) = some m ∧ ¬ hexDigit m < 0x20 ∧ hexDigit m ≠ 0x22 ∧ hexDigit m ≠ 0x5c := by decide

theorem unhex_hexDigit (n : Nat) : unhex (hexDigit n) = some (n % 16) := by
  rw [hexDigit_mod]
  exact (hexDigit_table (n % 16) (List.mem_range.mpr (Nat.mod_lt _ (by decide)))).1

theorem hexDigit_plain (n : Nat) : ¬ hexDigit n < 0x20 ∧ hexDigit n ≠ 0x22 ∧ hexDigit n ≠ 0x5c := by
  rw [hexDigit_mod]
  exact (hexDigit_table (n % 16) (List.mem_range.mpr (Nat.mod_lt _ (by decide)))).2

/-! ## the interior predicate on escape units -/

theorem interior_plain (b : UInt8) (Y : Bytes) (h1 : ¬ b < 0x20) (h2 : b ≠ 0x22) (h3 : b ≠ 0x5c) :
    interiorOK false (b :: Y) = interiorOK false Y := by
  have e2 : (b != 0x22) = true := by simp [h2]
  have e3 : (b == 0x5c) = false := by simp [h3]
  simp [interiorOK, h1, e2, e3]

theorem interior_esc (c : UInt8) (Y : Bytes) (h : ¬ c < 0x20) :
    interiorOK false (0x5c :: c :: Y) = interiorOK false Y := by
  simp [interiorOK, h]

theorem interior_hex (n : Nat) (Y : Bytes) : interiorOK false (hexDigit n :: Y) = interiorOK false Y :=
  interior_plain _ _ (hexDigit_plain n).1 (hexDigit_plain n).2.1 (hexDigit_plain n).2.2

theorem interior_high : ∀ (u Y : Bytes), (∀ x ∈ u, 0x80 ≤ x) → interiorOK false (u ++ Y) = interiorOK false Y
  | [], _, _ => rfl
  | a :: u, Y, h => by
    have ha : (0x80 : UInt8) ≤ a := h a (by simp)
    have ha' : 0x80 ≤ a.toNat := by simpa [UInt8.le_iff_toNat_le] using ha
    rw [List.cons_append, interior_plain a _ (by simp [UInt8.lt_iff_toNat_lt]; omega)
      (by intro e; subst e; simp at ha') (by intro e; subst e; simp at ha')]
    exact interior_high u Y (fun x hx => h x (by simp [hx]))

/-! ## `unquoteLoop` on one escape unit -/

/-- prepend the bytes of one character to a result of the loop -/
def pre (o : Bytes) (r : Option (Bytes × Bytes)) : Option (Bytes × Bytes) := r.map fun p => (o ++ p.1, p.2)

theorem unquoteLoop_skip : ∀ (p X : Bytes), unquoteLoop p.length (p ++ X) = unquoteLoop 0 X
  | [], _ => rfl
  | _ :: p, X => by
    simp only [List.length_cons, List.cons_append, unquoteLoop]
    exact unquoteLoop_skip p X

/-- one step of the loop on a unit `b0 :: u` that `UnquoteChar` reads as one character -/
theorem unq_unit (b0 : UInt8) (u X : Bytes) (v : Nat) (mb : Bool)
    (h22 : b0 ≠ 0x22) (h0a : b0 ≠ 0x0a)
    (hc : unquoteChar (b0 :: (u ++ X)) = some (v, mb, u.length + 1)) :
    unquoteLoop 0 (b0 :: u ++ X) = pre (charBytes v mb) (unquoteLoop 0 X) := by
  have e22 : (b0 == 0x22) = false := by simp [h22]
  have e0a : (b0 == 0x0a) = false := by simp [h0a]
  simp only [List.cons_append, unquoteLoop, e22, e0a, hc, Bool.false_eq_true, if_false,
    Nat.add_sub_cancel, unquoteLoop_skip, pre]
  cases unquoteLoop 0 X <;> simp

theorem unq_plain (b : UInt8) (X : Bytes) (h80 : b < 0x80) (h22 : b ≠ 0x22) (h5c : b ≠ 0x5c) (h0a : b ≠ 0x0a) :
    unquoteLoop 0 (b :: X) = pre [b] (unquoteLoop 0 X) := by
  have h := unq_unit b [] X b.toNat false h22 h0a (by
    have : ¬ (0x80 : UInt8) ≤ b := by simpa [UInt8.le_iff_toNat_le, UInt8.lt_iff_toNat_lt] using h80
    simp [unquoteChar, h22, h5c, this])
  simpa [charBytes] using h

theorem unq_bs (c : UInt8) (v : Nat) (X : Bytes) (he : ∀ t, escapeChar c t = some (v, false, 0)) :
    unquoteLoop 0 (0x5c :: c :: X) = pre [UInt8.ofNat v] (unquoteLoop 0 X) := by
  have h := unq_unit 0x5c [c] X v false (by decide) (by decide) (by
    simp [unquoteChar, he])
  simpa [charBytes] using h

theorem unq_x (n : Nat) (X : Bytes) (hn : n < 256) :
    unquoteLoop 0 (xEsc n ++ X) = pre [UInt8.ofNat n] (unquoteLoop 0 X) := by
  have hv : hexVal 2 (hexDigit (n / 16) :: hexDigit n :: X) 0 = some n := by
    simp only [hexVal, unhex_hexDigit]
    congr 1; omega
  have h := unq_unit 0x5c [0x78, hexDigit (n / 16), hexDigit n] X n false (by decide) (by decide) (by
    simp [unquoteChar, escapeChar, hv])
  simpa [charBytes, xEsc] using h

theorem unq_u (r : Nat) (X : Bytes) (hr : r < 0x10000) (hv : validRune r = true) :
    unquoteLoop 0 (uEsc r ++ X) = pre (charBytes r true) (unquoteLoop 0 X) := by
  have hx : hexVal 4 (hexDigit (r / 4096) :: hexDigit (r / 256) :: hexDigit (r / 16) :: hexDigit r :: X) 0 = some r := by
    simp only [hexVal, unhex_hexDigit]
    congr 1; omega
  have h := unq_unit 0x5c [0x75, hexDigit (r / 4096), hexDigit (r / 256), hexDigit (r / 16), hexDigit r] X r true
    (by decide) (by decide) (by simp [unquoteChar, escapeChar, hx, hv])
  simpa [uEsc] using h

theorem unq_U (r : Nat) (X : Bytes) (hr : r < 0x100000000) (hv : validRune r = true) :
    unquoteLoop 0 (bigUEsc r ++ X) = pre (charBytes r true) (unquoteLoop 0 X) := by
  have hx : hexVal 8 (hexDigit (r / 268435456) :: hexDigit (r / 16777216) :: hexDigit (r / 1048576) ::
      hexDigit (r / 65536) :: hexDigit (r / 4096) :: hexDigit (r / 256) :: hexDigit (r / 16) :: hexDigit r :: X) 0
      = some r := by
    simp only [hexVal, unhex_hexDigit]
    congr 1; omega
  have h := unq_unit 0x5c [0x55, hexDigit (r / 268435456), hexDigit (r / 16777216), hexDigit (r / 1048576),
      hexDigit (r / 65536), hexDigit (r / 4096), hexDigit (r / 256), hexDigit (r / 16), hexDigit r] X r true
    (by decide) (by decide) (by simp [unquoteChar, escapeChar, hx, hv])
  simpa [bigUEsc] using h


theorem appendRune_valid (r : Nat) (h80 : 0x80 ≤ r) (hv : validRune r = true) : appendRune r = encodeRune r := by
  simp only [validRune, Bool.or_eq_true, Bool.and_eq_true, decide_eq_true_eq] at hv
  unfold appendRune
  have : ¬ r < 0x80 := by omega
  simp only [this, if_false]
  split
  · rfl
  · split
    · rename_i h; simp at h; omega
    · rfl

theorem charBytes_multi (b0 : UInt8) (rest : Bytes) (d : Nat × Nat) (M : Multi b0 rest d) :
    charBytes d.1 true = (b0 :: rest).take d.2 := by
  have : ¬ d.1 < 0x80 := by have := M.ge; omega
  simp only [charBytes, this, decide_false, Bool.not_true, Bool.or_self, Bool.false_eq_true, if_false]
  rw [appendRune_valid _ M.ge M.valid, M.enc]

theorem unq_multi (b0 : UInt8) (rest X : Bytes) (d : Nat × Nat) (M : Multi b0 rest d) :
    unquoteLoop 0 ((b0 :: rest).take d.2 ++ X) = pre ((b0 :: rest).take d.2) (unquoteLoop 0 X) := by
  have hb := M.lead
  obtain ⟨n, hn⟩ : ∃ n, d.2 = n + 1 := ⟨d.2 - 1, by have := M.size; omega⟩
  have hlen : (rest.take n).length = n := by
    have := M.len; simp only [List.length_cons] at this
    simp; omega
  have hag := M.again X
  rw [hn, List.take_succ_cons] at hag
  have hb' : b0 ≠ 0x22 ∧ b0 ≠ 0x0a := by
    have : 0x80 ≤ b0.toNat := by simpa [UInt8.le_iff_toNat_le] using hb
    constructor <;> (intro e; subst e; simp at this)
  have h := unq_unit b0 (rest.take n) X d.1 true hb'.1 hb'.2 (by
    simp only [unquoteChar, List.cons_append] at hag ⊢
    have e22 : (b0 == 0x22) = false := by simp [hb'.1]
    simp [e22, hb, hag, hlen, hn])
  have hcb := charBytes_multi b0 rest d M
  rw [hcb, hn, List.take_succ_cons] at h
  rw [hn, List.take_succ_cons]
  exact h

/-! ## one unit of the quoting loop -/

theorem toNat_eq_lit {b : UInt8} {n : Nat} (hn : n < 256) (h : b.toNat = n) : b = UInt8.ofNat n := by
  rw [← UInt8.toNat_inj]; simp [h, Nat.mod_eq_of_lt hn]

theorem escapeChar_simple :
    (∀ t, escapeChar 0x61 t = some (0x07, false, 0)) ∧ (∀ t, escapeChar 0x62 t = some (0x08, false, 0)) ∧
    (∀ t, escapeChar 0x66 t = some (0x0c, false, 0)) ∧ (∀ t, escapeChar 0x6e t = some (0x0a, false, 0)) ∧
    (∀ t, escapeChar 0x72 t = some (0x0d, false, 0)) ∧ (∀ t, escapeChar 0x74 t = some (0x09, false, 0)) ∧
    (∀ t, escapeChar 0x76 t = some (0x0b, false, 0)) ∧ (∀ t, escapeChar 0x5c t = some (0x5c, false, 0)) ∧
    (∀ t, escapeChar 0x22 t = some (0x22, false, 0)) :=
  ⟨fun _ => rfl, fun _ => rfl, fun _ => rfl, fun _ => rfl, fun _ => rfl, fun _ => rfl, fun _ => rfl,
   fun _ => rfl, fun _ => rfl⟩

/-- an ASCII character through `appendEscapedRune` -/
theorem esc_ascii {isPrint : Nat → Bool} (hP : PrintOK isPrint) (b : UInt8) (hb : b < 0x80) :
    (∀ X, unquoteLoop 0 (escapedRune isPrint b.toNat ++ X) = pre [b] (unquoteLoop 0 X)) ∧
    (∀ Y, interiorOK false (escapedRune isPrint b.toNat ++ Y) = interiorOK false Y) := by
  have hr : b.toNat < 128 := by simpa [UInt8.lt_iff_toNat_lt] using hb
  have hof : UInt8.ofNat b.toNat = b := ofNat_eq rfl
  generalize hu : escapedRune isPrint b.toNat = u
  unfold escapedRune at hu
  by_cases h1 : (b.toNat == 0x22 || b.toNat == 0x5c) = true
  · rw [if_pos h1] at hu; subst hu
    simp only [Bool.or_eq_true, beq_iff_eq] at h1
    rcases h1 with e | e
    · have := toNat_eq_lit (by decide) e; subst this
      exact ⟨fun X => unq_bs 0x22 0x22 X escapeChar_simple.2.2.2.2.2.2.2.2, fun Y => by simp [interiorOK]⟩
    · have := toNat_eq_lit (by decide) e; subst this
      exact ⟨fun X => unq_bs 0x5c 0x5c X escapeChar_simple.2.2.2.2.2.2.2.1, fun Y => by simp [interiorOK]⟩
  rw [if_neg h1] at hu
  simp only [Bool.or_eq_true, beq_iff_eq, not_or] at h1
  have n22 : b ≠ 0x22 := fun e => h1.1 (by subst e; rfl)
  have n5c : b ≠ 0x5c := fun e => h1.2 (by subst e; rfl)
  by_cases h2 : isPrint b.toNat = true
  · rw [if_pos h2] at hu; subst hu
    have h20 : ¬ b.toNat < 0x20 := fun h => by simp [hP.ctrl _ h] at h2
    have e : appendRune b.toNat = [b] := by simp [appendRune, hr, hof]
    rw [e]
    refine ⟨fun X => unq_plain b X hb n22 n5c (fun e => by subst e; simp at h20), fun Y => ?_⟩
    exact interior_plain b Y (by simpa [UInt8.lt_iff_toNat_lt] using h20) n22 n5c
  rw [if_neg h2] at hu
  by_cases k0 : (b.toNat == 0x07) = true
  · rw [if_pos k0] at hu; subst hu
    have := toNat_eq_lit (n := 0x07) (by decide) (by simpa using k0); subst this
    exact ⟨fun X => unq_bs 0x61 0x07 X escapeChar_simple.1, fun Y => interior_esc _ _ (by decide)⟩
  rw [if_neg k0] at hu
  by_cases k1 : (b.toNat == 0x08) = true
  · rw [if_pos k1] at hu; subst hu
    have := toNat_eq_lit (n := 0x08) (by decide) (by simpa using k1); subst this
    exact ⟨fun X => unq_bs 0x62 0x08 X escapeChar_simple.2.1, fun Y => interior_esc _ _ (by decide)⟩
  rw [if_neg k1] at hu
  by_cases k2 : (b.toNat == 0x0c) = true
  · rw [if_pos k2] at hu; subst hu
    have := toNat_eq_lit (n := 0x0c) (by decide) (by simpa using k2); subst this
    exact ⟨fun X => unq_bs 0x66 0x0c X escapeChar_simple.2.2.1, fun Y => interior_esc _ _ (by decide)⟩
  rw [if_neg k2] at hu
  by_cases k3 : (b.toNat == 0x0a) = true
  · rw [if_pos k3] at hu; subst hu
    have := toNat_eq_lit (n := 0x0a) (by decide) (by simpa using k3); subst this
    exact ⟨fun X => unq_bs 0x6e 0x0a X escapeChar_simple.2.2.2.1, fun Y => interior_esc _ _ (by decide)⟩
  rw [if_neg k3] at hu
  by_cases k4 : (b.toNat == 0x0d) = true
  · rw [if_pos k4] at hu; subst hu
    have := toNat_eq_lit (n := 0x0d) (by decide) (by simpa using k4); subst this
    exact ⟨fun X => unq_bs 0x72 0x0d X escapeChar_simple.2.2.2.2.1, fun Y => interior_esc _ _ (by decide)⟩
  rw [if_neg k4] at hu
  by_cases k5 : (b.toNat == 0x09) = true
  · rw [if_pos k5] at hu; subst hu
    have := toNat_eq_lit (n := 0x09) (by decide) (by simpa using k5); subst this
    exact ⟨fun X => unq_bs 0x74 0x09 X escapeChar_simple.2.2.2.2.2.1, fun Y => interior_esc _ _ (by decide)⟩
  rw [if_neg k5] at hu
  by_cases k6 : (b.toNat == 0x0b) = true
  · rw [if_pos k6] at hu; subst hu
    have := toNat_eq_lit (n := 0x0b) (by decide) (by simpa using k6); subst this
    exact ⟨fun X => unq_bs 0x76 0x0b X escapeChar_simple.2.2.2.2.2.2.1, fun Y => interior_esc _ _ (by decide)⟩
  rw [if_neg k6] at hu
  by_cases h10 : (decide (b.toNat < 0x20) || b.toNat == 0x7f) = true
  · rw [if_pos h10] at hu; subst hu
    have hm : b.toNat % 256 = b.toNat := by omega
    rw [hm]
    refine ⟨fun X => by rw [unq_x _ X (by omega), hof], fun Y => ?_⟩
    simp only [xEsc, List.cons_append, List.nil_append]
    rw [interior_esc _ _ (by decide), interior_hex, interior_hex]
  rw [if_neg h10] at hu
  have hv : validRune b.toNat = true := by simp [validRune]; omega
  simp only [hv, Bool.not_true, Bool.false_eq_true, if_false] at hu
  have hlt : b.toNat < 0x10000 := by omega
  rw [if_pos hlt] at hu; subst hu
  refine ⟨fun X => ?_, fun Y => ?_⟩
  · rw [unq_u _ X hlt hv]; simp [charBytes, hr, hof]
  · simp only [uEsc, List.cons_append, List.nil_append]
    rw [interior_esc _ _ (by decide), interior_hex, interior_hex, interior_hex, interior_hex]

/-- a well-formed multi-byte character through `appendEscapedRune` (no assumption on `isPrint`) -/
theorem esc_multi (isPrint : Nat → Bool) (b0 : UInt8) (rest : Bytes) (d : Nat × Nat) (M : Multi b0 rest d) :
    (∀ X, unquoteLoop 0 (escapedRune isPrint d.1 ++ X) = pre ((b0 :: rest).take d.2) (unquoteLoop 0 X)) ∧
    (∀ Y, interiorOK false (escapedRune isPrint d.1 ++ Y) = interiorOK false Y) := by
  have hge := M.ge
  have hv := M.valid
  have hmax : d.1 ≤ 0x10FFFF := by
    simp only [validRune, Bool.or_eq_true, Bool.and_eq_true, decide_eq_true_eq] at hv; omega
  have f1 : (d.1 == 0x22 || d.1 == 0x5c) = false := by simp; omega
  have f2 : (d.1 == 0x07) = false ∧ (d.1 == 0x08) = false ∧ (d.1 == 0x0c) = false ∧ (d.1 == 0x0a) = false ∧
      (d.1 == 0x0d) = false ∧ (d.1 == 0x09) = false ∧ (d.1 == 0x0b) = false := by
    simp; omega
  have f3 : (decide (d.1 < 0x20) || d.1 == 0x7f) = false := by simp; omega
  generalize hu : escapedRune isPrint d.1 = u
  simp only [escapedRune, f1, f2, f3, hv, Bool.false_eq_true, if_false, Bool.not_true] at hu
  by_cases hp : isPrint d.1 = true
  · rw [if_pos hp, appendRune_valid _ hge hv, M.enc] at hu; subst hu
    exact ⟨fun X => unq_multi b0 rest X d M, fun Y => interior_high _ Y M.high⟩
  rw [if_neg hp] at hu
  by_cases hlt : d.1 < 0x10000
  · rw [if_pos hlt] at hu; subst hu
    refine ⟨fun X => by rw [unq_u _ X hlt hv, charBytes_multi b0 rest d M], fun Y => ?_⟩
    simp only [uEsc, List.cons_append, List.nil_append]
    rw [interior_esc _ _ (by decide), interior_hex, interior_hex, interior_hex, interior_hex]
  · rw [if_neg hlt] at hu; subst hu
    refine ⟨fun X => by rw [unq_U _ X (by omega) hv, charBytes_multi b0 rest d M], fun Y => ?_⟩
    simp only [bigUEsc, List.cons_append, List.nil_append]
    rw [interior_esc _ _ (by decide), interior_hex, interior_hex, interior_hex, interior_hex,
      interior_hex, interior_hex, interior_hex, interior_hex]

/-- what the quoting loop writes for the character at the head of `b :: rest` -/
def unitOf (isPrint : Nat → Bool) (b : UInt8) (rest : Bytes) : Bytes :=
  if (decodeRune (b :: rest)).2 == 1 && (decodeRune (b :: rest)).1 == runeError then xEsc b.toNat
  else escapedRune isPrint (decodeRune (b :: rest)).1

theorem quoteLoop_cons (isPrint : Nat → Bool) (b : UInt8) (rest : Bytes) :
    quoteLoop isPrint 0 (b :: rest) =
      unitOf isPrint b rest ++ quoteLoop isPrint ((decodeRune (b :: rest)).2 - 1) rest := by
  have hd : (if b < 0x80 then (b.toNat, 1) else decodeRune (b :: rest)) = decodeRune (b :: rest) := by
    by_cases hb : b < 0x80
    · simp [decodeRune, hb]
    · simp [hb]
  simp only [quoteLoop, hd, unitOf]
  split
  · rename_i h
    have : (decodeRune (b :: rest)).2 = 1 := by simp at h; exact h.1
    simp [this]
  · rfl

/-- the unit written for one decoding step: `unquoteLoop` reads it back as exactly the bytes the step
    consumed, and it is neutral for the interior predicate -/
theorem unit_spec {isPrint : Nat → Bool} (hP : PrintOK isPrint) (b : UInt8) (rest : Bytes) :
    (∀ X, unquoteLoop 0 (unitOf isPrint b rest ++ X) =
      pre ((b :: rest).take (decodeRune (b :: rest)).2) (unquoteLoop 0 X)) ∧
    (∀ Y, interiorOK false (unitOf isPrint b rest ++ Y) = interiorOK false Y) := by
  have hc := decodeRune_cases b rest
  unfold unitOf
  generalize hd : decodeRune (b :: rest) = d at hc
  cases hc with
  | ascii hb =>
    have : ¬ (b.toNat = runeError) := by have := b.toNat_lt; simp [runeError]; omega
    simp only [beq_self_eq_true, Bool.true_and, beq_iff_eq, this, if_false]
    simpa using esc_ascii hP b hb
  | bad h80 =>
    simp only [beq_self_eq_true, Bool.and_self, if_true]
    refine ⟨fun X => by rw [unq_x _ X b.toNat_lt, ofNat_eq rfl]; simp, fun Y => ?_⟩
    simp only [xEsc, List.cons_append, List.nil_append]
    rw [interior_esc _ _ (by decide), interior_hex, interior_hex]
  | two hl hr h1 h2 =>
    have M := decode_multi b rest (by rw [hd]; simp)
    rw [hd] at M
    simpa using esc_multi isPrint b rest _ M
  | three hl hr h1 h2 h3 =>
    have M := decode_multi b rest (by rw [hd]; simp)
    rw [hd] at M
    simpa using esc_multi isPrint b rest _ M
  | four hl hr h1 h2 h3 h4 =>
    have M := decode_multi b rest (by rw [hd]; simp)
    rw [hd] at M
    simpa using esc_multi isPrint b rest _ M

/-! ## the loops as a whole -/

theorem take_drop_step (b : UInt8) (rest : Bytes) (n : Nat) (h1 : 1 ≤ n) :
    (b :: rest).take n ++ rest.drop (n - 1) = b :: rest := by
  obtain ⟨m, rfl⟩ : ∃ m, n = m + 1 := ⟨n - 1, by omega⟩
  simp

/-- reading back what the quoting loop wrote, up to and including the closing quote -/
theorem quote_unquote_loop {isPrint : Nat → Bool} (hP : PrintOK isPrint) :
    ∀ (s : Bytes) (k : Nat) (X : Bytes),
      unquoteLoop 0 (quoteLoop isPrint k s ++ 0x22 :: X) = some (s.drop k, X)
  | [], k, X => by simp [quoteLoop, unquoteLoop]
  | b :: rest, k + 1, X => by
    simp only [quoteLoop, List.drop_succ_cons]
    exact quote_unquote_loop hP rest k X
  | b :: rest, 0, X => by
    rw [quoteLoop_cons, List.append_assoc, (unit_spec hP b rest).1,
      quote_unquote_loop hP rest ((decodeRune (b :: rest)).2 - 1) X]
    simp only [pre, Option.map_some, List.drop_zero]
    rw [take_drop_step b rest _ (decodeRune_size_pos b rest)]

/-- the interior written by the quoting loop is well escaped -/
theorem quoteLoop_interior {isPrint : Nat → Bool} (hP : PrintOK isPrint) :
    ∀ (s : Bytes) (k : Nat), interiorOK false (quoteLoop isPrint k s) = true
  | [], k => by simp [quoteLoop, interiorOK]
  | b :: rest, k + 1 => by
    simp only [quoteLoop]
    exact quoteLoop_interior hP rest k
  | b :: rest, 0 => by
    rw [quoteLoop_cons, (unit_spec hP b rest).2]
    exact quoteLoop_interior hP rest _


/-! ## the shortcut of `Unquote` agrees with the escape loop -/

theorem indexByte_none (c : UInt8) : ∀ t : Bytes, indexByte c t = none → c ∉ t
  | [], _ => by simp
  | b :: t, h => by
    simp only [indexByte] at h
    split at h
    · simp at h
    · rename_i hb
      have := indexByte_none c t (by simpa using h)
      simp only [List.mem_cons, not_or]
      exact ⟨fun e => hb (by simp [e]), this⟩

theorem indexByte_some (c : UInt8) : ∀ (t : Bytes) (e : Nat), indexByte c t = some e →
    t = t.take e ++ c :: t.drop (e + 1) ∧ c ∉ t.take e
  | [], _, h => by simp [indexByte] at h
  | b :: t, e, h => by
    simp only [indexByte] at h
    split at h
    · rename_i hb
      have hb : b = c := by simpa using hb
      have : e = 0 := by simpa using h.symm
      subst this; subst hb; simp
    · rename_i hb
      simp only [Option.map_eq_some_iff] at h
      obtain ⟨e', he', rfl⟩ := h
      have ih := indexByte_some c t e' he'
      refine ⟨by simpa using ih.1, ?_⟩
      simp only [List.take_succ_cons, List.mem_cons, not_or]
      exact ⟨fun e => hb (by simp [e]), ih.2⟩

/-- without a closing quote the loop fails -/
theorem unquoteLoop_none : ∀ (t : Bytes) (k : Nat), (0x22 : UInt8) ∉ t → unquoteLoop k t = none
  | [], _, _ => by simp [unquoteLoop]
  | b :: t, k + 1, h => by
    simp only [unquoteLoop]
    exact unquoteLoop_none t k (fun hm => h (by simp [hm]))
  | b :: t, 0, h => by
    simp only [List.mem_cons, not_or] at h
    have e22 : (b == 0x22) = false := by simp; exact fun e => h.1 e.symm
    simp only [unquoteLoop, e22, Bool.false_eq_true, if_false]
    split
    · rfl
    · split
      · rfl
      · rw [unquoteLoop_none t _ h.2]

/-- one step of the loop -/
theorem unq_step (b0 : UInt8) (T : Bytes) (v : Nat) (mb : Bool) (n : Nat)
    (h22 : b0 ≠ 0x22) (h0a : b0 ≠ 0x0a) (hc : unquoteChar (b0 :: T) = some (v, mb, n + 1)) :
    unquoteLoop 0 (b0 :: T) = pre (charBytes v mb) (unquoteLoop n T) := by
  have e22 : (b0 == 0x22) = false := by simp [h22]
  have e0a : (b0 == 0x0a) = false := by simp [h0a]
  simp only [unquoteLoop, e22, e0a, hc, Bool.false_eq_true, if_false, Nat.add_sub_cancel, pre]
  cases unquoteLoop n T <;> simp

/-- on an interior without backslash, newline and quote that is valid UTF-8 the escape loop copies -/
theorem unquoteLoop_valid (rest : Bytes) : ∀ (body : Bytes) (k : Nat), validLoop k body = true →
    (0x5c : UInt8) ∉ body → (0x0a : UInt8) ∉ body → (0x22 : UInt8) ∉ body → k ≤ body.length →
    unquoteLoop k (body ++ 0x22 :: rest) = some (body.drop k, rest)
  | [], k, _, _, _, _, hk => by
    have : k = 0 := by simpa using hk
    subst this; simp [unquoteLoop]
  | b :: body, k + 1, hv, h1, h2, h3, hk => by
    simp only [List.mem_cons, not_or] at h1 h2 h3
    simp only [List.cons_append, unquoteLoop, List.drop_succ_cons]
    exact unquoteLoop_valid rest body k (by simpa [validLoop] using hv) h1.2 h2.2 h3.2 (by simpa using hk)
  | b :: body, 0, hv, h1, h2, h3, _ => by
    simp only [List.mem_cons, not_or] at h1 h2 h3
    have n5c : b ≠ 0x5c := fun e => h1.1 e.symm
    have n0a : b ≠ 0x0a := fun e => h2.1 e.symm
    have n22 : b ≠ 0x22 := fun e => h3.1 e.symm
    by_cases hb : b < 0x80
    · simp only [validLoop, hb, if_true] at hv
      rw [List.cons_append, unq_plain b _ hb n22 n5c n0a, unquoteLoop_valid rest body 0 hv h1.2 h2.2 h3.2 (by omega)]
      simp [pre]
    · simp only [validLoop, hb, if_false] at hv
      split at hv
      · simp at hv
      · rename_i hsz
        have hsz : 2 ≤ (decodeRune (b :: body)).2 := by omega
        have M := decode_multi b body hsz
        have happ := TextProofs.decodeRune_append (b :: body) (0x22 :: rest) hsz
        obtain ⟨n, hn⟩ : ∃ n, (decodeRune (b :: body)).2 = n + 1 := ⟨(decodeRune (b :: body)).2 - 1, by omega⟩
        have h80 : (0x80 : UInt8) ≤ b := M.lead
        have e22 : (b == 0x22) = false := by simp [n22]
        rw [List.cons_append, unq_step b _ (decodeRune (b :: body)).1 true n n22 n0a (by
          rw [List.cons_append] at happ
          simp [unquoteChar, e22, h80, happ, hn])]
        rw [hn] at hv
        rw [unquoteLoop_valid rest body n (by simpa using hv) h1.2 h2.2 h3.2 (by have := M.len; simp only [List.length_cons] at this; omega), charBytes_multi b body _ M, hn]
        simp only [pre, Option.map_some, List.drop_zero]
        have := take_drop_step b body (n + 1) (by omega)
        simp only [Nat.add_sub_cancel] at this
        rw [this]

/-- **the shortcut is only an optimisation**: `Unquote` on a double-quoted literal is the escape loop -/
theorem goUnquote_eq_slow (s : Bytes) : goUnquote s = slowUnquote s := by
  unfold goUnquote
  split
  · rename_i hl
    match s, hl with
    | [], _ => rfl
    | [q], _ =>
      simp only [slowUnquote, unquoteLoop]
      split <;> rfl
    | _ :: _ :: _, hl => simp only [List.length_cons] at hl; omega
  · match s with
    | [] => rfl
    | q :: tail =>
      simp only
      by_cases hq : (q != 0x22) = true
      · simp [slowUnquote, hq]
      · have hq' : q = 0x22 := by simpa using hq
        subst hq'
        simp only [bne_self_eq_false, Bool.false_eq_true, if_false]
        cases hi : indexByte 0x22 tail with
        | none =>
          simp only [slowUnquote, bne_self_eq_false, Bool.false_eq_true, if_false,
            unquoteLoop_none tail 0 (indexByte_none _ _ hi)]
        | some e =>
          simp only
          split
          · rename_i hfast
            simp only [Bool.and_eq_true, Bool.not_eq_true', validString] at hfast
            obtain ⟨⟨hbs, hnl⟩, hval⟩ := hfast
            obtain ⟨hsplit, hno⟩ := indexByte_some _ _ _ hi
            have hbs' : (0x5c : UInt8) ∉ tail.take e := by simpa using hbs
            have hnl' : (0x0a : UInt8) ∉ tail.take e := by simpa using hnl
            have := unquoteLoop_valid (tail.drop (e + 1)) (tail.take e) 0 hval hbs' hnl' hno (by omega)
            rw [← hsplit] at this
            simp [slowUnquote, this]
          · rfl

/-! ## the other direction: decoding an encoded scalar value -/

theorem ofNat_toNat' (n : Nat) (h : n < 256) : (UInt8.ofNat n).toNat = n := by
  simp [Nat.mod_eq_of_lt h]

set_option maxRecDepth 8000 in
theorem lead_table : ∀ b : UInt8,
    (0xE0 ≤ b.toNat ∧ b.toNat ≤ 0xEF →
      lead b = some (3, if b.toNat = 0xE0 then 0xA0 else 0x80, if b.toNat = 0xED then 0x9F else 0xBF)) ∧
    (0xF0 ≤ b.toNat ∧ b.toNat ≤ 0xF4 →
      lead b = some (4, if b.toNat = 0xF0 then 0x90 else 0x80, if b.toNat = 0xF4 then 0x8F else 0xBF)) :=
  forall_uint8 _ (by decide)

/-- the other direction: a scalar value, encoded, decodes to itself whatever follows -/
theorem decode_encode (r : Nat) (hv : validRune r = true) (X : Bytes) :
    decodeRune (encodeRune r ++ X) = (r, (encodeRune r).length) := by
  simp only [validRune, Bool.or_eq_true, Bool.and_eq_true, decide_eq_true_eq] at hv
  unfold encodeRune
  by_cases h1 : r < 0x80
  · have : UInt8.ofNat r < 0x80 := by simp [UInt8.lt_iff_toNat_lt, Nat.mod_eq_of_lt (by omega : r < 256)]; exact h1
    simp [h1, decodeRune, this, Nat.mod_eq_of_lt (by omega : r < 256)]
  · simp only [h1, if_false]
    by_cases h2 : r < 0x800
    · simp only [h2, if_true]
      have t0 := ofNat_toNat' (0xC0 + r / 64) (by omega)
      have t1 := ofNat_toNat' (0x80 + r % 64) (by omega)
      generalize UInt8.ofNat (0xC0 + r / 64) = b0 at t0
      generalize UInt8.ofNat (0x80 + r % 64) = b1 at t1
      have hb0 : ¬ b0 < 0x80 := by simp [UInt8.lt_iff_toNat_lt]; omega
      have hl : lead b0 = some (2, 0x80, 0xBF) := by
        have : (0xC2 ≤ b0 && b0 ≤ 0xDF) = true := by simp [UInt8.le_iff_toNat_le]; omega
        simp [lead, this]
      have hc : (0x80 ≤ b1 && b1 ≤ 0xBF) = true := by simp [UInt8.le_iff_toNat_le]; omega
      simp only [List.cons_append, List.nil_append, decodeRune, hb0, if_false, hl, hc, Bool.not_true,
        Bool.false_eq_true, beq_self_eq_true, if_true, List.length_cons, List.length_nil, t0, t1]
      congr 1; omega
    · simp only [h2, if_false]
      by_cases h3 : r < 0x10000
      · simp only [h3, if_true]
        have t0 := ofNat_toNat' (0xE0 + r / 4096) (by omega)
        have t1 := ofNat_toNat' (0x80 + r / 64 % 64) (by omega)
        have t2 := ofNat_toNat' (0x80 + r % 64) (by omega)
        generalize UInt8.ofNat (0xE0 + r / 4096) = b0 at t0
        generalize UInt8.ofNat (0x80 + r / 64 % 64) = b1 at t1
        generalize UInt8.ofNat (0x80 + r % 64) = b2 at t2
        have hb0 : ¬ b0 < 0x80 := by simp [UInt8.lt_iff_toNat_lt]; omega
        have hl := (lead_table b0).1 (by omega)
        have hc1 : ((if b0.toNat = 0xE0 then (0xA0 : UInt8) else 0x80) ≤ b1 &&
            b1 ≤ (if b0.toNat = 0xED then (0x9F : UInt8) else 0xBF)) = true := by
          simp only [Bool.and_eq_true, decide_eq_true_eq, UInt8.le_iff_toNat_le]
          constructor
          · split <;> simp <;> omega
          · split <;> simp <;> omega
        have hc2 : isCont b2 = true := by simp [isCont, UInt8.le_iff_toNat_le]; omega
        simp only [List.cons_append, List.nil_append, decodeRune, hb0, if_false, hl, hc1, hc2, Bool.not_true,
          Bool.false_eq_true, List.length_cons, List.length_nil]
        simp only [t0, t1, t2]
        simp
        omega
      · simp only [h3, if_false]
        have t0 := ofNat_toNat' (0xF0 + r / 262144) (by omega)
        have t1 := ofNat_toNat' (0x80 + r / 4096 % 64) (by omega)
        have t2 := ofNat_toNat' (0x80 + r / 64 % 64) (by omega)
        have t3 := ofNat_toNat' (0x80 + r % 64) (by omega)
        generalize UInt8.ofNat (0xF0 + r / 262144) = b0 at t0
        generalize UInt8.ofNat (0x80 + r / 4096 % 64) = b1 at t1
        generalize UInt8.ofNat (0x80 + r / 64 % 64) = b2 at t2
        generalize UInt8.ofNat (0x80 + r % 64) = b3 at t3
        have hb0 : ¬ b0 < 0x80 := by simp [UInt8.lt_iff_toNat_lt]; omega
        have hl := (lead_table b0).2 (by omega)
        have hc1 : ((if b0.toNat = 0xF0 then (0x90 : UInt8) else 0x80) ≤ b1 &&
            b1 ≤ (if b0.toNat = 0xF4 then (0x8F : UInt8) else 0xBF)) = true := by
          simp only [Bool.and_eq_true, decide_eq_true_eq, UInt8.le_iff_toNat_le]
          constructor
          · split <;> simp <;> omega
          · split <;> simp <;> omega
        have hc2 : isCont b2 = true := by simp [isCont, UInt8.le_iff_toNat_le]; omega
        have hc3 : isCont b3 = true := by simp [isCont, UInt8.le_iff_toNat_le]; omega
        simp only [List.cons_append, List.nil_append, decodeRune, hb0, if_false, hl, hc1, hc2, hc3, Bool.not_true,
          Bool.false_eq_true, List.length_cons, List.length_nil]
        simp only [t0, t1, t2, t3]
        simp
        omega

end Glb.Quote
