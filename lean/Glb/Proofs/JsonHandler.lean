/-
  Lemmas about the JSON handler model (C01): the separator bookkeeping of `appendJsonAttr` is the
  canonical `,`-join of the flattened member list; a derivation chain accumulates exactly the
  nested member list; the fixed head of a record.
-/
import Glb.Proofs.Json

set_option linter.unusedSimpArgs false

namespace Glb.JsonHandler
open Glb Glb.Json Glb.JsonString

/-! ### `,`-join of appended member lists -/

theorem serMems_append (q : Bytes → Bytes) : ∀ (a b : List (Bytes × JV)), a ≠ [] →
    serMems q (a ++ b) = serMems q a ++ serSep q true b
  | [], _, h => absurd rfl h
  | [(k, v)], [], _ => by simp [serSep]
  | [(k, v)], m :: ms, _ => by simp [serSep, serMems]
  | (k, v) :: m :: ms, b, _ => by
    have := serMems_append q (m :: ms) b (by simp)
    simp only [List.cons_append] at this
    simp [serMems, this]

theorem serSep_append (q : Bytes → Bytes) (sep : Bool) (a b : List (Bytes × JV)) :
    serSep q sep (a ++ b) = serSep q sep a ++ serSep q (sep || !a.isEmpty) b := by
  cases a with
  | nil => simp [serSep]
  | cons m ms =>
    have := serMems_append q (m :: ms) b (by simp)
    simp only [List.cons_append] at this
    simp [serSep, this]

theorem serSep_false (q : Bytes → Bytes) (ms : List (Bytes × JV)) : serSep q false ms = serMems q ms := by
  cases ms <;> simp [serSep, serMems]

/-! ### values -/

theorem plain_safe {b : UInt8} (h : plainAscii b = true) : safeByte b = true := by
  simp only [plainAscii, Bool.and_eq_true, decide_eq_true_eq, bne_iff_ne, ne_eq] at h
  obtain ⟨⟨⟨h1, h2⟩, h3⟩, h4⟩ := h
  simp only [safeByte, Bool.and_eq_true, decide_eq_true_eq]
  refine ⟨h2, ?_⟩
  rw [safe_eq b h2]
  simp only [decide_eq_true_eq]
  refine ⟨by simpa [UInt8.le_iff_toNat_le] using h1, ?_, ?_⟩
  · intro e; apply h3; rw [← UInt8.toNat_inj]; simpa using e
  · intro e; apply h4; rw [← UInt8.toNat_inj]; simpa using e

theorem ajs_plain {t : Bytes} (h : ∀ b ∈ t, plainAscii b = true) : appendJsonString t = t :=
  ajs_safe t (fun b hb => plain_safe (h b hb))

theorem ajs_nilText : appendJsonString nilText = nilText := by decide

theorem value_ser (v : Leaf) (h : LeafOk v) : appendJsonValue v = ser appendJsonString (leafSrc v) := by
  cases v with
  | str s => rfl
  | num t => rfl
  | bool b => rfl
  | time t => simp only [LeafOk] at h; simp [appendJsonValue, leafSrc, ser, ajs_plain h]
  | enc r => cases r <;> rfl
  | err m => rfl
  | ansi m => rfl
  | panicNil => simp [appendJsonValue, leafSrc, ser, ajs_nilText]
  | panicMsg m => rfl

/-! ### separator bookkeeping -/

mutual
theorem attr_render' : ∀ (a : Attr), AttrOk a → ∀ (buf : Bytes) (sep : Bool),
    appendJsonAttr buf a sep =
      (buf ++ serSep appendJsonString sep (membersSrc a), !(membersSrc a).isEmpty)
  | .leaf k v, h, buf, sep => by
    simp only [AttrOk] at h
    cases sep <;>
      simp [appendJsonAttr, membersSrc, serSep, serMems, value_ser v h]
  | .group k as, h, buf, sep => by
    simp only [AttrOk] at h
    by_cases hk : k.isEmpty = true
    · have := attrLoop_render' as h buf sep false
      simp [appendJsonAttr, membersSrc, hk, this]
    · have := fun b => attrLoop_render' as h b false false
      cases sep <;>
        simp [appendJsonAttr, membersSrc, hk, this, serSep_false] <;>
        simp [serSep, serMems, ser]
theorem attrLoop_render' : ∀ (as : List Attr), AttrsOk as → ∀ (buf : Bytes) (sep wrote : Bool),
    attrLoop buf as sep wrote =
      (buf ++ serSep appendJsonString sep (membersSrcL as),
       sep || !(membersSrcL as).isEmpty, wrote || !(membersSrcL as).isEmpty)
  | [], _, buf, sep, wrote => by simp [attrLoop, membersSrcL, serSep]
  | a :: as, h, buf, sep, wrote => by
    simp only [AttrsOk] at h
    have h1 := attr_render' a h.1 buf sep
    rw [attrLoop, h1]
    by_cases he : (membersSrc a).isEmpty = true
    · have := attrLoop_render' as h.2 (buf ++ serSep appendJsonString sep (membersSrc a)) sep wrote
      have he' : membersSrc a = [] := by simpa using he
      have e0 : serSep appendJsonString sep ([] : List (Bytes × JV)) = [] := by simp [serSep]
      simp only [he', e0, List.append_nil] at this
      simp [he', this, membersSrcL, e0]
    · have := attrLoop_render' as h.2 (buf ++ serSep appendJsonString sep (membersSrc a)) true true
      simp only [he, Bool.not_false, if_true, this]
      have he' : ¬ membersSrc a = [] := by simpa using he
      simp [membersSrcL, serSep_append, he, he']
end

/-! ### derivation chains -/

theorem chain_render : ∀ (ds : List Deriv), ChainOk ds → ∀ (h0 : H) (tail : List (Bytes × JV)),
    (deriveAll h0 ds).pre ++ serSep appendJsonString (deriveAll h0 ds).addSep tail
        ++ List.replicate (deriveAll h0 ds).nOpenGroups 0x7D =
      h0.pre ++ serSep appendJsonString h0.addSep (nestSrc ds tail) ++ List.replicate h0.nOpenGroups 0x7D
  | [], _, h0, tail => by simp [deriveAll, nestSrc]
  | .attrs as :: ds, hc, h0, tail => by
    simp only [ChainOk, DerivOk] at hc
    have ih := chain_render ds hc.2 (withAttrs h0 as) tail
    have hd : deriveAll h0 (.attrs as :: ds) = deriveAll (withAttrs h0 as) ds := by
      simp [deriveAll, derive]
    rw [hd, ih]
    simp [withAttrs, attrLoop_render' as hc.1, nestSrc, serSep_append]
  | .group g :: ds, hc, h0, tail => by
    simp only [ChainOk] at hc
    have ih := chain_render ds hc.2 (withGroup h0 g) tail
    have hd : deriveAll h0 (.group g :: ds) = deriveAll (withGroup h0 g) ds := by
      simp [deriveAll, derive]
    rw [hd, ih]
    cases hs : h0.addSep <;>
      simp [withGroup, hs, nestSrc, serSep, serMems, ser, serSep_false, List.replicate_succ]
    all_goals (intro e; simp [e, serMems])

/-! ### the contract carries over to the tree -/

theorem OkM_append : ∀ (a b : List (Bytes × JV)), OkM a → OkM b → OkM (a ++ b)
  | [], _, _, hb => by simpa using hb
  | (k, v) :: a, b, ha, hb => by
    simp only [OkM] at ha
    simp only [List.cons_append, OkM]
    exact ⟨ha.1, OkM_append a b ha.2 hb⟩

theorem leafSrc_ok (v : Leaf) (h : LeafOk v) : (leafSrc v).Ok := by
  cases v with
  | num t => simpa [LeafOk, leafSrc, JV.Ok] using h
  | enc r => cases r <;> simpa [LeafOk, leafSrc, JV.Ok] using h
  | _ => simp [leafSrc, JV.Ok]

mutual
theorem membersSrc_ok : ∀ (a : Attr), AttrOk a → OkM (membersSrc a)
  | .leaf k v, h => by
    simp only [AttrOk] at h
    simp [membersSrc, OkM, leafSrc_ok v h]
  | .group k as, h => by
    simp only [AttrOk] at h
    have := membersSrcL_ok as h
    by_cases hk : k.isEmpty = true <;> simp [membersSrc, hk, OkM, JV.Ok, this]
theorem membersSrcL_ok : ∀ (as : List Attr), AttrsOk as → OkM (membersSrcL as)
  | [], _ => by simp [membersSrcL, OkM]
  | a :: as, h => by
    simp only [AttrsOk] at h
    simp only [membersSrcL]
    exact OkM_append _ _ (membersSrc_ok a h.1) (membersSrcL_ok as h.2)
end

theorem nestSrc_ok : ∀ (ds : List Deriv), ChainOk ds → ∀ tail, OkM tail → OkM (nestSrc ds tail)
  | [], _, tail, ht => by simpa [nestSrc] using ht
  | .attrs as :: ds, hc, tail, ht => by
    simp only [ChainOk, DerivOk] at hc
    simp only [nestSrc]
    exact OkM_append _ _ (membersSrcL_ok as hc.1) (nestSrc_ok ds hc.2 tail ht)
  | .group g :: ds, hc, tail, ht => by
    simp only [ChainOk] at hc
    simp [nestSrc, OkM, JV.Ok, nestSrc_ok ds hc.2 tail ht]

theorem expectedSrc_ok (addSource : Bool) (chain : List Deriv) (r : Rec) (hc : ChainOk chain) (hr : RecOk r) :
    (expectedSrc addSource chain r).Ok := by
  obtain ⟨_, hline, hattrs⟩ := hr
  have := nestSrc_ok chain hc _ (membersSrcL_ok r.attrs hattrs)
  cases addSource <;> simp [expectedSrc, JV.Ok, OkM, hline, this]

/-! ### the whole line -/

theorem ajs_keys : appendJsonString kTime = kTime ∧ appendJsonString kLevel = kLevel ∧
    appendJsonString kSource = kSource ∧ appendJsonString kMsg = kMsg ∧
    appendJsonString kFile = kFile ∧ appendJsonString kLine = kLine := by decide

theorem level_ok {l : Int} (h : validLevel l = true) :
    fullLevel l = .ok (levelName l) ∧ appendJsonString (levelName l) = levelName l := by
  have := (Tie.Logger.validLevel_iff l).mp h
  have hf := Tie.Logger.labelList_full
  simp only [List.mem_cons, List.not_mem_nil, or_false] at this
  rcases this with rfl | rfl | rfl | rfl | rfl
  · exact ⟨hf.1, by decide⟩
  · exact ⟨hf.2.1, by decide⟩
  · exact ⟨hf.2.2.1, by decide⟩
  · exact ⟨hf.2.2.2.1, by decide⟩
  · exact ⟨hf.2.2.2.2, by decide⟩

/-- the model's line is the canonical serialization of the source tree, plus the newline -/
theorem handle_eq_ser (addSource : Bool) (chain : List Deriv) (r : Rec)
    (hc : ChainOk chain) (hr : RecOk r) (hl : validLevel r.level = true) :
    handle addSource (deriveAll H.init chain) r =
      .ok (ser appendJsonString (expectedSrc addSource chain r) ++ [0x0A]) := by
  obtain ⟨hlv, hla⟩ := level_ok hl
  obtain ⟨k1, k2, k3, k4, k5, k6⟩ := ajs_keys
  have htime := ajs_plain hr.1
  have hch := chain_render chain hc H.init (membersSrcL r.attrs)
  simp only [H.init] at hch
  simp only [List.nil_append, List.replicate_zero, List.append_nil] at hch
  simp only [handle, hlv, H.init, attrLoop_render' r.attrs hr.2.2]
  have e : ∀ (X A B C : Bytes), X ++ A ++ B ++ C ++ [0x7D, 0x0A] = X ++ (A ++ B ++ C) ++ [0x7D, 0x0A] := by
    intro X A B C; simp [List.append_assoc]
  show Except.ok _ = _
  congr 1
  rw [e, hch]
  cases addSource
  · have e1 : expectedSrc false chain r = .obj ([(kTime, .str r.time), (kLevel, .str (levelName r.level)),
        (kMsg, .str r.msg)] ++ nestSrc chain (membersSrcL r.attrs)) := by simp [expectedSrc]
    rw [e1]
    simp only [ser, serMems_append _ _ _ (List.cons_ne_nil _ _), serMems, k1, k2, k4, htime, hla]
    simp [List.append_assoc]
  · have e1 : expectedSrc true chain r = .obj ([(kTime, .str r.time), (kLevel, .str (levelName r.level)),
        (kSource, .obj [(kFile, .str (trimSource r.file)), (kLine, .num r.line)]),
        (kMsg, .str r.msg)] ++ nestSrc chain (membersSrcL r.attrs)) := by simp [expectedSrc]
    rw [e1]
    simp only [ser, serMems_append _ _ _ (List.cons_ne_nil _ _), serMems, k1, k2, k3, k4, k5, k6, htime, hla,
      appendJsonSource]
    simp [List.append_assoc]

/-! ### the source-file trimming loop -/

theorem sourceLoop_skip (file : Bytes) (first : Bool) : ∀ (idx j : Nat), j ≤ idx →
    (∀ i, j < i → i ≤ idx → file[i]? ≠ some 0x2F) → sourceLoop file idx first = sourceLoop file j first
  | 0, j, hj, _ => by have : j = 0 := by omega
                      subst this; rfl
  | idx + 1, j, hj, h => by
    by_cases e : j = idx + 1
    · subst e; rfl
    · have hne := h (idx + 1) (by omega) (by omega)
      rw [sourceLoop]
      have : (file[idx + 1]? == some 0x2F) = false := by simpa using hne
      simp only [this]
      exact sourceLoop_skip file first idx j (by omega) (fun i h1 h2 => h i h1 (by omega))

theorem sourceLoop_slash (file : Bytes) (idx : Nat) (first : Bool) (h : file[idx + 1]? = some 0x2F) :
    sourceLoop file (idx + 1) first = if first then idx + 1 else sourceLoop file idx true := by
  rw [sourceLoop]; simp [h]

theorem trimSource_last_two' (pre a b : Bytes) (ha : 0x2F ∉ a) (hb : 0x2F ∉ b) :
    trimSource (pre ++ 0x2F :: a ++ 0x2F :: b) = a ++ 0x2F :: b := by
  have hnotin : ∀ (l : Bytes) (k : Nat), 0x2F ∉ l → l[k]? ≠ some 0x2F := by
    intro l k hl e
    exact hl (List.mem_of_getElem? e)
  generalize hf : pre ++ 0x2F :: a ++ 0x2F :: b = file
  have hlen : file.length = pre.length + 1 + a.length + 1 + b.length := by
    subst hf; simp; omega
  have g1 : ∀ i, pre.length + 1 + a.length < i → file[i]? = b[i - (pre.length + 1 + a.length + 1)]? := by
    intro i hi
    subst hf
    rw [List.getElem?_append_right (by simp; omega)]
    simp
    have : i - (pre.length + (a.length + 1)) = (i - (pre.length + 1 + a.length + 1)) + 1 := by omega
    rw [this]; simp
  have g2 : file[pre.length + 1 + a.length]? = some 0x2F := by
    subst hf
    rw [List.getElem?_append_right (by simp; omega)]
    simp
    have : pre.length + 1 + a.length - (pre.length + (a.length + 1)) = 0 := by omega
    rw [this]; simp
  have g3 : ∀ i, pre.length < i → i ≤ pre.length + a.length → file[i]? = a[i - (pre.length + 1)]? := by
    intro i h1 h2
    subst hf
    rw [List.append_assoc, List.getElem?_append_right (by omega)]
    have : i - pre.length = (i - (pre.length + 1)) + 1 := by omega
    rw [this]
    simp
    rw [List.getElem?_append_left (by omega)]
  have g4 : file[pre.length]? = some 0x2F := by
    subst hf
    rw [List.append_assoc, List.getElem?_append_right (by omega)]
    simp
  unfold trimSource
  have hne : file.isEmpty = false := by
    cases file with
    | nil => simp at hlen; omega
    | cons _ _ => rfl
  simp only [hne]
  have e1 : file.length - 1 = pre.length + 1 + a.length + b.length := by omega
  rw [e1, sourceLoop_skip file false _ (pre.length + a.length + 1) (by omega)
      (fun i h1 h2 => by rw [g1 i (by omega)]; exact hnotin _ _ hb),
    sourceLoop_slash file _ false (by rw [← g2]; congr 1; omega)]
  simp only [Bool.false_eq_true, if_false]
  rw [sourceLoop_skip file true _ pre.length (by omega)
      (fun i h1 h2 => by rw [g3 i h1 h2]; exact hnotin _ _ ha)]
  have : sourceLoop file pre.length true = pre.length := by
    cases hp : pre.length with
    | zero => rfl
    | succ n => rw [sourceLoop_slash file n true (by rw [← hp]; exact g4)]; simp
  rw [this]
  subst hf
  simp [List.append_assoc]


theorem sourceLoop_le (file : Bytes) : ∀ (idx : Nat) (first : Bool), sourceLoop file idx first ≤ idx
  | 0, _ => by simp [sourceLoop]
  | idx + 1, first => by
    rw [sourceLoop]
    have h1 := sourceLoop_le file idx true
    have h2 := sourceLoop_le file idx first
    split
    · split <;> omega
    · omega

end Glb.JsonHandler
