/-
  Helper lemmas for C02: the protocol invariant of the lock / pool / Write system and the
  accounting invariant (destination log ⊎ still-to-write = expected), both preserved by every
  enabled step.
-/
import Glb.Model.LogSys

namespace Glb.LogSys

/-! ## unpacking `enabled` -/

theorem enabled_cases {P : Params} {s : St} {l : Label} {s' : St} (h : (l, s') ∈ enabled P s) :
    (∃ g x ch, s.gs[g]? = some x ∧ stepG P s g x ch = some s') ∨
    (∃ i, s' = { s with pool := s.pool.eraseIdx i }) := by
  simp only [enabled, List.mem_append, List.mem_flatMap, List.mem_map, List.mem_range] at h
  rcases h with ⟨g, _, hg⟩ | ⟨i, _, hi⟩
  · left
    cases hx : s.gs[g]? with
    | none => simp [hx] at hg
    | some x =>
      simp only [hx, List.mem_filterMap, Option.map_eq_some_iff] at hg
      obtain ⟨ch, _, s'', hs, heq⟩ := hg
      cases heq
      exact ⟨g, x, ch, hx, hs⟩
  · right
    cases hi
    exact ⟨i, rfl⟩

/-! ## the protocol invariant -/

/-- what goroutine `g` in local state `x` knows, relative to the shared state -/
structure Local (P : Params) (s : St) (g : Nat) (x : GState) : Prop where
  /-- past the gate the current call is an enabled `log`; the buffer is empty before `format`
      and holds exactly the record's own line afterwards -/
  call : x.pc = .gate ∨ ∃ c rest, x.prog = .log c :: rest ∧ P.threshold ≤ c.level ∧
      (x.pc = .format → x.buf.data = []) ∧
      ((x.pc = .lock ∨ x.pc = .enter ∨ x.pc = .leave) → x.buf.data = P.render c.handler c.rid)
  /-- exactly the goroutine between `Lock()` and `Unlock()` owns the mutex -/
  owns : (x.pc = .enter ∨ x.pc = .leave ∨ x.pc = .unlock) ↔ s.owner = some g
  /-- exactly the goroutine inside `Write` is the marked writer -/
  writes : x.pc = .leave ↔ s.inWrite = some g

structure Invt (P : Params) (s : St) : Prop where
  loc : ∀ g x, s.gs[g]? = some x → Local P s g x
  pool : ∀ b ∈ s.pool, b.data = []
  noOverlap : s.overlap = false
  writerOwns : ∀ j, s.inWrite = some j → s.owner = some j

theorem invt_init (P : Params) (progs : List (List Op)) : Invt P (St.init progs) := by
  refine ⟨?_, by simp [St.init], rfl, by simp [St.init]⟩
  intro g x hx
  simp only [St.init, List.getElem?_map, Option.map_eq_some_iff] at hx
  obtain ⟨p, _, rfl⟩ := hx
  exact ⟨Or.inl rfl, by simp [St.init], by simp [St.init]⟩

theorem getElem?_set_cases {α} (l : List α) (g j : Nat) (x x' y : α) (hg : l[g]? = some x)
    (hj : (l.set g x')[j]? = some y) : (j = g ∧ y = x') ∨ (j ≠ g ∧ l[j]? = some y) := by
  by_cases h : g = j
  · subst h
    have hlt : g < l.length := by
      apply Classical.byContradiction; intro hn
      rw [List.getElem?_eq_none (Nat.le_of_not_lt hn)] at hg; cases hg
    rw [List.getElem?_set_self hlt] at hj
    cases hj; exact Or.inl ⟨rfl, rfl⟩
  · rw [List.getElem?_set_ne h] at hj
    exact Or.inr ⟨fun e => h e.symm, hj⟩

theorem mem_eraseIdx {α} (l : List α) (i : Nat) (b : α) (h : b ∈ l.eraseIdx i) : b ∈ l :=
  List.mem_of_mem_eraseIdx h

/-- every step of a goroutine preserves the protocol invariant -/
theorem invt_stepG (P : Params) (s : St) (g : Nat) (x : GState) (ch : Option Nat) (s' : St)
    (hinv : Invt P s) (hg : s.gs[g]? = some x) (hs : stepG P s g x ch = some s') : Invt P s' := by
  obtain ⟨hloc, hpool, hov, hwo⟩ := hinv
  obtain ⟨lc, lo, lw⟩ := hloc g x hg
  unfold stepG at hs
  split at hs
  · cases hs
  · -- derive
    split at hs
    · cases hs
      rename_i rest hprog hpc
      refine ⟨?_, hpool, hov, hwo⟩
      intro j y hj
      rcases getElem?_set_cases _ _ _ _ _ _ hg hj with ⟨rfl, rfl⟩ | ⟨hne, hj'⟩
      · exact ⟨Or.inl hpc, by simpa [setG] using lo, by simpa [setG] using lw⟩
      · obtain ⟨a, b, c⟩ := hloc j y hj'
        exact ⟨a, by simpa [setG] using b, by simpa [setG] using c⟩
    · cases hs
  · rename_i c rest hprog
    split at hs
    · -- gate
      rename_i hpc
      split at hs
      · rename_i hw
        cases hs
        refine ⟨?_, hpool, hov, hwo⟩
        intro j y hj
        rcases getElem?_set_cases _ _ _ _ _ _ hg hj with ⟨rfl, rfl⟩ | ⟨hne, hj'⟩
        · refine ⟨Or.inr ⟨c, rest, hprog, by simpa [want] using hw, by simp, by simp⟩, ?_, ?_⟩
          · simp only [setG]; rw [← lo]; simp [hpc]
          · simp only [setG]; rw [← lw]; simp [hpc]
        · obtain ⟨a, b, c⟩ := hloc j y hj'
          exact ⟨a, by simpa [setG] using b, by simpa [setG] using c⟩
      · cases hs
        refine ⟨?_, hpool, hov, hwo⟩
        intro j y hj
        rcases getElem?_set_cases _ _ _ _ _ _ hg hj with ⟨rfl, rfl⟩ | ⟨hne, hj'⟩
        · exact ⟨Or.inl hpc, by simpa [setG] using lo, by simpa [setG] using lw⟩
        · obtain ⟨a, b, c⟩ := hloc j y hj'
          exact ⟨a, by simpa [setG] using b, by simpa [setG] using c⟩
    · -- getBuf
      rename_i hpc
      have hcall : ∃ c' rest', x.prog = .log c' :: rest' ∧ P.threshold ≤ c'.level := by
        rcases lc with h | ⟨c', r', h1, h2, _⟩
        · rw [hpc] at h; cases h
        · exact ⟨c', r', h1, h2⟩
      obtain ⟨c', rest', hp', hlv⟩ := hcall
      split at hs
      · cases hs
        refine ⟨?_, hpool, hov, hwo⟩
        intro j y hj
        rcases getElem?_set_cases _ _ _ _ _ _ hg hj with ⟨rfl, rfl⟩ | ⟨hne, hj'⟩
        · refine ⟨Or.inr ⟨c', rest', hp', hlv, by simp, by simp⟩, ?_, ?_⟩
          · simp only [setG]; rw [← lo]; simp [hpc]
          · simp only [setG]; rw [← lw]; simp [hpc]
        · obtain ⟨a, b, c⟩ := hloc j y hj'
          exact ⟨a, by simpa [setG] using b, by simpa [setG] using c⟩
      · rename_i i
        split at hs
        · cases hs
        · rename_i b hb
          cases hs
          have hbm : b ∈ s.pool := List.mem_of_getElem? hb
          refine ⟨?_, fun b' hb' => hpool b' (mem_eraseIdx _ _ _ hb'), hov, hwo⟩
          intro j y hj
          rcases getElem?_set_cases _ _ _ _ _ _ hg hj with ⟨rfl, rfl⟩ | ⟨hne, hj'⟩
          · refine ⟨Or.inr ⟨c', rest', hp', hlv, fun _ => hpool b hbm, by simp⟩, ?_, ?_⟩
            · simp only [setG]; rw [← lo]; simp [hpc]
            · simp only [setG]; rw [← lw]; simp [hpc]
          · obtain ⟨a, b, c⟩ := hloc j y hj'
            exact ⟨a, by simpa [setG] using b, by simpa [setG] using c⟩
    · -- format
      rename_i hpc
      cases hs
      have hdata : x.buf.data = [] := by
        rcases lc with h | ⟨c', r', h1, _, h3, _⟩
        · rw [hpc] at h; cases h
        · exact h3 hpc
      have hlv : P.threshold ≤ c.level := by
        rcases lc with h | ⟨c', r', h1, h2, _⟩
        · rw [hpc] at h; cases h
        · rw [hprog] at h1; cases h1; exact h2
      refine ⟨?_, hpool, hov, hwo⟩
      intro j y hj
      rcases getElem?_set_cases _ _ _ _ _ _ hg hj with ⟨rfl, rfl⟩ | ⟨hne, hj'⟩
      · refine ⟨Or.inr ⟨c, rest, hprog, hlv, by simp, fun _ => by simp [Buf.appendLine, hdata]⟩, ?_, ?_⟩
        · simp only [setG]; rw [← lo]; simp [hpc]
        · simp only [setG]; rw [← lw]; simp [hpc]
      · obtain ⟨a, b, c⟩ := hloc j y hj'
        exact ⟨a, by simpa [setG] using b, by simpa [setG] using c⟩
    · -- lock
      rename_i hpc
      split at hs
      · rename_i hown
        cases hs
        have hnw : s.inWrite = none := by
          cases hw : s.inWrite with
          | none => rfl
          | some j => have := hwo j hw; rw [hown] at this; cases this
        refine ⟨?_, hpool, hov, ?_⟩
        · intro j y hj
          rcases getElem?_set_cases _ _ _ _ _ _ hg hj with ⟨rfl, rfl⟩ | ⟨hne, hj'⟩
          · refine ⟨?_, by simp [setG], ?_⟩
            · rcases lc with h | ⟨c', r', h1, h2, h3, h4⟩
              · rw [hpc] at h; cases h
              · exact Or.inr ⟨c', r', h1, h2, by simp, fun _ => h4 (Or.inl hpc)⟩
            · simp [setG, hnw]
          · obtain ⟨a, b, c⟩ := hloc j y hj'
            refine ⟨a, ?_, by simpa [setG] using c⟩
            simp only [setG]
            rw [b, hown]
            constructor
            · intro h; cases h
            · intro h; cases h; exact absurd rfl hne
        · intro j hj; simp only [setG] at hj; rw [hnw] at hj; cases hj
      · cases hs
    · -- enter
      rename_i hpc
      cases hs
      have hown : s.owner = some g := lo.1 (Or.inl hpc)
      have hnw : s.inWrite = none := by
        cases hw : s.inWrite with
        | none => rfl
        | some j =>
          have h1 := hwo j hw
          rw [hown] at h1; cases h1
          have := lw.2 hw
          rw [hpc] at this; cases this
      refine ⟨?_, hpool, by simp [setG, hov, hnw], ?_⟩
      · intro j y hj
        rcases getElem?_set_cases _ _ _ _ _ _ hg hj with ⟨rfl, rfl⟩ | ⟨hne, hj'⟩
        · refine ⟨?_, by simp [setG, hown], by simp [setG]⟩
          rcases lc with h | ⟨c', r', h1, h2, h3, h4⟩
          · rw [hpc] at h; cases h
          · exact Or.inr ⟨c', r', h1, h2, by simp, fun _ => h4 (Or.inr (Or.inl hpc))⟩
        · obtain ⟨a, b, c⟩ := hloc j y hj'
          refine ⟨a, by simpa [setG] using b, ?_⟩
          simp only [setG]
          rw [c, hnw]
          constructor
          · intro h; cases h
          · intro h; cases h; exact absurd rfl hne
      · intro j hj; simp only [setG] at hj ⊢; cases hj; exact hown
    · -- leave
      rename_i hpc
      cases hs
      have hw : s.inWrite = some g := lw.1 hpc
      refine ⟨?_, hpool, by simpa [setG] using hov, by simp [setG]⟩
      intro j y hj
      rcases getElem?_set_cases _ _ _ _ _ _ hg hj with ⟨rfl, rfl⟩ | ⟨hne, hj'⟩
      · refine ⟨?_, ?_, by simp [setG]⟩
        · rcases lc with h | ⟨c', r', h1, h2, h3, h4⟩
          · rw [hpc] at h; cases h
          · exact Or.inr ⟨c', r', h1, h2, by simp, by simp⟩
        · simp only [setG]; rw [← lo]; simp [hpc]
      · obtain ⟨a, b, c⟩ := hloc j y hj'
        refine ⟨a, by simpa [setG] using b, ?_⟩
        simp only [setG]
        rw [c, hw]
        constructor
        · intro h; cases h; exact absurd rfl hne
        · intro h; cases h
    · -- unlock
      rename_i hpc
      cases hs
      have hown : s.owner = some g := lo.1 (Or.inr (Or.inr hpc))
      have hnw : s.inWrite = none := by
        cases hw : s.inWrite with
        | none => rfl
        | some j =>
          have h1 := hwo j hw
          rw [hown] at h1; cases h1
          have := lw.2 hw
          rw [hpc] at this; cases this
      refine ⟨?_, hpool, hov, ?_⟩
      · intro j y hj
        rcases getElem?_set_cases _ _ _ _ _ _ hg hj with ⟨rfl, rfl⟩ | ⟨hne, hj'⟩
        · refine ⟨?_, by simp [setG], ?_⟩
          · rcases lc with h | ⟨c', r', h1, h2, h3, h4⟩
            · rw [hpc] at h; cases h
            · exact Or.inr ⟨c', r', h1, h2, by simp, by simp⟩
          · simp [setG, hnw]
        · obtain ⟨a, b, c⟩ := hloc j y hj'
          refine ⟨a, ?_, by simpa [setG] using c⟩
          simp only [setG]
          rw [b, hown]
          constructor
          · intro h; cases h; exact absurd rfl hne
          · intro h; cases h
      · intro j hj; simp only [setG] at hj; rw [hnw] at hj; cases hj
    · -- free
      rename_i hpc
      cases hs
      refine ⟨?_, ?_, hov, hwo⟩
      · intro j y hj
        rcases getElem?_set_cases _ _ _ _ _ _ hg hj with ⟨rfl, rfl⟩ | ⟨hne, hj'⟩
        · refine ⟨Or.inl rfl, ?_, ?_⟩
          · simp only [setG]; rw [← lo]; simp [hpc]
          · simp only [setG]; rw [← lw]; simp [hpc]
        · obtain ⟨a, b, c⟩ := hloc j y hj'
          exact ⟨a, by simpa [setG] using b, by simpa [setG] using c⟩
      · intro b hb
        simp only [setG] at hb
        split at hb
        · rcases List.mem_cons.1 hb with rfl | hb
          · rfl
          · exact hpool b hb
        · exact hpool b hb

theorem invt_step (P : Params) (s : St) (l : Label) (s' : St) (hinv : Invt P s)
    (h : (l, s') ∈ enabled P s) : Invt P s' := by
  rcases enabled_cases h with ⟨g, x, ch, hg, hs⟩ | ⟨i, rfl⟩
  · exact invt_stepG P s g x ch s' hinv hg hs
  · refine ⟨?_, fun b hb => hinv.pool b (mem_eraseIdx _ _ _ hb), hinv.noOverlap, hinv.writerOwns⟩
    intro g x hg
    obtain ⟨a, b, c⟩ := hinv.loc g x hg
    exact ⟨a, b, c⟩

theorem invt_reachable (P : Params) (progs : List (List Op)) (s : St)
    (h : Reachable P progs s) : Invt P s := by
  induction h with
  | init => exact invt_init P progs
  | step _ hstep ih => exact invt_step P _ _ _ ih hstep

/-! ## accounting: destination ⊎ still-to-write = expected -/

/-- the lines goroutine state `x` will still write -/
def todo (P : Params) (x : GState) : List Key :=
  match x.pc with
  | .unlock | .free => pending P x.prog.tail
  | _ => pending P x.prog

def Acct (P : Params) (progs : List (List Op)) (s : St) : Prop :=
  List.Perm (s.dest.map Entry.key ++ (s.gs.map (todo P)).flatten) (expected P progs)

theorem acct_init (P : Params) (progs : List (List Op)) : Acct P progs (St.init progs) := by
  simp only [Acct, St.init, List.map_nil, List.nil_append, List.map_map, expected]
  have : (todo P ∘ fun p => (⟨p, .gate, ⟨[], 0⟩⟩ : GState)) = pending P := by
    funext p; simp [todo]
  rw [this]

theorem perm_flatten_set_cons {α} (e : α) (b : List α) :
    ∀ (l : List (List α)) (g : Nat), l[g]? = some (e :: b) →
      List.Perm (e :: (l.set g b).flatten) l.flatten := by
  intro l
  induction l with
  | nil => intro g h; simp at h
  | cons hd tl ih =>
    intro g h
    cases g with
    | zero =>
      simp at h; subst h
      simp
    | succ n =>
      simp at h
      have := ih n h
      simp only [List.set_cons_succ, List.flatten_cons]
      exact (List.perm_middle.symm).trans (List.Perm.append_left hd this)

theorem map_set_same {α β} (f : α → β) (l : List α) (g : Nat) (x x' : α) (hg : l[g]? = some x)
    (hf : f x' = f x) : (l.set g x').map f = l.map f := by
  rw [List.map_set, hf]
  apply List.ext_getElem?
  intro j
  by_cases h : g = j
  · subst h
    have hlt : g < l.length := by
      apply Classical.byContradiction; intro hn
      rw [List.getElem?_eq_none (Nat.le_of_not_lt hn)] at hg; cases hg
    rw [List.getElem?_set_self (by simpa using hlt)]
    simp [hg]
  · rw [List.getElem?_set_ne h]

/-- every step of a goroutine preserves the accounting (the protocol invariant supplies the
    byte-equality of what `leave` writes) -/
theorem acct_stepG (P : Params) (progs : List (List Op)) (s : St) (g : Nat) (x : GState)
    (ch : Option Nat) (s' : St) (hinv : Invt P s) (hacct : Acct P progs s)
    (hg : s.gs[g]? = some x) (hs : stepG P s g x ch = some s') : Acct P progs s' := by
  obtain ⟨lc, _, _⟩ := hinv.loc g x hg
  -- all steps but `leave` keep both the destination and every goroutine's todo list
  have keep : ∀ (t : St) (x' : GState), t.dest = s.dest → t.gs = s.gs.set g x' → todo P x' = todo P x →
      Acct P progs t := by
    intro t x' hd hgs ht
    unfold Acct
    rw [hd, hgs, map_set_same (todo P) _ _ _ _ hg ht]
    exact hacct
  unfold stepG at hs
  split at hs
  · cases hs
  · split at hs
    · rename_i rest hprog hpc
      cases hs
      exact keep _ _ rfl rfl (by simp [todo, hpc, hprog, pending])
    · cases hs
  · rename_i c rest hprog
    split at hs
    · rename_i hpc
      split at hs
      · cases hs
        exact keep _ _ rfl rfl (by simp [todo, hpc])
      · rename_i hw
        cases hs
        exact keep _ _ rfl rfl (by simp [todo, hpc, hprog, pending, hw])
    · rename_i hpc
      split at hs
      · cases hs
        exact keep _ _ rfl rfl (by simp [todo, hpc])
      · split at hs
        · cases hs
        · cases hs
          exact keep _ _ rfl rfl (by simp [todo, hpc])
    · rename_i hpc
      cases hs
      exact keep _ _ rfl rfl (by simp [todo, hpc])
    · rename_i hpc
      split at hs
      · cases hs
        exact keep _ _ rfl rfl (by simp [todo, hpc])
      · cases hs
    · rename_i hpc
      cases hs
      exact keep _ _ rfl rfl (by simp [todo, hpc])
    · -- leave: one entry moves from `todo` to the destination, byte-equal to the rendering
      rename_i hpc
      cases hs
      have hdata : x.buf.data = P.render c.handler c.rid ∧ P.threshold ≤ c.level := by
        rcases lc with h | ⟨c', r', h1, h2, _, h4⟩
        · rw [hpc] at h; cases h
        · rw [hprog] at h1; cases h1
          exact ⟨h4 (Or.inr (Or.inr hpc)), h2⟩
      have htodo : todo P x = keyOf P c :: todo P { x with pc := .unlock } := by
        simp [todo, hpc, hprog, pending, want, hdata.2]
      have hmap : (s.gs.map (todo P))[g]? = some (keyOf P c :: todo P { x with pc := .unlock }) := by
        simp [hg, htodo]
      have hp := perm_flatten_set_cons _ _ _ _ hmap
      unfold Acct at hacct ⊢
      simp only [setG, List.map_append, List.map_cons, List.map_nil, List.map_set]
      have hk : Entry.key ⟨g, c.handler, c.rid, x.buf.data⟩ = keyOf P c := by
        simp [Entry.key, keyOf, hdata.1]
      rw [hk, List.append_assoc]
      exact (List.Perm.append_left _ (by simpa using hp)).trans hacct
    · rename_i hpc
      cases hs
      exact keep _ _ rfl rfl (by simp [todo, hpc])
    · rename_i hpc
      cases hs
      exact keep _ _ rfl rfl (by simp [todo, hpc, hprog])

theorem acct_step (P : Params) (progs : List (List Op)) (s : St) (l : Label) (s' : St)
    (hinv : Invt P s) (hacct : Acct P progs s) (h : (l, s') ∈ enabled P s) : Acct P progs s' := by
  rcases enabled_cases h with ⟨g, x, ch, hg, hs⟩ | ⟨i, rfl⟩
  · exact acct_stepG P progs s g x ch s' hinv hacct hg hs
  · exact hacct

theorem acct_reachable (P : Params) (progs : List (List Op)) (s : St)
    (h : Reachable P progs s) : Acct P progs s := by
  induction h with
  | init => exact acct_init P progs
  | step hr hstep ih => exact acct_step P progs _ _ _ (invt_reachable P progs _ hr) ih hstep

theorem mem_pending {P : Params} {k : Key} : ∀ {p : List Op}, k ∈ pending P p →
    ∃ c, Op.log c ∈ p ∧ P.threshold ≤ c.level ∧ k = keyOf P c := by
  intro p
  induction p with
  | nil => intro h; simp [pending] at h
  | cons op r ih =>
    intro h
    cases op with
    | derive q =>
      obtain ⟨c, h1, h2⟩ := ih (by simpa [pending] using h)
      exact ⟨c, List.mem_cons_of_mem _ h1, h2⟩
    | log c =>
      simp only [pending] at h
      split at h
      · rename_i hw
        rcases List.mem_cons.1 h with rfl | h
        · exact ⟨c, by simp, by simpa [want] using hw, rfl⟩
        · obtain ⟨c', h1, h2⟩ := ih h
          exact ⟨c', List.mem_cons_of_mem _ h1, h2⟩
      · obtain ⟨c', h1, h2⟩ := ih h
        exact ⟨c', List.mem_cons_of_mem _ h1, h2⟩

end Glb.LogSys
