/-
  Proofs about the lock-level model of IPv4Filter (Glb.Model.FilterConc):
  local lemmas about critical sections, the lock invariant (mutual exclusion), reader stability,
  and the step-by-step simulation of the coarse model of Glb.Props.C12.
-/
import Glb.Model.FilterConc
import Glb.Props.C12

namespace Glb.FilterConc
open Glb.Filter Glb.C11

/-! ### the remaining statements of a critical section -/

theorem foldl_copySlot_eq_migrate (l : List (Addr × Nat)) : l.foldl copySlot [] = migrate l := rfl

theorem rScan_aux {α : Type} (l : List α) (i : Nat) (hi : i < l.length) (g : α → α) :
    (l.set i (g l[i])).take (i + 1) ++ ((l.set i (g l[i])).drop (i + 1)).map g =
      l.take i ++ (l.drop i).map g := by
  induction l generalizing i with
  | nil => simp at hi
  | cons a l ih =>
    cases i with
    | zero => simp
    | succ i => simpa using ih i (by simpa using hi)

/-- every statement inside a writer critical section leaves "the state at unlock" unchanged -/
theorem finishW_wstep (ls : Nat) (s : St) (key : Addr) (ones : Nat) (k : WPc) :
    finishW ls (wstep ls s key ones k).1 key ones (wstep ls s key ones k).2 = finishW ls s key ones k := by
  cases k with
  | aMode => by_cases h : s.mapsMode <;> simp [wstep, finishW, h]
  | aIdx => by_cases h : s.list.length < ls <;> simp [wstep, finishW, h]
  | aStore => simp [wstep, finishW]
  | aSetMode => simp [wstep, finishW]
  | aAlloc => simp [wstep, finishW]
  | aCopy i =>
    simp only [wstep]
    cases h : s.list[i]? with
    | none =>
      have : s.list.drop i = [] := by
        rw [List.getElem?_eq_none_iff] at h; exact List.drop_eq_nil_of_le h
      simp [finishW, this]
    | some e =>
      have : s.list.drop i = e :: s.list.drop (i + 1) := by
        rw [List.getElem?_eq_some_iff] at h
        obtain ⟨hi, rfl⟩ := h
        exact List.drop_eq_getElem_cons hi
      simp [finishW, this]
  | aIns => simp [wstep, finishW]
  | rMode => by_cases h : s.mapsMode <;> simp [wstep, finishW, h]
  | rScan i =>
    simp only [wstep]
    cases h : s.list[i]? with
    | none =>
      have h' : s.list.length ≤ i := by rw [List.getElem?_eq_none_iff] at h; exact h
      simp [finishW, List.drop_eq_nil_of_le h', List.take_of_length_le h']
    | some e =>
      rw [List.getElem?_eq_some_iff] at h
      obtain ⟨hi, rfl⟩ := h
      simp only [finishW]
      congr 1
      exact rScan_aux s.list i hi (slotClear key ones)
  | rDel => simp [wstep, finishW]
  | unlock => simp [wstep, finishW]

/-- the whole critical section of `Add` is the C11 operation -/
theorem finishW_aMode (ls : Nat) (s : St) (ip : Addr) (ones : Nat) :
    finishW ls s (ip &&& maskOf ones) ones .aMode = addCore ls s ip ones := by
  simp only [finishW, addCore, foldl_copySlot_eq_migrate]

/-- the whole critical section of `Remove` is the C11 operation -/
theorem finishW_rMode (ls : Nat) (s : St) (ip : Addr) (ones : Nat) :
    finishW ls s (ip &&& maskOf ones) ones .rMode = removeCore s ip ones := by
  simp only [finishW, removeCore]; rfl

/-- a critical section never touches `matchAll`, and an atomic store to it commutes with it -/
theorem finishW_matchAll (ls : Nat) (s : St) (key : Addr) (ones : Nat) (k : WPc) (b : Bool) :
    finishW ls { s with matchAll := b } key ones k = { finishW ls s key ones k with matchAll := b } := by
  cases k <;> simp only [finishW] <;> (repeat' split) <;> rfl

theorem finishW_matchAll_eq (ls : Nat) (s : St) (key : Addr) (ones : Nat) (k : WPc) :
    (finishW ls s key ones k).matchAll = s.matchAll := by
  cases k <;> simp only [finishW] <;> (repeat' split) <;> rfl

/-! ### the remaining statements of a read section -/

/-- the fields guarded by the RWMutex -/
def GuardedEq (s s' : St) : Prop := s.mapsMode = s'.mapsMode ∧ s.list = s'.list ∧ s.maps = s'.maps

theorem GuardedEq.rfl' (s : St) : GuardedEq s s := ⟨rfl, rfl, rfl⟩

theorem finishR_guarded (s s' : St) (h : GuardedEq s s') (ip : Addr) (k : RPc) :
    finishR s ip k = finishR s' ip k := by
  obtain ⟨h1, h2, h3⟩ := h
  cases k <;> simp [finishR, scan, h1, h2, h3]

/-- every statement of the read section leaves "the result at return" unchanged -/
theorem finishR_rstep (s : St) (ip : Addr) (k : RPc) :
    finishR s ip (rstep s ip k) = finishR s ip k := by
  cases k with
  | rlock => rfl
  | mode =>
    by_cases h : s.mapsMode
    · simp [rstep, finishR, scan, h, List.range_eq_range']
    · simp [rstep, finishR, scan, h]; rfl
  | list i =>
    simp only [rstep]
    cases h : s.list[i]? with
    | none =>
      have h' : s.list.length ≤ i := by rw [List.getElem?_eq_none_iff] at h; exact h
      simp [finishR, List.drop_eq_nil_of_le h']
    | some e =>
      rw [List.getElem?_eq_some_iff] at h
      obtain ⟨hi, rfl⟩ := h
      have hd := List.drop_eq_getElem_cons hi
      by_cases hh : slotHit ip s.list[i] = true
      · show finishR s ip (if slotHit ip s.list[i] = true then _ else _) = _
        rw [if_pos hh]; simp only [finishR]; rw [hd, List.any_cons, hh]; rfl
      · show finishR s ip (if slotHit ip s.list[i] = true then _ else _) = _
        rw [if_neg hh]; simp only [finishR]; rw [hd, List.any_cons]
        simp only [Bool.not_eq_true] at hh; rw [hh]; rfl
  | map i =>
    simp only [rstep]
    by_cases hi : i < 32
    · have hr : List.range' i (32 - i) = i :: List.range' (i + 1) (32 - (i + 1)) := by
        have : 32 - i = (32 - (i + 1)) + 1 := by omega
        rw [this, List.range'_succ]
      rw [if_pos hi]
      by_cases hc : s.maps.contains (i + 1, ip &&& maskOf (i + 1)) = true
      · rw [if_pos hc]; simp only [finishR]; rw [hr, List.any_cons, hc]; rfl
      · rw [if_neg hc]; simp only [finishR]; rw [hr, List.any_cons]
        simp only [Bool.not_eq_true] at hc; rw [hc]; rfl
    · have : 32 - i = 0 := by omega
      rw [if_neg hi]; simp [finishR, this]
  | runlock b => rfl

/-! ### the kinds of fine steps -/

@[simp] theorem setTh_self (th : Tid → Thread) (t : Tid) (x : Thread) : setTh th t x t = x := by
  simp [setTh]

@[simp] theorem setTh_ne (th : Tid → Thread) (t u : Tid) (x : Thread) (h : u ≠ t) :
    setTh th t x u = th u := by simp [setTh, h]

/-- an `RPc` strictly inside the read section, before the result is fixed -/
def RPc.scanning : RPc → Bool
  | .mode | .list _ | .map _ => true
  | _ => false

/-- case description of `step ls true` -/
inductive FStep (ls : Nat) (c : Cfg) (t : Tid) : Cfg → Prop
  | store (call : Call) (ip : Addr) (rest : List Call) (b : Bool)
      (hpc : (c.th t).pc = .idle) (hrest : (c.th t).rest = call :: rest)
      (hcall : (call = .add ip 0 ∧ b = true) ∨ (call = .remove ip 0 ∧ b = false)) :
      FStep ls c t { c with st := { c.st with matchAll := b },
                            th := setTh c.th t { c.th t with rest := rest } }
  | lock (call : Call) (ip : Addr) (ones : Nat) (rest : List Call) (k : WPc)
      (hpc : (c.th t).pc = .idle) (hrest : (c.th t).rest = call :: rest)
      (hcall : (call = .add ip ones ∧ k = .aMode) ∨ (call = .remove ip ones ∧ k = .rMode))
      (hones : ones ≠ 0) (hfree : c.writer = none ∧ c.readers = []) :
      FStep ls c t { c with writer := some t,
                            th := setTh c.th t { c.th t with pc := .w k (ip &&& maskOf ones) ones } }
  | wstep (k : WPc) (key : Addr) (ones : Nat)
      (hpc : (c.th t).pc = .w k key ones) (hk : k ≠ .unlock) :
      FStep ls c t { c with st := (wstep ls c.st key ones k).1,
                            th := setTh c.th t { c.th t with pc := .w (wstep ls c.st key ones k).2 key ones } }
  | unlock (key : Addr) (ones : Nat) (hpc : (c.th t).pc = .w .unlock key ones) :
      FStep ls c t { c with writer := none,
                            th := setTh c.th t { c.th t with rest := (c.th t).rest.tail, pc := .idle } }
  | loadT (ip : Addr) (rest : List Call)
      (hpc : (c.th t).pc = .idle) (hrest : (c.th t).rest = .contains ip :: rest)
      (hm : c.st.matchAll = true) :
      FStep ls c t { c with th := setTh c.th t ⟨rest, (c.th t).pc, (c.th t).results ++ [true]⟩ }
  | loadF (ip : Addr) (rest : List Call)
      (hpc : (c.th t).pc = .idle) (hrest : (c.th t).rest = .contains ip :: rest)
      (hm : c.st.matchAll = false) :
      FStep ls c t { c with th := setTh c.th t { c.th t with pc := .r .rlock ip } }
  | rlock (ip : Addr) (hpc : (c.th t).pc = .r .rlock ip) (hw : c.writer = none) :
      FStep ls c t { c with readers := t :: c.readers,
                            th := setTh c.th t { c.th t with pc := .r .mode ip } }
  | rstep (k : RPc) (ip : Addr) (hpc : (c.th t).pc = .r k ip) (hk : k.scanning = true) :
      FStep ls c t { c with th := setTh c.th t { c.th t with pc := .r (rstep c.st ip k) ip } }
  | runlock (b : Bool) (ip : Addr) (hpc : (c.th t).pc = .r (.runlock b) ip) :
      FStep ls c t { c with readers := c.readers.erase t,
                            th := setTh c.th t ⟨(c.th t).rest.tail, .idle, (c.th t).results ++ [b]⟩ }

theorem step_cases (ls : Nat) (c c' : Cfg) (t : Tid) (h : step ls true c t = some c') :
    FStep ls c t c' := by
  unfold step at h
  simp only at h
  split at h
  · rename_i hpc
    split at h
    · simp at h
    · rename_i ip ones rest hrest
      split at h
      · rename_i h0; subst h0
        simp only [Option.some.injEq] at h; subst h
        exact .store _ ip rest true hpc hrest (Or.inl ⟨rfl, rfl⟩)
      · rename_i h0
        split at h
        · rename_i hf
          simp only [Option.some.injEq] at h; subst h
          exact .lock _ ip ones rest .aMode hpc hrest (Or.inl ⟨rfl, rfl⟩) h0 hf
        · simp at h
    · rename_i ip ones rest hrest
      split at h
      · rename_i h0; subst h0
        simp only [Option.some.injEq] at h; subst h
        exact .store _ ip rest false hpc hrest (Or.inr ⟨rfl, rfl⟩)
      · rename_i h0
        split at h
        · rename_i hf
          simp only [Option.some.injEq] at h; subst h
          exact .lock _ ip ones rest .rMode hpc hrest (Or.inr ⟨rfl, rfl⟩) h0 hf
        · simp at h
    · rename_i ip rest hrest
      split at h
      · rename_i hm
        simp only [Option.some.injEq] at h; subst h
        exact .loadT ip rest hpc hrest hm
      · rename_i hm
        simp only [Option.some.injEq] at h; subst h
        exact .loadF ip rest hpc hrest (by simpa using hm)
  · rename_i key ones hpc
    simp only [Option.some.injEq] at h; subst h
    exact .unlock key ones hpc
  · rename_i k key ones hne hpc
    simp only [Option.some.injEq] at h; subst h
    exact .wstep k key ones hpc (by intro hk; subst hk; exact hne rfl)
  · rename_i ip hpc
    simp only [if_true] at h
    split at h
    · rename_i hw
      simp only [Option.some.injEq] at h; subst h
      exact .rlock ip hpc hw
    · simp at h
  · rename_i b ip hpc
    simp only [Option.some.injEq, if_true] at h; subst h
    exact .runlock b ip hpc
  · rename_i k ip hne1 hne2 hpc
    simp only [Option.some.injEq] at h; subst h
    refine .rstep k ip hpc ?_
    cases k with
    | rlock => exact absurd rfl hne1
    | runlock b => exact absurd rfl (hne2 b)
    | _ => rfl

/-! ### the lock invariant -/

/-- inside a writer critical section (between `Lock` and `Unlock`) -/
def Pc.inW : Pc → Bool
  | .w _ _ _ => true
  | _ => false

/-- inside the read section (between `RLock` and `RUnlock`) -/
def Pc.inR : Pc → Bool
  | .r .rlock _ => false
  | .r _ _ => true
  | _ => false

structure LockInv (c : Cfg) : Prop where
  writer : ∀ t, (c.th t).pc.inW = true ↔ c.writer = some t
  readers : ∀ t, (c.th t).pc.inR = true ↔ t ∈ c.readers
  excl : c.writer ≠ none → c.readers = []
  nodup : c.readers.Nodup

theorem lockInv_init (progs : Tid → List Call) : LockInv (initCfg progs) := by
  constructor <;> simp [initCfg, Pc.inW, Pc.inR]

theorem inR_of_scanning (k : RPc) (ip : Addr) (h : k.scanning = true) : (Pc.r k ip).inR = true := by
  cases k <;> simp_all [RPc.scanning, Pc.inR]

theorem inR_rstep (s : St) (k : RPc) (ip : Addr) (h : k.scanning = true) :
    (Pc.r (rstep s ip k) ip).inR = true := by
  have hne : rstep s ip k ≠ .rlock := by
    cases k <;> simp only [rstep] <;> (repeat' split) <;> simp
  cases hk : rstep s ip k <;> simp_all [Pc.inR]

theorem lockInv_step (ls : Nat) (c c' : Cfg) (t : Tid) (hinv : LockInv c)
    (h : step ls true c t = some c') : LockInv c' := by
  obtain ⟨hw, hr, he, hn⟩ := hinv
  have hwt := hw t
  have hrt := hr t
  cases step_cases ls c c' t h with
  | store call ip rest b hpc hrest hcall =>
    refine ⟨fun u => ?_, fun u => ?_, he, hn⟩
    · by_cases hu : u = t
      · subst hu; simpa using hw u
      · simpa [hu] using hw u
    · by_cases hu : u = t
      · subst hu; simpa using hr u
      · simpa [hu] using hr u
  | lock call ip ones rest k hpc hrest hcall hones hfree =>
    refine ⟨fun u => ?_, fun u => ?_, fun _ => hfree.2, hn⟩
    · by_cases hu : u = t
      · subst hu; simp [Pc.inW]
      · have := hw u
        simp only [setTh_ne _ _ _ _ hu, hfree.1] at this ⊢
        simp [this]; exact fun h => hu h.symm
    · by_cases hu : u = t
      · subst hu; simp [Pc.inR, hfree.2]
      · simpa [hu] using hr u
  | wstep k key ones hpc hk =>
    refine ⟨fun u => ?_, fun u => ?_, he, hn⟩
    · by_cases hu : u = t
      · subst hu; simpa [Pc.inW, hpc] using hw u
      · simpa [hu] using hw u
    · by_cases hu : u = t
      · subst hu; simpa [Pc.inR, hpc] using hr u
      · simpa [hu] using hr u
  | unlock key ones hpc =>
    have hwr : c.writer = some t := hwt.1 (by simp [hpc, Pc.inW])
    refine ⟨fun u => ?_, fun u => ?_, fun h => absurd rfl h, hn⟩
    · by_cases hu : u = t
      · subst hu; simp [Pc.inW]
      · have := hw u
        simp only [setTh_ne _ _ _ _ hu, hwr] at this ⊢
        simp [this]; exact fun h => hu h.symm
    · by_cases hu : u = t
      · subst hu; have := hr u; simp [hpc, Pc.inR] at this; simp [Pc.inR, this]
      · simpa [hu] using hr u
  | loadT ip rest hpc hrest hm =>
    refine ⟨fun u => ?_, fun u => ?_, he, hn⟩
    · by_cases hu : u = t
      · subst hu; simpa using hw u
      · simpa [hu] using hw u
    · by_cases hu : u = t
      · subst hu; simpa using hr u
      · simpa [hu] using hr u
  | loadF ip rest hpc hrest hm =>
    refine ⟨fun u => ?_, fun u => ?_, he, hn⟩
    · by_cases hu : u = t
      · subst hu; simpa [hpc, Pc.inW] using hw u
      · simpa [hu] using hw u
    · by_cases hu : u = t
      · subst hu; simpa [hpc, Pc.inR] using hr u
      · simpa [hu] using hr u
  | rlock ip hpc hwn =>
    have hnt : t ∉ c.readers := by rw [← hr t]; simp [hpc, Pc.inR]
    refine ⟨fun u => ?_, fun u => ?_, fun h => absurd hwn h, List.nodup_cons.2 ⟨hnt, hn⟩⟩
    · by_cases hu : u = t
      · subst hu; simpa [hpc, Pc.inW] using hw u
      · simpa [hu] using hw u
    · by_cases hu : u = t
      · subst hu; simp [Pc.inR]
      · simpa [hu] using hr u
  | rstep k ip hpc hk =>
    refine ⟨fun u => ?_, fun u => ?_, he, hn⟩
    · by_cases hu : u = t
      · subst hu; simpa [hpc, Pc.inW] using hw u
      · simpa [hu] using hw u
    · by_cases hu : u = t
      · subst hu
        have := hr u
        rw [hpc, inR_of_scanning k ip hk] at this
        simpa [inR_rstep c.st k ip hk] using this
      · simpa [hu] using hr u
  | runlock b ip hpc =>
    have hmem : t ∈ c.readers := by rw [← hr t]; simp [hpc, Pc.inR]
    have hwn : c.writer = none := by
      cases hc : c.writer with
      | none => rfl
      | some w => have := he (by simp [hc]); simp [this] at hmem
    refine ⟨fun u => ?_, fun u => ?_, fun h => absurd hwn h, hn.erase t⟩
    · by_cases hu : u = t
      · subst hu; simp [Pc.inW, hwn]
      · simpa [hu] using hw u
    · by_cases hu : u = t
      · subst hu; simp [Pc.inR, hn.mem_erase_iff]
      · simpa [hu, hn.mem_erase_iff] using hr u

theorem lockInv_reachable (ls : Nat) (progs : Tid → List Call) (c : Cfg)
    (h : Reachable ls progs c) : LockInv c := by
  induction h with
  | init => exact lockInv_init progs
  | step t _ hs ih => exact lockInv_step ls _ _ t ih hs

/-! ### who may change the guarded fields -/

theorem guardedEq_wstep_other (ls : Nat) (c c' : Cfg) (t : Tid) (hinv : LockInv c)
    (h : step ls true c t = some c') : GuardedEq c.st c'.st ∨ (c.writer = some t ∧ c.readers = []) := by
  cases step_cases ls c c' t h with
  | wstep k key ones hpc hk =>
    right
    have hw : c.writer = some t := (hinv.writer t).1 (by simp [hpc, Pc.inW])
    exact ⟨hw, hinv.excl (by simp [hw])⟩
  | _ => left; exact ⟨rfl, rfl, rfl⟩

/-! ### abstraction lemmas -/

theorem absSt_none (ls : Nat) (c : Cfg) (h : c.writer = none) : absSt ls c = c.st := by
  simp [absSt, h]

theorem absSt_some (ls : Nat) (c : Cfg) (w : Tid) (k : WPc) (key : Addr) (ones : Nat)
    (h : c.writer = some w) (hpc : (c.th w).pc = .w k key ones) :
    absSt ls c = finishW ls c.st key ones k := by
  simp [absSt, h, hpc]

theorem absSt_matchAll (ls : Nat) (c : Cfg) : (absSt ls c).matchAll = c.st.matchAll := by
  unfold absSt
  split
  · rfl
  · split
    · exact finishW_matchAll_eq ..
    · rfl

theorem absSt_congr (ls : Nat) (c c' : Cfg) (hst : c'.st = c.st) (hw : c'.writer = c.writer)
    (hpc : ∀ w, c.writer = some w → (c'.th w).pc = (c.th w).pc) : absSt ls c' = absSt ls c := by
  unfold absSt
  rw [hw, hst]
  cases hc : c.writer with
  | none => rfl
  | some w => simp only [hpc w hc]

/-- an atomic store to `matchAll` by a thread outside the lock commutes with the abstraction -/
theorem absSt_store (ls : Nat) (c c' : Cfg) (b : Bool) (hst : c'.st = { c.st with matchAll := b })
    (hw : c'.writer = c.writer) (hpc : ∀ w, c.writer = some w → (c'.th w).pc = (c.th w).pc) :
    absSt ls c' = { absSt ls c with matchAll := b } := by
  unfold absSt
  rw [hw, hst]
  cases hc : c.writer with
  | none => rfl
  | some w =>
    simp only [hpc w hc]
    split
    · exact finishW_matchAll ..
    · rfl

theorem absTh_congr (c c' : Cfg) (u : Tid) (hth : c'.th u = c.th u)
    (hg : GuardedEq c.st c'.st ∨ (c.th u).pc.inR = false) : absTh c' u = absTh c u := by
  unfold absTh
  simp only [hth]
  cases hpc : (c.th u).pc with
  | idle => rfl
  | w k key ones => rfl
  | r k ip =>
    cases k with
    | rlock => rfl
    | _ =>
      rcases hg with hg | hg
      · simp only [finishR_guarded _ _ hg]
      · simp [hpc, Pc.inR] at hg

theorem absTh_congr' (c c' : Cfg) (u : Tid) (hth : c'.th u = c.th u)
    (hg : GuardedEq c.st c'.st ∨ (c.th u).pc.inR = false) : absTh c u = absTh c' u :=
  (absTh_congr c c' u hth hg).symm

theorem absTh_idle (c : Cfg) (u : Tid) (hpc : (c.th u).pc = .idle) :
    absTh c u = ⟨(c.th u).rest, none, (c.th u).results⟩ := by
  simp [absTh, hpc]

theorem absTh_w (c : Cfg) (u : Tid) (k : WPc) (key : Addr) (ones : Nat)
    (hpc : (c.th u).pc = .w k key ones) :
    absTh c u = ⟨(c.th u).rest.tail, none, (c.th u).results⟩ := by
  simp [absTh, hpc]

theorem absTh_rlock (c : Cfg) (u : Tid) (ip : Addr) (hpc : (c.th u).pc = .r .rlock ip) :
    absTh c u = ⟨(c.th u).rest, some ip, (c.th u).results⟩ := by
  simp [absTh, hpc]

theorem absTh_r (c : Cfg) (u : Tid) (k : RPc) (ip : Addr) (hpc : (c.th u).pc = .r k ip)
    (hk : k ≠ .rlock) :
    absTh c u = ⟨(c.th u).rest.tail, none, (c.th u).results ++ [finishR c.st ip k]⟩ := by
  cases k <;> simp_all [absTh]

theorem rstep_ne_rlock (s : St) (ip : Addr) (k : RPc) : rstep s ip k ≠ .rlock := by
  cases k <;> simp only [rstep] <;> (repeat' split) <;> simp

/-! ### the simulation: every fine step is a stutter or exactly one coarse step -/

@[simp] theorem setCTh_self (th : Tid → CThread) (t : Tid) (x : CThread) : setCTh th t x t = x := by
  simp [setCTh]

@[simp] theorem setCTh_ne (th : Tid → CThread) (t u : Tid) (x : CThread) (h : u ≠ t) :
    setCTh th t x u = th u := by simp [setCTh, h]

theorem writer_ne_of_not_inW (c : Cfg) (hinv : LockInv c) (t : Tid) (hpc : (c.th t).pc.inW = false) :
    ∀ w, c.writer = some w → w ≠ t := by
  intro w hw hwt; subst hwt
  have := (hinv.writer w).2 hw
  simp [hpc] at this

theorem sim_step (ls : Nat) (c c' : Cfg) (t : Tid) (hinv : LockInv c)
    (h : step ls true c t = some c') (a : CCfg) (hs : Sim ls c a) :
    ∃ a', (a' = a ∨ cstepT ls a t = some a') ∧ Sim ls c' a' := by
  obtain ⟨hst, hth⟩ := hs
  have htt := hth t
  cases step_cases ls c c' t h with
  | store call ip rest b hpc hrest hcall =>
    rw [absTh_idle c t hpc, hrest] at htt
    have hwne := writer_ne_of_not_inW c hinv t (by simp [hpc, Pc.inW])
    rcases hcall with ⟨rfl, rfl⟩ | ⟨rfl, rfl⟩ <;>
    · refine ⟨_, Or.inr (by simp only [cstepT, htt]; rfl), ?_, fun u => ?_⟩
      · refine Eq.trans ?_ (Eq.symm (absSt_store ls c _ _ rfl rfl (fun w hw => by simp [hwne w hw])))
        simp only [cstep, hst, if_true]
      · by_cases hu : u = t
        · subst hu; simp [absTh, hpc]
        · simp only [setCTh_ne _ _ _ _ hu, hth u]
          exact absTh_congr' c _ u (by simp [hu]) (Or.inl ⟨rfl, rfl, rfl⟩)
  | lock call ip ones rest k hpc hrest hcall hones hfree =>
    rw [absTh_idle c t hpc, hrest] at htt
    rw [absSt_none ls c hfree.1] at hst
    rcases hcall with ⟨rfl, rfl⟩ | ⟨rfl, rfl⟩ <;>
    · refine ⟨_, Or.inr (by simp only [cstepT, htt]; rfl), ?_, fun u => ?_⟩
      · simp only [absSt, setTh_self, finishW_aMode, finishW_rMode, cstep, hst, hones, if_false]
      · by_cases hu : u = t
        · subst hu; simp [absTh, hrest]
        · simp only [setCTh_ne _ _ _ _ hu, hth u]
          exact absTh_congr' c _ u (by simp [hu]) (Or.inl ⟨rfl, rfl, rfl⟩)
  | wstep k key ones hpc hk =>
    have hw : c.writer = some t := (hinv.writer t).1 (by simp [hpc, Pc.inW])
    have hre : c.readers = [] := hinv.excl (by simp [hw])
    refine ⟨a, Or.inl rfl, ?_, fun u => ?_⟩
    · rw [hst, absSt_some ls c t k key ones hw hpc]
      simp only [absSt, hw, setTh_self, finishW_wstep]
    · rw [hth u]
      by_cases hu : u = t
      · subst hu; rw [absTh_w c u k key ones hpc]; simp [absTh]
      · refine absTh_congr' c _ u (by simp [hu]) (Or.inr ?_)
        have := hinv.readers u
        simp [hre] at this
        simpa using this
  | unlock key ones hpc =>
    have hw : c.writer = some t := (hinv.writer t).1 (by simp [hpc, Pc.inW])
    refine ⟨a, Or.inl rfl, ?_, fun u => ?_⟩
    · rw [hst, absSt_some ls c t .unlock key ones hw hpc, absSt_none ls _ rfl]; rfl
    · rw [hth u]
      by_cases hu : u = t
      · subst hu; rw [absTh_w c u _ key ones hpc, absTh_idle _ u (by simp)]; simp
      · exact absTh_congr' c _ u (by simp [hu]) (Or.inl ⟨rfl, rfl, rfl⟩)
  | loadT ip rest hpc hrest hm =>
    rw [absTh_idle c t hpc, hrest] at htt
    have hwne := writer_ne_of_not_inW c hinv t (by simp [hpc, Pc.inW])
    have hma : a.st.matchAll = true := by rw [hst, absSt_matchAll, hm]
    refine ⟨_, Or.inr (by simp only [cstepT, htt, hma, if_true]; rfl), ?_, fun u => ?_⟩
    · rw [hst]; exact Eq.symm (absSt_congr ls c _ rfl rfl (fun w hw => by simp [hwne w hw]))
    · by_cases hu : u = t
      · subst hu; simp [absTh, hpc]
      · simp only [setCTh_ne _ _ _ _ hu, hth u]
        exact absTh_congr' c _ u (by simp [hu]) (Or.inl ⟨rfl, rfl, rfl⟩)
  | loadF ip rest hpc hrest hm =>
    rw [absTh_idle c t hpc, hrest] at htt
    have hwne := writer_ne_of_not_inW c hinv t (by simp [hpc, Pc.inW])
    have hma : a.st.matchAll = false := by rw [hst, absSt_matchAll, hm]
    refine ⟨_, Or.inr (by simp only [cstepT, htt, hma]; rfl), ?_, fun u => ?_⟩
    · rw [hst]; exact Eq.symm (absSt_congr ls c _ rfl rfl (fun w hw => by simp [hwne w hw]))
    · by_cases hu : u = t
      · subst hu; simp [absTh, hrest]
      · simp only [setCTh_ne _ _ _ _ hu, hth u]
        exact absTh_congr' c _ u (by simp [hu]) (Or.inl ⟨rfl, rfl, rfl⟩)
  | rlock ip hpc hwn =>
    rw [absTh_rlock c t ip hpc] at htt
    rw [absSt_none ls c hwn] at hst
    refine ⟨_, Or.inr (by simp only [cstepT, htt]; rfl), ?_, fun u => ?_⟩
    · rw [hst]; exact Eq.symm (absSt_none ls _ (by exact hwn))
    · by_cases hu : u = t
      · subst hu; simp [absTh, finishR, hst]
      · simp only [setCTh_ne _ _ _ _ hu, hth u]
        exact absTh_congr' c _ u (by simp [hu]) (Or.inl ⟨rfl, rfl, rfl⟩)
  | rstep k ip hpc hk =>
    have hwne := writer_ne_of_not_inW c hinv t (by simp [hpc, Pc.inW])
    refine ⟨a, Or.inl rfl, ?_, fun u => ?_⟩
    · rw [hst]; exact Eq.symm (absSt_congr ls c _ rfl rfl (fun w hw => by simp [hwne w hw]))
    · rw [hth u]
      by_cases hu : u = t
      · subst hu
        have hk' : k ≠ .rlock := by intro h; subst h; simp [RPc.scanning] at hk
        rw [absTh_r c u k ip hpc hk', absTh_r _ u _ ip (by simp) (rstep_ne_rlock c.st ip k)]
        simp [finishR_rstep]
      · exact absTh_congr' c _ u (by simp [hu]) (Or.inl ⟨rfl, rfl, rfl⟩)
  | runlock b ip hpc =>
    have hwne := writer_ne_of_not_inW c hinv t (by simp [hpc, Pc.inW])
    refine ⟨a, Or.inl rfl, ?_, fun u => ?_⟩
    · rw [hst]; exact Eq.symm (absSt_congr ls c _ rfl rfl (fun w hw => by simp [hwne w hw]))
    · rw [hth u]
      by_cases hu : u = t
      · subst hu
        rw [absTh_r c u _ ip hpc (by simp), absTh_idle _ u (by simp)]
        simp [finishR]
      · exact absTh_congr' c _ u (by simp [hu]) (Or.inl ⟨rfl, rfl, rfl⟩)

theorem sim_init (ls : Nat) (progs : Tid → List Call) : Sim ls (initCfg progs) (initCCfg progs) := by
  refine ⟨rfl, fun u => rfl⟩

/-- every reachable fine configuration is the image of a reachable coarse configuration -/
theorem sim_reachable (ls : Nat) (progs : Tid → List Call) (c : Cfg) (h : Reachable ls progs c) :
    ∃ a, CReachable ls progs a ∧ Sim ls c a := by
  induction h with
  | init => exact ⟨_, .init, sim_init ls progs⟩
  | step t hr hs ih =>
    obtain ⟨a, ha, hsim⟩ := ih
    obtain ⟨a', ha', hsim'⟩ := sim_step ls _ _ t (lockInv_reachable ls progs _ hr) hs a hsim
    rcases ha' with rfl | ha'
    · exact ⟨_, ha, hsim'⟩
    · exact ⟨a', .step t ha ha', hsim'⟩

/-! ### invariants of the coarse model: it is the model of Glb.Props.C12 -/

def Call.valid : Call → Prop
  | .add _ n => n ≤ 32
  | .remove _ n => n ≤ 32
  | .contains _ => True

def projOps (h : Hist) (t : Tid) : List COp := (h.filter (fun e => e.1 = t)).map (·.2)

structure CInv (ls : Nat) (progs : Tid → List Call) (a : CCfg) : Prop where
  state : a.st = crun ls a.hist.ops
  len : ∀ op ∈ a.hist.ops, op.len ≤ 32
  restValid : ∀ t, ∀ c ∈ (a.th t).rest, c.valid
  proj : ∀ t, projOps a.hist t ++ writeOps (a.th t).rest = writeOps (progs t)
  pendHead : ∀ t ip, (a.th t).loaded = some ip → ∃ rest, (a.th t).rest = .contains ip :: rest
  pend : ∀ t ip, (a.th t).loaded = some ip →
    a.pre t <+: a.hist ∧ (crun ls (a.pre t).ops).matchAll = false
  log : ∀ r ∈ a.log, r.pre <+: r.whole ∧ r.whole <+: a.hist ∧
    r.result = C12.containsConc (crun ls r.pre.ops) (crun ls r.whole.ops) r.ip
  results : ∀ t, (a.log.filter (fun r => r.tid = t)).map (·.result) = (a.th t).results

theorem ops_append (h : Hist) (x : Tid × COp) : Hist.ops (h ++ [x]) = h.ops ++ [x.2] := by
  simp [Hist.ops]

theorem crun_snoc (ls : Nat) (ops : List COp) (op : COp) :
    crun ls (ops ++ [op]) = cstep ls (crun ls ops) op := by
  simp [crun, List.foldl_append]

theorem projOps_snoc (h : Hist) (u t : Tid) (op : COp) :
    projOps (h ++ [(u, op)]) t = projOps h t ++ (if u = t then [op] else []) := by
  unfold projOps
  by_cases hu : u = t <;> simp [List.filter_append, hu]

theorem cinv_init (ls : Nat) (progs : Tid → List Call) (hv : Validated progs) :
    CInv ls progs (initCCfg progs) := by
  refine ⟨rfl, by simp [initCCfg, Hist.ops], ?_, by simp [initCCfg, projOps], by simp [initCCfg],
    by simp [initCCfg], by simp [initCCfg], by simp [initCCfg]⟩
  intro t c hc
  have := hv t c hc
  cases c <;> first | exact this | trivial

theorem cinv_write (ls : Nat) (progs : Tid → List Call) (a : CCfg) (t : Tid) (call : Call)
    (op : COp) (rest : List Call) (hi : CInv ls progs a)
    (hop : call.op? = some op) (hlen : call.valid → op.len ≤ 32)
    (hl : (a.th t).loaded = none) (hr : (a.th t).rest = call :: rest) :
    CInv ls progs { a with st := cstep ls a.st op, hist := a.hist ++ [(t, op)],
                           th := setCTh a.th t { a.th t with rest := rest } } := by
  obtain ⟨h1, h2, h3, h4, h5, h6, h7, h8⟩ := hi
  refine ⟨?_, ?_, ?_, ?_, ?_, ?_, ?_, ?_⟩
  · simp only [ops_append, crun_snoc, h1]
  · intro o ho
    simp only [ops_append, List.mem_append, List.mem_singleton] at ho
    rcases ho with ho | rfl
    · exact h2 o ho
    · exact hlen (h3 t call (by simp [hr]))
  · intro u c hc
    by_cases hu : u = t
    · subst hu; simp at hc; exact h3 u c (by simp [hr, hc])
    · simp [hu] at hc; exact h3 u c hc
  · intro u
    have := h4 u
    simp only [projOps_snoc]
    by_cases hu : u = t
    · subst hu
      simp only [setCTh_self, if_true]
      rw [hr] at this
      simp only [writeOps, List.filterMap_cons, hop] at this
      simpa [writeOps] using this
    · have hu' : ¬ t = u := fun h => hu h.symm
      simpa [hu, hu'] using this
  · intro u ip hlo
    by_cases hu : u = t
    · subst hu; simp [hl] at hlo
    · simp only [setCTh_ne _ _ _ _ hu] at hlo ⊢; exact h5 u ip hlo
  · intro u ip hlo
    by_cases hu : u = t
    · subst hu; simp [hl] at hlo
    · simp only [setCTh_ne _ _ _ _ hu] at hlo
      obtain ⟨p1, p2⟩ := h6 u ip hlo
      exact ⟨p1.trans (List.prefix_append _ _), p2⟩
  · intro r hr'
    obtain ⟨p1, p2, p3⟩ := h7 r hr'
    exact ⟨p1, p2.trans (List.prefix_append _ _), p3⟩
  · intro u
    by_cases hu : u = t
    · subst hu; simpa using h8 u
    · simpa [hu] using h8 u

theorem cinv_step (ls : Nat) (progs : Tid → List Call) (a a' : CCfg) (t : Tid)
    (hi : CInv ls progs a) (h : cstepT ls a t = some a') : CInv ls progs a' := by
  unfold cstepT at h
  simp only at h
  split at h
  · -- the scan step of a pending lookup
    rename_i ip hlo
    simp only [Option.some.injEq] at h; subst h
    obtain ⟨h1, h2, h3, h4, h5, h6, h7, h8⟩ := hi
    obtain ⟨rest, hrest⟩ := h5 t ip hlo
    obtain ⟨hp1, hp2⟩ := h6 t ip hlo
    refine ⟨h1, h2, ?_, ?_, ?_, ?_, ?_, ?_⟩
    · intro u c hc
      by_cases hu : u = t
      · subst hu; simp [hrest] at hc; exact h3 u c (by simp [hrest, hc])
      · simp [hu] at hc; exact h3 u c hc
    · intro u
      have := h4 u
      by_cases hu : u = t
      · subst hu
        rw [hrest] at this
        simpa [writeOps, List.filterMap_cons, Call.op?, hrest] using this
      · simpa [hu] using this
    · intro u ip' hlo'
      by_cases hu : u = t
      · subst hu; simp at hlo'
      · simp only [setCTh_ne _ _ _ _ hu] at hlo' ⊢; exact h5 u ip' hlo'
    · intro u ip' hlo'
      by_cases hu : u = t
      · subst hu; simp at hlo'
      · simp only [setCTh_ne _ _ _ _ hu] at hlo'; exact h6 u ip' hlo'
    · intro r hr
      simp only [List.mem_append, List.mem_singleton] at hr
      rcases hr with hr | rfl
      · exact h7 r hr
      · refine ⟨hp1, List.prefix_refl _, ?_⟩
        simp only [C12.containsConc, hp2, Bool.false_or, ← h1]
    · intro u
      by_cases hu : u = t
      · subst hu; simp [List.filter_append, h8 u]
      · have hu' : ¬ t = u := fun h => hu h.symm
        simp [List.filter_append, hu, hu', h8 u]
  · rename_i hlo
    split at h
    · simp at h
    · rename_i ip n rest hrest
      simp only [Option.some.injEq] at h; subst h
      exact cinv_write ls progs a t _ (.add ip n) rest hi rfl (fun hv => by simpa [Call.valid, COp.len] using hv) hlo hrest
    · rename_i ip n rest hrest
      simp only [Option.some.injEq] at h; subst h
      exact cinv_write ls progs a t _ (.remove ip n) rest hi rfl (fun hv => by simpa [Call.valid, COp.len] using hv) hlo hrest
    · rename_i ip rest hrest
      obtain ⟨h1, h2, h3, h4, h5, h6, h7, h8⟩ := hi
      split at h
      · rename_i hm
        simp only [Option.some.injEq] at h; subst h
        refine ⟨h1, h2, ?_, ?_, ?_, ?_, ?_, ?_⟩
        · intro u c hc
          by_cases hu : u = t
          · subst hu; simp at hc; exact h3 u c (by simp [hrest, hc])
          · simp [hu] at hc; exact h3 u c hc
        · intro u
          have := h4 u
          by_cases hu : u = t
          · subst hu
            rw [hrest] at this
            simpa [writeOps, List.filterMap_cons, Call.op?] using this
          · simpa [hu] using this
        · intro u ip' hlo'
          by_cases hu : u = t
          · subst hu; simp [hlo] at hlo'
          · simp only [setCTh_ne _ _ _ _ hu] at hlo' ⊢; exact h5 u ip' hlo'
        · intro u ip' hlo'
          by_cases hu : u = t
          · subst hu; simp [hlo] at hlo'
          · simp only [setCTh_ne _ _ _ _ hu] at hlo'; exact h6 u ip' hlo'
        · intro r hr
          simp only [List.mem_append, List.mem_singleton] at hr
          rcases hr with hr | rfl
          · exact h7 r hr
          · refine ⟨List.prefix_refl _, List.prefix_refl _, ?_⟩
            simp only [C12.containsConc, ← h1, hm, Bool.true_or]
        · intro u
          by_cases hu : u = t
          · subst hu; simp [List.filter_append, h8 u]
          · have hu' : ¬ t = u := fun h => hu h.symm
            simp [List.filter_append, hu, hu', h8 u]
      · rename_i hm
        simp only [Option.some.injEq] at h; subst h
        refine ⟨h1, h2, ?_, ?_, ?_, ?_, h7, ?_⟩
        · intro u c hc
          by_cases hu : u = t
          · subst hu; simp at hc; exact h3 u c hc
          · simp [hu] at hc; exact h3 u c hc
        · intro u
          have := h4 u
          by_cases hu : u = t
          · subst hu; simpa using this
          · simpa [hu] using this
        · intro u ip' hlo'
          by_cases hu : u = t
          · subst hu; simp at hlo'; subst hlo'; exact ⟨rest, by simp [hrest]⟩
          · simp only [setCTh_ne _ _ _ _ hu] at hlo' ⊢; exact h5 u ip' hlo'
        · intro u ip' hlo'
          by_cases hu : u = t
          · subst hu
            refine ⟨by simp [setPre], ?_⟩
            simp only [setPre, if_true, ← h1]; simpa using hm
          · simp only [setCTh_ne _ _ _ _ hu] at hlo'
            simpa [setPre, hu] using h6 u ip' hlo'
        · intro u
          by_cases hu : u = t
          · subst hu; simpa using h8 u
          · simpa [hu] using h8 u

theorem cinv_reachable (ls : Nat) (progs : Tid → List Call) (hv : Validated progs) (a : CCfg)
    (h : CReachable ls progs a) : CInv ls progs a := by
  induction h with
  | init => exact cinv_init ls progs hv
  | step t _ hs ih => exact cinv_step ls progs _ _ t ih hs

/-! ### helpers for the corollaries -/

theorem projOps_eq_filter_owner (keyOwner : Addr × Nat → Tid) (h : Hist)
    (hown : ∀ e ∈ h, keyOwner (C12.opKey e.2) = e.1) (w : Tid) :
    h.ops.filter (fun o => keyOwner (C12.opKey o) = w) = projOps h w := by
  induction h with
  | nil => rfl
  | cons e h ih =>
    have he := hown e (by simp)
    have ih' := ih (fun e' he' => hown e' (by simp [he']))
    simp only [Hist.ops, projOps, List.map_cons, List.filter_cons] at ih' ⊢
    rw [he]
    by_cases hw : e.1 = w <;> simp [hw, ih']

theorem mem_projOps (h : Hist) (e : Tid × COp) (he : e ∈ h) : e.2 ∈ projOps h e.1 := by
  unfold projOps
  exact List.mem_map.2 ⟨e, List.mem_filter.2 ⟨he, by simp⟩, rfl⟩

theorem runSched_reachableNoRLock (ls : Nat) (progs : Tid → List Call) (sched : List Tid) :
    ∀ c c', ReachableNoRLock ls progs c → runSched ls false c sched = some c' →
      ReachableNoRLock ls progs c' := by
  induction sched with
  | nil => intro c c' hr h; simp [runSched] at h; subst h; exact hr
  | cons t ts ih =>
    intro c c' hr h
    simp only [runSched] at h
    split at h
    · rename_i c1 hs; exact ih c1 c' (.step t hr hs) h
    · simp at h

theorem runSched_reachable (ls : Nat) (progs : Tid → List Call) (sched : List Tid) :
    ∀ c c', Reachable ls progs c → runSched ls true c sched = some c' → Reachable ls progs c' := by
  induction sched with
  | nil => intro c c' hr h; simp [runSched] at h; subst h; exact hr
  | cons t ts ih =>
    intro c c' hr h
    simp only [runSched] at h
    split at h
    · rename_i c1 hs; exact ih c1 c' (.step t hr hs) h
    · simp at h

/-- a checked schedule gives a reachable configuration (for concrete witnesses) -/
theorem exists_reachable_of_check (ls : Nat) (progs : Tid → List Call) (sched : List Tid)
    (P : Cfg → Bool) (h : (runSched ls true (initCfg progs) sched).map P = some true) :
    ∃ c, Reachable ls progs c ∧ P c = true := by
  cases hc : runSched ls true (initCfg progs) sched with
  | none => simp [hc] at h
  | some c =>
    simp [hc] at h
    exact ⟨c, runSched_reachable ls progs sched _ c .init hc, h⟩

theorem exists_reachableNoRLock_of_check (ls : Nat) (progs : Tid → List Call) (sched : List Tid)
    (P : Cfg → Bool) (h : (runSched ls false (initCfg progs) sched).map P = some true) :
    ∃ c, ReachableNoRLock ls progs c ∧ P c = true := by
  cases hc : runSched ls false (initCfg progs) sched with
  | none => simp [hc] at h
  | some c =>
    simp [hc] at h
    exact ⟨c, runSched_reachableNoRLock ls progs sched _ c .init hc, h⟩

theorem runSched_append (ls : Nat) (rl : Bool) (s1 s2 : List Tid) (c : Cfg) :
    runSched ls rl c (s1 ++ s2) = (runSched ls rl c s1).bind fun c1 => runSched ls rl c1 s2 := by
  induction s1 generalizing c with
  | nil => rfl
  | cons t ts ih =>
    simp only [List.cons_append, runSched]
    cases step ls rl c t with
    | none => rfl
    | some c' => exact ih c'

theorem step_th_other (ls : Nat) (c c' : Cfg) (t u : Tid) (h : step ls true c t = some c')
    (hu : u ≠ t) : c'.th u = c.th u := by
  cases step_cases ls c c' t h <;> simp [hu]

/-- a thread with an empty program never moves -/
theorem idle_of_empty_prog (ls : Nat) (progs : Tid → List Call) (c : Cfg)
    (hr : Reachable ls progs c) (t : Tid) (hp : progs t = []) :
    (c.th t).pc = .idle ∧ (c.th t).rest = [] := by
  induction hr with
  | init => simp [initCfg, hp]
  | step u _ hs ih =>
    by_cases hu : t = u
    · subst hu
      simp [step, ih.1, ih.2] at hs
    · rw [step_th_other ls _ _ u t hs hu]; exact ih

end Glb.FilterConc
