/-
  Helper lemmas for C04, part 3: keys, tags, and the trie invariant `TInv`.

  `TInv S P t`: the trie `t` is exactly what the successfully registered routes `S` (with their
  ids) and the key paths `P` walked by refused registrations have built:
    * a node exists at key path `ks` iff `ks = []`, or `ks` is a prefix of the full key path
      (pattern keys ++ [method tag]) of a route in `S`, or a prefix of a path in `P`;
    * the payload (`info`, `paramNameList`) of a node is that of the route whose full key path
      leads to it, and empty for every other node.
-/
import Glb.Proofs.RouterParse
import Glb.Tie.Httpd

namespace Glb.Router
open Glb.RouteList (Elem Route PName pattern fragments classify cutStar pnames paramNames)
open Glb.Generated (routeParam routeParamAny methodTagMap)

/-! ### association lists -/

theorem assocGet_mem {α} {l : List (Bytes × α)} {k : Bytes} {v : α} (h : assocGet l k = some v) : (k, v) ∈ l := by
  induction l with
  | nil => simp [assocGet] at h
  | cons e r ih =>
    obtain ⟨k0, v0⟩ := e
    by_cases h0 : k0 = k
    · simp [assocGet, h0] at h; simp [h0, h]
    · simp [assocGet, h0] at h; exact List.mem_cons_of_mem _ (ih h)

theorem assocGet_isSome_iff {α} (l : List (Bytes × α)) (k : Bytes) : (assocGet l k).isSome ↔ k ∈ l.map (·.1) := by
  induction l with
  | nil => simp [assocGet]
  | cons e r ih =>
    obtain ⟨k0, v0⟩ := e
    by_cases h0 : k0 = k
    · simp [assocGet, h0]
    · have : ¬ k = k0 := fun h => h0 h.symm
      simp [assocGet, h0, ih, this]

theorem assocGet_inj {α} {l : List (Bytes × α)} (hnd : (l.map (·.2)).Nodup) {k k' : Bytes} {v : α}
    (h : assocGet l k = some v) (h' : assocGet l k' = some v) : k = k' := by
  induction l with
  | nil => simp [assocGet] at h
  | cons e r ih =>
    obtain ⟨k0, v0⟩ := e
    simp only [List.map_cons, List.nodup_cons] at hnd
    by_cases h0 : k0 = k <;> by_cases h1 : k0 = k'
    · rw [← h0, ← h1]
    · simp [assocGet, h0] at h
      simp [assocGet, h1] at h'
      subst h
      exact absurd (List.mem_map.mpr ⟨_, assocGet_mem h', rfl⟩) hnd.1
    · simp [assocGet, h0] at h
      simp [assocGet, h1] at h'
      subst h'
      exact absurd (List.mem_map.mpr ⟨_, assocGet_mem h, rfl⟩) hnd.1
    · simp [assocGet, h0] at h
      simp [assocGet, h1] at h'
      exact ih hnd.2 h h'

/-! ### keys -/

def elemKey : Elem → Bytes
  | .lit s => s
  | .param _ => routeParam
  | .star => routeParamAny

def keysOf (es : List Elem) : List Bytes := es.map elemKey

def nameKey : PName → Bytes
  | .named n => n
  | .star => routeParamAny

/-- `paramNameList` of a route -/
def namesOf (es : List Elem) : List Bytes := (pnames es).map nameKey

/-- the keys a path fragment can produce -/
def PathKey (k : Bytes) : Prop := k = routeParam ∨ k = routeParamAny ∨ (k ≠ [] ∧ (47 : UInt8) ∉ k)

theorem head_mem {k : Bytes} {b : UInt8} (h : k.head? = some b) : b ∈ k := by
  cases k with
  | nil => simp at h
  | cons c r => simp at h; simp [h]

theorem tag_head {m k : Bytes} (h : methodTag? m = some k) : k.head? = some 47 :=
  Tie.Httpd.tags_slash _ (assocGet_mem h)

theorem tag_not_pathKey {m k : Bytes} (h : methodTag? m = some k) : ¬ PathKey k := by
  intro hp
  have hr := Tie.Httpd.tags_not_reserved _ (assocGet_mem h)
  rcases hp with hp | hp | ⟨_, hp⟩
  · exact hr.1 hp
  · exact hr.2 hp
  · exact hp (head_mem (tag_head h))

theorem nil_not_pathKey : ¬ PathKey [] := by
  intro hp
  have hr := Tie.Httpd.reserved_slash
  rcases hp with hp | hp | ⟨hp, _⟩
  · rw [← hp] at hr; simp at hr
  · rw [← hp] at hr; simp at hr
  · exact hp rfl

theorem pathKey_routeParam : PathKey routeParam := Or.inl rfl
theorem pathKey_routeParamAny : PathKey routeParamAny := Or.inr (Or.inl rfl)

/-- a slash-free key is not one of the two reserved keys -/
theorem slashfree_ne_reserved {k : Bytes} (h : (47 : UInt8) ∉ k) : k ≠ routeParam ∧ k ≠ routeParamAny := by
  have hr := Tie.Httpd.reserved_slash
  constructor
  · intro e; subst e; exact h (head_mem hr.1)
  · intro e; subst e; exact h (head_mem hr.2)

theorem slashfree_not_tag {m k : Bytes} (h : (47 : UInt8) ∉ k) : methodTag? m ≠ some k :=
  fun e => h (head_mem (tag_head e))

theorem tagOf_of_some {m k : Bytes} (h : methodTag? m = some k) : tagOf m = k := by simp [tagOf, h]
theorem tagOf_of_none {m : Bytes} (h : methodTag? m = none) : tagOf m = [] := by simp [tagOf, h]

/-- `tagOf m` is never a key a path fragment produces -/
theorem tagOf_not_pathKey (m : Bytes) : ¬ PathKey (tagOf m) := by
  cases h : methodTag? m with
  | none => rw [tagOf_of_none h]; exact nil_not_pathKey
  | some k => rw [tagOf_of_some h]; exact tag_not_pathKey h

theorem tagOf_inj {m m' : Bytes} (h : (methodTag? m).isSome) (e : tagOf m = tagOf m') : m = m' := by
  cases hm : methodTag? m with
  | none => simp [hm] at h
  | some k =>
    cases hm' : methodTag? m' with
    | none =>
      rw [tagOf_of_some hm, tagOf_of_none hm'] at e
      have := tag_head hm; rw [e] at this; simp at this
    | some k' =>
      rw [tagOf_of_some hm, tagOf_of_some hm'] at e
      subst e
      exact assocGet_inj Tie.Httpd.tags_nodup hm hm'

theorem methodTag_isSome_iff (m : Bytes) : (methodTag? m).isSome ↔ m ∈ RouteList.knownMethods := by
  unfold methodTag?
  rw [assocGet_isSome_iff]
  constructor
  · intro h
    obtain ⟨e, he, rfl⟩ := List.mem_map.mp h
    exact Tie.Httpd.methods_known.1 e he
  · exact Tie.Httpd.methods_known.2 m

/-! ### prefixes of full key paths -/

theorem prefix_snoc_of_ne {ks pk : List Bytes} {k tag : Bytes} (hne : k ≠ tag) :
    ks ++ [k] <+: pk ++ [tag] ↔ ks ++ [k] <+: pk := by
  constructor
  · intro h
    by_cases hl : (ks ++ [k]).length ≤ pk.length
    · exact List.prefix_of_prefix_length_le h (List.prefix_append pk [tag]) hl
    · have hlen : (ks ++ [k]).length = (pk ++ [tag]).length := by
        have := h.length_le
        simp at this hl ⊢; omega
      have := h.eq_of_length hlen
      have := List.append_inj' this rfl
      simp at this
      exact absurd this.2 hne
  · intro h; exact h.trans (List.prefix_append pk [tag])

theorem prefix_snoc_tag {ks pk : List Bytes} {k tag : Bytes} (hk : ¬ PathKey k) (hpk : ∀ x ∈ pk, PathKey x) :
    ks ++ [k] <+: pk ++ [tag] ↔ ks = pk ∧ k = tag := by
  constructor
  · intro h
    by_cases hl : (ks ++ [k]).length ≤ pk.length
    · have h2 := List.prefix_of_prefix_length_le h (List.prefix_append pk [tag]) hl
      exact absurd (hpk k (h2.subset (by simp))) hk
    · have hlen : (ks ++ [k]).length = (pk ++ [tag]).length := by
        have := h.length_le
        simp at this hl ⊢; omega
      have := h.eq_of_length hlen
      have := List.append_inj' this rfl
      simpa using this
  · rintro ⟨rfl, rfl⟩; exact List.prefix_refl _

/-! ### patterns -/

/-- literals of a pattern are non-empty and slash-free -/
def GoodElems (es : List Elem) : Prop := ∀ s, Elem.lit s ∈ es → s ≠ [] ∧ (47 : UInt8) ∉ s

theorem splitSlash_slashfree (p : Bytes) : ∀ f ∈ RouteList.splitSlash p, (47 : UInt8) ∉ f := by
  induction p with
  | nil => simp [RouteList.splitSlash]
  | cons b s ih =>
    unfold RouteList.splitSlash
    by_cases hb : b = 47
    · simp only [hb, if_true, List.mem_cons]
      intro f hf
      rcases hf with hf | hf
      · simp [hf]
      · exact ih f hf
    · simp only [hb, if_false]
      cases hs : RouteList.splitSlash s with
      | nil => simp; exact fun e => hb e.symm
      | cons h t =>
        rw [hs] at ih
        simp only [List.mem_cons]
        intro f hf
        rcases hf with hf | hf
        · have := ih h (by simp)
          rw [hf]
          simp only [List.mem_cons, not_or]
          exact ⟨fun e => hb e.symm, this⟩
        · exact ih f (by simp [hf])

theorem fragments_good (p : Bytes) : ∀ f ∈ fragments p, f ≠ [] ∧ (47 : UInt8) ∉ f := by
  intro f hf
  simp only [fragments, List.mem_filter, decide_eq_true_eq] at hf
  exact ⟨hf.2, splitSlash_slashfree p f hf.1⟩

theorem classify_lit {f s : Bytes} (h : classify f = .lit s) : s = f := by
  unfold classify at h
  split at h
  · cases h
  · split at h
    · cases h
    · cases h; rfl

theorem mem_cutStar {e : Elem} {es : List Elem} (h : e ∈ cutStar es) : e ∈ es := by
  induction es with
  | nil => simp [cutStar] at h
  | cons a r ih =>
    cases a with
    | star => simp [cutStar] at h; simp [h]
    | lit s => simp only [cutStar, List.mem_cons] at h ⊢; exact h.imp id ih
    | param n => simp only [cutStar, List.mem_cons] at h ⊢; exact h.imp id ih

theorem pattern_good (p : Bytes) : GoodElems (pattern p) := by
  intro s hs
  have h1 := mem_cutStar hs
  obtain ⟨f, hf, hc⟩ := List.mem_map.mp h1
  have := classify_lit hc
  rw [this]
  exact fragments_good p f hf

theorem keysOf_pathKey {es : List Elem} (h : GoodElems es) : ∀ k ∈ keysOf es, PathKey k := by
  intro k hk
  obtain ⟨e, he, rfl⟩ := List.mem_map.mp hk
  cases e with
  | lit s => exact Or.inr (Or.inr (h s he))
  | param n => exact pathKey_routeParam
  | star => exact pathKey_routeParamAny

/-- the validity check of the fragment loop, relative to the names seen so far -/
def validAcc : List Bytes → List Elem → Prop
  | _, [] => True
  | ns, .lit _ :: r => validAcc ns r
  | ns, .param n :: r => ¬ (n = [] ∨ n ∈ ns) ∧ validAcc (ns ++ [n]) r
  | ns, .star :: r => validAcc ns r

theorem validAcc_iff (es : List Elem) : ∀ ns, validAcc ns es ↔
    ([] ∉ paramNames es ∧ (paramNames es).Nodup ∧ ∀ n ∈ paramNames es, n ∉ ns) := by
  induction es with
  | nil => intro ns; simp [validAcc, paramNames]
  | cons e r ih =>
    intro ns
    cases e with
    | lit s => simp [validAcc, paramNames, ih]
    | star => simp [validAcc, paramNames, ih]
    | param n =>
      simp only [validAcc, paramNames, ih, List.mem_cons, List.nodup_cons, List.mem_append]
      grind

theorem validAcc_nil_iff (es : List Elem) : validAcc [] es ↔ RouteList.validPattern es := by
  rw [validAcc_iff]; simp [RouteList.validPattern]

theorem keysOf_cons (e : Elem) (es : List Elem) : keysOf (e :: es) = elemKey e :: keysOf es := rfl

theorem namesOf_lit (s : Bytes) (es : List Elem) : namesOf (.lit s :: es) = namesOf es := rfl
theorem namesOf_param (n : Bytes) (es : List Elem) : namesOf (.param n :: es) = n :: namesOf es := rfl
theorem namesOf_star (es : List Elem) : namesOf (.star :: es) = routeParamAny :: namesOf es := rfl

/-- case analysis of one non-empty fragment, as `classify` and the code see it -/
theorem classify_cases (f : Bytes) (hf : f ≠ []) :
    (f = [42] ∧ classify f = .star) ∨
    (∃ n, f = 58 :: n ∧ f ≠ [42] ∧ classify f = .param n) ∨
    (∃ c r, f = c :: r ∧ c ≠ 58 ∧ f ≠ [42] ∧ classify f = .lit f) := by
  by_cases h42 : f = [42]
  · exact Or.inl ⟨h42, by simp [classify, h42]⟩
  · cases f with
    | nil => exact absurd rfl hf
    | cons c r =>
      by_cases hc : c = 58
      · subst hc; exact Or.inr (Or.inl ⟨r, rfl, h42, by simp [classify, h42]⟩)
      · refine Or.inr (Or.inr ⟨c, r, rfl, hc, h42, ?_⟩)
        unfold classify
        simp only [h42, if_false]
        split
        · rename_i h; cases h; exact absurd rfl hc
        · rfl

theorem parseFrags_valid (fs : List Bytes) : ∀ (ks ns : List Bytes), (∀ f ∈ fs, f ≠ []) →
    validAcc ns (cutStar (fs.map classify)) →
    parseFrags fs ks ns = ⟨ks ++ keysOf (cutStar (fs.map classify)), ns ++ namesOf (cutStar (fs.map classify)), true⟩ := by
  induction fs with
  | nil => intro ks ns _ _; simp [parseFrags, cutStar, keysOf, namesOf, pnames]
  | cons f fs ih =>
    intro ks ns hne hv
    have hf := hne f (by simp)
    have hne' : ∀ g ∈ fs, g ≠ [] := fun g hg => hne g (by simp [hg])
    rcases classify_cases f hf with ⟨h42, hc⟩ | ⟨n, hfn, h42, hc⟩ | ⟨c, r, hfc, hc58, h42, hc⟩
    · simp only [List.map_cons, hc, cutStar]
      simp [parseFrags, h42, keysOf, elemKey, namesOf, pnames, nameKey]
    · simp only [List.map_cons, hc, cutStar, validAcc] at hv ⊢
      subst hfn
      simp only [parseFrags, h42, if_false, hv.1]
      rw [ih _ _ hne' hv.2]
      simp [keysOf_cons, elemKey, namesOf_param]
    · simp only [List.map_cons, hc, cutStar, validAcc] at hv ⊢
      have : parseFrags (f :: fs) ks ns = parseFrags fs (ks ++ [f]) ns := by
        subst hfc
        simp only [parseFrags, h42, if_false]
        split
        · rename_i h; cases h; exact absurd rfl hc58
        · rfl
      rw [this, ih _ _ hne' hv]
      simp [keysOf_cons, elemKey, namesOf_lit]

theorem parseFrags_invalid (fs : List Bytes) : ∀ (ks ns : List Bytes), (∀ f ∈ fs, f ≠ []) →
    ¬ validAcc ns (cutStar (fs.map classify)) → (parseFrags fs ks ns).ok = false := by
  induction fs with
  | nil => intro ks ns _ hv; simp [cutStar, validAcc] at hv
  | cons f fs ih =>
    intro ks ns hne hv
    have hf := hne f (by simp)
    have hne' : ∀ g ∈ fs, g ≠ [] := fun g hg => hne g (by simp [hg])
    rcases classify_cases f hf with ⟨h42, hc⟩ | ⟨n, hfn, h42, hc⟩ | ⟨c, r, hfc, hc58, h42, hc⟩
    · simp [List.map_cons, hc, cutStar, validAcc] at hv
    · simp only [List.map_cons, hc, cutStar, validAcc] at hv
      subst hfn
      simp only [parseFrags, h42, if_false]
      by_cases hn : n = [] ∨ n ∈ ns
      · simp [hn]
      · simp only [hn, if_false]
        exact ih _ _ hne' (fun h => hv ⟨hn, h⟩)
    · simp only [List.map_cons, hc, cutStar, validAcc] at hv
      have : parseFrags (f :: fs) ks ns = parseFrags fs (ks ++ [f]) ns := by
        subst hfc
        simp only [parseFrags, h42, if_false]
        split
        · rename_i h; cases h; exact absurd rfl hc58
        · rfl
      rw [this]
      exact ih _ _ hne' hv

theorem parseFrags_keys (fs : List Bytes) : ∀ (ks ns : List Bytes), (∀ f ∈ fs, f ≠ [] ∧ (47 : UInt8) ∉ f) →
    ∀ k ∈ (parseFrags fs ks ns).keys, k ∈ ks ∨ PathKey k := by
  induction fs with
  | nil => intro ks ns _ k hk; exact Or.inl hk
  | cons f fs ih =>
    intro ks ns hg k hk
    have hf := hg f (by simp)
    have hg' : ∀ g ∈ fs, g ≠ [] ∧ (47 : UInt8) ∉ g := fun g h => hg g (by simp [h])
    unfold parseFrags at hk
    by_cases h42 : f = [42]
    · simp only [h42, if_true, List.mem_append, List.mem_singleton] at hk
      exact hk.imp id (fun e => by rw [e]; exact pathKey_routeParamAny)
    · simp only [h42, if_false] at hk
      split at hk
      · split at hk
        · exact Or.inl hk
        · rcases ih _ _ hg' k hk with h | h
          · simp only [List.mem_append, List.mem_singleton] at h
            exact h.imp id (fun e => by rw [e]; exact pathKey_routeParam)
          · exact Or.inr h
      · rcases ih _ _ hg' k hk with h | h
        · simp only [List.mem_append, List.mem_singleton] at h
          exact h.imp id (fun e => by rw [e]; exact Or.inr (Or.inr hf))
        · exact Or.inr h

/-- a pattern as the code reads it: the first byte is never looked at -/
def slashed : Bytes → Bytes
  | [] => []
  | _ :: s => 47 :: s

theorem codeFragments_eq (p : Bytes) : fragsAcc (p.drop 1) [] = fragments (slashed p) := by
  cases p with
  | nil => simp [fragsAcc, slashed, fragments_empty]
  | cons x s => simp [slashed, fragsAcc_fragments]

/-! ### the trie invariant -/

/-- a registered route with its id -/
abbrev Entry := Nat × Route

/-- pattern keys, then the method tag -/
def fullKeys (r : Route) : List Bytes := keysOf (pattern r.pattern) ++ [tagOf r.method]

def payOf (e : Entry) : Option RouteId × List Bytes := (some e.1, namesOf (pattern e.2.pattern))

/-- the payload the route list prescribes for the node at `ks` -/
def lookupPay (S : List Entry) (ks : List Bytes) : Option RouteId × List Bytes :=
  match S.find? (fun e => fullKeys e.2 = ks) with
  | some e => payOf e
  | none => (none, [])

/-- payload of the node at `ks`, `(nil, nil)` when there is none -/
def oldPay (t : Node) (ks : List Bytes) : Option RouteId × List Bytes :=
  match descend t ks with
  | some n => pay n
  | none => (none, [])

structure TInv (S : List Entry) (P : List (List Bytes)) (t : Node) : Prop where
  ex : ∀ ks, (descend t ks).isSome ↔ ks = [] ∨ (∃ e ∈ S, ks <+: fullKeys e.2) ∨ (∃ p ∈ P, ks <+: p)
  pay : ∀ ks n, descend t ks = some n → pay n = lookupPay S ks
  known : ∀ e ∈ S, (methodTag? e.2.method).isSome
  pk : ∀ p ∈ P, ∀ k ∈ p, PathKey k

theorem tinv_empty : TInv [] [] Node.empty := by
  refine ⟨?_, ?_, by simp, by simp⟩
  · intro ks; rw [descend_empty]; by_cases h : ks = [] <;> simp [h]
  · intro ks n h
    rw [descend_empty] at h
    by_cases hk : ks = []
    · simp [hk] at h; subst h; simp [lookupPay]
    · simp [hk] at h

theorem TInv.oldPay_eq {S P t} (h : TInv S P t) (ks : List Bytes) : oldPay t ks = lookupPay S ks := by
  unfold oldPay
  cases hd : descend t ks with
  | some n => exact h.pay ks n hd
  | none =>
    unfold lookupPay
    cases hf : S.find? (fun e => fullKeys e.2 = ks) with
    | none => rfl
    | some e =>
      have hm := List.mem_of_find?_eq_some hf
      have hp := List.find?_some hf
      simp only [decide_eq_true_eq] at hp
      have : (descend t ks).isSome := (h.ex ks).mpr (Or.inr (Or.inl ⟨e, hm, hp ▸ List.prefix_refl _⟩))
      simp [hd] at this

/-- `nextNodeOrNew` along `keys` (what a refused registration leaves behind) -/
theorem tinv_ensure {S P t} (h : TInv S P t) (keys : List Bytes) (hk : ∀ k ∈ keys, PathKey k) :
    TInv S (keys :: P) (modifyAt (fun n => n) t keys) := by
  refine ⟨?_, ?_, h.known, ?_⟩
  · intro ks
    rw [isSome_descend_modifyAt _ keepsNext_id, h.ex]
    simp only [List.mem_cons, exists_eq_or_imp]
    grind
  · intro ks n hn
    by_cases hks : ks = keys
    · subst hks
      obtain ⟨n0, hn0, hp⟩ := pay_descend_modifyAt_self (fun n => n) t ks
      rw [hn0] at hn; cases hn
      rw [hp, ← h.oldPay_eq]
      unfold oldPay
      cases descend t ks <;> simp
    · rw [pay_descend_modifyAt_other _ keepsNext_id t keys ks hks n hn]
      exact h.oldPay_eq ks
  · intro p hp k hkp
    rcases List.mem_cons.mp hp with rfl | hp
    · exact hk k hkp
    · exact h.pk p hp k hkp

theorem lookupPay_append (S : List Entry) (e : Entry) (ks : List Bytes) :
    lookupPay (S ++ [e]) ks =
      if (S.find? (fun e => fullKeys e.2 = ks)).isSome then lookupPay S ks
      else if fullKeys e.2 = ks then payOf e else (none, []) := by
  unfold lookupPay
  rw [List.find?_append]
  cases hf : S.find? (fun e => fullKeys e.2 = ks) with
  | some e' => simp
  | none =>
    by_cases he : fullKeys e.2 = ks <;> simp [List.find?, he]

/-- a successful registration -/
theorem tinv_register {S P t} (h : TInv S P t) (i : Nat) (r : Route)
    (hknown : (methodTag? r.method).isSome) (hfresh : descend t (fullKeys r) = none) :
    TInv (S ++ [(i, r)]) P (modifyAt (setPayload i (namesOf (pattern r.pattern))) t (fullKeys r)) := by
  have hnone : S.find? (fun e => fullKeys e.2 = fullKeys r) = none := by
    cases hf : S.find? (fun e => fullKeys e.2 = fullKeys r) with
    | none => rfl
    | some e =>
      have hm := List.mem_of_find?_eq_some hf
      have hp := List.find?_some hf
      simp only [decide_eq_true_eq] at hp
      have : (descend t (fullKeys r)).isSome :=
        (h.ex _).mpr (Or.inr (Or.inl ⟨e, hm, hp ▸ List.prefix_refl _⟩))
      simp [hfresh] at this
  refine ⟨?_, ?_, ?_, h.pk⟩
  · intro ks
    rw [isSome_descend_modifyAt _ (keepsNext_setPayload _ _), h.ex]
    simp only [List.mem_append, List.mem_singleton]
    grind
  · intro ks n hn
    rw [lookupPay_append]
    by_cases hks : ks = fullKeys r
    · subst hks
      obtain ⟨n0, hn0, hp⟩ := pay_descend_modifyAt_self (setPayload i (namesOf (pattern r.pattern))) t (fullKeys r)
      rw [hn0] at hn; cases hn
      rw [hp, hnone]
      simp [setPayload, Router.pay, payOf]
    · rw [pay_descend_modifyAt_other _ (keepsNext_setPayload _ _) t _ ks hks n hn]
      have hne : ¬ fullKeys r = ks := fun e => hks e.symm
      refine Eq.trans (h.oldPay_eq ks) ?_
      simp only [hne, if_false]
      unfold lookupPay
      cases S.find? (fun e => fullKeys e.2 = ks) <;> simp
  · intro e he
    rcases List.mem_append.mp he with he | he
    · exact h.known e he
    · simp only [List.mem_singleton] at he; subst he; exact hknown

/-! ### `parseRoute` against the route list -/

/-- what the code decides for `Handle(p, m)`, in terms of the routes registered so far -/
def regResult (S : List Entry) (r : Route) : Except RegErr Nat :=
  if methodTag? r.method = none then .error .invalidMethod
  else if ¬ RouteList.validPattern (pattern r.pattern) then .error .invalidFragment
  else if ∃ e ∈ S, fullKeys e.2 = fullKeys r then .error .duplicate
  else .ok (namesOf (pattern r.pattern)).length

theorem TInv.dup_iff {S P t} (h : TInv S P t) (r : Route) :
    (descend t (fullKeys r)).isSome ↔ ∃ e ∈ S, fullKeys e.2 = fullKeys r := by
  rw [h.ex]
  have hnt := tagOf_not_pathKey r.method
  constructor
  · rintro (h0 | ⟨e, he, hp⟩ | ⟨p, hp, hpre⟩)
    · simp [fullKeys] at h0
    · refine ⟨e, he, ?_⟩
      have := (prefix_snoc_tag hnt (keysOf_pathKey (pattern_good e.2.pattern))).mp hp
      unfold fullKeys; rw [this.1, this.2]
    · exact absurd (h.pk p hp _ (hpre.subset (by simp [fullKeys]))) hnt
  · rintro ⟨e, he, heq⟩
    exact Or.inr (Or.inl ⟨e, he, heq ▸ List.prefix_refl _⟩)

theorem parseRoute_spec {S P t} (h : TInv S P t) (p m : Bytes) (i : Nat) :
    ∃ t', parseRoute t p m i = .ok ⟨t', regResult S ⟨slashed p, m⟩⟩ ∧
      (match regResult S ⟨slashed p, m⟩ with
       | .ok _ => TInv (S ++ [(i, ⟨slashed p, m⟩)]) P t'
       | .error _ => ∃ P', TInv S P' t') := by
  unfold parseRoute regResult
  cases hm : methodTag? m with
  | none => exact ⟨t, by simp, by simp; exact ⟨P, h⟩⟩
  | some tag =>
    have htag : tagOf m = tag := tagOf_of_some hm
    have hfs : ∀ f ∈ fragments (slashed p), f ≠ [] := fun f hf => (fragments_good _ f hf).1
    simp only [parseLoop_start, codeFragments_eq, bind, Except.bind, reduceCtorEq, if_false]
    by_cases hv : RouteList.validPattern (pattern (slashed p))
    · have hpf := parseFrags_valid (fragments (slashed p)) [] [] hfs ((validAcc_nil_iff _).mpr hv)
      simp only [List.nil_append] at hpf
      have hpat : cutStar ((fragments (slashed p)).map classify) = pattern (slashed p) := rfl
      rw [hpat] at hpf
      simp only [hpf, Bool.not_true, Bool.false_eq_true, if_false, hv, not_true_eq_false]
      have hpk := keysOf_pathKey (pattern_good (slashed p))
      have hens := tinv_ensure h _ hpk
      obtain ⟨n0, hn0, _⟩ := pay_descend_modifyAt_self (fun n => n) t (keysOf (pattern (slashed p)))
      have hchild : n0.child tag = descend (modifyAt (fun n => n) t (keysOf (pattern (slashed p)))) (fullKeys ⟨slashed p, m⟩) := by
        simp only [fullKeys, descend_append, hn0, Option.bind_some, descend_cons, htag]
        cases n0.child tag <;> simp
      have hdup := h.dup_iff ⟨slashed p, m⟩
      have hiff : (n0.child tag).isSome ↔ ∃ e ∈ S, fullKeys e.2 = fullKeys ⟨slashed p, m⟩ := by
        rw [hchild, isSome_descend_modifyAt _ keepsNext_id, hdup]
        constructor
        · rintro (h1 | h1)
          · exact h1
          · have := h1.length_le
            simp [fullKeys] at this
            omega
        · exact Or.inl
      simp only [hn0, Option.getD_some]
      cases hc : n0.child tag with
      | some c =>
        have hex := hiff.mp (by simp [hc])
        simp only [hex, if_true]
        exact ⟨_, rfl, _, hens⟩
      | none =>
        have hex : ¬ ∃ e ∈ S, fullKeys e.2 = fullKeys ⟨slashed p, m⟩ := fun hx => by
          have := hiff.mpr hx; simp [hc] at this
        simp only [hex, if_false]
        refine ⟨_, rfl, ?_⟩
        have hfresh : descend t (fullKeys ⟨slashed p, m⟩) = none := by
          cases hd : descend t (fullKeys ⟨slashed p, m⟩) with
          | none => rfl
          | some x => exact absurd (hdup.mp (by simp [hd])) hex
        have := tinv_register h i ⟨slashed p, m⟩ (by simp [hm]) hfresh
        simpa [fullKeys, htag] using this
    · have hpf := parseFrags_invalid (fragments (slashed p)) [] [] hfs (fun hx => hv ((validAcc_nil_iff _).mp hx))
      simp only [hpf, Bool.not_false, if_true, hv, not_false_eq_true]
      refine ⟨_, rfl, _, tinv_ensure h _ ?_⟩
      intro k hk
      rcases parseFrags_keys (fragments (slashed p)) [] [] (fragments_good _) k hk with h0 | h0
      · simp at h0
      · exact h0

end Glb.Router
