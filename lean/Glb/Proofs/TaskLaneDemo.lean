/-
  A concrete run of `cfg 2 1` (two lanes, queue capacity 1) built from explicit `Step`s, used by the
  non-vacuity `example`s of the TaskLane property files:

    push(7, lane 1) · producer default · producer sends into buf[1]        (d3: task 7 pending in the buffer)
    · queue 1 receives · cnt++ · queue default                             (d6: pending in the queue goroutine's hand)
    · worker 1 default · default · parks · queue 1 hands over on `own`     (d10: pending in the worker's hand)
    · worker 1 calls Start()                                               (d11: started, running)
    · PushTask returns nil · the task panics with 42                       (d13: finished, lastPanic = 42)

  plus a run `e1…e4` in which `PushTask(9, lane 0)` times out, and a run `i1…i4` of `cfg 1 1` into the
  idle state (worker and queue goroutine parked), which is proved `Quiescent`.
-/
import Glb.Model.TaskLane

namespace Glb.TaskLane.Demo

abbrev c : Cfg := cfg 2 1

theorem not_partnerReady_of_unparked {s : St} {g : Gid} {k : Case}
    (h : ∀ h, (s.get h).parked = false) : ¬ partnerReady c s g k := by
  intro hp
  cases k with
  | recv x => obtain ⟨-, h', t, -, -, hpk, -⟩ := hp; rw [h h'] at hpk; cases hpk
  | send x => obtain ⟨-, h', t, -, -, hpk, -⟩ := hp; rw [h h'] at hpk; cases hpk
  | done => exact hp
  | timeout => exact hp

def d1 : St :=
  { init with ps := upd init.ps init.np { pc := 0, parked := false, held := 7 },
              plane := upd init.plane init.np 1, np := init.np + 1 }
def d2 : St := d1.set (.p 0) (goto (d1.get (.p 0)) 1)
def d3 : St := let s1 := localEffect d2 (.p 0) (.send .buf); s1.set (.p 0) (goto (s1.get (.p 0)) 3)
def d4 : St := let s1 := localEffect d3 (.q 1) (.recv .buf); s1.set (.q 1) (goto (s1.get (.q 1)) 1)
def d5 : St := { d4 with cnt := d4.cnt + 1 }.set (.q 1) (goto (d4.get (.q 1)) 2)
def d6 : St := d5.set (.q 1) (goto (d5.get (.q 1)) 3)
def d7 : St := d6.set (.w 1) (goto (d6.get (.w 1)) 1)
def d8 : St := d7.set (.w 1) (goto (d7.get (.w 1)) 2)
def d9 : St := d8.set (.w 1) { d8.get (.w 1) with parked := true }
def d10 : St :=
  let s1 := if Ch.own = .buf then { d9 with accepted := d9.accepted ++ [(d9.get (.q 1)).held] } else d9
  let s2 := s1.set (.q 1) (goto (s1.get (.q 1)) 5)
  s2.set (.w 1) { goto (s2.get (.w 1)) 3 with held := (d9.get (.q 1)).held }
def d11 : St :=
  { d10 with ws := upd d10.ws 1 { d10.ws 1 with parked := true }, started := d10.started ++ [(d10.ws 1).held] }
def d12 : St :=
  { d11 with ps := upd d11.ps 0 (goto (d11.ps 0) 5), results := d11.results ++ [((d11.ps 0).held, .nil)] }
def d13 : St :=
  { d12 with ws := upd d12.ws 1 (goto (d12.ws 1) 0), finished := d12.finished ++ [(d12.ws 1).held],
             lastPanic := match some 42 with | some x => some x | none => d12.lastPanic,
             panics := match some 42 with | some x => d12.panics ++ [x] | none => d12.panics }

theorem unparked (s : St) (hq : ∀ i, (s.qs i).parked = false) (hw : ∀ i, (s.ws i).parked = false)
    (hp : ∀ i, (s.ps i).parked = false) : ∀ h, (s.get h).parked = false := by
  intro h; cases h <;> simp [St.get, hq, hw, hp]

/-- `St.live` and buffer readiness are closed decidable facts once unfolded -/
local macro "live" : tactic => `(tactic| (show (_ : Nat) < _; decide))

theorem step1 : Step c init (.push 0 7 1) d1 :=
  Step.push init 7 1 (by live) (by intro k hk; simp [init] at hk)

theorem step2 : Step c d1 .tau d2 := by
  refine Step.dflt d1 (.p 0) [(.done, 2)] 1 (by live) rfl rfl ?_
  intro k t hm
  simp at hm; obtain ⟨rfl, rfl⟩ := hm
  simp [ready, localReady, partnerReady, d1, init]

theorem step3 : Step c d2 .tau d3 :=
  Step.takeLocal d2 (.p 0) [(.done, 2), (.send .buf, 3), (.timeout, 4)] none (.send .buf) 3
    (by live) rfl (by simp) (by show (d2.buf (d2.lane (.p 0))).length < 1; decide)

theorem step4 : Step c d3 .tau d4 :=
  Step.takeLocal d3 (.q 1) [(.done, 6), (.recv .buf, 1)] none (.recv .buf) 1
    (by live) rfl (by simp) (by show d3.buf (d3.lane (.q 1)) ≠ []; decide)

theorem step5 : Step c d4 .tau d5 := Step.incCnt d4 (.q 1) 2 (by live) rfl

theorem step6 : Step c d5 .tau d6 := by
  refine Step.dflt d5 (.q 1) [(.done, 6)] 3 (by live) rfl rfl ?_
  intro k t hm
  simp at hm; obtain ⟨rfl, rfl⟩ := hm
  simp [ready, localReady, partnerReady]; rfl

theorem step7 : Step c d6 .tau d7 := by
  refine Step.dflt d6 (.w 1) [(.done, 4)] 1 (by live) rfl rfl ?_
  intro k t hm
  simp at hm; obtain ⟨rfl, rfl⟩ := hm
  simp [ready, localReady, partnerReady]; rfl

theorem unparked7 : ∀ h, (d7.get h).parked = false := by
  apply unparked <;> intro i <;>
    simp [d7, d6, d5, d4, d3, d2, d1, init, St.set, St.get, St.lane, localEffect, upd, goto] <;>
    split <;> rfl

theorem step8 : Step c d7 .tau d8 := by
  refine Step.dflt d7 (.w 1) [(.recv .own, 3)] 2 (by live) rfl rfl ?_
  intro k t hm
  simp at hm; obtain ⟨rfl, rfl⟩ := hm
  simp only [ready, localReady, and_false, false_or]
  exact not_partnerReady_of_unparked unparked7

theorem unparked8 : ∀ h, (d8.get h).parked = false := by
  apply unparked <;> intro i <;>
    simp [d8, d7, d6, d5, d4, d3, d2, d1, init, St.set, St.get, St.lane, localEffect, upd, goto] <;>
    split <;> rfl

theorem step9 : Step c d8 .tau d9 := by
  refine Step.park d8 (.w 1) [(.done, 4), (.recv .own, 3), (.recv .uni, 3)] (by live) rfl rfl ?_
  intro k t hm
  simp at hm
  rcases hm with ⟨rfl, rfl⟩ | ⟨rfl, rfl⟩ | ⟨rfl, rfl⟩
  · simp [ready, localReady, partnerReady]; rfl
  · simp only [ready, localReady, and_false, false_or]
    exact not_partnerReady_of_unparked unparked8
  · simp only [ready, localReady, and_false, false_or]
    exact not_partnerReady_of_unparked unparked8

theorem step10 : Step c d9 .tau d10 :=
  Step.handover d9 (.q 1) (.w 1) [(.send .own, 5)] (some 4) .own 5 3 (by live) rfl (by simp)
    (by simp) (by simp)
    ⟨by live, rfl, [(.done, 4), (.recv .own, 3), (.recv .uni, 3)], rfl, by simp, rfl⟩

theorem step11 : Step c d10 (.start 1 7) d11 := Step.start d10 1 0 (by decide) rfl rfl

theorem step12 : Step c d11 (.pushRet 0 7 .nil) d12 :=
  Step.pushRet d11 0 .retNil 5 .nil (by live) rfl (by simp)

theorem step13 : Step c d12 (.finish 1 7 (some 42)) d13 := Step.finish d12 1 0 (some 42) (by decide) rfl rfl

theorem reach3 : Reachable c d3 := ((Reachable.init.step _ _ _ step1).step _ _ _ step2).step _ _ _ step3
theorem reach4 : Reachable c d4 := reach3.step _ _ _ step4
theorem reach6 : Reachable c d6 := ((reach4).step _ _ _ step5).step _ _ _ step6
theorem reach10 : Reachable c d10 :=
  (((reach6.step _ _ _ step7).step _ _ _ step8).step _ _ _ step9).step _ _ _ step10
theorem reach11 : Reachable c d11 := reach10.step _ _ _ step11
theorem reach12 : Reachable c d12 := reach11.step _ _ _ step12
theorem reach13 : Reachable c d13 := reach12.step _ _ _ step13

/-! a second run: `PushTask(9, lane 0)` times out (nothing is enqueued) -/

def e1 : St :=
  { init with ps := upd init.ps init.np { pc := 0, parked := false, held := 9 },
              plane := upd init.plane init.np 0, np := init.np + 1 }
def e2 : St := e1.set (.p 0) (goto (e1.get (.p 0)) 1)
def e3 : St := let s1 := localEffect e2 (.p 0) .timeout; s1.set (.p 0) (goto (s1.get (.p 0)) 4)
def e4 : St :=
  { e3 with ps := upd e3.ps 0 (goto (e3.ps 0) 5), results := e3.results ++ [((e3.ps 0).held, .timeout)] }

theorem estep1 : Step c init (.push 0 9 0) e1 :=
  Step.push init 9 0 (by live) (by intro k hk; simp [init] at hk)

theorem estep2 : Step c e1 .tau e2 := by
  refine Step.dflt e1 (.p 0) [(.done, 2)] 1 (by live) rfl rfl ?_
  intro k t hm
  simp at hm; obtain ⟨rfl, rfl⟩ := hm
  simp [ready, localReady, partnerReady, e1, init]

theorem estep3 : Step c e2 (.timeout 0) e3 :=
  Step.takeLocal e2 (.p 0) [(.done, 2), (.send .buf, 3), (.timeout, 4)] none .timeout 4
    (by live) rfl (by simp) trivial

theorem estep4 : Step c e3 (.pushRet 0 9 .timeout) e4 :=
  Step.pushRet e3 0 .retTimeout 5 .timeout (by live) rfl (by simp)

theorem ereach4 : Reachable c e4 :=
  (((Reachable.init.step _ _ _ estep1).step _ _ _ estep2).step _ _ _ estep3).step _ _ _ estep4


/-! a third run, of `cfg 1 1`: the lane goes idle (worker and queue goroutine park) — a quiescent state -/

abbrev c1 : Cfg := cfg 1 1

def i1 : St := init.set (.w 0) (goto (init.get (.w 0)) 1)
def i2 : St := i1.set (.w 0) (goto (i1.get (.w 0)) 2)
def i3 : St := i2.set (.w 0) { i2.get (.w 0) with parked := true }
def i4 : St := i3.set (.q 0) { i3.get (.q 0) with parked := true }

theorem not_partnerReady_of_unparked1 {s : St} {g : Gid} {k : Case}
    (h : ∀ h, h ≠ g → s.live c1 h → (s.get h).parked = false) : ¬ partnerReady c1 s g k := by
  intro hp
  cases k with
  | recv x => obtain ⟨-, h', t, hne, hl, hpk, -⟩ := hp; rw [h h' hne hl] at hpk; cases hpk
  | send x => obtain ⟨-, h', t, hne, hl, hpk, -⟩ := hp; rw [h h' hne hl] at hpk; cases hpk
  | done => exact hp
  | timeout => exact hp

theorem istep1 : Step c1 init .tau i1 := by
  refine Step.dflt init (.w 0) [(.done, 4)] 1 (by live) rfl rfl ?_
  intro k t hm
  simp at hm; obtain ⟨rfl, rfl⟩ := hm
  simp [ready, localReady, partnerReady]; rfl

theorem istep2 : Step c1 i1 .tau i2 := by
  refine Step.dflt i1 (.w 0) [(.recv .own, 3)] 2 (by live) rfl rfl ?_
  intro k t hm
  simp at hm; obtain ⟨rfl, rfl⟩ := hm
  simp only [ready, localReady, and_false, false_or]
  apply not_partnerReady_of_unparked1
  intro h hne hl
  cases h with
  | q i => have : i = 0 := by have : i < 1 := hl; omega
           subst this; rfl
  | w i => have : i = 0 := by have : i < 1 := hl; omega
           subst this; exact absurd rfl hne
  | p k => have : k < 0 := hl; omega

theorem istep3 : Step c1 i2 .tau i3 := by
  refine Step.park i2 (.w 0) [(.done, 4), (.recv .own, 3), (.recv .uni, 3)] (by live) rfl rfl ?_
  intro k t hm
  have hu : ∀ k, ¬ partnerReady c1 i2 (.w 0) k := by
    intro k
    apply not_partnerReady_of_unparked1
    intro h hne hl
    cases h with
    | q i => have : i = 0 := by have : i < 1 := hl; omega
             subst this; rfl
    | w i => have : i = 0 := by have : i < 1 := hl; omega
             subst this; exact absurd rfl hne
    | p k => have : k < 0 := hl; omega
  simp at hm
  rcases hm with ⟨rfl, rfl⟩ | ⟨rfl, rfl⟩ | ⟨rfl, rfl⟩
  · simp [ready, localReady, partnerReady]; rfl
  · simp only [ready, localReady, and_false, false_or]; exact hu _
  · simp only [ready, localReady, and_false, false_or]; exact hu _

theorem istep4 : Step c1 i3 .tau i4 := by
  refine Step.park i3 (.q 0) [(.done, 6), (.recv .buf, 1)] (by live) rfl rfl ?_
  intro k t hm
  simp at hm
  rcases hm with ⟨rfl, rfl⟩ | ⟨rfl, rfl⟩
  · simp [ready, localReady, partnerReady]; rfl
  · have h1 : ¬ localReady c1 i3 (.q 0) (.recv .buf) := by
      show ¬ (i3.buf (i3.lane (.q 0)) ≠ []); decide
    have h2 : ¬ partnerReady c1 i3 (.q 0) (.recv .buf) := by
      rintro ⟨hq, -⟩; exact absurd (hq rfl) (by decide)
    simp [ready, h1, h2]

theorem ireach4 : Reachable c1 i4 :=
  (((Reachable.init.step _ _ _ istep1).step _ _ _ istep2).step _ _ _ istep3).step _ _ _ istep4


theorem i4_quiescent : Quiescent c1 i4 := by
  intro l s' h
  have hq : i4.qs 0 = { pc := 0, parked := true, held := 0 } := by decide
  have hw : i4.ws 0 = { pc := 2, parked := true, held := 0 } := by decide
  have hlive : ∀ g, i4.live c1 g → g = .q 0 ∨ g = .w 0 := by
    intro g hl
    cases g with
    | q i => have : i < 1 := hl; left; congr; omega
    | w i => have : i < 1 := hl; right; congr; omega
    | p k => have : k < 0 := hl; omega
  have hsel : ∀ g cs d, i4.live c1 g → instrAt c1 i4 g = some (.select cs d) →
      (g = .q 0 ∧ cs = [(.done, 6), (.recv .buf, 1)]) ∨
      (g = .w 0 ∧ cs = [(.done, 4), (.recv .own, 3), (.recv .uni, 3)]) := by
    intro g cs d hl hi
    rcases hlive g hl with rfl | rfl
    · left; refine ⟨rfl, ?_⟩
      have : instrAt c1 i4 (.q 0) = some (.select [(.done, 6), (.recv .buf, 1)] none) := by decide
      rw [this] at hi; injection hi with hi; injection hi with h1 _; exact h1.symm
    · right; refine ⟨rfl, ?_⟩
      have : instrAt c1 i4 (.w 0) = some (.select [(.done, 4), (.recv .own, 3), (.recv .uni, 3)] none) := by
        decide
      rw [this] at hi; injection hi with hi; injection hi with h1 _; exact h1.symm
  have hact : ∀ g a n, i4.live c1 g → instrAt c1 i4 g ≠ some (.act a n) := by
    intro g a n hl hi
    rcases hlive g hl with rfl | rfl
    · have : instrAt c1 i4 (.q 0) = some (.select [(.done, 6), (.recv .buf, 1)] none) := by decide
      rw [this] at hi; cases hi
    · have : instrAt c1 i4 (.w 0) = some (.select [(.done, 4), (.recv .own, 3), (.recv .uni, 3)] none) := by
        decide
      rw [this] at hi; cases hi
  have hpark : ∀ g, i4.live c1 g → (i4.get g).parked = true := by
    intro g hl; rcases hlive g hl with rfl | rfl <;> decide
  cases h with
  | cancel _ => rfl
  | push _ _ _ _ => rfl
  | takeLocal g cs d k tg hl hi hm hr =>
    exfalso
    rcases hsel g cs d hl hi with ⟨rfl, rfl⟩ | ⟨rfl, rfl⟩
    · simp at hm
      rcases hm with ⟨rfl, rfl⟩ | ⟨rfl, rfl⟩
      · exact absurd hr (by show ¬ (i4.cancelled = true); decide)
      · exact absurd hr (by show ¬ (i4.buf (i4.lane (.q 0)) ≠ []); decide)
    · simp at hm
      rcases hm with ⟨rfl, rfl⟩ | ⟨rfl, rfl⟩ | ⟨rfl, rfl⟩
      · exact absurd hr (by show ¬ (i4.cancelled = true); decide)
      · exact hr
      · exact hr
  | handover g h cs d x tg th hl hi hm _ _ _ =>
    exfalso
    rcases hsel g cs d hl hi with ⟨rfl, rfl⟩ | ⟨rfl, rfl⟩ <;> simp at hm
  | takeover g h cs d x tg th hl hi hm hq0 hne hp =>
    exfalso
    rcases hsel g cs d hl hi with ⟨rfl, rfl⟩ | ⟨rfl, rfl⟩
    · simp at hm
      obtain ⟨rfl, rfl⟩ := hm
      exact absurd (hq0 rfl) (by decide)
    · obtain ⟨hlh, -, cs', hih, hmh, -⟩ := hp
      rcases hsel h cs' none hlh hih with ⟨rfl, rfl⟩ | ⟨rfl, rfl⟩ <;> simp at hmh
  | dflt g cs d hl hnp _ _ => rw [hpark g hl] at hnp; cases hnp
  | park g cs hl hnp _ _ => rw [hpark g hl] at hnp; cases hnp
  | incCnt g n hl hi => exact absurd hi (hact g _ _ hl)
  | decCnt g n hl hi => exact absurd hi (hact g _ _ hl)
  | start i n hl _ hi => exact absurd hi (hact (.w i) _ _ hl)
  | finish i n v _ _ _ => rfl
  | pushRet k a n r hk _ _ => have : k < 0 := hk; omega

end Glb.TaskLane.Demo
