/-
  Helper lemmas for C13 (Text handler).  Property theorems are in Glb/Props/C13.lean.
  Parts: (1) facts about the UTF-8 decoder model, (2) the spec tokenizer on rendered tokens,
  (3) model `appendTextString` versus the spec's bare-token class, (4) whole lines,
  (5) the model's prefix-buffer bookkeeping equals the flattened dotted-path list,
  (6) every accepted line is one line.
-/
import Glb.Model.TextHandler
import Glb.Spec.TextTokens
import Glb.Spec.TextExpected
import Glb.Tie.TextLogger

namespace Glb.TextProofs
open Glb Glb.Utf8 Glb.TextTokens Glb.TextHandler Glb.TextExpected

/-! ## 1. decoder facts -/

/-- a well-formed multi-byte sequence decodes the same whatever follows it -/
theorem decodeRune_append (s t : Bytes) (h : 2 ≤ (decodeRune s).2) :
    decodeRune (s ++ t) = decodeRune s := by
  match s with
  | [] => simp [decodeRune] at h
  | [b0] =>
    revert h; unfold decodeRune; simp only [List.cons_append, List.nil_append]
    repeat' split
    all_goals simp_all
  | [b0, b1] =>
    revert h; unfold decodeRune; simp only [List.cons_append, List.nil_append]
    repeat' split
    all_goals simp_all
  | [b0, b1, b2] =>
    revert h; unfold decodeRune; simp only [List.cons_append, List.nil_append]
    repeat' split
    all_goals simp_all
  | b0 :: b1 :: b2 :: b3 :: r =>
    revert h; unfold decodeRune; simp only [List.cons_append]
    repeat' split
    all_goals simp_all

/-- for a lead byte ≥ 0x80 every result other than RuneError has size ≥ 2 -/
theorem decodeRune_valid_size (b : UInt8) (rest : Bytes) (hb : ¬ b < 0x80)
    (h : (decodeRune (b :: rest)).1 ≠ runeError) : 2 ≤ (decodeRune (b :: rest)).2 := by
  revert h; unfold decodeRune
  simp only [hb, if_false]
  repeat' split
  all_goals simp_all

theorem lead_lo (b : UInt8) (x : Nat × UInt8 × UInt8) (h : lead b = some x) : 0x80 ≤ x.2.1 := by
  revert h; unfold lead
  repeat' split
  all_goals (intro h; simp at h; try (subst h; decide))

/-- the bytes stepped over after the lead byte of a well-formed sequence are ≥ 0x80 -/
theorem decodeRune_cont (b : UInt8) (rest : Bytes) (hb : ¬ b < 0x80)
    (h : 2 ≤ (decodeRune (b :: rest)).2) :
    ∀ x ∈ rest.take ((decodeRune (b :: rest)).2 - 1), 0x80 ≤ x := by
  revert h; unfold decodeRune
  simp only [hb, if_false]
  split
  · simp
  · rename_i sz lo hi hl
    have hlo := lead_lo _ _ hl
    simp only at hlo
    repeat' split
    all_goals simp_all [isCont]
    all_goals (simp only [UInt8.le_iff_toNat_le] at *; omega)

/-! ## 2. the tokenizer on one rendered token -/

/-- the input continues with one of the three separators -/
def Delim (rest : Bytes) : Prop := ∃ d r, rest = d :: r ∧ (d = 0x20 ∨ d = 0x3d ∨ d = 0x0a)

theorem bareRuneLen_delim (L : Lex) {rest : Bytes} (h : Delim rest) : bareRuneLen L rest = none := by
  obtain ⟨d, r, rfl, hd⟩ := h
  rcases hd with rfl | rfl | rfl <;> simp [bareRuneLen, bareAscii] <;> decide

theorem bareRuneLen_le (L : Lex) {s : Bytes} {n : Nat} (h : bareRuneLen L s = some n) :
    1 ≤ n ∧ n ≤ s.length := by
  cases s with
  | nil => simp [bareRuneLen] at h
  | cons b rest =>
    have hsz := decodeRune_size_le (b :: rest)
    simp only [bareRuneLen] at h
    split at h
    · split at h <;> simp at h; subst h; simp
    · split at h
      · simp at h
      · split at h
        · simp at h
        · simp at h; subst h; omega

theorem bareRuneLen_append (L : Lex) {s : Bytes} (t : Bytes) {n : Nat} (h : bareRuneLen L s = some n) :
    bareRuneLen L (s ++ t) = some n := by
  cases s with
  | nil => simp [bareRuneLen] at h
  | cons b rest =>
    simp only [bareRuneLen, List.cons_append] at h ⊢
    split at h
    · rename_i hb; simp only [hb, if_true]; exact h
    · rename_i hb
      simp only [hb, if_false]
      split at h
      · simp at h
      · rename_i h2
        have := decodeRune_append (b :: rest) t (by omega)
        simp only [List.cons_append] at this
        rw [this]
        simp only [h2, if_false]
        exact h

theorem spanBare_append (L : Lex) {rest : Bytes} (hd : Delim rest) :
    ∀ (s : Bytes) (k : Nat), k ≤ s.length → allBare L k s = true →
      spanBare L k (s ++ rest) = (s, rest)
  | [], k, hk, _ => by
    have : k = 0 := by simpa using hk
    subst this
    obtain ⟨d, r, rfl, hd'⟩ := id hd
    have := bareRuneLen_delim L hd
    simp [spanBare, this]
  | b :: s', k + 1, hk, h => by
    have ih := spanBare_append L hd s' k (by simpa using hk) (by simpa [allBare] using h)
    simp [spanBare, ih]
  | b :: s', 0, _, h => by
    simp only [allBare] at h
    split at h
    · simp at h
    · rename_i n hn
      have hle := bareRuneLen_le L hn
      have hn' := bareRuneLen_append L rest hn
      simp only [List.cons_append] at hn'
      have ih := spanBare_append L hd s' (n - 1) (by simp at hle; omega) h
      simp [spanBare, hn', ih]

theorem scanQuoted_interior (rest : Bytes) :
    ∀ (body : Bytes) (esc : Bool), interiorOK esc body = true →
      scanQuoted esc (body ++ 0x22 :: rest) = some (body, rest)
  | [], esc, h => by
    cases esc <;> simp [interiorOK] at h
    simp [scanQuoted]
  | b :: body, true, h => by
    simp only [interiorOK, Bool.and_eq_true, Bool.not_eq_true', decide_eq_false_iff_not] at h
    simp [scanQuoted, h.1, scanQuoted_interior rest body false h.2]
  | b :: body, false, h => by
    simp only [interiorOK, Bool.and_eq_true, Bool.not_eq_true', decide_eq_false_iff_not, bne_iff_ne, ne_eq] at h
    obtain ⟨⟨h1, h2⟩, h3⟩ := h
    simp [scanQuoted, h1, h2, scanQuoted_interior rest body _ h3]

/-- `c` is a rendering of the token `v`: followed by a separator it is read back as exactly `v`,
    leaving the separator -/
def Cell (L : Lex) (c v : Bytes) : Prop := ∀ rest, Delim rest → token L (c ++ rest) = some (v, rest)

theorem bareTok_head (L : Lex) {b : UInt8} {s : Bytes} (h : allBare L 0 (b :: s) = true) : b ≠ 0x22 := by
  intro hb; subst hb
  simp [allBare, bareRuneLen, bareAscii] at h

theorem cell_bare (L : Lex) {s : Bytes} (h : bareTok L s) : Cell L s s := by
  intro rest hd
  obtain ⟨hne, hb⟩ := h
  cases s with
  | nil => exact absurd rfl hne
  | cons b s' =>
    have h22 := bareTok_head L hb
    have hs := spanBare_append L hd (b :: s') 0 (by simp) hb
    simp only [List.cons_append] at hs
    simp [token, h22, hs]

theorem cell_quoted (L : Lex) {quote : Bytes → Bytes} (hq : QuoteContract quote L.unquote) (s : Bytes) :
    Cell L (quote s) s := by
  intro rest _
  obtain ⟨body, hb, hi⟩ := hq.shape s
  have hs := scanQuoted_interior rest body false hi
  have hr := hq.roundtrip s
  rw [hb] at hr
  rw [hb]
  simp only [List.cons_append, List.append_assoc, List.nil_append] at hs hr ⊢
  simp [token, hs, hr]

theorem cell_empty (L : Lex) {quote : Bytes → Bytes} (hq : QuoteContract quote L.unquote) :
    Cell L [0x22, 0x22] [] := by
  intro rest _
  have he := hq.empty
  have : scanQuoted false (0x22 :: rest) = some ([], rest) := by
    simp [scanQuoted]
  simp [token, this, he]

/-! ## 3. `appendTextString` versus the bare-token class -/

theorem u8_beq (b c : UInt8) : (b == c) = (b.toNat == c.toNat) := by
  by_cases h : b = c
  · subst h; simp
  · have : b.toNat ≠ c.toNat := fun e => h (UInt8.toNat_inj.mp e)
    rw [beq_eq_false_iff_ne.mpr h, beq_eq_false_iff_ne.mpr this]

theorem u8_bne (b c : UInt8) : (b != c) = (b.toNat != c.toNat) := by
  simp only [bne, u8_beq]

/-- ASCII: not quoting means bare (through the regenerated `safeSet`) -/
theorem ascii_bare {b : UInt8} (hb : b < 0x80) (h : asciiNeedsQuote b = false) : bareAscii b = true := by
  have hlt : b.toNat < 128 := by simpa [UInt8.lt_iff_toNat_lt] using hb
  have key := Tie.TextLogger.ascii_bare_class b.toNat (by simp [List.mem_range]; exact hlt)
  have e5 : decide (b ≤ 0x20) = decide (b.toNat ≤ 0x20) := by
    simp [UInt8.le_iff_toNat_le]
  unfold asciiNeedsQuote safe at h
  rw [u8_bne, u8_beq, u8_beq] at h
  simp only [UInt8.toNat_ofNat] at h
  rw [key] at h
  unfold bareAscii
  rw [u8_bne, u8_bne, e5]
  simp only [UInt8.toNat_ofNat]
  revert h
  generalize b.toNat = n
  intro h
  simp at h ⊢
  omega

theorem needsQuote_false_allBare (P : Std) (u : Bytes → Option Bytes) :
    ∀ (s : Bytes) (k : Nat), needsQuoteLoop P k s = false → allBare (lexOf P u) k s = true
  | [], _, _ => by simp [allBare]
  | b :: rest, k + 1, h => by
    simp only [needsQuoteLoop] at h
    simp only [allBare]
    exact needsQuote_false_allBare P u rest k h
  | b :: rest, 0, h => by
    simp only [needsQuoteLoop] at h
    split at h
    · rename_i hb
      split at h
      · simp at h
      · rename_i ha
        have := ascii_bare hb (by simpa using ha)
        simp only [allBare, bareRuneLen, hb, if_true, this]
        exact needsQuote_false_allBare P u rest 0 h
    · rename_i hb
      split at h
      · simp at h
      · rename_i hr
        simp only [runeNeedsQuote, Bool.or_eq_true, not_or, beq_iff_eq, Bool.not_eq_true',
          Bool.not_eq_true] at hr
        obtain ⟨⟨h1, h2⟩, h3⟩ := hr
        have hsz := decodeRune_valid_size b rest hb h1
        have : ¬ (decodeRune (b :: rest)).2 < 2 := by omega
        simp only [allBare, bareRuneLen, hb, if_false, this, lexOf, h2, h3]
        simp
        exact needsQuote_false_allBare P u rest _ h

theorem appendTextString_buf (P : Std) (buf s : Bytes) :
    appendTextString P buf s = buf ++ appendTextString P [] s := by
  unfold appendTextString
  split
  · simp
  · split <;> simp

/-- whatever `appendTextString` writes for `s` is read back as `s` -/
theorem cell_appendTextString (P : Std) (u : Bytes → Option Bytes) (hq : QuoteContract P.quote u)
    (s : Bytes) : Cell (lexOf P u) (appendTextString P [] s) s := by
  unfold appendTextString
  split
  · rename_i h
    have : s = [] := by simpa using h
    subst this
    exact cell_empty (lexOf P u) hq
  · rename_i hne
    split
    · exact cell_quoted (lexOf P u) hq s
    · rename_i h
      simp only [List.nil_append]
      refine cell_bare _ ⟨?_, needsQuote_false_allBare P u s 0 (by simpa using h)⟩
      intro h0; subst h0; simp at hne

/-! ## 4. whole lines -/

/-- a rendered `key=value` pair with the meaning of both sides -/
structure RCell where
  kc : Bytes
  k : Bytes
  vc : Bytes
  v : Bytes

def RCell.bytes (c : RCell) : Bytes := c.kc ++ 0x3d :: c.vc
def RCell.good (L : Lex) (c : RCell) : Prop := Cell L c.kc c.k ∧ Cell L c.vc c.v
def RCell.sp (c : RCell) : Bytes := 0x20 :: c.bytes

/-- first pair, then each further pair after a space, then the newline -/
def renderLine (c : RCell) (cs : List RCell) : Bytes := c.bytes ++ (cs.flatMap RCell.sp ++ [0x0a])

theorem pairs_renderLine (L : Lex) :
    ∀ (cs : List RCell) (c : RCell) (fuel : Nat), c.good L → (∀ x ∈ cs, x.good L) → cs.length < fuel →
      pairs L fuel (renderLine c cs) = some ((c.k, c.v) :: cs.map fun x => (x.k, x.v))
  | [], c, fuel + 1, hc, _, _ => by
    have h1 := hc.1 (0x3d :: (c.vc ++ [0x0a])) ⟨_, _, rfl, by simp⟩
    have h2 := hc.2 [0x0a] ⟨_, _, rfl, by simp⟩
    simp only [renderLine, RCell.bytes, List.flatMap_nil, List.nil_append, List.append_assoc,
      List.cons_append]
    simp [pairs, h1, h2]
  | c' :: cs, c, fuel + 1, hc, hcs, hf => by
    have ih := pairs_renderLine L cs c' fuel (hcs c' (by simp))
      (fun x hx => hcs x (by simp [hx])) (by simpa using hf)
    have h1 := hc.1 (0x3d :: (c.vc ++ (0x20 :: renderLine c' cs))) ⟨_, _, rfl, by simp⟩
    have h2 := hc.2 (0x20 :: renderLine c' cs) ⟨_, _, rfl, by simp⟩
    have e : renderLine c (c' :: cs) = c.kc ++ 0x3d :: (c.vc ++ (0x20 :: renderLine c' cs)) := by
      simp [renderLine, RCell.bytes, RCell.sp]
    rw [e]
    simp [pairs, h1, h2, ih]

theorem renderLine_length (c : RCell) (cs : List RCell) : cs.length < (renderLine c cs).length := by
  have : ∀ cs : List RCell, cs.length ≤ (cs.flatMap RCell.sp).length := by
    intro cs
    induction cs with
    | nil => simp
    | cons x xs ih =>
      simp only [List.flatMap_cons, List.length_append, RCell.sp, List.length_cons] at ih ⊢; omega
  have := this cs
  simp only [renderLine, List.length_append, List.length_cons, List.length_nil]; omega

theorem tokenize_renderLine (L : Lex) (c : RCell) (cs : List RCell) (hc : c.good L)
    (hcs : ∀ x ∈ cs, x.good L) :
    tokenize L (renderLine c cs) = some ((c.k, c.v) :: cs.map fun x => (x.k, x.v)) :=
  pairs_renderLine L cs c _ hc hcs (renderLine_length c cs)

/-! ## 5. the prefix-buffer bookkeeping equals the flattened dotted-path list -/

/-- what the handler writes for one leaf with its full name -/
def itemBytes (P : Std) (e : Bytes × Leaf) : Bytes :=
  0x20 :: (appendTextString P [] e.1 ++ 0x3d :: appendTextValue P [] e.2)

theorem appendTextValue_buf (P : Std) (buf : Bytes) (v : Leaf) :
    appendTextValue P buf v = buf ++ appendTextValue P [] v := by
  cases v <;> simp only [appendTextValue, List.nil_append] <;> exact appendTextString_buf P buf _

theorem dotted_snoc (comps : List Bytes) (k : Bytes) : dotted (comps ++ [k]) = dot (dotted comps) k := by
  simp [dotted, List.foldl_append]

/-- the name written for a leaf -/
theorem leaf_name (p key : Bytes) :
    (if p.length > 0 then p ++ [0x2e] ++ key else key) = dot p key := by
  cases p <;> simp [dot]

/-- the prefix rebuilt at the top of the group loop -/
theorem group_prefix (p key : Bytes) :
    (if key.length > 0 then (if (decide (p.length > 0) && decide (key.length > 0)) = true then p ++ [0x2e] else p) ++ key
      else (if (decide (p.length > 0) && decide (key.length > 0)) = true then p ++ [0x2e] else p))
      = if key.isEmpty then p else dot p key := by
  cases p <;> cases key <;> simp [dot]

/-- entering a group only extends the prefix -/
theorem group_prefix_ext (p key : Bytes) : ∃ s1, (if key.isEmpty then p else dot p key) = p ++ s1 := by
  cases key with
  | nil => exact ⟨[], by simp⟩
  | cons c key =>
    cases p with
    | nil => exact ⟨c :: key, by simp [dot]⟩
    | cons d p => exact ⟨0x2e :: c :: key, by simp [dot]⟩

mutual
theorem attr_render (P : Std) : ∀ (a : Attr) (buf : Bytes) (comps : List Bytes),
    ∃ t, appendTextAttr P buf (dotted comps) a
      = (buf ++ (flatAttr comps a).flatMap (itemBytes P), dotted comps ++ t)
  | .leaf key v, buf, comps => by
    simp only [appendTextAttr, flatAttr, List.flatMap_cons, List.flatMap_nil, List.append_nil,
      itemBytes, dotted_snoc]
    rw [← leaf_name]
    split
    · refine ⟨[0x2e] ++ key, ?_⟩
      rw [appendTextValue_buf, appendTextString_buf]
      simp
    · refine ⟨[], ?_⟩
      rw [appendTextValue_buf, appendTextString_buf]
      simp
  | .group key as, buf, comps => by
    simp only [appendTextAttr, flatAttr]
    have := group_render P as buf comps key []
    simpa using this
theorem group_render (P : Std) : ∀ (as : List Attr) (buf : Bytes) (comps : List Bytes) (key t0 : Bytes),
    ∃ t, appendTextGroup P buf (dotted comps ++ t0) (dotted comps).length key as
      = (buf ++ (flatAttrs (if key.isEmpty then comps else comps ++ [key]) as).flatMap (itemBytes P),
         dotted comps ++ t)
  | [], buf, comps, key, t0 => ⟨t0, by simp [appendTextGroup, flatAttrs]⟩
  | a :: rest, buf, comps, key, t0 => by
    simp only [appendTextGroup, List.take_left', flatAttrs, List.flatMap_append]
    rw [group_prefix]
    have hp : (if key.isEmpty then dotted comps else dot (dotted comps) key)
        = dotted (if key.isEmpty then comps else comps ++ [key]) := by
      split <;> simp [dotted_snoc]
    obtain ⟨s1, hs1⟩ := group_prefix_ext (dotted comps) key
    obtain ⟨t1, h1⟩ := attr_render P a buf (if key.isEmpty then comps else comps ++ [key])
    rw [hp, h1]
    simp only
    rw [← hp, hs1, List.append_assoc]
    obtain ⟨t2, h2⟩ := group_render P rest
      (buf ++ (flatAttr (if key.isEmpty then comps else comps ++ [key]) a).flatMap (itemBytes P))
      comps key (s1 ++ t1)
    exact ⟨t2, by rw [h2]; simp⟩
end

theorem appendAttrs_render (P : Std) (names : List Bytes) :
    ∀ (as : List Attr) (buf : Bytes),
      appendAttrs P buf (dotted names) as = buf ++ (flatAttrs names as).flatMap (itemBytes P)
  | [], buf => by simp [appendAttrs, flatAttrs]
  | a :: rest, buf => by
    obtain ⟨t, h⟩ := attr_render P a buf names
    simp only [appendAttrs, h, flatAttrs, List.flatMap_append]
    rw [appendAttrs_render P names rest]
    simp

theorem withGroup_dot (h : Handler) (g : Bytes) :
    withGroup h g = { h with groupPrefix := dot h.groupPrefix g } := by
  unfold withGroup dot
  cases hg : h.groupPrefix <;> simp

/-- a derivation chain leaves the pre-rendered leaves of its `With`s and the dotted group names -/
theorem derive_render (P : Std) :
    ∀ (chain : List Op) (h : Handler) (names : List Bytes), h.groupPrefix = dotted names →
      (chain.foldl (applyOp P) h).pre = h.pre ++ (flatChain names chain).1.flatMap (itemBytes P)
      ∧ (chain.foldl (applyOp P) h).groupPrefix = dotted (flatChain names chain).2
  | [], h, names, hg => by simp [flatChain, hg]
  | .withAttrs as :: rest, h, names, hg => by
    simp only [List.foldl_cons, applyOp, flatChain, List.flatMap_append]
    by_cases he : as = []
    · subst he
      have := derive_render P rest h names hg
      simpa [withAttrs, flatAttrs] using this
    · have hlen : (as.length == 0) = false := by
        cases as with
        | nil => exact absurd rfl he
        | cons a as => simp
      have := derive_render P rest { h with pre := appendAttrs P h.pre h.groupPrefix as } names hg
      simp only [withAttrs, hlen]
      rw [hg, appendAttrs_render] at this ⊢
      simpa using this
  | .withGroup g :: rest, h, names, hg => by
    simp only [List.foldl_cons, applyOp, flatChain]
    rw [withGroup_dot]
    have := derive_render P rest { h with groupPrefix := dot h.groupPrefix g } (names ++ [g])
      (by simp [hg, dotted_snoc])
    simpa using this

/-- the line `Handle` writes, as key/value cells -/
theorem handle_render (P : Std) (addSource : Bool) (chain : List Op) (r : Record)
    (hl : validLevel r.level) :
    handle P addSource (derive P chain) r = .ok (
      (timeKey ++ 0x3d :: r.time)
      ++ 0x20 :: (levelKey ++ 0x3d :: levelName r.level)
      ++ (if addSource then 0x20 :: (sourceKey ++ 0x3d :: appendTextString P [] (sourceText r)) else [])
      ++ 0x20 :: (msgKey ++ 0x3d :: appendTextString P [] r.msg)
      ++ (flat chain r).flatMap (itemBytes P)
      ++ [0x0a]) := by
  obtain ⟨hpre, hgp⟩ := derive_render P chain {} [] (by simp [dotted])
  have hlev := Tie.TextLogger.fullLevel_valid r.level hl
  unfold handle derive
  rw [hlev]
  simp only [bind, Except.bind, pure, Except.pure]
  rw [hgp, hpre]
  congr 1
  have e1 : ∀ (b : Bytes) (l : List Attr) (n : List Bytes),
      (if l.length > 0 then appendAttrs P b (dotted n) l else b)
        = b ++ (flatAttrs n l).flatMap (itemBytes P) := by
    intro b l n
    cases l with
    | nil => simp [flatAttrs]
    | cons a l => simp [appendAttrs_render]
  have e2 : ∀ (b x : Bytes), (if x.length > 0 then b ++ x else b) = b ++ x := by
    intro b x; cases x <;> simp
  rw [e1, e2]
  simp only [flat, List.flatMap_append]
  cases addSource
  · simp only [Bool.false_eq_true, if_false]
    rw [appendTextString_buf]
    simp
  · simp only [if_true]
    rw [appendTextString_buf P _ r.msg, appendTextString_buf P _ (sourceText r)]
    simp

theorem cell_value (P : Std) (u : Bytes → Option Bytes) (hq : QuoteContract P.quote u) (v : Leaf)
    (hv : leafOK (lexOf P u) v) : Cell (lexOf P u) (appendTextValue P [] v) (leafText v) := by
  cases v with
  | raw k t => simpa [appendTextValue, leafText] using cell_bare _ hv
  | str s => exact cell_appendTextString P u hq s
  | via k s => exact cell_appendTextString P u hq s
  | panicNil => exact cell_appendTextString P u hq _
  | panicVal s => exact cell_appendTextString P u hq _

def itemCell (P : Std) (e : Bytes × Leaf) : RCell :=
  { kc := appendTextString P [] e.1, k := e.1, vc := appendTextValue P [] e.2, v := leafText e.2 }

theorem itemCell_sp (P : Std) (e : Bytes × Leaf) : (itemCell P e).sp = itemBytes P e := rfl

theorem flatMap_itemBytes (P : Std) (l : List (Bytes × Leaf)) :
    l.flatMap (itemBytes P) = (l.map (itemCell P)).flatMap RCell.sp := by
  induction l with
  | nil => rfl
  | cons e l ih => simp [ih, itemCell_sp]

theorem keys_bare (L : Lex) : bareTok L timeKey ∧ bareTok L levelKey ∧ bareTok L sourceKey ∧ bareTok L msgKey := by
  refine ⟨⟨by decide, ?_⟩, ⟨by decide, ?_⟩, ⟨by decide, ?_⟩, ⟨by decide, ?_⟩⟩ <;> rfl

theorem levelName_bare (L : Lex) (l : Int) : bareTok L (levelName l) := by
  unfold levelName
  repeat' split
  all_goals exact ⟨by decide, rfl⟩

/-! ## 6. whatever the tokenizer accepts is one line -/

theorem spanBare_spec (L : Lex) : ∀ (s : Bytes) (k : Nat), (∀ x ∈ s.take k, 0x80 ≤ x) →
    s = (spanBare L k s).1 ++ (spanBare L k s).2 ∧ ∀ b ∈ (spanBare L k s).1, 0x20 < b
  | [], _, _ => by simp [spanBare]
  | b :: rest, k + 1, h => by
    have hb : 0x80 ≤ b := h b (by simp)
    have ih := spanBare_spec L rest k (fun x hx => h x (by simp [hx]))
    simp only [spanBare]
    refine ⟨by simpa using ih.1, ?_⟩
    intro x hx
    simp only [List.mem_cons] at hx
    rcases hx with rfl | hx
    · simp only [UInt8.le_iff_toNat_le, UInt8.lt_iff_toNat_lt] at hb ⊢; simp at hb ⊢; omega
    · exact ih.2 x hx
  | b :: rest, 0, _ => by
    simp only [spanBare]
    split
    · simp
    · rename_i n hn
      have hcont : ∀ x ∈ rest.take (n - 1), 0x80 ≤ x := by
        simp only [bareRuneLen] at hn
        split at hn
        · split at hn <;> simp at hn
          subst hn; simp
        · rename_i hb
          split at hn
          · simp at hn
          · split at hn
            · simp at hn
            · simp at hn; subst hn
              exact decodeRune_cont b rest hb (by omega)
      have hb : 0x20 < b := by
        simp only [bareRuneLen] at hn
        split at hn
        · split at hn
          · rename_i ha
            simp only [bareAscii, Bool.and_eq_true, Bool.not_eq_true', decide_eq_false_iff_not] at ha
            simp only [UInt8.le_iff_toNat_le, UInt8.lt_iff_toNat_lt] at ha ⊢; omega
          · simp at hn
        · rename_i hb
          simp only [UInt8.lt_iff_toNat_lt] at hb ⊢; simp at hb ⊢; omega
      have ih := spanBare_spec L rest (n - 1) hcont
      refine ⟨by simpa using ih.1, ?_⟩
      intro x hx
      simp only [List.mem_cons] at hx
      rcases hx with rfl | hx
      · exact hb
      · exact ih.2 x hx

theorem scanQuoted_spec : ∀ (s : Bytes) (esc : Bool) (body r : Bytes),
    scanQuoted esc s = some (body, r) → s = body ++ 0x22 :: r ∧ ∀ b ∈ body, 0x20 ≤ b
  | [], _, _, _, h => by simp [scanQuoted] at h
  | b :: rest, true, body, r, h => by
    simp only [scanQuoted] at h
    split at h
    · simp at h
    · rename_i hb
      simp only [Option.map_eq_some_iff] at h
      obtain ⟨⟨b1, r1⟩, h1, h2⟩ := h
      simp only [Prod.mk.injEq] at h2
      obtain ⟨rfl, rfl⟩ := h2
      have ih := scanQuoted_spec rest false b1 r1 h1
      refine ⟨by simp [ih.1], ?_⟩
      intro x hx
      simp only [List.mem_cons] at hx
      rcases hx with rfl | hx
      · simp only [UInt8.le_iff_toNat_le, UInt8.lt_iff_toNat_lt] at hb ⊢; omega
      · exact ih.2 x hx
  | b :: rest, false, body, r, h => by
    simp only [scanQuoted] at h
    split at h
    · simp at h
    · rename_i hb
      split at h
      · rename_i h22
        simp at h22
        simp only [Option.some.injEq, Prod.mk.injEq] at h
        obtain ⟨rfl, rfl⟩ := h
        simp [h22]
      · simp only [Option.map_eq_some_iff] at h
        obtain ⟨⟨b1, r1⟩, h1, h2⟩ := h
        simp only [Prod.mk.injEq] at h2
        obtain ⟨rfl, rfl⟩ := h2
        have ih := scanQuoted_spec rest _ b1 r1 h1
        refine ⟨by simp [ih.1], ?_⟩
        intro x hx
        simp only [List.mem_cons] at hx
        rcases hx with rfl | hx
        · simp only [UInt8.le_iff_toNat_le, UInt8.lt_iff_toNat_lt] at hb ⊢; omega
        · exact ih.2 x hx

/-- a token is a newline-free stretch of the input -/
theorem token_spec (L : Lex) (s v r : Bytes) (h : token L s = some (v, r)) :
    ∃ c, s = c ++ r ∧ (0x0a : UInt8) ∉ c := by
  cases s with
  | nil => simp [token] at h
  | cons b rest =>
    simp only [token] at h
    split at h
    · rename_i hb
      simp at hb; subst hb
      split at h
      · simp at h
      · rename_i body after hs
        split at h
        · simp at h
        · simp only [Option.some.injEq, Prod.mk.injEq] at h
          obtain ⟨_, rfl⟩ := h
          have := scanQuoted_spec rest false body after hs
          refine ⟨0x22 :: body ++ [0x22], by simp [this.1], ?_⟩
          intro hm
          simp only [List.cons_append, List.mem_cons, List.mem_append, List.mem_nil_iff, or_false] at hm
          rcases hm with hm | hm | hm
          · exact absurd hm (by decide)
          · exact absurd (this.2 _ hm) (by decide)
          · exact absurd hm (by decide)
    · split at h
      · simp at h
      · simp only [Option.some.injEq] at h
        have := spanBare_spec L (b :: rest) 0 (by simp)
        rw [h] at this
        refine ⟨v, this.1, ?_⟩
        intro hm
        exact absurd (this.2 _ hm) (by decide)

theorem pairs_one_line (L : Lex) : ∀ (fuel : Nat) (s : Bytes) (kvs : List (Bytes × Bytes)),
    pairs L fuel s = some kvs → ∃ body, s = body ++ [0x0a] ∧ (0x0a : UInt8) ∉ body
  | 0, _, _, h => by simp [pairs] at h
  | fuel + 1, s, kvs, h => by
    simp only [pairs] at h
    split at h
    · simp at h
    · rename_i k r1 hk
      obtain ⟨c1, hs1, hn1⟩ := token_spec L s k r1 hk
      split at h
      · simp at h
      · rename_i c r2
        split at h
        · simp at h
        · rename_i hc
          simp at hc; subst hc
          split at h
          · simp at h
          · rename_i v r3 hv
            obtain ⟨c2, hs2, hn2⟩ := token_spec L r2 v r3 hv
            split at h
            · simp at h
            · rename_i d r4
              split at h
              · rename_i hd
                simp at hd; subst hd
                split at h
                · rename_i he
                  have : r4 = [] := by simpa using he
                  subst this
                  refine ⟨c1 ++ 0x3d :: c2, by simp [hs1, hs2], ?_⟩
                  simp only [List.mem_append, List.mem_cons, not_or]
                  exact ⟨hn1, by decide, hn2⟩
                · simp at h
              · split at h
                · rename_i hd
                  simp at hd; subst hd
                  simp only [Option.map_eq_some_iff] at h
                  obtain ⟨l, hl, _⟩ := h
                  obtain ⟨body, hb, hnb⟩ := pairs_one_line L fuel r4 l hl
                  refine ⟨c1 ++ 0x3d :: (c2 ++ 0x20 :: body), by simp [hs1, hs2, hb], ?_⟩
                  simp only [List.mem_append, List.mem_cons, not_or]
                  exact ⟨hn1, by decide, hn2, by decide, hnb⟩
                · simp at h

/-! ## 7. byte-level reading of the bare class -/

theorem allBare_bytes (L : Lex) : ∀ (s : Bytes) (k : Nat), (∀ x ∈ s.take k, 0x80 ≤ x) →
    allBare L k s = true → ∀ b ∈ s, 0x20 < b ∧ b ≠ 0x3d ∧ b ≠ 0x22
  | [], _, _, _ => by simp
  | b :: rest, k + 1, h, ha => by
    have hb : 0x80 ≤ b := h b (by simp)
    have ih := allBare_bytes L rest k (fun x hx => h x (by simp [hx])) (by simpa [allBare] using ha)
    intro x hx
    simp only [List.mem_cons] at hx
    rcases hx with rfl | hx
    · simp only [UInt8.le_iff_toNat_le, UInt8.lt_iff_toNat_lt, ne_eq, ← UInt8.toNat_inj] at hb ⊢
      simp at hb ⊢; omega
    · exact ih x hx
  | b :: rest, 0, _, ha => by
    simp only [allBare] at ha
    split at ha
    · simp at ha
    · rename_i n hn
      have hcont : ∀ x ∈ rest.take (n - 1), 0x80 ≤ x := by
        simp only [bareRuneLen] at hn
        split at hn
        · split at hn <;> simp at hn
          subst hn; simp
        · rename_i hb
          split at hn
          · simp at hn
          · split at hn
            · simp at hn
            · simp at hn; subst hn
              exact decodeRune_cont b rest hb (by omega)
      have hb : 0x20 < b ∧ b ≠ 0x3d ∧ b ≠ 0x22 := by
        simp only [bareRuneLen] at hn
        split at hn
        · split at hn
          · rename_i ha
            simp only [bareAscii, Bool.and_eq_true, Bool.not_eq_true', decide_eq_false_iff_not,
              bne_iff_ne, ne_eq] at ha
            refine ⟨?_, ha.1.2, ha.2⟩
            simp only [UInt8.le_iff_toNat_le, UInt8.lt_iff_toNat_lt] at ha ⊢; omega
          · simp at hn
        · rename_i hb
          simp only [UInt8.lt_iff_toNat_lt, ne_eq, ← UInt8.toNat_inj] at hb ⊢; simp at hb ⊢; omega
      have ih := allBare_bytes L rest (n - 1) hcont ha
      intro x hx
      simp only [List.mem_cons] at hx
      rcases hx with rfl | hx
      · exact hb
      · exact ih x hx

/-! ## 8. the `\\xNN` instance of the strconv contract; dotted paths -/

theorem nibVal_hexNib (n : Nat) (h : n < 16) : nibVal (hexNib n) = some n := by
  have : ∀ n ∈ List.range 16, nibVal (hexNib n) = some n := by decide
  exact this n (List.mem_range.mpr h)

theorem hexNib_ge (n : Nat) (h : n < 16) : ¬ hexNib n < 0x20 ∧ hexNib n ≠ 0x22 ∧ hexNib n ≠ 0x5c := by
  have : ∀ n ∈ List.range 16, ¬ hexNib n < 0x20 ∧ hexNib n ≠ 0x22 ∧ hexNib n ≠ 0x5c := by decide
  exact this n (List.mem_range.mpr h)

theorem xDecode_xBody : ∀ s : Bytes, xDecode (xBody s ++ [0x22]) = some s
  | [] => rfl
  | b :: rest => by
    have h1 := nibVal_hexNib (b.toNat / 16) (by have := b.toNat_lt; omega)
    have h2 := nibVal_hexNib (b.toNat % 16) (by omega)
    have hb : UInt8.ofNat (b.toNat / 16 * 16 + b.toNat % 16) = b := by
      rw [Nat.div_add_mod']; simp
    simp [xBody, xDecode, h1, h2, xDecode_xBody rest, hb]

theorem xBody_interior : ∀ s : Bytes, interiorOK false (xBody s) = true
  | [] => rfl
  | b :: rest => by
    have h1 := hexNib_ge (b.toNat / 16) (by have := b.toNat_lt; omega)
    have h2 := hexNib_ge (b.toNat % 16) (by omega)
    have e1 : (hexNib (b.toNat / 16) == 0x5c) = false := by simp [h1.2.2]
    have e2 : (hexNib (b.toNat % 16) == 0x5c) = false := by simp [h2.2.2]
    simp [xBody, interiorOK, h1.1, h1.2.1, h2.1, h2.2.1, e1, e2, xBody_interior rest]

theorem dot_ne_nil (p k : Bytes) (h : p ≠ []) : dot p k ≠ [] := by
  cases p with
  | nil => exact absurd rfl h
  | cons a p => simp [dot]

theorem foldl_dot (cs : List Bytes) : ∀ p : Bytes, p ≠ [] →
    cs.foldl dot p = p ++ (cs.map fun c => 0x2e :: c).flatten := by
  induction cs with
  | nil => simp
  | cons c cs ih =>
    intro p hp
    have := ih (dot p c) (dot_ne_nil p c hp)
    cases p with
    | nil => exact absurd rfl hp
    | cons a p => rw [List.foldl_cons, this]; simp [dot]

/-! ## 9. the source-location trimming loop -/

theorem sourceScan_noslash_rev : ∀ (y rest acc : Bytes) (first : Bool), (0x2f : UInt8) ∉ y →
    sourceScan (y ++ rest) first acc = sourceScan rest first (y.reverse ++ acc)
  | [], _, _, _, _ => by simp
  | c :: y, rest, acc, first, h => by
    simp only [List.mem_cons, not_or] at h
    have hc : (c == 0x2f) = false := by
      rw [beq_eq_false_iff_ne]; exact fun e => h.1 e.symm
    simp only [List.cons_append, sourceScan, hc, Bool.false_eq_true, if_false]
    rw [sourceScan_noslash_rev y rest (c :: acc) first h.2]
    simp

theorem sourceScan_noslash (x rest acc : Bytes) (first : Bool) (h : (0x2f : UInt8) ∉ x) :
    sourceScan (x.reverse ++ rest) first acc = sourceScan rest first (x ++ acc) := by
  have := sourceScan_noslash_rev x.reverse rest acc first (by simpa using h)
  simpa using this

end Glb.TextProofs
