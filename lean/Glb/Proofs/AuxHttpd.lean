/- Lemmas about the GetClientIP / CookieValue models. -/
import Glb.Model.AuxHttpd
import Glb.Proofs.AuxNetutil

namespace Glb.Aux.Httpd
open Glb Glb.Aux.Net

theorem slice_indexByte (ip : Bytes) (c : UInt8) (i : Nat) (h : indexByte ip c = some i) :
    slice? ip 0 i = .ok (upTo c ip) := by
  induction ip generalizing i with
  | nil => simp [indexByte] at h
  | cons x rest ih =>
    by_cases hx : x = c
    · simp [indexByte, hx] at h
      subst h
      simp [slice?, upTo, hx]
    · simp only [indexByte, hx, if_false, Option.map_eq_some_iff] at h
      obtain ⟨j, hj, rfl⟩ := h
      have := ih j hj
      unfold slice? at this ⊢
      by_cases hb : 0 ≤ j ∧ j ≤ rest.length
      · rw [if_pos hb] at this
        rw [if_pos (by simp; omega)]
        simp only [List.drop_zero, Nat.sub_zero, Except.ok.injEq] at this
        simp [upTo, hx, this]
      · rw [if_neg hb] at this; cases this

theorem indexByte_none (ip : Bytes) (c : UInt8) (h : indexByte ip c = none) : upTo c ip = ip := by
  induction ip with
  | nil => rfl
  | cons x rest ih =>
    by_cases hx : x = c
    · simp [indexByte, hx] at h
    · simp only [indexByte, hx, if_false, Option.map_eq_none_iff] at h
      simp [upTo, hx, ih h]

/-- the X-Forwarded-For branch: everything before the first comma -/
theorem forwarded_first (ip : Bytes) :
    (match indexByte ip comma with
     | some i => slice? ip 0 i
     | none => (pure ip : Except GoPanic Bytes)) = .ok (upTo comma ip) := by
  cases h : indexByte ip comma with
  | some i => exact slice_indexByte ip comma i h
  | none => rw [indexByte_none ip comma h]; rfl

theorem getClientIP_eq (h : Header) (remote : Bytes) :
    ∃ host port, splitHostPort remote = .ok (host, port) ∧
    getClientIP h remote = .ok (
      if get h xClientIP ≠ [] then get h xClientIP
      else if get h xForwardedFor ≠ [] then upTo comma (get h xForwardedFor)
      else if get h xRealIP ≠ [] then get h xRealIP
      else host) := by
  obtain ⟨host, port, hs⟩ := split_total remote
  refine ⟨host, port, hs, ?_⟩
  unfold getClientIP
  dsimp only
  by_cases h1 : get h xClientIP ≠ []
  · rw [if_pos h1, if_pos h1]; rfl
  · rw [if_neg h1, if_neg h1]
    by_cases h2 : get h xForwardedFor ≠ []
    · rw [if_pos h2, if_pos h2]; exact forwarded_first _
    · rw [if_neg h2, if_neg h2]
      by_cases h3 : get h xRealIP ≠ []
      · rw [if_pos h3, if_pos h3]; rfl
      · rw [if_neg h3, if_neg h3, hs]; rfl

theorem upTo_not_mem (c : UInt8) (ip : Bytes) : c ∉ upTo c ip := by
  induction ip with
  | nil => simp [upTo]
  | cons x rest ih =>
    by_cases hx : x = c
    · simp [upTo, hx]
    · simp [upTo, hx, ih, Ne.symm hx]

theorem upTo_prefix (c : UInt8) (ip : Bytes) :
    upTo c ip = ip ∨ ∃ rest, ip = upTo c ip ++ c :: rest := by
  induction ip with
  | nil => left; rfl
  | cons x rest ih =>
    by_cases hx : x = c
    · right; exact ⟨rest, by simp [upTo, hx]⟩
    · rcases ih with ih | ⟨r, ih⟩
      · left; simp [upTo, hx, ih]
      · right; exact ⟨r, by simp only [upTo, hx, if_false, List.cons_append]; rw [← ih]⟩

theorem cookie_first (pre post : List (Bytes × Bytes)) (name v : Bytes) (hn : name ≠ [])
    (hp : ∀ c ∈ pre, c.1 ≠ name) : cookieValue (pre ++ (name, v) :: post) name = v := by
  unfold cookieValue
  rw [if_neg hn]
  have : (pre ++ (name, v) :: post).find? (fun c => c.1 = name) = some (name, v) := by
    induction pre with
    | nil => simp
    | cons c pre ih =>
      have hc := hp c (List.mem_cons_self ..)
      simp [hc, ih (fun c hc => hp c (List.mem_cons_of_mem _ hc))]
  rw [this]

theorem cookie_absent (cookies : List (Bytes × Bytes)) (name : Bytes)
    (h : name = [] ∨ ∀ c ∈ cookies, c.1 ≠ name) : cookieValue cookies name = [] := by
  unfold cookieValue
  by_cases hn : name = []
  · rw [if_pos hn]
  · rw [if_neg hn]
    rcases h with h | h
    · exact absurd h hn
    · have : cookies.find? (fun c => c.1 = name) = none := by
        simp only [List.find?_eq_none]
        intro c hc
        simpa using h c hc
      rw [this]

end Glb.Aux.Httpd
