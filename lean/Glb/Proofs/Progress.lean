/-
  Helper lemmas for C19: prefix sums, the inductive invariant `Good` of the ProgressWriter
  transition system and its preservation by every enabled step.
-/
import Glb.Model.Progress

namespace Glb.Progress
open Glb.Generated

/-! ## prefix sums -/

theorem psumsFrom_append (acc : Int) (l : List Int) (x : Int) :
    psumsFrom acc (l ++ [x]) = psumsFrom acc l ++ [acc + l.sum + x] := by
  induction l generalizing acc with
  | nil => simp [psumsFrom]
  | cons y ys ih => simp [psumsFrom, ih]; omega

theorem psums_append (l : List Int) (x : Int) : psums (l ++ [x]) = psums l ++ [l.sum + x] := by
  simp [psums, psumsFrom_append]

theorem sum_nonneg (l : List Int) (h : ∀ x ∈ l, 0 ≤ x) : 0 ≤ l.sum := by
  induction l with
  | nil => simp
  | cons y ys ih =>
    have := h y (by simp)
    have := ih (fun x hx => h x (by simp [hx]))
    simp; omega

theorem psumsFrom_bounds (l : List Int) (h : ∀ x ∈ l, 0 ≤ x) (acc : Int) :
    ∀ v ∈ psumsFrom acc l, acc ≤ v ∧ v ≤ acc + l.sum := by
  induction l generalizing acc with
  | nil => simp [psumsFrom]
  | cons y ys ih =>
    intro v hv
    have hy : 0 ≤ y := h y (by simp)
    have hys : ∀ x ∈ ys, 0 ≤ x := fun x hx => h x (by simp [hx])
    have hs : 0 ≤ ys.sum := sum_nonneg ys hys
    simp only [psumsFrom, List.mem_cons] at hv
    rcases hv with rfl | hv
    · simp; omega
    · have := ih hys (acc + y) v hv
      simp; omega

theorem psumsFrom_pairwise (l : List Int) (h : ∀ x ∈ l, 0 ≤ x) (acc : Int) :
    (psumsFrom acc l).Pairwise (· ≤ ·) := by
  induction l generalizing acc with
  | nil => simp [psumsFrom]
  | cons y ys ih =>
    have hys : ∀ x ∈ ys, 0 ≤ x := fun x hx => h x (by simp [hx])
    simp only [psumsFrom, List.pairwise_cons]
    exact ⟨fun v hv => (psumsFrom_bounds ys hys (acc + y) v hv).1, ih hys _⟩

/-- with non-negative counts the prefix sums, followed once more by the total, are non-decreasing -/
theorem psums_total_pairwise (l : List Int) (h : ∀ x ∈ l, 0 ≤ x) :
    (psums l ++ [l.sum]).Pairwise (· ≤ ·) := by
  rw [List.pairwise_append]
  refine ⟨psumsFrom_pairwise l h 0, by simp, ?_⟩
  intro a ha b hb
  have := psumsFrom_bounds l h 0 a ha
  simp at hb; subst hb; omega

/-! ## the inductive invariant -/

/-- after Close's send: the received sequence is a subsequence of the prefix sums followed by
    the total -/
def Total (s : St) : Prop :=
  ∃ l : List Int, l.Sublist (psums s.reported) ∧ s.recvd = l ++ [s.reported.sum]

/-- history: what has been reported plus what is still to be written is the program -/
def Hist (P : Prog) (s : St) : Prop := s.reported ++ counts s.todo = counts P.writes

def Good (P : Prog) (s : St) : Prop :=
  (s.cons = .gotClosed → s.closed = true) ∧
  match s.cur with
  | none =>
    s.cont = [] ∧ s.size = s.reported.sum ∧ Hist P s ∧
    (if s.closeDone then
       s.closed = true ∧ s.sentTotal = true ∧ s.todo = [] ∧ s.wantClose = false ∧ Total s
     else s.closed = false ∧ s.sentTotal = false ∧ s.recvd.Sublist (psums s.reported))
  | some (.w o) =>
    s.closed = false ∧ s.sentTotal = false ∧ s.closeDone = false ∧
    ( (s.cont = progOf (.w o) ∧ s.size = s.reported.sum ∧
         s.reported ++ o.n :: counts s.todo = counts P.writes ∧
         s.recvd.Sublist (psums s.reported))
    ∨ (∃ R0, s.reported = R0 ++ [o.n] ∧ s.reg = o.n ∧ Hist P s ∧ s.recvd.Sublist (psums R0) ∧
         ( ((s.cont = [.callSum, .ret] ∨
             s.cont = [.addSize, .ifStatus, .trySendSize, .endIf, .ret]) ∧ s.size = R0.sum)
         ∨ ((s.cont = [.ifStatus, .trySendSize, .endIf, .ret] ∨
             s.cont = [.trySendSize, .endIf, .ret]) ∧ s.size = s.reported.sum)))
    ∨ (s.reg = o.n ∧ (s.cont = [.endIf, .ret] ∨ s.cont = [.ret]) ∧ s.size = s.reported.sum ∧
         Hist P s ∧ s.recvd.Sublist (psums s.reported)))
  | some .close =>
    s.todo = [] ∧ s.wantClose = false ∧ s.closeDone = false ∧ s.reported = counts P.writes ∧
    s.size = s.reported.sum ∧
    ( ((s.cont = closeProg ∨ s.cont = [.sendSize, .closeStatus, .endIf]) ∧
         s.closed = false ∧ s.sentTotal = false ∧ s.recvd.Sublist (psums s.reported))
    ∨ (s.cont = [.closeStatus, .endIf] ∧ s.closed = false ∧ s.sentTotal = true ∧ Total s)
    ∨ ((s.cont = [.endIf] ∨ s.cont = []) ∧ s.closed = true ∧ s.sentTotal = true ∧ Total s))

theorem good_init (P : Prog) : Good P (init P) := by
  simp [Good, init, Hist, psums, psumsFrom]

theorem good_step (P : Prog) (s : St) (l : Label) (s' : St)
    (hg : Good P s) (hstep : (l, s') ∈ enabled s) : Good P s' := by
  obtain ⟨size, reg, cur, cont, todo, wantClose, cons, closed, reported, recvd, sentTotal,
    closeDone⟩ := s
  simp only [enabled, List.mem_append] at hstep
  rcases hstep with hp | hc
  · -- producer steps
    cases cur with
    | none =>
      simp only [Good, Hist, Total] at hg
      obtain ⟨hgc, rfl, hsz, hh, hrest⟩ := hg
      cases todo with
      | nil =>
        by_cases hw : wantClose = true
        · subst hw
          simp [prodSteps] at hp
          obtain ⟨rfl, rfl⟩ := hp
          by_cases hcd : closeDone = true
          · simp [hcd] at hrest
          · simp [hcd] at hrest
            simp [counts] at hh
            simp [Good, progOf, hrest, hsz, counts, hh]
            grind
        · simp [prodSteps, hw] at hp
      | cons o rest =>
        simp [prodSteps] at hp
        obtain ⟨rfl, rfl⟩ := hp
        by_cases hcd : closeDone = true
        · simp [hcd] at hrest
        · simp [hcd] at hrest
          simp [counts] at hh
          simp [Good, hrest, hsz, counts, hh]
          grind
    | some c =>
      cases c with
      | w o =>
        simp only [Good, Hist] at hg
        obtain ⟨hgc, hcl, hst, hcd, hcase⟩ := hg
        subst hcl hst hcd
        rcases hcase with ⟨rfl, hsz, hh, hsub⟩ | ⟨R0, rfl, rfl, hh, hsub, hc⟩ | ⟨rfl, hc, hsz, hh, hsub⟩
        · -- before the wrapped writer is called
          by_cases hs : o.str = true <;>
            simp [prodSteps, progOf, hs, writeProg, writeStringProg] at hp <;>
            (obtain ⟨rfl, rfl⟩ := hp
             simp [Good, Hist, counts] at hh ⊢
             grind)
        · rcases hc with ⟨hc | hc, hsz⟩ | ⟨hc | hc, hsz⟩ <;> subst hc
          · -- callSum
            simp [prodSteps, sumProg] at hp
            obtain ⟨rfl, rfl⟩ := hp
            simp [Good, Hist] at hh ⊢
            grind
          · -- addSize
            simp [prodSteps] at hp
            obtain ⟨rfl, rfl⟩ := hp
            simp [Good, Hist] at hh ⊢
            grind
          · -- ifStatus
            simp [prodSteps] at hp
            obtain ⟨rfl, rfl⟩ := hp
            simp [Good, Hist] at hh ⊢
            grind
          · -- trySendSize
            by_cases hpk : cons = .parked
            · subst hpk
              simp [prodSteps, rendezvous] at hp
              obtain ⟨rfl, rfl⟩ := hp
              have := hsub.append_right [R0.sum + o.n]
              simp [Good, Hist, psums_append] at hh hsz ⊢
              grind
            · simp [prodSteps, hpk] at hp
              obtain ⟨rfl, rfl⟩ := hp
              have := hsub.trans (List.sublist_append_left _ [R0.sum + o.n])
              simp [Good, Hist, psums_append] at hh hsz ⊢
              grind
        · rcases hc with hc | hc <;> subst hc
          · -- endIf
            simp [prodSteps] at hp
            obtain ⟨rfl, rfl⟩ := hp
            simp [Good, Hist] at hh ⊢
            grind
          · -- ret
            simp [prodSteps, finish] at hp
            obtain ⟨rfl, rfl⟩ := hp
            simp [Good, Hist] at hh ⊢
            grind
      | close =>
        simp only [Good, Total] at hg
        obtain ⟨hgc, rfl, rfl, rfl, hrep, hsz, hcase⟩ := hg
        rcases hcase with ⟨hc | hc, rfl, rfl, hsub⟩ | ⟨rfl, rfl, rfl, lt, hlt, hrec⟩ |
            ⟨hc | hc, rfl, rfl, lt, hlt, hrec⟩ <;> try subst hc
        · -- ifStatus
          simp [prodSteps, closeProg] at hp
          obtain ⟨rfl, rfl⟩ := hp
          simp [Good, Total] at hsz ⊢
          grind
        · -- sendSize (blocking)
          by_cases hpk : cons = .parked
          · subst hpk
            simp [prodSteps, rendezvous] at hp
            obtain ⟨rfl, rfl⟩ := hp
            simp [Good, Total] at hsz ⊢
            exact ⟨hrep, hsz, recvd, hsub, by simp [hsz]⟩
          · simp [prodSteps, hpk] at hp
        · -- closeStatus
          simp [prodSteps] at hp
          obtain ⟨rfl, rfl⟩ := hp
          simp [Good, Total] at hsz ⊢
          exact ⟨hrep, hsz, lt, hlt, hrec⟩
        · -- endIf
          simp [prodSteps] at hp
          obtain ⟨rfl, rfl⟩ := hp
          simp [Good, Total] at hsz ⊢
          exact ⟨hrep, hsz, lt, hlt, hrec⟩
        · -- end of body: Close returns
          simp [prodSteps, finish] at hp
          obtain ⟨rfl, rfl⟩ := hp
          simp [Good, Hist, Total, counts] at hsz ⊢
          exact ⟨hsz, hrep, lt, hlt, hrec⟩
  · -- consumer steps: only `cons` changes
    obtain ⟨hgc, hg⟩ := hg
    cases cons <;> simp [consSteps] at hc
    · obtain ⟨rfl, rfl⟩ := hc; exact ⟨by simp, hg⟩
    · rcases hc with ⟨rfl, rfl⟩ | ⟨hcl, rfl, rfl⟩
      · exact ⟨by simp, hg⟩
      · exact ⟨by simpa using hcl, hg⟩
    · obtain ⟨rfl, rfl⟩ := hc; exact ⟨by simp, hg⟩
    · obtain ⟨rfl, rfl⟩ := hc; exact ⟨by simp, hg⟩

theorem good_of_reachable (P : Prog) (s : St) (h : Reachable P s) : Good P s := by
  induction h with
  | init => exact good_init P
  | step _ hstep ih => exact good_step P _ _ _ ih hstep

/-- the reported counts are always a prefix of the program's counts -/
theorem reported_prefix (P : Prog) (s : St) (hg : Good P s) : s.reported <+: counts P.writes := by
  obtain ⟨size, reg, cur, cont, todo, wantClose, cons, closed, reported, recvd, sentTotal,
    closeDone⟩ := s
  cases cur with
  | none =>
    simp only [Good, Hist] at hg
    exact ⟨_, hg.2.2.2.1⟩
  | some c =>
    cases c with
    | w o =>
      simp only [Good, Hist] at hg
      obtain ⟨_, _, _, _, h | ⟨R0, _, _, h, _⟩ | h⟩ := hg
      · exact ⟨_, h.2.2.1⟩
      · exact ⟨_, h⟩
      · exact ⟨_, h.2.2.2.1⟩
    | close =>
      simp only [Good] at hg
      simp [hg.2.2.2.2.1]

/-- every step in `prodSteps` carries a producer label -/
theorem prodSteps_byProducer (s : St) (l : Label) (s' : St) (h : (l, s') ∈ prodSteps s) :
    l.byProducer = true := by
  unfold prodSteps at h
  repeat' split at h
  all_goals simp [finish, rendezvous] at h
  all_goals first | (obtain ⟨rfl, _⟩ := h; rfl) | skip
  all_goals (split at h <;> (simp at h; obtain ⟨rfl, _⟩ := h; rfl))

/-- executable schedules (used for the non-vacuity examples): take the `i`-th enabled step -/
def runFrom (s : St) : List Nat → Option St
  | [] => some s
  | i :: is => match (enabled s)[i]? with
    | some (_, s') => runFrom s' is
    | none => none

theorem runFrom_reachable (P : Prog) (s : St) (h : Reachable P s) (sched : List Nat) (t : St)
    (hr : runFrom s sched = some t) : Reachable P t := by
  induction sched generalizing s with
  | nil => simp [runFrom] at hr; subst hr; exact h
  | cons i is ih =>
    simp only [runFrom] at hr
    split at hr
    · next l s' he => exact ih s' (.step h (List.mem_of_getElem? he)) hr
    · simp at hr

/-- a decidable way to exhibit reachable states: run a schedule, test the final state -/
theorem run_witness (P : Prog) (sched : List Nat) (p : St → Bool)
    (h : (runFrom (init P) sched).any p = true) : ∃ s, Reachable P s ∧ p s = true := by
  cases hr : runFrom (init P) sched with
  | none => simp [hr] at h
  | some t => exact ⟨t, runFrom_reachable P _ .init _ t hr, by simpa [hr] using h⟩

end Glb.Progress
