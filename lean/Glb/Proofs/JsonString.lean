/-
  Lemmas about `appendJsonString` (C01): unfolding equations of the byte loop, the case analysis of
  the UTF-8 decoder model, and faithfulness w.r.t. the JSON string grammar `PStr` / `san`.
-/
import Glb.Spec.Json
import Glb.Tie.Logger

namespace Glb.JsonString
open Glb Glb.JsonHandler Glb.Json Glb.Utf8

/-! ### bytes ↔ naturals -/

theorem forall_uint8 (p : UInt8 → Prop) (h : ∀ n ∈ List.range 256, p (UInt8.ofNat n)) : ∀ b, p b := by
  intro b
  have := h b.toNat (by simp [List.mem_range]; exact b.toNat_lt)
  simpa using this

theorem safe_eq (b : UInt8) (hb : b < 0x80) :
    safe b = decide (0x20 ≤ b.toNat ∧ b.toNat ≠ 0x22 ∧ b.toNat ≠ 0x5C) := by
  have hn : b.toNat < 128 := by simpa [UInt8.lt_iff_toNat_lt] using hb
  have := Tie.Logger.safeSet_spec b.toNat (by simp [List.mem_range]; exact hn)
  simp [safe, this]

theorem safe_spec {b : UInt8} (hb : b < 0x80) (h : safe b = true) :
    0x20 ≤ b ∧ b ≠ 0x22 ∧ b ≠ 0x5C := by
  rw [safe_eq b hb] at h
  simp only [decide_eq_true_eq] at h
  refine ⟨?_, ?_, ?_⟩
  · simp [UInt8.le_iff_toNat_le]; omega
  · intro e; subst e; simp at h
  · intro e; subst e; simp at h

set_option maxRecDepth 8000 in
theorem hexAt_ge : ∀ n ∈ List.range 16, 0x30 ≤ hexAt n ∧ hexAt n < 0x80 := by decide

/-- shape of `escAscii b` as the grammar needs it -/
def escOk (b : UInt8) : Bool :=
  match escAscii b with
  | [0x5C, e] => simpleEsc e == some b
  | [0x5C, 0x75, w, x, y, z] =>
    hex4 w x y z == some b.toNat && !isSurr b.toNat && Utf8.encodeRune b.toNat == [b]
      && decide (0x20 ≤ w ∧ 0x20 ≤ x ∧ 0x20 ≤ y ∧ 0x20 ≤ z)
  | _ => false

set_option maxRecDepth 20000 in
theorem escOk_table : ∀ n ∈ List.range 128, escOk (UInt8.ofNat n) = true := by decide

theorem escOk_all (b : UInt8) (hb : b < 0x80) : escOk b = true := by
  have hn : b.toNat < 128 := by simpa [UInt8.lt_iff_toNat_lt] using hb
  have := escOk_table b.toNat (by simp [List.mem_range]; exact hn)
  simpa using this

/-! ### the decoder model, by cases -/

theorem lead_some {b : UInt8} {sz : Nat} {lo hi : UInt8} (h : lead b = some (sz, lo, hi)) :
    (sz = 2 ∨ sz = 3 ∨ sz = 4) ∧ 0xC2 ≤ b.toNat ∧ b.toNat ≤ 0xF4 ∧ 0x80 ≤ lo.toNat ∧ hi.toNat ≤ 0xBF
    ∧ (sz = 2 → b.toNat ≤ 0xDF) ∧ (sz = 3 → 0xE0 ≤ b.toNat ∧ b.toNat ≤ 0xEF) ∧ (sz = 4 → 0xF0 ≤ b.toNat)
    ∧ (b.toNat = 0xE0 → 0xA0 ≤ lo.toNat) ∧ (b.toNat = 0xED → hi.toNat ≤ 0x9F)
    ∧ (b.toNat = 0xF0 → 0x90 ≤ lo.toNat) ∧ (b.toNat = 0xF4 → hi.toNat ≤ 0x8F) := by
  unfold lead at h
  simp only [Bool.and_eq_true, decide_eq_true_eq, UInt8.le_iff_toNat_le, beq_iff_eq, ← UInt8.toNat_inj] at h
  repeat' split at h
  all_goals simp at h
  all_goals obtain ⟨rfl, rfl, rfl⟩ := h
  all_goals simp_all
  all_goals omega

theorem isCont_range {b : UInt8} (h : isCont b = true) : 0x80 ≤ b.toNat ∧ b.toNat ≤ 0xBF := by
  simpa [isCont, UInt8.le_iff_toNat_le] using h

/-- what `decodeRune (b0 :: rest)` returns -/
inductive DecCase (b0 : UInt8) (rest : Bytes) : Nat × Nat → Prop where
  | ascii : b0 < 0x80 → DecCase b0 rest (b0.toNat, 1)
  | bad : 0x80 ≤ b0 → DecCase b0 rest (runeError, 1)
  | two {lo hi b1 t} : lead b0 = some (2, lo, hi) → rest = b1 :: t → lo ≤ b1 → b1 ≤ hi →
      DecCase b0 rest (b0.toNat % 32 * 64 + b1.toNat % 64, 2)
  | three {lo hi b1 b2 t} : lead b0 = some (3, lo, hi) → rest = b1 :: b2 :: t → lo ≤ b1 → b1 ≤ hi →
      isCont b2 = true →
      DecCase b0 rest (b0.toNat % 16 * 4096 + b1.toNat % 64 * 64 + b2.toNat % 64, 3)
  | four {lo hi b1 b2 b3 t} : lead b0 = some (4, lo, hi) → rest = b1 :: b2 :: b3 :: t → lo ≤ b1 → b1 ≤ hi →
      isCont b2 = true → isCont b3 = true →
      DecCase b0 rest (b0.toNat % 8 * 262144 + b1.toNat % 64 * 4096 + b2.toNat % 64 * 64 + b3.toNat % 64, 4)

theorem decodeRune_cases (b0 : UInt8) (rest : Bytes) : DecCase b0 rest (decodeRune (b0 :: rest)) := by
  rw [decodeRune]
  split
  · exact .ascii ‹_›
  · have h80 : 0x80 ≤ b0 := by simp_all
    split
    · exact .bad h80
    · rename_i sz lo hi hl
      have hsz := (lead_some hl).1
      split
      · exact .bad h80
      · split
        · exact .bad h80
        · rename_i b1 rest1 hb1
          have hb1' : lo ≤ b1 ∧ b1 ≤ hi := by simpa using hb1
          split
          · rename_i h2
            have : sz = 2 := by simpa using h2
            subst this
            exact .two hl rfl hb1'.1 hb1'.2
          · rename_i h2
            split
            · exact .bad h80
            · split
              · exact .bad h80
              · rename_i b2 rest2 hb2
                have hb2' : isCont b2 = true := by simpa using hb2
                split
                · rename_i h3
                  have : sz = 3 := by simpa using h3
                  subst this
                  exact .three hl rfl hb1'.1 hb1'.2 hb2'
                · rename_i h3
                  have : sz = 4 := by
                    have h2' : sz ≠ 2 := by simpa using h2
                    have h3' : sz ≠ 3 := by simpa using h3
                    omega
                  subst this
                  split
                  · exact .bad h80
                  · split
                    · exact .bad h80
                    · rename_i b3 t hb3
                      have hb3' : isCont b3 = true := by simpa using hb3
                      exact .four hl rfl hb1'.1 hb1'.2 hb2' hb3'

/-! ### unfolding the loop -/

theorem ajsGo_zero (cp : Bool) (s : Bytes) : ajsGo 0 cp s = ajsGo 0 true s := by
  cases s <;> simp [ajsGo]

theorem ajsGo_copy (k : Nat) (s : Bytes) : ajsGo k true s = s.take k ++ ajsGo 0 true (s.drop k) := by
  induction s generalizing k with
  | nil => cases k <;> simp [ajsGo]
  | cons b rest ih =>
    cases k with
    | zero => simp
    | succ k => simp [ajsGo, ih]

theorem ajsGo_drop (k : Nat) (s : Bytes) : ajsGo k false s = ajsGo 0 true (s.drop k) := by
  induction s generalizing k with
  | nil => cases k <;> simp [ajsGo]
  | cons b rest ih =>
    cases k with
    | zero => simpa using ajsGo_zero false (b :: rest)
    | succ k => simp [ajsGo, ih]

theorem ajs_nil : appendJsonString [] = [] := by simp [appendJsonString, ajsGo]

theorem ajs_ascii (b : UInt8) (rest : Bytes) (hb : b < 0x80) :
    appendJsonString (b :: rest) = (if safe b then [b] else escAscii b) ++ appendJsonString rest := by
  simp [appendJsonString, ajsGo, hb]

theorem ajs_multi (b : UInt8) (rest : Bytes) (hb : ¬ b < 0x80) :
    appendJsonString (b :: rest) =
      let cs := decodeRune (b :: rest)
      if cs.1 == runeError && cs.2 == 1 then escInvalid ++ appendJsonString rest
      else if cs.1 == 0x2028 || cs.1 == 0x2029 then escLineSep cs.1 ++ appendJsonString (rest.drop (cs.2 - 1))
      else b :: rest.take (cs.2 - 1) ++ appendJsonString (rest.drop (cs.2 - 1)) := by
  simp only [appendJsonString]
  rw [ajsGo]
  simp only [hb, if_false]
  split
  · rfl
  · split
    · rw [ajsGo_drop]
    · rw [ajsGo_copy]; simp

theorem san_nil : san [] = [] := by simp [san]

theorem san_cons (b : UInt8) (rest : Bytes) :
    san (b :: rest) =
      let cs := decodeRune (b :: rest)
      if cs.1 == runeError && cs.2 == 1 then replacement ++ san rest
      else (b :: rest).take cs.2 ++ san ((b :: rest).drop cs.2) := by
  rw [san]

/-! ### faithfulness -/

theorem decodeRune_ascii (b : UInt8) (rest : Bytes) (hb : b < 0x80) :
    decodeRune (b :: rest) = (b.toNat, 1) := by
  simp [decodeRune, hb]

theorem encode_fffd : Utf8.encodeRune 0xFFFD = replacement := by decide
theorem encode_2028 : Utf8.encodeRune 0x2028 = [0xE2, 0x80, 0xA8] := by decide
theorem encode_2029 : Utf8.encodeRune 0x2029 = [0xE2, 0x80, 0xA9] := by decide

theorem ajs_PStr : ∀ (s r : Bytes), PStr (appendJsonString s ++ 0x22 :: r) (san s) r
  | [], r => by simpa [ajs_nil, san_nil] using PStr.done r
  | b :: rest, r => by
    have ih1 := ajs_PStr rest r
    have ihd : ∀ k, PStr (appendJsonString (rest.drop k) ++ 0x22 :: r) (san (rest.drop k)) r :=
      fun k => ajs_PStr (rest.drop k) r
    by_cases hb : b < 0x80
    · -- ASCII
      have hbn : b.toNat < 128 := by simpa [UInt8.lt_iff_toNat_lt] using hb
      rw [ajs_ascii _ _ hb, san_cons, decodeRune_ascii _ _ hb]
      have hne : ¬ (b.toNat = runeError) := by simp [runeError]; omega
      simp only [beq_iff_eq, hne, false_and, if_false, Bool.and_eq_true, List.take_succ_cons,
        List.take_zero, List.drop_succ_cons, List.drop_zero, List.cons_append, List.nil_append]
      by_cases hs : safe b = true
      · obtain ⟨h1, h2, h3⟩ := safe_spec hb hs
        simp only [hs, if_true, List.cons_append, List.nil_append]
        exact PStr.plain h1 hb h2 h3 ih1
      · simp only [hs]
        have hok := escOk_all b hb
        unfold escOk at hok
        split at hok
        · rename_i e he
          rw [he]
          exact PStr.esc (by simpa using hok) ih1
        · rename_i w x y z he
          rw [he]
          simp only [Bool.and_eq_true, beq_iff_eq, Bool.not_eq_true', decide_eq_true_eq] at hok
          obtain ⟨⟨⟨h1, h2⟩, h3⟩, _⟩ := hok
          have := PStr.uni h1 h2 ih1
          rw [h3] at this
          exact this
        · simp at hok
    · -- non-ASCII
      rw [ajs_multi _ _ hb, san_cons]
      have hc := decodeRune_cases b rest
      generalize decodeRune (b :: rest) = cs at hc ⊢
      cases hc with
      | ascii h => exact absurd h hb
      | bad h =>
        simp only [beq_self_eq_true, Bool.and_self, if_true]
        have := PStr.uni (a := 0x66) (b := 0x66) (c := 0x66) (e := 0x64) (cp := 0xFFFD)
          (by decide) (by decide) ih1
        rw [encode_fffd] at this
        exact this
      | @two lo hi b1 t hl hr h1 h2 =>
        subst hr
        have hL := lead_some hl
        have : ¬ (b.toNat % 32 * 64 + b1.toNat % 64 = 0x2028 ∨ b.toNat % 32 * 64 + b1.toNat % 64 = 0x2029) := by
          omega
        simp [this]
        exact PStr.multi2 hl h1 h2 (by simpa using ihd 1)
      | @three lo hi b1 b2 t hl hr h1 h2 h3 =>
        subst hr
        have hL := lead_some hl
        have r1 : lo.toNat ≤ b1.toNat := by simpa [UInt8.le_iff_toNat_le] using h1
        have r2 : b1.toNat ≤ hi.toNat := by simpa [UInt8.le_iff_toNat_le] using h2
        have r3 := isCont_range h3
        by_cases hls : (b.toNat % 16 * 4096 + b1.toNat % 64 * 64 + b2.toNat % 64 = 0x2028 ∨
            b.toNat % 16 * 4096 + b1.toNat % 64 * 64 + b2.toNat % 64 = 0x2029)
        · have e0 : b = 0xE2 := by rw [← UInt8.toNat_inj]; simp; omega
          have e1 : b1 = 0x80 := by rw [← UInt8.toNat_inj]; simp; omega
          rcases hls with hls | hls
          · have e2 : b2 = 0xA8 := by rw [← UInt8.toNat_inj]; simp; omega
            subst e0 e1 e2
            simp
            have := PStr.uni (a := 0x32) (b := 0x30) (c := 0x32) (e := 0x38) (cp := 0x2028)
              (by decide) (by decide) (ihd 2)
            rw [encode_2028] at this
            simpa [escLineSep, uEsc, (by decide : hexAt 8 = 0x38), (by decide : hexAt 9 = 0x39)] using this
          · have e2 : b2 = 0xA9 := by rw [← UInt8.toNat_inj]; simp; omega
            subst e0 e1 e2
            simp
            have := PStr.uni (a := 0x32) (b := 0x30) (c := 0x32) (e := 0x39) (cp := 0x2029)
              (by decide) (by decide) (ihd 2)
            rw [encode_2029] at this
            simpa [escLineSep, uEsc, (by decide : hexAt 8 = 0x38), (by decide : hexAt 9 = 0x39)] using this
        · simp [hls]
          exact PStr.multi3 hl h1 h2 h3 (by simpa using ihd 2)
      | @four lo hi b1 b2 b3 t hl hr h1 h2 h3 h4 =>
        subst hr
        have hL := lead_some hl
        have r1 : lo.toNat ≤ b1.toNat := by simpa [UInt8.le_iff_toNat_le] using h1
        have r2 : b1.toNat ≤ hi.toNat := by simpa [UInt8.le_iff_toNat_le] using h2
        have r3 := isCont_range h3
        have r4 := isCont_range h4
        have : ¬ (b.toNat % 8 * 262144 + b1.toNat % 64 * 4096 + b2.toNat % 64 * 64 + b3.toNat % 64 = 0x2028 ∨
            b.toNat % 8 * 262144 + b1.toNat % 64 * 4096 + b2.toNat % 64 * 64 + b3.toNat % 64 = 0x2029) := by
          omega
        simp [this]
        exact PStr.multi4 hl h1 h2 h3 h4 (by simpa using ihd 3)
termination_by s => s.length
decreasing_by
  all_goals simp only [List.length_cons, List.length_drop]
  all_goals omega

/-! ### no control byte in the output; safe text is copied -/

set_option maxRecDepth 20000 in
theorem escAscii_bytes : ∀ n ∈ List.range 128, ∀ x ∈ escAscii (UInt8.ofNat n), 0x20 ≤ x ∧ x < 0x80 := by
  decide

theorem ajs_ge : ∀ (s : Bytes), ∀ x ∈ appendJsonString s, 0x20 ≤ x
  | [] => by simp [ajs_nil]
  | b :: rest => by
    have ih1 := ajs_ge rest
    have ihd : ∀ k, ∀ x ∈ appendJsonString (rest.drop k), 0x20 ≤ x := fun k => ajs_ge (rest.drop k)
    intro x hx
    by_cases hb : b < 0x80
    · rw [ajs_ascii _ _ hb] at hx
      rcases List.mem_append.mp hx with hx | hx
      · by_cases hs : safe b = true
        · simp only [hs, if_true, List.mem_singleton] at hx
          subst hx; exact (safe_spec hb hs).1
        · simp only [hs] at hx
          have hn : b.toNat < 128 := by simpa [UInt8.lt_iff_toNat_lt] using hb
          have := escAscii_bytes b.toNat (by simp [List.mem_range]; exact hn) x (by simpa using hx)
          exact this.1
      · exact ih1 x hx
    · rw [ajs_multi _ _ hb] at hx
      have hc := decodeRune_cases b rest
      generalize decodeRune (b :: rest) = cs at hc hx
      have h80 : ∀ y : UInt8, 0x80 ≤ y.toNat → 0x20 ≤ y := by
        intro y hy; simp [UInt8.le_iff_toNat_le]; omega
      have hesc : ∀ n, n % 16 < 16 → ∀ y ∈ escLineSep n, 0x20 ≤ y := by
        intro n hn y hy
        have := hexAt_ge (n % 16) (by simp [List.mem_range]; exact hn)
        simp only [escLineSep, List.mem_cons, List.not_mem_nil, or_false] at hy
        rcases hy with rfl | rfl | rfl | rfl | rfl | rfl <;> first | decide | exact (by
          have := this.1; simp [UInt8.le_iff_toNat_le] at this ⊢; omega)
      simp only at hx
      split at hx
      · rcases List.mem_append.mp hx with hx | hx
        · have : ∀ y ∈ escInvalid, 0x20 ≤ y := by decide
          exact this x hx
        · exact ih1 x hx
      · have hbb : 0x20 ≤ b := by
          have : ¬ b.toNat < 128 := by simpa [UInt8.lt_iff_toNat_lt] using hb
          exact h80 b (by omega)
        split at hx
        · rcases List.mem_append.mp hx with hx | hx
          · exact hesc _ (Nat.mod_lt _ (by decide)) x hx
          · exact ihd _ x hx
        · cases hc with
          | ascii h => exact absurd h hb
          | bad h =>
            simp at hx
            rcases hx with rfl | hx
            · exact hbb
            · exact ih1 x hx
          | @two lo hi b1 t hl hr h1 h2 =>
            subst hr
            have hL := lead_some hl
            have r1 : lo.toNat ≤ b1.toNat := by simpa [UInt8.le_iff_toNat_le] using h1
            simp at hx
            rcases hx with rfl | rfl | hx
            · exact hbb
            · exact h80 _ (by omega)
            · exact ihd 1 x (by simpa using hx)
          | @three lo hi b1 b2 t hl hr h1 h2 h3 =>
            subst hr
            have hL := lead_some hl
            have r1 : lo.toNat ≤ b1.toNat := by simpa [UInt8.le_iff_toNat_le] using h1
            have r3 := isCont_range h3
            simp at hx
            rcases hx with rfl | rfl | rfl | hx
            · exact hbb
            · exact h80 _ (by omega)
            · exact h80 _ (by omega)
            · exact ihd 2 x (by simpa using hx)
          | @four lo hi b1 b2 b3 t hl hr h1 h2 h3 h4 =>
            subst hr
            have hL := lead_some hl
            have r1 : lo.toNat ≤ b1.toNat := by simpa [UInt8.le_iff_toNat_le] using h1
            have r3 := isCont_range h3
            have r4 := isCont_range h4
            simp at hx
            rcases hx with rfl | rfl | rfl | rfl | hx
            · exact hbb
            · exact h80 _ (by omega)
            · exact h80 _ (by omega)
            · exact h80 _ (by omega)
            · exact ihd 3 x (by simpa using hx)
termination_by s => s.length
decreasing_by
  all_goals simp only [List.length_cons, List.length_drop]
  all_goals omega

/-- a byte the loop copies unchanged -/
def safeByte (b : UInt8) : Bool := b < 0x80 && safe b

theorem ajs_safe : ∀ (s : Bytes), (∀ x ∈ s, safeByte x = true) → appendJsonString s = s
  | [], _ => ajs_nil
  | b :: rest, h => by
    have hb := h b (by simp)
    simp only [safeByte, Bool.and_eq_true, decide_eq_true_eq] at hb
    rw [ajs_ascii _ _ hb.1, ajs_safe rest (fun x hx => h x (by simp [hx]))]
    simp [hb.2]

end Glb.JsonString
