/-
  Helper lemmas for C03: the frame property of `append` on private slices, the state invariant
  of histories, prefix-stability of the forest, the isolated replay.
-/
import Glb.Model.DeriveSlices

namespace Glb.Derive

/-! ## slices -/

/-- the slice lies inside an allocated array -/
def WfSlice (H : Heap) (s : Slice) : Prop :=
  s.arr < H.next ∧ s.len ≤ s.cap ∧ s.cap ≤ (H.mem s.arr).length

/-- the slice cannot write into an array older than `base`: its array is newer, or it has no
    spare capacity (what `slices.Clip` establishes) -/
def Private (base : Nat) (s : Slice) : Prop := base ≤ s.arr ∨ s.cap = s.len

/-- arrays older than `base` are untouched and nothing is freed -/
def Frame (base : Nat) (H H' : Heap) : Prop :=
  H.next ≤ H'.next ∧ ∀ a, a < base → H'.mem a = H.mem a

theorem Frame.refl (base : Nat) (H : Heap) : Frame base H H := ⟨Nat.le_refl _, fun _ _ => rfl⟩

theorem Frame.trans {base : Nat} {H₁ H₂ H₃ : Heap} (h₁ : Frame base H₁ H₂) (h₂ : Frame base H₂ H₃) :
    Frame base H₁ H₃ :=
  ⟨Nat.le_trans h₁.1 h₂.1, fun a ha => by rw [h₂.2 a ha, h₁.2 a ha]⟩

theorem writeAt_nil (a : Bytes) (pos : Nat) : writeAt a pos [] = a := by
  simp [writeAt]

theorem writeAt_length (a : Bytes) (pos : Nat) (bs : Bytes) (h : pos + bs.length ≤ a.length) :
    (writeAt a pos bs).length = a.length := by
  simp [writeAt]; omega

theorem writeAt_take (a : Bytes) (pos : Nat) (bs : Bytes) (h : pos ≤ a.length) :
    (writeAt a pos bs).take (pos + bs.length) = a.take pos ++ bs := by
  unfold writeAt
  have h1 : (a.take pos ++ bs).length = pos + bs.length := by simp; omega
  rw [List.take_append_of_le_length (by omega)]
  rw [← h1, List.take_length]

theorem take_append_replicate (a : Bytes) (len : Nat) (bs : Bytes) (n : Nat) (h : len ≤ a.length) :
    (a.take len ++ bs ++ List.replicate n (0 : UInt8)).take (len + bs.length) = a.take len ++ bs := by
  have h1 : (a.take len ++ bs).length = len + bs.length := by simp; omega
  rw [List.take_append_of_le_length (by omega)]
  rw [← h1, List.take_length]

/-- **the frame lemma of `append`.**  On a private slice, `append` (in place or reallocating, with
    any growth policy) leaves every array older than `base` untouched, yields a private slice
    again, and the result denotes the old bytes followed by the new ones. -/
theorem append_spec (g : Policy) (H : Heap) (s : Slice) (bs : Bytes) (base : Nat)
    (hwf : WfSlice H s) (hp : Private base s) (hb : base ≤ H.next) :
    Frame base H (append g H s bs).1 ∧ WfSlice (append g H s bs).1 (append g H s bs).2 ∧
    Private base (append g H s bs).2 ∧
    (append g H s bs).2.bytes (append g H s bs).1 = s.bytes H ++ bs := by
  obtain ⟨h1, h2, h3⟩ := hwf
  unfold append
  split
  · rename_i hfit
    refine ⟨⟨Nat.le_refl _, ?_⟩, ⟨h1, by simp; omega, ?_⟩, ?_, ?_⟩
    · intro a ha
      simp only [upd]
      split
      · rename_i heq
        subst heq
        rcases hp with hp | hp
        · omega
        · have : bs = [] := List.eq_nil_of_length_eq_zero (by omega)
          subst this
          exact writeAt_nil _ _
      · rfl
    · simp only [upd, if_true]
      rw [writeAt_length _ _ _ (by omega)]
      exact h3
    · rcases hp with hp | hp
      · exact Or.inl hp
      · right; simp; omega
    · simp only [Slice.bytes, upd, if_true]
      exact writeAt_take _ _ _ (by omega)
  · refine ⟨⟨by simp, ?_⟩, ⟨by simp, by simp, ?_⟩, Or.inl hb, ?_⟩
    · intro a ha
      simp only [upd]
      split
      · omega
      · rfl
    · simp only [upd, if_true]
      simp
      omega
    · simp only [Slice.bytes, upd, if_true]
      exact take_append_replicate _ _ _ _ (by omega)

theorem appendMany_spec (g : Policy) (base : Nat) (chunks : List Bytes) :
    ∀ (H : Heap) (s : Slice), WfSlice H s → Private base s → base ≤ H.next →
    Frame base H (appendMany g H s chunks).1 ∧
    WfSlice (appendMany g H s chunks).1 (appendMany g H s chunks).2 ∧
    (appendMany g H s chunks).2.bytes (appendMany g H s chunks).1 = s.bytes H ++ chunks.flatten := by
  induction chunks with
  | nil => intro H s hwf _ _; exact ⟨Frame.refl _ _, hwf, by simp [appendMany]⟩
  | cons c cs ih =>
    intro H s hwf hp hb
    obtain ⟨f1, w1, p1, b1⟩ := append_spec g H s c base hwf hp hb
    obtain ⟨f2, w2, b2⟩ := ih _ _ w1 p1 (Nat.le_trans hb f1.1)
    refine ⟨Frame.trans f1 f2, w2, ?_⟩
    simp only [appendMany]
    rw [b2, b1]
    simp

theorem wf_clip (H : Heap) (s : Slice) (h : WfSlice H s) : WfSlice H s.clip :=
  ⟨h.1, Nat.le_refl _, Nat.le_trans h.2.1 h.2.2⟩

theorem private_clip (base : Nat) (s : Slice) : Private base s.clip := Or.inr rfl

theorem bytes_clip (H : Heap) (s : Slice) : s.clip.bytes H = s.bytes H := rfl

/-- an old slice is not affected by a frame-respecting heap change -/
theorem frame_keeps (H H' : Heap) (s : Slice) (hf : Frame H.next H H') (hwf : WfSlice H s) :
    WfSlice H' s ∧ s.bytes H' = s.bytes H := by
  obtain ⟨h1, h2, h3⟩ := hwf
  have := hf.2 s.arr h1
  refine ⟨⟨Nat.lt_of_lt_of_le h1 hf.1, h2, by rw [this]; exact h3⟩, by simp [Slice.bytes, this]⟩

/-! ## derive -/

/-- **derive with clipping**: no existing array is written, and the child's view is the parent's
    view extended purely. -/
theorem derive_spec {α} (R : Renderer α) (g : Policy) (H : Heap) (h : Handler) (op : DOp α)
    (hwf : WfSlice H h.pre) :
    Frame H.next H (derive R true g H h op).1 ∧
    WfSlice (derive R true g H h op).1 (derive R true g H h op).2.pre ∧
    (derive R true g H h op).2.view (derive R true g H h op).1 = pureStep R (h.view H) op := by
  cases op with
  | withAttrs as =>
    by_cases he : as.isEmpty
    · have : as = [] := by simpa using he
      subst this
      simp [derive, pureStep, attrsChunks, Handler.view, hwf, Frame.refl]
    · obtain ⟨f, w, b⟩ := appendMany_spec g H.next (attrsChunks R h.shape as).1 H h.pre.clip
        (wf_clip _ _ hwf) (private_clip _ _) (Nat.le_refl _)
      simp only [derive, he, cloneSlice, if_true, Bool.false_eq_true, if_false]
      refine ⟨f, w, ?_⟩
      simp only [Handler.view, pureStep, b, bytes_clip]
  | withGroup name =>
    cases hs : h.shape with
    | json n sep =>
      obtain ⟨f, w, b⟩ := appendMany_spec g H.next (R.groupOpen sep name) H h.pre.clip
        (wf_clip _ _ hwf) (private_clip _ _) (Nat.le_refl _)
      simp only [derive, hs, cloneSlice, if_true]
      refine ⟨f, w, ?_⟩
      simp only [Handler.view, pureStep, hs, b, bytes_clip]
    | text p =>
      simp only [derive, hs, cloneSlice, if_true]
      exact ⟨Frame.refl _ _, wf_clip _ _ hwf, by simp [Handler.view, pureStep, hs, bytes_clip]⟩
    | nano =>
      simp only [derive, hs]
      exact ⟨Frame.refl _ _, hwf, by simp [Handler.view, pureStep, hs]⟩

/-! ## rendering is a fold -/

theorem attrsChunks_append {α} (R : Renderer α) (as bs : List α) :
    ∀ sh, attrsChunks R sh (as ++ bs) =
      ((attrsChunks R sh as).1 ++ (attrsChunks R (attrsChunks R sh as).2 bs).1,
       (attrsChunks R (attrsChunks R sh as).2 bs).2) := by
  induction as with
  | nil => intro sh; simp [attrsChunks]
  | cons a as ih => intro sh; simp [attrsChunks, ih]

theorem closers_afterAttr (sh : Shape) (w : Bool) : closers (sh.afterAttr w) = closers sh := by
  cases sh <;> rfl

theorem closers_attrsChunks {α} (R : Renderer α) (as : List α) :
    ∀ sh, closers (attrsChunks R sh as).2 = closers sh := by
  induction as with
  | nil => intro sh; rfl
  | cons a as ih => intro sh; simp [attrsChunks, ih, closers_afterAttr]

theorem renderChain_snoc {α} (R : Renderer α) (k : Kind) (chain : List (DOp α)) (op : DOp α) :
    renderChain R k (chain ++ [op]) = pureStep R (renderChain R k chain) op := by
  simp [renderChain, List.foldl_append]

/-! ## histories -/

/-- the state invariant: every handler of the forest is well formed and, read through the heap,
    *is* the pure rendering of its own chain; every line logged so far is the line of that pure
    rendering. -/
def Good {α} (R : Renderer α) (k : Kind) (s : St α) : Prop :=
  (∀ (i : Nat) (h : Handler) (chain : List (DOp α)), s.forest[i]? = some (h, chain) →
      WfSlice s.heap h.pre ∧ h.view s.heap = renderChain R k chain) ∧
  (∀ e ∈ s.out, ∃ (h : Handler) (chain : List (DOp α)), s.forest[e.handle]? = some (h, chain) ∧
      e.line = lineOf R (renderChain R k chain).pre (renderChain R k chain).shape e.hd e.attrs)

theorem good_init {α} (R : Renderer α) (k : Kind) : Good R k (St.init k : St α) := by
  refine ⟨?_, by simp [St.init]⟩
  intro i h chain hi
  cases i with
  | zero =>
    simp [St.init] at hi
    obtain ⟨rfl, rfl⟩ := hi
    refine ⟨⟨by simp [rootHandler, Slice.nil, Heap.init, St.init], by simp [rootHandler, Slice.nil],
      by simp [rootHandler, Slice.nil]⟩, ?_⟩
    simp [Handler.view, rootHandler, Slice.nil, Slice.bytes, renderChain]
  | succ n => simp [St.init] at hi

theorem getElem?_snoc_some {β} (l : List β) (x y : β) (i : Nat) (h : (l ++ [x])[i]? = some y) :
    l[i]? = some y ∨ (i = l.length ∧ y = x) := by
  by_cases hi : i < l.length
  · left; rw [List.getElem?_append_left hi] at h; exact h
  · right
    have hge : l.length ≤ i := Nat.le_of_not_lt hi
    rw [List.getElem?_append_right hge] at h
    by_cases h0 : i - l.length = 0
    · rw [h0] at h; simp at h; exact ⟨by omega, h.symm⟩
    · have : ([x] : List β)[i - l.length]? = none := by
        apply List.getElem?_eq_none; simp; omega
      rw [this] at h; cases h

theorem getElem?_append_some {β} (l ext : List β) (y : β) (i : Nat) (h : l[i]? = some y) :
    (l ++ ext)[i]? = some y := by
  have hi : i < l.length := by
    apply Classical.byContradiction
    intro hn
    rw [List.getElem?_eq_none (Nat.le_of_not_lt hn)] at h; cases h
  rw [List.getElem?_append_left hi]; exact h

theorem step_good {α} (R : Renderer α) (g : Policy) (k : Kind) (s : St α) (op : HOp α)
    (hg : Good R k s) : Good R k (step R true g s op) := by
  obtain ⟨hf, ho⟩ := hg
  cases op with
  | derive p dop =>
    simp only [step]
    cases hp : s.forest[p]? with
    | none => exact ⟨hf, ho⟩
    | some hc =>
      obtain ⟨h, chain⟩ := hc
      obtain ⟨hw, hv⟩ := hf p h chain hp
      obtain ⟨fr, w', v'⟩ := derive_spec R g s.heap h dop hw
      refine ⟨?_, ?_⟩
      · intro i h' chain' hi
        simp only at hi
        rcases getElem?_snoc_some _ _ _ _ hi with hi | ⟨_, hi⟩
        · obtain ⟨hw', hv'⟩ := hf i h' chain' hi
          obtain ⟨k1, k2⟩ := frame_keeps _ _ _ fr hw'
          exact ⟨k1, by simp only [Handler.view] at hv' ⊢; rw [k2]; exact hv'⟩
        · cases hi
          refine ⟨w', ?_⟩
          rw [v', hv, renderChain_snoc]
      · intro e he
        obtain ⟨h', chain', h1, h2⟩ := ho e he
        exact ⟨h', chain', getElem?_append_some _ _ _ _ h1, h2⟩
  | log i hd attrs =>
    simp only [step]
    cases hp : s.forest[i]? with
    | none => exact ⟨hf, ho⟩
    | some hc =>
      obtain ⟨h, chain⟩ := hc
      refine ⟨hf, ?_⟩
      intro e he
      simp only [List.mem_append, List.mem_singleton] at he
      rcases he with he | he
      · exact ho e he
      · subst he
        obtain ⟨_, hv⟩ := hf i h chain hp
        refine ⟨h, chain, hp, ?_⟩
        simp only
        rw [← hv]
        rfl

theorem runFrom_good {α} (R : Renderer α) (g : Policy) (k : Kind) (ops : List (HOp α)) :
    ∀ s : St α, Good R k s → Good R k (runFrom R true g s ops) := by
  induction ops with
  | nil => intro s h; exact h
  | cons op ops ih => intro s h; exact ih _ (step_good R g k s op h)

theorem run_good {α} (R : Renderer α) (g : Policy) (k : Kind) (ops : List (HOp α)) :
    Good R k (run R true g k ops) := runFrom_good R g k ops _ (good_init R k)

/-- handles are stable: the forest only grows at the end (any clip flag, any policy) -/
theorem step_forest {α} (R : Renderer α) (c : Bool) (g : Policy) (s : St α) (op : HOp α) :
    ∃ ext, (step R c g s op).forest = s.forest ++ ext := by
  cases op with
  | derive p dop =>
    simp only [step]
    cases s.forest[p]? with
    | none => exact ⟨[], by simp⟩
    | some hc => exact ⟨_, rfl⟩
  | log i hd attrs =>
    simp only [step]
    cases s.forest[i]? with
    | none => exact ⟨[], by simp⟩
    | some hc => exact ⟨[], by simp⟩

theorem runFrom_forest {α} (R : Renderer α) (c : Bool) (g : Policy) (ops : List (HOp α)) :
    ∀ s : St α, ∃ ext, (runFrom R c g s ops).forest = s.forest ++ ext := by
  induction ops with
  | nil => intro s; exact ⟨[], by simp [runFrom]⟩
  | cons op ops ih =>
    intro s
    obtain ⟨e1, h1⟩ := step_forest R c g s op
    obtain ⟨e2, h2⟩ := ih (step R c g s op)
    exact ⟨e1 ++ e2, by simp only [runFrom, List.foldl_cons] at h2 ⊢; rw [h2, h1]; simp⟩

theorem run_append {α} (R : Renderer α) (c : Bool) (g : Policy) (k : Kind) (ops more : List (HOp α)) :
    run R c g k (ops ++ more) = runFrom R c g (run R c g k ops) more := by
  simp [run, runFrom, List.foldl_append]

/-! ## the isolated replay -/

/-- replaying a chain alone on top of the last handler of a forest -/
theorem runFrom_alone {α} (R : Renderer α) (c : Bool) (g : Policy) (chain : List (DOp α)) :
    ∀ (s : St α) (n : Nat) (h : Handler) (c0 : List (DOp α)),
      s.forest.length = n + 1 → s.forest[n]? = some (h, c0) →
      ∃ h', (runFrom R c g s (aloneOps n chain)).forest[n + chain.length]? = some (h', c0 ++ chain) ∧
        (runFrom R c g s (aloneOps n chain)).out = s.out := by
  induction chain with
  | nil => intro s n h c0 _ hn; exact ⟨h, by simpa [aloneOps, runFrom] using hn, rfl⟩
  | cons op rest ih =>
    intro s n h c0 hl hn
    have hs : (step R c g s (.derive n op)).forest =
        s.forest ++ [((derive R c g s.heap h op).2, c0 ++ [op])] := by
      simp [step, hn]
    have ho : (step R c g s (.derive n op)).out = s.out := by
      simp [step, hn]
    obtain ⟨h', e1, e2⟩ := ih (step R c g s (.derive n op)) (n + 1) (derive R c g s.heap h op).2 (c0 ++ [op])
      (by rw [hs]; simp [hl])
      (by rw [hs, List.getElem?_append_right (by omega)]; simp [hl])
    refine ⟨h', ?_, ?_⟩
    · simp only [aloneOps, runFrom, List.foldl_cons, List.length_cons] at e1 ⊢
      have : n + (rest.length + 1) = n + 1 + rest.length := by omega
      rw [this]
      simpa using e1
    · simp only [aloneOps, runFrom, List.foldl_cons] at e2 ⊢
      rw [e2, ho]

end Glb.Derive
