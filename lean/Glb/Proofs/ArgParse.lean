/-
  Helper lemmas for C10: the index-carrying model of `argParse` computes, iteration by iteration,
  what the token classifier of the grammar says.
-/
import Glb.Model.ArgParse
import Glb.Spec.ArgvGrammar

namespace Glb.ArgParse
open Glb.ArgvGrammar

/-- forget the state an error leaves behind -/
def Result.toSpec : Result → Parsed
  | .ok s => .ok s.assigns s.args
  | .err e _ => .err e

/-! ### `breakEq` -/

theorem breakEq_some (s v : Bytes) (h : (breakEq s).2 = some v) :
    s = (breakEq s).1 ++ equals :: v := by
  induction s with
  | nil => simp [breakEq] at h
  | cons c s ih =>
    by_cases hc : c = equals
    · simp [breakEq, hc] at h ⊢; exact h
    · simp [breakEq, hc] at h ⊢; exact ih h

theorem breakEq_none (s : Bytes) (h : (breakEq s).2 = none) : (breakEq s).1 = s := by
  induction s with
  | nil => simp [breakEq]
  | cons c s ih =>
    by_cases hc : c = equals
    · simp [breakEq, hc] at h
    · simp [breakEq, hc] at h ⊢; exact ih h

theorem breakEq_not_mem (s : Bytes) : equals ∉ (breakEq s).1 := by
  induction s with
  | nil => simp [breakEq]
  | cons c s ih =>
    by_cases hc : c = equals
    · simp [breakEq, hc]
    · simp [breakEq, hc]; exact ⟨fun h => hc h.symm, ih⟩

theorem breakEq_of_not_mem (s : Bytes) (h : equals ∉ s) : breakEq s = (s, none) := by
  induction s with
  | nil => simp [breakEq]
  | cons c s ih =>
    have hc : c ≠ equals := by intro e; simp [e] at h
    have hs : equals ∉ s := by intro e; simp [e] at h
    simp [breakEq, hc, ih hs]

theorem breakEq_append (n v : Bytes) (h : equals ∉ n) : breakEq (n ++ equals :: v) = (n, some v) := by
  induction n with
  | nil => simp [breakEq]
  | cons c s ih =>
    have hc : c ≠ equals := by intro e; simp [e] at h
    have hs : equals ∉ s := by intro e; simp [e] at h
    simp [breakEq, hc, ih hs]

/-! ### the `=` scan -/

/-- position the scan reports, given that it starts at index `k` of a string whose part from `k`
    on is `suf` -/
def eqPos (suf : Bytes) (k : Nat) : Option Nat :=
  match (breakEq suf).2 with
  | none => none
  | some _ => some (k + (breakEq suf).1.length)

theorem scanEq_spec (suf : Bytes) : ∀ (pre : Bytes) (fuel : Nat), suf.length < fuel →
    scanEq (pre ++ suf) fuel pre.length = .ok (eqPos suf pre.length) := by
  induction suf with
  | nil =>
    intro pre fuel hf
    obtain ⟨f, rfl⟩ : ∃ f, fuel = f + 1 := ⟨fuel - 1, by simp at hf; omega⟩
    simp [scanEq, eqPos, breakEq, pure, Except.pure]
  | cons c s ih =>
    intro pre fuel hf
    obtain ⟨f, rfl⟩ : ∃ f, fuel = f + 1 := ⟨fuel - 1, by simp at hf; omega⟩
    have hlt : pre.length < (pre ++ c :: s).length := by simp
    have hidx : idx? (pre ++ c :: s) pre.length = .ok c := by simp [idx?]
    by_cases hc : c = equals
    · subst hc
      simp [scanEq, hidx, eqPos, breakEq, bind, Except.bind, pure, Except.pure]
    · have := ih (pre ++ [c]) f (by simp at hf ⊢; omega)
      simp at this
      simp [scanEq, hidx, hc, eqPos, breakEq, bind, Except.bind, this]
      cases (breakEq s).2 <;> simp; omega

theorem splitEq_spec (b : UInt8) (t : Bytes) :
    splitEq (b :: t) = .ok (b :: (breakEq t).1, (breakEq t).2) := by
  have h := scanEq_spec t [b] ((b :: t).length + 1) (by simp; omega)
  simp at h
  unfold splitEq
  simp [h, eqPos, bind, Except.bind]
  cases hv : (breakEq t).2 with
  | none => simp [pure, Except.pure, breakEq_none t hv]
  | some v =>
    have ht := breakEq_some t v hv
    clear h
    generalize (breakEq t).1 = p at ht ⊢
    subst ht
    have e3 : p.length + (v.length + 1) - (p.length + 1) = v.length := by omega
    have e4 : 1 + p.length = p.length + 1 := by omega
    simp [slice?, pure, Except.pure, e4, e3]

/-! ### one iteration -/

/-- what one iteration does, in terms of the token class -/
def stepSpec (lookup : Bytes → Option Bool) (as : List (Bytes × Bytes)) (tok : Bytes)
    (rest : List Bytes) : Step :=
  match classify tok with
  | .nonFlag => .ret (.ok ⟨as, tok :: rest⟩)
  | .terminator => .ret (.ok ⟨as, rest⟩)
  | .bad => .ret (.err (.badSyntax tok) ⟨as, tok :: rest⟩)
  | .flag n v? =>
    match lookup n with
    | none => .ret (.err (.undefined n) ⟨as, rest⟩)
    | some b =>
      match v? with
      | some v => .cont ⟨as ++ [(n, v)], rest⟩
      | none =>
        if b then .cont ⟨as ++ [(n, trueText)], rest⟩
        else match rest with
          | [] => .ret (.err (.needsArg n) ⟨as, []⟩)
          | v :: r => .cont ⟨as ++ [(n, v)], r⟩

theorem body_spec (lookup : Bytes → Option Bool) (as : List (Bytes × Bytes)) (tok : Bytes)
    (rest : List Bytes) :
    body lookup ⟨as, tok :: rest⟩ = .ok (stepSpec lookup as tok rest) := by
  match tok with
  | [] => simp [body, idx?, stepSpec, classify, bind, Except.bind, pure, Except.pure]
  | [a] => simp [body, idx?, stepSpec, classify, bind, Except.bind, pure, Except.pure]
  | c :: d :: t =>
    by_cases hc : c = dash
    · subst hc
      by_cases hd : d = dash
      · subst hd
        match t with
        | [] => simp [body, idx?, slice?, stepSpec, classify, bind, Except.bind, pure, Except.pure]
        | b :: t' =>
          have h1 : ¬ (t'.length + 1 + 1 + 1 < 2) := by omega
          simp [body, idx?, slice?, stepSpec, classify, bind, Except.bind, pure, Except.pure, h1,
            splitEq_spec, classifyBody]
          by_cases hb : b = dash ∨ b = equals
          · simp [hb]
          · simp [hb]
            cases lookup (b :: (breakEq t').1) with
            | none => simp
            | some isBool =>
              cases (breakEq t').2 with
              | some v => simp
              | none =>
                cases isBool <;> cases rest <;> simp
      · have h1 : ¬ (t.length + 1 + 1 < 2) := by omega
        simp [body, idx?, slice?, stepSpec, classify, bind, Except.bind, pure, Except.pure, h1,
          splitEq_spec, classifyBody, hd]
        by_cases hb : d = equals
        · simp [hb]
        · simp [hb]
          cases lookup (d :: (breakEq t).1) with
          | none => simp
          | some isBool =>
            cases (breakEq t).2 with
            | some v => simp
            | none =>
              cases isBool <;> cases rest <;> simp
    · simp [body, idx?, stepSpec, classify, bind, Except.bind, pure, Except.pure, hc]

/-! ### the whole loop -/

theorem prepend_cons (p : Parsed) (a : Bytes × Bytes) (as : List (Bytes × Bytes)) :
    (p.cons a).prepend as = p.prepend (as ++ [a]) := by
  cases p <;> simp [Parsed.cons, Parsed.prepend]

theorem prepend_nil (p : Parsed) : p.prepend [] = p := by
  cases p <;> simp [Parsed.prepend]

theorem loop_spec (lookup : Bytes → Option Bool) : ∀ (fuel : Nat) (s : St), s.args.length < fuel →
    ∃ r, loop lookup fuel s = .ok r ∧ r.toSpec = (parse lookup s.args).prepend s.assigns ∧
      r.st.args <:+ s.args := by
  intro fuel
  induction fuel with
  | zero => intro s h; omega
  | succ f ih =>
    intro s hf
    obtain ⟨as, args⟩ := s
    match args with
    | [] =>
      exact ⟨.ok ⟨as, []⟩, by simp [loop, pure, Except.pure], by simp [Result.toSpec, parse, Parsed.prepend],
        by simp [Result.st]⟩
    | tok :: rest =>
      have hrest : rest.length < f := by simp at hf; omega
      simp only [loop, List.length_cons, Nat.zero_lt_succ, if_true, body_spec, bind, Except.bind]
      unfold stepSpec
      rw [parse]
      cases hcl : classify tok with
      | nonFlag => simp [Result.toSpec, Parsed.prepend, Result.st, pure, Except.pure]
      | terminator => simp [Result.toSpec, Parsed.prepend, Result.st, pure, Except.pure]
      | bad => simp [Result.toSpec, Parsed.prepend, Result.st, pure, Except.pure]
      | flag n v? =>
        cases hl : lookup n with
        | none => cases v? <;> simp [hl, Result.toSpec, Parsed.prepend, Result.st, pure, Except.pure]
        | some b =>
          cases v? with
          | some v =>
            obtain ⟨r, h1, h2, h3⟩ := ih ⟨as ++ [(n, v)], rest⟩ hrest
            exact ⟨r, by simpa [hl] using h1, by simpa [hl, prepend_cons] using h2,
              List.IsSuffix.trans h3 (List.suffix_cons _ _)⟩
          | none =>
            cases b with
            | true =>
              obtain ⟨r, h1, h2, h3⟩ := ih ⟨as ++ [(n, trueText)], rest⟩ hrest
              exact ⟨r, by simpa [hl] using h1, by simpa [hl, prepend_cons] using h2,
                List.IsSuffix.trans h3 (List.suffix_cons _ _)⟩
            | false =>
              match rest with
              | [] => simp [hl, Result.toSpec, Parsed.prepend, Result.st, pure, Except.pure]
              | v :: r' =>
                obtain ⟨r, h1, h2, h3⟩ := ih ⟨as ++ [(n, v)], r'⟩ (by simp at hrest ⊢; omega)
                exact ⟨r, by simpa [hl] using h1, by simpa [hl, prepend_cons] using h2,
                  List.IsSuffix.trans h3 (List.IsSuffix.trans (List.suffix_cons _ _) (List.suffix_cons _ _))⟩

/-! ### the fold against the declarative grammar -/

theorem parse_of_wellFormed (lookup : Bytes → Option Bool) {pre : List Bytes}
    {as : List (Bytes × Bytes)} (h : WellFormed lookup pre as) (tail : List Bytes) :
    parse lookup (pre ++ tail) = (parse lookup tail).prepend as := by
  induction h with
  | nil => simp [prepend_nil]
  | withEq hc hl _ ih =>
    rw [List.cons_append, parse]; simp only [hc, hl, ih]
    cases parse lookup tail <;> simp [Parsed.cons, Parsed.prepend]
  | boolFlag hc hl _ ih =>
    rw [List.cons_append, parse]; simp only [hc, hl, ih]
    cases parse lookup tail <;> simp [Parsed.cons, Parsed.prepend]
  | withNext hc hl _ ih =>
    rw [List.cons_append, List.cons_append, parse]; simp only [hc, hl, ih]
    cases parse lookup tail <;> simp [Parsed.cons, Parsed.prepend]

theorem parse_of_ends (lookup : Bytes → Option Bool) {tail rest : List Bytes} (h : Ends tail rest) :
    parse lookup tail = .ok [] rest := by
  cases h with
  | eof => simp [parse]
  | nonFlag hc => rw [parse]; simp [hc]
  | terminator hc => rw [parse]; simp [hc]

theorem parse_of_offends (lookup : Bytes → Option Bool) {tok : Bytes} {rest : List Bytes} {e : ArgErr}
    (h : Offends lookup tok rest e) : parse lookup (tok :: rest) = .err e := by
  cases e with
  | badSyntax t => obtain ⟨rfl, hc⟩ := h; rw [parse]; simp [hc]
  | undefined n => obtain ⟨v, hc, hl⟩ := h; rw [parse]; cases v <;> simp [hc, hl]
  | needsArg n => obtain ⟨hc, hl, rfl⟩ := h; rw [parse]; simp [hc, hl]

/-- every argument vector decomposes into a well-formed prefix followed by a proper end or by
    an offending token -/
theorem parse_decompose (lookup : Bytes → Option Bool) : ∀ (n : Nat) (argv : List Bytes),
    argv.length ≤ n → ∃ pre as tail, argv = pre ++ tail ∧ WellFormed lookup pre as ∧
      ((∃ rest, Ends tail rest ∧ parse lookup argv = .ok as rest) ∨
       (∃ tok rest e, tail = tok :: rest ∧ Offends lookup tok rest e ∧ parse lookup argv = .err e)) := by
  intro n
  induction n with
  | zero =>
    intro argv h
    have : argv = [] := by cases argv <;> simp_all
    subst this
    exact ⟨[], [], [], rfl, .nil, .inl ⟨[], .eof, by simp [parse]⟩⟩
  | succ k ih =>
    intro argv h
    match argv with
    | [] => exact ⟨[], [], [], rfl, .nil, .inl ⟨[], .eof, by simp [parse]⟩⟩
    | tok :: rest =>
      have hr : rest.length ≤ k := by simp at h; omega
      cases hc : classify tok with
      | nonFlag =>
        exact ⟨[], [], tok :: rest, rfl, .nil, .inl ⟨_, .nonFlag hc, by rw [parse]; simp [hc]⟩⟩
      | terminator =>
        exact ⟨[], [], tok :: rest, rfl, .nil, .inl ⟨_, .terminator hc, by rw [parse]; simp [hc]⟩⟩
      | bad =>
        exact ⟨[], [], tok :: rest, rfl, .nil,
          .inr ⟨tok, rest, .badSyntax tok, rfl, ⟨rfl, hc⟩, by rw [parse]; simp [hc]⟩⟩
      | flag nm v? =>
        cases hl : lookup nm with
        | none =>
          exact ⟨[], [], tok :: rest, rfl, .nil,
            .inr ⟨tok, rest, .undefined nm, rfl, ⟨v?, hc, hl⟩, by rw [parse]; cases v? <;> simp [hc, hl]⟩⟩
        | some b =>
          cases v? with
          | some v =>
            obtain ⟨pre, as, tail, hsplit, hwf, hres⟩ := ih rest hr
            have hp : parse lookup (tok :: rest) = (parse lookup rest).cons (nm, v) := by
              rw [parse]; simp [hc, hl]
            refine ⟨tok :: pre, (nm, v) :: as, tail, by simp [hsplit], .withEq hc hl hwf, ?_⟩
            rcases hres with ⟨r, he, hp'⟩ | ⟨t, r, e, ht, ho, hp'⟩
            · exact .inl ⟨r, he, by simp [hp, hp', Parsed.cons]⟩
            · exact .inr ⟨t, r, e, ht, ho, by simp [hp, hp', Parsed.cons]⟩
          | none =>
            cases b with
            | true =>
              obtain ⟨pre, as, tail, hsplit, hwf, hres⟩ := ih rest hr
              have hp : parse lookup (tok :: rest) = (parse lookup rest).cons (nm, trueText) := by
                rw [parse]; simp [hc, hl]
              refine ⟨tok :: pre, (nm, trueText) :: as, tail, by simp [hsplit], .boolFlag hc hl hwf, ?_⟩
              rcases hres with ⟨r, he, hp'⟩ | ⟨t, r, e, ht, ho, hp'⟩
              · exact .inl ⟨r, he, by simp [hp, hp', Parsed.cons]⟩
              · exact .inr ⟨t, r, e, ht, ho, by simp [hp, hp', Parsed.cons]⟩
            | false =>
              match rest with
              | [] =>
                exact ⟨[], [], [tok], rfl, .nil,
                  .inr ⟨tok, [], .needsArg nm, rfl, ⟨hc, hl, rfl⟩, by rw [parse]; simp [hc, hl]⟩⟩
              | v :: rest' =>
                obtain ⟨pre, as, tail, hsplit, hwf, hres⟩ := ih rest' (by simp at hr; omega)
                have hp : parse lookup (tok :: v :: rest') = (parse lookup rest').cons (nm, v) := by
                  rw [parse]; simp [hc, hl]
                refine ⟨tok :: v :: pre, (nm, v) :: as, tail, by simp [hsplit], .withNext hc hl hwf, ?_⟩
                rcases hres with ⟨r, he, hp'⟩ | ⟨t, r, e, ht, ho, hp'⟩
                · exact .inl ⟨r, he, by simp [hp, hp', Parsed.cons]⟩
                · exact .inr ⟨t, r, e, ht, ho, by simp [hp, hp', Parsed.cons]⟩

/-! ### the token classes, byte by byte -/

theorem classifyBody_ne_nonFlag (b : Bytes) : classifyBody b ≠ .nonFlag := by
  unfold classifyBody; split <;> (try split) <;> simp

theorem classifyBody_ne_terminator (b : Bytes) : classifyBody b ≠ .terminator := by
  unfold classifyBody; split <;> (try split) <;> simp

theorem classifyBody_bad_iff (b : Bytes) :
    classifyBody b = .bad ↔ b = [] ∨ (∃ t, b = dash :: t) ∨ (∃ t, b = equals :: t) := by
  cases b with
  | nil => simp [classifyBody]
  | cons c t =>
    by_cases h1 : c = dash
    · simp [classifyBody, h1]
    · by_cases h2 : c = equals
      · simp [classifyBody, h2]
      · simp [classifyBody, h1, h2]

/-- a body is a flag `n`/`v` iff it is `n` or `n=v` with `n` non-empty, not starting with '-' or
    '=', and without '=' after its first byte -/
theorem classifyBody_flag_iff (body n : Bytes) (v : Option Bytes) :
    classifyBody body = .flag n v ↔
      (∃ c t, n = c :: t ∧ c ≠ dash ∧ c ≠ equals ∧ equals ∉ t) ∧
      body = n ++ (match v with | none => [] | some w => equals :: w) := by
  cases body with
  | nil =>
    simp [classifyBody]
    rintro c t rfl _ _ _
    cases v <;> simp
  | cons b r =>
    by_cases hb : b = dash ∨ b = equals
    · simp only [classifyBody, hb, if_true]
      constructor
      · intro h; cases h
      · rintro ⟨⟨c, t, rfl, h1, h2, _⟩, h⟩
        have : b = c := by cases v <;> simp at h <;> exact h.1
        subst this
        rcases hb with hb | hb <;> contradiction
    · have hb1 : b ≠ dash := fun h => hb (.inl h)
      have hb2 : b ≠ equals := fun h => hb (.inr h)
      simp only [classifyBody, hb, if_false]
      constructor
      · intro h
        injection h with hn hv
        subst hn
        refine ⟨⟨b, _, rfl, hb1, hb2, breakEq_not_mem r⟩, ?_⟩
        cases v with
        | none => simp [breakEq_none r hv]
        | some w => simpa using breakEq_some r w hv
      · rintro ⟨⟨c, t, rfl, h1, h2, h3⟩, h⟩
        cases v with
        | none =>
          simp at h
          obtain ⟨rfl, rfl⟩ := h
          simp [breakEq_of_not_mem _ h3]
        | some w =>
          simp at h
          obtain ⟨rfl, rfl⟩ := h
          simp [breakEq_append _ _ h3]

theorem classify_nonFlag_iff (tok : Bytes) :
    classify tok = .nonFlag ↔ tok.length < 2 ∨ tok.head? ≠ some dash := by
  match tok with
  | [] => simp [classify]
  | [a] => simp [classify]
  | c :: d :: t =>
    by_cases hc : c = dash
    · have := classifyBody_ne_nonFlag t
      have := classifyBody_ne_nonFlag (d :: t)
      simp [classify, hc]
      split <;> (try split) <;> simp_all
    · simp [classify, hc]

theorem classify_terminator_iff (tok : Bytes) : classify tok = .terminator ↔ tok = [dash, dash] := by
  match tok with
  | [] => simp [classify]
  | [a] => simp [classify]
  | c :: d :: t =>
    by_cases hc : c = dash
    · have := classifyBody_ne_terminator t
      have := classifyBody_ne_terminator (d :: t)
      by_cases hd : d = dash
      · by_cases ht : t = [] <;> simp_all [classify]
      · simp_all [classify]
    · simp [classify, hc]

/-- the malformed tokens are exactly `-=…`, `--=…` and `---…` -/
theorem classify_bad_iff (tok : Bytes) :
    classify tok = .bad ↔ (∃ t, tok = dash :: equals :: t) ∨ (∃ t, tok = dash :: dash :: equals :: t) ∨
      (∃ t, tok = dash :: dash :: dash :: t) := by
  have hne : dash ≠ equals := by decide
  match tok with
  | [] => simp [classify]
  | [a] => simp [classify]
  | c :: d :: t =>
    by_cases hc : c = dash
    · subst hc
      by_cases hd : d = dash
      · subst hd
        by_cases ht : t = []
        · subst ht; simp [classify, hne]
        · simp only [classify, ht, if_false, if_true, ne_eq, not_true_eq_false, classifyBody_bad_iff]
          simp [hne]
          constructor
          · rintro (⟨t', rfl⟩ | ⟨t', rfl⟩)
            · exact .inr ⟨t', rfl⟩
            · exact .inl ⟨t', rfl⟩
          · rintro (⟨t', rfl⟩ | ⟨t', rfl⟩)
            · exact .inr ⟨t', rfl⟩
            · exact .inl ⟨t', rfl⟩
      · simp only [classify, hd, if_false, ne_eq, not_true_eq_false, classifyBody_bad_iff]
        simp [hd]
    · simp [classify, hc]

end Glb.ArgParse
