/-
  Concrete executions of the TaskLane model, used as non-vacuity witnesses for the theorems of
  Props/C06b, C07, C08 (and as a sanity check that the model can run the expected scenarios):

  * "not ready" lemmas (to fire `default`/`park` steps) and the converse characterisations
    `quiescent_of_shape` / `quiescent_of_exited`;
  * `Trace.reach14`  : `cfg 1 1`, task 7 pushed, accepted, handed over and running;
  * `Trace.reachA`   : … it returns and the lane is at rest (accepted = started = [7]);
  * `Trace.reachB`   : … instead a second task is pushed while the only worker is pinned: the queue
                       goroutine blocks at q4 holding it (quiescent, pending = [8], worker running);
  * `Trace.reachC3/4`: `cfg 1 0`, cancel, both goroutines exit; then a PushTask begins.
-/
import Glb.Proofs.TaskLaneProgress

namespace Glb.TaskLane
set_option linter.unusedSimpArgs false
variable {L Q : Nat}

/-! ### "Not ready" lemmas (to fire `default` / `park` steps in concrete traces) -/

theorem not_ready_done {c : Cfg} {s : St} {g : Gid} (h : s.cancelled = false) : ¬ ready c s g .done := by
  rintro (⟨_, hl⟩ | hp)
  · simp [localReady, h] at hl
  · exact hp

/-- a worker's receive on `own`/`uni` is not ready when no queue goroutine is parked at q4 -/
theorem not_ready_recv_w {s : St} {j : Nat} {x : Ch} (hx : x ≠ .buf)
    (h : ∀ i, i < L → ¬ ((s.qs i).pc = 4 ∧ (s.qs i).parked = true)) :
    ¬ ready (cfg L Q) s (.w j) (.recv x) := by
  rintro (⟨_, hl⟩ | ⟨_, g, t, _, hp⟩)
  · cases x <;> simp [localReady] at hl hx
  · rcases parkedOn_send hp with ⟨i, rfl, hi, hpk, hpc, _⟩ | ⟨k, rfl, _, _, _, _, rfl, _⟩
    · exact h i hi ⟨hpc, hpk⟩
    · exact hx rfl

/-- a queue goroutine's send on `own`/`uni` is not ready when no worker is parked at w2 -/
theorem not_ready_send_q {s : St} {i : Nat} {x : Ch} (hx : x ≠ .buf)
    (h : ∀ j, j < L → ¬ ((s.ws j).pc = 2 ∧ (s.ws j).parked = true)) :
    ¬ ready (cfg L Q) s (.q i) (.send x) := by
  rintro (⟨_, hl⟩ | ⟨_, g, t, _, hp⟩)
  · cases x <;> simp [localReady] at hl hx
  · rcases parkedOn_recv hp with ⟨j, rfl, hj, hpk, hpc, _⟩ | ⟨k, rfl, _, _, _, _, rfl, _⟩
    · exact h j hj ⟨hpc, hpk⟩
    · exact hx rfl

/-- with a real buffer (`Q ≠ 0`) the queue goroutine's receive is not ready on an empty buffer -/
theorem not_ready_recv_buf {s : St} {i : Nat} (hQ : Q ≠ 0) (h : s.buf i = []) :
    ¬ ready (cfg L Q) s (.q i) (.recv .buf) := by
  rintro (⟨_, hl⟩ | ⟨hq, _⟩)
  · simp [localReady, St.lane, h] at hl
  · exact hQ (hq rfl)

/-- with a real buffer the producer's send is not ready on a full buffer -/
theorem not_ready_send_buf {s : St} {k : Nat} (hQ : Q ≠ 0) (h : Q ≤ (s.buf (s.plane k)).length) :
    ¬ ready (cfg L Q) s (.p k) (.send .buf) := by
  rintro (⟨_, hl⟩ | ⟨hq, _⟩)
  · simp [localReady, St.lane, cfg] at hl; omega
  · exact hQ (hq rfl)

abbrev c11 : Cfg := cfg 1 1

theorem lt_one {P : Nat → Prop} (h : P 0) : ∀ i, i < 1 → P i := by
  intro i hi; have : i = 0 := by omega
  subst this; exact h

theorem lt_two {P : Nat → Prop} (h0 : P 0) (h1 : P 1) : ∀ i, i < 2 → P i := by
  intro i hi; have : i = 0 ∨ i = 1 := by omega
  rcases this with rfl|rfl
  · exact h0
  · exact h1

/-- converse of `quiescent_q`/`quiescent_w` for a live context and a real buffer: the shape that
    makes a state quiescent -/
theorem quiescent_of_shape {s : St} (hQ : Q ≠ 0) (hc : s.cancelled = false)
    (hq : ∀ i, i < L → ((s.qs i).pc = 0 ∧ (s.qs i).parked = true ∧ s.buf i = []) ∨
      ((s.qs i).pc = 4 ∧ (s.qs i).parked = true ∧ ∀ j, j < L → (s.ws j).pc = 3))
    (hw : ∀ i, i < L → ((s.ws i).pc = 2 ∨ (s.ws i).pc = 3) ∧ (s.ws i).parked = true)
    (hp : ∀ k, k < s.np → (s.ps k).pc = 5 ∨
      ((s.ps k).pc = 1 ∧ (s.ps k).parked = true ∧ Q ≤ (s.buf (s.plane k)).length)) :
    Quiescent (cfg L Q) s := by
  intro l s' hs
  cases hs.toX with
  | cancel => rfl
  | push => rfl
  | pTimeout => rfl
  | finish => rfl
  | done g a b hl hc' => simp [hc] at hc'
  | qTake i hi hpc hb => rcases hq i hi with h|h <;> simp_all
  | pSend k hk hpc hb => rcases hp k hk with h|h <;> omega
  | hand i j a b hi hj ha ha' hb hb' =>
    rcases hq i hi with h|h
    · omega
    · have := h.2.2 j hj; omega
  | pHand k i hk hi hQ' => exact (hQ hQ').elim
  | dfltDone g a b hl hu hc' hpc he =>
    cases g with
    | q i => rcases hq i hl with h|h <;> simp [St.get, h] at hu
    | w i => simp [St.get, (hw i hl).2] at hu
    | p k => rcases hp k hl with h|h <;> simp [St.get, dfltEdge] at hpc he <;> omega
  | dfltQ i hi hu hpc => rcases hq i hi with h|h <;> omega
  | dfltW i hi hu hpc => have := (hw i hi).1; omega
  | park g a hl hu hpc he =>
    cases g with
    | q i => rcases hq i hl with h|h <;> simp [St.get, h] at hu
    | w i => simp [St.get, (hw i hl).2] at hu
    | p k => rcases hp k hl with h|h <;> simp [St.get, parkPc] at hpc he hu <;> simp_all
  | incCnt i hi hpc => rcases hq i hi with h|h <;> omega
  | decCnt i hi hpc => rcases hq i hi with h|h <;> omega
  | start i hi hu hpc => simp [(hw i hi).2] at hu
  | pushRet k a r hk hpc hr => rcases hp k hk with h|h <;> omega

/-- after cancellation: everybody exited (or inside a task), every producer returned ⇒ quiescent -/
theorem quiescent_of_exited {s : St} (hc : s.cancelled = true)
    (hq : ∀ i, i < L → (s.qs i).pc = 6)
    (hw : ∀ i, i < L → (s.ws i).pc = 4 ∨ ((s.ws i).pc = 3 ∧ (s.ws i).parked = true))
    (hp : ∀ k, k < s.np → (s.ps k).pc = 5) : Quiescent (cfg L Q) s := by
  intro l s' hs
  cases hs.toX with
  | cancel => rfl
  | push => rfl
  | pTimeout => rfl
  | finish => rfl
  | done g a b hl hc' hpc he =>
    cases g with
    | q i => have := hq i hl; simp [St.get, doneEdge] at hpc he; omega
    | w i => have := hw i hl; simp [St.get, doneEdge] at hpc he; omega
    | p k => have := hp k hl; simp [St.get, doneEdge] at hpc he; omega
  | qTake i hi hpc hb => have := hq i hi; omega
  | pSend k hk hpc hb => have := hp k hk; omega
  | hand i j a b hi hj ha ha' hb hb' => have := hq i hi; omega
  | pHand k i hk hi hQ' hpc => have := hp k hk; omega
  | dfltDone g a b hl hu hc' hpc he => simp [hc] at hc'
  | dfltQ i hi hu hpc => have := hq i hi; omega
  | dfltW i hi hu hpc => have := hw i hi; omega
  | park g a hl hu hpc he =>
    cases g with
    | q i => have := hq i hl; simp [St.get, parkPc] at hpc he; omega
    | w i => have := hw i hl; simp [St.get, parkPc] at hpc he; omega
    | p k => have := hp k hl; simp [St.get, parkPc] at hpc he; omega
  | incCnt i hi hpc => have := hq i hi; omega
  | decCnt i hi hpc => have := hq i hi; omega
  | start i hi hu hpc => rcases hw i hi with h|h <;> simp_all
  | pushRet k a r hk hpc hr => have := hp k hk; omega


namespace Trace
/-! one lane, buffer of one.  The intermediate states are named so that terms stay small. -/
def s1 : St := { init with ws := upd init.ws 0 ⟨1, false, 0⟩ }
def s2 : St := { s1 with ws := upd s1.ws 0 ⟨2, false, 0⟩ }
def s3 : St := { s2 with ws := upd s2.ws 0 ⟨2, true, 0⟩ }
def s4 : St := { s3 with ps := upd s3.ps 0 ⟨0, false, 7⟩, plane := upd s3.plane 0 0, np := 1 }
def s5 : St := { s4 with ps := upd s4.ps 0 ⟨1, false, 7⟩ }
def s6 : St := { s5 with buf := upd s5.buf 0 [7], accepted := [7], ps := upd s5.ps 0 ⟨3, false, 7⟩ }
def s7 : St := { s6 with ps := upd s6.ps 0 ⟨5, false, 7⟩, results := [(7, .nil)] }
def s8 : St := { s7 with buf := upd s7.buf 0 [], qs := upd (upd s7.qs 0 ⟨0, false, 7⟩) 0 ⟨1, false, 7⟩ }
def s9 : St := { s8 with cnt := 1, qs := upd s8.qs 0 ⟨2, false, 7⟩ }
def s10 : St := { s9 with qs := upd s9.qs 0 ⟨3, false, 7⟩ }
def s11 : St := { s10 with qs := upd s10.qs 0 ⟨5, false, 7⟩, ws := upd s10.ws 0 ⟨3, false, 7⟩ }
def s12 : St := { s11 with cnt := 0, qs := upd s11.qs 0 ⟨0, false, 7⟩ }
def s13 : St := { s12 with qs := upd s12.qs 0 ⟨0, true, 7⟩ }
def s14 : St := { s13 with ws := upd s13.ws 0 ⟨3, true, 7⟩, started := [7] }

theorem reach10 : Reachable c11 s10 := by
  have r0 : Reachable c11 init := .init
  -- worker: w0 → w1 → w2 → parks
  have r1 : Reachable c11 s1 := .step _ _ _ r0 (Step.dflt _ (.w 0) [(.done, 4)] 1 Nat.zero_lt_one rfl rfl
    (by intro k t hm; simp at hm; obtain ⟨rfl, rfl⟩ := hm; exact not_ready_done rfl))
  have r2 : Reachable c11 s2 := .step _ _ _ r1 (Step.dflt _ (.w 0) [(.recv .own, 3)] 2 Nat.zero_lt_one rfl rfl
    (by intro k t hm; simp at hm; obtain ⟨rfl, rfl⟩ := hm
        exact not_ready_recv_w (by simp) (lt_one (by decide))))
  have r3 : Reachable c11 s3 := .step _ _ _ r2 (Step.park _ (.w 0) [(.done, 4), (.recv .own, 3), (.recv .uni, 3)]
    Nat.zero_lt_one rfl rfl
    (by intro k t hm; simp at hm
        rcases hm with ⟨rfl, rfl⟩|⟨rfl, rfl⟩|⟨rfl, rfl⟩
        · exact not_ready_done rfl
        · exact not_ready_recv_w (by simp) (lt_one (by decide))
        · exact not_ready_recv_w (by simp) (lt_one (by decide))))
  -- PushTask(7, lane 0): p0 → p1 → buffered send → returns nil
  have r4 : Reachable c11 s4 := .step _ _ _ r3 (Step.push _ 7 0 Nat.zero_lt_one
    (by intro k hk; exact absurd hk (Nat.not_lt_zero _)))
  have r5 : Reachable c11 s5 := .step _ _ _ r4 (Step.dflt _ (.p 0) [(.done, 2)] 1 Nat.zero_lt_one rfl rfl
    (by intro k t hm; simp at hm; obtain ⟨rfl, rfl⟩ := hm; exact not_ready_done rfl))
  have r6 : Reachable c11 s6 := .step _ _ _ r5 (Step.takeLocal _ (.p 0) _ none (.send .buf) 3 Nat.zero_lt_one rfl
    (by simp) Nat.zero_lt_one)
  have r7 : Reachable c11 s7 := .step _ _ _ r6 (Step.pushRet _ 0 .retNil 5 .nil Nat.zero_lt_one rfl (by simp))
  -- queue goroutine: takes 7 from the buffer, cnt++, q2 → q3, hands over to the parked worker, cnt--
  have r8 : Reachable c11 s8 := .step _ _ _ r7 (Step.takeLocal _ (.q 0) _ none (.recv .buf) 1 Nat.zero_lt_one rfl
    (by simp) (List.cons_ne_nil 7 []))
  have r9 : Reachable c11 s9 := .step _ _ _ r8 (Step.incCnt _ (.q 0) 2 Nat.zero_lt_one rfl)
  exact .step _ _ _ r9 (Step.dflt _ (.q 0) [(.done, 6)] 3 Nat.zero_lt_one rfl rfl
    (by intro k t hm; simp at hm; obtain ⟨rfl, rfl⟩ := hm; exact not_ready_done rfl))

theorem reach14 : Reachable c11 s14 := by
  have r10 := reach10
  have r11 : Reachable c11 s11 := .step _ _ _ r10 (Step.handover _ (.q 0) (.w 0) _ (some 4) .own 5 3
    Nat.zero_lt_one rfl (by simp) (by simp) (by simp)
    ⟨Nat.zero_lt_one, rfl, _, rfl, by simp, rfl⟩)
  have r12 : Reachable c11 s12 := .step _ _ _ r11 (Step.decCnt _ (.q 0) 0 Nat.zero_lt_one rfl)
  have r13 : Reachable c11 s13 := .step _ _ _ r12 (Step.park _ (.q 0) [(.done, 6), (.recv .buf, 1)]
    Nat.zero_lt_one rfl rfl
    (by intro k t hm; simp at hm
        rcases hm with ⟨rfl, rfl⟩|⟨rfl, rfl⟩
        · exact not_ready_done rfl
        · exact not_ready_recv_buf (by decide) rfl))
  -- the worker calls Start()
  exact .step _ _ _ r13 (Step.start _ 0 0 Nat.zero_lt_one rfl rfl)


/-! branch A: the task returns, the worker goes back to w2 and parks: everything at rest -/
def a15 : St := { s14 with ws := upd s14.ws 0 ⟨0, false, 7⟩, finished := [7] }
def a16 : St := { a15 with ws := upd a15.ws 0 ⟨1, false, 7⟩ }
def a17 : St := { a16 with ws := upd a16.ws 0 ⟨2, false, 7⟩ }
def a18 : St := { a17 with ws := upd a17.ws 0 ⟨2, true, 7⟩ }

theorem reachA : Reachable c11 a18 := by
  have r15 : Reachable c11 a15 := .step _ _ _ reach14 (Step.finish _ 0 0 none Nat.zero_lt_one rfl rfl)
  have r16 : Reachable c11 a16 := .step _ _ _ r15 (Step.dflt _ (.w 0) [(.done, 4)] 1 Nat.zero_lt_one rfl rfl
    (by intro k t hm; simp at hm; obtain ⟨rfl, rfl⟩ := hm; exact not_ready_done rfl))
  have r17 : Reachable c11 a17 := .step _ _ _ r16 (Step.dflt _ (.w 0) [(.recv .own, 3)] 2 Nat.zero_lt_one rfl rfl
    (by intro k t hm; simp at hm; obtain ⟨rfl, rfl⟩ := hm
        exact not_ready_recv_w (by simp) (lt_one (by decide))))
  exact .step _ _ _ r17 (Step.park _ (.w 0) [(.done, 4), (.recv .own, 3), (.recv .uni, 3)]
    Nat.zero_lt_one rfl rfl
    (by intro k t hm; simp at hm
        rcases hm with ⟨rfl, rfl⟩|⟨rfl, rfl⟩|⟨rfl, rfl⟩
        · exact not_ready_done rfl
        · exact not_ready_recv_w (by simp) (lt_one (by decide))
        · exact not_ready_recv_w (by simp) (lt_one (by decide))))

theorem quiescentA : Quiescent c11 a18 :=
  quiescent_of_shape (by decide) rfl (lt_one (Or.inl ⟨rfl, rfl, rfl⟩)) (lt_one ⟨Or.inl rfl, rfl⟩)
    (lt_one (Or.inl rfl))

/-! branch B: while task 7 is running (the only worker is pinned) a second task 8 is pushed; the
    queue goroutine takes it and blocks at q4 with nobody to hand it to -/
def b15 : St := { s14 with ps := upd s14.ps 1 ⟨0, false, 8⟩, plane := upd s14.plane 1 0, np := 2 }
def b16 : St := { b15 with ps := upd b15.ps 1 ⟨1, false, 8⟩ }
def b17 : St := { b16 with buf := upd b16.buf 0 [8], accepted := [7, 8], ps := upd b16.ps 1 ⟨3, false, 8⟩ }
def b18 : St := { b17 with ps := upd b17.ps 1 ⟨5, false, 8⟩, results := [(7, .nil), (8, .nil)] }
def b19 : St := { b18 with buf := upd b18.buf 0 [], qs := upd (upd b18.qs 0 ⟨0, true, 8⟩) 0 ⟨1, false, 8⟩ }
def b20 : St := { b19 with cnt := 1, qs := upd b19.qs 0 ⟨2, false, 8⟩ }
def b21 : St := { b20 with qs := upd b20.qs 0 ⟨3, false, 8⟩ }
def b22 : St := { b21 with qs := upd b21.qs 0 ⟨4, false, 8⟩ }
def b23 : St := { b22 with qs := upd b22.qs 0 ⟨4, true, 8⟩ }

theorem reachB : Reachable c11 b23 := by
  have r15 : Reachable c11 b15 := .step _ _ _ reach14 (Step.push _ 8 0 Nat.zero_lt_one
    (lt_one (by decide)))
  have r16 : Reachable c11 b16 := .step _ _ _ r15 (Step.dflt _ (.p 1) [(.done, 2)] 1 (Nat.lt_succ_self 1) rfl rfl
    (by intro k t hm; simp at hm; obtain ⟨rfl, rfl⟩ := hm; exact not_ready_done rfl))
  have r17 : Reachable c11 b17 := .step _ _ _ r16 (Step.takeLocal _ (.p 1) _ none (.send .buf) 3 (Nat.lt_succ_self 1) rfl
    (by simp) Nat.zero_lt_one)
  have r18 : Reachable c11 b18 := .step _ _ _ r17 (Step.pushRet _ 1 .retNil 5 .nil (Nat.lt_succ_self 1) rfl (by simp))
  have r19 : Reachable c11 b19 := .step _ _ _ r18 (Step.takeLocal _ (.q 0) _ none (.recv .buf) 1 Nat.zero_lt_one rfl
    (by simp) (List.cons_ne_nil 8 []))
  have r20 : Reachable c11 b20 := .step _ _ _ r19 (Step.incCnt _ (.q 0) 2 Nat.zero_lt_one rfl)
  have r21 : Reachable c11 b21 := .step _ _ _ r20 (Step.dflt _ (.q 0) [(.done, 6)] 3 Nat.zero_lt_one rfl rfl
    (by intro k t hm; simp at hm; obtain ⟨rfl, rfl⟩ := hm; exact not_ready_done rfl))
  have r22 : Reachable c11 b22 := .step _ _ _ r21 (Step.dflt _ (.q 0) [(.send .own, 5)] 4 Nat.zero_lt_one rfl rfl
    (by intro k t hm; simp at hm; obtain ⟨rfl, rfl⟩ := hm
        exact not_ready_send_q (by simp) (lt_one (by decide))))
  exact .step _ _ _ r22 (Step.park _ (.q 0) [(.done, 6), (.send .own, 5), (.send .uni, 5)]
    Nat.zero_lt_one rfl rfl
    (by intro k t hm; simp at hm
        rcases hm with ⟨rfl, rfl⟩|⟨rfl, rfl⟩|⟨rfl, rfl⟩
        · exact not_ready_done rfl
        · exact not_ready_send_q (by simp) (lt_one (by decide))
        · exact not_ready_send_q (by simp) (lt_one (by decide))))

theorem quiescentB : Quiescent c11 b23 :=
  quiescent_of_shape (by decide) rfl (lt_one (Or.inr ⟨rfl, rfl, lt_one rfl⟩)) (lt_one ⟨Or.inr rfl, rfl⟩)
    (lt_two (Or.inl rfl) (Or.inl rfl))

/-! shutdown of an idle lane (`cfg 1 0`): cancel, both goroutines see `Done()` and exit -/
def c1 : St := { init with cancelled := true }
def c2 : St := { c1 with qs := upd c1.qs 0 ⟨6, false, 0⟩ }
def c3 : St := { c2 with ws := upd c2.ws 0 ⟨4, false, 0⟩ }
/-- … and a PushTask that begins after the cancellation -/
def c4 : St := { c3 with ps := upd c3.ps 0 ⟨0, false, 7⟩, plane := upd c3.plane 0 0, np := 1 }

theorem reachC3 : Reachable (cfg 1 0) c3 := by
  have r1 : Reachable (cfg 1 0) c1 := .step _ _ _ .init (Step.cancel _ rfl)
  have r2 : Reachable (cfg 1 0) c2 := .step _ _ _ r1 (Step.takeLocal _ (.q 0) _ none .done 6 Nat.zero_lt_one rfl
    (by simp) rfl)
  exact .step _ _ _ r2 (Step.takeLocal _ (.w 0) _ (some 1) .done 4 Nat.zero_lt_one rfl (by simp) rfl)

theorem reachC4 : Reachable (cfg 1 0) c4 :=
  .step _ _ _ reachC3 (Step.push _ 7 0 Nat.zero_lt_one (by intro k hk; exact absurd hk (Nat.not_lt_zero _)))

theorem quiescentC3 : Quiescent (cfg 1 0) c3 :=
  quiescent_of_exited rfl (lt_one rfl) (lt_one (Or.inl rfl)) (by intro k hk; exact absurd hk (Nat.not_lt_zero _))

end Trace
end Glb.TaskLane
