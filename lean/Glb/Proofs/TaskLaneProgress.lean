/-
  Helper lemmas for the progress / termination theorems of the TaskLane model
  (C06 liveness core, C07, C08 no-head-of-line-blocking, A.2 measures):

  * program lookup lemmas (which instruction sits at which pc of `queueProg/workerProg/pushProg`);
  * `XStep`: the step relation of `cfg L Q` spelled out edge by edge, and `Step.toX`
    (every `Step (cfg L Q)` is one of these edges) — all later inductions go over `XStep`;
  * the structural invariant `WF` (pcs inside the programs, `parked` only at blocking selects
    and at the worker's `run`), `NoExit` (nobody has exited while the context is live),
    the producer bookkeeping invariant `PInv`;
  * enabledness lemmas (`select_unparked_enabled`, `ready_enabled`, `done_enabled`, `hand_enabled`)
    and the shape of quiescent states (`quiescent_q`, `quiescent_w`, `quiescent_idle`);
  * `allExited_steps` (nothing after Wait), `PAC` (forward invariant of a PushTask begun after cancel);
  * the termination measure `mu` (DESIGN A.2) with `mu_xstep` (every internal step decreases it),
    runs of internal steps `IRun`, `exists_quiescent`, `no_infinite_internal`; `cancel_progress`.
  `Steps` and `allExited` (used by the C07 statements) are defined here.
-/
import Glb.Model.TaskLane
import Glb.Proofs.TaskLaneSafety

namespace Glb.TaskLane

/-- reflexive-transitive closure of `Step` -/
inductive Steps (c : Cfg) : St → St → Prop where
  | refl (s) : Steps c s s
  | tail (s l s' s'') : Steps c s s' → Step c s' l s'' → Steps c s s''

def allExited (L : Nat) (s : St) : Prop := ∀ i, i < L → (s.qs i).pc = 6 ∧ (s.ws i).pc = 4

set_option linter.unusedSimpArgs false
variable {L Q : Nat}

/-! ### Program lookup -/

theorem q_instr {s : St} {i : Nat} {ins : Instr} (h : instrAt (cfg L Q) s (.q i) = some ins) :
    ((s.qs i).pc = 0 ∧ ins = .select [(.done, 6), (.recv .buf, 1)] none) ∨
    ((s.qs i).pc = 1 ∧ ins = .act .incCnt 2) ∨
    ((s.qs i).pc = 2 ∧ ins = .select [(.done, 6)] (some 3)) ∨
    ((s.qs i).pc = 3 ∧ ins = .select [(.send .own, 5)] (some 4)) ∨
    ((s.qs i).pc = 4 ∧ ins = .select [(.done, 6), (.send .own, 5), (.send .uni, 5)] none) ∨
    ((s.qs i).pc = 5 ∧ ins = .act .decCnt 0) ∨
    ((s.qs i).pc = 6 ∧ ins = .halt) := by
  unfold instrAt progOf cfg at h
  simp only [St.get] at h
  generalize (s.qs i).pc = n at h ⊢
  rcases n with _|_|_|_|_|_|_|n <;> simp [queueProg] at h ⊢ <;> exact h.symm

theorem w_instr {s : St} {i : Nat} {ins : Instr} (h : instrAt (cfg L Q) s (.w i) = some ins) :
    ((s.ws i).pc = 0 ∧ ins = .select [(.done, 4)] (some 1)) ∨
    ((s.ws i).pc = 1 ∧ ins = .select [(.recv .own, 3)] (some 2)) ∨
    ((s.ws i).pc = 2 ∧ ins = .select [(.done, 4), (.recv .own, 3), (.recv .uni, 3)] none) ∨
    ((s.ws i).pc = 3 ∧ ins = .act .run 0) ∨
    ((s.ws i).pc = 4 ∧ ins = .halt) := by
  unfold instrAt progOf cfg at h
  simp only [St.get] at h
  generalize (s.ws i).pc = n at h ⊢
  rcases n with _|_|_|_|_|n <;> simp [workerProg] at h ⊢ <;> exact h.symm

theorem p_instr {s : St} {k : Nat} {ins : Instr} (h : instrAt (cfg L Q) s (.p k) = some ins) :
    ((s.ps k).pc = 0 ∧ ins = .select [(.done, 2)] (some 1)) ∨
    ((s.ps k).pc = 1 ∧ ins = .select [(.done, 2), (.send .buf, 3), (.timeout, 4)] none) ∨
    ((s.ps k).pc = 2 ∧ ins = .act .retCtxErr 5) ∨
    ((s.ps k).pc = 3 ∧ ins = .act .retNil 5) ∨
    ((s.ps k).pc = 4 ∧ ins = .act .retTimeout 5) ∨
    ((s.ps k).pc = 5 ∧ ins = .halt) := by
  unfold instrAt progOf cfg at h
  simp only [St.get] at h
  generalize (s.ps k).pc = n at h ⊢
  rcases n with _|_|_|_|_|_|n <;> simp [pushProg] at h ⊢ <;> exact h.symm

/-- the instruction at a given pc (forward direction, used to build steps) -/
theorem q_at {s : St} {i n : Nat} (h : (s.qs i).pc = n) :
    instrAt (cfg L Q) s (.q i) = queueProg[n]? := by
  simp [instrAt, progOf, cfg, St.get, h]

theorem w_at {s : St} {i n : Nat} (h : (s.ws i).pc = n) :
    instrAt (cfg L Q) s (.w i) = workerProg[n]? := by
  simp [instrAt, progOf, cfg, St.get, h]

theorem p_at {s : St} {k n : Nat} (h : (s.ps k).pc = n) :
    instrAt (cfg L Q) s (.p k) = pushProg[n]? := by
  simp [instrAt, progOf, cfg, St.get, h]


/-! ### The step relation of `cfg L Q`, edge by edge -/

theorem upd_upd {α} (f : Nat → α) (i : Nat) (v w : α) : upd (upd f i v) i w = upd f i w := by
  funext j; simp only [upd]; split <;> rfl

/-- `case <-ctx.Done()` edges -/
def doneEdge : Gid → Nat → Nat → Prop
  | .q _, a, b => (a = 0 ∨ a = 2 ∨ a = 4) ∧ b = 6
  | .w _, a, b => (a = 0 ∨ a = 2) ∧ b = 4
  | .p _, a, b => (a = 0 ∨ a = 1) ∧ b = 2

/-- `default` edges of the selects whose only case is `<-ctx.Done()` -/
def dfltEdge : Gid → Nat → Nat → Prop
  | .q _, a, b => a = 2 ∧ b = 3
  | .w _, a, b => a = 0 ∧ b = 1
  | .p _, a, b => a = 0 ∧ b = 1

/-- pcs of the blocking selects -/
def parkPc : Gid → Nat → Prop
  | .q _, a => a = 0 ∨ a = 4
  | .w _, a => a = 2
  | .p _, a => a = 1

inductive XStep (L Q : Nat) : St → Label → St → Prop where
  | cancel (s : St) : s.cancelled = false → XStep L Q s .cancel { s with cancelled := true }
  | push (s : St) (t : Tid) (lane : Nat) : lane < L → (∀ k, k < s.np → (s.ps k).held ≠ t) →
      XStep L Q s (.push s.np t lane)
        { s with ps := upd s.ps s.np { pc := 0, parked := false, held := t },
                 plane := upd s.plane s.np lane, np := s.np + 1 }
  /-- some select takes its `<-ctx.Done()` case -/
  | done (s : St) (g : Gid) (a b : Nat) : s.live (cfg L Q) g → s.cancelled = true →
      (s.get g).pc = a → doneEdge g a b → XStep L Q s .tau (s.set g (goto (s.get g) b))
  /-- queue goroutine takes the head of its buffer -/
  | qTake (s : St) (i : Nat) : i < L → (s.qs i).pc = 0 → s.buf i ≠ [] →
      XStep L Q s .tau
        { s with buf := upd s.buf i (s.buf i).tail, qs := upd s.qs i ⟨1, false, (s.buf i).headD 0⟩ }
  /-- producer puts its task into the buffer -/
  | pSend (s : St) (k : Nat) : k < s.np → (s.ps k).pc = 1 → (s.buf (s.plane k)).length < Q →
      XStep L Q s .tau
        { s with buf := upd s.buf (s.plane k) (s.buf (s.plane k) ++ [(s.ps k).held]),
                 accepted := s.accepted ++ [(s.ps k).held], ps := upd s.ps k (goto (s.ps k) 3) }
  | pTimeout (s : St) (k : Nat) : k < s.np → (s.ps k).pc = 1 →
      XStep L Q s (.timeout k) { s with ps := upd s.ps k (goto (s.ps k) 4) }
  /-- queue goroutine `i` (at q3/q4) hands its task to worker `j` (at w1/w2) -/
  | hand (s : St) (i j a b : Nat) : i < L → j < L → (s.qs i).pc = a → (a = 3 ∨ a = 4) →
      (s.ws j).pc = b → (b = 1 ∨ b = 2) →
      XStep L Q s .tau
        { s with qs := upd s.qs i (goto (s.qs i) 5), ws := upd s.ws j ⟨3, false, (s.qs i).held⟩ }
  /-- `Q = 0`: producer `k` hands its task directly to queue goroutine `i` -/
  | pHand (s : St) (k i : Nat) : k < s.np → i < L → Q = 0 → (s.ps k).pc = 1 → (s.qs i).pc = 0 →
      XStep L Q s .tau
        { s with accepted := s.accepted ++ [(s.ps k).held], ps := upd s.ps k (goto (s.ps k) 3),
                 qs := upd s.qs i ⟨1, false, (s.ps k).held⟩ }
  | dfltDone (s : St) (g : Gid) (a b : Nat) : s.live (cfg L Q) g → (s.get g).parked = false →
      s.cancelled = false → (s.get g).pc = a → dfltEdge g a b →
      XStep L Q s .tau (s.set g (goto (s.get g) b))
  | dfltQ (s : St) (i : Nat) : i < L → (s.qs i).parked = false → (s.qs i).pc = 3 →
      XStep L Q s .tau { s with qs := upd s.qs i (goto (s.qs i) 4) }
  | dfltW (s : St) (i : Nat) : i < L → (s.ws i).parked = false → (s.ws i).pc = 1 →
      XStep L Q s .tau { s with ws := upd s.ws i (goto (s.ws i) 2) }
  | park (s : St) (g : Gid) (a : Nat) : s.live (cfg L Q) g → (s.get g).parked = false →
      (s.get g).pc = a → parkPc g a →
      XStep L Q s .tau (s.set g { s.get g with parked := true })
  | incCnt (s : St) (i : Nat) : i < L → (s.qs i).pc = 1 →
      XStep L Q s .tau { s with cnt := s.cnt + 1, qs := upd s.qs i (goto (s.qs i) 2) }
  | decCnt (s : St) (i : Nat) : i < L → (s.qs i).pc = 5 →
      XStep L Q s .tau { s with cnt := s.cnt - 1, qs := upd s.qs i (goto (s.qs i) 0) }
  | start (s : St) (i : Nat) : i < L → (s.ws i).parked = false → (s.ws i).pc = 3 →
      XStep L Q s (.start i (s.ws i).held)
        { s with ws := upd s.ws i { s.ws i with parked := true },
                 started := s.started ++ [(s.ws i).held] }
  | finish (s : St) (i : Nat) (v : Option Nat) : i < L → (s.ws i).parked = true → (s.ws i).pc = 3 →
      XStep L Q s (.finish i (s.ws i).held v)
        { s with ws := upd s.ws i (goto (s.ws i) 0), finished := s.finished ++ [(s.ws i).held],
                 lastPanic := match v with | some x => some x | none => s.lastPanic,
                 panics := match v with | some x => s.panics ++ [x] | none => s.panics }
  | pushRet (s : St) (k a : Nat) (r : PushResult) : k < s.np → (s.ps k).pc = a →
      (a = 2 ∧ r = .ctxErr ∨ a = 3 ∧ r = .nil ∨ a = 4 ∧ r = .timeout) →
      XStep L Q s (.pushRet k (s.ps k).held r)
        { s with ps := upd s.ps k (goto (s.ps k) 5), results := s.results ++ [((s.ps k).held, r)] }


theorem parkedOn_recv {s : St} {h : Gid} {x : Ch} {ch : Ch × Nat} {th : Nat}
    (hp : parkedOn (cfg L Q) s h (.recv x) ch th) :
    (∃ j, h = .w j ∧ j < L ∧ (s.ws j).parked = true ∧ (s.ws j).pc = 2 ∧ th = 3 ∧
        (x = .own ∧ ch = (.own, j) ∨ x = .uni ∧ ch = (.uni, 0))) ∨
    (∃ i, h = .q i ∧ i < L ∧ (s.qs i).parked = true ∧ (s.qs i).pc = 0 ∧ th = 1 ∧
        x = .buf ∧ ch = (.buf, i)) := by
  obtain ⟨hl, hpk, cases, hi, hm, hc⟩ := hp
  cases h with
  | q i =>
    right
    refine ⟨i, rfl, hl, hpk, ?_⟩
    rcases q_instr hi with ⟨hp, he⟩|⟨hp, he⟩|⟨hp, he⟩|⟨hp, he⟩|⟨hp, he⟩|⟨hp, he⟩|⟨hp, he⟩ <;>
      cases he <;> simp at hm
    · obtain ⟨rfl, rfl⟩ := hm; simp [chanOf, St.lane] at hc; simp [hp, hc]
  | w j =>
    left
    refine ⟨j, rfl, hl, hpk, ?_⟩
    rcases w_instr hi with ⟨hp, he⟩|⟨hp, he⟩|⟨hp, he⟩|⟨hp, he⟩|⟨hp, he⟩ <;>
      cases he <;> simp at hm
    · rcases hm with ⟨rfl, rfl⟩|⟨rfl, rfl⟩ <;> simp [chanOf, St.lane] at hc <;> simp [hp, hc]
  | p k =>
    rcases p_instr hi with ⟨hp, he⟩|⟨hp, he⟩|⟨hp, he⟩|⟨hp, he⟩|⟨hp, he⟩|⟨hp, he⟩ <;>
      cases he <;> simp at hm


theorem parkedOn_send {s : St} {h : Gid} {x : Ch} {ch : Ch × Nat} {th : Nat}
    (hp : parkedOn (cfg L Q) s h (.send x) ch th) :
    (∃ i, h = .q i ∧ i < L ∧ (s.qs i).parked = true ∧ (s.qs i).pc = 4 ∧ th = 5 ∧
        (x = .own ∧ ch = (.own, i) ∨ x = .uni ∧ ch = (.uni, 0))) ∨
    (∃ k, h = .p k ∧ k < s.np ∧ (s.ps k).parked = true ∧ (s.ps k).pc = 1 ∧ th = 3 ∧
        x = .buf ∧ ch = (.buf, s.plane k)) := by
  obtain ⟨hl, hpk, cases, hi, hm, hc⟩ := hp
  cases h with
  | q i =>
    left
    refine ⟨i, rfl, hl, hpk, ?_⟩
    rcases q_instr hi with ⟨hp, he⟩|⟨hp, he⟩|⟨hp, he⟩|⟨hp, he⟩|⟨hp, he⟩|⟨hp, he⟩|⟨hp, he⟩ <;>
      cases he <;> simp at hm
    · rcases hm with ⟨rfl, rfl⟩|⟨rfl, rfl⟩ <;> simp [chanOf, St.lane] at hc <;> simp [hp, hc]
  | w j =>
    rcases w_instr hi with ⟨hp, he⟩|⟨hp, he⟩|⟨hp, he⟩|⟨hp, he⟩|⟨hp, he⟩ <;>
      cases he <;> simp at hm
  | p k =>
    right
    refine ⟨k, rfl, hl, hpk, ?_⟩
    rcases p_instr hi with ⟨hp, he⟩|⟨hp, he⟩|⟨hp, he⟩|⟨hp, he⟩|⟨hp, he⟩|⟨hp, he⟩ <;>
      cases he <;> simp at hm
    · obtain ⟨rfl, rfl⟩ := hm; simp [chanOf, St.lane] at hc; simp [hp, hc]

theorem Step.toX {s : St} {l : Label} {s' : St} (h : Step (cfg L Q) s l s') : XStep L Q s l s' := by
  cases h with
  | cancel hc => exact .cancel s hc
  | push t lane hl hf => exact .push s t lane hl hf
  | takeLocal g cases dflt k target hl hi hm hr =>
    cases g with
    | q i =>
      rcases q_instr hi with ⟨hp, he⟩|⟨hp, he⟩|⟨hp, he⟩|⟨hp, he⟩|⟨hp, he⟩|⟨hp, he⟩|⟨hp, he⟩ <;>
        cases he <;> simp at hm
      · rcases hm with ⟨rfl, rfl⟩|⟨rfl, rfl⟩
        · exact .done s (.q i) 0 6 hl hr hp (by simp [doneEdge])
        · have := XStep.qTake (L := L) (Q := Q) s i hl hp hr
          simpa [localEffect, St.set, St.get, goto, St.lane, upd_upd] using this
      · obtain ⟨rfl, rfl⟩ := hm
        exact .done s (.q i) 2 6 hl hr hp (by simp [doneEdge])
      · obtain ⟨rfl, rfl⟩ := hm
        simp [localReady] at hr
      · rcases hm with ⟨rfl, rfl⟩|⟨rfl, rfl⟩|⟨rfl, rfl⟩
        · exact .done s (.q i) 4 6 hl hr hp (by simp [doneEdge])
        · simp [localReady] at hr
        · simp [localReady] at hr
    | w i =>
      rcases w_instr hi with ⟨hp, he⟩|⟨hp, he⟩|⟨hp, he⟩|⟨hp, he⟩|⟨hp, he⟩ <;>
        cases he <;> simp at hm
      · obtain ⟨rfl, rfl⟩ := hm
        exact .done s (.w i) 0 4 hl hr hp (by simp [doneEdge])
      · obtain ⟨rfl, rfl⟩ := hm
        simp [localReady] at hr
      · rcases hm with ⟨rfl, rfl⟩|⟨rfl, rfl⟩|⟨rfl, rfl⟩
        · exact .done s (.w i) 2 4 hl hr hp (by simp [doneEdge])
        · simp [localReady] at hr
        · simp [localReady] at hr
    | p k =>
      rcases p_instr hi with ⟨hp, he⟩|⟨hp, he⟩|⟨hp, he⟩|⟨hp, he⟩|⟨hp, he⟩|⟨hp, he⟩ <;>
        cases he <;> simp at hm
      · obtain ⟨rfl, rfl⟩ := hm
        exact .done s (.p k) 0 2 hl hr hp (by simp [doneEdge])
      · rcases hm with ⟨rfl, rfl⟩|⟨rfl, rfl⟩|⟨rfl, rfl⟩
        · exact .done s (.p k) 1 2 hl hr hp (by simp [doneEdge])
        · have := XStep.pSend (L := L) (Q := Q) s k hl hp hr
          simpa [localEffect, St.set, St.get, goto, St.lane, upd_upd] using this
        · have := XStep.pTimeout (L := L) (Q := Q) s k hl hp
          simpa [localEffect, St.set, St.get, goto, St.lane, upd_upd] using this
  | handover g h cases dflt x tg th hl hi hm hq hne hpo =>
    rcases parkedOn_recv hpo with ⟨j, rfl, hj, hjp, hjpc, rfl, hx⟩ | ⟨i', rfl, hi', hip, hipc, rfl, rfl, hch⟩
    · cases g with
      | q i =>
        rcases q_instr hi with ⟨hp, he⟩|⟨hp, he⟩|⟨hp, he⟩|⟨hp, he⟩|⟨hp, he⟩|⟨hp, he⟩|⟨hp, he⟩ <;>
          cases he <;> simp at hm
        · obtain ⟨rfl, rfl⟩ := hm
          have := XStep.hand (L := L) (Q := Q) s i j 3 2 hl hj hp (by simp) hjpc (by simp)
          simpa [St.set, St.get, goto] using this
        · have htg : tg = 5 := by rcases hm with ⟨_, rfl⟩|⟨_, rfl⟩ <;> rfl
          subst htg
          have hxb : x ≠ .buf := by rcases hm with ⟨rfl, _⟩|⟨rfl, _⟩ <;> simp
          have := XStep.hand (L := L) (Q := Q) s i j 4 2 hl hj hp (by simp) hjpc (by simp)
          simpa [St.set, St.get, goto, hxb] using this
      | w i =>
        rcases w_instr hi with ⟨hp, he⟩|⟨hp, he⟩|⟨hp, he⟩|⟨hp, he⟩|⟨hp, he⟩ <;>
          cases he <;> simp at hm
      | p k =>
        rcases p_instr hi with ⟨hp, he⟩|⟨hp, he⟩|⟨hp, he⟩|⟨hp, he⟩|⟨hp, he⟩|⟨hp, he⟩ <;>
          cases he <;> simp at hm
        · obtain ⟨rfl, rfl⟩ := hm
          simp at hx
    · cases g with
      | q i =>
        rcases q_instr hi with ⟨hp, he⟩|⟨hp, he⟩|⟨hp, he⟩|⟨hp, he⟩|⟨hp, he⟩|⟨hp, he⟩|⟨hp, he⟩ <;>
          cases he <;> simp at hm
      | w i =>
        rcases w_instr hi with ⟨hp, he⟩|⟨hp, he⟩|⟨hp, he⟩|⟨hp, he⟩|⟨hp, he⟩ <;>
          cases he <;> simp at hm
      | p k =>
        rcases p_instr hi with ⟨hp, he⟩|⟨hp, he⟩|⟨hp, he⟩|⟨hp, he⟩|⟨hp, he⟩|⟨hp, he⟩ <;>
          cases he <;> simp at hm
        · subst hm
          have := XStep.pHand (L := L) (Q := Q) s k i' hl hi' (hq rfl) hp hipc
          simpa [St.set, St.get, goto] using this
  | takeover g h cases dflt x tg th hl hi hm hq hne hpo =>
    rcases parkedOn_send hpo with ⟨i, rfl, hi', hip, hipc, rfl, hx⟩ | ⟨k, rfl, hk, hkp, hkpc, rfl, rfl, hch⟩
    · cases g with
      | q i =>
        rcases q_instr hi with ⟨hp, he⟩|⟨hp, he⟩|⟨hp, he⟩|⟨hp, he⟩|⟨hp, he⟩|⟨hp, he⟩|⟨hp, he⟩ <;>
          cases he <;> simp at hm
        · obtain ⟨rfl, rfl⟩ := hm
          simp at hx
      | w j =>
        rcases w_instr hi with ⟨hp, he⟩|⟨hp, he⟩|⟨hp, he⟩|⟨hp, he⟩|⟨hp, he⟩ <;>
          cases he <;> simp at hm
        · obtain ⟨rfl, rfl⟩ := hm
          have := XStep.hand (L := L) (Q := Q) s i j 4 1 hi' hl hipc (by simp) hp (by simp)
          simpa [St.set, St.get, goto] using this
        · have htg : tg = 3 := by rcases hm with ⟨_, rfl⟩|⟨_, rfl⟩ <;> rfl
          subst htg
          have hxb : x ≠ .buf := by rcases hm with ⟨rfl, _⟩|⟨rfl, _⟩ <;> simp
          have := XStep.hand (L := L) (Q := Q) s i j 4 2 hi' hl hipc (by simp) hp (by simp)
          simpa [St.set, St.get, goto, hxb] using this
      | p k =>
        rcases p_instr hi with ⟨hp, he⟩|⟨hp, he⟩|⟨hp, he⟩|⟨hp, he⟩|⟨hp, he⟩|⟨hp, he⟩ <;>
          cases he <;> simp at hm
    · cases g with
      | q i =>
        rcases q_instr hi with ⟨hp, he⟩|⟨hp, he⟩|⟨hp, he⟩|⟨hp, he⟩|⟨hp, he⟩|⟨hp, he⟩|⟨hp, he⟩ <;>
          cases he <;> simp at hm
        · subst hm
          have := XStep.pHand (L := L) (Q := Q) s k i hk hl (hq rfl) hkpc hp
          simpa [St.set, St.get, goto] using this
      | w i =>
        rcases w_instr hi with ⟨hp, he⟩|⟨hp, he⟩|⟨hp, he⟩|⟨hp, he⟩|⟨hp, he⟩ <;>
          cases he <;> simp at hm
      | p k =>
        rcases p_instr hi with ⟨hp, he⟩|⟨hp, he⟩|⟨hp, he⟩|⟨hp, he⟩|⟨hp, he⟩|⟨hp, he⟩ <;>
          cases he <;> simp at hm
  | dflt g cases d hl hu hi hnr =>
    cases g with
    | q i =>
      rcases q_instr hi with ⟨hp, he⟩|⟨hp, he⟩|⟨hp, he⟩|⟨hp, he⟩|⟨hp, he⟩|⟨hp, he⟩|⟨hp, he⟩ <;>
        cases he
      · have hc : s.cancelled = false := by
          have := hnr .done 6 (by simp)
          simpa [ready, localReady, partnerReady] using this
        exact .dfltDone s (.q i) 2 3 hl hu hc hp (by simp [dfltEdge])
      · have := XStep.dfltQ (L := L) (Q := Q) s i hl hu hp
        simpa [St.set, St.get] using this
    | w i =>
      rcases w_instr hi with ⟨hp, he⟩|⟨hp, he⟩|⟨hp, he⟩|⟨hp, he⟩|⟨hp, he⟩ <;>
        cases he
      · have hc : s.cancelled = false := by
          have := hnr .done 4 (by simp)
          simpa [ready, localReady, partnerReady] using this
        exact .dfltDone s (.w i) 0 1 hl hu hc hp (by simp [dfltEdge])
      · have := XStep.dfltW (L := L) (Q := Q) s i hl hu hp
        simpa [St.set, St.get] using this
    | p k =>
      rcases p_instr hi with ⟨hp, he⟩|⟨hp, he⟩|⟨hp, he⟩|⟨hp, he⟩|⟨hp, he⟩|⟨hp, he⟩ <;>
        cases he
      · have hc : s.cancelled = false := by
          have := hnr .done 2 (by simp)
          simpa [ready, localReady, partnerReady] using this
        exact .dfltDone s (.p k) 0 1 hl hu hc hp (by simp [dfltEdge])
  | park g cases hl hu hi hnr =>
    cases g with
    | q i =>
      rcases q_instr hi with ⟨hp, he⟩|⟨hp, he⟩|⟨hp, he⟩|⟨hp, he⟩|⟨hp, he⟩|⟨hp, he⟩|⟨hp, he⟩ <;>
        cases he
      · exact .park s (.q i) 0 hl hu hp (by simp [parkPc])
      · exact .park s (.q i) 4 hl hu hp (by simp [parkPc])
    | w i =>
      rcases w_instr hi with ⟨hp, he⟩|⟨hp, he⟩|⟨hp, he⟩|⟨hp, he⟩|⟨hp, he⟩ <;>
        cases he
      · exact .park s (.w i) 2 hl hu hp (by simp [parkPc])
    | p k =>
      rcases p_instr hi with ⟨hp, he⟩|⟨hp, he⟩|⟨hp, he⟩|⟨hp, he⟩|⟨hp, he⟩|⟨hp, he⟩ <;>
        cases he
      · exact .park s (.p k) 1 hl hu hp (by simp [parkPc])
  | incCnt g n hl hi =>
    cases g with
    | q i =>
      rcases q_instr hi with ⟨hp, he⟩|⟨hp, he⟩|⟨hp, he⟩|⟨hp, he⟩|⟨hp, he⟩|⟨hp, he⟩|⟨hp, he⟩ <;>
        cases he
      · have := XStep.incCnt (L := L) (Q := Q) s i hl hp
        simpa [St.set, St.get] using this
    | w i =>
      rcases w_instr hi with ⟨hp, he⟩|⟨hp, he⟩|⟨hp, he⟩|⟨hp, he⟩|⟨hp, he⟩ <;> cases he
    | p k =>
      rcases p_instr hi with ⟨hp, he⟩|⟨hp, he⟩|⟨hp, he⟩|⟨hp, he⟩|⟨hp, he⟩|⟨hp, he⟩ <;> cases he
  | decCnt g n hl hi =>
    cases g with
    | q i =>
      rcases q_instr hi with ⟨hp, he⟩|⟨hp, he⟩|⟨hp, he⟩|⟨hp, he⟩|⟨hp, he⟩|⟨hp, he⟩|⟨hp, he⟩ <;>
        cases he
      · have := XStep.decCnt (L := L) (Q := Q) s i hl hp
        simpa [St.set, St.get] using this
    | w i =>
      rcases w_instr hi with ⟨hp, he⟩|⟨hp, he⟩|⟨hp, he⟩|⟨hp, he⟩|⟨hp, he⟩ <;> cases he
    | p k =>
      rcases p_instr hi with ⟨hp, he⟩|⟨hp, he⟩|⟨hp, he⟩|⟨hp, he⟩|⟨hp, he⟩|⟨hp, he⟩ <;> cases he
  | start i n hl hu hi =>
    rcases w_instr hi with ⟨hp, he⟩|⟨hp, he⟩|⟨hp, he⟩|⟨hp, he⟩|⟨hp, he⟩ <;> cases he
    exact .start s i hl hu hp
  | finish i n v hl hu hi =>
    rcases w_instr hi with ⟨hp, he⟩|⟨hp, he⟩|⟨hp, he⟩|⟨hp, he⟩|⟨hp, he⟩ <;> cases he
    exact .finish s i v hl hu hp
  | pushRet k a n r hk hi hr =>
    rcases p_instr hi with ⟨hp, he⟩|⟨hp, he⟩|⟨hp, he⟩|⟨hp, he⟩|⟨hp, he⟩|⟨hp, he⟩ <;> cases he
    · exact .pushRet s k 2 r hk hp (by simpa using hr)
    · exact .pushRet s k 3 r hk hp (by simpa using hr)
    · exact .pushRet s k 4 r hk hp (by simpa using hr)


/-! ### Structural invariants -/

def okQ (x : G) : Prop := x.pc ≤ 6 ∧ (x.parked = true → x.pc = 0 ∨ x.pc = 4)
def okW (x : G) : Prop := x.pc ≤ 4 ∧ (x.parked = true → x.pc = 2 ∨ x.pc = 3)
def okP (x : G) : Prop := x.pc ≤ 5 ∧ (x.parked = true → x.pc = 1)

/-- pcs stay inside the programs; `parked` only at blocking selects and at the worker's `run` -/
structure WF (s : St) : Prop where
  q : ∀ i, okQ (s.qs i)
  w : ∀ i, okW (s.ws i)
  p : ∀ k, okP (s.ps k)

theorem upd_all {α} {P : α → Prop} {f : Nat → α} {i : Nat} {v : α} (hf : ∀ j, P (f j)) (hv : P v) :
    ∀ j, P (upd f i v j) := by
  intro j; unfold upd; split
  · exact hv
  · exact hf j

theorem WF.init : WF init := by
  constructor <;> intro i <;> simp [Glb.TaskLane.init, okQ, okW, okP]

theorem WF.xstep {s : St} {l : Label} {s' : St} (hw : WF s) (hx : XStep L Q s l s') : WF s' := by
  obtain ⟨hq, hw, hp⟩ := hw
  cases hx with
  | cancel => exact ⟨hq, hw, hp⟩
  | push t lane hl hf => exact ⟨hq, hw, upd_all hp (by simp [okP])⟩
  | done g a b hl hc hpc he =>
    cases g with
    | q i => exact ⟨upd_all hq (by simp [doneEdge] at he; simp [okQ, goto, he]), hw, hp⟩
    | w i => exact ⟨hq, upd_all hw (by simp [doneEdge] at he; simp [okW, goto, he]), hp⟩
    | p i => exact ⟨hq, hw, upd_all hp (by simp [doneEdge] at he; simp [okP, goto, he])⟩
  | qTake i hl hpc hb => exact ⟨upd_all hq (by simp [okQ]), hw, hp⟩
  | pSend k hk hpc hb => exact ⟨hq, hw, upd_all hp (by simp [okP, goto])⟩
  | pTimeout k hk hpc => exact ⟨hq, hw, upd_all hp (by simp [okP, goto])⟩
  | hand i j a b hi hj ha ha' hb hb' =>
    exact ⟨upd_all hq (by simp [okQ, goto]), upd_all hw (by simp [okW]), hp⟩
  | pHand k i hk hi hQ hpc hqc =>
    exact ⟨upd_all hq (by simp [okQ]), hw, upd_all hp (by simp [okP, goto])⟩
  | dfltDone g a b hl hu hc hpc he =>
    cases g with
    | q i => exact ⟨upd_all hq (by simp [dfltEdge] at he; simp [okQ, goto, he]), hw, hp⟩
    | w i => exact ⟨hq, upd_all hw (by simp [dfltEdge] at he; simp [okW, goto, he]), hp⟩
    | p i => exact ⟨hq, hw, upd_all hp (by simp [dfltEdge] at he; simp [okP, goto, he])⟩
  | dfltQ i hi hu hpc => exact ⟨upd_all hq (by simp [okQ, goto]), hw, hp⟩
  | dfltW i hi hu hpc => exact ⟨hq, upd_all hw (by simp [okW, goto]), hp⟩
  | park g a hl hu hpc he =>
    cases g with
    | q i => exact ⟨upd_all hq (by have := hq i; simp [parkPc] at he; simp [okQ, St.get] at *; omega), hw, hp⟩
    | w i => exact ⟨hq, upd_all hw (by have := hw i; simp [parkPc] at he; simp [okW, St.get] at *; omega), hp⟩
    | p i => exact ⟨hq, hw, upd_all hp (by have := hp i; simp [parkPc] at he; simp [okP, St.get] at *; omega)⟩
  | incCnt i hi hpc => exact ⟨upd_all hq (by simp [okQ, goto]), hw, hp⟩
  | decCnt i hi hpc => exact ⟨upd_all hq (by simp [okQ, goto]), hw, hp⟩
  | start i hi hu hpc => exact ⟨hq, upd_all hw (by simp [okW, hpc]), hp⟩
  | finish i v hi hu hpc => exact ⟨hq, upd_all hw (by simp [okW, goto]), hp⟩
  | pushRet k a r hk hpc hr => exact ⟨hq, hw, upd_all hp (by simp [okP, goto])⟩


/-- nobody has exited while the context is live -/
def qLive (x : G) : Prop := x.pc ≠ 6
def wLive (x : G) : Prop := x.pc ≠ 4
def NoExit (s : St) : Prop := s.cancelled = false → (∀ i, qLive (s.qs i)) ∧ (∀ i, wLive (s.ws i))

theorem NoExit.init : NoExit init := by
  intro _; simp [Glb.TaskLane.init, qLive, wLive]


theorem NoExit.xstep {s : St} {l : Label} {s' : St} (hn : NoExit s) (hx : XStep L Q s l s') : NoExit s' := by
  cases hx with
  | cancel => intro h; simp at h
  | done g a b hl hc hpc he => intro h; cases g <;> simp [St.set, hc] at h
  | dfltDone g a b hl hu hc hpc he =>
    intro h; obtain ⟨h1, h2⟩ := hn hc
    cases g with
    | q i => exact ⟨upd_all h1 (by simp [dfltEdge] at he; simp [goto, he, qLive, wLive]), h2⟩
    | w i => exact ⟨h1, upd_all h2 (by simp [dfltEdge] at he; simp [goto, he, qLive, wLive])⟩
    | p i => exact ⟨h1, h2⟩
  | park g a hl hu hpc he =>
    intro h
    cases g with
    | q i => obtain ⟨h1, h2⟩ := hn h; exact ⟨upd_all h1 (h1 i), h2⟩
    | w i => obtain ⟨h1, h2⟩ := hn h; exact ⟨h1, upd_all h2 (h2 i)⟩
    | p i => exact hn h
  | start i hi hu hpc =>
    intro h; obtain ⟨h1, h2⟩ := hn h
    exact ⟨h1, upd_all h2 (by simp [wLive, hpc])⟩
  | _ =>
    intro h; obtain ⟨h1, h2⟩ := hn h
    first
      | exact ⟨h1, h2⟩
      | exact ⟨upd_all h1 (by simp [goto, qLive, wLive]), h2⟩
      | exact ⟨h1, upd_all h2 (by simp [goto, qLive, wLive])⟩
      | exact ⟨upd_all h1 (by simp [goto, qLive, wLive]), upd_all h2 (by simp [goto, qLive, wLive])⟩


/-- producer bookkeeping: pushed task ids are pairwise distinct, an accepted task belongs to a
    producer that has passed its send, a recorded result to a producer that has returned -/
structure PInv (s : St) : Prop where
  inj : ∀ k k', k < s.np → k' < s.np → (s.ps k).held = (s.ps k').held → k = k'
  acc : ∀ t, t ∈ s.accepted → ∃ k, k < s.np ∧ (s.ps k).held = t ∧ ((s.ps k).pc = 3 ∨ (s.ps k).pc = 5)
  res : ∀ t r, (t, r) ∈ s.results → ∃ k, k < s.np ∧ (s.ps k).held = t ∧ (s.ps k).pc = 5

theorem PInv.init : PInv init := by
  constructor <;> simp [Glb.TaskLane.init]

theorem PInv.xstep {s : St} {l : Label} {s' : St} (hn : PInv s) (hx : XStep L Q s l s') : PInv s' := by
  obtain ⟨h1, h2, h3⟩ := hn
  cases hx with
  | cancel => exact ⟨h1, h2, h3⟩
  | push t lane hl hf =>
    refine ⟨?_, ?_, ?_⟩
    · simp only [upd]; grind
    · simp only [upd]; grind
    · simp only [upd]; grind
  | done g a b hl hc hpc he =>
    cases g with
    | q i => exact ⟨h1, h2, h3⟩
    | w i => exact ⟨h1, h2, h3⟩
    | p i =>
      simp [doneEdge] at he
      refine ⟨?_, ?_, ?_⟩ <;> simp only [St.set, St.get, upd, goto] at * <;> grind
  | dfltDone g a b hl hu hc hpc he =>
    cases g with
    | q i => exact ⟨h1, h2, h3⟩
    | w i => exact ⟨h1, h2, h3⟩
    | p i =>
      simp [dfltEdge] at he
      refine ⟨?_, ?_, ?_⟩ <;> simp only [St.set, St.get, upd, goto] at * <;> grind
  | park g a hl hu hpc he =>
    cases g with
    | q i => exact ⟨h1, h2, h3⟩
    | w i => exact ⟨h1, h2, h3⟩
    | p i =>
      refine ⟨?_, ?_, ?_⟩ <;> simp only [St.set, St.get, upd, goto] at * <;> grind
  | _ =>
    first
      | exact ⟨h1, h2, h3⟩
      | (refine ⟨?_, ?_, ?_⟩ <;> simp only [upd, goto] at * <;> grind)


theorem Reachable.inv {s : St} (h : Reachable (cfg L Q) s) : WF s ∧ NoExit s ∧ PInv s := by
  induction h with
  | init => exact ⟨WF.init, NoExit.init, PInv.init⟩
  | step s l s' _ hs ih => exact ⟨ih.1.xstep hs.toX, ih.2.1.xstep hs.toX, ih.2.2.xstep hs.toX⟩


/-! ### Enabledness -/

/-- a ready case of a select can be taken (by a `tau` step) -/
theorem ready_enabled {c : Cfg} {s : St} {g : Gid} {cases : List (Case × Nat)} {dflt : Option Nat}
    {k : Case} {t : Nat} (hl : s.live c g) (hi : instrAt c s g = some (.select cases dflt))
    (hm : (k, t) ∈ cases) (hr : ready c s g k) : ∃ s', Step c s .tau s' := by
  rcases hr with ⟨hne, hlr⟩ | hpr
  · have := Step.takeLocal s g cases dflt k t hl hi hm hlr
    rw [if_neg hne] at this
    exact ⟨_, this⟩
  · cases k with
    | recv x =>
      obtain ⟨hq, h, th, hne, hpo⟩ := hpr
      exact ⟨_, Step.takeover s g h cases dflt x t th hl hi hm hq hne hpo⟩
    | send x =>
      obtain ⟨hq, h, th, hne, hpo⟩ := hpr
      exact ⟨_, Step.handover s g h cases dflt x t th hl hi hm hq hne hpo⟩
    | done => exact hpr.elim
    | timeout => exact hpr.elim

/-- an unparked goroutine at a select always has an enabled `tau` step: a ready case, else
    `default`, else parking -/
theorem select_unparked_enabled {c : Cfg} {s : St} {g : Gid} {cases : List (Case × Nat)}
    {dflt : Option Nat} (hl : s.live c g) (hu : (s.get g).parked = false)
    (hi : instrAt c s g = some (.select cases dflt)) : ∃ s', Step c s .tau s' := by
  by_cases h : ∃ k t, (k, t) ∈ cases ∧ ready c s g k
  · obtain ⟨k, t, hm, hr⟩ := h
    exact ready_enabled hl hi hm hr
  · have hn : ∀ k t, (k, t) ∈ cases → ¬ ready c s g k := fun k t hm hr => h ⟨k, t, hm, hr⟩
    cases dflt with
    | none => exact ⟨_, Step.park s g cases hl hu hi hn⟩
    | some d => exact ⟨_, Step.dflt s g cases d hl hu hi hn⟩

/-- after cancellation every select containing `<-ctx.Done()` has an enabled `tau` step -/
theorem done_enabled {c : Cfg} {s : St} {g : Gid} {cases : List (Case × Nat)} {dflt : Option Nat}
    {t : Nat} (hl : s.live c g) (hi : instrAt c s g = some (.select cases dflt))
    (hm : (Case.done, t) ∈ cases) (hc : s.cancelled = true) : ∃ s', Step c s .tau s' :=
  ready_enabled hl hi hm (Or.inl ⟨by simp, hc⟩)

theorem Quiescent.no_tau {c : Cfg} {s : St} (hq : Quiescent c s) : ¬ ∃ s', Step c s .tau s' := by
  rintro ⟨s', hs⟩
  have := hq _ _ hs
  simp [internal] at this

/-- a queue goroutine parked at q4 can hand over to worker `j` parked at w2: through the lane's
    own channel when `j = i`, through the universal queue otherwise -/
theorem hand_enabled {s : St} {i j : Nat} (hi : i < L) (hj : j < L) (hq : (s.qs i).pc = 4)
    (hw : (s.ws j).pc = 2) (hp : (s.ws j).parked = true) : ∃ s', Step (cfg L Q) s .tau s' := by
  have hqi : instrAt (cfg L Q) s (.q i) =
      some (.select [(.done, 6), (.send .own, 5), (.send .uni, 5)] none) := by rw [q_at hq]; rfl
  have hwi : instrAt (cfg L Q) s (.w j) =
      some (.select [(.done, 4), (.recv .own, 3), (.recv .uni, 3)] none) := by rw [w_at hw]; rfl
  refine ⟨_, Step.handover s (.q i) (.w j) _ _ .uni 5 3 hi hqi (by simp) (by simp) (by simp) ?_⟩
  exact ⟨hj, hp, _, hwi, by simp, rfl⟩

/-- what a quiescent state looks like, queue goroutine by queue goroutine -/
theorem quiescent_q {s : St} (hq : Quiescent (cfg L Q) s) (hw : WF s) {i : Nat} (hi : i < L) :
    ((s.qs i).pc = 0 ∧ (s.qs i).parked = true ∧ s.buf i = [] ∧ s.cancelled = false) ∨
    ((s.qs i).pc = 4 ∧ (s.qs i).parked = true ∧ s.cancelled = false) ∨ (s.qs i).pc = 6 := by
  have hnt := hq.no_tau
  have ⟨hle, hpk⟩ := hw.q i
  have hl : s.live (cfg L Q) (.q i) := hi
  have hcases : (s.qs i).pc = 0 ∨ (s.qs i).pc = 1 ∨ (s.qs i).pc = 2 ∨ (s.qs i).pc = 3 ∨
      (s.qs i).pc = 4 ∨ (s.qs i).pc = 5 ∨ (s.qs i).pc = 6 := by omega
  rcases hcases with h|h|h|h|h|h|h
  · have hins : instrAt (cfg L Q) s (.q i) = some (.select [(.done, 6), (.recv .buf, 1)] none) := by
      rw [q_at h]; rfl
    left
    refine ⟨h, ?_, ?_, ?_⟩
    · cases hu : (s.qs i).parked with
      | true => rfl
      | false => exact (hnt (select_unparked_enabled hl hu hins)).elim
    · cases hb : s.buf i with
      | nil => rfl
      | cons a as =>
        exact (hnt (ready_enabled hl hins (k := .recv .buf) (t := 1) (by simp)
          (Or.inl ⟨by simp, by simp [localReady, St.lane, hb]⟩))).elim
    · cases hc : s.cancelled with
      | false => rfl
      | true => exact (hnt (done_enabled hl hins (t := 6) (by simp) hc)).elim
  · exact (hnt ⟨_, Step.incCnt s (.q i) 2 hl (by rw [q_at h]; rfl)⟩).elim
  · have hins : instrAt (cfg L Q) s (.q i) = some (.select [(.done, 6)] (some 3)) := by
      rw [q_at h]; rfl
    have hu : (s.qs i).parked = false := by
      cases hu : (s.qs i).parked with
      | false => rfl
      | true => have := hpk hu; omega
    exact (hnt (select_unparked_enabled hl hu hins)).elim
  · have hins : instrAt (cfg L Q) s (.q i) = some (.select [(.send .own, 5)] (some 4)) := by
      rw [q_at h]; rfl
    have hu : (s.qs i).parked = false := by
      cases hu : (s.qs i).parked with
      | false => rfl
      | true => have := hpk hu; omega
    exact (hnt (select_unparked_enabled hl hu hins)).elim
  · have hins : instrAt (cfg L Q) s (.q i) =
        some (.select [(.done, 6), (.send .own, 5), (.send .uni, 5)] none) := by rw [q_at h]; rfl
    right; left
    refine ⟨h, ?_, ?_⟩
    · cases hu : (s.qs i).parked with
      | true => rfl
      | false => exact (hnt (select_unparked_enabled hl hu hins)).elim
    · cases hc : s.cancelled with
      | false => rfl
      | true => exact (hnt (done_enabled hl hins (t := 6) (by simp) hc)).elim
  · exact (hnt ⟨_, Step.decCnt s (.q i) 0 hl (by rw [q_at h]; rfl)⟩).elim
  · exact Or.inr (Or.inr h)


/-- … and worker by worker -/
theorem quiescent_w {s : St} (hq : Quiescent (cfg L Q) s) (hw : WF s) {i : Nat} (hi : i < L) :
    ((s.ws i).pc = 2 ∧ (s.ws i).parked = true ∧ s.cancelled = false) ∨
    ((s.ws i).pc = 3 ∧ (s.ws i).parked = true) ∨ (s.ws i).pc = 4 := by
  have hnt := hq.no_tau
  have ⟨hle, hpk⟩ := hw.w i
  have hl : s.live (cfg L Q) (.w i) := hi
  have hcases : (s.ws i).pc = 0 ∨ (s.ws i).pc = 1 ∨ (s.ws i).pc = 2 ∨ (s.ws i).pc = 3 ∨
      (s.ws i).pc = 4 := by omega
  rcases hcases with h|h|h|h|h
  · have hins : instrAt (cfg L Q) s (.w i) = some (.select [(.done, 4)] (some 1)) := by
      rw [w_at h]; rfl
    have hu : (s.ws i).parked = false := by
      cases hu : (s.ws i).parked with
      | false => rfl
      | true => have := hpk hu; omega
    exact (hnt (select_unparked_enabled hl hu hins)).elim
  · have hins : instrAt (cfg L Q) s (.w i) = some (.select [(.recv .own, 3)] (some 2)) := by
      rw [w_at h]; rfl
    have hu : (s.ws i).parked = false := by
      cases hu : (s.ws i).parked with
      | false => rfl
      | true => have := hpk hu; omega
    exact (hnt (select_unparked_enabled hl hu hins)).elim
  · have hins : instrAt (cfg L Q) s (.w i) =
        some (.select [(.done, 4), (.recv .own, 3), (.recv .uni, 3)] none) := by rw [w_at h]; rfl
    left
    refine ⟨h, ?_, ?_⟩
    · cases hu : (s.ws i).parked with
      | true => rfl
      | false => exact (hnt (select_unparked_enabled hl hu hins)).elim
    · cases hc : s.cancelled with
      | false => rfl
      | true => exact (hnt (done_enabled hl hins (t := 4) (by simp) hc)).elim
  · right; left
    refine ⟨h, ?_⟩
    cases hu : (s.ws i).parked with
    | true => rfl
    | false =>
      have := hq _ _ (Step.start s i 0 hi hu (by rw [w_at h]; rfl))
      simp [internal] at this
  · exact Or.inr (Or.inr h)

/-- in a quiescent state with a live context and some worker `j` idle (not running), nothing is
    pending: every queue goroutine is parked at q0 with an empty buffer, no worker holds an
    unstarted task -/
theorem quiescent_idle {s : St} (hq : Quiescent (cfg L Q) s) (hw : WF s) (hn : NoExit s)
    (hc : s.cancelled = false) {j : Nat} (hj : j < L) (hr : ¬ s.running j) :
    ∀ i, i < L → s.buf i = [] ∧ (s.qs i).pc = 0 ∧ ¬ ((s.ws i).pc = 3 ∧ (s.ws i).parked = false) := by
  obtain ⟨hnq, hnw⟩ := hn hc
  have hwj : (s.ws j).pc = 2 ∧ (s.ws j).parked = true := by
    rcases quiescent_w hq hw hj with h|h|h
    · exact ⟨h.1, h.2.1⟩
    · exact (hr h).elim
    · exact (hnw j h).elim
  intro i hi
  have hqi : (s.qs i).pc = 0 ∧ s.buf i = [] := by
    rcases quiescent_q hq hw hi with h|h|h
    · exact ⟨h.1, h.2.2.1⟩
    · exact (hq.no_tau (hand_enabled hi hj h.1 hwj.1 hwj.2)).elim
    · exact (hnq i h).elim
  refine ⟨hqi.2, hqi.1, ?_⟩
  rcases quiescent_w hq hw hi with h|h|h
  · omega
  · simp [h.2]
  · omega

theorem catTo_nil {n : Nat} {f : Nat → List Tid} (h : ∀ i, i < n → f i = []) : catTo n f = [] := by
  induction n with
  | zero => rfl
  | succ n ih =>
    simp [catTo, ih (fun i hi => h i (by omega)), h n (by omega)]

theorem pending_nil_of_idle {s : St} (h : ∀ i, i < L → s.buf i = [] ∧ (s.qs i).pc = 0 ∧
    ¬ ((s.ws i).pc = 3 ∧ (s.ws i).parked = false)) : s.pending (cfg L Q) = [] := by
  simp only [St.pending, pendingOf, cfg]
  rw [catTo_nil (fun i hi => (h i hi).1), catTo_nil (f := fun i => qHolding (s.qs i)),
    catTo_nil (f := fun i => wHolding (s.ws i))]
  · rfl
  · intro i hi; simp [wHolding, (h i hi).2.2]
  · intro i hi; simp [qHolding, (h i hi).2.1]


/-! ### After `Wait`; `PushTask` after cancellation -/

/-- once all `2L` lane goroutines have exited they stay exited and nothing is started any more -/
theorem allExited_xstep {s : St} {l : Label} {s' : St} (he : allExited L s)
    (hx : XStep L Q s l s') : allExited L s' ∧ s'.started = s.started := by
  unfold allExited at *
  cases hx with
  | done g a b hl hc hpc hd =>
    cases g with
    | q i => simp [doneEdge] at hd; have := he i hl; simp [St.get] at hpc; omega
    | w i => simp [doneEdge] at hd; have := he i hl; simp [St.get] at hpc; omega
    | p k => exact ⟨he, rfl⟩
  | dfltDone g a b hl hu hc hpc hd =>
    cases g with
    | q i => simp [dfltEdge] at hd; have := he i hl; simp [St.get] at hpc; omega
    | w i => simp [dfltEdge] at hd; have := he i hl; simp [St.get] at hpc; omega
    | p k => exact ⟨he, rfl⟩
  | park g a hl hu hpc hd =>
    cases g with
    | q i => simp [parkPc] at hd; have := he i hl; simp [St.get] at hpc; omega
    | w i => simp [parkPc] at hd; have := he i hl; simp [St.get] at hpc; omega
    | p k => exact ⟨he, rfl⟩
  | cancel => exact ⟨he, rfl⟩
  | push => exact ⟨he, rfl⟩
  | pSend => exact ⟨he, rfl⟩
  | pTimeout => exact ⟨he, rfl⟩
  | pushRet => exact ⟨he, rfl⟩
  | qTake i hi hpc => have := he i hi; omega
  | hand i j a b hi hj ha ha' => have := he i hi; omega
  | pHand k i hk hi hQ hpc hqc => have := he i hi; omega
  | dfltQ i hi hu hpc => have := he i hi; omega
  | dfltW i hi hu hpc => have := he i hi; omega
  | incCnt i hi hpc => have := he i hi; omega
  | decCnt i hi hpc => have := he i hi; omega
  | start i hi hu hpc => have := he i hi; omega
  | finish i v hi hu hpc => have := he i hi; omega

theorem allExited_steps {s s' : St} (he : allExited L s) (hs : Steps (cfg L Q) s s') :
    allExited L s' ∧ s'.started = s.started := by
  induction hs with
  | refl => exact ⟨he, rfl⟩
  | tail s1 l s2 _ hst ih =>
    have := allExited_xstep ih.1 hst.toX
    exact ⟨this.1, this.2.trans ih.2⟩

/-- forward invariant for a `PushTask(t)` that began after cancellation -/
structure PAC (k : Nat) (t : Tid) (s : St) : Prop where
  canc : s.cancelled = true
  lt : k < s.np
  held : (s.ps k).held = t
  pc : (s.ps k).pc = 0 ∨ (s.ps k).pc = 2 ∨ (s.ps k).pc = 5
  acc : t ∉ s.accepted
  res : ∀ r, (t, r) ∈ s.results → r = .ctxErr
  inj : ∀ k k', k < s.np → k' < s.np → (s.ps k).held = (s.ps k').held → k = k'

theorem PAC.xstep {k : Nat} {t : Tid} {s : St} {l : Label} {s' : St} (hp : PAC k t s)
    (hx : XStep L Q s l s') : PAC k t s' := by
  obtain ⟨h1, h2, h3, h4, h5, h6, h7⟩ := hp
  cases hx with
  | cancel hc => simp [h1] at hc
  | done g a b hl hc hpc he =>
    cases g with
    | q i => exact ⟨h1, h2, h3, h4, h5, h6, h7⟩
    | w i => exact ⟨h1, h2, h3, h4, h5, h6, h7⟩
    | p i =>
      simp [doneEdge] at he
      constructor <;> simp only [St.set, St.get, upd, goto] at * <;> grind
  | dfltDone g a b hl hu hc hpc he => simp [h1] at hc
  | park g a hl hu hpc he =>
    cases g with
    | q i => exact ⟨h1, h2, h3, h4, h5, h6, h7⟩
    | w i => exact ⟨h1, h2, h3, h4, h5, h6, h7⟩
    | p i =>
      simp [parkPc] at he
      constructor <;> simp only [St.set, St.get, upd, goto] at * <;> grind
  | _ =>
    first
      | exact ⟨h1, h2, h3, h4, h5, h6, h7⟩
      | (constructor <;> simp only [upd, goto] at * <;> grind)

theorem PAC.steps {k : Nat} {t : Tid} {s s' : St} (hp : PAC k t s) (hs : Steps (cfg L Q) s s') :
    PAC k t s' := by
  induction hs with
  | refl => exact hp
  | tail s1 l s2 _ hst ih => exact ih.xstep hst.toX

theorem PAC.of_reachable {s : St} (h : Reachable (cfg L Q) s) (hc : s.cancelled = true)
    {k : Nat} (hk : k < s.np) (h0 : (s.ps k).pc = 0) : PAC k (s.ps k).held s := by
  obtain ⟨_, _, hinj, hacc, hres⟩ := h.inv
  refine ⟨hc, hk, rfl, Or.inl h0, ?_, ?_, hinj⟩
  · intro ha
    obtain ⟨k', hk', he, hpc⟩ := hacc _ ha
    have := hinj k' k hk' hk he
    subst this; omega
  · intro r hr
    obtain ⟨k', hk', he, hpc⟩ := hres _ _ hr
    have := hinj k' k hk' hk he
    subst this; omega


/-! ### The termination measure (DESIGN A.2) -/

def qRank (pc : Nat) (parked : Bool) : Nat :=
  match pc with
  | 0 => if parked then 1 else 2
  | 1 => 8
  | 2 => 7
  | 3 => 6
  | 4 => if parked then 4 else 5
  | 5 => 3
  | _ => 0

def wRank (pc : Nat) (parked : Bool) : Nat :=
  match pc with
  | 0 => 6
  | 1 => 5
  | 2 => if parked then 3 else 4
  | 3 => if parked then 1 else 2
  | _ => 0

def pRank (pc : Nat) (parked : Bool) : Nat :=
  match pc with
  | 0 => 12
  | 1 => if parked then 10 else 11
  | 2 => 1
  | 3 => 1
  | 4 => 1
  | _ => 0

def qR (x : G) : Nat := qRank x.pc x.parked
def wR (x : G) : Nat := wRank x.pc x.parked
def pR (x : G) : Nat := pRank x.pc x.parked

/-- the measure over the fields it depends on -/
def muF (L np : Nat) (ps qs ws : Nat → G) (buf : Nat → List Tid) : Nat :=
  sumTo np (fun k => pR (ps k)) + sumTo L (fun i => qR (qs i)) + sumTo L (fun i => wR (ws i)) +
    8 * sumTo L (fun i => (buf i).length)

/-- ranking function: producers, queue goroutines and workers by pc, 8 per buffered task -/
def mu (L _Q : Nat) (s : St) : Nat := muF L s.np s.ps s.qs s.ws s.buf

theorem sumTo_updF {α} (F : α → Nat) (g : Nat → α) (i : Nat) (v : α) (n : Nat) :
    sumTo n (fun j => F (upd g i v j)) + (if i < n then F (g i) else 0) =
      sumTo n (fun j => F (g j)) + (if i < n then F v else 0) := by
  induction n with
  | zero => simp [sumTo]
  | succ n ih =>
    simp only [sumTo]
    by_cases h1 : i < n
    · have : i < n + 1 := by omega
      have hne : n ≠ i := by omega
      simp only [h1, this, if_true, upd_other _ _ _ _ hne] at *
      omega
    · by_cases h2 : i = n
      · subst h2
        simp at *
        omega
      · have : ¬ i < n + 1 := by omega
        have hne : n ≠ i := by omega
        simp only [h1, this, if_false, upd_other _ _ _ _ hne] at *
        omega

theorem sumTo_updF_lt {α} (F : α → Nat) (g : Nat → α) {i : Nat} (v : α) {n : Nat} (h : i < n) :
    sumTo n (fun j => F (upd g i v j)) + F (g i) = sumTo n (fun j => F (g j)) + F v := by
  simpa [h] using sumTo_updF F g i v n

theorem sumTo_updF_ge {α} (F : α → Nat) (g : Nat → α) {i : Nat} (v : α) {n : Nat} (h : ¬ i < n) :
    sumTo n (fun j => F (upd g i v j)) = sumTo n (fun j => F (g j)) := by
  simpa [h] using sumTo_updF F g i v n

theorem muF_q {np : Nat} {ps qs ws : Nat → G} {buf : Nat → List Tid} {i : Nat} (v : G) (h : i < L) :
    muF L np ps (upd qs i v) ws buf + qR (qs i) = muF L np ps qs ws buf + qR v := by
  have := sumTo_updF_lt qR qs v h
  simp only [muF]; omega

theorem muF_w {np : Nat} {ps qs ws : Nat → G} {buf : Nat → List Tid} {i : Nat} (v : G) (h : i < L) :
    muF L np ps qs (upd ws i v) buf + wR (ws i) = muF L np ps qs ws buf + wR v := by
  have := sumTo_updF_lt wR ws v h
  simp only [muF]; omega

theorem muF_p {np : Nat} {ps qs ws : Nat → G} {buf : Nat → List Tid} {k : Nat} (v : G) (h : k < np) :
    muF L np (upd ps k v) qs ws buf + pR (ps k) = muF L np ps qs ws buf + pR v := by
  have := sumTo_updF_lt pR ps v h
  simp only [muF]; omega

theorem muF_buf {np : Nat} {ps qs ws : Nat → G} {buf : Nat → List Tid} {i : Nat} (b : List Tid)
    (h : i < L) :
    muF L np ps qs ws (upd buf i b) + 8 * (buf i).length = muF L np ps qs ws buf + 8 * b.length := by
  have := sumTo_updF_lt List.length buf b h
  simp only [muF]; omega

theorem muF_buf_le {np : Nat} {ps qs ws : Nat → G} {buf : Nat → List Tid} {i : Nat} (t : Tid) :
    muF L np ps qs ws (upd buf i (buf i ++ [t])) ≤ muF L np ps qs ws buf + 8 := by
  by_cases h : i < L
  · have := muF_buf (np := np) (ps := ps) (qs := qs) (ws := ws) (buf := buf) (buf i ++ [t]) h
    simp at this; omega
  · have := sumTo_updF_ge List.length buf (buf i ++ [t]) h
    simp only [muF]; omega

theorem qR_ge (x : G) : qRank x.pc true ≤ qR x := by
  unfold qR qRank; split <;> simp <;> split <;> simp
theorem wR_ge (x : G) : wRank x.pc true ≤ wR x := by
  unfold wR wRank; split <;> simp <;> split <;> simp
theorem pR_ge (x : G) : pRank x.pc true ≤ pR x := by
  unfold pR pRank; split <;> simp <;> split <;> simp


theorem qR_goto (x : G) (n : Nat) : qR (goto x n) = qRank n false := rfl
theorem wR_goto (x : G) (n : Nat) : wR (goto x n) = wRank n false := rfl
theorem pR_goto (x : G) (n : Nat) : pR (goto x n) = pRank n false := rfl
theorem qR_lo {x : G} {a : Nat} (h : x.pc = a) : qRank a true ≤ qR x := h ▸ qR_ge x
theorem wR_lo {x : G} {a : Nat} (h : x.pc = a) : wRank a true ≤ wR x := h ▸ wR_ge x
theorem pR_lo {x : G} {a : Nat} (h : x.pc = a) : pRank a true ≤ pR x := h ▸ pR_ge x

theorem mu_xstep {s : St} {l : Label} {s' : St} (hx : XStep L Q s l s') (hi : internal l = true) :
    mu L Q s' < mu L Q s := by
  cases hx with
  | cancel => simp [internal] at hi
  | push => simp [internal] at hi
  | pTimeout => simp [internal] at hi
  | finish => simp [internal] at hi
  | done g a b hl hc hpc he =>
    cases g with
    | q i =>
      have h1 := muF_q (L := L) (np := s.np) (ps := s.ps) (qs := s.qs) (ws := s.ws) (buf := s.buf) (goto (s.qs i) b) hl
      have h2 := qR_lo hpc
      simp only [St.get] at h2
      simp only [doneEdge] at he
      obtain ⟨he, rfl⟩ := he
      rw [qR_goto] at h1
      simp only [mu, St.set, St.get]
      rcases he with rfl|rfl|rfl <;> simp [qRank] at h1 h2 <;> omega
    | w i =>
      have h1 := muF_w (L := L) (np := s.np) (ps := s.ps) (qs := s.qs) (ws := s.ws) (buf := s.buf) (goto (s.ws i) b) hl
      have h2 := wR_lo hpc
      simp only [St.get] at h2
      simp only [doneEdge] at he
      obtain ⟨he, rfl⟩ := he
      rw [wR_goto] at h1
      simp only [mu, St.set, St.get]
      rcases he with rfl|rfl <;> simp [wRank] at h1 h2 <;> omega
    | p k =>
      have h1 := muF_p (L := L) (np := s.np) (ps := s.ps) (qs := s.qs) (ws := s.ws) (buf := s.buf) (goto (s.ps k) b) hl
      have h2 := pR_lo hpc
      simp only [St.get] at h2
      simp only [doneEdge] at he
      obtain ⟨he, rfl⟩ := he
      rw [pR_goto] at h1
      simp only [mu, St.set, St.get]
      rcases he with rfl|rfl <;> simp [pRank] at h1 h2 <;> omega
  | qTake i hl hpc hb =>
    have h1 := muF_q (L := L) (np := s.np) (ps := s.ps) (qs := s.qs) (ws := s.ws)
      (buf := upd s.buf i (s.buf i).tail) ⟨1, false, (s.buf i).headD 0⟩ hl
    have h2 := muF_buf (L := L) (np := s.np) (ps := s.ps) (qs := s.qs) (ws := s.ws) (buf := s.buf)
      (s.buf i).tail hl
    have h3 := qR_lo hpc
    have h4 : (s.buf i).length = (s.buf i).tail.length + 1 := by
      cases hb' : s.buf i with
      | nil => exact (hb hb').elim
      | cons a as => simp
    have h5 : qR ⟨1, false, (s.buf i).headD 0⟩ = 8 := rfl
    simp [qRank] at h3
    simp only [mu]
    omega
  | pSend k hk hpc hb =>
    have h1 := muF_p (L := L) (np := s.np) (ps := s.ps) (qs := s.qs) (ws := s.ws)
      (buf := upd s.buf (s.plane k) (s.buf (s.plane k) ++ [(s.ps k).held])) (goto (s.ps k) 3) hk
    have h2 := muF_buf_le (L := L) (np := s.np) (ps := s.ps) (qs := s.qs) (ws := s.ws) (buf := s.buf)
      (i := s.plane k) (s.ps k).held
    have h3 := pR_lo hpc
    rw [pR_goto] at h1
    simp [pRank] at h1 h3
    simp only [mu]
    omega
  | hand i j a b hi' hj hqa ha hwb hb =>
    have h1 := muF_q (L := L) (np := s.np) (ps := s.ps) (qs := s.qs) (ws := upd s.ws j ⟨3, false, (s.qs i).held⟩)
      (buf := s.buf) (goto (s.qs i) 5) hi'
    have h2 := muF_w (L := L) (np := s.np) (ps := s.ps) (qs := s.qs) (ws := s.ws)
      (buf := s.buf) ⟨3, false, (s.qs i).held⟩ hj
    have h3 := qR_lo hqa
    have h4 := wR_lo hwb
    have h5 : wR ⟨3, false, (s.qs i).held⟩ = 2 := rfl
    rw [qR_goto] at h1
    simp only [mu]
    rcases ha with rfl|rfl <;> rcases hb with rfl|rfl <;> simp [qRank, wRank] at h1 h3 h4 <;> omega
  | pHand k i hk hi' hQ hpc hqc =>
    have h1 := muF_q (L := L) (np := s.np) (ps := upd s.ps k (goto (s.ps k) 3)) (qs := s.qs) (ws := s.ws)
      (buf := s.buf) ⟨1, false, (s.ps k).held⟩ hi'
    have h2 := muF_p (L := L) (np := s.np) (ps := s.ps) (qs := s.qs) (ws := s.ws)
      (buf := s.buf) (goto (s.ps k) 3) hk
    have h3 := qR_lo hqc
    have h4 := pR_lo hpc
    have h5 : qR ⟨1, false, (s.ps k).held⟩ = 8 := rfl
    rw [pR_goto] at h2
    simp [qRank, pRank] at h2 h3 h4
    simp only [mu]
    omega
  | dfltDone g a b hl hu hc hpc he =>
    cases g with
    | q i =>
      have h1 := muF_q (L := L) (np := s.np) (ps := s.ps) (qs := s.qs) (ws := s.ws) (buf := s.buf) (goto (s.qs i) b) hl
      have h2 := qR_lo hpc
      simp only [St.get] at h2
      obtain ⟨rfl, rfl⟩ := he
      rw [qR_goto] at h1
      simp only [mu, St.set, St.get]
      simp [qRank] at h1 h2; omega
    | w i =>
      have h1 := muF_w (L := L) (np := s.np) (ps := s.ps) (qs := s.qs) (ws := s.ws) (buf := s.buf) (goto (s.ws i) b) hl
      have h2 := wR_lo hpc
      simp only [St.get] at h2
      obtain ⟨rfl, rfl⟩ := he
      rw [wR_goto] at h1
      simp only [mu, St.set, St.get]
      simp [wRank] at h1 h2; omega
    | p k =>
      have h1 := muF_p (L := L) (np := s.np) (ps := s.ps) (qs := s.qs) (ws := s.ws) (buf := s.buf) (goto (s.ps k) b) hl
      have h2 := pR_lo hpc
      simp only [St.get] at h2
      obtain ⟨rfl, rfl⟩ := he
      rw [pR_goto] at h1
      simp only [mu, St.set, St.get]
      simp [pRank] at h1 h2; omega
  | dfltQ i hl hu hpc =>
    have h1 := muF_q (L := L) (np := s.np) (ps := s.ps) (qs := s.qs) (ws := s.ws) (buf := s.buf) (goto (s.qs i) 4) hl
    have h2 := qR_lo hpc
    rw [qR_goto] at h1
    simp only [mu]
    simp [qRank] at h1 h2; omega
  | dfltW i hl hu hpc =>
    have h1 := muF_w (L := L) (np := s.np) (ps := s.ps) (qs := s.qs) (ws := s.ws) (buf := s.buf) (goto (s.ws i) 2) hl
    have h2 := wR_lo hpc
    rw [wR_goto] at h1
    simp only [mu]
    simp [wRank] at h1 h2; omega
  | park g a hl hu hpc he =>
    cases g with
    | q i =>
      have h1 := muF_q (L := L) (np := s.np) (ps := s.ps) (qs := s.qs) (ws := s.ws) (buf := s.buf)
        { s.qs i with parked := true } hl
      simp only [St.get] at hu hpc
      simp only [mu, St.set, St.get]
      have e1 : qR (s.qs i) = qRank a false := by simp [qR, hu, hpc]
      have e2 : qR { s.qs i with parked := true } = qRank a true := by simp [qR, hpc]
      rw [e1, e2] at h1
      rcases he with rfl|rfl <;> simp [qRank] at h1 <;> omega
    | w i =>
      have h1 := muF_w (L := L) (np := s.np) (ps := s.ps) (qs := s.qs) (ws := s.ws) (buf := s.buf)
        { s.ws i with parked := true } hl
      simp only [St.get] at hu hpc
      simp only [mu, St.set, St.get]
      obtain rfl := he
      have e1 : wR (s.ws i) = wRank 2 false := by simp [wR, hu, hpc]
      have e2 : wR { s.ws i with parked := true } = wRank 2 true := by simp [wR, hpc]
      rw [e1, e2] at h1
      simp [wRank] at h1; omega
    | p k =>
      have h1 := muF_p (L := L) (np := s.np) (ps := s.ps) (qs := s.qs) (ws := s.ws) (buf := s.buf)
        { s.ps k with parked := true } hl
      simp only [St.get] at hu hpc
      simp only [mu, St.set, St.get]
      obtain rfl := he
      have e1 : pR (s.ps k) = pRank 1 false := by simp [pR, hu, hpc]
      have e2 : pR { s.ps k with parked := true } = pRank 1 true := by simp [pR, hpc]
      rw [e1, e2] at h1
      simp [pRank] at h1; omega
  | incCnt i hl hpc =>
    have h1 := muF_q (L := L) (np := s.np) (ps := s.ps) (qs := s.qs) (ws := s.ws) (buf := s.buf) (goto (s.qs i) 2) hl
    have h2 := qR_lo hpc
    rw [qR_goto] at h1
    simp only [mu]
    simp [qRank] at h1 h2; omega
  | decCnt i hl hpc =>
    have h1 := muF_q (L := L) (np := s.np) (ps := s.ps) (qs := s.qs) (ws := s.ws) (buf := s.buf) (goto (s.qs i) 0) hl
    have h2 := qR_lo hpc
    rw [qR_goto] at h1
    simp only [mu]
    simp [qRank] at h1 h2; omega
  | start i hl hu hpc =>
    have h1 := muF_w (L := L) (np := s.np) (ps := s.ps) (qs := s.qs) (ws := s.ws) (buf := s.buf)
      { s.ws i with parked := true } hl
    have e1 : wR (s.ws i) = wRank 3 false := by simp [wR, hu, hpc]
    have e2 : wR { s.ws i with parked := true } = wRank 3 true := by simp [wR, hpc]
    rw [e1, e2] at h1
    simp only [mu]
    simp [wRank] at h1; omega
  | pushRet k a r hk hpc hr =>
    have h1 := muF_p (L := L) (np := s.np) (ps := s.ps) (qs := s.qs) (ws := s.ws) (buf := s.buf) (goto (s.ps k) 5) hk
    have h2 := pR_lo hpc
    rw [pR_goto] at h1
    simp only [mu]
    rcases hr with ⟨rfl, _⟩|⟨rfl, _⟩|⟨rfl, _⟩ <;> simp [pRank] at h1 h2 <;> omega


/-! ### Runs of internal steps -/

/-- `IRun c s n s'`: `s'` is reached from `s` by exactly `n` internal steps -/
inductive IRun (c : Cfg) (s : St) : Nat → St → Prop where
  | refl : IRun c s 0 s
  | tail (n s' l s'') : IRun c s n s' → Step c s' l s'' → internal l = true → IRun c s (n + 1) s''

theorem IRun.head {c : Cfg} {s s1 s' : St} {l : Label} {n : Nat} (hs : Step c s l s1)
    (hi : internal l = true) (hr : IRun c s1 n s') : IRun c s (n + 1) s' := by
  induction hr with
  | refl => exact .tail 0 s l _ .refl hs hi
  | tail n s2 l' s3 _ hs' hi' ih => exact .tail _ _ _ _ ih hs' hi'

theorem IRun.reachable {c : Cfg} {s s' : St} {n : Nat} (h : Reachable c s) (hr : IRun c s n s') :
    Reachable c s' := by
  induction hr with
  | refl => exact h
  | tail n s2 l s3 _ hs _ ih => exact .step _ _ _ ih hs

theorem IRun.mu_bound {s s' : St} {n : Nat} (hr : IRun (cfg L Q) s n s') :
    n + mu L Q s' ≤ mu L Q s := by
  induction hr with
  | refl => omega
  | tail n s2 l s3 _ hs hi ih => have := mu_xstep hs.toX hi; omega

theorem cancelled_xstep {s : St} {l : Label} {s' : St} (hc : s.cancelled = true)
    (hx : XStep L Q s l s') : s'.cancelled = true := by
  cases hx with
  | cancel => rfl
  | done g => cases g <;> exact hc
  | dfltDone g => cases g <;> exact hc
  | park g => cases g <;> exact hc
  | _ => exact hc

theorem IRun.cancelled {s s' : St} {n : Nat} (hc : s.cancelled = true)
    (hr : IRun (cfg L Q) s n s') : s'.cancelled = true := by
  induction hr with
  | refl => exact hc
  | tail n s2 l s3 _ hs _ ih => exact cancelled_xstep ih hs.toX

/-- from every state some run of internal steps ends in a quiescent state -/
theorem exists_quiescent (s : St) : ∃ n s', IRun (cfg L Q) s n s' ∧ Quiescent (cfg L Q) s' := by
  generalize hm : mu L Q s = m
  induction m using Nat.strongRecOn generalizing s with
  | _ m ih =>
    by_cases hq : Quiescent (cfg L Q) s
    · exact ⟨0, s, .refl, hq⟩
    · have : ∃ l s1, Step (cfg L Q) s l s1 ∧ internal l = true := by
        apply Classical.byContradiction
        intro hn
        apply hq
        intro l s1 hs
        cases hi : internal l with
        | false => rfl
        | true => exact (hn ⟨l, s1, hs, hi⟩).elim
      obtain ⟨l, s1, hs, hi⟩ := this
      have hlt := mu_xstep hs.toX hi
      obtain ⟨n, s', hr, hq'⟩ := ih (mu L Q s1) (by omega) s1 rfl
      exact ⟨n + 1, s', hr.head hs hi, hq'⟩

/-- there is no infinite execution that from some point on consists of internal steps only -/
theorem no_infinite_internal (f : Nat → St) (lab : Nat → Label) (N : Nat)
    (hs : ∀ n, Step (cfg L Q) (f n) (lab n) (f (n + 1)))
    (hi : ∀ n, N ≤ n → internal (lab n) = true) : False := by
  have h : ∀ n, n + mu L Q (f (N + n)) ≤ mu L Q (f N) := by
    intro n
    induction n with
    | zero => simp
    | succ n ih =>
      have := mu_xstep (hs (N + n)).toX (hi (N + n) (by omega))
      have e : N + (n + 1) = N + n + 1 := by omega
      rw [e]; omega
  have := h (mu L Q (f N) + 1)
  omega


/-- after cancellation every goroutine that has not exited (and is not inside a task) has an
    enabled internal step of its own -/
theorem cancel_progress {s : St} (hw : WF s) (hc : s.cancelled = true) :
    (∀ i, i < L → (s.qs i).pc ≠ 6 → ∃ l s', Step (cfg L Q) s l s' ∧ internal l = true) ∧
    (∀ i, i < L → (s.ws i).pc ≠ 4 → ¬ s.running i → ∃ l s', Step (cfg L Q) s l s' ∧ internal l = true) ∧
    (∀ k, k < s.np → (s.ps k).pc ≠ 5 → ∃ l s', Step (cfg L Q) s l s' ∧ internal l = true) := by
  have tau : (∃ s', Step (cfg L Q) s .tau s') → ∃ l s', Step (cfg L Q) s l s' ∧ internal l = true :=
    fun ⟨s', hs⟩ => ⟨_, s', hs, rfl⟩
  refine ⟨?_, ?_, ?_⟩
  · intro i hi hne
    have ⟨hle, hpk⟩ := hw.q i
    have hl : s.live (cfg L Q) (.q i) := hi
    have hcases : (s.qs i).pc = 0 ∨ (s.qs i).pc = 1 ∨ (s.qs i).pc = 2 ∨ (s.qs i).pc = 3 ∨
        (s.qs i).pc = 4 ∨ (s.qs i).pc = 5 := by omega
    rcases hcases with h|h|h|h|h|h
    · exact tau (done_enabled hl (by rw [q_at h]; rfl) (t := 6) (by simp) hc)
    · exact tau ⟨_, Step.incCnt s (.q i) 2 hl (by rw [q_at h]; rfl)⟩
    · exact tau (done_enabled hl (by rw [q_at h]; rfl) (t := 6) (by simp) hc)
    · have hu : (s.qs i).parked = false := by
        cases hu : (s.qs i).parked with
        | false => rfl
        | true => have := hpk hu; omega
      exact tau (select_unparked_enabled hl hu (by rw [q_at h]; rfl))
    · exact tau (done_enabled hl (by rw [q_at h]; rfl) (t := 6) (by simp) hc)
    · exact tau ⟨_, Step.decCnt s (.q i) 0 hl (by rw [q_at h]; rfl)⟩
  · intro i hi hne hnr
    have ⟨hle, hpk⟩ := hw.w i
    have hl : s.live (cfg L Q) (.w i) := hi
    have hcases : (s.ws i).pc = 0 ∨ (s.ws i).pc = 1 ∨ (s.ws i).pc = 2 ∨ (s.ws i).pc = 3 := by omega
    rcases hcases with h|h|h|h
    · exact tau (done_enabled hl (by rw [w_at h]; rfl) (t := 4) (by simp) hc)
    · have hu : (s.ws i).parked = false := by
        cases hu : (s.ws i).parked with
        | false => rfl
        | true => have := hpk hu; omega
      exact tau (select_unparked_enabled hl hu (by rw [w_at h]; rfl))
    · exact tau (done_enabled hl (by rw [w_at h]; rfl) (t := 4) (by simp) hc)
    · have hu : (s.ws i).parked = false := by
        cases hu : (s.ws i).parked with
        | false => rfl
        | true => exact (hnr ⟨h, hu⟩).elim
      exact ⟨_, _, Step.start s i 0 hi hu (by rw [w_at h]; rfl), rfl⟩
  · intro k hk hne
    have ⟨hle, hpk⟩ := hw.p k
    have hl : s.live (cfg L Q) (.p k) := hk
    have hcases : (s.ps k).pc = 0 ∨ (s.ps k).pc = 1 ∨ (s.ps k).pc = 2 ∨ (s.ps k).pc = 3 ∨
        (s.ps k).pc = 4 := by omega
    rcases hcases with h|h|h|h|h
    · exact tau (done_enabled hl (by rw [p_at h]; rfl) (t := 2) (by simp) hc)
    · exact tau (done_enabled hl (by rw [p_at h]; rfl) (t := 2) (by simp) hc)
    · exact ⟨_, _, Step.pushRet s k .retCtxErr 5 .ctxErr hk (by rw [p_at h]; rfl) (by simp), rfl⟩
    · exact ⟨_, _, Step.pushRet s k .retNil 5 .nil hk (by rw [p_at h]; rfl) (by simp), rfl⟩
    · exact ⟨_, _, Step.pushRet s k .retTimeout 5 .timeout hk (by rw [p_at h]; rfl) (by simp), rfl⟩

/-- liveness core modulo no-loss (`hnl` is the conclusion of `C06_no_loss`) -/
theorem eventually_started_of_no_loss {s : St} (h : Reachable (cfg L Q) s) (hc : s.cancelled = false)
    (hq : Quiescent (cfg L Q) s) (hr : ∀ i, i < L → ¬ s.running i)
    (hnl : ∀ t, t ∈ s.accepted → t ∈ s.pending (cfg L Q) ++ s.started) :
    ∀ t, t ∈ s.accepted → t ∈ s.started := by
  obtain ⟨hw, hn, _⟩ := h.inv
  have hp : s.pending (cfg L Q) = [] := by
    apply pending_nil_of_idle
    cases L with
    | zero => intro i hi; omega
    | succ n => exact quiescent_idle hq hw hn hc (Nat.succ_pos n) (hr 0 (Nat.succ_pos n))
  intro t ht
  simpa [hp] using hnl t ht

end Glb.TaskLane
