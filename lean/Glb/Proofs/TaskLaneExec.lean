/-
  The executable step enumeration of `Glb.Model.TaskLaneExec` versus the step relation `Step` of
  `Glb.Model.TaskLane`.

  * `enabledSteps_sound`: every enumerated step is a `Step` between the `toSt` images, with the
    label `ELabel.toLabel`, and preserves well-formedness (`finishStep_sound`, `pushStep_sound`
    for the two steps with an environment parameter; `toSt_einit`, `wf_einit` for the start).
  * `steps_complete`: conversely every `Step` out of `toSt e` is produced by `enabledSteps`,
    `finishStep` or `pushStep` — so the enumeration is exact and a search over it that finds no
    execution has really excluded every execution of the model.
  * `enabledSteps_erase` (`finishStep_erase`, `pushStep_erase`): erasing the history fields before a
    step changes only the history fields of the successors — the acceptor's erasure is harmless.
  All statements are for an arbitrary configuration `c` (arbitrary programs), like `Step` itself.
-/
import Glb.Model.TaskLaneExec

namespace Glb.TaskLane.Exec
open Glb.TaskLane

/-! ### arrays versus functions -/

theorem getD_setIfInBounds {α} (a : Array α) (i j : Nat) (v d : α) :
    (a.setIfInBounds i v)[j]?.getD d = if j = i ∧ i < a.size then v else a[j]?.getD d := by
  simp only [Array.getElem?_setIfInBounds]
  grind

theorem getD_push {α} (a : Array α) (j : Nat) (v d : α) :
    (a.push v)[j]?.getD d = if j = a.size then v else a[j]?.getD d := by
  simp only [Array.getElem?_push]
  grind

theorem fun_setIfInBounds {α} (a : Array α) (i : Nat) (v d : α) (h : i < a.size) :
    (fun j => (a.setIfInBounds i v)[j]?.getD d) = upd (fun j => a[j]?.getD d) i v := by
  funext j
  simp [getD_setIfInBounds, upd, h]

theorem fun_push {α} (a : Array α) (v d : α) :
    (fun j => (a.push v)[j]?.getD d) = upd (fun j => a[j]?.getD d) a.size v := by
  funext j
  simp [getD_push, upd]

/-! ### `toSt` commutes with the accessors -/

theorem toSt_get (e : ESt) (g : Gid) : (toSt e).get g = eget e g := by cases g <;> rfl

theorem toSt_lane (e : ESt) (g : Gid) : (toSt e).lane g = elane e g := by cases g <;> rfl

theorem toSt_chanOf (e : ESt) (g : Gid) (x : Ch) : chanOf (toSt e) g x = echanOf e g x := by
  cases x <;> simp [chanOf, echanOf, toSt_lane]

theorem toSt_instrAt (c : Cfg) (e : ESt) (g : Gid) : instrAt c (toSt e) g = einstrAt c e g := by
  simp [instrAt, einstrAt, toSt_get]

theorem mem_gids {c : Cfg} {e : ESt} {g : Gid} : g ∈ gids c e ↔ (toSt e).live c g := by
  cases g <;> simp [gids, St.live, toSt]

theorem toSt_eset {c : Cfg} {e : ESt} (hw : WF c e) {g : Gid} (hl : (toSt e).live c g) (x : G) :
    toSt (eset e g x) = (toSt e).set g x := by
  cases g with
  | q i =>
    have : i < e.qs.size := by rw [hw.qs]; exact hl
    simp [eset, toSt, St.set, fun_setIfInBounds _ _ _ _ this]
  | w i =>
    have : i < e.ws.size := by rw [hw.ws]; exact hl
    simp [eset, toSt, St.set, fun_setIfInBounds _ _ _ _ this]
  | p k =>
    have : k < e.ps.size := hl
    simp [eset, toSt, St.set, fun_setIfInBounds _ _ _ _ this]

theorem wf_eset {c : Cfg} {e : ESt} (hw : WF c e) (g : Gid) (x : G) : WF c (eset e g x) := by
  cases g <;> exact { buf := by simp [eset, hw.buf], qs := by simp [eset, hw.qs], ws := by simp [eset, hw.ws], plane := by simp [eset, hw.plane], lanes := hw.lanes }

theorem live_eset {c : Cfg} {e : ESt} (g h : Gid) (x : G) :
    (toSt (eset e g x)).live c h ↔ (toSt e).live c h := by
  cases g <;> cases h <;> simp [eset, toSt, St.live]

theorem toSt_einit (L : Nat) : toSt (einit L) = init := by
  simp [toSt, einit, init, Array.getD_eq_getD_getElem?, Array.getElem?_replicate]
  refine ⟨?_, ?_⟩ <;> funext i <;> split <;> rfl

theorem wf_einit (c : Cfg) : WF c (einit c.L) := by
  constructor <;> simp [einit]

/-! ### readiness -/

theorem localReadyB_iff (c : Cfg) (e : ESt) (g : Gid) (k : Case) :
    localReadyB c e g k = true ↔ localReady c (toSt e) g k := by
  cases k with
  | done => simp [localReadyB, localReady, toSt]
  | timeout => simp [localReadyB, localReady]
  | recv x => cases x <;> simp [localReadyB, localReady, toSt_lane] <;> simp [toSt]
  | send x => cases x <;> simp [localReadyB, localReady, toSt_lane] <;> simp [toSt]

theorem onChan_iff (e : ESt) (h : Gid) (k : Case) (ch : Ch × Nat) :
    onChan e h k ch = true ↔
      (match k with
       | .recv x => chanOf (toSt e) h x = ch
       | .send x => chanOf (toSt e) h x = ch
       | _ => False) := by
  cases k <;> simp [onChan, toSt_chanOf]

theorem mem_parkedTargets {c : Cfg} {e : ESt} {h : Gid} {k : Case} {ch : Ch × Nat} {th : Nat} :
    th ∈ parkedTargets c e h k ch ↔
      (eget e h).parked = true ∧ ∃ cases, einstrAt c e h = some (.select cases none) ∧
        (k, th) ∈ cases ∧ onChan e h k ch = true := by
  unfold parkedTargets
  by_cases hp : (eget e h).parked = true
  · simp only [hp, if_true, true_and]
    cases hi : einstrAt c e h with
    | none => simp
    | some ins =>
      cases ins with
      | halt => simp
      | act a n => simp
      | select cases d =>
        cases d with
        | some d => simp
        | none =>
          simp only [List.mem_filterMap, Option.some.injEq, Instr.select.injEq, and_true]
          constructor
          · rintro ⟨⟨k', t⟩, hm, hx⟩
            split at hx
            · rename_i hc; obtain ⟨rfl, hc⟩ := hc; cases hx; exact ⟨cases, rfl, hm, hc⟩
            · cases hx
          · rintro ⟨cs, rfl, hm, hc⟩
            exact ⟨(k, th), hm, by simp [hc]⟩
  · simp [hp]

theorem mem_partners {c : Cfg} {e : ESt} {g h : Gid} {k : Case} {ch : Ch × Nat} {th : Nat} :
    (h, th) ∈ partners c e g k ch ↔ h ≠ g ∧ parkedOn c (toSt e) h k ch th := by
  unfold partners parkedOn
  simp only [List.mem_flatMap]
  constructor
  · rintro ⟨h', hl, hm⟩
    split at hm
    · cases hm
    · rename_i hne
      simp only [List.mem_map, Prod.mk.injEq] at hm
      obtain ⟨t, ht, rfl, rfl⟩ := hm
      obtain ⟨hp, cs, hi, hmem, hc⟩ := mem_parkedTargets.1 ht
      exact ⟨hne, mem_gids.1 hl, by rw [toSt_get]; exact hp, cs, by rw [toSt_instrAt]; exact hi, hmem,
        (onChan_iff e h' k ch).1 hc⟩
  · rintro ⟨hne, hl, hp, cs, hi, hmem, hc⟩
    refine ⟨h, mem_gids.2 hl, ?_⟩
    rw [if_neg hne]
    simp only [List.mem_map, Prod.mk.injEq]
    refine ⟨th, mem_parkedTargets.2 ⟨by rw [← toSt_get]; exact hp, cs, by rw [← toSt_instrAt]; exact hi, hmem,
      (onChan_iff e h k ch).2 hc⟩, by simp⟩

theorem bufGuard_iff (c : Cfg) (x : Ch) : (x != .buf || c.Q == 0) = true ↔ (x = .buf → c.Q = 0) := by
  cases x <;> simp

theorem nonempty_iff {α} (l : List α) : (!l.isEmpty) = true ↔ ∃ x, x ∈ l := by
  cases l <;> simp

theorem partnerReadyB_iff (c : Cfg) (e : ESt) (g : Gid) (k : Case) :
    partnerReadyB c e g k = true ↔ partnerReady c (toSt e) g k := by
  cases k with
  | done => simp [partnerReadyB, partnerReady]
  | timeout => simp [partnerReadyB, partnerReady]
  | recv x =>
    simp only [partnerReadyB, partnerReady, Bool.and_eq_true, bufGuard_iff, nonempty_iff, toSt_chanOf]
    constructor
    · rintro ⟨hq, ⟨h, t⟩, hm⟩
      exact ⟨hq, h, t, mem_partners.1 hm⟩
    · rintro ⟨hq, h, t, hm⟩
      exact ⟨hq, (h, t), mem_partners.2 hm⟩
  | send x =>
    simp only [partnerReadyB, partnerReady, Bool.and_eq_true, bufGuard_iff, nonempty_iff, toSt_chanOf]
    constructor
    · rintro ⟨hq, ⟨h, t⟩, hm⟩
      exact ⟨hq, h, t, mem_partners.1 hm⟩
    · rintro ⟨hq, h, t, hm⟩
      exact ⟨hq, (h, t), mem_partners.2 hm⟩

theorem readyB_iff (c : Cfg) (e : ESt) (g : Gid) (k : Case) :
    readyB c e g k = true ↔ ready c (toSt e) g k := by
  simp only [readyB, ready, Bool.or_eq_true, Bool.and_eq_true, localReadyB_iff, partnerReadyB_iff]
  cases k <;> simp

theorem none_ready_iff (c : Cfg) (e : ESt) (g : Gid) (cases : List (Case × Nat)) :
    (cases.all fun kt => !readyB c e g kt.1) = true ↔ ∀ k t, (k, t) ∈ cases → ¬ ready c (toSt e) g k := by
  simp only [List.all_eq_true, Bool.not_eq_true', Prod.forall]
  constructor
  · intro h k t hm hr
    have := h k t hm
    rw [(readyB_iff c e g k).2 hr] at this
    cases this
  · intro h k t hm
    cases hb : readyB c e g k with
    | false => rfl
    | true => exact absurd ((readyB_iff c e g k).1 hb) (h k t hm)

/-! ### effects -/

theorem lane_lt {c : Cfg} {e : ESt} (hw : WF c e) {g : Gid} (hl : (toSt e).live c g) : elane e g < c.L := by
  cases g with
  | q i => exact hl
  | w i => exact hl
  | p k => exact hw.lanes k (by rw [hw.plane]; exact hl)

theorem toSt_localEffect {c : Cfg} {e : ESt} (hw : WF c e) {g : Gid} (hl : (toSt e).live c g) (k : Case) :
    toSt (elocalEffect e g k) = localEffect (toSt e) g k ∧ WF c (elocalEffect e g k) := by
  have hlane : elane e g < e.buf.size := by rw [hw.buf]; exact lane_lt hw hl
  cases k with
  | done => exact ⟨rfl, hw⟩
  | timeout => exact ⟨rfl, hw⟩
  | recv x =>
    cases x with
    | own => exact ⟨rfl, hw⟩
    | uni => exact ⟨rfl, hw⟩
    | buf =>
      let e1 : ESt := { e with buf := e.buf.setIfInBounds (elane e g) (e.buf.getD (elane e g) []).tail }
      have hw1 : WF c e1 :=
        { buf := by simp [e1, hw.buf], qs := hw.qs, ws := hw.ws, plane := hw.plane, lanes := hw.lanes }
      have hl1 : (toSt e1).live c g := by cases g <;> exact hl
      refine ⟨?_, wf_eset hw1 _ _⟩
      show toSt (eset e1 g _) = _
      rw [toSt_eset hw1 hl1]
      simp only [localEffect, toSt_lane, toSt_get]
      congr 1
      simp [e1, toSt, fun_setIfInBounds _ _ _ _ hlane]
  | send x =>
    cases x with
    | own => exact ⟨rfl, hw⟩
    | uni => exact ⟨rfl, hw⟩
    | buf =>
      refine ⟨?_, { buf := by simp [elocalEffect, hw.buf], qs := hw.qs, ws := hw.ws, plane := hw.plane, lanes := hw.lanes }⟩
      simp only [localEffect, elocalEffect, toSt_lane, toSt_get]
      simp [toSt, fun_setIfInBounds _ _ _ _ hlane]

theorem live_localEffect {c : Cfg} {e : ESt} (g h : Gid) (k : Case) :
    (toSt (elocalEffect e g k)).live c h ↔ (toSt e).live c h := by
  cases k with
  | done => exact Iff.rfl
  | timeout => exact Iff.rfl
  | recv x => cases x <;> first | exact Iff.rfl | (cases g <;> cases h <;> simp [elocalEffect, eset, toSt, St.live])
  | send x => cases x <;> first | exact Iff.rfl | (cases h <;> simp [elocalEffect, toSt, St.live])

theorem toSt_eset2 {c : Cfg} {e1 : ESt} (hw1 : WF c e1) {g h : Gid} (hg1 : (toSt e1).live c g)
    (hh1 : (toSt e1).live c h) (tg th : Nat) (hd : Tid) :
    toSt (eset (eset e1 g (goto (eget e1 g) tg)) h
        { goto (eget (eset e1 g (goto (eget e1 g) tg)) h) th with held := hd }) =
      ((toSt e1).set g (goto ((toSt e1).get g) tg)).set h
        { goto (((toSt e1).set g (goto ((toSt e1).get g) tg)).get h) th with held := hd } ∧
    WF c (eset (eset e1 g (goto (eget e1 g) tg)) h
        { goto (eget (eset e1 g (goto (eget e1 g) tg)) h) th with held := hd }) := by
  have hw2 := wf_eset hw1 g (goto (eget e1 g) tg)
  have hh2 : (toSt (eset e1 g (goto (eget e1 g) tg))).live c h := (live_eset g h _).2 hh1
  have h1 : toSt (eset e1 g (goto (eget e1 g) tg)) = (toSt e1).set g (goto ((toSt e1).get g) tg) := by
    rw [toSt_eset hw1 hg1, toSt_get]
  generalize eset e1 g (goto (eget e1 g) tg) = e2 at *
  refine ⟨?_, wf_eset hw2 _ _⟩
  rw [toSt_eset hw2 hh2, ← toSt_get, h1]

theorem wf_accepted {c : Cfg} {e : ESt} (hw : WF c e) (a : List Tid) : WF c { e with accepted := a } :=
  { buf := hw.buf, qs := hw.qs, ws := hw.ws, plane := hw.plane, lanes := hw.lanes }

theorem toSt_handoverResult {c : Cfg} {e : ESt} (hw : WF c e) {g h : Gid} (hg : (toSt e).live c g)
    (hh : (toSt e).live c h) (x : Ch) (tg th : Nat) :
    toSt (handoverResult e g h x tg th) =
      (let s := toSt e
       let s1 := if x = .buf then { s with accepted := s.accepted ++ [(s.get g).held] } else s
       let s2 := s1.set g (goto (s1.get g) tg)
       s2.set h { goto (s2.get h) th with held := (s.get g).held }) ∧
    WF c (handoverResult e g h x tg th) := by
  by_cases hx : x = .buf
  · have hw1 := wf_accepted hw (e.accepted ++ [(eget e g).held])
    have := toSt_eset2 hw1 (g := g) (h := h) (by cases g <;> exact hg) (by cases h <;> exact hh) tg th (eget e g).held
    simp only [handoverResult, hx, if_true, toSt_get]
    exact this
  · have := toSt_eset2 hw hg hh tg th (eget e g).held
    simp only [handoverResult, hx, if_false, toSt_get]
    exact this

theorem toSt_takeoverResult {c : Cfg} {e : ESt} (hw : WF c e) {g h : Gid} (hg : (toSt e).live c g)
    (hh : (toSt e).live c h) (x : Ch) (tg th : Nat) :
    toSt (takeoverResult e g h x tg th) =
      (let s := toSt e
       let s1 := if x = .buf then { s with accepted := s.accepted ++ [(s.get h).held] } else s
       let s2 := s1.set h (goto (s1.get h) th)
       s2.set g { goto (s2.get g) tg with held := (s.get h).held }) ∧
    WF c (takeoverResult e g h x tg th) := by
  by_cases hx : x = .buf
  · have hw1 := wf_accepted hw (e.accepted ++ [(eget e h).held])
    have := toSt_eset2 hw1 (g := h) (h := g) (by cases h <;> exact hh) (by cases g <;> exact hg) th tg (eget e h).held
    simp only [takeoverResult, hx, if_true, toSt_get]
    exact this
  · have := toSt_eset2 hw hh hg th tg (eget e h).held
    simp only [takeoverResult, hx, if_false, toSt_get]
    exact this

theorem selectSteps_sound {c : Cfg} {e : ESt} (hw : WF c e) {g : Gid} (hl : (toSt e).live c g)
    {cases : List (Case × Nat)} {dflt : Option Nat} (hi : einstrAt c e g = some (.select cases dflt))
    {l : ELabel} {e' : ESt} (h : (l, e') ∈ selectSteps c e g cases dflt) :
    Step c (toSt e) l.toLabel (toSt e') ∧ WF c e' := by
  have hi' : instrAt c (toSt e) g = some (.select cases dflt) := by rw [toSt_instrAt]; exact hi
  simp only [selectSteps, List.mem_append] at h
  rcases h with (h | h) | h
  · -- a case that is ready by itself
    simp only [List.mem_filterMap] at h
    obtain ⟨⟨k, target⟩, hm, hx⟩ := h
    split at hx
    · rename_i hr
      simp only [Option.some.injEq, Prod.mk.injEq] at hx
      obtain ⟨rfl, rfl⟩ := hx
      obtain ⟨h1, hw1⟩ := toSt_localEffect hw hl k
      have hl1 : (toSt (elocalEffect e g k)).live c g := (live_localEffect g g k).2 hl
      have := Step.takeLocal (toSt e) g cases dflt k target hl hi' hm ((localReadyB_iff c e g k).1 hr)
      refine ⟨?_, wf_eset hw1 _ _⟩
      show Step c (toSt e) _ (toSt (eset (elocalEffect e g k) g _))
      rw [toSt_eset hw1 hl1, ← toSt_get, h1]
      exact this
    · cases hx
  · -- rendezvous with a parked partner
    simp only [List.mem_flatMap] at h
    obtain ⟨⟨k, tg⟩, hm, hx⟩ := h
    cases k with
    | done => simp [rendezvous] at hx
    | timeout => simp [rendezvous] at hx
    | send x =>
      simp only [rendezvous] at hx
      split at hx
      · rename_i hq
        simp only [List.mem_map, Prod.mk.injEq] at hx
        obtain ⟨⟨h, th⟩, hp, rfl, rfl⟩ := hx
        obtain ⟨hne, hpk⟩ := mem_partners.1 hp
        rw [← toSt_chanOf] at hpk
        have := Step.handover (toSt e) g h cases dflt x tg th hl hi' hm ((bufGuard_iff c x).1 hq) hne hpk
        obtain ⟨heq, hwf⟩ := toSt_handoverResult hw hl hpk.1 x tg th
        refine ⟨?_, hwf⟩
        rw [heq]
        exact this
      · cases hx
    | recv x =>
      simp only [rendezvous] at hx
      split at hx
      · rename_i hq
        simp only [List.mem_map, Prod.mk.injEq] at hx
        obtain ⟨⟨h, th⟩, hp, rfl, rfl⟩ := hx
        obtain ⟨hne, hpk⟩ := mem_partners.1 hp
        rw [← toSt_chanOf] at hpk
        have := Step.takeover (toSt e) g h cases dflt x tg th hl hi' hm ((bufGuard_iff c x).1 hq) hne hpk
        obtain ⟨heq, hwf⟩ := toSt_takeoverResult hw hl hpk.1 x tg th
        refine ⟨?_, hwf⟩
        rw [heq]
        exact this
      · cases hx
  · -- nothing is ready: default / park
    split at h
    · rename_i hc
      obtain ⟨hpk, hnr⟩ := hc
      have hnr' := (none_ready_iff c e g cases).1 hnr
      have hpk' : ((toSt e).get g).parked = false := by rw [toSt_get]; exact hpk
      cases dflt with
      | some d =>
        simp only [List.mem_singleton, Prod.mk.injEq] at h
        obtain ⟨rfl, rfl⟩ := h
        refine ⟨?_, wf_eset hw _ _⟩
        rw [toSt_eset hw hl, ← toSt_get]
        exact Step.dflt (toSt e) g cases d hl hpk' hi' hnr'
      | none =>
        simp only [List.mem_singleton, Prod.mk.injEq] at h
        obtain ⟨rfl, rfl⟩ := h
        refine ⟨?_, wf_eset hw _ _⟩
        rw [toSt_eset hw hl, ← toSt_get]
        exact Step.park (toSt e) g cases hl hpk' hi' hnr'
    · cases h

theorem retSteps_sound {c : Cfg} {e : ESt} (hw : WF c e) {g : Gid} (hl : (toSt e).live c g)
    {a : Act} {n : Nat} {r : PushResult} (hi : einstrAt c e g = some (.act a n))
    (har : a = .retNil ∧ r = .nil ∨ a = .retCtxErr ∧ r = .ctxErr ∨ a = .retTimeout ∧ r = .timeout)
    {l : ELabel} {e' : ESt} (h : (l, e') ∈ retSteps e g n r) :
    Step c (toSt e) l.toLabel (toSt e') ∧ WF c e' := by
  cases g with
  | q i => simp [retSteps] at h
  | w i => simp [retSteps] at h
  | p k =>
    simp only [retSteps, List.mem_singleton, Prod.mk.injEq] at h
    obtain ⟨rfl, rfl⟩ := h
    have hk : k < e.ps.size := hl
    have hi' : instrAt c (toSt e) (.p k) = some (.act a n) := by rw [toSt_instrAt]; exact hi
    have := Step.pushRet (toSt e) k a n r hl hi' har
    refine ⟨?_, { buf := hw.buf, qs := hw.qs, ws := hw.ws, plane := by simp [hw.plane], lanes := hw.lanes }⟩
    have heq : toSt { e with ps := e.ps.setIfInBounds k (goto (e.ps.getD k {}) n),
                             results := e.results ++ [((e.ps.getD k {}).held, r)] } =
        { toSt e with ps := upd (toSt e).ps k (goto ((toSt e).ps k) n),
                      results := (toSt e).results ++ [(((toSt e).ps k).held, r)] } := by
      simp [toSt, fun_setIfInBounds _ _ _ _ hk]
    rw [heq]
    exact this

theorem actSteps_sound {c : Cfg} {e : ESt} (hw : WF c e) {g : Gid} (hl : (toSt e).live c g)
    {a : Act} {n : Nat} (hi : einstrAt c e g = some (.act a n))
    {l : ELabel} {e' : ESt} (h : (l, e') ∈ actSteps e g a n) :
    Step c (toSt e) l.toLabel (toSt e') ∧ WF c e' := by
  have hi' : instrAt c (toSt e) g = some (.act a n) := by rw [toSt_instrAt]; exact hi
  cases a with
  | incCnt =>
    simp only [actSteps, List.mem_singleton, Prod.mk.injEq] at h
    obtain ⟨rfl, rfl⟩ := h
    have hw1 : WF c { e with cnt := e.cnt + 1 } :=
      { buf := hw.buf, qs := hw.qs, ws := hw.ws, plane := hw.plane, lanes := hw.lanes }
    have hl1 : (toSt { e with cnt := e.cnt + 1 }).live c g := by cases g <;> exact hl
    refine ⟨?_, wf_eset hw1 _ _⟩
    rw [toSt_eset hw1 hl1, ← toSt_get]
    exact Step.incCnt (toSt e) g n hl hi'
  | decCnt =>
    simp only [actSteps, List.mem_singleton, Prod.mk.injEq] at h
    obtain ⟨rfl, rfl⟩ := h
    have hw1 : WF c { e with cnt := e.cnt - 1 } :=
      { buf := hw.buf, qs := hw.qs, ws := hw.ws, plane := hw.plane, lanes := hw.lanes }
    have hl1 : (toSt { e with cnt := e.cnt - 1 }).live c g := by cases g <;> exact hl
    refine ⟨?_, wf_eset hw1 _ _⟩
    rw [toSt_eset hw1 hl1, ← toSt_get]
    exact Step.decCnt (toSt e) g n hl hi'
  | run =>
    cases g with
    | q i => simp [actSteps] at h
    | p k => simp [actSteps] at h
    | w i =>
      simp only [actSteps] at h
      split at h
      · rename_i hpk
        simp only [List.mem_singleton, Prod.mk.injEq] at h
        obtain ⟨rfl, rfl⟩ := h
        have hiL : i < c.L := hl
        have hi2 : i < e.ws.size := by rw [hw.ws]; exact hiL
        have := Step.start (toSt e) i n hiL hpk hi'
        refine ⟨?_, { buf := hw.buf, qs := hw.qs, ws := by simp [hw.ws], plane := hw.plane, lanes := hw.lanes }⟩
        have heq : toSt { e with ws := e.ws.setIfInBounds i { e.ws.getD i {} with parked := true },
                                 started := e.started ++ [(e.ws.getD i {}).held] } =
            { toSt e with ws := upd (toSt e).ws i { (toSt e).ws i with parked := true },
                          started := (toSt e).started ++ [((toSt e).ws i).held] } := by
          simp [toSt, fun_setIfInBounds _ _ _ _ hi2]
        rw [heq]
        exact this
      · cases h
  | retNil => exact retSteps_sound hw hl hi (Or.inl ⟨rfl, rfl⟩) h
  | retCtxErr => exact retSteps_sound hw hl hi (Or.inr (Or.inl ⟨rfl, rfl⟩)) h
  | retTimeout => exact retSteps_sound hw hl hi (Or.inr (Or.inr ⟨rfl, rfl⟩)) h

theorem stepsOf_sound {c : Cfg} {e : ESt} (hw : WF c e) {g : Gid} (hl : (toSt e).live c g)
    {l : ELabel} {e' : ESt} (h : (l, e') ∈ stepsOf c e g) :
    Step c (toSt e) l.toLabel (toSt e') ∧ WF c e' := by
  unfold stepsOf at h
  split at h
  · rename_i cases dflt hi; exact selectSteps_sound hw hl hi h
  · rename_i a n hi; exact actSteps_sound hw hl hi h
  · cases h

/-- **Soundness of the enumeration**: every enumerated step is a step of the model. -/
theorem enabledSteps_sound {c : Cfg} {e : ESt} (hw : WF c e) {l : ELabel} {e' : ESt}
    (h : (l, e') ∈ enabledSteps c e) : Step c (toSt e) l.toLabel (toSt e') ∧ WF c e' := by
  simp only [enabledSteps, List.mem_append, List.mem_flatMap] at h
  rcases h with h | ⟨g, hg, h⟩
  · unfold cancelSteps at h
    split at h
    · rename_i hc
      simp only [List.mem_singleton, Prod.mk.injEq] at h
      obtain ⟨rfl, rfl⟩ := h
      exact ⟨Step.cancel (toSt e) hc, { buf := hw.buf, qs := hw.qs, ws := hw.ws, plane := hw.plane, lanes := hw.lanes }⟩
    · cases h
  · exact stepsOf_sound hw (mem_gids.1 hg) h

/-- non-vacuity: the initial state of `cfg 1 1` is well-formed (`wf_einit`) and has three enabled
    steps — cancel, the queue goroutine parks on its empty buffer, the worker takes `default` -/
example : (enabledSteps (cfg 1 1) (einit 1)).map (·.1) = [.cancel, .park (.q 0), .dflt (.w 0)] := by decide

theorem finishStep_sound {c : Cfg} {e : ESt} (hw : WF c e) {i : Nat} {v : Option Nat} {l : ELabel} {e' : ESt}
    (h : finishStep c e i v = some (l, e')) : Step c (toSt e) l.toLabel (toSt e') ∧ WF c e' := by
  unfold finishStep at h
  split at h
  · rename_i hc
    obtain ⟨hiL, hpk⟩ := hc
    split at h
    · rename_i n hi
      simp only [Option.some.injEq, Prod.mk.injEq] at h
      obtain ⟨rfl, rfl⟩ := h
      have hi2 : i < e.ws.size := by rw [hw.ws]; exact hiL
      have hi' : instrAt c (toSt e) (.w i) = some (.act .run n) := by rw [toSt_instrAt]; exact hi
      refine ⟨?_, { buf := hw.buf, qs := hw.qs, ws := by simp [hw.ws], plane := hw.plane, lanes := hw.lanes }⟩
      cases v with
      | none =>
        have := Step.finish (toSt e) i n none hiL hpk hi'
        simpa [toSt, ELabel.toLabel, fun_setIfInBounds _ _ _ _ hi2] using this
      | some x =>
        have := Step.finish (toSt e) i n (some x) hiL hpk hi'
        simpa [toSt, ELabel.toLabel, fun_setIfInBounds _ _ _ _ hi2] using this
    · cases h
  · cases h

theorem pushStep_sound {c : Cfg} {e : ESt} (hw : WF c e) {t : Tid} {lane : Nat} {l : ELabel} {e' : ESt}
    (h : pushStep c e t lane = some (l, e')) : Step c (toSt e) l.toLabel (toSt e') ∧ WF c e' := by
  unfold pushStep at h
  split at h
  · rename_i hc
    obtain ⟨hlane, hfresh⟩ := hc
    simp only [Option.some.injEq, Prod.mk.injEq] at h
    obtain ⟨rfl, rfl⟩ := h
    have hf : ∀ k, k < (toSt e).np → ((toSt e).ps k).held ≠ t := by
      intro k hk
      have hk' : k < e.ps.size := hk
      have := (Array.all_eq_true (as := e.ps) (p := fun x => x.held != t)).1 hfresh k hk'
      simpa [toSt, hk'] using this
    have := Step.push (toSt e) t lane hlane hf
    refine ⟨?_, ?_⟩
    · have heq : toSt { e with ps := e.ps.push { pc := 0, parked := false, held := t }, plane := e.plane.push lane } =
          { toSt e with ps := upd (toSt e).ps (toSt e).np { pc := 0, parked := false, held := t },
                        plane := upd (toSt e).plane (toSt e).np lane, np := (toSt e).np + 1 } := by
        simp [toSt, fun_push, hw.plane]
      rw [heq]
      exact this
    · refine { buf := hw.buf, qs := hw.qs, ws := hw.ws, plane := by simp [hw.plane], lanes := ?_ }
      intro k hk
      simp only [Array.size_push] at hk
      simp only [Array.getD_eq_getD_getElem?, getD_push]
      split
      · exact hlane
      · have := hw.lanes k (by omega)
        simpa [Array.getD_eq_getD_getElem?] using this
  · cases h

/-! ### completeness: every `Step` out of `toSt e` is enumerated -/

theorem mem_stepsOf_select {c : Cfg} {e : ESt} {g : Gid} {cases : List (Case × Nat)} {dflt : Option Nat}
    (hi : instrAt c (toSt e) g = some (.select cases dflt)) : stepsOf c e g = selectSteps c e g cases dflt := by
  rw [toSt_instrAt] at hi
  simp [stepsOf, hi]

theorem mem_stepsOf_act {c : Cfg} {e : ESt} {g : Gid} {a : Act} {n : Nat}
    (hi : instrAt c (toSt e) g = some (.act a n)) : stepsOf c e g = actSteps e g a n := by
  rw [toSt_instrAt] at hi
  simp [stepsOf, hi]

theorem mem_enabled_of_stepsOf {c : Cfg} {e : ESt} {g : Gid} (hl : (toSt e).live c g) {x : ELabel × ESt}
    (h : x ∈ stepsOf c e g) : x ∈ enabledSteps c e := by
  simp only [enabledSteps, List.mem_append, List.mem_flatMap]
  exact Or.inr ⟨g, mem_gids.2 hl, h⟩

/-- what the three step functions produce -/
def Produced (c : Cfg) (e : ESt) (lab : Label) (s' : St) : Prop :=
  (∃ l e', (l, e') ∈ enabledSteps c e ∧ l.toLabel = lab ∧ toSt e' = s') ∨
  (∃ i v l e', finishStep c e i v = some (l, e') ∧ l.toLabel = lab ∧ toSt e' = s') ∨
  (∃ t lane l e', pushStep c e t lane = some (l, e') ∧ l.toLabel = lab ∧ toSt e' = s')

/-- **Completeness of the enumeration**: every step of the model out of `toSt e` is produced by
    `enabledSteps`, or by `finishStep` / `pushStep` for the steps with an environment parameter. -/
theorem steps_complete {c : Cfg} {e : ESt} (hw : WF c e) {lab : Label} {s' : St}
    (h : Step c (toSt e) lab s') : Produced c e lab s' := by
  generalize hs : toSt e = s at h
  cases h with
  | cancel hc =>
    subst hs
    refine Or.inl ⟨.cancel, { e with cancelled := true }, ?_, rfl, rfl⟩
    simp only [enabledSteps, List.mem_append]
    exact Or.inl (by simp [cancelSteps, show e.cancelled = false from hc])
  | push t lane hlane hfresh =>
    subst hs
    have hf : (e.ps.all fun x => x.held != t) = true := by
      rw [Array.all_eq_true]
      intro k hk
      have := hfresh k hk
      simpa [toSt, hk] using this
    have hp : pushStep c e t lane = some (.push e.ps.size t lane,
        { e with ps := e.ps.push { pc := 0, parked := false, held := t }, plane := e.plane.push lane }) := by
      simp [pushStep, hlane, hf]
    refine Or.inr (Or.inr ⟨t, lane, _, _, hp, rfl, ?_⟩)
    simp [toSt, fun_push, hw.plane]
  | takeLocal g cases dflt k target hl hi hm hr =>
    subst hs
    obtain ⟨h1, hw1⟩ := toSt_localEffect hw hl k
    have hl1 : (toSt (elocalEffect e g k)).live c g := (live_localEffect g g k).2 hl
    refine Or.inl ⟨.takeLocal g k target, eset (elocalEffect e g k) g (goto (eget (elocalEffect e g k) g) target), ?_, rfl, ?_⟩
    · apply mem_enabled_of_stepsOf hl
      rw [mem_stepsOf_select hi]
      simp only [selectSteps, List.mem_append, List.mem_filterMap]
      refine Or.inl (Or.inl ⟨(k, target), hm, ?_⟩)
      simp [(localReadyB_iff c e g k).2 hr]
    · rw [toSt_eset hw1 hl1, ← toSt_get, h1]
  | handover g h cases dflt x tg th hl hi hm hq hne hpk =>
    subst hs
    obtain ⟨heq, -⟩ := toSt_handoverResult hw hl hpk.1 x tg th
    refine Or.inl ⟨.handover g h x, handoverResult e g h x tg th, ?_, rfl, heq⟩
    apply mem_enabled_of_stepsOf hl
    rw [mem_stepsOf_select hi]
    simp only [selectSteps, List.mem_append, List.mem_flatMap]
    refine Or.inl (Or.inr ⟨(.send x, tg), hm, ?_⟩)
    simp only [rendezvous, (bufGuard_iff c x).2 hq, if_true, List.mem_map]
    rw [toSt_chanOf] at hpk
    exact ⟨(h, th), mem_partners.2 ⟨hne, hpk⟩, rfl⟩
  | takeover g h cases dflt x tg th hl hi hm hq hne hpk =>
    subst hs
    obtain ⟨heq, -⟩ := toSt_takeoverResult hw hl hpk.1 x tg th
    refine Or.inl ⟨.takeover g h x, takeoverResult e g h x tg th, ?_, rfl, heq⟩
    apply mem_enabled_of_stepsOf hl
    rw [mem_stepsOf_select hi]
    simp only [selectSteps, List.mem_append, List.mem_flatMap]
    refine Or.inl (Or.inr ⟨(.recv x, tg), hm, ?_⟩)
    simp only [rendezvous, (bufGuard_iff c x).2 hq, if_true, List.mem_map]
    rw [toSt_chanOf] at hpk
    exact ⟨(h, th), mem_partners.2 ⟨hne, hpk⟩, rfl⟩
  | dflt g cases d hl hpk hi hnr =>
    subst hs
    refine Or.inl ⟨.dflt g, eset e g (goto (eget e g) d), ?_, rfl, ?_⟩
    · apply mem_enabled_of_stepsOf hl
      rw [mem_stepsOf_select hi]
      simp only [selectSteps, List.mem_append]
      refine Or.inr ?_
      rw [toSt_get] at hpk
      simp [hpk, (none_ready_iff c e g cases).2 hnr]
    · rw [toSt_eset hw hl, toSt_get]
  | park g cases hl hpk hi hnr =>
    subst hs
    refine Or.inl ⟨.park g, eset e g { eget e g with parked := true }, ?_, rfl, ?_⟩
    · apply mem_enabled_of_stepsOf hl
      rw [mem_stepsOf_select hi]
      simp only [selectSteps, List.mem_append]
      refine Or.inr ?_
      rw [toSt_get] at hpk
      simp [hpk, (none_ready_iff c e g cases).2 hnr]
    · rw [toSt_eset hw hl, toSt_get]
  | incCnt g n hl hi =>
    subst hs
    have hw1 : WF c { e with cnt := e.cnt + 1 } :=
      { buf := hw.buf, qs := hw.qs, ws := hw.ws, plane := hw.plane, lanes := hw.lanes }
    have hl1 : (toSt { e with cnt := e.cnt + 1 }).live c g := by cases g <;> exact hl
    refine Or.inl ⟨.incCnt g, eset { e with cnt := e.cnt + 1 } g (goto (eget e g) n), ?_, rfl, ?_⟩
    · apply mem_enabled_of_stepsOf hl
      rw [mem_stepsOf_act hi]
      simp [actSteps]
    · rw [toSt_eset hw1 hl1, ← toSt_get]; rfl
  | decCnt g n hl hi =>
    subst hs
    have hw1 : WF c { e with cnt := e.cnt - 1 } :=
      { buf := hw.buf, qs := hw.qs, ws := hw.ws, plane := hw.plane, lanes := hw.lanes }
    have hl1 : (toSt { e with cnt := e.cnt - 1 }).live c g := by cases g <;> exact hl
    refine Or.inl ⟨.decCnt g, eset { e with cnt := e.cnt - 1 } g (goto (eget e g) n), ?_, rfl, ?_⟩
    · apply mem_enabled_of_stepsOf hl
      rw [mem_stepsOf_act hi]
      simp [actSteps]
    · rw [toSt_eset hw1 hl1, ← toSt_get]; rfl
  | start i n hiL hpk hi =>
    subst hs
    have hi2 : i < e.ws.size := by rw [hw.ws]; exact hiL
    refine Or.inl ⟨.start i (e.ws.getD i {}).held,
      { e with ws := e.ws.setIfInBounds i { e.ws.getD i {} with parked := true },
               started := e.started ++ [(e.ws.getD i {}).held] }, ?_, rfl, ?_⟩
    · apply mem_enabled_of_stepsOf (g := .w i) hiL
      rw [mem_stepsOf_act hi]
      have : (e.ws.getD i {}).parked = false := hpk
      simp only [actSteps, this, if_true, List.mem_singleton]
    · simp [toSt, fun_setIfInBounds _ _ _ _ hi2]
  | finish i n v hiL hpk hi =>
    subst hs
    have hi2 : i < e.ws.size := by rw [hw.ws]; exact hiL
    have hpk' : (e.ws.getD i {}).parked = true := hpk
    rw [toSt_instrAt] at hi
    refine Or.inr (Or.inl ⟨i, v, _, _, by simp only [finishStep, hiL, hpk', and_self, if_true, hi]; rfl, ?_, ?_⟩)
    · rfl
    · cases v <;> simp [toSt, fun_setIfInBounds _ _ _ _ hi2]
  | pushRet k a n r hk hi har =>
    subst hs
    have hk2 : k < e.ps.size := hk
    refine Or.inl ⟨.pushRet k (e.ps.getD k {}).held r,
      { e with ps := e.ps.setIfInBounds k (goto (e.ps.getD k {}) n),
               results := e.results ++ [((e.ps.getD k {}).held, r)] }, ?_, rfl, ?_⟩
    · apply mem_enabled_of_stepsOf (g := .p k) hk
      rw [mem_stepsOf_act hi]
      rcases har with ⟨rfl, rfl⟩ | ⟨rfl, rfl⟩ | ⟨rfl, rfl⟩ <;> simp only [actSteps, retSteps, List.mem_singleton] <;> rfl
    · simp [toSt, fun_setIfInBounds _ _ _ _ hk2]

/-! ### the history fields are ghost -/

/-- two states that differ in history fields only -/
def SameCore (e1 e2 : ESt) : Prop := erase e1 = erase e2

def er (x : ELabel × ESt) : ELabel × ESt := (x.1, erase x.2)

theorem sameCore_iff (e1 e2 : ESt) : SameCore e1 e2 ↔
    e1.cancelled = e2.cancelled ∧ e1.buf = e2.buf ∧ e1.cnt = e2.cnt ∧ e1.qs = e2.qs ∧ e1.ws = e2.ws ∧
    e1.ps = e2.ps ∧ e1.plane = e2.plane ∧ e1.lastPanic = e2.lastPanic := by
  cases e1; cases e2; simp [SameCore, erase]

theorem eget_same {e1 e2 : ESt} (h : SameCore e1 e2) (g : Gid) : eget e1 g = eget e2 g := by
  obtain ⟨-, -, -, hq, hw, hp, -, -⟩ := (sameCore_iff e1 e2).1 h
  cases g <;> simp [eget, hq, hw, hp]

theorem eset_same {e1 e2 : ESt} (h : SameCore e1 e2) (g : Gid) (x : G) : SameCore (eset e1 g x) (eset e2 g x) := by
  rw [sameCore_iff] at h ⊢
  obtain ⟨h1, h2, h3, hq, hw, hp, h4, h5⟩ := h
  cases g <;> simp [eset, *]

theorem elane_same {e1 e2 : ESt} (h : SameCore e1 e2) (g : Gid) : elane e1 g = elane e2 g := by
  obtain ⟨-, -, -, -, -, -, hpl, -⟩ := (sameCore_iff e1 e2).1 h
  cases g <;> simp [elane, hpl]

theorem echanOf_same {e1 e2 : ESt} (h : SameCore e1 e2) (g : Gid) (x : Ch) : echanOf e1 g x = echanOf e2 g x := by
  cases x <;> simp [echanOf, elane_same h]

theorem einstrAt_same {c : Cfg} {e1 e2 : ESt} (h : SameCore e1 e2) (g : Gid) : einstrAt c e1 g = einstrAt c e2 g := by
  simp [einstrAt, eget_same h]

theorem gids_same {c : Cfg} {e1 e2 : ESt} (h : SameCore e1 e2) : gids c e1 = gids c e2 := by
  obtain ⟨-, -, -, -, -, hp, -, -⟩ := (sameCore_iff e1 e2).1 h
  simp [gids, hp]

theorem localReadyB_same {c : Cfg} {e1 e2 : ESt} (h : SameCore e1 e2) (g : Gid) (k : Case) :
    localReadyB c e1 g k = localReadyB c e2 g k := by
  obtain ⟨hc, hb, -, -, -, -, -, -⟩ := (sameCore_iff e1 e2).1 h
  cases k with
  | done => simp [localReadyB, hc]
  | timeout => rfl
  | recv x => cases x <;> simp [localReadyB, hb, elane_same h]
  | send x => cases x <;> simp [localReadyB, hb, elane_same h]

theorem partners_same {c : Cfg} {e1 e2 : ESt} (h : SameCore e1 e2) (g : Gid) (k : Case) (ch : Ch × Nat) :
    partners c e1 g k ch = partners c e2 g k ch := by
  have : ∀ h', parkedTargets c e1 h' k ch = parkedTargets c e2 h' k ch := by
    intro h'
    have ho : onChan e1 h' k ch = onChan e2 h' k ch := by cases k <;> simp [onChan, echanOf_same h]
    simp [parkedTargets, eget_same h, einstrAt_same h, ho]
  simp [partners, gids_same h, this]

theorem readyB_same {c : Cfg} {e1 e2 : ESt} (h : SameCore e1 e2) (g : Gid) (k : Case) :
    readyB c e1 g k = readyB c e2 g k := by
  have : partnerReadyB c e1 g k = partnerReadyB c e2 g k := by
    cases k <;> simp [partnerReadyB, partners_same h, echanOf_same h]
  simp [readyB, localReadyB_same h, this]

theorem elocalEffect_same {e1 e2 : ESt} (h : SameCore e1 e2) (g : Gid) (k : Case) :
    SameCore (elocalEffect e1 g k) (elocalEffect e2 g k) := by
  have hh := (sameCore_iff e1 e2).1 h
  obtain ⟨h1, h2, h3, hq, hw, hp, h4, h5⟩ := hh
  cases k with
  | done => exact h
  | timeout => exact h
  | recv x =>
    cases x with
    | own => exact h
    | uni => exact h
    | buf =>
      simp only [elocalEffect]
      rw [eget_same h, elane_same h, h2]
      apply eset_same
      rw [sameCore_iff]; simp [*]
  | send x =>
    cases x with
    | own => exact h
    | uni => exact h
    | buf =>
      simp only [elocalEffect]
      rw [sameCore_iff]; simp [*, eget_same h, elane_same h]

theorem sameCore_refl (e : ESt) : SameCore e e := rfl

theorem er_eq {l : ELabel} {a b : ESt} (h : SameCore a b) : er (l, a) = er (l, b) := by
  simp only [er]; exact congrArg _ h

theorem eset2_same {a b : ESt} (h : SameCore a b) (g g' : Gid) (x y : G) (hxy : x = y) (th : Nat)
    (hd1 hd2 : Tid) (hhd : hd1 = hd2) :
    SameCore (eset (eset a g x) g' { goto (eget (eset a g x) g') th with held := hd1 })
      (eset (eset b g y) g' { goto (eget (eset b g y) g') th with held := hd2 }) := by
  subst hxy hhd
  have h2 := eset_same h g x
  rw [eget_same h2 g']
  exact eset_same h2 _ _

theorem result_same {e1 e2 : ESt} (h : SameCore e1 e2) (g g' : Gid) (x : Ch) (tg th : Nat) :
    SameCore (handoverResult e1 g g' x tg th) (handoverResult e2 g g' x tg th) ∧
    SameCore (takeoverResult e1 g g' x tg th) (takeoverResult e2 g g' x tg th) := by
  have acc : ∀ a1 a2, SameCore { e1 with accepted := a1 } { e2 with accepted := a2 } := by
    intro a1 a2
    have hh := (sameCore_iff e1 e2).1 h
    rw [sameCore_iff]; exact hh
  constructor
  · by_cases hx : x = .buf
    · simp only [handoverResult, hx, if_true]
      exact eset2_same (acc _ _) g g' _ _ (congrArg (fun z => goto z tg) (eget_same (acc _ _) g)) th _ _
        (congrArg G.held (eget_same h g))
    · simp only [handoverResult, hx, if_false]
      exact eset2_same h g g' _ _ (congrArg (fun z => goto z tg) (eget_same h g)) th _ _
        (congrArg G.held (eget_same h g))
  · by_cases hx : x = .buf
    · simp only [takeoverResult, hx, if_true]
      exact eset2_same (acc _ _) g' g _ _ (congrArg (fun z => goto z th) (eget_same (acc _ _) g')) tg _ _
        (congrArg G.held (eget_same h g'))
    · simp only [takeoverResult, hx, if_false]
      exact eset2_same h g' g _ _ (congrArg (fun z => goto z th) (eget_same h g')) tg _ _
        (congrArg G.held (eget_same h g'))

theorem rendezvous_same {c : Cfg} {e1 e2 : ESt} (h : SameCore e1 e2) (g : Gid) (kt : Case × Nat) :
    (rendezvous c e1 g kt).map er = (rendezvous c e2 g kt).map er := by
  obtain ⟨k, tg⟩ := kt
  cases k with
  | done => rfl
  | timeout => rfl
  | send x =>
    simp only [rendezvous, partners_same h, echanOf_same h]
    split
    · simp only [List.map_map]
      apply List.map_congr_left
      rintro ⟨g', th⟩ -
      exact er_eq (result_same h g g' x tg th).1
    · rfl
  | recv x =>
    simp only [rendezvous, partners_same h, echanOf_same h]
    split
    · simp only [List.map_map]
      apply List.map_congr_left
      rintro ⟨g', th⟩ -
      exact er_eq (result_same h g g' x tg th).2
    · rfl

theorem filterMap_congr' {α β} {f g : α → Option β} {l : List α} (h : ∀ x ∈ l, f x = g x) :
    l.filterMap f = l.filterMap g := by
  induction l with
  | nil => rfl
  | cons a t ih =>
    simp only [List.filterMap_cons, h a (List.mem_cons_self ..)]
    rw [ih (fun x hx => h x (List.mem_cons_of_mem _ hx))]

theorem flatMap_congr' {α β} {f g : α → List β} {l : List α} (h : ∀ x ∈ l, f x = g x) :
    l.flatMap f = l.flatMap g := by
  induction l with
  | nil => rfl
  | cons a t ih =>
    simp only [List.flatMap_cons, h a (List.mem_cons_self ..)]
    rw [ih (fun x hx => h x (List.mem_cons_of_mem _ hx))]

theorem selectSteps_same {c : Cfg} {e1 e2 : ESt} (h : SameCore e1 e2) (g : Gid)
    (cases : List (Case × Nat)) (dflt : Option Nat) :
    (selectSteps c e1 g cases dflt).map er = (selectSteps c e2 g cases dflt).map er := by
  simp only [selectSteps, List.map_append]
  congr 1
  · congr 1
    · simp only [List.map_filterMap]
      apply filterMap_congr'
      rintro ⟨k, target⟩ -
      simp only [localReadyB_same h g k]
      split
      · simp only [Option.map_some, Option.some.injEq]
        have h1 := elocalEffect_same h g k
        apply er_eq
        rw [eget_same h1 g]
        exact eset_same h1 _ _
      · rfl
    · simp only [List.map_flatMap]
      apply flatMap_congr'
      intro kt _
      exact rendezvous_same h g kt
  · have hr : (cases.all fun kt => !readyB c e1 g kt.1) = (cases.all fun kt => !readyB c e2 g kt.1) := by
      congr 1; funext kt; rw [readyB_same h]
    rw [eget_same h g, hr]
    split
    · cases dflt with
      | some d => exact congrArg (fun x => [x]) (er_eq (eset_same h _ _))
      | none => exact congrArg (fun x => [x]) (er_eq (eset_same h _ _))
    · rfl

theorem actSteps_same {e1 e2 : ESt} (h : SameCore e1 e2) (g : Gid) (a : Act) (n : Nat) :
    (actSteps e1 g a n).map er = (actSteps e2 g a n).map er := by
  have hh := (sameCore_iff e1 e2).1 h
  obtain ⟨h1, h2, h3, hq, hw, hp, h4, h5⟩ := hh
  have cntS : ∀ k1 k2, k1 = k2 → SameCore { e1 with cnt := k1 } { e2 with cnt := k2 } := by
    intro k1 k2 hk; rw [sameCore_iff]; simp [*]
  have ret : ∀ r, (retSteps e1 g n r).map er = (retSteps e2 g n r).map er := by
    intro r
    cases g with
    | q i => rfl
    | w i => rfl
    | p k =>
      simp only [retSteps, List.map_cons, List.map_nil, hp]
      refine congrArg (fun x => [x]) (er_eq ?_)
      rw [sameCore_iff]; simp [*]
  cases a with
  | incCnt =>
    simp only [actSteps, List.map_cons, List.map_nil]
    rw [eget_same h g]
    exact congrArg (fun x => [x]) (er_eq (eset_same (cntS _ _ (by rw [h3])) _ _))
  | decCnt =>
    simp only [actSteps, List.map_cons, List.map_nil]
    rw [eget_same h g]
    exact congrArg (fun x => [x]) (er_eq (eset_same (cntS _ _ (by rw [h3])) _ _))
  | run =>
    cases g with
    | q i => rfl
    | p k => rfl
    | w i =>
      simp only [actSteps, hw]
      split
      · simp only [List.map_cons, List.map_nil]
        refine congrArg (fun x => [x]) (er_eq ?_)
        rw [sameCore_iff]; simp [*]
      · rfl
  | retNil => exact ret _
  | retCtxErr => exact ret _
  | retTimeout => exact ret _

theorem stepsOf_same {c : Cfg} {e1 e2 : ESt} (h : SameCore e1 e2) (g : Gid) :
    (stepsOf c e1 g).map er = (stepsOf c e2 g).map er := by
  simp only [stepsOf, einstrAt_same h g]
  split
  · exact selectSteps_same h g _ _
  · exact actSteps_same h g _ _
  · rfl

/-- **The history fields are ghost**: erasing them before a step changes nothing but the history
    fields of the successor (so the acceptor may erase them after every step). -/
theorem enabledSteps_erase (c : Cfg) (e : ESt) :
    (enabledSteps c (erase e)).map er = (enabledSteps c e).map er := by
  have h : SameCore (erase e) e := rfl
  simp only [enabledSteps, List.map_append, List.map_flatMap, gids_same (c := c) h]
  congr 1
  · simp only [cancelSteps]
    show List.map er (if e.cancelled = false then _ else _) = _
    split <;> rfl
  · apply flatMap_congr'
    intro g _
    exact stepsOf_same h g

theorem stepsOf_erase (c : Cfg) (e : ESt) (g : Gid) :
    (stepsOf c (erase e) g).map er = (stepsOf c e g).map er :=
  stepsOf_same (e1 := erase e) (e2 := e) rfl g

theorem finishStep_erase (c : Cfg) (e : ESt) (i : Nat) (v : Option Nat) :
    (finishStep c (erase e) i v).map er = (finishStep c e i v).map er := by
  have h : SameCore (erase e) e := rfl
  simp only [finishStep, einstrAt_same (c := c) h (.w i)]
  show Option.map er (if i < c.L ∧ (e.ws.getD i {}).parked = true then _ else _) = _
  split
  · split
    · simp only [Option.map_some, Option.some.injEq]
      apply er_eq
      rw [sameCore_iff]; simp [erase]
    · rfl
  · rfl

theorem pushStep_erase (c : Cfg) (e : ESt) (t : Tid) (lane : Nat) :
    (pushStep c (erase e) t lane).map er = (pushStep c e t lane).map er := by
  simp only [pushStep]
  show Option.map er (if lane < c.L ∧ (e.ps.all fun x => x.held != t) = true then _ else _) = _
  split
  · simp only [Option.map_some, Option.some.injEq]
    exact er_eq (by rw [sameCore_iff]; simp [erase])
  · rfl

end Glb.TaskLane.Exec
