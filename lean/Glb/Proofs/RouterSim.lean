/-
  Helper lemmas for C04, part 4: the greedy walk of `findRoute` through a trie satisfying `TInv`
  simulates the candidate filtering of the route-list specification.

  Invariant of the simulation after the key path `ks` has been walked with captured values `V`:
  the current node is `descend t ks`, and the specification's candidate list is
  `candsAt S ks V` = the routes (in registration order) whose pattern keys have `ks` as a prefix,
  each with the rest of its pattern and its names zipped with `V`.
-/
import Glb.Proofs.RouterInv

namespace Glb.Router
open Glb.RouteList (Elem Route PName Cand pattern pnames stepLit stepParam stepStar)
open Glb.Generated (routeParam routeParamAny)

/-! ### list facts -/

theorem drop_cases {α} (es : List α) (n : Nat) :
    (es[n]? = none ∧ es.drop n = []) ∨ (∃ x, es[n]? = some x ∧ es.drop n = x :: es.drop (n + 1) ∧ es.take (n + 1) = es.take n ++ [x]) := by
  by_cases h : n < es.length
  · refine Or.inr ⟨es[n], by simp [h], ?_, ?_⟩
    · exact List.drop_eq_getElem_cons h
    · rw [List.take_add_one]; simp [h]
  · refine Or.inl ⟨by simp; omega, ?_⟩
    apply List.drop_eq_nil_of_le; omega

theorem prefix_snoc_iff {α} [DecidableEq α] {ks keys : List α} (k : α) (h : ks <+: keys) :
    ks ++ [k] <+: keys ↔ keys[ks.length]? = some k := by
  obtain ⟨r, rfl⟩ := h
  cases r with
  | nil =>
    simp only [List.append_nil, List.getElem?_eq_none (Nat.le_refl _), reduceCtorEq, iff_false]
    intro h
    have := h.length_le
    simp at this
    omega
  | cons a r =>
    simp only [List.prefix_append_right_inj, List.cons_prefix_cons, List.nil_prefix, and_true]
    simp [eq_comm]

theorem pnames_append (a b : List Elem) : pnames (a ++ b) = pnames a ++ pnames b := by
  induction a with
  | nil => rfl
  | cons x r ih => cases x <;> simp [pnames, ih]

/-- number of captured values along a key path -/
def captures (ks : List Bytes) : Nat := ks.countP (fun k => k = routeParam ∨ k = routeParamAny)

theorem captures_snoc (ks : List Bytes) (k : Bytes) :
    captures (ks ++ [k]) = captures ks + (if k = routeParam ∨ k = routeParamAny then 1 else 0) := by
  simp [captures, List.countP_append, List.countP_cons]

theorem pnames_length {es : List Elem} (hg : GoodElems es) : (pnames es).length = captures (keysOf es) := by
  induction es with
  | nil => rfl
  | cons x r ih =>
    have hr : GoodElems r := fun s hs => hg s (List.mem_cons_of_mem _ hs)
    have := ih hr
    cases x with
    | lit s =>
      have hs := slashfree_ne_reserved (hg s (by simp)).2
      simp [pnames, keysOf_cons, elemKey, captures, hs.1, hs.2] at this ⊢
      exact this
    | param n => simp [pnames, keysOf_cons, elemKey, captures] at this ⊢; exact this
    | star => simp [pnames, keysOf_cons, elemKey, captures] at this ⊢; exact this

theorem goodElems_take {es : List Elem} (hg : GoodElems es) (n : Nat) : GoodElems (es.take n) :=
  fun s hs => hg s (List.mem_of_mem_take hs)

theorem keysOf_take (es : List Elem) (n : Nat) : keysOf (es.take n) = (keysOf es).take n := by
  simp [keysOf, List.map_take]

/-- `*` only as the last element -/
def StarLast (es : List Elem) : Prop := ∀ n r, es.drop n = Elem.star :: r → r = []

theorem cutStar_starLast (l : List Elem) : StarLast (RouteList.cutStar l) := by
  induction l with
  | nil => intro n r h; simp [RouteList.cutStar] at h
  | cons x l ih =>
    intro n r h
    cases x with
    | star =>
      simp only [RouteList.cutStar] at h
      cases n with
      | zero => simp at h; exact h
      | succ n => simp at h
    | lit s =>
      simp only [RouteList.cutStar] at h
      cases n with
      | zero => simp at h
      | succ n => exact ih n r (by simpa using h)
    | param s =>
      simp only [RouteList.cutStar] at h
      cases n with
      | zero => simp at h
      | succ n => exact ih n r (by simpa using h)

theorem pattern_starLast (p : Bytes) : StarLast (pattern p) := cutStar_starLast _

/-! ### one route as a candidate -/

/-- the route `(i, m, es)` seen as a candidate after the key path `ks` with captured values `V` -/
def candE (i : Nat) (m : Bytes) (es : List Elem) (ks V : List Bytes) : Option Cand :=
  if ks <+: keysOf es then some ⟨i, m, es.drop ks.length, (pnames (es.take ks.length)).zip V⟩ else none

theorem candE_none {i m es ks V} (h : ¬ ks <+: keysOf es) : candE i m es ks V = none := by simp [candE, h]

theorem prefix_of_snoc {ks keys : List Bytes} {k : Bytes} (h : ks ++ [k] <+: keys) : ks <+: keys :=
  (List.prefix_append ks [k]).trans h

theorem take_length_of_prefix {es : List Elem} {ks : List Bytes} (hg : GoodElems es) (h : ks <+: keysOf es) :
    (pnames (es.take ks.length)).length = captures ks := by
  rw [pnames_length (goodElems_take hg _), keysOf_take, ← List.prefix_iff_eq_take.mp h]

theorem keysOf_getElem? (es : List Elem) (n : Nat) : (keysOf es)[n]? = es[n]?.map elemKey := by
  simp [keysOf]

theorem stepLit_candE {i m es ks V} (seg : Bytes) (hseg : (47 : UInt8) ∉ seg) :
    (candE i m es ks V).bind (stepLit seg) = candE i m es (ks ++ [seg]) V := by
  by_cases hp : ks <+: keysOf es
  · have hiff := prefix_snoc_iff seg hp
    rw [keysOf_getElem?] at hiff
    simp only [candE, hp, if_true, Option.bind_some]
    rcases drop_cases es ks.length with ⟨hn, hd⟩ | ⟨x, hx, hd, ht⟩
    · have : ¬ ks ++ [seg] <+: keysOf es := by rw [hiff, hn]; simp
      simp [stepLit, hd, this]
    · rw [hx] at hiff
      have hsr := slashfree_ne_reserved hseg
      cases x with
      | lit s =>
        by_cases hs : s = seg
        · subst hs
          have : ks ++ [s] <+: keysOf es := hiff.mpr rfl
          simp [stepLit, hd, this, ht, pnames_append, pnames]
        · have : ¬ ks ++ [seg] <+: keysOf es := by rw [hiff]; simp [elemKey, hs]
          simp [stepLit, hd, this, hs]
      | param n =>
        have : ¬ ks ++ [seg] <+: keysOf es := by rw [hiff]; simp [elemKey]; exact fun e => hsr.1 e.symm
        simp [stepLit, hd, this]
      | star =>
        have : ¬ ks ++ [seg] <+: keysOf es := by rw [hiff]; simp [elemKey]; exact fun e => hsr.2 e.symm
        simp [stepLit, hd, this]
  · have : ¬ ks ++ [seg] <+: keysOf es := fun h => hp (prefix_of_snoc h)
    simp [candE, hp, this]

theorem stepParam_candE {i m es ks V} (seg : Bytes) (hg : GoodElems es) (hV : V.length = captures ks) :
    (candE i m es ks V).bind (stepParam seg) = candE i m es (ks ++ [routeParam]) (V ++ [seg]) := by
  by_cases hp : ks <+: keysOf es
  · have hiff := prefix_snoc_iff routeParam hp
    rw [keysOf_getElem?] at hiff
    have hlen := take_length_of_prefix hg hp
    simp only [candE, hp, if_true, Option.bind_some]
    rcases drop_cases es ks.length with ⟨hn, hd⟩ | ⟨x, hx, hd, ht⟩
    · have : ¬ ks ++ [routeParam] <+: keysOf es := by rw [hiff, hn]; simp
      simp [stepParam, hd, this]
    · rw [hx] at hiff
      cases x with
      | lit s =>
        have hs := slashfree_ne_reserved (hg s (List.mem_of_getElem? hx)).2
        have : ¬ ks ++ [routeParam] <+: keysOf es := by rw [hiff]; simp [elemKey, hs.1]
        simp [stepParam, hd, this]
      | param n =>
        have : ks ++ [routeParam] <+: keysOf es := hiff.mpr rfl
        simp only [stepParam, hd, this, if_true, List.length_append, List.length_singleton, ht, pnames_append,
          pnames]
        rw [List.zip_append (by rw [hlen, hV])]
        simp
      | star =>
        have : ¬ ks ++ [routeParam] <+: keysOf es := by
          rw [hiff]; simp [elemKey]; exact fun e => Tie.Httpd.reserved_distinct e.symm
        simp [stepParam, hd, this]
  · have : ¬ ks ++ [routeParam] <+: keysOf es := fun h => hp (prefix_of_snoc h)
    simp [candE, hp, this]

theorem stepStar_candE {i m es ks V} (rest : Bytes) (hg : GoodElems es) (hsl : StarLast es)
    (hV : V.length = captures ks) :
    (candE i m es ks V).bind (stepStar rest) = candE i m es (ks ++ [routeParamAny]) (V ++ [rest]) := by
  by_cases hp : ks <+: keysOf es
  · have hiff := prefix_snoc_iff routeParamAny hp
    rw [keysOf_getElem?] at hiff
    have hlen := take_length_of_prefix hg hp
    simp only [candE, hp, if_true, Option.bind_some]
    rcases drop_cases es ks.length with ⟨hn, hd⟩ | ⟨x, hx, hd, ht⟩
    · have : ¬ ks ++ [routeParamAny] <+: keysOf es := by rw [hiff, hn]; simp
      simp [stepStar, hd, this]
    · rw [hx] at hiff
      cases x with
      | lit s =>
        have hs := slashfree_ne_reserved (hg s (List.mem_of_getElem? hx)).2
        have : ¬ ks ++ [routeParamAny] <+: keysOf es := by rw [hiff]; simp [elemKey, hs.2]
        simp [stepStar, hd, this]
      | param n =>
        have : ¬ ks ++ [routeParamAny] <+: keysOf es := by
          rw [hiff]; simp [elemKey]; exact Tie.Httpd.reserved_distinct
        simp [stepStar, hd, this]
      | star =>
        have : ks ++ [routeParamAny] <+: keysOf es := hiff.mpr rfl
        have hnil := hsl _ _ hd
        simp only [stepStar, hd, this, if_true, List.length_append, List.length_singleton, ht, pnames_append,
          pnames, hnil]
        rw [List.zip_append (by rw [hlen, hV])]
        simp
  · have : ¬ ks ++ [routeParamAny] <+: keysOf es := fun h => hp (prefix_of_snoc h)
    simp [candE, hp, this]

/-! ### the candidate list -/

def candOf (ks V : List Bytes) (e : Entry) : Option Cand :=
  candE e.1 e.2.method (pattern e.2.pattern) ks V

def candsAt (S : List Entry) (ks V : List Bytes) : List Cand := S.filterMap (candOf ks V)

theorem candsAt_stepLit (S : List Entry) (ks V : List Bytes) (seg : Bytes) (hseg : (47 : UInt8) ∉ seg) :
    (candsAt S ks V).filterMap (stepLit seg) = candsAt S (ks ++ [seg]) V := by
  unfold candsAt
  rw [List.filterMap_filterMap]
  congr 1
  funext e
  exact stepLit_candE seg hseg

theorem candsAt_stepParam (S : List Entry) (ks V : List Bytes) (seg : Bytes) (hV : V.length = captures ks) :
    (candsAt S ks V).filterMap (stepParam seg) = candsAt S (ks ++ [routeParam]) (V ++ [seg]) := by
  unfold candsAt
  rw [List.filterMap_filterMap]
  congr 1
  funext e
  exact stepParam_candE seg (pattern_good _) hV

theorem candsAt_stepStar (S : List Entry) (ks V : List Bytes) (rest : Bytes) (hV : V.length = captures ks) :
    (candsAt S ks V).filterMap (stepStar rest) = candsAt S (ks ++ [routeParamAny]) (V ++ [rest]) := by
  unfold candsAt
  rw [List.filterMap_filterMap]
  congr 1
  funext e
  exact stepStar_candE rest (pattern_good _) (pattern_starLast _) hV

theorem candsAt_eq_nil_iff (S : List Entry) (ks V : List Bytes) :
    candsAt S ks V = [] ↔ ¬ ∃ e ∈ S, ks <+: keysOf (pattern e.2.pattern) := by
  unfold candsAt
  rw [List.filterMap_eq_nil_iff]
  simp only [candOf, candE, not_exists, not_and]
  constructor
  · intro h e he hp; have := h e he; simp [hp] at this
  · intro h e he; simp [h e he]

/-- children of the node reached by `ks`, for keys that are not method tags -/
theorem TInv.child_iff {S t} (h : TInv S [] t) {ks : List Bytes} {node : Node} (hd : descend t ks = some node)
    (k : Bytes) (hk : ∀ m, (methodTag? m).isSome → k ≠ tagOf m) :
    (node.child k).isSome ↔ ∃ e ∈ S, ks ++ [k] <+: keysOf (pattern e.2.pattern) := by
  have hc : node.child k = descend t (ks ++ [k]) := by
    simp only [descend_append, hd, Option.bind_some, descend_cons]
    cases node.child k <;> simp
  rw [hc, h.ex]
  constructor
  · rintro (h0 | ⟨e, he, hp⟩ | ⟨p, hp, _⟩)
    · simp at h0
    · exact ⟨e, he, (prefix_snoc_of_ne (hk _ (h.known e he))).mp hp⟩
    · simp at hp
  · rintro ⟨e, he, hp⟩
    exact Or.inr (Or.inl ⟨e, he, hp.trans (List.prefix_append _ _)⟩)

theorem TInv.child_descend {t : Node} {ks : List Bytes} {node : Node} (hd : descend t ks = some node) (k : Bytes) :
    node.child k = descend t (ks ++ [k]) := by
  simp only [descend_append, hd, Option.bind_some, descend_cons]
  cases node.child k <;> simp

theorem slashfree_ne_tag {seg : Bytes} (hseg : (47 : UInt8) ∉ seg) (m : Bytes) (hm : (methodTag? m).isSome) :
    seg ≠ tagOf m := by
  cases h : methodTag? m with
  | none => simp [h] at hm
  | some k =>
    rw [tagOf_of_some h]
    intro e; subst e
    exact hseg (head_mem (tag_head h))

theorem pathKey_ne_tag {k : Bytes} (hk : PathKey k) (m : Bytes) : k ≠ tagOf m := by
  intro e; subst e; exact tagOf_not_pathKey m hk

/-- the walk of `findRoute` through the trie follows the candidate filtering of the specification -/
theorem walk_sim {S t} (h : TInv S [] t) (segs : List (Bytes × Bytes)) :
    ∀ (ks : List Bytes) (node : Node) (V : List Bytes), descend t ks = some node → V.length = captures ks →
      (∀ sg ∈ segs, (47 : UInt8) ∉ sg.1) →
      match walkT node segs V with
      | (some n', V') => ∃ ks', descend t ks' = some n' ∧
          RouteList.walk (candsAt S ks V) segs = candsAt S ks' V' ∧ V'.length = captures ks'
      | (none, _) => RouteList.walk (candsAt S ks V) segs = [] := by
  induction segs with
  | nil => intro ks node V hd hV _; exact ⟨ks, hd, rfl, hV⟩
  | cons sg more ih =>
    intro ks node V hd hV hsf
    obtain ⟨seg, rest⟩ := sg
    have hseg : (47 : UInt8) ∉ seg := hsf (seg, rest) (by simp)
    have hsf' : ∀ sg ∈ more, (47 : UInt8) ∉ sg.1 := fun sg hs => hsf sg (by simp [hs])
    have hsr := slashfree_ne_reserved hseg
    have hL := h.child_iff hd seg (slashfree_ne_tag hseg)
    have hP := h.child_iff hd routeParam (fun m _ => pathKey_ne_tag pathKey_routeParam m)
    have hA := h.child_iff hd routeParamAny (fun m _ => pathKey_ne_tag pathKey_routeParamAny m)
    simp only [RouteList.walk, walkT, candsAt_stepLit S ks V seg hseg, candsAt_stepParam S ks V seg hV,
      candsAt_stepStar S ks V rest hV, ne_eq, candsAt_eq_nil_iff, Classical.not_not]
    cases hc : node.child seg with
    | some res =>
      have hex := hL.mp (by simp [hc])
      simp only [hex, if_true]
      have hd' : descend t (ks ++ [seg]) = some res := by rw [← TInv.child_descend hd, hc]
      have hV' : V.length = captures (ks ++ [seg]) := by
        rw [captures_snoc]; simp [hsr.1, hsr.2, hV]
      exact ih _ res V hd' hV' hsf'
    | none =>
      have hex : ¬ ∃ e ∈ S, ks ++ [seg] <+: keysOf (pattern e.2.pattern) := fun hx => by
        have := hL.mpr hx; simp [hc] at this
      simp only [hex, if_false]
      cases hc2 : node.child routeParam with
      | some res =>
        have hex2 := hP.mp (by simp [hc2])
        simp only [hex2, if_true]
        have hd' : descend t (ks ++ [routeParam]) = some res := by rw [← TInv.child_descend hd, hc2]
        have hV' : (V ++ [seg]).length = captures (ks ++ [routeParam]) := by
          rw [captures_snoc]; simp [hV]
        exact ih _ res _ hd' hV' hsf'
      | none =>
        have hex2 : ¬ ∃ e ∈ S, ks ++ [routeParam] <+: keysOf (pattern e.2.pattern) := fun hx => by
          have := hP.mpr hx; simp [hc2] at this
        simp only [hex2, if_false]
        cases hc3 : node.child routeParamAny with
        | some res =>
          have hd' : descend t (ks ++ [routeParamAny]) = some res := by rw [← TInv.child_descend hd, hc3]
          have hV' : (V ++ [rest]).length = captures (ks ++ [routeParamAny]) := by
            rw [captures_snoc]; simp [hV]
          exact ⟨_, hd', rfl, hV'⟩
        | none =>
          have hex3 : ¬ ∃ e ∈ S, ks ++ [routeParamAny] <+: keysOf (pattern e.2.pattern) := fun hx => by
            have := hA.mpr hx; simp [hc3] at this
          exact (candsAt_eq_nil_iff _ _ _).mpr hex3

/-! ### method selection -/

/-- the first registered route with exactly the key path `ks` and the method `m` -/
def sel (S : List Entry) (ks : List Bytes) (m : Bytes) : Option Entry :=
  S.find? (fun e => keysOf (pattern e.2.pattern) = ks ∧ e.2.method = m)

theorem fullKeys_eq_iff {e : Entry} (he : (methodTag? e.2.method).isSome) (ks : List Bytes) (m : Bytes) :
    fullKeys e.2 = ks ++ [tagOf m] ↔ keysOf (pattern e.2.pattern) = ks ∧ e.2.method = m := by
  unfold fullKeys
  constructor
  · intro h
    have := List.append_inj' h rfl
    simp only [List.cons.injEq, and_true] at this
    exact ⟨this.1, tagOf_inj he this.2⟩
  · rintro ⟨rfl, rfl⟩; rfl

theorem find?_congr' {α} {p q : α → Bool} {l : List α} (h : ∀ x ∈ l, p x = q x) : l.find? p = l.find? q := by
  induction l with
  | nil => rfl
  | cons a l ih =>
    have ha := h a (by simp)
    have := ih (fun x hx => h x (by simp [hx]))
    simp [List.find?_cons, ha, this]

theorem TInv.lookupPay_tag {S P t} (h : TInv S P t) (ks : List Bytes) (m : Bytes) :
    lookupPay S (ks ++ [tagOf m]) = match sel S ks m with
      | some e => payOf e
      | none => (none, []) := by
  unfold lookupPay sel
  have : S.find? (fun e => decide (fullKeys e.2 = ks ++ [tagOf m])) =
      S.find? (fun e => decide (keysOf (pattern e.2.pattern) = ks ∧ e.2.method = m)) := by
    apply find?_congr'
    intro e he
    simp only [decide_eq_decide]
    exact fullKeys_eq_iff (h.known e he) ks m
  simp only [this]
  rfl

theorem TInv.child_tag {S t} (h : TInv S [] t) {ks : List Bytes} {n : Node} (hd : descend t ks = some n) (m : Bytes) :
    match sel S ks m with
    | some e => ∃ nn, n.child (tagOf m) = some nn ∧ Router.pay nn = payOf e
    | none => n.child (tagOf m) = none := by
  have hc := TInv.child_descend hd (tagOf m)
  have hex : (descend t (ks ++ [tagOf m])).isSome ↔ (sel S ks m).isSome := by
    rw [h.ex]
    unfold sel
    rw [List.find?_isSome]
    constructor
    · rintro (h0 | ⟨e, he, hp⟩ | ⟨p, hp, _⟩)
      · simp at h0
      · refine ⟨e, he, ?_⟩
        have := (prefix_snoc_tag (tagOf_not_pathKey m) (keysOf_pathKey (pattern_good e.2.pattern))).mp hp
        simp only [decide_eq_true_eq]
        exact ⟨this.1.symm, tagOf_inj (h.known e he) this.2.symm⟩
      · simp at hp
    · rintro ⟨e, he, hp⟩
      simp only [decide_eq_true_eq] at hp
      refine Or.inr (Or.inl ⟨e, he, ?_⟩)
      rw [(fullKeys_eq_iff (h.known e he) ks m).mpr hp]
      exact List.prefix_refl _
  have hpay := h.lookupPay_tag ks m
  cases hs : sel S ks m with
  | some e =>
    rw [hs] at hex hpay
    cases hdd : descend t (ks ++ [tagOf m]) with
    | none => simp [hdd] at hex
    | some nn =>
      refine ⟨nn, by rw [hc, hdd], ?_⟩
      rw [h.pay _ nn hdd, hpay]
  | none =>
    rw [hs] at hex
    rw [hc]
    cases hdd : descend t (ks ++ [tagOf m]) with
    | none => rfl
    | some nn => simp [hdd] at hex

theorem find_filter_filterMap {α β} (f : α → Option β) (p q : β → Bool) (l : List α) :
    ((l.filterMap f).filter p).find? q = (l.find? (fun a => (f a).any (fun c => p c && q c))).bind f := by
  induction l with
  | nil => rfl
  | cons a l ih =>
    cases hf : f a with
    | none => simp [hf, ih]
    | some c =>
      by_cases hp : p c <;> by_cases hq : q c <;> simp [hf, hp, hq, ih]

theorem candOf_exhausted (ks V : List Bytes) (m : Bytes) (e : Entry) :
    ((candOf ks V e).any (fun c => decide (c.rest = []) && decide (c.method = m))) =
      decide (keysOf (pattern e.2.pattern) = ks ∧ e.2.method = m) := by
  unfold candOf candE
  by_cases hp : ks <+: keysOf (pattern e.2.pattern)
  · simp only [hp, if_true, Option.any_some]
    rw [Bool.eq_iff_iff]
    simp only [Bool.and_eq_true, decide_eq_true_eq]
    constructor
    · rintro ⟨hl, hm⟩
      refine ⟨(hp.eq_of_length ?_).symm, hm⟩
      have h1 := hp.length_le
      have h2 := List.drop_eq_nil_iff.mp hl
      simp only [keysOf, List.length_map] at h1 ⊢
      omega
    · rintro ⟨hk, hm⟩
      exact ⟨by rw [← hk]; simp [keysOf], hm⟩
  · have : ¬ keysOf (pattern e.2.pattern) = ks := fun e' => hp (e' ▸ List.prefix_refl _)
    simp [hp, this]

theorem candOf_of_keys {ks V : List Bytes} {e : Entry} (hk : keysOf (pattern e.2.pattern) = ks) :
    candOf ks V e = some ⟨e.1, e.2.method, [], (pnames (pattern e.2.pattern)).zip V⟩ := by
  unfold candOf candE
  have hl : ks.length = (pattern e.2.pattern).length := by rw [← hk]; simp [keysOf]
  simp [hk, hl]

theorem spec_pick_exact (S : List Entry) (ks V : List Bytes) (m : Bytes) :
    ((candsAt S ks V).filter (fun c => c.rest = [])).find? (fun c => c.method = m) =
      (sel S ks m).map (fun e => ⟨e.1, e.2.method, [], (pnames (pattern e.2.pattern)).zip V⟩) := by
  unfold candsAt
  rw [find_filter_filterMap]
  have : (fun a => (candOf ks V a).any (fun c => decide (c.rest = []) && decide (c.method = m))) =
      (fun e : Entry => decide (keysOf (pattern e.2.pattern) = ks ∧ e.2.method = m)) := by
    funext e; exact candOf_exhausted ks V m e
  rw [this]
  unfold sel
  cases hf : S.find? (fun e => decide (keysOf (pattern e.2.pattern) = ks ∧ e.2.method = m)) with
  | none => rfl
  | some e =>
    have hp := List.find?_some hf
    simp only [decide_eq_true_eq] at hp
    simp [candOf_of_keys hp.1]

/-- the final method choice: exact method, else `*` -/
theorem finish_sim {S t} (h : TInv S [] t) {ks : List Bytes} {n : Node} {V : List Bytes}
    (hd : descend t ks = some n) (hV : V.length = captures ks) (m : Bytes) :
    match RouteList.pickMethod (candsAt S ks V) m with
    | some c => ∃ nn, methodNodeOrNil n m = some nn ∧ nn.info = some c.id ∧
        nn.params = c.binds.map (fun b => nameKey b.1) ∧ V = c.binds.map (fun b => b.2)
    | none => methodNodeOrNil n m = none := by
  have key : ∀ (e : Entry) (nn : Node), keysOf (pattern e.2.pattern) = ks → pay nn = payOf e →
      nn.info = some e.1 ∧
      nn.params = ((pnames (pattern e.2.pattern)).zip V).map (fun b => nameKey b.1) ∧
      V = ((pnames (pattern e.2.pattern)).zip V).map (fun b => b.2) := by
    intro e nn hk hp
    have hlen : (pnames (pattern e.2.pattern)).length = V.length := by
      rw [pnames_length (pattern_good _), hk, hV]
    simp only [Router.pay, payOf, Prod.mk.injEq] at hp
    refine ⟨hp.1, ?_, ?_⟩
    · rw [hp.2, namesOf]
      have : ((pnames (pattern e.2.pattern)).zip V).map (fun b => nameKey b.1) =
          (((pnames (pattern e.2.pattern)).zip V).map Prod.fst).map nameKey := by simp
      rw [this, List.map_fst_zip (by omega)]
    · have : ((pnames (pattern e.2.pattern)).zip V).map (fun b => b.2) =
          ((pnames (pattern e.2.pattern)).zip V).map Prod.snd := rfl
      rw [this, List.map_snd_zip (by omega)]
  have h1 := h.child_tag hd m
  have h2 := h.child_tag hd Generated.methodAll
  unfold RouteList.pickMethod methodNodeOrNil
  simp only [spec_pick_exact]
  rw [← Tie.Httpd.methodAll_star]
  cases hs : sel S ks m with
  | some e =>
    rw [hs] at h1
    obtain ⟨nn, hc, hp⟩ := h1
    have hk := List.find?_some hs
    simp only [decide_eq_true_eq] at hk
    simp only [Option.map_some, hc]
    exact ⟨nn, rfl, key e nn hk.1 hp⟩
  | none =>
    rw [hs] at h1
    simp only [Option.map_none, h1]
    cases hs2 : sel S ks Generated.methodAll with
    | some e =>
      rw [hs2] at h2
      obtain ⟨nn, hc, hp⟩ := h2
      have hk := List.find?_some hs2
      simp only [decide_eq_true_eq] at hk
      simp only [Option.map_some, hc]
      exact ⟨nn, rfl, key e nn hk.1 hp⟩
    | none =>
      rw [hs2] at h2
      simp only [Option.map_none, h2]

end Glb.Router
