/-
  Glb.Proofs.RendererInst — the three byte-exact handler models (JsonHandler / TextHandler /
  NanoHandler) as instances of C03's abstract `Derive.Renderer`, and the lemmas behind the
  handler-boundary laws of Props/C03b.lean.

  For each model `M`:
    * rendering is parametric in the buffer (`…_buf`: what is appended does not depend on what is
      already there) and a fold over the attribute list (`…_append`);
    * `M.handle = header ++ pre ++ (record attributes in the handler's shape) ++ closers`
      (`…_handle_eq`), where `header` does not read the attributes;
    * `XSound R`: what it means for an abstract `Renderer` to render like `M`, whatever its chunking
      (the real code appends a rendering piecewise; any chunking with the same concatenation is
      sound); `xR` is the one-chunk instance and `xR_sound` shows the interface is inhabited;
    * `…_renderChain`: the alias-free reference `Derive.renderChain` of C03 *is* the pure model state
      `M.deriveAll init chain`; `…_lineOf`: C03's `lineOf` *is* `M.handle`.
-/
import Glb.Model.NanoHandler
import Glb.Model.JsonHandler
import Glb.Proofs.TextHandler
import Glb.Proofs.DeriveSlices

namespace Glb.RendererInst
open Glb Glb.Derive

/-! ## JSON -/
section Json
open JsonHandler

/-- bytes the attribute loop appends, started with separator flag `sep` -/
def jBytes (as : List Attr) (sep : Bool) : Bytes := (attrLoop [] as sep false).1
/-- separator flag after the loop -/
def jSep (as : List Attr) (sep : Bool) : Bool := (attrLoop [] as sep false).2.1
/-- "wrote a member" -/
def jWrote (as : List Attr) (sep : Bool) : Bool := (attrLoop [] as sep false).2.2

mutual
theorem jAttr_buf : ∀ (a : Attr) (buf : Bytes) (sep : Bool),
    appendJsonAttr buf a sep = (buf ++ (appendJsonAttr [] a sep).1, (appendJsonAttr [] a sep).2)
  | .leaf k v, buf, sep => by cases sep <;> simp [appendJsonAttr]
  | .group k as, buf, sep => by
    by_cases hk : k.isEmpty = true
    · have e := jLoop_buf as buf sep false false
      simp only [appendJsonAttr, hk, if_true]
      rw [e]
      simp
    · cases sep
      · have e1 := jLoop_buf as (buf ++ 0x22 :: appendJsonString k ++ [0x22, 0x3A, 0x7B]) false false false
        have e2 := jLoop_buf as ([] ++ 0x22 :: appendJsonString k ++ [0x22, 0x3A, 0x7B]) false false false
        simp only [appendJsonAttr, hk, if_false, Bool.false_eq_true]
        rw [e1, e2]
        simp
      · have e1 := jLoop_buf as (buf ++ [0x2C] ++ 0x22 :: appendJsonString k ++ [0x22, 0x3A, 0x7B]) false false false
        have e2 := jLoop_buf as ([] ++ [0x2C] ++ 0x22 :: appendJsonString k ++ [0x22, 0x3A, 0x7B]) false false false
        simp only [appendJsonAttr, hk, if_true]
        rw [e1, e2]
        simp
/-- the loop for an arbitrary start state in terms of the loop started on the empty buffer with
    `wrote = false` -/
theorem jLoop_buf : ∀ (as : List Attr) (buf : Bytes) (sep w w0 : Bool),
    attrLoop buf as sep w =
      (buf ++ (attrLoop [] as sep w0).1, (attrLoop [] as sep w0).2.1,
        if (attrLoop [] as sep false).2.2 then true else w)
  | [], buf, sep, w, w0 => by simp [attrLoop]
  | a :: as, buf, sep, w, w0 => by
    have ea := jAttr_buf a buf sep
    rw [attrLoop, ea]
    simp only []
    rw [attrLoop, attrLoop]
    cases hw : (appendJsonAttr [] a sep).2
    · have e1 := jLoop_buf as (buf ++ (appendJsonAttr [] a sep).1) sep w w0
      have e2 := jLoop_buf as (appendJsonAttr [] a sep).1 sep w0 w0
      have e3 := jLoop_buf as (appendJsonAttr [] a sep).1 sep false w0
      simp only [Bool.false_eq_true, if_false]
      rw [e1, e2, e3]
      simp
    · have e1 := jLoop_buf as (buf ++ (appendJsonAttr [] a sep).1) true true w0
      have e2 := jLoop_buf as (appendJsonAttr [] a sep).1 true true w0
      simp only [if_true]
      rw [e1, e2]
      simp
end

theorem jLoop_eq (as : List Attr) (buf : Bytes) (sep w : Bool) :
    attrLoop buf as sep w = (buf ++ jBytes as sep, jSep as sep, w || jWrote as sep) := by
  rw [jLoop_buf as buf sep w false]
  simp only [jBytes, jSep, jWrote]
  cases (attrLoop [] as sep false).2.2 <;> cases w <;> rfl

theorem jAttr_eq (a : Attr) (buf : Bytes) (sep : Bool) :
    appendJsonAttr buf a sep = (buf ++ (appendJsonAttr [] a sep).1, (appendJsonAttr [] a sep).2) :=
  jAttr_buf a buf sep

theorem jBytes_nil (sep : Bool) : jBytes [] sep = [] := rfl
theorem jSep_nil (sep : Bool) : jSep [] sep = sep := rfl

theorem jBytes_cons (a : Attr) (as : List Attr) (sep : Bool) :
    jBytes (a :: as) sep =
      (appendJsonAttr [] a sep).1 ++ jBytes as (sep || (appendJsonAttr [] a sep).2) := by
  unfold jBytes
  rw [attrLoop]
  cases hw : (appendJsonAttr [] a sep).2
  · simp only [Bool.false_eq_true, if_false, Bool.or_false]
    rw [jLoop_eq]
    rfl
  · simp only [if_true, Bool.or_true]
    rw [jLoop_eq]
    simp [jBytes]

theorem jSep_cons (a : Attr) (as : List Attr) (sep : Bool) :
    jSep (a :: as) sep = jSep as (sep || (appendJsonAttr [] a sep).2) := by
  unfold jSep
  rw [attrLoop]
  cases hw : (appendJsonAttr [] a sep).2
  · simp only [Bool.false_eq_true, if_false, Bool.or_false]
    rw [jLoop_eq]
    rfl
  · simp only [if_true, Bool.or_true]
    rw [jLoop_eq]
    simp [jSep]

/-- the loop is a fold: the second list starts where the first one stopped -/
theorem jBytes_append (as bs : List Attr) : ∀ sep,
    jBytes (as ++ bs) sep = jBytes as sep ++ jBytes bs (jSep as sep) ∧
    jSep (as ++ bs) sep = jSep bs (jSep as sep) := by
  induction as with
  | nil => intro sep; simp [jBytes_nil, jSep_nil]
  | cons a as ih =>
    intro sep
    obtain ⟨h1, h2⟩ := ih (sep || (appendJsonAttr [] a sep).2)
    simp only [List.cons_append, jBytes_cons, jSep_cons, h1, h2, List.append_assoc, and_self]

/-- `Handle` up to and including `"msg":"…"` (does not read the attributes) -/
def jsonHeader (addSource : Bool) (r : Rec) : Except GoPanic Bytes := do
  let lvl ← fullLevel r.level
  let buf : Bytes := 0x7B :: 0x22 :: kTime ++ [0x22, 0x3A, 0x22] ++ r.time
  let buf := buf ++ [0x22, 0x2C, 0x22] ++ kLevel ++ [0x22, 0x3A, 0x22] ++ lvl ++ [0x22]
  let buf := if addSource then
      buf ++ [0x2C, 0x22] ++ kSource ++ [0x22, 0x3A, 0x7B] ++ appendJsonSource r.file r.line ++ [0x7D]
    else buf
  return buf ++ [0x2C, 0x22] ++ kMsg ++ [0x22, 0x3A, 0x22] ++ appendJsonString r.msg ++ [0x22]

/-- everything after the header -/
def jsonTail (h : H) (attrs : List Attr) : Bytes :=
  h.pre ++ jBytes attrs h.addSep ++ (List.replicate h.nOpenGroups 0x7D ++ [0x7D, 0x0A])

theorem json_handle_eq (addSource : Bool) (h : H) (r : Rec) :
    handle addSource h r = (jsonHeader addSource r).map (fun hd => hd ++ jsonTail h r.attrs) := by
  unfold handle jsonHeader jsonTail
  cases fullLevel r.level with
  | error e => rfl
  | ok lvl =>
    simp only [bind, Except.bind, pure, Except.pure, Except.map]
    rw [jLoop_eq]
    simp

theorem jsonHeader_attrs (addSource : Bool) (r : Rec) (as : List Attr) :
    jsonHeader addSource { r with attrs := as } = jsonHeader addSource r := rfl

theorem json_withAttrs_eq (h : H) (as : List Attr) :
    withAttrs h as = { h with pre := h.pre ++ jBytes as h.addSep, addSep := jSep as h.addSep } := by
  simp [withAttrs, jLoop_eq]

/-- the chunk `JsonHandler.WithGroup` appends -/
def jsonGroupOpen (sep : Bool) (name : Bytes) : Bytes :=
  (if sep then [0x2C, 0x22] else [0x22]) ++ appendJsonString name ++ [0x22, 0x3A, 0x7B]

theorem json_withGroup_eq (h : H) (g : Bytes) :
    withGroup h g = { pre := h.pre ++ jsonGroupOpen h.addSep g, nOpenGroups := h.nOpenGroups + 1,
                      addSep := false } := by
  cases hs : h.addSep <;> simp [withGroup, jsonGroupOpen, hs]

theorem jBytes_group (g : Bytes) (as : List Attr) (sep : Bool) (hg : g ≠ []) :
    jBytes [.group g as] sep = jsonGroupOpen sep g ++ jBytes as false ++ [0x7D] ∧
    jSep [.group g as] sep = true := by
  have hk : g.isEmpty = false := by cases g <;> simp_all
  have e : ∀ buf, (attrLoop buf as false false).1 = buf ++ jBytes as false := by
    intro buf; rw [jLoop_eq]
  cases sep <;>
    simp [jBytes_cons, jSep_cons, jBytes_nil, jSep_nil, appendJsonAttr, hk, jsonGroupOpen, e]

/-! ### attributes that render to nothing -/
mutual
/-- an inline group (empty key) all of whose members are hollow; in particular `Group("")` -/
def hollow : Attr → Bool
  | .leaf _ _ => false
  | .group k as => k.isEmpty && hollowL as
def hollowL : List Attr → Bool
  | [] => true
  | a :: as => hollow a && hollowL as
end

mutual
theorem hollow_attr : ∀ (a : Attr), hollow a = true → ∀ (buf : Bytes) (sep : Bool),
    appendJsonAttr buf a sep = (buf, false)
  | .leaf _ _, h, _, _ => by simp [hollow] at h
  | .group k as, h, buf, sep => by
    simp only [hollow, Bool.and_eq_true] at h
    have := hollow_loop as h.2 buf sep false
    simp [appendJsonAttr, h.1, this]
theorem hollow_loop : ∀ (as : List Attr), hollowL as = true → ∀ (buf : Bytes) (sep w : Bool),
    attrLoop buf as sep w = (buf, sep, w)
  | [], _, _, _, _ => by simp [attrLoop]
  | a :: as, h, buf, sep, w => by
    simp only [hollowL, Bool.and_eq_true] at h
    rw [attrLoop, hollow_attr a h.1 buf sep]
    simp only [Bool.false_eq_true, if_false]
    exact hollow_loop as h.2 buf sep w
end

/-! ### the pinned separator logic as a handler -/

/-- pinned `WithAttrs` on the state `(preformatted, addSep)`: `addSep = true` after every attribute -/
def pinnedWith (st : Bytes × Bool) (as : List Attr) : Bytes × Bool :=
  if as.isEmpty then st else (Pinned.attrLoop st.1 as st.2, true)

theorem pinned_loop_append (as bs : List Attr) : ∀ (buf : Bytes) (sep : Bool),
    Pinned.attrLoop buf (as ++ bs) sep =
      Pinned.attrLoop (Pinned.attrLoop buf as sep) bs (if as.isEmpty then sep else true) := by
  induction as with
  | nil => intro buf sep; simp [Pinned.attrLoop]
  | cons a as ih =>
    intro buf sep
    simp only [List.cons_append, Pinned.attrLoop, ih]
    cases as <;> simp

/-! ### instance of the abstract renderer -/

/-- an abstract renderer renders JSON shapes like the byte-exact model (any chunking) -/
structure JsonSound (R : Renderer Attr) : Prop where
  attr : ∀ (n : Nat) (s : Bool) (a : Attr),
    (R.attr (.json n s) a).1.flatten = (appendJsonAttr [] a s).1 ∧
    (R.attr (.json n s) a).2 = (appendJsonAttr [] a s).2
  group : ∀ (s : Bool) (name : Bytes), (R.groupOpen s name).flatten = jsonGroupOpen s name

/-- the one-chunk instance -/
def jsonR : Renderer Attr where
  attr := fun sh a =>
    match sh with
    | .json _ s => ([(appendJsonAttr [] a s).1], (appendJsonAttr [] a s).2)
    | _ => ([], false)
  groupOpen := fun s name => [jsonGroupOpen s name]

theorem jsonR_sound : JsonSound jsonR := ⟨fun _ _ _ => by simp [jsonR], fun _ _ => by simp [jsonR]⟩

def jsonView (h : H) : PView := ⟨h.pre, .json h.nOpenGroups h.addSep⟩

def jsonOp : DOp Attr → Deriv
  | .withAttrs as => .attrs as
  | .withGroup g => .group g

theorem json_attrsChunks (R : Renderer Attr) (hR : JsonSound R) (n : Nat) (as : List Attr) :
    ∀ s, (attrsChunks R (.json n s) as).1.flatten = jBytes as s ∧
         (attrsChunks R (.json n s) as).2 = .json n (jSep as s) := by
  induction as with
  | nil => intro s; simp [attrsChunks, jBytes_nil, jSep_nil]
  | cons a as ih =>
    intro s
    obtain ⟨h1, h2⟩ := hR.attr n s a
    obtain ⟨i1, i2⟩ := ih (s || (appendJsonAttr [] a s).2)
    simp only [attrsChunks, Shape.afterAttr, List.flatten_append, h1, h2, i1, i2, jBytes_cons,
      jSep_cons, and_self]

theorem json_pureStep (R : Renderer Attr) (hR : JsonSound R) (h : H) (op : DOp Attr) :
    pureStep R (jsonView h) op = jsonView (JsonHandler.derive h (jsonOp op)) := by
  cases op with
  | withAttrs as =>
    obtain ⟨h1, h2⟩ := json_attrsChunks R hR h.nOpenGroups as h.addSep
    simp [pureStep, jsonView, jsonOp, JsonHandler.derive, json_withAttrs_eq, h1, h2]
  | withGroup g =>
    simp [pureStep, jsonView, jsonOp, JsonHandler.derive, json_withGroup_eq, hR.group]

theorem json_foldl (R : Renderer Attr) (hR : JsonSound R) (chain : List (DOp Attr)) :
    ∀ h : H, chain.foldl (pureStep R) (jsonView h) = jsonView (deriveAll h (chain.map jsonOp)) := by
  induction chain with
  | nil => intro h; rfl
  | cons op rest ih =>
    intro h
    simp only [List.foldl_cons, List.map_cons, deriveAll]
    rw [json_pureStep R hR, ih]
    rfl

/-- C03's alias-free reference is the pure JSON model state -/
theorem json_renderChain (R : Renderer Attr) (hR : JsonSound R) (chain : List (DOp Attr)) :
    renderChain R .json chain = jsonView (deriveAll H.init (chain.map jsonOp)) :=
  json_foldl R hR chain H.init

/-- C03's `lineOf` is `JsonHandler.handle` -/
theorem json_lineOf (R : Renderer Attr) (hR : JsonSound R) (addSource : Bool) (h : H) (r : Rec)
    (hd : Bytes) (hh : jsonHeader addSource r = .ok hd) :
    handle addSource h r = .ok (lineOf R (jsonView h).pre (jsonView h).shape hd r.attrs) := by
  rw [json_handle_eq, hh]
  obtain ⟨h1, _⟩ := json_attrsChunks R hR h.nOpenGroups r.attrs h.addSep
  simp [Except.map, lineOf, jsonView, jsonTail, h1, closers]

end Json

/-! ## Text -/
section Text
open TextHandler TextProofs TextExpected

theorem dotted_one (gp : Bytes) : dotted [gp] = gp := by simp [dotted, dot]

/-- what the attribute loop appends under group prefix `gp` -/
def tBytes (P : Std) (gp : Bytes) (as : List Attr) : Bytes := appendAttrs P [] gp as

theorem tAttr_buf (P : Std) (gp : Bytes) (a : Attr) (buf : Bytes) :
    (appendTextAttr P buf gp a).1 = buf ++ (appendTextAttr P [] gp a).1 := by
  obtain ⟨t1, h1⟩ := attr_render P a buf [gp]
  obtain ⟨t2, h2⟩ := attr_render P a [] [gp]
  rw [dotted_one] at h1 h2
  rw [h1, h2]
  simp

theorem tLoop_buf (P : Std) (gp : Bytes) (as : List Attr) (buf : Bytes) :
    appendAttrs P buf gp as = buf ++ tBytes P gp as := by
  have h1 := appendAttrs_render P [gp] as buf
  have h2 := appendAttrs_render P [gp] as []
  rw [dotted_one] at h1 h2
  rw [tBytes, h1, h2]
  simp

theorem tBytes_cons (P : Std) (gp : Bytes) (a : Attr) (as : List Attr) :
    tBytes P gp (a :: as) = (appendTextAttr P [] gp a).1 ++ tBytes P gp as := by
  simp only [tBytes, appendAttrs]
  rw [tLoop_buf]
  rfl

theorem tBytes_append (P : Std) (gp : Bytes) (as bs : List Attr) :
    tBytes P gp (as ++ bs) = tBytes P gp as ++ tBytes P gp bs := by
  induction as with
  | nil => simp [tBytes, appendAttrs]
  | cons a as ih => simp [tBytes_cons, ih]

/-- `Handle` up to and including `msg=…` -/
def textHeader (P : Std) (addSource : Bool) (r : Record) : Except GoPanic Bytes := do
  let buf : Bytes := []
  let buf := buf ++ timeKey ++ [0x3d] ++ r.time
  let buf := buf ++ [0x20] ++ levelKey ++ [0x3d]
  let lab ← fullLevel r.level
  let buf := buf ++ lab
  let buf := if addSource then appendTextString P (buf ++ [0x20] ++ sourceKey ++ [0x3d]) (sourceText r) else buf
  pure (appendTextString P (buf ++ [0x20] ++ msgKey ++ [0x3d]) r.msg)

theorem text_handle_eq (P : Std) (addSource : Bool) (h : TextHandler.Handler) (r : Record) :
    handle P addSource h r =
      (textHeader P addSource r).map
        (fun hd => hd ++ h.pre ++ tBytes P h.groupPrefix r.attrs ++ [0x0a]) := by
  unfold handle textHeader
  cases fullLevel r.level with
  | error e => rfl
  | ok lab =>
    simp only [bind, Except.bind, pure, Except.pure, Except.map]
    have e1 : ∀ (b : Bytes) (l : List Attr),
        (if l.length > 0 then appendAttrs P b h.groupPrefix l else b) = b ++ tBytes P h.groupPrefix l := by
      intro b l
      cases l with
      | nil => simp [tBytes, appendAttrs]
      | cons a l => simp [tLoop_buf]
    have e2 : ∀ (b x : Bytes), (if x.length > 0 then b ++ x else b) = b ++ x := by
      intro b x; cases x <;> simp
    rw [e1, e2]

theorem textHeader_attrs (P : Std) (addSource : Bool) (r : Record) (as : List Attr) :
    textHeader P addSource { r with attrs := as } = textHeader P addSource r := rfl

theorem text_withAttrs_eq (P : Std) (h : TextHandler.Handler) (as : List Attr) :
    withAttrs P h as = { h with pre := h.pre ++ tBytes P h.groupPrefix as } := by
  cases as with
  | nil => simp [withAttrs, tBytes, appendAttrs]
  | cons a as => simp [withAttrs, tLoop_buf]

theorem joinPrefix_dot (p g : Bytes) : joinPrefix p g = dot p g := by
  cases p <;> simp [joinPrefix, dot]

theorem text_withGroup_eq (h : TextHandler.Handler) (g : Bytes) :
    withGroup h g = { h with groupPrefix := joinPrefix h.groupPrefix g } := by
  rw [withGroup_dot, joinPrefix_dot]

/-- a keyed group renders like its members under the extended prefix -/
theorem tBytes_group (P : Std) (gp g : Bytes) (as : List Attr) (hg : g ≠ []) :
    tBytes P gp [.group g as] = tBytes P (joinPrefix gp g) as := by
  have hk : g.isEmpty = false := by cases g <;> simp_all
  have h1 := appendAttrs_render P [gp] [.group g as] []
  have h2 := appendAttrs_render P [gp, g] as []
  have e : dotted [gp, g] = joinPrefix gp g := by
    rw [joinPrefix_dot]; simp [dotted, dot]
  rw [dotted_one] at h1
  rw [e] at h2
  rw [tBytes, tBytes, h1, h2]
  simp [flatAttrs, flatAttr, hk]

/-- an inline group renders like its members -/
theorem tBytes_inline (P : Std) (gp : Bytes) (as : List Attr) :
    tBytes P gp [.group [] as] = tBytes P gp as := by
  have h1 := appendAttrs_render P [gp] [.group [] as] []
  have h2 := appendAttrs_render P [gp] as []
  rw [dotted_one] at h1 h2
  rw [tBytes, tBytes, h1, h2]
  simp [flatAttrs, flatAttr]

structure TextSound (P : Std) (R : Renderer Attr) : Prop where
  attr : ∀ (gp : Bytes) (a : Attr), (R.attr (.text gp) a).1.flatten = (appendTextAttr P [] gp a).1

def textR (P : Std) : Renderer Attr where
  attr := fun sh a =>
    match sh with
    | .text gp => ([(appendTextAttr P [] gp a).1], true)
    | _ => ([], false)
  groupOpen := fun _ _ => []

theorem textR_sound (P : Std) : TextSound P (textR P) := ⟨fun _ _ => by simp [textR]⟩

def textView (h : TextHandler.Handler) : PView := ⟨h.pre, .text h.groupPrefix⟩

def textOp : DOp Attr → Op
  | .withAttrs as => .withAttrs as
  | .withGroup g => .withGroup g

theorem text_attrsChunks (P : Std) (R : Renderer Attr) (hR : TextSound P R) (gp : Bytes) (as : List Attr) :
    (attrsChunks R (.text gp) as).1.flatten = tBytes P gp as ∧
    (attrsChunks R (.text gp) as).2 = .text gp := by
  induction as with
  | nil => simp [attrsChunks, tBytes, appendAttrs]
  | cons a as ih =>
    obtain ⟨i1, i2⟩ := ih
    simp only [attrsChunks, Shape.afterAttr, List.flatten_append, hR.attr, i1, i2, tBytes_cons, and_self]

theorem text_pureStep (P : Std) (R : Renderer Attr) (hR : TextSound P R) (h : TextHandler.Handler) (op : DOp Attr) :
    pureStep R (textView h) op = textView (applyOp P h (textOp op)) := by
  cases op with
  | withAttrs as =>
    obtain ⟨h1, h2⟩ := text_attrsChunks P R hR h.groupPrefix as
    simp [pureStep, textView, textOp, applyOp, text_withAttrs_eq, h1, h2]
  | withGroup g =>
    simp [pureStep, textView, textOp, applyOp, text_withGroup_eq]

theorem text_foldl (P : Std) (R : Renderer Attr) (hR : TextSound P R) (chain : List (DOp Attr)) :
    ∀ h : TextHandler.Handler, chain.foldl (pureStep R) (textView h) =
      textView ((chain.map textOp).foldl (applyOp P) h) := by
  induction chain with
  | nil => intro h; rfl
  | cons op rest ih =>
    intro h
    simp only [List.foldl_cons, List.map_cons]
    rw [text_pureStep P R hR, ih]

/-- C03's alias-free reference is the pure Text model state -/
theorem text_renderChain (P : Std) (R : Renderer Attr) (hR : TextSound P R) (chain : List (DOp Attr)) :
    renderChain R .text chain = textView (TextHandler.derive P (chain.map textOp)) :=
  text_foldl P R hR chain {}

theorem text_lineOf (P : Std) (R : Renderer Attr) (hR : TextSound P R) (addSource : Bool) (h : TextHandler.Handler)
    (r : Record) (hd : Bytes) (hh : textHeader P addSource r = .ok hd) :
    handle P addSource h r = .ok (lineOf R (textView h).pre (textView h).shape hd r.attrs) := by
  rw [text_handle_eq, hh]
  obtain ⟨h1, _⟩ := text_attrsChunks P R hR h.groupPrefix r.attrs
  simp [Except.map, lineOf, textView, h1, closers]

end Text

/-! ## Nano -/
section Nano
open NanoHandler

def nBytes (as : List Attr) : Bytes := appendNanoValues [] as

mutual
theorem nAttr_buf : ∀ (a : Attr) (buf : Bytes), appendNanoValue buf a = buf ++ appendNanoValue [] a
  | .leaf _ v, buf => by simp [appendNanoValue]
  | .group _ as, buf => by simp only [appendNanoValue]; exact nLoop_buf as buf
theorem nLoop_buf : ∀ (as : List Attr) (buf : Bytes), appendNanoValues buf as = buf ++ appendNanoValues [] as
  | [], buf => by simp [appendNanoValues]
  | a :: as, buf => by
    simp only [appendNanoValues]
    rw [nLoop_buf as (appendNanoValue buf a), nLoop_buf as (appendNanoValue [] a), nAttr_buf a buf]
    simp
end

theorem nBytes_cons (a : Attr) (as : List Attr) : nBytes (a :: as) = appendNanoValue [] a ++ nBytes as := by
  simp only [nBytes, appendNanoValues]
  rw [nLoop_buf]

theorem nBytes_append (as bs : List Attr) : nBytes (as ++ bs) = nBytes as ++ nBytes bs := by
  induction as with
  | nil => simp [nBytes, appendNanoValues]
  | cons a as ih => simp [nBytes_cons, ih]

/-- groups are flattened, keys ignored -/
theorem nBytes_group (g : Bytes) (as : List Attr) : nBytes [.group g as] = nBytes as := by
  simp [nBytes, appendNanoValues, appendNanoValue]

/-- `Handle` up to and including the message -/
def nanoHeader (addSource : Bool) (r : Rec) : Except GoPanic Bytes := do
  let buf : Bytes := r.time ++ [0x20]
  let lvl ← shortLevel r.level
  let buf := buf ++ lvl
  let buf := if addSource && r.hasPC then buf ++ 0x20 :: appendNanoSource r.file r.line else buf
  return (if r.msg.length > 0 then buf ++ 0x20 :: r.msg else buf)

theorem nano_handle_eq (addSource : Bool) (h : H) (r : Rec) :
    handle addSource h r =
      (nanoHeader addSource r).map (fun hd => hd ++ h.pre ++ nBytes r.attrs ++ [0x0A]) := by
  unfold handle nanoHeader
  cases shortLevel r.level with
  | error e => rfl
  | ok lvl =>
    simp only [bind, Except.bind, pure, Except.pure, Except.map]
    have e1 : ∀ (b : Bytes) (l : List Attr),
        (if l.length > 0 then appendNanoValues b l else b) = b ++ nBytes l := by
      intro b l
      cases l with
      | nil => simp [nBytes, appendNanoValues]
      | cons a l => simp [nLoop_buf (a :: l) b, nBytes]
    have e2 : ∀ (b x : Bytes), (if x.length > 0 then b ++ x else b) = b ++ x := by
      intro b x; cases x <;> simp
    rw [e1, e2]

theorem nanoHeader_attrs (addSource : Bool) (r : Rec) (as : List Attr) :
    nanoHeader addSource { r with attrs := as } = nanoHeader addSource r := rfl

theorem nano_withAttrs_eq (h : H) (as : List Attr) : withAttrs h as = { pre := h.pre ++ nBytes as } := by
  cases as with
  | nil => simp [withAttrs, nBytes, appendNanoValues]
  | cons a as => simp [withAttrs, nLoop_buf (a :: as) h.pre, nBytes]

structure NanoSound (R : Renderer Attr) : Prop where
  attr : ∀ (a : Attr), (R.attr .nano a).1.flatten = appendNanoValue [] a

def nanoR : Renderer Attr where
  attr := fun _ a => ([appendNanoValue [] a], true)
  groupOpen := fun _ _ => []

theorem nanoR_sound : NanoSound nanoR := ⟨fun _ => by simp [nanoR]⟩

def nanoView (h : H) : PView := ⟨h.pre, .nano⟩

def nanoOp : DOp Attr → Deriv
  | .withAttrs as => .attrs as
  | .withGroup g => .group g

theorem nano_attrsChunks (R : Renderer Attr) (hR : NanoSound R) (as : List Attr) :
    (attrsChunks R .nano as).1.flatten = nBytes as ∧ (attrsChunks R .nano as).2 = .nano := by
  induction as with
  | nil => simp [attrsChunks, nBytes, appendNanoValues]
  | cons a as ih =>
    obtain ⟨i1, i2⟩ := ih
    simp only [attrsChunks, Shape.afterAttr, List.flatten_append, hR.attr, i1, i2, nBytes_cons, and_self]

theorem nano_pureStep (R : Renderer Attr) (hR : NanoSound R) (h : H) (op : DOp Attr) :
    pureStep R (nanoView h) op = nanoView (NanoHandler.derive h (nanoOp op)) := by
  cases op with
  | withAttrs as =>
    obtain ⟨h1, h2⟩ := nano_attrsChunks R hR as
    simp [pureStep, nanoView, nanoOp, NanoHandler.derive, nano_withAttrs_eq, h1, h2]
  | withGroup g =>
    simp [pureStep, nanoView, nanoOp, NanoHandler.derive, withGroup]

theorem nano_foldl (R : Renderer Attr) (hR : NanoSound R) (chain : List (DOp Attr)) :
    ∀ h : H, chain.foldl (pureStep R) (nanoView h) = nanoView (deriveAll h (chain.map nanoOp)) := by
  induction chain with
  | nil => intro h; rfl
  | cons op rest ih =>
    intro h
    simp only [List.foldl_cons, List.map_cons, deriveAll]
    rw [nano_pureStep R hR, ih]
    rfl

theorem nano_renderChain (R : Renderer Attr) (hR : NanoSound R) (chain : List (DOp Attr)) :
    renderChain R .nano chain = nanoView (deriveAll H.init (chain.map nanoOp)) :=
  nano_foldl R hR chain H.init

theorem nano_lineOf (R : Renderer Attr) (hR : NanoSound R) (addSource : Bool) (h : H) (r : Rec)
    (hd : Bytes) (hh : nanoHeader addSource r = .ok hd) :
    handle addSource h r = .ok (lineOf R (nanoView h).pre (nanoView h).shape hd r.attrs) := by
  rw [nano_handle_eq, hh]
  obtain ⟨h1, _⟩ := nano_attrsChunks R hR r.attrs
  simp [Except.map, lineOf, nanoView, h1, closers]

end Nano

end Glb.RendererInst
