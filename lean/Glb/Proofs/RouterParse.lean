/-
  Helper lemmas for C04, part 2: the two index loops of tree.go equal plain list functions.
  `findLoop` = trie walk over the segments; `parseLoop` = fold over the fragments.
  In particular every slice expression of the loops is in bounds.
-/
import Glb.Proofs.RouterTrie
import Glb.Spec.RouteList
namespace Glb.Router
open Glb

theorem slice_mid {α} (pre : List α) (x : α) (cur s : List α) :
    slice? (pre ++ x :: (cur ++ s)) (pre.length + 1) (pre.length + 1 + cur.length) = .ok cur := by
  unfold slice?
  have h1 : pre.length + 1 ≤ pre.length + 1 + cur.length := by omega
  have h2 : pre.length + 1 + cur.length ≤ (pre ++ x :: (cur ++ s)).length := by simp; omega
  rw [if_pos ⟨h1, h2⟩]
  have : (pre ++ x :: (cur ++ s)) = (pre ++ [x]) ++ (cur ++ s) := by simp
  rw [this, List.drop_left' (by simp)]
  simp

theorem slice_tail {α} (pre : List α) (x : α) (cur s : List α) :
    slice? (pre ++ x :: (cur ++ s)) (pre.length + 1) (pre ++ x :: (cur ++ s)).length = .ok (cur ++ s) := by
  unfold slice?
  have h1 : pre.length + 1 ≤ (pre ++ x :: (cur ++ s)).length := by simp
  rw [if_pos ⟨h1, Nat.le_refl _⟩]
  have : (pre ++ x :: (cur ++ s)) = (pre ++ [x]) ++ (cur ++ s) := by simp
  rw [this, List.drop_left' (by simp)]
  apply congrArg
  apply List.take_of_length_le
  simp; omega

theorem getElem?_mid {α} (pre : List α) (x : α) (cur s : List α) :
    (pre ++ x :: (cur ++ s))[pre.length + 1 + cur.length]? = s.head? := by
  have : (pre ++ x :: (cur ++ s)) = (pre ++ x :: cur) ++ s := by simp
  rw [this, List.getElem?_append_right (by simp; omega)]
  have e : pre.length + 1 + cur.length - (pre ++ x :: cur).length = 0 := by simp; omega
  rw [e]
  cases s <;> simp

/-! ### findRoute: the index loop is a walk over the list of segments -/

/-- the segments of the unread rest `s`, `cur` = the bytes of the current segment read so far;
    each segment with the rest of the path from its first byte -/
def segsAcc : Bytes → Bytes → List (Bytes × Bytes)
  | [], cur => [(cur, cur)]
  | b :: s, cur =>
    if b = 47 then (if cur = [] then segsAcc s [] else (cur, cur ++ b :: s) :: segsAcc s [])
    else segsAcc s (cur ++ [b])

/-- the greedy walk of `findRoute` over a list of segments -/
def walkT (node : Node) : List (Bytes × Bytes) → List Bytes → Option Node × List Bytes
  | [], V => (some node, V)
  | (seg, rest) :: more, V =>
    match node.child seg with
    | some res => walkT res more V
    | none =>
      match node.child Generated.routeParam with
      | some res => walkT res more (V ++ [seg])
      | none =>
        match node.child Generated.routeParamAny with
        | some res => (some res, V ++ [rest])
        | none => (none, V)

theorem notSlashAt_mid (pre : Bytes) (x : UInt8) (cur s : Bytes) :
    notSlashAt (pre ++ x :: (cur ++ s)) (pre.length + 1 + cur.length) =
      match s with
      | [] => false
      | b :: _ => b != 47 := by
  unfold notSlashAt
  rw [getElem?_mid]
  cases s <;> rfl

theorem findLoop_eq (s : Bytes) : ∀ (cur pre : Bytes) (x : UInt8) (node : Node) (V : List Bytes),
    findLoop (pre ++ x :: (cur ++ s)) (s.length + 1) pre.length (pre.length + 1 + cur.length) node V
      = .ok (walkT node (segsAcc s cur) V) := by
  induction s with
  | nil =>
    intro cur pre x node V
    have hns := notSlashAt_mid pre x cur []
    have hsl := slice_mid pre x cur ([] : Bytes)
    have hst := slice_tail pre x cur ([] : Bytes)
    have hlen : ¬ (pre.length + 1 + cur.length < (pre ++ x :: (cur ++ ([] : Bytes))).length) := by simp; omega
    generalize pre ++ x :: (cur ++ ([] : Bytes)) = path at *
    generalize pre.length + 1 + cur.length = right at *
    show findLoop path (0 + 1) pre.length right node V = _
    rw [findLoop]
    simp only [hns, hlen, and_false, if_false, hsl, hst, Bool.false_eq_true, bind, Except.bind,
      segsAcc, walkT, List.append_nil, findLoop]
    cases node.child cur with
    | some r => rfl
    | none =>
      cases node.child Generated.routeParam with
      | some r => rfl
      | none => cases node.child Generated.routeParamAny <;> rfl
  | cons b s ih =>
    intro cur pre x node V
    have hns := notSlashAt_mid pre x cur (b :: s)
    have hsl := slice_mid pre x cur (b :: s)
    have hst := slice_tail pre x cur (b :: s)
    have hlen : pre.length + 1 + cur.length < (pre ++ x :: (cur ++ b :: s)).length := by simp; omega
    have hd : pre.length + 1 + cur.length - pre.length = cur.length + 1 := by omega
    by_cases hb : b = 47
    · subst hb
      have h := fun n V => ih [] (pre ++ x :: cur) 47 n V
      have e1 : (pre ++ x :: cur) ++ 47 :: ([] ++ s) = pre ++ x :: (cur ++ 47 :: s) := by simp
      have e2 : (pre ++ x :: cur).length = pre.length + 1 + cur.length := by simp; omega
      rw [e1, e2] at h
      generalize pre ++ x :: (cur ++ 47 :: s) = path at *
      generalize pre.length + 1 + cur.length = right at *
      show findLoop path ((s.length + 1) + 1) pre.length right node V = _
      rw [findLoop]
      simp only [hns, bne_self_eq_false, Bool.false_eq_true, if_false, hd, hlen, and_true]
      by_cases hc : cur = []
      · subst hc
        simp only [List.length_nil, Nat.zero_add, Nat.lt_add_one, if_true, segsAcc]
        exact h node V
      · have hc2 : ¬ (cur.length + 1 < 2) := by
          cases cur with
          | nil => exact absurd rfl hc
          | cons c r => simp
        simp only [hc2, if_false, hsl, hst, bind, Except.bind, segsAcc, hc, if_true, walkT, List.length_nil,
          Nat.add_zero] at h ⊢
        cases node.child cur with
        | some r => exact h r V
        | none =>
          cases node.child Generated.routeParam with
          | some r => exact h r _
          | none => cases node.child Generated.routeParamAny <;> rfl
    · have h := ih (cur ++ [b]) pre x node V
      have e1 : pre ++ x :: ((cur ++ [b]) ++ s) = pre ++ x :: (cur ++ b :: s) := by simp
      have e2 : pre.length + 1 + (cur ++ [b]).length = pre.length + 1 + cur.length + 1 := by simp; omega
      rw [e1, e2] at h
      generalize pre ++ x :: (cur ++ b :: s) = path at *
      generalize pre.length + 1 + cur.length = right at *
      show findLoop path ((s.length + 1) + 1) pre.length right node V = _
      rw [findLoop]
      have hb' : (b != 47) = true := by simp [hb]
      simp only [hns, hb', if_true, segsAcc, hb, if_false]
      exact h

/-! ### parseRoute: the index loop is a fold over the list of non-empty fragments -/

/-- the non-empty fragments of the unread rest `s`; `cur` = the current fragment read so far -/
def fragsAcc : Bytes → Bytes → List Bytes
  | [], cur => if cur = [] then [] else [cur]
  | b :: s, cur =>
    if b = 47 then (if cur = [] then fragsAcc s [] else cur :: fragsAcc s [])
    else fragsAcc s (cur ++ [b])

/-- the fragment loop of `parseRoute` over a list of fragments -/
def parseFrags : List Bytes → List Bytes → List Bytes → ParseOut
  | [], ks, ns => ⟨ks, ns, true⟩
  | f :: fs, ks, ns =>
    if f = [42] then ⟨ks ++ [Generated.routeParamAny], ns ++ [Generated.routeParamAny], true⟩
    else match f with
      | 58 :: name =>
        if name = [] ∨ name ∈ ns then ⟨ks, ns, false⟩
        else parseFrags fs (ks ++ [Generated.routeParam]) (ns ++ [name])
      | _ => parseFrags fs (ks ++ [f]) ns

theorem idx_mid {α} (pre : List α) (x c : α) (r s : List α) :
    idx? (pre ++ x :: (c :: r ++ s)) (pre.length + 1) = .ok c := by
  unfold idx?
  have : (pre ++ x :: (c :: r ++ s)) = (pre ++ [x]) ++ (c :: (r ++ s)) := by simp
  rw [this, List.getElem?_append_right (by simp)]
  simp

theorem slice_mid2 {α} (pre : List α) (x c : α) (r s : List α) :
    slice? (pre ++ x :: (c :: r ++ s)) (pre.length + 2) (pre.length + 1 + (c :: r).length) = .ok r := by
  have h := slice_mid (pre ++ [x]) c r s
  have e1 : (pre ++ [x]) ++ c :: (r ++ s) = pre ++ x :: (c :: r ++ s) := by simp
  have e2 : (pre ++ [x]).length + 1 = pre.length + 2 := by simp
  have e3 : pre.length + 2 + r.length = pre.length + 1 + (c :: r).length := by simp; omega
  rw [e1, e2, e3] at h
  exact h

/-- one non-empty fragment `c :: r` at `path[left+1:right]` -/
theorem parseLoop_body (path : Bytes) (fuel left right : Nat) (c : UInt8) (r : Bytes) (rest : List Bytes)
    (hns : notSlashAt path right = false) (hd : ¬ right - left < 2)
    (hsl : slice? path (left + 1) right = .ok (c :: r)) (hidx : idx? path (left + 1) = .ok c)
    (hsl2 : slice? path (left + 2) right = .ok r)
    (hk : ∀ ks ns, parseLoop path fuel right (right + 1) ks ns = .ok (parseFrags rest ks ns))
    (ks ns : List Bytes) :
    parseLoop path (fuel + 1) left right ks ns = .ok (parseFrags ((c :: r) :: rest) ks ns) := by
  rw [parseLoop]
  simp only [hns, Bool.false_eq_true, if_false, hd, hsl, hidx, hsl2, bind, Except.bind, parseFrags]
  by_cases h42 : c :: r = [42]
  · simp [h42]
  · simp only [h42, if_false]
    by_cases h58 : c = 58
    · subst h58
      simp only [if_true]
      by_cases hn : r = [] ∨ r ∈ ns
      · simp [hn]
      · simp only [hn, if_false]; exact hk _ _
    · simp only [h58, if_false]
      rw [hk]
      cases r <;> simp [h58]

theorem parseLoop_eq (s : Bytes) : ∀ (cur pre : Bytes) (x : UInt8) (ks ns : List Bytes),
    parseLoop (pre ++ x :: (cur ++ s)) (s.length + 1) pre.length (pre.length + 1 + cur.length) ks ns
      = .ok (parseFrags (fragsAcc s cur) ks ns) := by
  induction s with
  | nil =>
    intro cur pre x ks ns
    have hns := notSlashAt_mid pre x cur []
    have hd : pre.length + 1 + cur.length - pre.length = cur.length + 1 := by omega
    cases cur with
    | nil =>
      show parseLoop _ (0 + 1) _ _ _ _ = _
      rw [parseLoop]
      simp only [hns, Bool.false_eq_true, if_false, hd]
      simp [parseLoop, fragsAcc, parseFrags]
    | cons c r =>
      have hsl := slice_mid pre x (c :: r) ([] : Bytes)
      have hidx := idx_mid pre x c r ([] : Bytes)
      have hsl2 := slice_mid2 pre x c r ([] : Bytes)
      have hd2 : ¬ (pre.length + 1 + (c :: r).length - pre.length < 2) := by simp; omega
      simp only [fragsAcc, reduceCtorEq, if_false]
      exact parseLoop_body _ 0 _ _ c r [] hns hd2 hsl hidx hsl2 (fun _ _ => rfl) ks ns
  | cons b s ih =>
    intro cur pre x ks ns
    have hns := notSlashAt_mid pre x cur (b :: s)
    have hd : pre.length + 1 + cur.length - pre.length = cur.length + 1 := by omega
    by_cases hb : b = 47
    · subst hb
      have h := fun ks ns => ih [] (pre ++ x :: cur) 47 ks ns
      have e1 : (pre ++ x :: cur) ++ 47 :: ([] ++ s) = pre ++ x :: (cur ++ 47 :: s) := by simp
      have e2 : (pre ++ x :: cur).length = pre.length + 1 + cur.length := by simp; omega
      rw [e1, e2] at h
      simp only [bne_self_eq_false] at hns
      cases cur with
      | nil =>
        show parseLoop _ ((s.length + 1) + 1) _ _ _ _ = _
        rw [parseLoop]
        simp only [hns, Bool.false_eq_true, if_false, hd, fragsAcc, if_true]
        simp only [List.length_nil, Nat.zero_add, Nat.lt_add_one, if_true]
        exact h ks ns
      | cons c r =>
        have hsl := slice_mid pre x (c :: r) (47 :: s)
        have hidx := idx_mid pre x c r (47 :: s)
        have hsl2 := slice_mid2 pre x c r (47 :: s)
        have hd2 : ¬ (pre.length + 1 + (c :: r).length - pre.length < 2) := by simp; omega
        simp only [fragsAcc, reduceCtorEq, if_false, if_true]
        exact parseLoop_body _ (s.length + 1) _ _ c r _ hns hd2 hsl hidx hsl2 h ks ns
    · have h := ih (cur ++ [b]) pre x ks ns
      have e1 : pre ++ x :: ((cur ++ [b]) ++ s) = pre ++ x :: (cur ++ b :: s) := by simp
      have e2 : pre.length + 1 + (cur ++ [b]).length = pre.length + 1 + cur.length + 1 := by simp; omega
      rw [e1, e2] at h
      show parseLoop _ ((s.length + 1) + 1) _ _ _ _ = _
      rw [parseLoop]
      have hb' : (b != 47) = true := by simp [hb]
      simp only [hns, hb', if_true, fragsAcc, hb, if_false]
      exact h

/-- the whole fragment loop of `parseRoute`: the first byte of the pattern is never looked at -/
theorem parseLoop_start (p : Bytes) :
    parseLoop p (p.length + 1) 0 0 [] [] = .ok (parseFrags (fragsAcc (p.drop 1) []) [] []) := by
  cases p with
  | nil => simp [parseLoop, notSlashAt, fragsAcc, parseFrags]
  | cons x s =>
    have h := parseLoop_eq s [] [] x [] []
    simp only [List.nil_append, List.length_nil, Nat.zero_add] at h
    show parseLoop (x :: s) ((s.length + 1) + 1) 0 0 [] [] = _
    rw [parseLoop]
    by_cases hx : notSlashAt (x :: s) 0 = true
    · simp only [hx, if_true]; exact h
    · simp only [hx]; exact h

/-- the whole loop of `findRoute` on a path with its leading slash -/
theorem findLoop_start (s : Bytes) (node : Node) (V : List Bytes) :
    findLoop (47 :: s) ((47 :: s).length + 1) 0 0 node V = .ok (walkT node (segsAcc s []) V) := by
  have h := findLoop_eq s [] [] 47 node V
  simp only [List.nil_append, List.length_nil, Nat.zero_add] at h
  show findLoop (47 :: s) ((s.length + 1) + 1) 0 0 node V = _
  rw [findLoop]
  have hx : notSlashAt (47 :: s) 0 = false := by simp [notSlashAt]
  simp only [hx, Bool.false_eq_true, if_false]
  simp only [List.length_cons, Nat.sub_self, Nat.zero_lt_succ, Nat.lt_add_one_of_lt, and_self, if_true]
  exact h

theorem normPath_eq (p : Bytes) : normPath p = 47 :: RouteList.body p := by
  cases p with
  | nil => rfl
  | cons b r =>
    by_cases hb : b = 47
    · subst hb; simp [normPath, RouteList.body]
    · simp only [normPath, bne_iff_ne, ne_eq, hb, not_false_eq_true, if_true]
      unfold RouteList.body
      split
      · rename_i h; cases h; exact absurd rfl hb
      · rfl

/-! ### the accumulator forms are the split-based definitions of the specification -/

theorem splitSlash_ne_nil (s : Bytes) : RouteList.splitSlash s ≠ [] := by
  cases s with
  | nil => simp [RouteList.splitSlash]
  | cons b s =>
    unfold RouteList.splitSlash
    by_cases hb : b = 47
    · simp [hb]
    · simp only [hb, if_false]; split <;> simp

theorem fragsAcc_eq (s : Bytes) : ∀ cur : Bytes,
    fragsAcc s cur = (match RouteList.splitSlash s with
      | h :: t => (cur ++ h) :: t
      | [] => [cur]).filter (· ≠ []) := by
  induction s with
  | nil => intro cur; by_cases hc : cur = [] <;> simp [fragsAcc, RouteList.splitSlash, hc]
  | cons b s ih =>
    intro cur
    by_cases hb : b = 47
    · subst hb
      have h0 := ih []
      have hne := splitSlash_ne_nil s
      cases hs : RouteList.splitSlash s with
      | nil => exact absurd hs hne
      | cons h t =>
        rw [hs] at h0
        simp only [List.nil_append] at h0
        by_cases hc : cur = [] <;> simp [fragsAcc, RouteList.splitSlash, hc, h0, hs]
    · have h1 := ih (cur ++ [b])
      have hne := splitSlash_ne_nil s
      cases hs : RouteList.splitSlash s with
      | nil => exact absurd hs hne
      | cons h t =>
        rw [hs] at h1
        simp [fragsAcc, RouteList.splitSlash, hb, hs, h1]

theorem fragsAcc_fragments (s : Bytes) : fragsAcc s [] = RouteList.fragments (47 :: s) := by
  rw [fragsAcc_eq]
  have hne := splitSlash_ne_nil s
  cases hs : RouteList.splitSlash s with
  | nil => exact absurd hs hne
  | cons h t => simp [RouteList.fragments, RouteList.splitSlash, hs]

theorem fragments_empty : RouteList.fragments [] = [] := by
  simp [RouteList.fragments, RouteList.splitSlash]

theorem splitRest_head (s : Bytes) : ∃ h t, RouteList.splitRest s = (h, s) :: t := by
  induction s with
  | nil => exact ⟨[], [], rfl⟩
  | cons b s ih =>
    obtain ⟨h, t, hs⟩ := ih
    unfold RouteList.splitRest
    by_cases hb : b = 47
    · exact ⟨[], RouteList.splitRest s, by simp [hb]⟩
    · exact ⟨b :: h, t, by simp [hb, hs]⟩

theorem segsAcc_eq (s : Bytes) : ∀ (cur h : Bytes) (t : List (Bytes × Bytes)),
    RouteList.splitRest s = (h, s) :: t →
    segsAcc s cur = RouteList.dropEmptyButLast ((cur ++ h, cur ++ s) :: t) := by
  induction s with
  | nil =>
    intro cur h t hs
    simp only [RouteList.splitRest, List.cons.injEq, Prod.mk.injEq] at hs
    obtain ⟨⟨rfl, _⟩, rfl⟩ := hs
    simp [segsAcc, RouteList.dropEmptyButLast]
  | cons b s ih =>
    intro cur h t hs
    obtain ⟨h', t', hs'⟩ := splitRest_head s
    by_cases hb : b = 47
    · subst hb
      simp only [RouteList.splitRest, if_true, List.cons.injEq, Prod.mk.injEq] at hs
      obtain ⟨⟨rfl, _⟩, rfl⟩ := hs
      have h0 := ih [] h' t' hs'
      simp only [List.nil_append] at h0
      rw [hs']
      by_cases hc : cur = []
      · subst hc
        simp [segsAcc, RouteList.dropEmptyButLast, h0]
      · simp [segsAcc, RouteList.dropEmptyButLast, hc, h0]
    · simp only [RouteList.splitRest, hb, if_false, hs', List.cons.injEq, Prod.mk.injEq] at hs
      obtain ⟨⟨rfl, _⟩, rfl⟩ := hs
      have h1 := ih (cur ++ [b]) h' t' hs'
      simp [segsAcc, hb, h1]

theorem segsAcc_segments (p : Bytes) : segsAcc (RouteList.body p) [] = RouteList.segments p := by
  obtain ⟨h, t, hs⟩ := splitRest_head (RouteList.body p)
  rw [segsAcc_eq _ [] h t hs, RouteList.segments, hs]
  simp

end Glb.Router
