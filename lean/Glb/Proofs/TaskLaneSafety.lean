/-
  Safety invariants of the TaskLane model (`Glb.Model.TaskLane`) for `cfg L Q`, arbitrary `L`, `Q`.

  Structure:
  1. lookup lemmas for the three programs;
  2. `CStep`: the *concrete* step relation of `cfg L Q` (the generic select-interpreter specialised
     to `queueProg`/`workerProg`/`pushProg`), and the inversion `Step (cfg L Q) s l s' → CStep L Q s s'`;
  3. generic lemmas about `sumTo`/`catTo` under point updates;
  4. the invariants (each preserved by every `CStep`) and their bundle `WFS`;
  5. consequences used by the property files; 6. panic erasure (for C14 `panic_contained`).
-/
import Glb.Model.TaskLane

namespace Glb.TaskLane

/-! ## 1. program lookup -/

theorem queueProg_select {pc : Nat} {cs : List (Case × Nat)} {d : Option Nat}
    (h : queueProg[pc]? = some (.select cs d)) :
    (pc = 0 ∧ cs = [(.done, 6), (.recv .buf, 1)] ∧ d = none) ∨
    (pc = 2 ∧ cs = [(.done, 6)] ∧ d = some 3) ∨
    (pc = 3 ∧ cs = [(.send .own, 5)] ∧ d = some 4) ∨
    (pc = 4 ∧ cs = [(.done, 6), (.send .own, 5), (.send .uni, 5)] ∧ d = none) := by
  match pc with
  | 0 | 1 | 2 | 3 | 4 | 5 | 6 => simp [queueProg] at h; try (obtain ⟨rfl, rfl⟩ := h; simp)
  | n + 7 => simp [queueProg] at h

theorem queueProg_act {pc : Nat} {a : Act} {n : Nat} (h : queueProg[pc]? = some (.act a n)) :
    (pc = 1 ∧ a = .incCnt ∧ n = 2) ∨ (pc = 5 ∧ a = .decCnt ∧ n = 0) := by
  match pc with
  | 0 | 1 | 2 | 3 | 4 | 5 | 6 => simp [queueProg] at h; try (obtain ⟨rfl, rfl⟩ := h; simp)
  | n + 7 => simp [queueProg] at h

theorem workerProg_select {pc : Nat} {cs : List (Case × Nat)} {d : Option Nat}
    (h : workerProg[pc]? = some (.select cs d)) :
    (pc = 0 ∧ cs = [(.done, 4)] ∧ d = some 1) ∨
    (pc = 1 ∧ cs = [(.recv .own, 3)] ∧ d = some 2) ∨
    (pc = 2 ∧ cs = [(.done, 4), (.recv .own, 3), (.recv .uni, 3)] ∧ d = none) := by
  match pc with
  | 0 | 1 | 2 | 3 | 4 => simp [workerProg] at h; try (obtain ⟨rfl, rfl⟩ := h; simp)
  | n + 5 => simp [workerProg] at h

theorem workerProg_act {pc : Nat} {a : Act} {n : Nat} (h : workerProg[pc]? = some (.act a n)) :
    pc = 3 ∧ a = .run ∧ n = 0 := by
  match pc with
  | 0 | 1 | 2 | 3 | 4 => simp [workerProg] at h; try (obtain ⟨rfl, rfl⟩ := h; simp)
  | n + 5 => simp [workerProg] at h

theorem pushProg_select {pc : Nat} {cs : List (Case × Nat)} {d : Option Nat}
    (h : pushProg[pc]? = some (.select cs d)) :
    (pc = 0 ∧ cs = [(.done, 2)] ∧ d = some 1) ∨
    (pc = 1 ∧ cs = [(.done, 2), (.send .buf, 3), (.timeout, 4)] ∧ d = none) := by
  match pc with
  | 0 | 1 | 2 | 3 | 4 | 5 => simp [pushProg] at h; try (obtain ⟨rfl, rfl⟩ := h; simp)
  | n + 6 => simp [pushProg] at h

theorem pushProg_act {pc : Nat} {a : Act} {n : Nat} (h : pushProg[pc]? = some (.act a n)) :
    (pc = 2 ∧ a = .retCtxErr ∧ n = 5) ∨ (pc = 3 ∧ a = .retNil ∧ n = 5) ∨
    (pc = 4 ∧ a = .retTimeout ∧ n = 5) := by
  match pc with
  | 0 | 1 | 2 | 3 | 4 | 5 => simp [pushProg] at h; try (obtain ⟨rfl, rfl⟩ := h; simp)
  | n + 6 => simp [pushProg] at h


/-! ## 2. the concrete step relation of `cfg L Q` -/

theorem upd_upd_eq {α} (f : Nat → α) (i : Nat) (a b : α) : upd (upd f i a) i b = upd f i b := by
  funext j; simp only [upd]; split <;> rfl

/-- All transitions of `cfg L Q`, labels forgotten, rendezvous directions merged.  `parked` flags are
    not constrained (they do not matter for the state invariants). -/
inductive CStep (L Q : Nat) : St → St → Prop where
  | cancel (s : St) : s.cancelled = false → CStep L Q s { s with cancelled := true }
  | push (s : St) (t : Tid) (lane : Nat) : lane < L → (∀ k, k < s.np → (s.ps k).held ≠ t) →
      CStep L Q s { s with ps := upd s.ps s.np { pc := 0, parked := false, held := t },
                           plane := upd s.plane s.np lane, np := s.np + 1 }
  /-- `done` taken (to the halt pc 6), or a `default` taken -/
  | qMove (s : St) (i n : Nat) : i < L →
      (((s.qs i).pc = 0 ∨ (s.qs i).pc = 2 ∨ (s.qs i).pc = 4) ∧ n = 6 ∧ s.cancelled = true ∨
        (s.qs i).pc = 2 ∧ n = 3 ∨ (s.qs i).pc = 3 ∧ n = 4) →
      CStep L Q s { s with qs := upd s.qs i (goto (s.qs i) n) }
  | wMove (s : St) (i n : Nat) : i < L →
      (((s.ws i).pc = 0 ∨ (s.ws i).pc = 2) ∧ n = 4 ∧ s.cancelled = true ∨
        (s.ws i).pc = 0 ∧ n = 1 ∨ (s.ws i).pc = 1 ∧ n = 2) →
      CStep L Q s { s with ws := upd s.ws i (goto (s.ws i) n) }
  /-- `done` taken, `default` taken, or the timeout fired -/
  | pMove (s : St) (k n : Nat) : k < s.np →
      (((s.ps k).pc = 0 ∨ (s.ps k).pc = 1) ∧ n = 2 ∧ s.cancelled = true ∨
        (s.ps k).pc = 0 ∧ n = 1 ∨ (s.ps k).pc = 1 ∧ n = 4) →
      CStep L Q s { s with ps := upd s.ps k (goto (s.ps k) n) }
  | qPark (s : St) (i : Nat) : i < L → ((s.qs i).pc = 0 ∨ (s.qs i).pc = 4) →
      CStep L Q s { s with qs := upd s.qs i { s.qs i with parked := true } }
  | wPark (s : St) (i : Nat) : i < L → (s.ws i).pc = 2 →
      CStep L Q s { s with ws := upd s.ws i { s.ws i with parked := true } }
  | pPark (s : St) (k : Nat) : k < s.np → (s.ps k).pc = 1 →
      CStep L Q s { s with ps := upd s.ps k { s.ps k with parked := true } }
  /-- queue goroutine takes the head of its buffer -/
  | qRecv (s : St) (i : Nat) : i < L → (s.qs i).pc = 0 → s.buf i ≠ [] →
      CStep L Q s { s with buf := upd s.buf i (s.buf i).tail,
                           qs := upd s.qs i { pc := 1, parked := false, held := (s.buf i).headD 0 } }
  /-- producer puts its task into the buffer -/
  | pSend (s : St) (k : Nat) : k < s.np → (s.ps k).pc = 1 → (s.buf (s.plane k)).length < Q →
      CStep L Q s { s with buf := upd s.buf (s.plane k) (s.buf (s.plane k) ++ [(s.ps k).held]),
                           accepted := s.accepted ++ [(s.ps k).held],
                           ps := upd s.ps k (goto (s.ps k) 3) }
  /-- `Q = 0`: producer hands its task directly to the queue goroutine -/
  | pqXfer (s : St) (k i : Nat) : k < s.np → i < L → (s.ps k).pc = 1 → (s.qs i).pc = 0 →
      s.plane k = i → Q = 0 →
      CStep L Q s { s with accepted := s.accepted ++ [(s.ps k).held],
                           ps := upd s.ps k (goto (s.ps k) 3),
                           qs := upd s.qs i { pc := 1, parked := false, held := (s.ps k).held } }
  /-- queue goroutine `i` hands its task to worker `j` (own or universal channel) -/
  | qwXfer (s : St) (i j : Nat) : i < L → j < L → ((s.qs i).pc = 3 ∨ (s.qs i).pc = 4) →
      ((s.ws j).pc = 1 ∨ (s.ws j).pc = 2) →
      CStep L Q s { s with qs := upd s.qs i (goto (s.qs i) 5),
                           ws := upd s.ws j { pc := 3, parked := false, held := (s.qs i).held } }
  | inc (s : St) (i : Nat) : i < L → (s.qs i).pc = 1 →
      CStep L Q s { s with cnt := s.cnt + 1, qs := upd s.qs i (goto (s.qs i) 2) }
  | dec (s : St) (i : Nat) : i < L → (s.qs i).pc = 5 →
      CStep L Q s { s with cnt := s.cnt - 1, qs := upd s.qs i (goto (s.qs i) 0) }
  | start (s : St) (i : Nat) : i < L → (s.ws i).pc = 3 → (s.ws i).parked = false →
      CStep L Q s { s with ws := upd s.ws i { s.ws i with parked := true },
                           started := s.started ++ [(s.ws i).held] }
  | finish (s : St) (i : Nat) (v : Option Nat) : i < L → (s.ws i).pc = 3 → (s.ws i).parked = true →
      CStep L Q s { s with ws := upd s.ws i (goto (s.ws i) 0), finished := s.finished ++ [(s.ws i).held],
                           lastPanic := match v with | some x => some x | none => s.lastPanic,
                           panics := match v with | some x => s.panics ++ [x] | none => s.panics }
  | pushRet (s : St) (k : Nat) (r : PushResult) : k < s.np →
      ((s.ps k).pc = 2 ∧ r = .ctxErr ∨ (s.ps k).pc = 3 ∧ r = .nil ∨ (s.ps k).pc = 4 ∧ r = .timeout) →
      CStep L Q s { s with ps := upd s.ps k (goto (s.ps k) 5), results := s.results ++ [((s.ps k).held, r)] }

theorem instrAt_q (L Q s i) : instrAt (cfg L Q) s (.q i) = queueProg[(s.qs i).pc]? := rfl
theorem instrAt_w (L Q s i) : instrAt (cfg L Q) s (.w i) = workerProg[(s.ws i).pc]? := rfl
theorem instrAt_p (L Q s k) : instrAt (cfg L Q) s (.p k) = pushProg[(s.ps k).pc]? := rfl


theorem parkedOn_inv {L Q s h k ch t} (hp : parkedOn (cfg L Q) s h k ch t) :
    (∃ i, h = .q i ∧ i < L ∧ (s.qs i).pc = 0 ∧ k = .recv .buf ∧ ch = (.buf, i) ∧ t = 1) ∨
    (∃ i, h = .q i ∧ i < L ∧ (s.qs i).pc = 4 ∧ (k = .send .own ∧ ch = (.own, i) ∨ k = .send .uni ∧ ch = (.uni, 0)) ∧ t = 5) ∨
    (∃ i, h = .w i ∧ i < L ∧ (s.ws i).pc = 2 ∧ (k = .recv .own ∧ ch = (.own, i) ∨ k = .recv .uni ∧ ch = (.uni, 0)) ∧ t = 3) ∨
    (∃ n, h = .p n ∧ n < s.np ∧ (s.ps n).pc = 1 ∧ k = .send .buf ∧ ch = (.buf, s.plane n) ∧ t = 3) := by
  obtain ⟨hl, -, cs, hi, hm, hk⟩ := hp
  cases h with
  | q i =>
    rw [instrAt_q] at hi
    rcases queueProg_select hi with ⟨hpc, rfl, -⟩ | ⟨hpc, rfl, hd⟩ | ⟨hpc, rfl, hd⟩ | ⟨hpc, rfl, -⟩
    · simp at hm
      rcases hm with ⟨rfl, rfl⟩ | ⟨rfl, rfl⟩
      · simp at hk
      · simp [chanOf, St.lane] at hk; left; exact ⟨i, rfl, hl, hpc, rfl, hk.symm, rfl⟩
    · simp at hd
    · simp at hd
    · simp at hm
      rcases hm with ⟨rfl, rfl⟩ | ⟨rfl, rfl⟩ | ⟨rfl, rfl⟩
      · simp at hk
      · simp [chanOf, St.lane] at hk; right; left; exact ⟨i, rfl, hl, hpc, .inl ⟨rfl, hk.symm⟩, rfl⟩
      · simp [chanOf] at hk; right; left; exact ⟨i, rfl, hl, hpc, .inr ⟨rfl, hk.symm⟩, rfl⟩
  | w i =>
    rw [instrAt_w] at hi
    rcases workerProg_select hi with ⟨hpc, rfl, hd⟩ | ⟨hpc, rfl, hd⟩ | ⟨hpc, rfl, -⟩
    · simp at hd
    · simp at hd
    · simp at hm
      rcases hm with ⟨rfl, rfl⟩ | ⟨rfl, rfl⟩ | ⟨rfl, rfl⟩
      · simp at hk
      · simp [chanOf, St.lane] at hk; right; right; left; exact ⟨i, rfl, hl, hpc, .inl ⟨rfl, hk.symm⟩, rfl⟩
      · simp [chanOf] at hk; right; right; left; exact ⟨i, rfl, hl, hpc, .inr ⟨rfl, hk.symm⟩, rfl⟩
  | p n =>
    rw [instrAt_p] at hi
    rcases pushProg_select hi with ⟨hpc, rfl, hd⟩ | ⟨hpc, rfl, -⟩
    · simp at hd
    · simp at hm
      rcases hm with ⟨rfl, rfl⟩ | ⟨rfl, rfl⟩ | ⟨rfl, rfl⟩
      · simp at hk
      · simp [chanOf, St.lane] at hk; right; right; right; exact ⟨n, rfl, hl, hpc, rfl, hk.symm, rfl⟩
      · simp at hk


theorem Step.toCStep {L Q s l s'} (h : Step (cfg L Q) s l s') : CStep L Q s s' := by
  cases h with
  | cancel hc => exact .cancel s hc
  | push t lane hl hf => exact .push s t lane hl hf
  | takeLocal g cs d k tg hl hi hm hr =>
    cases g with
    | q i =>
      rw [instrAt_q] at hi
      rcases queueProg_select hi with ⟨hpc, rfl, -⟩ | ⟨hpc, rfl, -⟩ | ⟨hpc, rfl, -⟩ | ⟨hpc, rfl, -⟩
      · simp at hm
        rcases hm with ⟨rfl, rfl⟩ | ⟨rfl, rfl⟩
        · simp [localReady] at hr
          simp only [localEffect, St.set, St.get]
          exact .qMove s i 6 hl (by simp [hpc, hr])
        · simp [localReady, St.lane] at hr
          simp only [localEffect, St.set, St.get, St.lane, goto, upd_upd_eq, upd_same]
          exact .qRecv s i hl hpc hr
      · simp at hm
        obtain ⟨rfl, rfl⟩ := hm
        simp [localReady] at hr
        simp only [localEffect, St.set, St.get]
        exact .qMove s i 6 hl (by simp [hpc, hr])
      · simp at hm
        obtain ⟨rfl, rfl⟩ := hm
        simp [localReady] at hr
      · simp at hm
        rcases hm with ⟨rfl, rfl⟩ | ⟨rfl, rfl⟩ | ⟨rfl, rfl⟩
        · simp [localReady] at hr
          simp only [localEffect, St.set, St.get]
          exact .qMove s i 6 hl (by simp [hpc, hr])
        · simp [localReady] at hr
        · simp [localReady] at hr
    | w i =>
      rw [instrAt_w] at hi
      rcases workerProg_select hi with ⟨hpc, rfl, -⟩ | ⟨hpc, rfl, -⟩ | ⟨hpc, rfl, -⟩
      · simp at hm
        obtain ⟨rfl, rfl⟩ := hm
        simp [localReady] at hr
        simp only [localEffect, St.set, St.get]
        exact .wMove s i 4 hl (by simp [hpc, hr])
      · simp at hm
        obtain ⟨rfl, rfl⟩ := hm
        simp [localReady] at hr
      · simp at hm
        rcases hm with ⟨rfl, rfl⟩ | ⟨rfl, rfl⟩ | ⟨rfl, rfl⟩
        · simp [localReady] at hr
          simp only [localEffect, St.set, St.get]
          exact .wMove s i 4 hl (by simp [hpc, hr])
        · simp [localReady] at hr
        · simp [localReady] at hr
    | p n =>
      rw [instrAt_p] at hi
      rcases pushProg_select hi with ⟨hpc, rfl, -⟩ | ⟨hpc, rfl, -⟩
      · simp at hm
        obtain ⟨rfl, rfl⟩ := hm
        simp [localReady] at hr
        simp only [localEffect, St.set, St.get]
        exact .pMove s n 2 hl (by simp [hpc, hr])
      · simp at hm
        rcases hm with ⟨rfl, rfl⟩ | ⟨rfl, rfl⟩ | ⟨rfl, rfl⟩
        · simp [localReady] at hr
          simp only [localEffect, St.set, St.get]
          exact .pMove s n 2 hl (by simp [hpc, hr])
        · simp [localReady, St.lane] at hr
          simp only [localEffect, St.set, St.get, St.lane]
          exact .pSend s n hl hpc hr
        · simp only [localEffect, St.set, St.get]
          exact .pMove s n 4 hl (by simp [hpc])
  | dflt g cs d hl hnp hi hnr =>
    cases g with
    | q i =>
      rw [instrAt_q] at hi
      rcases queueProg_select hi with ⟨hpc, rfl, hd⟩ | ⟨hpc, rfl, hd⟩ | ⟨hpc, rfl, hd⟩ | ⟨hpc, rfl, hd⟩ <;>
        simp at hd <;> subst hd <;> simp only [St.set, St.get]
      · exact .qMove s i 3 hl (by simp [hpc])
      · exact .qMove s i 4 hl (by simp [hpc])
    | w i =>
      rw [instrAt_w] at hi
      rcases workerProg_select hi with ⟨hpc, rfl, hd⟩ | ⟨hpc, rfl, hd⟩ | ⟨hpc, rfl, hd⟩ <;>
        simp at hd <;> subst hd <;> simp only [St.set, St.get]
      · exact .wMove s i 1 hl (by simp [hpc])
      · exact .wMove s i 2 hl (by simp [hpc])
    | p n =>
      rw [instrAt_p] at hi
      rcases pushProg_select hi with ⟨hpc, rfl, hd⟩ | ⟨hpc, rfl, hd⟩ <;>
        simp at hd <;> subst hd <;> simp only [St.set, St.get]
      · exact .pMove s n 1 hl (by simp [hpc])
  | park g cs hl hnp hi hnr =>
    cases g with
    | q i =>
      rw [instrAt_q] at hi
      rcases queueProg_select hi with ⟨hpc, rfl, hd⟩ | ⟨hpc, rfl, hd⟩ | ⟨hpc, rfl, hd⟩ | ⟨hpc, rfl, hd⟩ <;>
        simp at hd <;> simp only [St.set, St.get]
      · exact .qPark s i hl (.inl hpc)
      · exact .qPark s i hl (.inr hpc)
    | w i =>
      rw [instrAt_w] at hi
      rcases workerProg_select hi with ⟨hpc, rfl, hd⟩ | ⟨hpc, rfl, hd⟩ | ⟨hpc, rfl, hd⟩ <;>
        simp at hd <;> simp only [St.set, St.get]
      · exact .wPark s i hl hpc
    | p n =>
      rw [instrAt_p] at hi
      rcases pushProg_select hi with ⟨hpc, rfl, hd⟩ | ⟨hpc, rfl, hd⟩ <;>
        simp at hd <;> simp only [St.set, St.get]
      · exact .pPark s n hl hpc
  | incCnt g n hl hi =>
    cases g with
    | q i =>
      rw [instrAt_q] at hi
      rcases queueProg_act hi with ⟨hpc, ha, rfl⟩ | ⟨hpc, ha, rfl⟩ <;> simp at ha
      simp only [St.set, St.get]; exact .inc s i hl hpc
    | w i => rw [instrAt_w] at hi; have := workerProg_act hi; simp at this
    | p k => rw [instrAt_p] at hi; rcases pushProg_act hi with ⟨_, ha, _⟩ | ⟨_, ha, _⟩ | ⟨_, ha, _⟩ <;> simp at ha
  | decCnt g n hl hi =>
    cases g with
    | q i =>
      rw [instrAt_q] at hi
      rcases queueProg_act hi with ⟨hpc, ha, rfl⟩ | ⟨hpc, ha, rfl⟩ <;> simp at ha
      simp only [St.set, St.get]; exact .dec s i hl hpc
    | w i => rw [instrAt_w] at hi; have := workerProg_act hi; simp at this
    | p k => rw [instrAt_p] at hi; rcases pushProg_act hi with ⟨_, ha, _⟩ | ⟨_, ha, _⟩ | ⟨_, ha, _⟩ <;> simp at ha
  | start i n hl hp hi =>
    rw [instrAt_w] at hi
    obtain ⟨hpc, -, rfl⟩ := workerProg_act hi
    exact .start s i hl hpc hp
  | finish i n v hl hp hi =>
    rw [instrAt_w] at hi
    obtain ⟨hpc, -, rfl⟩ := workerProg_act hi
    exact .finish s i v hl hpc hp
  | pushRet k a n r hk hi hr =>
    rw [instrAt_p] at hi
    rcases pushProg_act hi with ⟨hpc, rfl, rfl⟩ | ⟨hpc, rfl, rfl⟩ | ⟨hpc, rfl, rfl⟩ <;> simp at hr <;>
      exact .pushRet s k r hk (by simp [hpc, hr])
  | handover g h cs d x tg th hl hi hm hq hne hp =>
    rcases parkedOn_inv hp with ⟨i, rfl, hi', hpc', hk, hch, rfl⟩ | ⟨i, rfl, hi', hpc', hk, rfl⟩ |
      ⟨j, rfl, hj, hpc', hk, rfl⟩ | ⟨n, rfl, hn, hpc', hk, hch, rfl⟩
    · simp at hk; subst hk
      cases g with
      | q i2 =>
        rw [instrAt_q] at hi
        rcases queueProg_select hi with ⟨_, rfl, _⟩ | ⟨_, rfl, _⟩ | ⟨_, rfl, _⟩ | ⟨_, rfl, _⟩ <;> simp at hm
      | w i2 =>
        rw [instrAt_w] at hi
        rcases workerProg_select hi with ⟨_, rfl, _⟩ | ⟨_, rfl, _⟩ | ⟨_, rfl, _⟩ <;> simp at hm
      | p n =>
        rw [instrAt_p] at hi
        rcases pushProg_select hi with ⟨hpc, rfl, -⟩ | ⟨hpc, rfl, -⟩ <;> simp at hm
        subst hm
        simp [chanOf, St.lane] at hch
        simp only [St.set, St.get, ↓reduceIte]
        exact .pqXfer s n i hl hi' hpc hpc' hch (hq rfl)
    · rcases hk with ⟨hk, -⟩ | ⟨hk, -⟩ <;> simp at hk
    · cases g with
      | q i =>
        rw [instrAt_q] at hi
        have hx : x ≠ .buf := by rcases hk with ⟨hk, -⟩ | ⟨hk, -⟩ <;> simp at hk <;> simp [hk]
        rcases queueProg_select hi with ⟨hpc, rfl, -⟩ | ⟨hpc, rfl, -⟩ | ⟨hpc, rfl, -⟩ | ⟨hpc, rfl, -⟩
        · simp at hm
        · simp at hm
        · simp at hm
          obtain ⟨-, rfl⟩ := hm
          simp only [St.set, St.get, hx, ↓reduceIte]
          exact .qwXfer s i j hl hj (.inl hpc) (.inr hpc')
        · simp at hm
          have htg : tg = 5 := by rcases hm with ⟨_, h⟩ | ⟨_, h⟩ <;> exact h
          subst htg
          simp only [St.set, St.get, hx, ↓reduceIte]
          exact .qwXfer s i j hl hj (.inr hpc) (.inr hpc')
      | w i2 =>
        rw [instrAt_w] at hi
        rcases workerProg_select hi with ⟨_, rfl, _⟩ | ⟨_, rfl, _⟩ | ⟨_, rfl, _⟩ <;> simp at hm
      | p n =>
        rw [instrAt_p] at hi
        rcases pushProg_select hi with ⟨hpc, rfl, -⟩ | ⟨hpc, rfl, -⟩ <;> simp at hm
        obtain ⟨rfl, rfl⟩ := hm
        rcases hk with ⟨hk, -⟩ | ⟨hk, -⟩ <;> simp at hk
    · simp at hk
  | takeover g h cs d x tg th hl hi hm hq hne hp =>
    rcases parkedOn_inv hp with ⟨i, rfl, hi', hpc', hk, hch, rfl⟩ | ⟨i, rfl, hi', hpc', hk, rfl⟩ |
      ⟨j, rfl, hj, hpc', hk, rfl⟩ | ⟨n, rfl, hn, hpc', hk, hch, rfl⟩
    · simp at hk
    · have hx : x ≠ .buf := by rcases hk with ⟨hk, -⟩ | ⟨hk, -⟩ <;> simp at hk <;> simp [hk]
      cases g with
      | q i2 =>
        rw [instrAt_q] at hi
        rcases queueProg_select hi with ⟨_, rfl, _⟩ | ⟨_, rfl, _⟩ | ⟨_, rfl, _⟩ | ⟨_, rfl, _⟩ <;> simp at hm
        exact absurd hm.1 hx
      | w j =>
        rw [instrAt_w] at hi
        rcases workerProg_select hi with ⟨hpc, rfl, -⟩ | ⟨hpc, rfl, -⟩ | ⟨hpc, rfl, -⟩
        · simp at hm
        · simp at hm
          obtain ⟨-, rfl⟩ := hm
          simp only [St.set, St.get, hx, ↓reduceIte]
          exact .qwXfer s i j hi' hl (.inr hpc') (.inl hpc)
        · simp at hm
          have htg : tg = 3 := by rcases hm with ⟨_, h⟩ | ⟨_, h⟩ <;> exact h
          subst htg
          simp only [St.set, St.get, hx, ↓reduceIte]
          exact .qwXfer s i j hi' hl (.inr hpc') (.inr hpc)
      | p n =>
        rw [instrAt_p] at hi
        rcases pushProg_select hi with ⟨_, rfl, _⟩ | ⟨_, rfl, _⟩ <;> simp at hm
    · rcases hk with ⟨hk, -⟩ | ⟨hk, -⟩ <;> simp at hk
    · simp at hk; subst hk
      cases g with
      | q i =>
        rw [instrAt_q] at hi
        rcases queueProg_select hi with ⟨hpc, rfl, _⟩ | ⟨_, rfl, _⟩ | ⟨_, rfl, _⟩ | ⟨_, rfl, _⟩ <;> simp at hm
        subst hm
        simp [chanOf, St.lane] at hch
        simp only [St.set, St.get, ↓reduceIte]
        exact .pqXfer s n i hn hl hpc' hpc hch.symm (hq rfl)
      | w j =>
        rw [instrAt_w] at hi
        rcases workerProg_select hi with ⟨_, rfl, _⟩ | ⟨_, rfl, _⟩ | ⟨_, rfl, _⟩ <;> simp at hm
      | p n2 =>
        rw [instrAt_p] at hi
        rcases pushProg_select hi with ⟨_, rfl, _⟩ | ⟨_, rfl, _⟩ <;> simp at hm


/-- invariants are proved over the concrete step relation -/
theorem reachable_induct {L Q : Nat} {P : St → Prop} (h0 : P init)
    (hs : ∀ s s', Reachable (cfg L Q) s → P s → CStep L Q s s' → P s') :
    ∀ s, Reachable (cfg L Q) s → P s := by
  intro s h
  induction h with
  | init => exact h0
  | step s l s' hr hst ih => exact hs s s' hr ih hst.toCStep

/-! ## 3. sums over lanes under point updates -/

/-- `F (f 0) + … + F (f (n-1))` -/
def sumG {α} (n : Nat) (F : α → Nat) (f : Nat → α) : Nat := sumTo n (fun j => F (f j))

theorem sumTo_upd_beyond (n : Nat) (f : Nat → Nat) (i v : Nat) (h : n ≤ i) :
    sumTo n (upd f i v) = sumTo n f := by
  induction n with
  | zero => rfl
  | succ n ih =>
    simp only [sumTo]
    rw [ih (by omega), upd_other _ _ _ _ (by omega)]

theorem sumTo_split (n : Nat) (f : Nat → Nat) (i : Nat) (h : i < n) :
    ∃ r, sumTo n f = r + f i ∧ ∀ v, sumTo n (upd f i v) = r + v := by
  induction n with
  | zero => omega
  | succ n ih =>
    by_cases hi : i = n
    · subst hi
      refine ⟨sumTo i f, rfl, fun v => ?_⟩
      simp only [sumTo, upd_same]
      rw [sumTo_upd_beyond _ _ _ _ (Nat.le_refl _)]
    · obtain ⟨r, h1, h2⟩ := ih (by omega)
      refine ⟨r + f n, by simp only [sumTo]; omega, fun v => ?_⟩
      simp only [sumTo]
      rw [h2 v, upd_other _ _ _ _ (by omega)]; omega

theorem sumG_split {α} (n : Nat) (F : α → Nat) (f : Nat → α) (i : Nat) (h : i < n) :
    ∃ r, sumG n F f = r + F (f i) ∧ ∀ x, sumG n F (upd f i x) = r + F x := by
  obtain ⟨r, h1, h2⟩ := sumTo_split n (fun j => F (f j)) i h
  refine ⟨r, h1, fun x => ?_⟩
  have : (fun j => F (upd f i x j)) = upd (fun j => F (f j)) i (F x) := by
    funext j; simp only [upd]; split <;> rfl
  simp only [sumG, this, h2]

theorem sumTo_le_mul (n : Nat) (f : Nat → Nat) (b : Nat) (h : ∀ i, i < n → f i ≤ b) :
    sumTo n f ≤ n * b := by
  induction n with
  | zero => simp [sumTo]
  | succ n ih =>
    have := ih (fun i hi => h i (by omega))
    have := h n (by omega)
    simp only [sumTo, Nat.succ_mul]; omega

theorem sumG_le {α} (n : Nat) (F : α → Nat) (f : Nat → α) (b : Nat) (h : ∀ x, F x ≤ b) :
    sumG n F f ≤ n * b := sumTo_le_mul _ _ _ (fun _ _ => h _)

theorem sumTo_congr (n : Nat) (f g : Nat → Nat) (h : ∀ i, i < n → f i = g i) :
    sumTo n f = sumTo n g := by
  induction n with
  | zero => rfl
  | succ n ih => simp only [sumTo]; rw [ih (fun i hi => h i (by omega)), h n (by omega)]

theorem sumTo_le_sumTo (n : Nat) (f g : Nat → Nat) (h : ∀ i, i < n → f i ≤ g i) :
    sumTo n f ≤ sumTo n g := by
  induction n with
  | zero => simp [sumTo]
  | succ n ih =>
    have := ih (fun i hi => h i (by omega)); have := h n (by omega)
    simp only [sumTo]; omega

theorem count_catTo (t : Tid) (n : Nat) (f : Nat → List Tid) :
    (catTo n f).count t = sumTo n (fun j => (f j).count t) := by
  induction n with
  | zero => rfl
  | succ n ih => simp only [catTo, sumTo, List.count_append, ih]

theorem length_catTo (n : Nat) (f : Nat → List Tid) :
    (catTo n f).length = sumTo n (fun j => (f j).length) := by
  induction n with
  | zero => rfl
  | succ n ih => simp only [catTo, sumTo, List.length_append, ih]


/-! ## 4. invariants -/

/-- queue goroutine between `cnt++` and `cnt--` -/
def inFl (x : G) : Nat := if 2 ≤ x.pc ∧ x.pc ≤ 5 then 1 else 0
/-- … or exited (possibly without decrementing) -/
def inFl' (x : G) : Nat := if 2 ≤ x.pc ∧ x.pc ≤ 6 then 1 else 0
/-- worker inside `Start()` -/
def runB (x : G) : Nat := if x.pc = 3 ∧ x.parked = true then 1 else 0

structure InvBasic (L Q : Nat) (s : St) : Prop where
  panic : s.lastPanic = s.panics.getLast?
  buf : ∀ i, (s.buf i).length ≤ Q
  cntLo : sumG L inFl s.qs ≤ s.cnt
  cntHi : s.cnt ≤ sumG L inFl' s.qs
  cntEq : s.cancelled = false → s.cnt = sumG L inFl s.qs
  run : s.started.length = s.finished.length + sumG L runB s.ws

theorem sumG_init {α} (n : Nat) (F : α → Nat) (x : α) (h : F x = 0) : sumG n F (fun _ => x) = 0 := by
  induction n with
  | zero => rfl
  | succ n ih => simp only [sumG, sumTo] at *; omega

theorem invBasic_init (L Q : Nat) : InvBasic L Q init := by
  refine ⟨rfl, ?_, ?_, ?_, ?_, ?_⟩ <;> simp [init, sumG_init, inFl, inFl', runB]

theorem InvBasic.step {L Q s s'} (h : InvBasic L Q s) (hs : CStep L Q s s') : InvBasic L Q s' := by
  obtain ⟨hp, hb, hlo, hhi, heq, hrun⟩ := h
  cases hs with
  | cancel hc => exact ⟨hp, hb, hlo, hhi, by simp, hrun⟩
  | push t lane hl hf => exact ⟨hp, hb, hlo, hhi, heq, hrun⟩
  | qMove i n hi hc =>
    obtain ⟨r1, a1, b1⟩ := sumG_split L inFl s.qs i hi
    obtain ⟨r2, a2, b2⟩ := sumG_split L inFl' s.qs i hi
    refine ⟨hp, hb, ?_, ?_, ?_, hrun⟩ <;> simp only [b1, b2, a1, a2] at * <;>
      simp only [inFl, inFl', goto] at * <;> grind
  | wMove i n hi hc =>
    obtain ⟨r1, a1, b1⟩ := sumG_split L runB s.ws i hi
    refine ⟨hp, hb, hlo, hhi, heq, ?_⟩
    simp only [b1, a1] at *; simp only [runB, goto] at *; grind
  | pMove k n hk hc => exact ⟨hp, hb, hlo, hhi, heq, hrun⟩
  | qPark i hi hc =>
    obtain ⟨r1, a1, b1⟩ := sumG_split L inFl s.qs i hi
    obtain ⟨r2, a2, b2⟩ := sumG_split L inFl' s.qs i hi
    refine ⟨hp, hb, ?_, ?_, ?_, hrun⟩ <;> simp only [b1, b2, a1, a2] at * <;>
      simp only [inFl, inFl'] at * <;> grind
  | wPark i hi hc =>
    obtain ⟨r1, a1, b1⟩ := sumG_split L runB s.ws i hi
    refine ⟨hp, hb, hlo, hhi, heq, ?_⟩
    simp only [b1, a1] at *; simp only [runB] at *; grind
  | pPark k hk hc => exact ⟨hp, hb, hlo, hhi, heq, hrun⟩
  | qRecv i hi hc hne =>
    obtain ⟨r1, a1, b1⟩ := sumG_split L inFl s.qs i hi
    obtain ⟨r2, a2, b2⟩ := sumG_split L inFl' s.qs i hi
    refine ⟨hp, ?_, ?_, ?_, ?_, hrun⟩
    · intro j; have := hb j; have := hb i; simp only [upd]; split <;> simp <;> omega
    all_goals simp only [b1, b2, a1, a2] at * <;> simp only [inFl, inFl'] at * <;> grind
  | pSend k hk hc hlen =>
    refine ⟨hp, ?_, hlo, hhi, heq, hrun⟩
    intro j; have := hb j; simp only [upd]; split <;> simp <;> omega
  | pqXfer k i hk hi hc hc' hpl hq =>
    obtain ⟨r1, a1, b1⟩ := sumG_split L inFl s.qs i hi
    obtain ⟨r2, a2, b2⟩ := sumG_split L inFl' s.qs i hi
    refine ⟨hp, hb, ?_, ?_, ?_, hrun⟩ <;> simp only [b1, b2, a1, a2] at * <;>
      simp only [inFl, inFl'] at * <;> grind
  | qwXfer i j hi hj hc hc' =>
    obtain ⟨r1, a1, b1⟩ := sumG_split L inFl s.qs i hi
    obtain ⟨r2, a2, b2⟩ := sumG_split L inFl' s.qs i hi
    obtain ⟨r3, a3, b3⟩ := sumG_split L runB s.ws j hj
    refine ⟨hp, hb, ?_, ?_, ?_, ?_⟩ <;> simp only [b1, b2, b3, a1, a2, a3] at * <;>
      simp only [inFl, inFl', runB, goto] at * <;> grind
  | inc i hi hc =>
    obtain ⟨r1, a1, b1⟩ := sumG_split L inFl s.qs i hi
    obtain ⟨r2, a2, b2⟩ := sumG_split L inFl' s.qs i hi
    refine ⟨hp, hb, ?_, ?_, ?_, hrun⟩ <;> simp only [b1, b2, a1, a2] at * <;>
      simp only [inFl, inFl', goto] at * <;> grind
  | dec i hi hc =>
    obtain ⟨r1, a1, b1⟩ := sumG_split L inFl s.qs i hi
    obtain ⟨r2, a2, b2⟩ := sumG_split L inFl' s.qs i hi
    refine ⟨hp, hb, ?_, ?_, ?_, hrun⟩ <;> simp only [b1, b2, a1, a2] at * <;>
      simp only [inFl, inFl', goto] at * <;> grind
  | start i hi hc hnp =>
    obtain ⟨r1, a1, b1⟩ := sumG_split L runB s.ws i hi
    refine ⟨hp, hb, hlo, hhi, heq, ?_⟩
    simp only [b1, a1, List.length_append, List.length_singleton] at *; simp only [runB] at *; grind
  | finish i v hi hc hpk =>
    obtain ⟨r1, a1, b1⟩ := sumG_split L runB s.ws i hi
    refine ⟨?_, hb, hlo, hhi, heq, ?_⟩
    · cases v <;> simp [hp]
    · simp only [b1, a1, List.length_append, List.length_singleton] at *; simp only [runB, goto] at *; grind
  | pushRet k r hk hc => exact ⟨hp, hb, hlo, hhi, heq, hrun⟩


/-- facts about the producers (`PushTask` calls), `accepted` and `results` -/
structure InvProd (L : Nat) (s : St) : Prop where
  plane : ∀ k, k < s.np → s.plane k < L
  fresh : ∀ k k', k < s.np → k' < s.np → (s.ps k).held = (s.ps k').held → k = k'
  accOwner : ∀ t, t ∈ s.accepted → ∃ k, k < s.np ∧ (s.ps k).held = t
  notAcc : ∀ k, k < s.np → ((s.ps k).pc ≤ 2 ∨ (s.ps k).pc = 4) → (s.ps k).held ∉ s.accepted
  acc3 : ∀ k, k < s.np → (s.ps k).pc = 3 → (s.ps k).held ∈ s.accepted
  noRes : ∀ k, k < s.np → (s.ps k).pc ≠ 5 → ∀ r, ((s.ps k).held, r) ∉ s.results
  res : ∀ t r, (t, r) ∈ s.results →
    ∃ k, k < s.np ∧ (s.ps k).held = t ∧ (s.ps k).pc = 5 ∧ (r = .nil ↔ t ∈ s.accepted)
  accNodup : s.accepted.Nodup

theorem invProd_init (L : Nat) : InvProd L init := by
  constructor <;> simp [init]

theorem InvProd.step {L Q s s'} (h : InvProd L s) (hs : CStep L Q s s') : InvProd L s' := by
  obtain ⟨h1, h2, h3, h4, h5, h6, h7, h8⟩ := h
  cases hs with
  | cancel hc => exact ⟨h1, h2, h3, h4, h5, h6, h7, h8⟩
  | push t lane hl hf =>
    constructor <;> simp only [upd] <;> grind
  | qMove i n hi hc => exact ⟨h1, h2, h3, h4, h5, h6, h7, h8⟩
  | wMove i n hi hc => exact ⟨h1, h2, h3, h4, h5, h6, h7, h8⟩
  | pMove k n hk hc =>
    constructor <;> simp only [upd, goto] <;> grind
  | qPark i hi hc => exact ⟨h1, h2, h3, h4, h5, h6, h7, h8⟩
  | wPark i hi hc => exact ⟨h1, h2, h3, h4, h5, h6, h7, h8⟩
  | pPark k hk hc =>
    constructor <;> simp only [upd] <;> grind
  | qRecv i hi hc hne => exact ⟨h1, h2, h3, h4, h5, h6, h7, h8⟩
  | pSend k hk hc hlen =>
    constructor <;> simp only [upd, goto] <;> grind
  | pqXfer k i hk hi hc hc' hpl hq =>
    constructor <;> simp only [upd, goto] <;> grind
  | qwXfer i j hi hj hc hc' => exact ⟨h1, h2, h3, h4, h5, h6, h7, h8⟩
  | inc i hi hc => exact ⟨h1, h2, h3, h4, h5, h6, h7, h8⟩
  | dec i hi hc => exact ⟨h1, h2, h3, h4, h5, h6, h7, h8⟩
  | start i hi hc hnp => exact ⟨h1, h2, h3, h4, h5, h6, h7, h8⟩
  | finish i v hi hc hpk => exact ⟨h1, h2, h3, h4, h5, h6, h7, h8⟩
  | pushRet k r hk hc =>
    constructor <;> simp only [upd, goto] <;> grind


/-- occurrences of task `t` in the hand of a queue goroutine / of a worker about to call `Start()` -/
def cQ (t : Tid) (x : G) : Nat := (qHolding x).count t
def cW (t : Tid) (x : G) : Nat := (wHolding x).count t

theorem cQ_eq (t : Tid) (x : G) : cQ t x = if 1 ≤ x.pc ∧ x.pc ≤ 4 ∧ x.held = t then 1 else 0 := by
  unfold cQ qHolding; split <;> simp_all [List.count_singleton] <;> omega

theorem cW_eq (t : Tid) (x : G) : cW t x = if x.pc = 3 ∧ x.parked = false ∧ x.held = t then 1 else 0 := by
  unfold cW wHolding; split <;> simp_all [List.count_singleton]

/-- occurrences of task `t` among the pending tasks -/
def pcountOf (L : Nat) (t : Tid) (buf : Nat → List Tid) (qs ws : Nat → G) : Nat :=
  sumG L (List.count t) buf + sumG L (cQ t) qs + sumG L (cW t) ws

theorem count_pending (L Q : Nat) (s : St) (t : Tid) :
    (s.pending (cfg L Q)).count t = pcountOf L t s.buf s.qs s.ws := by
  simp only [St.pending, pendingOf, List.count_append, count_catTo, pcountOf, sumG, cQ, cW, cfg]

/-- conservation of tasks: every pending or started task is accounted for in `accepted`, and while
    the context is live the accounting is exact -/
def InvCount (L : Nat) (s : St) : Prop :=
  ∀ t, pcountOf L t s.buf s.qs s.ws + s.started.count t ≤ s.accepted.count t ∧
    (s.cancelled = false → pcountOf L t s.buf s.qs s.ws + s.started.count t = s.accepted.count t)

theorem invCount_init (L : Nat) : InvCount L init := by
  intro t
  have h1 : sumG L (List.count t) (fun _ => ([] : List Tid)) = 0 := sumG_init _ _ _ rfl
  have h2 : sumG L (cQ t) (fun _ => ({} : G)) = 0 := sumG_init _ _ _ (by simp [cQ_eq])
  have h3 : sumG L (cW t) (fun _ => ({} : G)) = 0 := sumG_init _ _ _ (by simp [cW_eq])
  simp [init, pcountOf, h1, h2, h3]

theorem InvCount.step {L Q s s'} (hp : InvProd L s) (h : InvCount L s) (hs : CStep L Q s s') :
    InvCount L s' := by
  intro t
  have ht := h t
  simp only [pcountOf] at ht ⊢
  cases hs with
  | cancel hc => exact ⟨ht.1, by simp⟩
  | push t lane hl hf => exact ht
  | qMove i n hi hc =>
    obtain ⟨r1, a1, b1⟩ := sumG_split L (cQ t) s.qs i hi
    simp only [a1, b1] at *; simp only [cQ_eq, goto] at *; grind
  | wMove i n hi hc =>
    obtain ⟨r1, a1, b1⟩ := sumG_split L (cW t) s.ws i hi
    simp only [a1, b1] at *; simp only [cW_eq, goto] at *; grind
  | pMove k n hk hc => exact ht
  | qPark i hi hc =>
    obtain ⟨r1, a1, b1⟩ := sumG_split L (cQ t) s.qs i hi
    simp only [a1, b1] at *; simp only [cQ_eq] at *; grind
  | wPark i hi hc =>
    obtain ⟨r1, a1, b1⟩ := sumG_split L (cW t) s.ws i hi
    simp only [a1, b1] at *; simp only [cW_eq] at *; grind
  | pPark k hk hc => exact ht
  | qRecv i hi hc hne =>
    obtain ⟨r1, a1, b1⟩ := sumG_split L (cQ t) s.qs i hi
    obtain ⟨r2, a2, b2⟩ := sumG_split L (List.count t) s.buf i hi
    cases hb : s.buf i with
    | nil => exact absurd hb hne
    | cons hd tl =>
      simp only [a1, b1, a2, b2, hb, List.tail_cons, List.headD_cons, List.count_cons] at *
      simp only [cQ_eq] at *; grind
  | pSend k hk hc hlen =>
    obtain ⟨r2, a2, b2⟩ := sumG_split L (List.count t) s.buf (s.plane k) (hp.plane k hk)
    simp only [a2, b2, List.count_append, List.count_singleton] at *; grind
  | pqXfer k i hk hi hc hc' hpl hq =>
    obtain ⟨r1, a1, b1⟩ := sumG_split L (cQ t) s.qs i hi
    simp only [a1, b1, List.count_append, List.count_singleton] at *; simp only [cQ_eq] at *; grind
  | qwXfer i j hi hj hc hc' =>
    obtain ⟨r1, a1, b1⟩ := sumG_split L (cQ t) s.qs i hi
    obtain ⟨r2, a2, b2⟩ := sumG_split L (cW t) s.ws j hj
    simp only [a1, b1, a2, b2] at *; simp only [cQ_eq, cW_eq, goto] at *; grind
  | inc i hi hc =>
    obtain ⟨r1, a1, b1⟩ := sumG_split L (cQ t) s.qs i hi
    simp only [a1, b1] at *; simp only [cQ_eq, goto] at *; grind
  | dec i hi hc =>
    obtain ⟨r1, a1, b1⟩ := sumG_split L (cQ t) s.qs i hi
    simp only [a1, b1] at *; simp only [cQ_eq, goto] at *; grind
  | start i hi hc hnp =>
    obtain ⟨r1, a1, b1⟩ := sumG_split L (cW t) s.ws i hi
    simp only [a1, b1, List.count_append, List.count_singleton] at *; simp only [cW_eq] at *; grind
  | finish i v hi hc hpk =>
    obtain ⟨r1, a1, b1⟩ := sumG_split L (cW t) s.ws i hi
    simp only [a1, b1] at *; simp only [cW_eq, goto] at *; grind
  | pushRet k r hk hc => exact ht


/-! ## 5. the bundle, and consequences used by the property files -/

/-- the global well-formedness invariant of `cfg L Q` -/
structure WFS (L Q : Nat) (s : St) : Prop where
  basic : InvBasic L Q s
  prod : InvProd L s
  count : InvCount L s

theorem wfs_of_reachable {L Q : Nat} {s : St} (h : Reachable (cfg L Q) s) : WFS L Q s := by
  refine reachable_induct (P := WFS L Q) ⟨invBasic_init L Q, invProd_init L, invCount_init L⟩ ?_ s h
  intro s s' _ w hs
  exact ⟨w.basic.step hs, w.prod.step hs, w.count.step w.prod hs⟩

theorem sumTo_zero (n : Nat) : sumTo n (fun _ => 0) = 0 := by
  induction n with
  | zero => rfl
  | succ n ih => simp only [sumTo, ih]

theorem WFS.count_le {L Q s} (w : WFS L Q s) (t : Tid) :
    (s.pending (cfg L Q) ++ s.started).count t ≤ s.accepted.count t := by
  rw [List.count_append, count_pending]; exact (w.count t).1

theorem WFS.count_eq {L Q s} (w : WFS L Q s) (hc : s.cancelled = false) (t : Tid) :
    (s.pending (cfg L Q) ++ s.started).count t = s.accepted.count t := by
  rw [List.count_append, count_pending]; exact (w.count t).2 hc

theorem WFS.accepted_count_le {L Q s} (w : WFS L Q s) (t : Tid) : s.accepted.count t ≤ 1 :=
  List.nodup_iff_count.1 w.prod.accNodup t

theorem WFS.cnt_le {L Q s} (w : WFS L Q s) : s.cnt ≤ L := by
  have h1 := w.basic.cntHi
  have h2 := sumG_le L inFl' s.qs 1 (fun x => by unfold inFl'; split <;> omega)
  omega


/-- inversion of a step labelled `finish` (for an arbitrary configuration) -/
theorem Step.finish_inv {c : Cfg} {s s' : St} {l : Label} (h : Step c s l s') {i : Nat} {t : Tid}
    {v : Option Nat} (hl : l = .finish i t v) :
    ∃ n, i < c.L ∧ (s.ws i).parked = true ∧ instrAt c s (.w i) = some (.act .run n) ∧
      t = (s.ws i).held ∧
      s' = { s with ws := upd s.ws i (goto (s.ws i) n), finished := s.finished ++ [(s.ws i).held],
                    lastPanic := match (generalizing := false) v with | some x => some x | none => s.lastPanic,
                    panics := match (generalizing := false) v with | some x => s.panics ++ [x] | none => s.panics } := by
  cases h with
  | takeLocal g cs d k tg _ _ _ _ => split at hl <;> cases hl
  | finish i' n v' hi hp hin =>
    injection hl with h1 h2 h3
    subst h1 h2 h3
    exact ⟨n, hi, hp, hin, rfl, rfl⟩
  | _ => cases hl


/-! ## 6. panic erasure: a run with panicking tasks is, up to `lastPanic`/`panics`, a run without -/

def erasePanics (s : St) : St := { s with lastPanic := none, panics := [] }

theorem erasePanics_set (s : St) (g : Gid) (x : G) : erasePanics (s.set g x) = (erasePanics s).set g x := by
  cases g <;> rfl

theorem erasePanics_get (s : St) (g : Gid) : (erasePanics s).get g = s.get g := by
  cases g <;> rfl

theorem erasePanics_localEffect (s : St) (g : Gid) (k : Case) :
    erasePanics (localEffect s g k) = localEffect (erasePanics s) g k := by
  cases k with
  | recv x => cases x <;> cases g <;> rfl
  | send x => cases x <;> cases g <;> rfl
  | done => rfl
  | timeout => rfl

theorem Step.cast {c : Cfg} {s s₁ s₂ : St} {l : Label} (h : Step c s l s₁) (e : s₁ = s₂) : Step c s l s₂ :=
  e ▸ h

/-- every step is matched, on the panic-erased states, by a step that is not a panicking `finish` -/
theorem Step.erasePanics {c : Cfg} {s s' : St} {l : Label} (h : Step c s l s') :
    ∃ l', Step c (erasePanics s) l' (erasePanics s') ∧ ∀ i t v, l' ≠ .finish i t (some v) := by
  cases h with
  | cancel hc => exact ⟨_, Step.cancel (Glb.TaskLane.erasePanics s) hc, by intros; simp⟩
  | push t lane hl hf => exact ⟨_, Step.push (Glb.TaskLane.erasePanics s) t lane hl hf, by intros; simp⟩
  | takeLocal g cs d k tg hl hi hm hr =>
    have := Step.takeLocal (Glb.TaskLane.erasePanics s) g cs d k tg hl hi hm hr
    simp only [← erasePanics_localEffect, erasePanics_get, ← erasePanics_set] at this
    exact ⟨_, this, by intros; split <;> simp⟩
  | handover g h cs d x tg th hl hi hm hq hne hp =>
    have := Step.handover (Glb.TaskLane.erasePanics s) g h cs d x tg th hl hi hm hq hne hp
    refine ⟨.tau, Step.cast this ?_, by intros; simp⟩
    cases g <;> cases h <;> cases x <;> rfl
  | takeover g h cs d x tg th hl hi hm hq hne hp =>
    have := Step.takeover (Glb.TaskLane.erasePanics s) g h cs d x tg th hl hi hm hq hne hp
    refine ⟨.tau, Step.cast this ?_, by intros; simp⟩
    cases g <;> cases h <;> cases x <;> rfl
  | dflt g cs d hl hnp hi hnr =>
    have := Step.dflt (Glb.TaskLane.erasePanics s) g cs d hl ((erasePanics_get s g).symm ▸ hnp) hi hnr
    rw [erasePanics_get, ← erasePanics_set] at this
    exact ⟨_, this, by intros; simp⟩
  | park g cs hl hnp hi hnr =>
    have := Step.park (Glb.TaskLane.erasePanics s) g cs hl ((erasePanics_get s g).symm ▸ hnp) hi hnr
    rw [erasePanics_get, ← erasePanics_set] at this
    exact ⟨_, this, by intros; simp⟩
  | incCnt g n hl hi =>
    have := Step.incCnt (Glb.TaskLane.erasePanics s) g n hl hi
    refine ⟨.tau, Step.cast this ?_, by intros; simp⟩
    cases g <;> rfl
  | decCnt g n hl hi =>
    have := Step.decCnt (Glb.TaskLane.erasePanics s) g n hl hi
    refine ⟨.tau, Step.cast this ?_, by intros; simp⟩
    cases g <;> rfl
  | start i n hl hp hi => exact ⟨_, Step.start (Glb.TaskLane.erasePanics s) i n hl hp hi, by intros; simp⟩
  | finish i n v hl hp hi => exact ⟨_, Step.finish (Glb.TaskLane.erasePanics s) i n none hl hp hi, by intros; simp⟩
  | pushRet k a n r hk hi hr =>
    exact ⟨_, Step.pushRet (Glb.TaskLane.erasePanics s) k a n r hk hi hr, by intros; simp⟩

/-- reachable by a run in which no task panics -/
inductive ReachableNoPanic (c : Cfg) : St → Prop where
  | init : ReachableNoPanic c init
  | step (s l s') : ReachableNoPanic c s → Step c s l s' → (∀ i t v, l ≠ .finish i t (some v)) →
      ReachableNoPanic c s'

theorem ReachableNoPanic.reachable {c : Cfg} {s : St} (h : ReachableNoPanic c s) : Reachable c s := by
  induction h with
  | init => exact .init
  | step s l s' _ hs _ ih => exact .step s l s' ih hs

/-- sanity: such a run never sets `lastPanic` -/
theorem ReachableNoPanic.lastPanic_none {c : Cfg} {s : St} (h : ReachableNoPanic c s) :
    s.lastPanic = none ∧ s.panics = [] := by
  induction h with
  | init => exact ⟨rfl, rfl⟩
  | step s l s' _ hs hl ih =>
    cases hs with
    | finish i n v _ _ _ =>
      cases v with
      | none => exact ih
      | some x => exact absurd rfl (hl i _ x)
    | takeLocal g cs d k tg _ _ _ _ =>
      have e1 : ∀ s : St, ((localEffect s g k).set g (goto ((localEffect s g k).get g) tg)).lastPanic = s.lastPanic := by
        intro s; cases k with
        | recv x => cases x <;> cases g <;> rfl
        | send x => cases x <;> cases g <;> rfl
        | done => cases g <;> rfl
        | timeout => cases g <;> rfl
      have e2 : ∀ s : St, ((localEffect s g k).set g (goto ((localEffect s g k).get g) tg)).panics = s.panics := by
        intro s; cases k with
        | recv x => cases x <;> cases g <;> rfl
        | send x => cases x <;> cases g <;> rfl
        | done => cases g <;> rfl
        | timeout => cases g <;> rfl
      exact ⟨(e1 s).trans ih.1, (e2 s).trans ih.2⟩
    | handover g h cs d x _ _ _ _ _ _ _ _ => cases g <;> cases h <;> cases x <;> exact ih
    | takeover g h cs d x _ _ _ _ _ _ _ _ => cases g <;> cases h <;> cases x <;> exact ih
    | dflt g _ _ _ _ _ _ => cases g <;> exact ih
    | park g _ _ _ _ _ => cases g <;> exact ih
    | incCnt g _ _ _ => cases g <;> exact ih
    | decCnt g _ _ _ => cases g <;> exact ih
    | _ => exact ih

end Glb.TaskLane
