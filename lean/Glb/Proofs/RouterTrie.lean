/-
  Helper lemmas for C04, part 1: the association-list map and the two trie operations
  `descend` (read) and `modifyAt` (walk with nextNodeOrNew, mutate the node reached).
  Everything recurses on the key list; no induction over the nested `Node` is needed.
-/
import Glb.Model.Router

namespace Glb.Router

theorem assocGet_assocSet {α} (l : List (Bytes × α)) (k k' : Bytes) (v : α) :
    assocGet (assocSet l k v) k' = if k = k' then some v else assocGet l k' := by
  induction l with
  | nil => simp [assocSet, assocGet]
  | cons e r ih =>
    obtain ⟨k0, v0⟩ := e
    by_cases h0 : k0 = k
    · subst h0; by_cases h1 : k0 = k' <;> simp [assocSet, assocGet, h1]
    · by_cases h1 : k0 = k'
      · subst h1
        have : ¬ k = k0 := fun h => h0 h.symm
        simp [assocSet, assocGet, h0, this]
      · simp [assocSet, assocGet, h0, h1, ih]

namespace Node

@[simp] theorem next_mk (a : List (Bytes × Node)) (b c) : (Node.mk a b c).next = a := rfl
@[simp] theorem info_mk (a : List (Bytes × Node)) (b c) : (Node.mk a b c).info = b := rfl
@[simp] theorem params_mk (a : List (Bytes × Node)) (b c) : (Node.mk a b c).params = c := rfl

theorem child_setChild (n : Node) (k k' : Bytes) (c : Node) :
    (n.setChild k c).child k' = if k = k' then some c else n.child k' := by
  simp [child, setChild, assocGet_assocSet]

@[simp] theorem info_setChild (n : Node) (k : Bytes) (c : Node) : (n.setChild k c).info = n.info := rfl
@[simp] theorem params_setChild (n : Node) (k : Bytes) (c : Node) : (n.setChild k c).params = n.params := rfl

@[simp] theorem child_empty (k : Bytes) : Node.empty.child k = none := rfl
@[simp] theorem info_empty : Node.empty.info = none := rfl
@[simp] theorem params_empty : Node.empty.params = [] := rfl

end Node

/-- the payload of a node: `info` and `paramNameList` -/
def pay (n : Node) : Option RouteId × List Bytes := (n.info, n.params)

@[simp] theorem pay_empty : pay Node.empty = (none, []) := rfl
@[simp] theorem pay_setChild (n : Node) (k : Bytes) (c : Node) : pay (n.setChild k c) = pay n := rfl

@[simp] theorem descend_nil (n : Node) : descend n [] = some n := rfl

theorem descend_cons (n : Node) (k : Bytes) (ks : List Bytes) :
    descend n (k :: ks) = (n.child k).bind (fun c => descend c ks) := by
  simp only [descend]; cases n.child k <;> rfl

theorem descend_empty (ks : List Bytes) : descend Node.empty ks = if ks = [] then some Node.empty else none := by
  cases ks <;> simp [descend_cons]

theorem descend_append (n : Node) (ks ks' : List Bytes) :
    descend n (ks ++ ks') = (descend n ks).bind (fun c => descend c ks') := by
  induction ks generalizing n with
  | nil => simp
  | cons k ks ih =>
    simp only [List.cons_append, descend_cons]
    cases n.child k <;> simp [ih]

/-- `descend` into what `nextNodeOrNew(k)` returns -/
theorem descend_childOrNew (t : Node) (k : Bytes) (r : List Bytes) :
    descend (t.childOrNew k) r =
      match t.child k with
      | some _ => descend t (k :: r)
      | none => if r = [] then some Node.empty else none := by
  unfold Node.childOrNew
  cases h : t.child k with
  | none => simp [descend_empty]
  | some c => simp [descend_cons, h]

/-- mutations that leave the children alone (`id`, `setPayload`) -/
def KeepsNext (g : Node → Node) : Prop := ∀ n, (g n).next = n.next

theorem KeepsNext.child {g} (h : KeepsNext g) (n : Node) (k : Bytes) : (g n).child k = n.child k := by
  simp [Node.child, h n]

theorem keepsNext_id : KeepsNext (fun n => n) := fun _ => rfl
theorem keepsNext_setPayload (id : RouteId) (names : List Bytes) : KeepsNext (setPayload id names) := fun _ => rfl

theorem descend_modifyAt_nil (g : Node → Node) (hg : KeepsNext g) (t : Node) (ks' : List Bytes) :
    descend (modifyAt g t []) ks' = if ks' = [] then some (g t) else descend t ks' := by
  cases ks' with
  | nil => simp [modifyAt]
  | cons k r => simp [modifyAt, descend_cons, hg.child]

theorem descend_modifyAt_cons (g : Node → Node) (t : Node) (k : Bytes) (ks : List Bytes) (k' : Bytes) (r : List Bytes) :
    descend (modifyAt g t (k :: ks)) (k' :: r) =
      if k = k' then descend (modifyAt g (t.childOrNew k) ks) r else descend t (k' :: r) := by
  simp only [modifyAt, descend_cons, Node.child_setChild]
  by_cases h : k = k' <;> simp [h]

/-- (M1) which nodes exist after `modifyAt` -/
theorem isSome_descend_modifyAt (g : Node → Node) (hg : KeepsNext g) (t : Node) (ks ks' : List Bytes) :
    (descend (modifyAt g t ks) ks').isSome ↔ (descend t ks').isSome ∨ ks' <+: ks := by
  induction ks generalizing t ks' with
  | nil =>
    rw [descend_modifyAt_nil g hg]
    by_cases h : ks' = []
    · subst h; simp
    · simp [h]
  | cons k ks ih =>
    cases ks' with
    | nil => simp
    | cons k' r =>
      rw [descend_modifyAt_cons]
      by_cases h : k = k'
      · subst h
        simp only [if_true, ih, List.cons_prefix_cons, true_and]
        rw [descend_childOrNew]
        cases hc : t.child k with
        | none =>
          simp only [descend_cons, hc]
          by_cases hr : r = []
          · subst hr; simp
          · simp [hr]
        | some c => simp
      · have h' : ¬ k' = k := fun e => h e.symm
        simp [h, h', List.cons_prefix_cons]

/-- (M2) the payload of the node reached -/
theorem pay_descend_modifyAt_self (g : Node → Node) (t : Node) (ks : List Bytes) :
    ∃ n, descend (modifyAt g t ks) ks = some n ∧ pay n = pay (g ((descend t ks).getD Node.empty)) := by
  induction ks generalizing t with
  | nil => exact ⟨g t, by simp [modifyAt], by simp⟩
  | cons k ks ih =>
    rw [descend_modifyAt_cons]
    simp only [if_true]
    obtain ⟨n, hn, hp⟩ := ih (t.childOrNew k)
    refine ⟨n, hn, ?_⟩
    rw [hp, descend_childOrNew]
    cases hc : t.child k with
    | none =>
      simp only [descend_cons, hc]
      by_cases hr : ks = [] <;> simp [hr]
    | some c => simp

/-- (M3) all other payloads are unchanged; new nodes carry no payload -/
theorem pay_descend_modifyAt_other (g : Node → Node) (hg : KeepsNext g) (t : Node) (ks ks' : List Bytes)
    (hne : ks' ≠ ks) (n' : Node) (h : descend (modifyAt g t ks) ks' = some n') :
    pay n' = match descend t ks' with
      | some n => pay n
      | none => (none, []) := by
  induction ks generalizing t ks' n' with
  | nil =>
    rw [descend_modifyAt_nil g hg] at h
    simp only [hne, if_false] at h
    simp [h]
  | cons k ks ih =>
    cases ks' with
    | nil =>
      simp only [descend_nil, Option.some.injEq] at h
      subst h
      simp [modifyAt]
    | cons k' r =>
      rw [descend_modifyAt_cons] at h
      by_cases hk : k = k'
      · subst hk
        simp only [if_true] at h
        have hr : r ≠ ks := fun e => hne (by rw [e])
        rw [ih (t.childOrNew k) r hr n' h, descend_childOrNew]
        cases hc : t.child k with
        | none =>
          simp only [descend_cons, hc]
          by_cases hr' : r = [] <;> simp [hr']
        | some c => simp
      · simp only [hk, if_false] at h
        simp [h]

end Glb.Router
