/-
  Helper lemmas about the path model (`Model/PathClean.lean`) and the normal form
  (`Spec/PathNF.lean`) used by the theorems of `Props/C17.lean`.
-/
import Glb.Spec.PathNF

namespace Glb.PathClean
open Glb.PathNF

/-! ### split / unsplit -/

theorem split_ne_nil (p : Bytes) : split p ≠ [] := by
  cases p with
  | nil => simp [split]
  | cons c cs =>
    unfold split
    split
    · simp
    · split <;> simp

theorem split_cons_slash (p : Bytes) : split (slash :: p) = [] :: split p := by
  simp [split]

theorem split_append (a b : Bytes) : split (a ++ slash :: b) = split a ++ split b := by
  induction a with
  | nil => simp [split]
  | cons c cs ih =>
    by_cases hc : c = slash
    · simp [split, hc, ih]
    · have h1 := split_ne_nil cs
      simp only [List.cons_append, split, hc, if_false, ih]
      cases h : split cs with
      | nil => exact absurd h h1
      | cons s ss => simp

theorem split_noslash (s : Bytes) (h : slash ∉ s) : split s = [s] := by
  induction s with
  | nil => simp [split]
  | cons c cs ih =>
    have hc : c ≠ slash := by intro e; apply h; simp [e]
    have hcs : slash ∉ cs := by intro e; apply h; simp [e]
    simp [split, hc, ih hcs]

theorem split_mem_noslash (p : Bytes) : ∀ s ∈ split p, slash ∉ s := by
  induction p with
  | nil => simp [split]
  | cons c cs ih =>
    by_cases hc : c = slash
    · simp only [split, hc, if_true]
      intro s hs
      cases hs with
      | head => simp
      | tail _ h => exact ih s h
    · simp only [split, hc, if_false]
      cases h : split cs with
      | nil => exact absurd h (split_ne_nil cs)
      | cons s0 ss =>
        rw [h] at ih
        intro s hs
        cases hs with
        | head =>
          have := ih s0 (by simp)
          intro hm
          cases hm with
          | head => exact hc rfl
          | tail _ hm => exact this hm
        | tail _ h' => exact ih s (List.mem_cons_of_mem _ h')

theorem split_unsplit (segs : List Bytes) (hne : segs ≠ []) (hs : ∀ s ∈ segs, slash ∉ s) :
    split (unsplit segs) = segs := by
  induction segs with
  | nil => exact absurd rfl hne
  | cons s rest ih =>
    cases rest with
    | nil => simpa [unsplit] using split_noslash s (hs s (by simp))
    | cons t rest' =>
      have h1 := split_noslash s (hs s (by simp))
      have h2 := ih (by simp) (fun x hx => hs x (by simp [hx]))
      simp [unsplit, split_append, h1, h2]

/-! ### the stack machine -/

theorem step_empty (r : Bool) (st : List Bytes) : step r st [] = st := by simp [step]

theorem step_dot (r : Bool) (st : List Bytes) : step r st dot = st := by simp [step]

theorem step_push (r : Bool) (st : List Bytes) (s : Bytes)
    (h1 : s ≠ []) (h2 : s ≠ dot) (h3 : s ≠ dotdot) : step r st s = s :: st := by
  simp [step, h1, h2, h3]

theorem step_dotdot_nil (r : Bool) : step r [] dotdot = if r then [] else [dotdot] := by
  simp [step, dotdot, dot]

theorem step_dotdot_cons (r : Bool) (top : Bytes) (rest : List Bytes) :
    step r (top :: rest) dotdot =
      if top ≠ dotdot then rest else if r then top :: rest else dotdot :: top :: rest := by
  simp [step, dotdot, dot]

/-- segments that are neither "." nor "..": the empty ones vanish, all others are pushed -/
theorem foldl_step_dotfree (r : Bool) (segs : List Bytes)
    (h : ∀ s ∈ segs, s ≠ dot ∧ s ≠ dotdot) (acc : List Bytes) :
    segs.foldl (step r) acc = (segs.filter (· ≠ [])).reverse ++ acc := by
  induction segs generalizing acc with
  | nil => simp
  | cons s rest ih =>
    have hs := h s (by simp)
    have hr : ∀ x ∈ rest, x ≠ dot ∧ x ≠ dotdot := fun x hx => h x (by simp [hx])
    by_cases he : s = []
    · subst he
      simp [step_empty, ih hr]
    · simp [step_push r acc s he hs.1 hs.2, ih hr, he]

theorem foldl_step_normal (r : Bool) (segs : List Bytes) (h : ∀ s ∈ segs, Normal s)
    (acc : List Bytes) : segs.foldl (step r) acc = segs.reverse ++ acc := by
  have h1 : ∀ s ∈ segs, s ≠ dot ∧ s ≠ dotdot := fun s hs => ⟨(h s hs).2.1, (h s hs).2.2.1⟩
  rw [foldl_step_dotfree r segs h1 acc]
  have : segs.filter (· ≠ []) = segs := by
    apply List.filter_eq_self.mpr
    intro s hs
    simpa using (h s hs).1
  rw [this]

theorem foldl_step_dotdots (k j : Nat) :
    (List.replicate k dotdot).foldl (step false) (List.replicate j dotdot) =
      List.replicate (k + j) dotdot := by
  induction k generalizing j with
  | zero => simp
  | succ k ih =>
    have hstep : step false (List.replicate j dotdot) dotdot = List.replicate (j + 1) dotdot := by
      cases j with
      | zero => simp [step_dotdot_nil]
      | succ j => simp [List.replicate_succ, step_dotdot_cons]
    rw [List.replicate_succ, List.foldl_cons, hstep, ih]
    congr 1
    omega

/-- reversed-stack invariant of Clean's loop -/
def WFr (rooted : Bool) (acc : List Bytes) : Prop :=
  ∃ k segs, acc = segs ++ List.replicate k dotdot ∧ (∀ s ∈ segs, Normal s) ∧ (rooted = true → k = 0)

theorem wfr_nil (r : Bool) : WFr r [] := ⟨0, [], by simp, by simp, by simp⟩

theorem step_wfr (r : Bool) (acc : List Bytes) (seg : Bytes) (h : WFr r acc) (hs : slash ∉ seg) :
    WFr r (step r acc seg) := by
  obtain ⟨k, segs, hacc, hn, hk⟩ := h
  by_cases h1 : seg = [] ∨ seg = dot
  · have : step r acc seg = acc := by simp [step, h1]
    rw [this]; exact ⟨k, segs, hacc, hn, hk⟩
  · by_cases h2 : seg = dotdot
    · subst h2
      cases segs with
      | cons s segs' =>
        have hsn : s ≠ dotdot := (hn s (by simp)).2.2.1
        refine ⟨k, segs', ?_, fun x hx => hn x (by simp [hx]), hk⟩
        simp [hacc, step_dotdot_cons, hsn]
      | nil =>
        cases k with
        | zero =>
          cases r with
          | true => simpa [hacc, step_dotdot_nil] using wfr_nil true
          | false =>
            exact ⟨1, [], by simp [hacc, step_dotdot_nil], by simp, by simp⟩
        | succ k =>
          cases r with
          | true => simp at hk
          | false =>
            refine ⟨k + 2, [], ?_, by simp, by simp⟩
            simp [hacc, step_dotdot_cons, List.replicate_succ]
    · have h3 : seg ≠ [] ∧ seg ≠ dot := by
        constructor <;> (intro e; exact h1 (by simp [e]))
      rw [step_push r acc seg h3.1 h3.2 h2]
      refine ⟨k, seg :: segs, by simp [hacc], ?_, hk⟩
      intro x hx
      cases hx with
      | head => exact ⟨h3.1, h3.2, h2, hs⟩
      | tail _ hx => exact hn x hx

theorem foldl_wfr (r : Bool) (segs : List Bytes) (hs : ∀ s ∈ segs, slash ∉ s) (acc : List Bytes)
    (h : WFr r acc) : WFr r (segs.foldl (step r) acc) := by
  induction segs generalizing acc with
  | nil => simpa using h
  | cons s rest ih =>
    simp only [List.foldl_cons]
    exact ih (fun x hx => hs x (by simp [hx])) _ (step_wfr r acc s h (hs s (by simp)))

theorem nf_wellFormed (p : Bytes) : WellFormed (nf p) := by
  obtain ⟨k, segs, hacc, hn, hk⟩ :=
    foldl_wfr (isRooted p) (split p) (split_mem_noslash p) [] (wfr_nil _)
  refine ⟨k, segs.reverse, ?_, ?_, ?_⟩
  · simp [nf, stackOf, hacc]
  · intro s hs; exact hn s (by simpa using hs)
  · simpa [nf] using hk

/-! ### rendering and re-reading a normal form -/

theorem dotdot_noslash : slash ∉ dotdot := by decide

theorem isRooted_append (a b : Bytes) (h : a ≠ []) : isRooted (a ++ b) = isRooted a := by
  cases a with
  | nil => exact absurd rfl h
  | cons c cs => simp [isRooted]

theorem isRooted_noslash (s : Bytes) (h : slash ∉ s) : isRooted s = false := by
  cases s with
  | nil => rfl
  | cons c cs =>
    have : c ≠ slash := by intro e; apply h; simp [e]
    simp [isRooted, this]

theorem isRooted_unsplit (s : Bytes) (rest : List Bytes) (h : s ≠ []) :
    isRooted (unsplit (s :: rest)) = isRooted s := by
  cases rest with
  | nil => simp [unsplit]
  | cons t rest' => simp [unsplit, isRooted_append _ _ h]

/-- folding the segments of a printed list of normal segments pushes exactly them -/
theorem foldl_split_unsplit (r : Bool) (xs : List Bytes) (h : ∀ s ∈ xs, Normal s) (acc : List Bytes) :
    (split (unsplit xs)).foldl (step r) acc = xs.reverse ++ acc := by
  by_cases hx : xs = []
  · subst hx; simp [unsplit, split, step_empty]
  · rw [split_unsplit xs hx (fun s hs => (h s hs).2.2.2)]
    exact foldl_step_normal r xs h acc

theorem nf_render (n : NF) (h : WellFormed n) : nf n.render = n := by
  obtain ⟨rooted, stack⟩ := n
  obtain ⟨k, segs, hst, hn, hk⟩ := h
  simp only at hst hk
  subst hst
  cases rooted with
  | true =>
    have hk0 : k = 0 := hk rfl
    subst hk0
    simp only [List.replicate_zero, List.nil_append]
    simp only [NF.render, render, if_true, nf, isRooted, stackOf, split_cons_slash,
      List.foldl_cons, step_empty, decide_true]
    rw [foldl_split_unsplit true segs hn []]
    simp
  | false =>
    by_cases he : List.replicate k dotdot ++ segs = []
    · simp only [he]
      simp [NF.render, render, nf, isRooted, stackOf, split, dot, slash, step]
    · have hall : ∀ s ∈ List.replicate k dotdot ++ segs, slash ∉ s ∧ s ≠ [] := by
        intro s hs
        rcases List.mem_append.mp hs with h1 | h1
        · have := (List.mem_replicate.mp h1).2
          subst this
          exact ⟨dotdot_noslash, by simp [dotdot]⟩
        · exact ⟨(hn s h1).2.2.2, (hn s h1).1⟩
      have hroot : isRooted (unsplit (List.replicate k dotdot ++ segs)) = false := by
        cases hl : List.replicate k dotdot ++ segs with
        | nil => exact absurd hl he
        | cons s rest =>
          have hs := hall s (by simp [hl])
          rw [isRooted_unsplit s rest hs.2]
          exact isRooted_noslash s hs.1
      have hsplit := split_unsplit (List.replicate k dotdot ++ segs) he (fun s hs => (hall s hs).1)
      simp only [NF.render, render, Bool.false_eq_true, if_false, he, nf, hroot, stackOf, hsplit,
        List.foldl_append]
      have := foldl_step_dotdots k 0
      simp only [List.replicate_zero, Nat.add_zero] at this
      rw [this, foldl_step_normal false segs hn]
      simp

/-! ### Join and the forced leading slash -/

theorem join_nonempty (base x : Bytes) (h : base ≠ []) :
    join [base, x] = clean (base ++ slash :: x) := by
  simp [join, List.dropWhile, h, unsplit]

theorem clean_eq_render (p : Bytes) : clean p = (nf p).render := rfl

theorem stackOf_cons_empty (r : Bool) (segs : List Bytes) :
    stackOf r ([] :: segs) = stackOf r segs := by
  simp [stackOf, step_empty]

theorem nf_forceSlash (url : Bytes) : nf (forceSlash url) = nf (slash :: url) := by
  cases url with
  | nil => rfl
  | cons c rest =>
    by_cases hc : c = slash
    · subst hc
      simp [forceSlash, nf, isRooted, split_cons_slash, stackOf_cons_empty]
    · simp [forceSlash, hc]

/-- the normal form of `base/<printed rooted normal form>`: the segments are appended -/
theorem nf_base_slash_rooted (base : Bytes) (hb : base ≠ []) (xs : List Bytes)
    (hx : ∀ s ∈ xs, Normal s) :
    nf (base ++ slash :: slash :: unsplit xs) = ⟨(nf base).rooted, (nf base).stack ++ xs⟩ := by
  simp only [nf, isRooted_append base _ hb, stackOf, split_append, split_cons_slash,
    List.foldl_append, List.foldl_cons, step_empty, foldl_split_unsplit _ xs hx]
  simp

/-- the normal form of `base/url` for a url without dot segments -/
theorem nf_base_slash_dotfree (base : Bytes) (hb : base ≠ []) (url : Bytes) (hu : DotFree url) :
    nf (base ++ slash :: url) =
      ⟨(nf base).rooted, (nf base).stack ++ (split url).filter (· ≠ [])⟩ := by
  simp only [nf, isRooted_append base _ hb, stackOf, split_append, List.foldl_append,
    foldl_step_dotfree _ (split url) hu]
  simp

theorem nf_slash_dotfree (url : Bytes) (hu : DotFree url) :
    (nf (slash :: url)).stack = (split url).filter (· ≠ []) := by
  simp only [nf, isRooted, stackOf, split_cons_slash, List.foldl_cons, step_empty,
    foldl_step_dotfree _ (split url) hu]
  simp

end Glb.PathClean
