/- Lemmas about the ExpandHomeDir model. -/
import Glb.Model.AuxFsutil
import Glb.Proofs.PathClean

namespace Glb.Aux.Home
open Glb Glb.PathClean

theorem keepCond_eq (raw : Bytes) : keepCond? raw = .ok (!expands raw) := by
  match raw with
  | [] => simp [keepCond?, expands]; rfl
  | [c] =>
    by_cases h : c = tilde
    · simp [keepCond?, expands, idx?, h, bind, Except.bind, pure, Except.pure]
    · simp [keepCond?, expands, idx?, h, bind, Except.bind, pure, Except.pure]
  | c :: d :: rest =>
    by_cases h : c = tilde <;> by_cases h1 : d = slash <;> by_cases h2 : d = backslash <;>
      simp [keepCond?, expands, idx?, h, h1, h2, bind, Except.bind, pure, Except.pure]

theorem slice_tail (raw : Bytes) (h : raw ≠ []) : slice? raw 1 raw.length = .ok raw.tail := by
  cases raw with
  | nil => exact absurd rfl h
  | cons c r => simp [slice?]

theorem expandHomeDir_eq (home raw : Bytes) : expandHomeDir? home raw = .ok (expandHomeDir home raw) := by
  unfold expandHomeDir? expandHomeDir
  rw [keepCond_eq]
  by_cases he : expands raw = true
  · have hne : raw ≠ [] := by intro e; subst e; simp [expands] at he
    by_cases hh : home = []
    · simp [he, hh, userHomeDir, bind, Except.bind, pure, Except.pure]
    · by_cases hl : raw.length = 1
      · simp [he, hh, hl, userHomeDir, bind, Except.bind, pure, Except.pure]
      · simp [he, hh, hl, userHomeDir, bind, Except.bind, pure, Except.pure, slice_tail raw hne]
  · simp [he, bind, Except.bind, pure, Except.pure]

theorem expands_iff (raw : Bytes) :
    expands raw = true ↔ raw = [tilde] ∨ (∃ r, raw = tilde :: slash :: r) ∨ (∃ r, raw = tilde :: backslash :: r) := by
  match raw with
  | [] => simp [expands]
  | [c] => simp [expands]
  | c :: d :: rest => simp [expands]; grind

end Glb.Aux.Home
