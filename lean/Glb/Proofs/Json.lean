/-
  Lemmas about the JSON grammar `P` (C01): framing (a value stays a value in any context), the
  canonical serializer produces what it was built from, and every JSON text passes the lenient
  recogniser `shapeOk`.
-/
import Glb.Proofs.JsonString

set_option linter.unusedSectionVars false
set_option linter.unusedSimpArgs false

namespace Glb.Json
open Glb Glb.JsonHandler Glb.Utf8 Glb.JsonString

/-! ### framing -/

theorem simpleEsc_ne_u {e b : UInt8} (h : simpleEsc e = some b) : e ≠ 0x75 := by
  intro he; subst he; simp [simpleEsc] at h

theorem lead_ne_bs {b : UInt8} {x : Nat × UInt8 × UInt8} (h : lead b = some x) : b ≠ 0x5C ∧ b ≠ 0x22 := by
  obtain ⟨sz, lo, hi⟩ := x
  have := lead_some h
  constructor <;> (intro e; subst e; simp at this)

theorem startsLowEsc_append {s d r : Bytes} (h : PStr s d r) (t : Bytes) :
    startsLowEsc (s ++ t) = startsLowEsc s := by
  cases h with
  | done => simp [startsLowEsc]
  | plain _ _ _ h4 _ => simp [startsLowEsc, beq_eq_false_iff_ne.mpr h4]
  | multi2 hl _ _ _ => simp [startsLowEsc, beq_eq_false_iff_ne.mpr (lead_ne_bs hl).1]
  | multi3 hl _ _ _ _ => simp [startsLowEsc, beq_eq_false_iff_ne.mpr (lead_ne_bs hl).1]
  | multi4 hl _ _ _ _ _ => simp [startsLowEsc, beq_eq_false_iff_ne.mpr (lead_ne_bs hl).1]
  | esc he _ => simp [startsLowEsc, beq_eq_false_iff_ne.mpr (simpleEsc_ne_u he)]
  | uni _ _ _ => simp [startsLowEsc, uEsc]
  | pair _ _ _ _ _ => simp [startsLowEsc, uEsc]
  | lone _ _ _ _ => simp [startsLowEsc, uEsc]

theorem PStr.frame {s d r : Bytes} (h : PStr s d r) (t : Bytes) : PStr (s ++ t) d (r ++ t) := by
  induction h with
  | done r => exact PStr.done _
  | plain h1 h2 h3 h4 _ ih => exact PStr.plain h1 h2 h3 h4 ih
  | multi2 hl h1 h2 _ ih => exact PStr.multi2 hl h1 h2 ih
  | multi3 hl h1 h2 h3 _ ih => exact PStr.multi3 hl h1 h2 h3 ih
  | multi4 hl h1 h2 h3 h4 _ ih => exact PStr.multi4 hl h1 h2 h3 h4 ih
  | esc he _ ih => exact PStr.esc he ih
  | uni h1 h2 _ ih => exact PStr.uni h1 h2 ih
  | pair h1 h2 h3 h4 _ ih => exact PStr.pair h1 h2 h3 h4 ih
  | lone h1 h2 h3 hp ih => exact PStr.lone h1 h2 (by have := startsLowEsc_append hp t; show (isHiSurr _ && startsLowEsc (_ ++ t)) = false; rw [this]; exact h3) ih

theorem P.frame {s r : Bytes} {it : Item} (h : P s it r) (t : Bytes) : P (s ++ t) it (r ++ t) := by
  induction h with
  | ws hb _ ih => exact P.ws hb ih
  | wsAfter hb _ ih => exact P.wsAfter hb ih
  | null r => simpa using P.null (r ++ t)
  | tru r => simpa using P.tru (r ++ t)
  | fls r => simpa using P.fls (r ++ t)
  | num r hn => simpa using P.num (r ++ t) hn
  | str hs => exact P.str (hs.frame t)
  | raw _ ih => rw [List.append_assoc] at ih ⊢; exact P.raw ih
  | arrEmpty r => exact P.arrEmpty _
  | arrWs hb _ ih => exact P.arrWs hb ih
  | arr _ ih => exact P.arr ih
  | objEmpty r => exact P.objEmpty _
  | objWs hb _ ih => exact P.objWs hb ih
  | obj _ ih => exact P.obj ih
  | elemsOne _ ih => exact P.elemsOne ih
  | elemsCons _ _ ih1 ih2 => exact P.elemsCons ih1 ih2
  | memOne _ _ ih1 ih2 => exact P.memOne ih1 ih2
  | memCons _ _ _ ih1 ih2 ih3 => exact P.memCons ih1 ih2 ih3

/-- a JSON text is a value in every context -/
theorem IsJson.framed {b : Bytes} {v : JV} (h : IsJson b v) (r : Bytes) : P (b ++ r) (.val v) r := by
  simpa using P.frame h r

/-! ### a string literal is well-formed UTF-8 -/

theorem hexVal_lt {b : UInt8} {n : Nat} (h : hexVal b = some n) : b < 0x80 := by
  unfold hexVal at h
  simp only [UInt8.lt_iff_toNat_lt]
  repeat' split at h
  all_goals simp_all [UInt8.le_iff_toNat_le]
  all_goals omega

theorem PStr.wellFormed {s d r : Bytes} (h : PStr s d r) :
    ∃ body, s = body ++ 0x22 :: r ∧ WellFormedUtf8 body := by
  have hu : ∀ {a b c e : UInt8} {n : Nat} {body : Bytes}, hex4 a b c e = some n → WellFormedUtf8 body →
      WellFormedUtf8 (uEsc a b c e body) := by
    intro a b c e n body h hb
    unfold hex4 at h
    split at h
    · rename_i h1 h2 h3 h4
      exact .ascii (by decide) (.ascii (by decide) (.ascii (hexVal_lt h1) (.ascii (hexVal_lt h2)
        (.ascii (hexVal_lt h3) (.ascii (hexVal_lt h4) hb)))))
    · simp at h
  induction h with
  | done r => exact ⟨[], by simp, .nil⟩
  | plain _ h2 _ _ _ ih =>
    obtain ⟨body, rfl, hb⟩ := ih
    exact ⟨_ :: body, by simp, .ascii h2 hb⟩
  | multi2 hl h1 h2 _ ih =>
    obtain ⟨body, rfl, hb⟩ := ih
    exact ⟨_ :: _ :: body, by simp, .seq2 hl h1 h2 hb⟩
  | multi3 hl h1 h2 h3 _ ih =>
    obtain ⟨body, rfl, hb⟩ := ih
    exact ⟨_ :: _ :: _ :: body, by simp, .seq3 hl h1 h2 h3 hb⟩
  | multi4 hl h1 h2 h3 h4 _ ih =>
    obtain ⟨body, rfl, hb⟩ := ih
    exact ⟨_ :: _ :: _ :: _ :: body, by simp, .seq4 hl h1 h2 h3 h4 hb⟩
  | @esc e _ _ _ _ he _ ih =>
    obtain ⟨body, rfl, hb⟩ := ih
    have : e < 0x80 := by
      unfold simpleEsc at he
      repeat' split at he
      all_goals first
        | (rename_i hh; have := beq_iff_eq.mp hh; subst this; decide)
        | simp at he
    exact ⟨0x5C :: e :: body, by simp, .ascii (by decide) (.ascii this hb)⟩
  | uni h1 _ _ ih =>
    obtain ⟨body, rfl, hb⟩ := ih
    exact ⟨uEsc _ _ _ _ body, by simp [uEsc], hu h1 hb⟩
  | pair h1 _ h3 _ _ ih =>
    obtain ⟨body, rfl, hb⟩ := ih
    exact ⟨uEsc _ _ _ _ (uEsc _ _ _ _ body), by simp [uEsc], hu h1 (hu h3 hb)⟩
  | lone h1 _ _ _ ih =>
    obtain ⟨body, rfl, hb⟩ := ih
    exact ⟨uEsc _ _ _ _ body, by simp [uEsc], hu h1 hb⟩

/-! ### the canonical serializer -/

section ser
variable (q dec : Bytes → Bytes) (hq : ∀ s r, PStr (q s ++ 0x22 :: r) (dec s) r)
include hq

mutual
theorem ser_P : ∀ (t : JV), t.Ok → ∀ r, P (ser q t ++ r) (.val (t.mapStr dec)) r
  | .null, _, r => by simpa [ser, JV.mapStr] using P.null r
  | .lit true, _, r => by simpa [ser, JV.mapStr] using P.tru r
  | .lit false, _, r => by simpa [ser, JV.mapStr] using P.fls r
  | .num t, h, r => by
    simp only [JV.Ok] at h
    simpa [ser, JV.mapStr] using P.num r h
  | .str s, _, r => by
    simp only [ser, JV.mapStr, List.cons_append, List.append_assoc, List.singleton_append]
    exact P.str (hq s r)
  | .raw t, h, r => by
    simp only [JV.Ok] at h
    obtain ⟨⟨v, hv⟩, _⟩ := h
    simp only [ser, JV.mapStr]
    exact P.raw (hv.framed r)
  | .arr [], _, r => by simpa [ser, serElems, JV.mapStr, mapStrL] using P.arrEmpty r
  | .arr (x :: xs), h, r => by
    simp only [JV.Ok] at h
    have := serElems_P (x :: xs) (by simp) h r
    simp only [ser, JV.mapStr, List.cons_append, List.append_assoc, List.singleton_append]
    exact P.arr this
  | .obj [], _, r => by simpa [ser, serMems, JV.mapStr, mapStrM] using P.objEmpty r
  | .obj (m :: ms), h, r => by
    simp only [JV.Ok] at h
    have := serMems_P (m :: ms) (by simp) h r
    simp only [ser, JV.mapStr, List.cons_append, List.append_assoc, List.singleton_append]
    exact P.obj this
theorem serElems_P : ∀ (xs : List JV), xs ≠ [] → OkL xs →
    ∀ r, P (serElems q xs ++ 0x5D :: r) (.elems (mapStrL dec xs)) r
  | [], h, _, _ => absurd rfl h
  | [x], _, h, r => by
    simp only [OkL] at h
    simp only [serElems, mapStrL]
    exact P.elemsOne (ser_P x h.1 _)
  | x :: y :: xs, _, h, r => by
    simp only [OkL] at h
    have h1 := ser_P x h.1 (0x2C :: (serElems q (y :: xs) ++ 0x5D :: r))
    have h2 := serElems_P (y :: xs) (by simp) (by simpa only [OkL] using h.2) r
    simp only [serElems, mapStrL, List.append_assoc, List.cons_append] at h1 h2 ⊢
    exact P.elemsCons h1 h2
theorem serMems_P : ∀ (ms : List (Bytes × JV)), ms ≠ [] → OkM ms →
    ∀ r, P (serMems q ms ++ 0x7D :: r) (.members (mapStrM dec ms)) r
  | [], h, _, _ => absurd rfl h
  | [(k, v)], _, h, r => by
    simp only [OkM] at h
    simp only [serMems, mapStrM, List.cons_append, List.append_assoc, List.nil_append]
    exact P.memOne (P.str (hq k _)) (ser_P v h.1 _)
  | (k, v) :: m :: ms, _, h, r => by
    simp only [OkM] at h
    have h1 := ser_P v h.1 (0x2C :: (serMems q (m :: ms) ++ 0x7D :: r))
    have h2 := serMems_P (m :: ms) (by simp) h.2 r
    simp only [serMems, mapStrM, List.cons_append, List.append_assoc, List.nil_append] at h1 h2 ⊢
    exact P.memCons (P.str (hq k _)) h1 h2
end

end ser

/-! ### numbers consist of atom characters -/

theorem isDigit_atom {b : UInt8} (h : isDigit b = true) : isAtomChar b = true := by
  simp [isAtomChar, h]

theorem numStep_atom {st st' : NumSt} {b : UInt8} (h : numStep st b = some st') : isAtomChar b = true := by
  cases st <;> simp only [numStep] at h <;> (repeat' split at h) <;>
    simp_all [isAtomChar]
  all_goals first
    | decide
    | (rename_i hh; rcases hh with rfl | rfl <;> decide)

theorem numRun_atoms : ∀ (t : Bytes) (st st' : NumSt), numRun st t = some st' → ∀ b ∈ t, isAtomChar b = true
  | [], _, _, _ => by simp
  | x :: t, st, st', h => by
    simp only [numRun] at h
    split at h
    · rename_i st1 h1
      intro b hb
      rcases List.mem_cons.mp hb with rfl | hb
      · exact numStep_atom h1
      · exact numRun_atoms t st1 st' h b hb
    · simp at h

theorem isNumber_atoms {t : Bytes} (h : isNumber t = true) : t ≠ [] ∧ ∀ b ∈ t, isAtomChar b = true := by
  unfold isNumber at h
  split at h
  · rename_i st hst
    refine ⟨?_, numRun_atoms t _ _ hst⟩
    rintro rfl
    simp [numRun] at hst
    subst hst
    simp [numAccept] at h
  · simp at h


/-! ### no newline in serializer output -/

theorem atom_ne_nl {b : UInt8} (h : isAtomChar b = true) : b ≠ 0x0A := by
  intro e; subst e; revert h; decide

section noNL
variable (q : Bytes → Bytes) (hq : ∀ s, 0x0A ∉ q s)
include hq

mutual
theorem ser_noNL : ∀ (t : JV), t.Ok → 0x0A ∉ ser q t
  | .null, _ => by simp only [ser]; decide
  | .lit true, _ => by simp only [ser]; decide
  | .lit false, _ => by simp only [ser]; decide
  | .num t, h => by
    simp only [JV.Ok] at h
    simp only [ser]
    intro hm
    exact atom_ne_nl ((isNumber_atoms h).2 _ hm) rfl
  | .str s, _ => by
    have := hq s
    simp [ser, this]
  | .raw t, h => by
    simp only [JV.Ok] at h
    simpa [ser] using h.2
  | .arr xs, h => by
    simp only [JV.Ok] at h
    have := serElems_noNL xs h
    simp [ser, this]
  | .obj ms, h => by
    simp only [JV.Ok] at h
    have := serMems_noNL ms h
    simp [ser, this]
theorem serElems_noNL : ∀ (xs : List JV), OkL xs → 0x0A ∉ serElems q xs
  | [], _ => by simp [serElems]
  | [x], h => by
    simp only [OkL] at h
    simpa [serElems] using ser_noNL x h.1
  | x :: y :: xs, h => by
    simp only [OkL] at h
    have h1 := ser_noNL x h.1
    have h2 := serElems_noNL (y :: xs) (by simpa only [OkL] using h.2)
    simp [serElems, h1, h2]
theorem serMems_noNL : ∀ (ms : List (Bytes × JV)), OkM ms → 0x0A ∉ serMems q ms
  | [], _ => by simp [serMems]
  | [(k, v)], h => by
    simp only [OkM] at h
    have h1 := ser_noNL v h.1
    have := hq k
    simp [serMems, h1, this]
  | (k, v) :: m :: ms, h => by
    simp only [OkM] at h
    have h1 := ser_noNL v h.1
    have h2 := serMems_noNL (m :: ms) h.2
    have := hq k
    simp [serMems, h1, h2, this]
end

end noNL

/-! ### every JSON text passes the lenient recogniser -/

set_option maxRecDepth 20000 in
theorem atom_table : ∀ n ∈ List.range 256, isAtomChar (UInt8.ofNat n) = true →
    isWs (UInt8.ofNat n) = false ∧ UInt8.ofNat n ≠ 0x7B ∧ UInt8.ofNat n ≠ 0x5B ∧ UInt8.ofNat n ≠ 0x22 := by
  decide

theorem atom_facts (b : UInt8) : isAtomChar b = true →
    isWs b = false ∧ b ≠ 0x7B ∧ b ≠ 0x5B ∧ b ≠ 0x22 :=
  forall_uint8 (fun b => isAtomChar b = true → isWs b = false ∧ b ≠ 0x7B ∧ b ≠ 0x5B ∧ b ≠ 0x22) atom_table b

set_option maxRecDepth 20000 in
theorem ws_table : ∀ n ∈ List.range 256, isWs (UInt8.ofNat n) = true →
    UInt8.ofNat n ≠ 0x7B ∧ UInt8.ofNat n ≠ 0x5B ∧ UInt8.ofNat n ≠ 0x22 := by
  decide

abbrev St := Option (Mode × List Bool)

def IsValMode (m : Mode) : Prop := m = .val ∨ m = .valOrClose

theorem run_cons (st : Mode × List Bool) (b : UInt8) (t : Bytes) :
    shapeRun (some st) (b :: t) = shapeRun (shapeStep st b) t := by
  simp [shapeRun]

theorem step_val_ws {m : Mode} (hm : IsValMode m) (stk : List Bool) {b : UInt8} (h : isWs b = true) :
    shapeStep (m, stk) b = some (m, stk) := by
  rcases hm with rfl | rfl <;> simp [shapeStep, h]

theorem step_val_atom {m : Mode} (hm : IsValMode m) (stk : List Bool) {b : UInt8} (h : isAtomChar b = true) :
    shapeStep (m, stk) b = some (.afterVal, stk) := by
  obtain ⟨h1, h2, h3, h4⟩ := atom_facts b h
  rcases hm with rfl | rfl <;> simp [shapeStep, h, h1, h2, h3, h4]

theorem step_after_ws (stk : List Bool) {b : UInt8} (h : isWs b = true) :
    shapeStep (.afterVal, stk) b = some (.afterVal, stk) := by
  simp [shapeStep, h]

theorem step_after_atom (stk : List Bool) {b : UInt8} (h : isAtomChar b = true) :
    shapeStep (.afterVal, stk) b = some (.afterVal, stk) := by
  simp [shapeStep, h]

theorem run_atoms (stk : List Bool) : ∀ (t r : Bytes), (∀ b ∈ t, isAtomChar b = true) →
    shapeRun (some (.afterVal, stk)) (t ++ r) = shapeRun (some (.afterVal, stk)) r
  | [], r, _ => by simp
  | b :: t, r, h => by
    rw [List.cons_append, run_cons, step_after_atom stk (h b (by simp))]
    exact run_atoms stk t r (fun x hx => h x (by simp [hx]))

theorem step_val_quote {m : Mode} (hm : IsValMode m) (stk : List Bool) :
    shapeStep (m, stk) 0x22 = some (.str, stk) := by
  rcases hm with rfl | rfl <;> simp [shapeStep, isWs]

theorem step_val_open {m : Mode} (hm : IsValMode m) (stk : List Bool) :
    shapeStep (m, stk) 0x7B = some (.valOrClose, true :: stk) ∧
    shapeStep (m, stk) 0x5B = some (.valOrClose, false :: stk) := by
  rcases hm with rfl | rfl <;> simp [shapeStep, isWs]

theorem step_str_plain (stk : List Bool) {b : UInt8} (h1 : b ≠ 0x22) (h2 : b ≠ 0x5C) :
    shapeStep (.str, stk) b = some (.str, stk) := by
  simp [shapeStep, h1, h2]

theorem hexVal_plain {b : UInt8} {n : Nat} (h : hexVal b = some n) : b ≠ 0x22 ∧ b ≠ 0x5C := by
  constructor <;> (intro e; subst e; simp [hexVal] at h)

theorem hex4_plain {a b c e : UInt8} {n : Nat} (h : hex4 a b c e = some n) :
    (a ≠ 0x22 ∧ a ≠ 0x5C) ∧ (b ≠ 0x22 ∧ b ≠ 0x5C) ∧ (c ≠ 0x22 ∧ c ≠ 0x5C) ∧ (e ≠ 0x22 ∧ e ≠ 0x5C) := by
  unfold hex4 at h
  split at h
  · rename_i h1 h2 h3 h4
    exact ⟨hexVal_plain h1, hexVal_plain h2, hexVal_plain h3, hexVal_plain h4⟩
  · simp at h

theorem run_uEsc (stk : List Bool) {a b c e : UInt8} {n : Nat} (h : hex4 a b c e = some n) (s : Bytes) :
    shapeRun (some (.str, stk)) (uEsc a b c e s) = shapeRun (some (.str, stk)) s := by
  obtain ⟨⟨a1, a2⟩, ⟨b1, b2⟩, ⟨c1, c2⟩, ⟨e1, e2⟩⟩ := hex4_plain h
  simp only [uEsc, run_cons]
  have : shapeStep (.str, stk) 0x5C = some (.strEsc, stk) := by simp [shapeStep]
  rw [this]
  have : shapeStep (.strEsc, stk) 0x75 = some (.str, stk) := by simp [shapeStep]
  rw [run_cons, this, run_cons, step_str_plain stk a1 a2, run_cons, step_str_plain stk b1 b2,
    run_cons, step_str_plain stk c1 c2, run_cons, step_str_plain stk e1 e2]

theorem ge80_plain {b : UInt8} (h : 0x80 ≤ b.toNat) : b ≠ 0x22 ∧ b ≠ 0x5C := by
  constructor <;> (intro e; subst e; simp at h)

theorem shape_str {s d r : Bytes} (h : PStr s d r) (stk : List Bool) :
    shapeRun (some (.str, stk)) s = shapeRun (some (.afterVal, stk)) r := by
  induction h with
  | done r => simp [run_cons, shapeStep]
  | plain _ _ h3 h4 _ ih => rw [run_cons, step_str_plain stk h3 h4, ih]
  | @multi2 b0 b1 lo hi _ _ _ hl h1 _ _ ih =>
    have hL := lead_some hl
    have r1 : lo.toNat ≤ b1.toNat := by simpa [UInt8.le_iff_toNat_le] using h1
    have p0 := ge80_plain (b := b0) (by omega)
    have p1 := ge80_plain (b := b1) (by omega)
    rw [run_cons, step_str_plain stk p0.1 p0.2, run_cons, step_str_plain stk p1.1 p1.2, ih]
  | @multi3 b0 b1 b2 lo hi _ _ _ hl h1 _ h3 _ ih =>
    have hL := lead_some hl
    have r1 : lo.toNat ≤ b1.toNat := by simpa [UInt8.le_iff_toNat_le] using h1
    have r3 := isCont_range h3
    have p0 := ge80_plain (b := b0) (by omega)
    have p1 := ge80_plain (b := b1) (by omega)
    have p2 := ge80_plain (b := b2) (by omega)
    rw [run_cons, step_str_plain stk p0.1 p0.2, run_cons, step_str_plain stk p1.1 p1.2,
      run_cons, step_str_plain stk p2.1 p2.2, ih]
  | @multi4 b0 b1 b2 b3 lo hi _ _ _ hl h1 _ h3 h4 _ ih =>
    have hL := lead_some hl
    have r1 : lo.toNat ≤ b1.toNat := by simpa [UInt8.le_iff_toNat_le] using h1
    have r3 := isCont_range h3
    have r4 := isCont_range h4
    have p0 := ge80_plain (b := b0) (by omega)
    have p1 := ge80_plain (b := b1) (by omega)
    have p2 := ge80_plain (b := b2) (by omega)
    have p3 := ge80_plain (b := b3) (by omega)
    rw [run_cons, step_str_plain stk p0.1 p0.2, run_cons, step_str_plain stk p1.1 p1.2,
      run_cons, step_str_plain stk p2.1 p2.2, run_cons, step_str_plain stk p3.1 p3.2, ih]
  | esc _ _ ih =>
    rw [run_cons]
    have : ∀ e, shapeStep (.str, stk) 0x5C = some (.strEsc, stk) ∧
        shapeStep (.strEsc, stk) e = some (.str, stk) := by intro e; simp [shapeStep]
    rw [(this 0).1, run_cons, (this _).2, ih]
  | uni h1 _ _ ih => rw [run_uEsc stk h1, ih]
  | pair h1 _ h3 _ _ ih => rw [run_uEsc stk h1, run_uEsc stk h3, ih]
  | lone h1 _ _ _ ih => rw [run_uEsc stk h1, ih]


def ShapeGoal (s r : Bytes) : Item → Prop
  | .val _ => ∀ (m : Mode), IsValMode m → ∀ stk, shapeRun (some (m, stk)) s = shapeRun (some (.afterVal, stk)) r
  | .elems _ => ∀ (m : Mode), IsValMode m → ∀ stk,
      shapeRun (some (m, false :: stk)) s = shapeRun (some (.afterVal, stk)) r
  | .members _ => ∀ (m : Mode), IsValMode m → ∀ stk,
      shapeRun (some (m, true :: stk)) s = shapeRun (some (.afterVal, stk)) r

theorem step_after (stk : List Bool) :
    shapeStep (.afterVal, true :: stk) 0x2C = some (.val, true :: stk) ∧
    shapeStep (.afterVal, false :: stk) 0x2C = some (.val, false :: stk) ∧
    shapeStep (.afterVal, true :: stk) 0x3A = some (.val, true :: stk) ∧
    shapeStep (.afterVal, true :: stk) 0x7D = some (.afterVal, stk) ∧
    shapeStep (.afterVal, false :: stk) 0x5D = some (.afterVal, stk) := by
  simp [shapeStep, isWs, isAtomChar, isDigit]

theorem step_close (stk : List Bool) :
    shapeStep (.valOrClose, true :: stk) 0x7D = some (.afterVal, stk) ∧
    shapeStep (.valOrClose, false :: stk) 0x5D = some (.afterVal, stk) := by
  simp [shapeStep, isWs, isAtomChar, isDigit]

theorem run_literal {m : Mode} (hm : IsValMode m) (stk : List Bool) (t r : Bytes) (hne : t ≠ [])
    (h : ∀ b ∈ t, isAtomChar b = true) :
    shapeRun (some (m, stk)) (t ++ r) = shapeRun (some (.afterVal, stk)) r := by
  match t, hne with
  | b :: t, _ =>
    rw [List.cons_append, run_cons, step_val_atom hm stk (h b (by simp))]
    exact run_atoms stk t r (fun x hx => h x (by simp [hx]))

theorem shape_P {s r : Bytes} {it : Item} (h : P s it r) : ShapeGoal s r it := by
  induction h with
  | ws hb _ ih =>
    intro m hm stk
    rw [run_cons, step_val_ws hm stk hb]; exact ih m hm stk
  | wsAfter hb _ ih =>
    intro m hm stk
    rw [ih m hm stk, run_cons, step_after_ws stk hb]
  | null r => intro m hm stk; exact run_literal hm stk _ r (by decide) (by decide)
  | tru r => intro m hm stk; exact run_literal hm stk _ r (by decide) (by decide)
  | fls r => intro m hm stk; exact run_literal hm stk _ r (by decide) (by decide)
  | num r hn =>
    intro m hm stk
    exact run_literal hm stk _ r (isNumber_atoms hn).1 (isNumber_atoms hn).2
  | str hs =>
    intro m hm stk
    rw [run_cons, step_val_quote hm stk]; exact shape_str hs stk
  | raw _ ih => exact ih
  | arrEmpty r =>
    intro m hm stk
    rw [run_cons, (step_val_open hm stk).2, run_cons, (step_close stk).2]
  | arrWs hb _ ih =>
    intro m hm stk
    have := ih m hm stk
    rw [run_cons, (step_val_open hm stk).2] at this ⊢
    rw [run_cons, step_val_ws (Or.inr rfl) _ hb]; exact this
  | arr _ ih =>
    intro m hm stk
    rw [run_cons, (step_val_open hm stk).2]; exact ih .valOrClose (Or.inr rfl) stk
  | objEmpty r =>
    intro m hm stk
    rw [run_cons, (step_val_open hm stk).1, run_cons, (step_close stk).1]
  | objWs hb _ ih =>
    intro m hm stk
    have := ih m hm stk
    rw [run_cons, (step_val_open hm stk).1] at this ⊢
    rw [run_cons, step_val_ws (Or.inr rfl) _ hb]; exact this
  | obj _ ih =>
    intro m hm stk
    rw [run_cons, (step_val_open hm stk).1]; exact ih .valOrClose (Or.inr rfl) stk
  | elemsOne _ ih =>
    intro m hm stk
    rw [ih m hm (false :: stk), run_cons, (step_after stk).2.2.2.2]
  | elemsCons _ _ ih1 ih2 =>
    intro m hm stk
    rw [ih1 m hm (false :: stk), run_cons, (step_after stk).2.1]
    exact ih2 .val (Or.inl rfl) stk
  | memOne _ _ ih1 ih2 =>
    intro m hm stk
    rw [ih1 m hm (true :: stk), run_cons, (step_after stk).2.2.1, ih2 .val (Or.inl rfl) (true :: stk),
      run_cons, (step_after stk).2.2.2.1]
  | memCons _ _ _ ih1 ih2 ih3 =>
    intro m hm stk
    rw [ih1 m hm (true :: stk), run_cons, (step_after stk).2.2.1, ih2 .val (Or.inl rfl) (true :: stk),
      run_cons, (step_after stk).1]
    exact ih3 .val (Or.inl rfl) stk

/-- every JSON text passes the lenient recogniser: `shapeOk b = false` refutes `∃ v, IsJson b v` -/
theorem shapeOk_of_isJson {b : Bytes} {v : JV} (h : IsJson b v) : shapeOk b = true := by
  have := shape_P h .val (Or.inl rfl) []
  simp [shapeOk, this, shapeRun]

end Glb.Json
