/-
  Helper lemmas for C11/C12: the implementation state of IPv4Filter abstracts to a set of
  (network, prefix-length) pairs, and every operation commutes with the abstraction.
-/
import Glb.Model.Filter

namespace Glb.Filter

/-! ### the regenerated mask table is the prefix-mask function -/

theorem maskTable : ∀ n ∈ List.range' 1 32, maskOf n = prefixMask n := by decide

theorem maskOf_eq (n : Nat) (h1 : 1 ≤ n) (h2 : n ≤ 32) : maskOf n = prefixMask n :=
  maskTable n (by rw [List.mem_range'_1]; omega)

theorem prefixMask_zero : prefixMask 0 = 0 := by decide

/-! ### abstraction -/

/-- the set of prefixes the locked part of the state stands for (only membership matters) -/
def absCore (s : St) : List (Addr × Nat) :=
  if !s.mapsMode then s.list.filter (fun e => e.2 > 0) else s.maps.map (fun e => (e.2, e.1))

/-- the full abstract prefix set: `matchAll` is the prefix `0.0.0.0/0` -/
def abs (s : St) : List (Addr × Nat) :=
  (if s.matchAll then [((0 : Addr), 0)] else []) ++ absCore s

/-- well-formedness: every stored prefix length is ≤ 32 (a zeroed list slot has length 0),
    map entries have length 1..32 -/
structure WF (s : St) : Prop where
  list : ∀ e ∈ s.list, e.2 ≤ 32
  maps : ∀ e ∈ s.maps, 1 ≤ e.1 ∧ e.1 ≤ 32

theorem wf_init : WF init := ⟨by simp [init], by simp [init]⟩

theorem mem_mapsInsert (m : List (Nat × Addr)) (e x : Nat × Addr) :
    x ∈ mapsInsert m e ↔ x ∈ m ∨ x = e := by
  unfold mapsInsert
  split <;> simp_all

theorem mem_migrate_aux (l : List (Addr × Nat)) (acc : List (Nat × Addr)) (x : Nat × Addr) :
    x ∈ l.foldl (fun m e => if e.2 > 0 then mapsInsert m (e.2, e.1) else m) acc ↔
      x ∈ acc ∨ ((x.2, x.1) ∈ l ∧ x.1 > 0) := by
  induction l generalizing acc with
  | nil => simp
  | cons e l ih =>
    obtain ⟨x1, x2⟩ := x
    obtain ⟨e1, e2⟩ := e
    simp only [List.foldl_cons, ih, List.mem_cons]
    by_cases h : e2 > 0
    · simp [h, mem_mapsInsert]; grind
    · simp [h]; grind

theorem mem_migrate (l : List (Addr × Nat)) (x : Nat × Addr) :
    x ∈ migrate l ↔ ((x.2, x.1) ∈ l ∧ x.1 > 0) := by
  unfold migrate; rw [mem_migrate_aux]; simp

/-! ### every operation commutes with the abstraction -/

theorem mem_absCore_addCore (ls : Nat) (s : St) (a : Addr) (n : Nat) (hn : 1 ≤ n) (x : Addr × Nat) :
    x ∈ absCore (addCore ls s a n) ↔ x ∈ absCore s ∨ x = (a &&& maskOf n, n) := by
  obtain ⟨x1, x2⟩ := x
  unfold addCore absCore
  by_cases hm : s.mapsMode
  · simp [hm, mem_mapsInsert]; grind
  · by_cases hl : s.list.length < ls
    · simp [hm, hl, List.filter_append]; grind
    · simp [hm, hl, mem_mapsInsert, mem_migrate]; grind

theorem mem_absCore_removeCore (s : St) (a : Addr) (n : Nat) (x : Addr × Nat) :
    x ∈ absCore (removeCore s a n) ↔ x ∈ absCore s ∧ x ≠ (a &&& maskOf n, n) := by
  obtain ⟨x1, x2⟩ := x
  unfold removeCore absCore
  by_cases hm : s.mapsMode
  · simp [hm]; grind
  · simp [hm]; grind

theorem wf_addCore (ls : Nat) (s : St) (a : Addr) (n : Nat) (hn : 1 ≤ n) (hn' : n ≤ 32)
    (h : WF s) : WF (addCore ls s a n) := by
  obtain ⟨h1, h2⟩ := h
  unfold addCore
  by_cases hm : s.mapsMode
  · simp [hm]; constructor <;> simp [mem_mapsInsert] <;> grind
  · by_cases hl : s.list.length < ls
    · simp [hm, hl]; constructor <;> simp <;> grind
    · simp [hm, hl]; constructor <;> simp [mem_mapsInsert, mem_migrate] <;> grind

theorem wf_removeCore (s : St) (a : Addr) (n : Nat) (h : WF s) : WF (removeCore s a n) := by
  obtain ⟨h1, h2⟩ := h
  unfold removeCore
  by_cases hm : s.mapsMode
  · simp [hm]; constructor <;> simp <;> grind
  · simp [hm]; constructor <;> simp <;> grind

/-- the locked scan answers membership in the abstract prefix set -/
theorem scan_iff (s : St) (h : WF s) (ip : Addr) :
    scan s ip = true ↔ ∃ e ∈ absCore s, ip &&& prefixMask e.2 = e.1 := by
  obtain ⟨h1, h2⟩ := h
  unfold scan absCore
  by_cases hm : s.mapsMode
  · simp [hm]
    constructor
    · rintro ⟨i, hi, hc⟩
      refine ⟨_, _, ⟨_, _, hc, rfl, rfl⟩, ?_⟩
      rw [maskOf_eq _ (by omega) (by omega)]
    · rintro ⟨a, n, ⟨p, q, hpq, rfl, rfl⟩, hip⟩
      have := h2 _ hpq
      simp at this
      refine ⟨p - 1, by omega, ?_⟩
      have hp : p - 1 + 1 = p := by omega
      rw [hp, maskOf_eq _ this.1 this.2, hip]; exact hpq
  · simp [hm]
    constructor
    · rintro ⟨a, n, hmem, hpos, hc⟩
      refine ⟨a, n, ⟨hmem, hpos⟩, ?_⟩
      rw [← maskOf_eq n hpos (h1 _ hmem)]; exact hc
    · rintro ⟨a, n, ⟨hmem, hpos⟩, hc⟩
      refine ⟨a, n, hmem, hpos, ?_⟩
      rw [maskOf_eq n hpos (h1 _ hmem)]; exact hc

/-! ### canonical masks -/

/-- the canonical 4-byte mask with `n` leading ones -/
def prefixByte (k : Nat) : UInt8 := UInt8.ofNat (256 - 2 ^ (8 - min k 8))
def cidrMask (n : Nat) : Bytes :=
  [prefixByte n, prefixByte (n - 8), prefixByte (n - 16), prefixByte (n - 24)]

/-- `len` mask bytes with `n` leading ones -/
def maskBytes : Nat → Nat → Bytes
  | 0, _ => []
  | l + 1, n => prefixByte n :: maskBytes l (n - 8)

theorem cidrMask_eq (n : Nat) : cidrMask n = maskBytes 4 n := by
  simp [cidrMask, maskBytes, Nat.sub_sub]

theorem prefixByte_ge8 (k : Nat) (h : 8 ≤ k) : prefixByte k = 0xff := by
  unfold prefixByte; rw [Nat.min_eq_right h]; decide

theorem maskBytes_zero (l : Nat) : maskBytes l 0 = List.replicate l 0 := by
  induction l with
  | zero => rfl
  | succ l ih => simp [maskBytes, ih, List.replicate_succ]; decide

theorem prefixByte_leadingOnes (b : UInt8) (h : isPrefixByte b = true) :
    prefixByte (leadingOnes8 b) = b ∧ leadingOnes8 b ≤ 8 := by
  unfold isPrefixByte at h
  simp only [Bool.or_eq_true, beq_iff_eq] at h
  rcases h with (((((((h | h) | h) | h) | h) | h) | h) | h) | h <;> subst h <;> decide

theorem all_zero_eq (l : Bytes) (h : l.all (· == 0) = true) : l = List.replicate l.length 0 := by
  induction l with
  | nil => rfl
  | cons a l ih =>
    simp only [List.all_cons, Bool.and_eq_true, beq_iff_eq] at h
    rw [List.length_cons, List.replicate_succ, ← ih h.2, h.1]

/-- `net.simpleMaskLength` succeeds only on canonical masks 1ⁿ0* -/
theorem simpleMaskLength_sound (m : Bytes) (n : Nat) (h : simpleMaskLength m = some n) :
    m = maskBytes m.length n ∧ n ≤ 8 * m.length := by
  induction m generalizing n with
  | nil => simp [simpleMaskLength] at h; subst h; simp [maskBytes]
  | cons b rest ih =>
    unfold simpleMaskLength at h
    by_cases hb : (b == 0xff) = true
    · rw [if_pos hb] at h
      cases hr : simpleMaskLength rest with
      | none => simp [hr] at h
      | some k =>
        simp [hr] at h; subst h
        obtain ⟨h1, h2⟩ := ih k hr
        refine ⟨?_, by simp; omega⟩
        simp only [List.length_cons, maskBytes, Nat.add_sub_cancel]
        rw [prefixByte_ge8 _ (by omega), ← h1]
        simp at hb; rw [hb]
    · rw [if_neg hb] at h
      split at h
      · rename_i hc
        simp at h; subst h
        obtain ⟨hp, hl⟩ := prefixByte_leadingOnes b hc.1
        refine ⟨?_, by simp; omega⟩
        simp only [List.length_cons, maskBytes]
        rw [hp, Nat.sub_eq_zero_of_le hl, maskBytes_zero, ← all_zero_eq rest hc.2]
      · simp at h


end Glb.Filter
