/-
  Helper definitions and lemmas for C09 (priority of configuration sources).
-/
import Glb.Model.Config
import Glb.Proofs.ArgParse

namespace Glb.Config
open Glb.ArgParse (dash equals ArgErr effective argParse)

/-! ## vocabulary of the specification -/

/-- the environment text of a flag: flags without a key never read the environment -/
def envOf (env : Bytes → Option Bytes) (f : Flag) : Option Bytes :=
  if f.env = [] then none else env f.env

/-- THE PRIORITY RULE for one field: the command-line text if present, else the environment text
    — read by the type's parser, the empty text meaning the zero value — else the JSON value, else
    what the field held before (the parsed tag default).  `none` = the chosen text is unreadable. -/
def expected (W : World) (k : Kind) (cli envv : Option Bytes) (json : Option Val) (dflt : Val) :
    Option Val :=
  match cli with
  | some t => setText W k t
  | none => match envv with
    | some t => setText W k t
    | none => some (json.getD dflt)

/-- the text whose readability decides success: command line shadows environment -/
def effectiveText (cli envv : Option Bytes) : Option Bytes :=
  match cli with
  | some t => some t
  | none => envv

/-- the file named by `-config` on the COMMAND LINE (only), `""` when absent -/
def cliPath (as : List (Bytes × Bytes)) : Bytes := (effective as configName).getD []

/-- what the JSON carrier contributes: `none` = unreadable / invalid, `some []` when there is no
    carrier at all; the file named by `-config`, else `CFG_CONFIG_B64` -/
def carrierOverlay (W : World) (env : Bytes → Option Bytes) (path : Bytes) : Option (List (Nat × Val)) :=
  if path ≠ [] then (W.readFile path).bind W.unmarshal
  else match env Generated.b64ConfigEnv with
    | some s => (W.b64Decode s).bind W.unmarshal
    | none => some []

/-! ## indexByte / parseTag -/

theorem indexByte_lt (s : Bytes) (c : UInt8) (p : Nat) (h : indexByte s c = some p) : p < s.length := by
  induction s generalizing p with
  | nil => simp [indexByte] at h
  | cons b s ih =>
    by_cases hb : b = c
    · simp [indexByte, hb] at h; subst h; simp
    · simp [indexByte, hb] at h
      obtain ⟨q, hq, rfl⟩ := h
      have := ih q hq
      simp; omega

theorem indexByte_append (a b : Bytes) (c : UInt8) (h : c ∉ a) :
    indexByte (a ++ c :: b) c = some a.length := by
  induction a with
  | nil => simp [indexByte]
  | cons x a ih =>
    have hx : x ≠ c := by intro e; simp [e] at h
    have ha : c ∉ a := by intro e; simp [e] at h
    simp [indexByte, hx, ih ha]

theorem indexByte_none (a : Bytes) (c : UInt8) (h : c ∉ a) : indexByte a c = none := by
  induction a with
  | nil => simp [indexByte]
  | cons x a ih =>
    have hx : x ≠ c := by intro e; simp [e] at h
    have ha : c ∉ a := by intro e; simp [e] at h
    simp [indexByte, hx, ih ha]

theorem slice_tail (s : Bytes) (p : Nat) (h : p ≤ s.length) : slice? s p s.length = .ok (s.drop p) := by
  simp only [slice?, h, Nat.le_refl, and_self, if_true]
  congr 1
  exact List.take_of_length_le (by simp)

theorem slice_head (s : Bytes) (p : Nat) (h : p ≤ s.length) : slice? s 0 p = .ok (s.take p) := by
  simp [slice?, h]

/-- the part of `parseStructFieldTag` after the separator has been chosen -/
def splitTag (name : Bytes) (sep : UInt8) : Bytes × Bytes × Bytes :=
  match indexByte name sep with
  | none => (name, [], [])
  | some pos =>
    let value := name.drop (pos + 1)
    match indexByte value sep with
    | none => (name.take pos, value, [])
    | some pos2 => (name.take pos, value.take pos2, value.drop (pos2 + 1))

theorem tagSplit_eq (name : Bytes) (sep : UInt8) : tagSplit name sep = .ok (splitTag name sep) := by
  unfold splitTag tagSplit
  cases h1 : indexByte name sep with
  | none => rfl
  | some pos =>
    have hp := indexByte_lt _ _ _ h1
    simp only [slice_tail name (pos + 1) (by omega), slice_head name pos (by omega), bind, Except.bind]
    generalize name.drop (pos + 1) = value
    cases h2 : indexByte value sep with
    | none => rfl
    | some pos2 =>
      have hp2 := indexByte_lt _ _ _ h2
      simp only [slice_tail value (pos2 + 1) (by omega), slice_head value pos2 (by omega)]
      rfl

theorem parseTag_eq (lower : Bytes → Bytes) (goName tag : Bytes) :
    parseTag lower goName tag = .ok (
      let pipe := tag.head? = some bar
      let body := if pipe then tag.drop 1 else tag
      let r := splitTag body (if pipe then bar else comma)
      (if r.1 = [] then lower goName else r.1, r.2.1, r.2.2)) := by
  unfold parseTag
  cases tag with
  | nil => simp [tagSplit_eq, bind, Except.bind, pure, Except.pure]
  | cons c t =>
    by_cases hc : c = bar
    · subst hc
      simp [idx?, slice?, tagSplit_eq, bind, Except.bind, pure, Except.pure]
    · simp [idx?, tagSplit_eq, bind, Except.bind, pure, Except.pure, hc]

theorem splitTag_three (name dflt usage : Bytes) (sep : UInt8) (h1 : sep ∉ name) (h2 : sep ∉ dflt) :
    splitTag (name ++ sep :: (dflt ++ sep :: usage)) sep = (name, dflt, usage) := by
  unfold splitTag
  rw [indexByte_append _ _ _ h1]
  have hd : List.drop (name.length + 1) (name ++ sep :: (dflt ++ sep :: usage)) = dflt ++ sep :: usage := by
    rw [List.drop_append]; simp
  simp only [hd, indexByte_append _ _ _ h2]
  simp

theorem splitTag_two (name dflt : Bytes) (sep : UInt8) (h1 : sep ∉ name) (h2 : sep ∉ dflt) :
    splitTag (name ++ sep :: dflt) sep = (name, dflt, []) := by
  unfold splitTag
  rw [indexByte_append _ _ _ h1]
  have hd : List.drop (name.length + 1) (name ++ sep :: dflt) = dflt := by
    rw [List.drop_append]; simp
  simp only [hd, indexByte_none _ _ h2]
  simp

theorem splitTag_one (name : Bytes) (sep : UInt8) (h1 : sep ∉ name) :
    splitTag name sep = (name, [], []) := by
  unfold splitTag
  rw [indexByte_none _ _ h1]

/-! ## Underscore: a specification by neighbouring bytes -/

def isAlnum (c : UInt8) : Bool := isLower c || isUpper c || isDigit c

def recase (upper : Bool) (c : UInt8) : UInt8 :=
  if isLower c then (if upper then c - 0x20 else c)
  else if isUpper c then (if upper then c else c + 0x20)
  else c

/-- is there a word boundary in front of byte `c`, given the byte before it and the byte after it?
    (1) anything after a separator; (2) an upper-case letter after a lower-case one (`aB → a_B`);
    (3) an upper-case letter followed by a lower-case one (`ABc → A_Bc`, `1Bc → 1_Bc`). -/
def boundary (prev : Option UInt8) (c : UInt8) (next : Option UInt8) : Bool :=
  match prev with
  | none => false
  | some p =>
    !isAlnum p || (isUpper c && (isLower p || (match next with | some n => isLower n | none => false)))

/-- snake case, specified with a three-byte window: separators vanish, every other byte is kept
    (re-cased), and `_` is inserted at word boundaries once something has been written -/
def snake (upper : Bool) : Option UInt8 → Bool → Bytes → Bytes
  | _, _, [] => []
  | prev, seen, c :: rest =>
    if isAlnum c then
      (if seen && boundary prev c rest.head? then [underscoreByte, recase upper c] else [recase upper c])
        ++ snake upper (some c) true rest
    else snake upper (some c) seen rest

def lastOf : Option UInt8 → Last
  | none => .initial
  | some p => if isLower p then .lowerLetter else if isUpper p then .upperLetter
    else if isDigit p then .initial else .notAlphanum

/-! ### the loop with its `last` state computes the three-byte-window specification -/

theorem lower_not_upper (c : UInt8) (h : isLower c = true) : isUpper c = false := by
  simp only [isLower, isUpper, Bool.and_eq_true, decide_eq_true_eq, Bool.and_eq_false_iff, decide_eq_false_iff_not, UInt8.le_iff_toNat_le] at *
  have : (0x61 : UInt8).toNat = 97 := rfl
  have : (0x7a : UInt8).toNat = 122 := rfl
  have : (0x41 : UInt8).toNat = 65 := rfl
  have : (0x5a : UInt8).toNat = 90 := rfl
  omega

theorem lower_not_digit (c : UInt8) (h : isLower c = true) : isDigit c = false := by
  simp only [isLower, isDigit, Bool.and_eq_true, decide_eq_true_eq, Bool.and_eq_false_iff, decide_eq_false_iff_not, UInt8.le_iff_toNat_le] at *
  have : (0x61 : UInt8).toNat = 97 := rfl
  have : (0x7a : UInt8).toNat = 122 := rfl
  have : (0x30 : UInt8).toNat = 48 := rfl
  have : (0x39 : UInt8).toNat = 57 := rfl
  omega

theorem upper_not_digit (c : UInt8) (h : isUpper c = true) : isDigit c = false := by
  simp only [isUpper, isDigit, Bool.and_eq_true, decide_eq_true_eq, Bool.and_eq_false_iff, decide_eq_false_iff_not, UInt8.le_iff_toNat_le] at *
  have : (0x41 : UInt8).toNat = 65 := rfl
  have : (0x5a : UInt8).toNat = 90 := rfl
  have : (0x30 : UInt8).toNat = 48 := rfl
  have : (0x39 : UInt8).toNat = 57 := rfl
  omega

theorem lastOf_notAlphanum (p : UInt8) : (lastOf (some p) == Last.notAlphanum) = !isAlnum p := by
  unfold lastOf isAlnum
  by_cases h1 : isLower p <;> by_cases h2 : isUpper p <;> by_cases h3 : isDigit p <;> simp [h1, h2, h3]

theorem lastOf_lower (p : UInt8) : (lastOf (some p) == Last.lowerLetter) = isLower p := by
  unfold lastOf
  by_cases h1 : isLower p <;> by_cases h2 : isUpper p <;> by_cases h3 : isDigit p <;> simp [h1, h2, h3]

theorem underscoreGo_eq_snake (upper : Bool) (s : Bytes) : ∀ (prev : Option UInt8) (seen : Bool),
    (prev = none → seen = false) →
    underscoreGo upper (lastOf prev) seen s = snake upper prev seen s := by
  induction s with
  | nil => intro prev seen _; simp [underscoreGo, snake]
  | cons c rest ih =>
    intro prev seen hinv
    by_cases hl : isLower c = true
    · have hu := lower_not_upper c hl
      have hd := lower_not_digit c hl
      have ih' := ih (some c) true (by simp)
      have hlast : lastOf (some c) = .lowerLetter := by simp [lastOf, hl]
      rw [hlast] at ih'
      cases prev with
      | none => simp [hinv rfl, underscoreGo, snake, hl, isAlnum, recase, ih']
      | some p =>
        simp only [underscoreGo, snake, hl, isAlnum, recase, ih', boundary, hu, lastOf_notAlphanum, if_true, Bool.true_or, Bool.false_and, Bool.or_false]
    · simp only [Bool.not_eq_true] at hl
      by_cases hu : isUpper c = true
      · have hd := upper_not_digit c hu
        have ih' := ih (some c) true (by simp)
        have hlast : lastOf (some c) = .upperLetter := by simp [lastOf, hl, hu]
        rw [hlast] at ih'
        cases prev with
        | none => simp [hinv rfl, underscoreGo, snake, hl, hu, isAlnum, recase, ih']
        | some p =>
          simp only [underscoreGo, snake, hl, hu, isAlnum, recase, ih', boundary, lastOf_notAlphanum, lastOf_lower]
          cases rest with
          | nil =>
            by_cases a : seen <;> by_cases b : isAlnum p <;> by_cases d : isLower p <;> simp [a, d, isAlnum] at * <;> simp_all [isAlnum]
          | cons n r =>
            by_cases a : seen <;> by_cases b : isAlnum p <;> by_cases d : isLower p <;> by_cases e : isLower n <;> simp [a, d, e, isAlnum] at * <;> simp_all [isAlnum]
      · simp only [Bool.not_eq_true] at hu
        by_cases hd : isDigit c = true
        · have ih' := ih (some c) true (by simp)
          have hlast : lastOf (some c) = .initial := by simp [lastOf, hl, hu, hd]
          rw [hlast] at ih'
          cases prev with
          | none => simp [hinv rfl, underscoreGo, snake, hl, hu, hd, isAlnum, recase, ih']
          | some p =>
            simp only [underscoreGo, snake, hl, hu, hd, isAlnum, recase, ih', boundary, lastOf_notAlphanum]
            simp
        · simp only [Bool.not_eq_true] at hd
          have ih' := ih (some c) seen (by simp)
          have hlast : lastOf (some c) = .notAlphanum := by simp [lastOf, hl, hu, hd]
          rw [hlast] at ih'
          simp [underscoreGo, snake, hl, hu, hd, isAlnum, ih']

/-! ## the stages of Parse -/

theorem envParse_length (env : Bytes → Option Bytes) (fs : List Flag) : (envParse env fs).length = fs.length := by
  simp [envParse]

theorem applyOverlayFrom_nil (k : Nat) (fs : List Flag) : applyOverlayFrom [] k fs = fs := by
  induction fs generalizing k with
  | nil => rfl
  | cons f fs ih => simp [applyOverlayFrom, jsonValue, ih]

theorem parseConfigJson_eq (W : World) (env : Bytes → Option Bytes) (h c : Flag) (rest : List Flag) :
    parseConfigJson W env (h :: c :: rest) =
      match carrierOverlay W env c.val with
      | none => .error .carrier
      | some ov => .ok (applyOverlayFrom ov 0 (h :: c :: rest)) := by
  unfold parseConfigJson carrierData carrierOverlay
  by_cases hp : c.val = []
  · simp only [hp, ne_eq, not_true_eq_false, if_false]
    cases env Generated.b64ConfigEnv with
    | none => simp [applyOverlayFrom_nil]
    | some s =>
      cases hb : W.b64Decode s with
      | none => simp [hb]
      | some d => cases hu : W.unmarshal d <;> simp [hb, hu]
  · simp only [ne_eq, hp, not_false_eq_true, if_true]
    cases hb : W.readFile c.val with
    | none => simp
    | some d => cases hu : W.unmarshal d <;> simp [hu]

/-- expected values of a whole flag list, positions counted from `k` -/
def expectAll (W : World) (as : List (Bytes × Bytes)) (ov : List (Nat × Val)) : Nat → List Flag → List (Option Val)
  | _, [] => []
  | k, f :: fs =>
    expected W f.kind (effective as f.name) f.envValue (jsonValue ov k) f.val :: expectAll W as ov (k + 1) fs

theorem expectAll_getElem? (W : World) (as : List (Bytes × Bytes)) (ov : List (Nat × Val)) (fs : List Flag) :
    ∀ (k i : Nat), (expectAll W as ov k fs)[i]? =
      fs[i]?.map (fun f => expected W f.kind (effective as f.name) f.envValue (jsonValue ov (k + i)) f.val) := by
  induction fs with
  | nil => intro k i; simp [expectAll]
  | cons f fs ih =>
    intro k i
    cases i with
    | zero => simp [expectAll]
    | succ j =>
      simp only [expectAll, List.getElem?_cons_succ, ih]
      congr 1; funext f; congr 2; omega

theorem pickText_arg_env (cli envv : Option Bytes) :
    pickText [.arg, .env] cli envv = effectiveText cli envv := by
  cases cli <;> cases envv <;> simp [pickText, effectiveText]

/-- the final loop after the JSON overlay computes the priority rule, flag by flag -/
theorem flagLoop_overlay (W : World) (as : List (Bytes × Bytes)) (ov : List (Nat × Val)) (fs : List Flag) :
    ∀ (k : Nat) (out : List Flag),
      flagLoop W [.arg, .env] as (applyOverlayFrom ov k fs) = .ok out →
      out.map (fun f => some f.val) = expectAll W as ov k fs ∧
      out.map (fun f => (f.name, f.env, f.kind)) = fs.map (fun f => (f.name, f.env, f.kind)) := by
  induction fs with
  | nil => intro k out h; simp [applyOverlayFrom, flagLoop] at h; subst h; simp [expectAll]
  | cons f fs ih =>
    intro k out h
    simp only [applyOverlayFrom, flagLoop, pickText_arg_env] at h
    cases hj : jsonValue ov k with
    | none =>
      simp only [hj] at h
      cases hc : effective as f.name with
      | none =>
        cases he : f.envValue with
        | none =>
          simp only [hc, he, effectiveText] at h
          cases hl : flagLoop W [.arg, .env] as (applyOverlayFrom ov (k + 1) fs) with
          | error e => simp [hl] at h
          | ok out' =>
            simp [hl] at h; subst h
            obtain ⟨i1, i2⟩ := ih (k + 1) out' hl
            simp [expectAll, expected, hc, he, hj, i1, i2]
        | some t =>
          simp only [hc, he, effectiveText] at h
          cases hs : setText W f.kind t with
          | none => simp [hs] at h
          | some v =>
            cases hl : flagLoop W [.arg, .env] as (applyOverlayFrom ov (k + 1) fs) with
            | error e => simp [hs, hl] at h
            | ok out' =>
              simp [hs, hl] at h; subst h
              obtain ⟨i1, i2⟩ := ih (k + 1) out' hl
              simp [expectAll, expected, hc, he, hs, i1, i2]
      | some t =>
        simp only [hc, effectiveText] at h
        cases hs : setText W f.kind t with
        | none => simp [hs] at h
        | some v =>
          cases hl : flagLoop W [.arg, .env] as (applyOverlayFrom ov (k + 1) fs) with
          | error e => simp [hs, hl] at h
          | ok out' =>
            simp [hs, hl] at h; subst h
            obtain ⟨i1, i2⟩ := ih (k + 1) out' hl
            simp [expectAll, expected, hc, hs, i1, i2]
    | some jv =>
      simp only [hj] at h
      cases hc : effective as f.name with
      | none =>
        cases he : f.envValue with
        | none =>
          simp only [hc, he, effectiveText] at h
          cases hl : flagLoop W [.arg, .env] as (applyOverlayFrom ov (k + 1) fs) with
          | error e => simp [hl] at h
          | ok out' =>
            simp [hl] at h; subst h
            obtain ⟨i1, i2⟩ := ih (k + 1) out' hl
            simp [expectAll, expected, hc, he, hj, i1, i2]
        | some t =>
          simp only [hc, he, effectiveText] at h
          cases hs : setText W f.kind t with
          | none => simp [hs] at h
          | some v =>
            cases hl : flagLoop W [.arg, .env] as (applyOverlayFrom ov (k + 1) fs) with
            | error e => simp [hs, hl] at h
            | ok out' =>
              simp [hs, hl] at h; subst h
              obtain ⟨i1, i2⟩ := ih (k + 1) out' hl
              simp [expectAll, expected, hc, he, hs, i1, i2]
      | some t =>
        simp only [hc, effectiveText] at h
        cases hs : setText W f.kind t with
        | none => simp [hs] at h
        | some v =>
          cases hl : flagLoop W [.arg, .env] as (applyOverlayFrom ov (k + 1) fs) with
          | error e => simp [hs, hl] at h
          | ok out' =>
            simp [hs, hl] at h; subst h
            obtain ⟨i1, i2⟩ := ih (k + 1) out' hl
            simp [expectAll, expected, hc, hs, i1, i2]

/-- the final loop succeeds iff the effective text of every flag is readable; it never fails with
    anything but `badValue` -/
theorem flagLoop_ok_iff (W : World) (as : List (Bytes × Bytes)) (fs : List Flag) :
    (∃ out, flagLoop W [.arg, .env] as fs = .ok out) ↔
      ∀ f ∈ fs, ∀ t, effectiveText (effective as f.name) f.envValue = some t → setText W f.kind t ≠ none := by
  induction fs with
  | nil => simp [flagLoop]
  | cons f fs ih =>
    simp only [flagLoop, pickText_arg_env, List.mem_cons, forall_eq_or_imp]
    cases ht : effectiveText (effective as f.name) f.envValue with
    | none =>
      simp only [reduceCtorEq, false_implies, implies_true, true_and]
      rw [← ih]
      cases flagLoop W [.arg, .env] as fs <;> simp
    | some t =>
      cases hs : setText W f.kind t with
      | none => simp [hs]
      | some v =>
        simp only [Option.some.injEq, forall_eq', hs, ne_eq, reduceCtorEq, not_false_eq_true, true_and]
        rw [← ih]
        cases flagLoop W [.arg, .env] as fs <;> simp

theorem flagLoop_error (W : World) (as : List (Bytes × Bytes)) (fs : List Flag) (e : ParseErr)
    (h : flagLoop W [.arg, .env] as fs = .error e) :
    ∃ f ∈ fs, e = .badValue f.name ∧ ∃ t, effectiveText (effective as f.name) f.envValue = some t ∧
      setText W f.kind t = none := by
  induction fs with
  | nil => simp [flagLoop] at h
  | cons f fs ih =>
    simp only [flagLoop, pickText_arg_env] at h
    cases ht : effectiveText (effective as f.name) f.envValue with
    | none =>
      simp only [ht] at h
      cases hl : flagLoop W [.arg, .env] as fs with
      | ok o => simp [hl] at h
      | error e' =>
        simp [hl] at h; subst h
        obtain ⟨g, hg, r⟩ := ih hl
        exact ⟨g, List.mem_cons_of_mem _ hg, r⟩
    | some t =>
      simp only [ht] at h
      cases hs : setText W f.kind t with
      | none =>
        simp [hs] at h; subst h
        exact ⟨f, List.mem_cons_self, rfl, t, ht, hs⟩
      | some v =>
        simp only [hs] at h
        cases hl : flagLoop W [.arg, .env] as fs with
        | ok o => simp [hl] at h
        | error e' =>
          simp [hl] at h; subst h
          obtain ⟨g, hg, r⟩ := ih hl
          exact ⟨g, List.mem_cons_of_mem _ hg, r⟩

/-! ## NewFlagSet -/

/-- flag `f` is what `parseStructFields` makes of leaf `lf` -/
def LeafFlag (W : World) (lf : Leaf) (f : Flag) : Prop :=
  ∃ name defValue usage v,
    parseTag W.lower lf.goName lf.tag = .ok (name, defValue, usage) ∧
    name.head? ≠ some dash ∧ equals ∉ name ∧
    setText W lf.kind defValue = some v ∧
    f = { name := name, env := underscore (Generated.envKeyPrefix ++ lf.group ++ lf.goName) true,
          kind := lf.kind, usage := usage, val := v, envValue := none }

/-- position-wise relation between two lists (core has no `Forall₂`) -/
inductive AllPairs {α β : Type} (R : α → β → Prop) : List α → List β → Prop where
  | nil : AllPairs R [] []
  | cons {a b as bs} : R a b → AllPairs R as bs → AllPairs R (a :: as) (b :: bs)

theorem AllPairs.length_eq {α β : Type} {R : α → β → Prop} {as : List α} {bs : List β}
    (h : AllPairs R as bs) : as.length = bs.length := by
  induction h with
  | nil => rfl
  | cons _ _ ih => simp [ih]

theorem AllPairs.get {α β : Type} {R : α → β → Prop} {as : List α} {bs : List β}
    (h : AllPairs R as bs) : ∀ (i : Nat) (a : α) (b : β), as[i]? = some a → bs[i]? = some b → R a b := by
  induction h with
  | nil => intro i a b ha; simp at ha
  | cons hr _ ih =>
    intro i a b ha hb
    cases i with
    | zero => simp at ha hb; subst ha hb; exact hr
    | succ j => simp at ha hb; exact ih j a b ha hb

theorem addLeaf_ok (W : World) (fl fl' : List Flag) (lf : Leaf) (h : addLeaf W fl lf = .ok fl') :
    ∃ f, fl' = fl ++ [f] ∧ LeafFlag W lf f ∧ ∀ g ∈ fl, g.name ≠ f.name := by
  unfold addLeaf at h
  cases hp : parseTag W.lower lf.goName lf.tag with
  | error p => simp [hp] at h
  | ok r =>
    obtain ⟨name, defValue, usage⟩ := r
    simp only [hp] at h
    by_cases h1 : name.head? = some dash
    · simp [h1] at h
    · by_cases h2 : equals ∈ name
      · simp [h1, h2] at h
      · by_cases h3 : fl.any (fun f => f.name = name)
        · simp [h1, h2, h3] at h
        · cases hs : setText W lf.kind defValue with
          | none => simp [h1, h2, h3, hs] at h
          | some v =>
            simp only [h1, h2, h3, hs, if_false, Bool.false_eq_true] at h
            injection h with h
            refine ⟨_, h.symm, ⟨name, defValue, usage, v, hp, h1, h2, hs, rfl⟩, ?_⟩
            intro g hg hn
            apply h3
            simp only [List.any_eq_true, decide_eq_true_eq]
            exact ⟨g, hg, hn⟩

theorem addLeaves_ok (W : World) (ls : List Leaf) : ∀ (fl fl' : List Flag),
    addLeaves W fl ls = .ok fl' →
    ∃ extra, fl' = fl ++ extra ∧ AllPairs (LeafFlag W) ls extra ∧
      ((fl.map (·.name)).Nodup → (fl'.map (·.name)).Nodup) := by
  induction ls with
  | nil =>
    intro fl fl' h
    simp [addLeaves] at h; subst h
    exact ⟨[], by simp, .nil, id⟩
  | cons lf ls ih =>
    intro fl fl' h
    simp only [addLeaves] at h
    cases h1 : addLeaf W fl lf with
    | error e => simp [h1] at h
    | ok fl1 =>
      simp only [h1] at h
      obtain ⟨f, rfl, hlf, hne⟩ := addLeaf_ok W fl fl1 lf h1
      obtain ⟨extra, rfl, hall, hnd⟩ := ih _ _ h
      refine ⟨f :: extra, by simp, .cons hlf hall, ?_⟩
      intro hn
      apply hnd
      simp only [List.map_append, List.map_cons, List.map_nil]
      rw [List.nodup_append]
      refine ⟨hn, by simp, ?_⟩
      intro a ha b hb
      simp at hb; subst hb
      simp at ha
      obtain ⟨g, hg, rfl⟩ := ha
      exact hne g hg

/-! ## upper snake case uses only `[A-Z0-9_]` -/

theorem recase_upper_lower (c : UInt8) (h : isLower c = true) : isUpper (c - 0x20) = true := by
  simp only [isLower, isUpper, Bool.and_eq_true, decide_eq_true_eq, UInt8.le_iff_toNat_le] at *
  have h1 : (0x61 : UInt8).toNat = 97 := rfl
  have h2 : (0x7a : UInt8).toNat = 122 := rfl
  have h3 : (0x41 : UInt8).toNat = 65 := rfl
  have h4 : (0x5a : UInt8).toNat = 90 := rfl
  have h5 : (0x20 : UInt8).toNat = 32 := rfl
  rw [UInt8.toNat_sub_of_le]
  · omega
  · rw [UInt8.le_iff_toNat_le]; omega

theorem recase_upper_charset (c : UInt8) (h : isAlnum c = true) :
    isUpper (recase true c) = true ∨ isDigit (recase true c) = true := by
  unfold recase
  by_cases hl : isLower c = true
  · simp [hl, recase_upper_lower c hl]
  · by_cases hu : isUpper c = true
    · simp [hl, hu]
    · simp only [Bool.not_eq_true] at hl hu
      simp [isAlnum, hl, hu] at h
      simp [hl, hu, h]

theorem snake_upper_charset (s : Bytes) : ∀ (prev : Option UInt8) (seen : Bool),
    ∀ b ∈ snake true prev seen s, isUpper b = true ∨ isDigit b = true ∨ b = underscoreByte := by
  induction s with
  | nil => intro prev seen b hb; simp [snake] at hb
  | cons c rest ih =>
    intro prev seen b hb
    by_cases ha : isAlnum c = true
    · simp only [snake, ha, if_true, List.mem_append] at hb
      rcases hb with hb | hb
      · have hr := recase_upper_charset c ha
        split at hb
        · simp at hb
          rcases hb with rfl | rfl
          · exact .inr (.inr rfl)
          · rcases hr with hr | hr
            · exact .inl hr
            · exact .inr (.inl hr)
        · simp at hb; subst hb
          rcases hr with hr | hr
          · exact .inl hr
          · exact .inr (.inl hr)
      · exact ih _ _ b hb
    · simp only [snake, ha] at hb
      exact ih _ _ b hb

/-! ## Parse on a flag set of the shape NewFlagSet builds -/

/-- expected values with the environment text read through `ev` -/
def expectAllWith (W : World) (as : List (Bytes × Bytes)) (ov : List (Nat × Val)) (ev : Flag → Option Bytes) :
    Nat → List Flag → List (Option Val)
  | _, [] => []
  | k, f :: fs =>
    expected W f.kind (effective as f.name) (ev f) (jsonValue ov k) f.val :: expectAllWith W as ov ev (k + 1) fs

theorem expectAllWith_getElem? (W : World) (as : List (Bytes × Bytes)) (ov : List (Nat × Val))
    (ev : Flag → Option Bytes) (fs : List Flag) :
    ∀ (k i : Nat), (expectAllWith W as ov ev k fs)[i]? =
      fs[i]?.map (fun f => expected W f.kind (effective as f.name) (ev f) (jsonValue ov (k + i)) f.val) := by
  induction fs with
  | nil => intro k i; simp [expectAllWith]
  | cons f fs ih =>
    intro k i
    cases i with
    | zero => simp [expectAllWith]
    | succ j =>
      simp only [expectAllWith, List.getElem?_cons_succ, ih]
      congr 1; funext f; congr 2; omega

theorem expectAll_envParse (W : World) (as : List (Bytes × Bytes)) (ov : List (Nat × Val))
    (env : Bytes → Option Bytes) (fs : List Flag) (hnone : ∀ f ∈ fs, f.envValue = none) :
    ∀ k, expectAll W as ov k (envParse env fs) = expectAllWith W as ov (envOf env) k fs := by
  induction fs with
  | nil => intro k; simp [envParse, expectAll, expectAllWith]
  | cons f fs ih =>
    intro k
    have hf : f.envValue = none := hnone f List.mem_cons_self
    have ih' := ih (fun g hg => hnone g (List.mem_cons_of_mem _ hg)) (k + 1)
    simp only [envParse, List.map_cons] at ih' ⊢
    simp only [expectAll, expectAllWith, ih']
    congr 1
    unfold envOf
    by_cases he : f.env = []
    · simp [he, hf]
    · simp only [he, if_false]
      cases env f.env <;> simp [hf]

theorem envParse_names (env : Bytes → Option Bytes) (fs : List Flag) :
    (envParse env fs).map (fun f => (f.name, f.env, f.kind)) = fs.map (fun f => (f.name, f.env, f.kind)) := by
  induction fs with
  | nil => simp [envParse]
  | cons f fs ih =>
    simp only [envParse, List.map_cons, List.map_map] at ih ⊢
    congr 1
    by_cases he : f.env = []
    · simp [he]
    · simp only [he, if_false]; cases env f.env <;> simp

/-- the outcome of `Parse`, with the extracted step order spelled out, on a flag set that starts
    with the two built-ins -/
theorem parse_eq (W : World) (extra : List Flag) (argv : List Bytes) (env : Bytes → Option Bytes) :
    parse W (builtins W ++ extra) argv env =
      match argParse (lookupFlag (builtins W ++ extra)) argv with
      | .error p => .error (.panic p)
      | .ok (.err e _) => .error (.arg e)
      | .ok (.ok st) =>
        match carrierOverlay W env (cliPath st.assigns) with
        | none => .error .carrier
        | some ov =>
          match flagLoop W [.arg, .env] st.assigns
              (applyOverlayFrom ov 0
                ({ name := helpName, env := [], kind := .bool, val := W.zero .bool } ::
                 { name := configName, env := [], kind := .string, val := cliPath st.assigns } ::
                 envParse env extra)) with
          | .error e => .error e
          | .ok out => .ok { flags := out, args := st.args, assigns := st.assigns } := by
  have hne : helpName ≠ configName := by decide
  unfold parse
  simp only [Generated.parseSteps, runSteps, runStep]
  cases argParse (lookupFlag (builtins W ++ extra)) argv with
  | error p => rfl
  | ok r =>
    cases r with
    | err e s => rfl
    | ok st =>
      simp only [builtins, List.cons_append, List.nil_append, envParse, List.map_cons, if_true]
      cases hc : effective st.assigns configName with
      | none =>
        simp only [cliPath, hc, Option.getD_none]
        rw [parseConfigJson_eq]
        cases carrierOverlay W env [] with
        | none => rfl
        | some ov =>
          simp only []
          cases flagLoop W [.arg, .env] st.assigns _ <;> rfl
      | some t =>
        simp only [cliPath, hc, Option.getD_some, setByName, hne, if_false, if_true, setText]
        rw [parseConfigJson_eq]
        cases carrierOverlay W env t with
        | none => rfl
        | some ov =>
          simp only []
          cases flagLoop W [.arg, .env] st.assigns _ <;> rfl

/-! ## the readability condition of the final loop -/

/-- the flags' kinds and effective texts are not changed by the JSON overlay -/
theorem texts_overlay (ov : List (Nat × Val)) (fs : List Flag) :
    ∀ k, (applyOverlayFrom ov k fs).map (fun f => (f.name, f.kind, f.envValue)) =
      fs.map (fun f => (f.name, f.kind, f.envValue)) := by
  induction fs with
  | nil => intro k; simp [applyOverlayFrom]
  | cons f fs ih =>
    intro k
    simp only [applyOverlayFrom, List.map_cons, ih]
    cases jsonValue ov k <;> simp

theorem envParse_texts (env : Bytes → Option Bytes) (fs : List Flag)
    (hnone : ∀ f ∈ fs, f.envValue = none) :
    (envParse env fs).map (fun f => (f.name, f.kind, f.envValue)) =
      fs.map (fun f => (f.name, f.kind, envOf env f)) := by
  induction fs with
  | nil => simp [envParse]
  | cons f fs ih =>
    have hf : f.envValue = none := hnone f List.mem_cons_self
    have ih' := ih (fun g hg => hnone g (List.mem_cons_of_mem _ hg))
    simp only [envParse, List.map_cons, List.map_map] at ih' ⊢
    rw [ih']
    congr 1
    unfold envOf
    by_cases he : f.env = []
    · simp [he, hf]
    · simp only [he, if_false]; cases env f.env <;> simp [hf]

/-- the readability condition of the final loop, on the list the loop really runs over, is the
    condition on the original flags with the environment read through `envOf` -/
theorem loop_condition (W : World) (extra : List Flag) (env : Bytes → Option Bytes)
    (as : List (Bytes × Bytes)) (ov : List (Nat × Val)) (path : Bytes)
    (hnone : ∀ f ∈ extra, f.envValue = none) :
    (∀ f ∈ applyOverlayFrom ov 0
        ({ name := helpName, env := [], kind := .bool, val := W.zero .bool } ::
         { name := configName, env := [], kind := .string, val := path } :: envParse env extra),
      ∀ t, effectiveText (effective as f.name) f.envValue = some t → setText W f.kind t ≠ none) ↔
    (∀ f ∈ builtins W ++ extra,
      ∀ t, effectiveText (effective as f.name) (envOf env f) = some t → setText W f.kind t ≠ none) := by
  have key : ∀ (l1 l2 : List Flag) (ev1 ev2 : Flag → Option Bytes),
      l1.map (fun f => (f.name, f.kind, ev1 f)) = l2.map (fun f => (f.name, f.kind, ev2 f)) →
      ((∀ f ∈ l1, ∀ t, effectiveText (effective as f.name) (ev1 f) = some t → setText W f.kind t ≠ none) →
       (∀ f ∈ l2, ∀ t, effectiveText (effective as f.name) (ev2 f) = some t → setText W f.kind t ≠ none)) := by
    intro l1 l2 ev1 ev2 hm hl f hf t ht
    obtain ⟨i, hi⟩ := List.getElem?_of_mem hf
    have h1 := congrArg (fun l => l[i]?) hm
    simp only [List.getElem?_map, hi, Option.map_some] at h1
    cases hg : l1[i]? with
    | none => simp [hg] at h1
    | some g =>
      simp only [hg, Option.map_some, Option.some.injEq, Prod.mk.injEq] at h1
      have := hl g (List.mem_of_getElem? hg) t (by rw [h1.1, h1.2.2]; exact ht)
      rw [h1.2.1] at this; exact this
  have hm : (applyOverlayFrom ov 0
        ({ name := helpName, env := [], kind := .bool, val := W.zero .bool } ::
         { name := configName, env := [], kind := .string, val := path } :: envParse env extra)).map
        (fun f => (f.name, f.kind, f.envValue)) =
      (builtins W ++ extra).map (fun f => (f.name, f.kind, envOf env f)) := by
    rw [texts_overlay]
    simp [builtins, envParse_texts env extra hnone, envOf]
  exact ⟨key _ _ _ _ hm, key _ _ _ _ hm.symm⟩

theorem extra_envValue_none (W : World) (fields : List Field) (extra : List Flag)
    (hall : AllPairs (LeafFlag W) (flattenFields [] fields) extra) : ∀ f ∈ extra, f.envValue = none := by
  intro f hf
  obtain ⟨i, hi⟩ := List.getElem?_of_mem hf
  have hlen := hall.length_eq
  have hi' : i < (flattenFields [] fields).length := by
    have := (List.getElem?_eq_some_iff.1 hi).1; omega
  obtain ⟨n, d, u, v, _, _, _, _, rfl⟩ := hall.get i _ f (List.getElem?_eq_getElem hi') hi
  rfl


end Glb.Config
