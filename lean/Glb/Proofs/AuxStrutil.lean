/- Lemmas about the Camelize / IsDigitString / SliceContain models. -/
import Glb.Model.AuxStrutil
import Glb.Proofs.Config

namespace Glb.Aux.Str
open Glb.Config (isLower isUpper isDigit lower_not_upper lower_not_digit upper_not_digit)

/-! ### bytes -/

theorem lower_sub_upper (c : UInt8) (h : isLower c = true) : isUpper (c - 0x20) = true := by
  simp only [isLower, isUpper, Bool.and_eq_true, decide_eq_true_eq, UInt8.le_iff_toNat_le, UInt8.toNat_sub] at *
  have : (0x61 : UInt8).toNat = 97 := rfl
  have : (0x7a : UInt8).toNat = 122 := rfl
  have : (0x41 : UInt8).toNat = 65 := rfl
  have : (0x5a : UInt8).toNat = 90 := rfl
  have : (0x20 : UInt8).toNat = 32 := rfl
  omega

theorem upper_add_lower (c : UInt8) (h : isUpper c = true) : isLower (c + 0x20) = true := by
  simp only [isLower, isUpper, Bool.and_eq_true, decide_eq_true_eq, UInt8.le_iff_toNat_le, UInt8.toNat_add] at *
  have : (0x61 : UInt8).toNat = 97 := rfl
  have : (0x7a : UInt8).toNat = 122 := rfl
  have : (0x41 : UInt8).toNat = 65 := rfl
  have : (0x5a : UInt8).toNat = 90 := rfl
  have : (0x20 : UInt8).toNat = 32 := rfl
  omega

theorem upper_not_lower (c : UInt8) (h : isUpper c = true) : isLower c = false := by
  cases hl : isLower c with
  | false => rfl
  | true => rw [lower_not_upper c hl] at h; cases h

theorem toLower_idem (c : UInt8) : toLowerByte (toLowerByte c) = toLowerByte c := by
  unfold toLowerByte
  by_cases h : isUpper c = true
  · simp [h, lower_not_upper _ (upper_add_lower c h)]
  · simp [h]

theorem toLower_alnum (c : UInt8) (h : isAlnumByte c = true) : isAlnumByte (toLowerByte c) = true := by
  unfold toLowerByte
  by_cases hu : isUpper c = true
  · simp [hu, isAlnumByte, upper_add_lower c hu]
  · simpa [hu] using h

theorem toLower_letter (c : UInt8) (h : isLetter c = true) :
    isLetter (toLowerByte c) = true ∧ isLower (toLowerByte c) = true := by
  unfold toLowerByte
  by_cases hu : isUpper c = true
  · simp [hu, isLetter, upper_add_lower c hu]
  · simp only [isLetter, Bool.or_eq_true] at h
    rcases h with h | h
    · simp [hu, isLetter, h]
    · exact absurd h hu

theorem toUpper_letter (c : UInt8) (h : isLetter c = true) :
    isLetter (toUpperByte c) = true ∧ isUpper (toUpperByte c) = true := by
  unfold toUpperByte
  by_cases hl : isLower c = true
  · simp [hl, isLetter, lower_sub_upper c hl]
  · simp only [isLetter, Bool.or_eq_true] at h
    rcases h with h | h
    · exact absurd h hl
    · simp [hl, isLetter, h]

theorem toLower_of_lower (c : UInt8) (h : isLower c = true) : toLowerByte c = c := by
  simp [toLowerByte, lower_not_upper c h]

theorem toUpper_of_upper (c : UInt8) (h : isUpper c = true) : toUpperByte c = c := by
  simp [toUpperByte, upper_not_lower c h]

theorem toLower_nonletter (c : UInt8) (h : isLetter c = false) : toLowerByte c = c := by
  simp only [isLetter, Bool.or_eq_false_iff] at h
  simp [toLowerByte, h.2]

/-! ### Camelize -/

/-- the letter branch of the loop, in one line -/
def recaseTo (upper : Bool) (c : UInt8) : UInt8 := if upper then toUpperByte c else toLowerByte c

theorem camelizeGo_letter (u ne : Bool) (c : UInt8) (rest : Bytes) (h : isLetter c = true) :
    camelizeGo u ne (c :: rest) = recaseTo u c :: camelizeGo false true rest := by
  simp only [isLetter, Bool.or_eq_true] at h
  by_cases hl : isLower c = true
  · have hu := lower_not_upper c hl
    cases u <;> simp [camelizeGo, hl, recaseTo, toUpperByte, toLowerByte, hu]
  · have hu : isUpper c = true := by rcases h with h | h; exact absurd h hl; exact h
    cases u <;> simp [camelizeGo, hl, hu, recaseTo, toUpperByte, toLowerByte]

theorem camelizeGo_digit (u ne : Bool) (c : UInt8) (rest : Bytes) (h : isDigit c = true) :
    camelizeGo u ne (c :: rest) = c :: camelizeGo u true rest := by
  have hl : isLower c = false := by
    cases hl : isLower c with
    | false => rfl
    | true => rw [lower_not_digit c hl] at h; cases h
  have hu : isUpper c = false := by
    cases hu : isUpper c with
    | false => rfl
    | true => rw [upper_not_digit c hu] at h; cases h
  simp [camelizeGo, hl, hu, h]

theorem camelizeGo_sep (u ne : Bool) (c : UInt8) (rest : Bytes) (h : isAlnumByte c = false) :
    camelizeGo u ne (c :: rest) = camelizeGo (ne || u) ne rest := by
  simp only [isAlnumByte, Bool.or_eq_false_iff] at h
  simp [camelizeGo, h.1.1, h.1.2, h.2]

theorem byte_cases (c : UInt8) :
    isLetter c = true ∨ (isDigit c = true ∧ isLetter c = false) ∨ isAlnumByte c = false := by
  unfold isLetter isAlnumByte
  cases h1 : isLower c <;> cases h2 : isUpper c <;> cases h3 : isDigit c <;> simp

theorem recaseTo_alnum (u : Bool) (c : UInt8) (h : isLetter c = true) : isAlnumByte (recaseTo u c) = true := by
  have : ∀ x, isLetter x = true → isAlnumByte x = true := by
    intro x hx; simp only [isLetter, Bool.or_eq_true] at hx; simp only [isAlnumByte, Bool.or_eq_true]; exact .inl hx
  cases u
  · exact this _ (toLower_letter c h).1
  · exact this _ (toUpper_letter c h).1

theorem camelizeGo_alnum (s : Bytes) : ∀ (u ne : Bool), ∀ b ∈ camelizeGo u ne s, isAlnumByte b = true := by
  induction s with
  | nil => intro u ne b hb; simp [camelizeGo] at hb
  | cons c rest ih =>
    intro u ne b hb
    rcases byte_cases c with h | ⟨h, _⟩ | h
    · rw [camelizeGo_letter u ne c rest h] at hb
      simp only [List.mem_cons] at hb
      rcases hb with rfl | hb
      · exact recaseTo_alnum u c h
      · exact ih _ _ b hb
    · rw [camelizeGo_digit u ne c rest h] at hb
      simp only [List.mem_cons] at hb
      rcases hb with rfl | hb
      · simp [isAlnumByte, h]
      · exact ih _ _ b hb
    · rw [camelizeGo_sep u ne c rest h] at hb
      exact ih _ _ b hb

theorem camelizeGo_length (s : Bytes) : ∀ (u ne : Bool), (camelizeGo u ne s).length ≤ s.length := by
  induction s with
  | nil => intro u ne; simp [camelizeGo]
  | cons c rest ih =>
    intro u ne
    rcases byte_cases c with h | ⟨h, _⟩ | h
    · rw [camelizeGo_letter u ne c rest h]; simp; exact ih _ _
    · rw [camelizeGo_digit u ne c rest h]; simp; exact ih _ _
    · rw [camelizeGo_sep u ne c rest h]; have := ih (ne || u) ne; simp; omega

/-- after the first letter, on letters and digits only, everything is lower-cased -/
theorem camelizeGo_false_alnum (t : Bytes) (ht : ∀ b ∈ t, isAlnumByte b = true) :
    ∀ ne, camelizeGo false ne t = t.map toLowerByte := by
  induction t with
  | nil => intro ne; simp [camelizeGo]
  | cons c rest ih =>
    intro ne
    have ih' := ih (fun b hb => ht b (List.mem_cons_of_mem _ hb))
    rcases byte_cases c with h | ⟨h, hn⟩ | h
    · rw [camelizeGo_letter false ne c rest h, ih' true]; simp [recaseTo]
    · rw [camelizeGo_digit false ne c rest h, ih' true]; simp [toLower_nonletter c hn]
    · rw [ht c (List.mem_cons_self ..)] at h; cases h

theorem camelizeGo_alnum_input (t : Bytes) (ht : ∀ b ∈ t, isAlnumByte b = true) :
    ∀ u ne, camelizeGo u ne t = capFirst u t := by
  induction t with
  | nil => intro u ne; simp [camelizeGo, capFirst]
  | cons c rest ih =>
    intro u ne
    have hr : ∀ b ∈ rest, isAlnumByte b = true := fun b hb => ht b (List.mem_cons_of_mem _ hb)
    rcases byte_cases c with h | ⟨h, hn⟩ | h
    · rw [camelizeGo_letter u ne c rest h, camelizeGo_false_alnum rest hr]
      simp [capFirst, h, recaseTo]
    · rw [camelizeGo_digit u ne c rest h, ih hr]
      simp [capFirst, hn]
    · rw [ht c (List.mem_cons_self ..)] at h; cases h

theorem capFirst_alnum (u : Bool) (t : Bytes) (ht : ∀ b ∈ t, isAlnumByte b = true) :
    ∀ b ∈ capFirst u t, isAlnumByte b = true := by
  induction t with
  | nil => simp [capFirst]
  | cons c rest ih =>
    have hr : ∀ b ∈ rest, isAlnumByte b = true := fun b hb => ht b (List.mem_cons_of_mem _ hb)
    intro b hb
    by_cases h : isLetter c = true
    · simp only [capFirst, h, if_true, List.mem_cons, List.mem_map] at hb
      rcases hb with rfl | ⟨x, hx, rfl⟩
      · exact recaseTo_alnum u c h
      · exact toLower_alnum x (hr x hx)
    · have h' : isLetter c = false := by simpa using h
      simp only [capFirst, h', Bool.false_eq_true, if_false, List.mem_cons] at hb
      rcases hb with rfl | hb
      · exact ht _ (List.mem_cons_self ..)
      · exact ih hr b hb

theorem capFirst_idem (u : Bool) (t : Bytes) : capFirst u (capFirst u t) = capFirst u t := by
  induction t with
  | nil => simp [capFirst]
  | cons c rest ih =>
    by_cases h : isLetter c = true
    · have h1 : isLetter (if u = true then toUpperByte c else toLowerByte c) = true := by
        cases u
        · simpa using (toLower_letter c h).1
        · simpa using (toUpper_letter c h).1
      have h2 : (if u = true then toUpperByte (if u = true then toUpperByte c else toLowerByte c)
          else toLowerByte (if u = true then toUpperByte c else toLowerByte c)) =
          (if u = true then toUpperByte c else toLowerByte c) := by
        cases u
        · simp [toLower_idem]
        · simp [toUpper_of_upper _ (toUpper_letter c h).2]
      simp only [capFirst, h, if_true, h1, h2, List.map_map]
      congr 1
      apply List.map_congr_left
      intro x _
      simp [toLower_idem]
    · have h' : isLetter c = false := by simpa using h
      simp only [capFirst, h', Bool.false_eq_true, if_false, ih]

/-- `Camelize` is NOT idempotent ("a_b" ↦ "aB" ↦ "ab"), but it is from the second application on -/
theorem camelize_stable (s : Bytes) (u : Bool) :
    camelize (camelize (camelize s u) u) u = camelize (camelize s u) u := by
  have h1 : ∀ b ∈ camelize s u, isAlnumByte b = true := camelizeGo_alnum s u false
  have e1 : camelize (camelize s u) u = capFirst u (camelize s u) := camelizeGo_alnum_input _ h1 u false
  have h2 := capFirst_alnum u _ h1
  rw [e1]
  show camelizeGo u false (capFirst u (camelize s u)) = _
  rw [camelizeGo_alnum_input _ h2, capFirst_idem]

/-- a prefix without letters and digits is skipped and leaves `upper` as it was -/
theorem camelize_skip_seps (pre : Bytes) (hp : ∀ b ∈ pre, isAlnumByte b = false) (u : Bool) (rest : Bytes) :
    camelizeGo u false (pre ++ rest) = camelizeGo u false rest := by
  induction pre with
  | nil => rfl
  | cons c pre ih =>
    rw [List.cons_append, camelizeGo_sep u false c _ (hp c (List.mem_cons_self ..))]
    simpa using ih (fun b hb => hp b (List.mem_cons_of_mem _ hb))

/-- with `upper = true` a prefix without letters contributes its digits and leaves `upper` set -/
theorem camelize_skip_nonletters (pre : Bytes) (hp : ∀ b ∈ pre, isLetter b = false) (rest : Bytes) :
    ∀ ne, ∃ ne', camelizeGo true ne (pre ++ rest) = pre.filter isDigit ++ camelizeGo true ne' rest := by
  induction pre with
  | nil => intro ne; exact ⟨ne, rfl⟩
  | cons c pre ih =>
    intro ne
    have hc := hp c (List.mem_cons_self ..)
    have ih' := ih (fun b hb => hp b (List.mem_cons_of_mem _ hb))
    rcases byte_cases c with h | ⟨h, _⟩ | h
    · rw [hc] at h; cases h
    · obtain ⟨ne', e⟩ := ih' true
      exact ⟨ne', by rw [List.cons_append, camelizeGo_digit true ne c _ h, e]; simp [h]⟩
    · obtain ⟨ne', e⟩ := ih' ne
      have hd : isDigit c = false := by
        simp only [isAlnumByte, Bool.or_eq_false_iff] at h; exact h.2
      exact ⟨ne', by rw [List.cons_append, camelizeGo_sep true ne c _ h]; simp [e, hd]⟩

/-! ### IsDigitString, SliceContain -/

theorem allDigitsGo_iff (s : Bytes) : allDigitsGo s = true ↔ ∀ b ∈ s, isDigit b = true := by
  induction s with
  | nil => simp [allDigitsGo]
  | cons c rest ih =>
    simp only [allDigitsGo, List.mem_cons, forall_eq_or_imp]
    by_cases h : isDigit c = true
    · have : (c < 0x30 || c > 0x39) = false := by
        simp only [isDigit, Bool.and_eq_true, decide_eq_true_eq] at h
        simp only [Bool.or_eq_false_iff, decide_eq_false_iff_not, UInt8.not_lt, gt_iff_lt]
        exact h
      simp [this, h, ih]
    · have : (c < 0x30 || c > 0x39) = true := by
        simp only [isDigit, Bool.and_eq_true, decide_eq_true_eq, not_and, UInt8.not_le] at h
        simp only [Bool.or_eq_true, decide_eq_true_eq, gt_iff_lt]
        by_cases h0 : c < 0x30
        · exact .inl h0
        · exact .inr (h (UInt8.not_lt.mp h0))
      simp [this, h]

theorem sliceContain_iff (l : List Bytes) (v : Bytes) : sliceContain l v = true ↔ v ∈ l := by
  induction l with
  | nil => simp [sliceContain]
  | cons x rest ih =>
    by_cases h : v = x
    · simp [sliceContain, h]
    · simp [sliceContain, h, ih]

end Glb.Aux.Str
