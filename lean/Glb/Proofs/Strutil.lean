/-
  Helper lemmas for C16: the quoting discipline of ShellEscape seen by the POSIX word lexer.
  Everything here is generic in the replacement literal `r`; the literals of the source are
  plugged in by `Glb.Tie.Strutil`.
-/
import Glb.Model.Strutil
import Glb.Spec.PosixWords

namespace Glb.Strutil
open Glb.PosixWords

/-- byte-wise view of `strings.Replace(s, "'", r, -1)` -/
def quoteEach (r : Bytes) (s : Bytes) : Bytes := s.flatMap fun b => if b = 39 then r else [b]

theorem replaceGo_quote (r : Bytes) (n : Int) (hn : n < 0) (s : Bytes) :
    replaceGo [39] r n 0 s = quoteEach r s := by
  induction s with
  | nil => simp [replaceGo, quoteEach]
  | cons b t ih =>
    have hn0 : n ≠ 0 := by omega
    have hn1 : ¬ n > 0 := by omega
    by_cases hb : b = 39
    · subst hb
      simp [replaceGo, quoteEach, hn0, hn1] at ih ⊢
      exact ih
    · have hb' : ¬ ((39 : UInt8) = b) := fun h => hb h.symm
      simp [replaceGo, quoteEach, hb, hb'] at ih ⊢
      exact ih

theorem shellEscapeGen_quote (r s : Bytes) :
    shellEscapeGen [39] [39] r [39] (-1) s = [39] ++ quoteEach r s ++ [39] := by
  simp [shellEscapeGen, replaceGo_quote r (-1) (by omega) s]

/-! ### the lexer on the three parts of the output -/

theorem run_append (st : St) (a b : Bytes) : run st (a ++ b) = run (run st a) b := by
  simp [run, List.foldl_append]

/-- state "inside single quotes, current word `w`" -/
def inSq (w : List Atom) (ws : List (List Atom)) (sp : Bool) : St :=
  { mode := .sq, cur := some w, words := ws, special := sp }

/-- The property a replacement for `'` must have: read inside single quotes it leaves the lexer
    inside single quotes again, having contributed exactly one literal `'` to the current word and
    nothing else (no new word, no flag). -/
def QuoteNeutral (r : Bytes) : Prop :=
  ∀ w ws sp, run (inSq w ws sp) r = inSq (w ++ [.byte 39]) ws sp

theorem step_sq_plain (w ws sp) (b : UInt8) (hb : b ≠ 39) :
    step (inSq w ws sp) b = inSq (w ++ [.byte b]) ws sp := by
  simp [step, inSq, hb, St.push]

theorem run_quoteEach (r : Bytes) (hr : QuoteNeutral r) (s : Bytes) :
    ∀ w ws sp, run (inSq w ws sp) (quoteEach r s) = inSq (w ++ lit s) ws sp := by
  induction s with
  | nil => intro w ws sp; simp [quoteEach, run, lit]
  | cons b t ih =>
    intro w ws sp
    have hcons : quoteEach r (b :: t) = (if b = 39 then r else [b]) ++ quoteEach r t := by
      simp [quoteEach]
    rw [hcons, run_append]
    by_cases hb : b = 39
    · subst hb
      simp only [if_true]
      rw [hr, ih]
      simp [lit]
    · simp only [hb, if_false]
      have h1 : run (inSq w ws sp) [b] = inSq (w ++ [.byte b]) ws sp := by
        simp [run, step_sq_plain _ _ _ _ hb]
      rw [h1, ih]
      simp [lit]

/-- the generic form of C16: any quote-neutral replacement makes the output exactly one word
    whose value is the input -/
theorem lex_escape_generic (r : Bytes) (hr : QuoteNeutral r) (s : Bytes) :
    lex ([39] ++ quoteEach r s ++ [39]) = { words := [lit s], special := false, unterminated := false } := by
  have h0 : run {} [39] = inSq [] [] false := by
    simp [run, step, stepUnq, inSq, St.start, isBlank, isOperator]
  have h2 : ∀ w, run (inSq w [] false) [39] = { mode := .unq, cur := some w } := by
    intro w; simp [run, step, inSq]
  unfold lex
  rw [run_append, run_append, h0, run_quoteEach r hr, h2]
  simp [finish]

/-- the same after an unquoted `~/` at the start of the word -/
theorem lex_tilde_escape_generic (r : Bytes) (hr : QuoteNeutral r) (s : Bytes) :
    lex ([126, 47] ++ ([39] ++ quoteEach r s ++ [39])) =
      { words := [[Atom.home, .byte 47] ++ lit s], special := false, unterminated := false } := by
  have h0 : run {} [126, 47, 39] = inSq [.home, .byte 47] [] false := by
    simp [run, step, stepUnq, inSq, St.start, isBlank, isOperator, isSubst, isActive]
  have h2 : ∀ w, run (inSq w [] false) [39] = { mode := .unq, cur := some w } := by
    intro w; simp [run, step, inSq]
  have hsplit : [126, 47] ++ ([39] ++ quoteEach r s ++ [39]) = [126, 47, 39] ++ quoteEach r s ++ [39] := by
    simp
  unfold lex
  rw [hsplit, run_append, run_append, h0, run_quoteEach r hr, h2]
  simp [finish]

/-! ### ShellEscapeExceptTilde -/

theorem hasPrefix_append (p r : Bytes) : hasPrefix (p ++ r) p = true := by
  simp [hasPrefix]

theorem exceptTilde_prefix (esc : Bytes → Bytes) (p keep r : Bytes) :
    shellEscapeExceptTildeGen esc p keep p.length (p ++ r) = .ok (keep ++ esc r) := by
  simp [shellEscapeExceptTildeGen, hasPrefix_append, slice?]
  rfl

theorem exceptTilde_other (esc : Bytes → Bytes) (p keep : Bytes) (off : Nat) (s : Bytes)
    (h : hasPrefix s p = false) :
    shellEscapeExceptTildeGen esc p keep off s = .ok (esc s) := by
  simp [shellEscapeExceptTildeGen, h]
  rfl

/-! ### a decidable test for `QuoteNeutral`

The lexer never looks INTO the current word, the finished words or the `special` flag; it only
appends to them (and tests whether a word is open).  So running it from the empty frame and
checking that the word stays open all the way decides the universally quantified property. -/

def frame (w0 : List Atom) (ws0 : List (List Atom)) (sp0 : Bool) (st : St) : St :=
  { st with cur := st.cur.map (w0 ++ ·), words := ws0 ++ st.words, special := sp0 || st.special }

theorem step_frame (w0 ws0 sp0) (st : St) (b : UInt8)
    (h1 : st.cur.isSome = true) (h2 : st.tilde = false) (h3 : (step st b).cur.isSome = true) :
    step (frame w0 ws0 sp0 st) b = frame w0 ws0 sp0 (step st b) ∧ (step st b).tilde = false := by
  obtain ⟨mode, esc, tilde, cur, words, special⟩ := st
  cases cur with
  | none => simp at h1
  | some w =>
    simp at h2; subst h2
    cases mode <;> cases esc <;>
      simp [step, stepUnq, frame, St.push, St.start, St.endWord, St.flag] at h3 ⊢ <;>
      (repeat' split) <;> simp_all

/-- run the lexer and report whether a word was open after every byte -/
def runOpen (st : St) : Bytes → St × Bool
  | [] => (st, true)
  | b :: t =>
    let st' := step st b
    if st'.cur.isSome then runOpen st' t else (st', false)

theorem runOpen_frame (w0 ws0 sp0) (r : Bytes) : ∀ (st : St),
    st.cur.isSome = true → st.tilde = false → (runOpen st r).2 = true →
    run (frame w0 ws0 sp0 st) r = frame w0 ws0 sp0 (runOpen st r).1 := by
  induction r with
  | nil => intro st _ _ _; simp [run, runOpen]
  | cons b t ih =>
    intro st h1 h2 h3
    by_cases h : (step st b).cur.isSome = true
    · obtain ⟨e1, e2⟩ := step_frame w0 ws0 sp0 st b h1 h2 h
      simp only [runOpen, h, if_true] at h3 ⊢
      have := ih (step st b) h e2 h3
      simp only [run, List.foldl_cons] at this ⊢
      rw [e1]; exact this
    · simp [runOpen, h] at h3

/-- decidable: started inside single quotes with an empty word, `r` leaves the lexer inside
    single quotes with the word `'`, no other effect, the word open all the way -/
def quoteNeutralCheck (r : Bytes) : Bool :=
  let res := runOpen (inSq [] [] false) r
  res.2 && decide (res.1 = inSq [.byte 39] [] false)

theorem quoteNeutral_of_check (r : Bytes) (h : quoteNeutralCheck r = true) : QuoteNeutral r := by
  intro w ws sp
  simp only [quoteNeutralCheck, Bool.and_eq_true, decide_eq_true_eq] at h
  have := runOpen_frame w ws sp r (inSq [] [] false) (by simp [inSq]) (by simp [inSq]) h.1
  rw [h.2] at this
  simpa [frame, inSq] using this

end Glb.Strutil
