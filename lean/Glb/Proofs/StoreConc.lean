/-
  Helper lemmas for C05, concurrent case: the invariant `CInv` of the interleaving semantics
  (`Glb/Model/StoreConc.lean`) — pool invariant, in-flight stores keep their id prefix, OWNERSHIP
  (store identities pairwise distinct over pool ++ in flight), the trie is that of the
  registrations made — is kept by every event; `begin` observes `obsPure`.
-/
import Glb.Model.StoreConc
import Glb.Proofs.Store

namespace Glb.Store
open Glb Glb.Router

/-! ### list facts -/

theorem perm_cons_eraseIdx {α} : ∀ (l : List α) (i : Nat) (x : α), l[i]? = some x → List.Perm l (x :: l.eraseIdx i) := by
  intro l
  induction l with
  | nil => intro i x h; simp at h
  | cons a l ih =>
    intro i x h
    cases i with
    | zero => simp at h; subst h; simp
    | succ i =>
      simp at h
      have := ih i x h
      simp only [List.eraseIdx_cons_succ]
      exact (List.Perm.cons a this).trans (List.Perm.swap x a _)

theorem inj_of_nodup_map {α β} (f : α → β) : ∀ (l : List α), (l.map f).Nodup → ∀ a ∈ l, ∀ b ∈ l, f a = f b → a = b := by
  intro l
  induction l with
  | nil => intro _ a ha; simp at ha
  | cons x l ih =>
    intro hnd a ha b hb hab
    simp only [List.map_cons, List.nodup_cons, List.mem_map, not_exists, not_and] at hnd
    simp only [List.mem_cons] at ha hb
    rcases ha with rfl | ha <;> rcases hb with rfl | hb
    · rfl
    · exact absurd hab.symm (hnd.1 b hb)
    · exact absurd hab (hnd.1 a ha)
    · exact ih hnd.2 a ha b hb hab

/-! ### the invariant -/

/-- a Store in flight still starts with the Mux's prefix and can be resliced to it -/
structure FlightInv (pfx : Bytes) (f : Flight) : Prop where
  idwf : f.st.id.WF
  idlen : 9 ≤ f.st.id.len
  idpfx : f.st.id.elems.take 9 = pfx

/-- the identities of all Stores the Mux knows of: pooled ones, then those in flight -/
def owned (s : CState) : List Nat := s.pool.map (·.1) ++ s.inflight.map (·.sid)

structure CInv (s : CState) : Prop where
  pfx9 : s.pfx.length = 9
  trie : ∃ S P, TInv S P s.root
  pool : ∀ e ∈ s.pool, StoreInv s.pfx e.2
  flights : ∀ f ∈ s.inflight, FlightInv s.pfx f
  keys : (s.inflight.map (·.key)).Nodup
  own : (owned s).Nodup
  sids : ∀ x ∈ owned s, x < s.nextSid
  regsRoot : s.root = (regRun s.pfx s.regs).root ∧ s.nextId = (regRun s.pfx s.regs).nextId

theorem CInv.toMux {s : CState} (h : CInv s) : MuxInv s.toMux := by
  refine ⟨h.pfx9, h.trie, ?_⟩
  intro st hst
  simp only [CState.toMux, List.mem_map] at hst
  obtain ⟨e, he, rfl⟩ := hst
  exact h.pool e he

theorem cfresh_inv (pfx : Bytes) (h : pfx.length = 9) : CInv (cfresh pfx) :=
  ⟨h, ⟨[], [], tinv_empty⟩, by simp [cfresh], by simp [cfresh], by simp [cfresh], by simp [cfresh, owned],
    by simp [cfresh, owned], ⟨rfl, rfl⟩⟩

theorem newStore_toMux_inv {s : CState} (h : CInv s) : StoreInv s.pfx (newStore s.toMux) :=
  newStore_inv s.toMux h.pfx9

/-- what `Get` hands out: a Store at rest, taken out of the pool (its identity moves), or new
    (a fresh identity) -/
theorem cget_spec {s : CState} (h : CInv s) (choice : Option Nat) :
    StoreInv s.pfx (cget s choice).1.2 ∧ (∀ e ∈ (cget s choice).2.1, StoreInv s.pfx e.2) ∧
    ((List.Perm (s.pool.map (·.1)) ((cget s choice).1.1 :: (cget s choice).2.1.map (·.1)) ∧ (cget s choice).2.2 = s.nextSid) ∨
     ((cget s choice).2.1 = s.pool ∧ (cget s choice).1.1 = s.nextSid ∧ (cget s choice).2.2 = s.nextSid + 1)) := by
  unfold cget
  cases choice with
  | none => exact ⟨newStore_toMux_inv h, h.pool, Or.inr ⟨rfl, rfl, rfl⟩⟩
  | some i =>
    simp only
    split
    · rename_i e hi
      refine ⟨h.pool e (List.mem_of_getElem? hi), fun e' he' => h.pool e' (List.mem_of_mem_eraseIdx he'), Or.inl ⟨?_, rfl⟩⟩
      have := (perm_cons_eraseIdx s.pool i e hi).map (·.1)
      simpa using this
    · exact ⟨newStore_toMux_inv h, h.pool, Or.inr ⟨rfl, rfl, rfl⟩⟩

/-- `begin`: the observation is `obsPure` of the trie, the request and `prefix ++ counter`, whatever
    Store the pool hands out and whatever else is in flight; the invariant is kept when the key is
    not in flight yet -/
theorem begin_spec (grow : Nat → Nat) (render : Nat → Bytes) {s : CState} (h : CInv s) (k : Nat)
    (req : Req) (names : List Bytes) (choice : Option Nat) :
    ∃ o, obsPure s.root req names (s.pfx ++ render (s.counter + 1)) = .ok o ∧
      (beginReq grow render s k req names choice).2 = .ok [o, o] ∧
      (s.inFlight k = false → CInv (beginReq grow render s k req names choice).1) ∧
      (beginReq grow render s k req names choice).1.counter = s.counter + 1 ∧
      (beginReq grow render s k req names choice).1.root = s.root ∧
      (beginReq grow render s k req names choice).1.pfx = s.pfx ∧
      (beginReq grow render s k req names choice).1.regs = s.regs := by
  obtain ⟨S, P, hT⟩ := h.trie
  obtain ⟨hst, hpool, hown⟩ := cget_spec h choice
  obtain ⟨o, ho, _, _⟩ := obsPure_ok hT req names (s.pfx ++ render (s.counter + 1))
  refine ⟨o, ho, ?_⟩
  unfold beginReq
  cases hgs : cget s choice with
  | mk e rest =>
    obtain ⟨sid, st0⟩ := e
    obtain ⟨pool', nextSid'⟩ := rest
    rw [hgs] at hst hpool hown
    simp only at hst hpool hown ⊢
    obtain ⟨hid1, hid2, hid3, hid4⟩ := GoSlice.pushAll_spec grow (0 : UInt8) (render (s.counter + 1)) st0.id hst.hidwf
    rw [hst.hidpfx] at hid1
    have hV0 : st0.V.elems = [] := by simp [GoSlice.elems, hst.hVlen]
    have hVwf : st0.V.WF := by simp [GoSlice.WF, hst.hVlen]
    rw [hst.hK, hV0, ← params_default]
    unfold obsPure at ho
    obtain ⟨⟨info, ps⟩, hf⟩ := findRoute_ok s.root req.path req.method {}
    rw [hf] at ho ⊢
    simp only at ho ⊢
    have hv1 : (GoSlice.pushAll grow ([] : Bytes) st0.V (ps.V.drop st0.V.len)).elems = ps.V := by
      rw [(GoSlice.pushAll_spec grow ([] : Bytes) (ps.V.drop st0.V.len) st0.V hVwf).1, hV0, hst.hVlen]
      simp
    simp only [observe_eq, hv1, hid1, hst.hstatus, ho]
    refine ⟨trivial, ?_, trivial, trivial, trivial, trivial⟩
    intro hk
    have hkeys : k ∉ s.inflight.map (·.key) := by
      intro hm
      obtain ⟨f, hf', hfk⟩ := List.mem_map.mp hm
      have : s.inFlight k = true := by
        simp only [CState.inFlight, List.any_eq_true]
        exact ⟨f, hf', by simp [hfk]⟩
      rw [hk] at this; cases this
    refine ⟨h.pfx9, ⟨S, P, hT⟩, hpool, ?_, ?_, ?_, ?_, h.regsRoot⟩
    · intro f hf'
      simp only [List.mem_cons] at hf'
      rcases hf' with rfl | hf'
      · refine ⟨hid3, by rw [hid2, hst.hidlen]; omega, ?_⟩
        show List.take 9 (GoSlice.pushAll grow 0 st0.id (render (s.counter + 1))).elems = s.pfx
        rw [hid1, ← h.pfx9, List.take_left']; rfl
      · exact h.flights f hf'
    · simp only [List.map_cons, List.nodup_cons]
      exact ⟨hkeys, h.keys⟩
    · -- ownership
      show (pool'.map (·.1) ++ (sid :: s.inflight.map (·.sid))).Nodup
      have hperm0 : List.Perm (pool'.map (·.1) ++ (sid :: s.inflight.map (·.sid)))
          ((sid :: pool'.map (·.1)) ++ s.inflight.map (·.sid)) := by
        exact List.perm_middle
      rw [hperm0.nodup_iff]
      rcases hown with ⟨hp, _⟩ | ⟨hp, hsid, _⟩
      · have : List.Perm ((sid :: pool'.map (·.1)) ++ s.inflight.map (·.sid)) (owned s) :=
          (hp.symm.append_right _)
        rw [this.nodup_iff]; exact h.own
      · subst hp; subst hsid
        show (s.nextSid :: (owned s)).Nodup
        refine List.nodup_cons.mpr ⟨fun hm => ?_, h.own⟩
        have := h.sids _ hm; omega
    · intro x hx
      have hx' : x ∈ (sid :: pool'.map (·.1)) ++ s.inflight.map (·.sid) := by
        have hx0 : x ∈ pool'.map (·.1) ++ (sid :: s.inflight.map (·.sid)) := hx
        simp only [List.mem_append, List.mem_cons] at hx0 ⊢
        rcases hx0 with hx0 | hx0 | hx0
        · exact Or.inl (Or.inr hx0)
        · exact Or.inl (Or.inl hx0)
        · exact Or.inr hx0
      rcases hown with ⟨hp, hn⟩ | ⟨hp, hsid, hn⟩
      · have : x ∈ owned s := by
          have := (hp.symm.append_right (s.inflight.map (·.sid))).mem_iff.mp hx'
          exact this
        show x < nextSid'
        rw [hn]; exact h.sids x this
      · subst hp; subst hsid
        show x < nextSid'
        rw [hn]
        simp only [List.cons_append, List.mem_cons] at hx'
        rcases hx' with rfl | hx'
        · omega
        · have := h.sids x hx'; omega

theorem finish_inv {s : CState} (h : CInv s) (k : Nat) (beh : Behaviour) :
    CInv (finishReq s k beh) ∧ (finishReq s k beh).counter = s.counter ∧ (finishReq s k beh).pfx = s.pfx ∧
    (finishReq s k beh).root = s.root ∧ (finishReq s k beh).regs = s.regs := by
  unfold finishReq
  cases hfind : s.inflight.find? (fun f => f.key == k) with
  | none => exact ⟨h, rfl, rfl, rfl, rfl⟩
  | some f =>
    have hfm : f ∈ s.inflight := List.mem_of_find?_eq_some hfind
    have hfk : f.key = k := by have := List.find?_some hfind; simpa using this
    have hsub : (s.inflight.filter (fun g => g.key != k)).Sublist s.inflight := List.filter_sublist
    have hrestmem : ∀ g ∈ s.inflight.filter (fun g => g.key != k), g ∈ s.inflight ∧ g.key ≠ k := by
      intro g hg; simpa using List.mem_filter.mp hg
    -- the Store is dropped
    have hdrop : CInv { s with inflight := s.inflight.filter (fun g => g.key != k) } := by
      refine ⟨h.pfx9, h.trie, h.pool, fun g hg => h.flights g (hrestmem g hg).1, ?_, ?_, ?_, h.regsRoot⟩
      · exact h.keys.sublist (hsub.map _)
      · exact h.own.sublist ((List.Sublist.refl _).append (hsub.map _))
      · intro x hx
        refine h.sids x ?_
        simp only [owned, List.mem_append] at hx ⊢
        exact hx.imp id (fun hm => (hsub.map _).subset hm)
    simp only
    cases hp : beh.panics with
    | true => refine ⟨hdrop, ?_, ?_, ?_, ?_⟩ <;> trivial
    | false =>
      simp only [Bool.false_eq_true, if_false]
      have hfi := h.flights f hfm
      have h9 : 9 ≤ f.st.id.cap := Nat.le_trans hfi.idlen hfi.idwf
      simp only [GoSlice.reslice?, h9, if_true]
      refine ⟨⟨h.pfx9, h.trie, ?_, fun g hg => h.flights g (hrestmem g hg).1, h.keys.sublist (hsub.map _), ?_, ?_, h.regsRoot⟩,
        trivial, trivial, trivial, trivial⟩
      · intro e he
        simp only [List.mem_cons] at he
        rcases he with rfl | he
        · refine ⟨rfl, rfl, rfl, rfl, rfl, h9, ?_⟩
          show List.take 9 f.st.id.arr = s.pfx
          have : List.take 9 f.st.id.arr = List.take 9 f.st.id.elems := by
            simp only [GoSlice.elems, List.take_take]
            rw [Nat.min_eq_left hfi.idlen]
          rw [this]; exact hfi.idpfx
        · exact h.pool e he
      · -- ownership: the identity moves from "in flight" back to "pooled"
        show ((f.sid :: s.pool.map (·.1)) ++ (s.inflight.filter (fun g => g.key != k)).map (·.sid)).Nodup
        have hown := h.own
        unfold owned at hown
        rw [List.nodup_append] at hown
        obtain ⟨hpn, hin, hdisj⟩ := hown
        have hfsid : f.sid ∈ s.inflight.map (·.sid) := List.mem_map.mpr ⟨f, hfm, rfl⟩
        simp only [List.cons_append, List.nodup_cons, List.mem_append, not_or]
        refine ⟨⟨fun hm => hdisj _ hm _ hfsid rfl, ?_⟩, ?_⟩
        · intro hm
          obtain ⟨g, hg, hgs⟩ := List.mem_map.mp hm
          obtain ⟨hgm, hgk⟩ := hrestmem g hg
          have := inj_of_nodup_map (·.sid) s.inflight hin g hgm f hfm hgs
          exact hgk (this ▸ hfk)
        · rw [List.nodup_append]
          refine ⟨hpn, hin.sublist (hsub.map _), ?_⟩
          intro a ha b hb
          exact hdisj a ha b ((hsub.map _).subset hb)
      · intro x hx
        have hx0 : x ∈ (f.sid :: s.pool.map (·.1)) ++ (s.inflight.filter (fun g => g.key != k)).map (·.sid) := hx
        refine h.sids x ?_
        simp only [owned, List.cons_append, List.mem_cons, List.mem_append] at hx0 ⊢
        rcases hx0 with rfl | hx0 | hx0
        · exact Or.inr (List.mem_map.mpr ⟨f, hfm, rfl⟩)
        · exact Or.inl hx0
        · exact Or.inr ((hsub.map _).subset hx0)

/-- `handle` looks at the trie and the next route id only -/
theorem handle_root_congr (m1 m2 : MuxSt) (p m : Bytes) (hr : m1.root = m2.root) (hn : m1.nextId = m2.nextId) :
    (match handle m1 p m with | .ok (m', _) => m' | .error _ => m1).root =
      (match handle m2 p m with | .ok (m', _) => m' | .error _ => m2).root ∧
    (match handle m1 p m with | .ok (m', _) => m' | .error _ => m1).nextId =
      (match handle m2 p m with | .ok (m', _) => m' | .error _ => m2).nextId := by
  simp only [handle, hr, hn]
  cases parseRoute m2.root p m m2.nextId with
  | error e => simp [hr, hn]
  | ok r =>
    obtain ⟨root', res⟩ := r
    cases res <;> simp

theorem regRun_snoc (pfx : Bytes) (regs : List (Bytes × Bytes)) (r : Bytes × Bytes) :
    regRun pfx (regs ++ [r]) = (match handle (regRun pfx regs) r.1 r.2 with
      | .ok (m', _) => m'
      | .error _ => regRun pfx regs) := by
  simp only [regRun, List.foldl_append, List.foldl_cons, List.foldl_nil]
  rfl

theorem register_inv {s : CState} (h : CInv s) (p m : Bytes) :
    CInv (registerReq s p m) ∧ (registerReq s p m).counter = s.counter ∧ (registerReq s p m).pfx = s.pfx := by
  obtain ⟨mux', res, hh, hinv, _, hpfx, _⟩ := handle_inv h.toMux p m
  have hcong := handle_root_congr s.toMux (regRun s.pfx s.regs) p m h.regsRoot.1 h.regsRoot.2
  unfold registerReq
  rw [hh] at hcong ⊢
  simp only at hcong ⊢
  refine ⟨⟨h.pfx9, hinv.trie, h.pool, h.flights, h.keys, h.own, h.sids, ?_⟩, trivial, trivial⟩
  show mux'.root = (regRun s.pfx (s.regs ++ [(p, m)])).root ∧ mux'.nextId = (regRun s.pfx (s.regs ++ [(p, m)])).nextId
  rw [regRun_snoc]
  exact hcong

theorem cstep_inv (grow : Nat → Nat) (render : Nat → Bytes) {s : CState} (h : CInv s) (e : CEvent) :
    CInv (cstep grow render s e) ∧ (cstep grow render s e).pfx = s.pfx := by
  unfold cstep
  cases hen : cenabled s e with
  | false => exact ⟨h, rfl⟩
  | true =>
    simp only [if_true]
    cases e with
    | «begin» k req names choice =>
      obtain ⟨o, _, _, hinv, _, _, hpfx, _⟩ := begin_spec grow render h k req names choice
      simp only [cenabled, Bool.not_eq_true'] at hen
      exact ⟨hinv hen, hpfx⟩
    | finish k beh =>
      obtain ⟨hinv, _, hpfx, _⟩ := finish_inv h k beh
      exact ⟨hinv, hpfx⟩
    | register p m =>
      obtain ⟨hinv, _, hpfx⟩ := register_inv h p m
      exact ⟨hinv, hpfx⟩
    | drop i =>
      have hsub : (s.pool.eraseIdx i).Sublist s.pool := List.eraseIdx_sublist _ _
      refine ⟨⟨h.pfx9, h.trie, fun e he => h.pool e (hsub.subset he), h.flights, h.keys, ?_, ?_, h.regsRoot⟩, rfl⟩
      · exact h.own.sublist ((hsub.map _).append (List.Sublist.refl _))
      · intro x hx
        refine h.sids x ?_
        simp only [owned, List.mem_append] at hx ⊢
        exact hx.imp (fun hm => (hsub.map _).subset hm) id

theorem crun_inv (grow : Nat → Nat) (render : Nat → Bytes) (evs : List CEvent) : ∀ {s : CState}, CInv s →
    CInv (crun grow render s evs) ∧ (crun grow render s evs).pfx = s.pfx := by
  induction evs with
  | nil => intro s h; exact ⟨h, rfl⟩
  | cons e evs ih =>
    intro s h
    obtain ⟨h1, h2⟩ := cstep_inv grow render h e
    obtain ⟨h3, h4⟩ := ih h1
    simp only [crun, List.foldl_cons] at h3 h4 ⊢
    exact ⟨h3, h4.trans h2⟩

/-- the counter moves by one with every `begin` that happens, and with nothing else -/
theorem cstep_counter (grow : Nat → Nat) (render : Nat → Bytes) {s : CState} (h : CInv s) (e : CEvent) :
    (cstep grow render s e).counter = s.counter + (match e with
      | .begin .. => if cenabled s e then 1 else 0
      | _ => 0) := by
  unfold cstep
  cases hen : cenabled s e with
  | false => cases e <;> simp
  | true =>
    simp only [if_true]
    cases e with
    | «begin» k req names choice =>
      obtain ⟨o, _, _, _, hc, _⟩ := begin_spec grow render h k req names choice
      simpa using hc
    | finish k beh => simpa using (finish_inv h k beh).2.1
    | register p m => simpa using (register_inv h p m).2.1
    | drop i => simp

/-! ### the fresh Mux holding the registrations made so far -/

theorem regRun_inv (pfx : Bytes) (hp : pfx.length = 9) (regs : List (Bytes × Bytes)) :
    MuxInv (regRun pfx regs) ∧ (regRun pfx regs).counter = 0 ∧ (regRun pfx regs).pfx = pfx := by
  have gen : ∀ (regs : List (Bytes × Bytes)) (m0 : MuxSt), MuxInv m0 →
      MuxInv (regs.foldl (fun m r => match handle m r.1 r.2 with
        | .ok (m', _) => m'
        | .error _ => m) m0) ∧
      (regs.foldl (fun m r => match handle m r.1 r.2 with
        | .ok (m', _) => m'
        | .error _ => m) m0).counter = m0.counter ∧
      (regs.foldl (fun m r => match handle m r.1 r.2 with
        | .ok (m', _) => m'
        | .error _ => m) m0).pfx = m0.pfx := by
    intro regs
    induction regs with
    | nil => intro m0 h; exact ⟨h, rfl, rfl⟩
    | cons r regs ih =>
      intro m0 h
      obtain ⟨mux', res, hh, hinv, hc', hpf', _⟩ := handle_inv h r.1 r.2
      simp only [List.foldl_cons, hh]
      obtain ⟨h1, h2, h3⟩ := ih mux' hinv
      exact ⟨h1, h2.trans hc', h3.trans hpf'⟩
  exact gen regs (fresh pfx) (fresh_inv pfx hp)

/-- it is the sequential model's Mux after exactly these `Handle` calls -/
theorem run_handles_eq_regRun (grow : Nat → Nat) (render : Nat → Bytes) (pfx : Bytes) (regs : List (Bytes × Bytes)) :
    run grow render (fresh pfx) (regs.map fun r => Op.handle r.1 r.2) = regRun pfx regs := by
  simp only [run, regRun, List.foldl_map]
  rfl

end Glb.Store
