/- Lemmas about FirstIP / LastIP / SplitHostPort models. -/
import Glb.Model.AuxNetutil

namespace Glb.Aux.Net
open Glb

instance containsDec (ip mask x : Bytes) : Decidable (contains ip mask x) :=
  inferInstanceAs (Decidable (_ ∧ _))

instance lastDecEq : DecidableEq (Except GoPanic (Option Bytes)) := fun a b =>
  match a, b with
  | .ok x, .ok y => if h : x = y then isTrue (by rw [h]) else isFalse (by intro e; cases e; exact h rfl)
  | .error x, .error y => if h : x = y then isTrue (by rw [h]) else isFalse (by intro e; cases e; exact h rfl)
  | .ok _, .error _ => isFalse (by intro e; cases e)
  | .error _, .ok _ => isFalse (by intro e; cases e)

instance splitDecEq : DecidableEq (Except GoPanic (Bytes × Bytes)) := fun a b =>
  match a, b with
  | .ok x, .ok y => if h : x = y then isTrue (by rw [h]) else isFalse (by intro e; cases e; exact h rfl)
  | .error x, .error y => if h : x = y then isTrue (by rw [h]) else isFalse (by intro e; cases e; exact h rfl)
  | .ok _, .error _ => isFalse (by intro e; cases e)
  | .error _, .ok _ => isFalse (by intro e; cases e)

/-! ### bytes -/

theorem and_le (x m : UInt8) : x &&& m ≤ x := by
  rw [UInt8.le_iff_toNat_le, UInt8.toNat_and]
  exact Nat.and_le_left

theorem sub_or (x m : UInt8) : x ||| ((x &&& m) ||| ~~~m) = (x &&& m) ||| ~~~m := by
  apply UInt8.eq_of_toBitVec_eq
  apply BitVec.eq_of_getLsbD_eq
  intro i hi
  simp
  cases x.toBitVec.getLsbD i <;> cases m.toBitVec.getLsbD i <;> simp [hi]

theorem le_or_not (x m : UInt8) : x ≤ (x &&& m) ||| ~~~m := by
  rw [← sub_or, UInt8.le_iff_toNat_le, UInt8.toNat_or]
  exact Nat.left_le_or

theorem and_or_not_and (a m : UInt8) : ((a &&& m) ||| ~~~m) &&& m = a &&& m := by
  apply UInt8.eq_of_toBitVec_eq
  apply BitVec.eq_of_getLsbD_eq
  intro i hi
  simp
  cases a.toBitVec.getLsbD i <;> cases m.toBitVec.getLsbD i <;> simp [hi]

theorem and_and (a m : UInt8) : (a &&& m) &&& m = a &&& m := by
  apply UInt8.eq_of_toBitVec_eq
  apply BitVec.eq_of_getLsbD_eq
  intro i hi
  simp

/-! ### the LastIP loop -/

theorem lastIPLoop_eq (mask : Bytes) : ∀ (i : Nat) (ip : Bytes), i ≤ ip.length → i ≤ mask.length →
    lastIPLoop mask i ip = .ok (orNotBytes (ip.take i) (mask.take i) ++ ip.drop i) := by
  intro i
  induction i with
  | zero => intro ip _ _; simp [lastIPLoop, orNotBytes]
  | succ i ih =>
    intro ip h1 h2
    have e1 : idx? ip i = .ok ip[i] := by simp [idx?, List.getElem?_eq_getElem (show i < ip.length by omega)]
    have e2 : idx? mask i = .ok mask[i] := by simp [idx?, List.getElem?_eq_getElem (show i < mask.length by omega)]
    simp only [lastIPLoop, e1, e2]
    show lastIPLoop mask i (ip.set i (ip[i] ||| ~~~mask[i])) = _
    rw [ih _ (by simp; omega) (by omega)]
    congr 1
    have hi : i < ip.length := by omega
    have hm : i < mask.length := by omega
    have hs : i < (ip.set i (ip[i] ||| ~~~mask[i])).length := by simp; omega
    rw [List.take_set_of_le (Nat.le_refl _), List.drop_eq_getElem_cons hs, List.getElem_set_self,
      List.drop_set_of_lt (Nat.lt_succ_self _), List.take_succ_eq_append_getElem hi,
      List.take_succ_eq_append_getElem hm]
    unfold orNotBytes
    rw [List.zipWith_append (by simp; omega)]
    simp


/-! ### FirstIP / LastIP for an IP and a mask of the same length -/

theorem andBytes_length (a b : Bytes) (h : a.length = b.length) : (andBytes a b).length = a.length := by
  simp [andBytes, h]

theorem ipMask_same (ip mask : Bytes) (h : ip.length = mask.length) :
    ipMask ip mask = some (andBytes ip mask) := by
  unfold ipMask
  have h1 : ¬ (mask.length = 16 ∧ ip.length = 4 ∧ allFF (mask.take 12) = true) := by omega
  simp only [h1, if_false]
  have h2 : ¬ (mask.length = 4 ∧ ip.length = 16 ∧ ip.take 12 = v4InV6Prefix) := by omega
  rw [if_neg h2]
  simp [h]

theorem lastIP_same (ip mask : Bytes) (h : ip.length = mask.length) :
    lastIP ip mask = .ok (some (orNotBytes (andBytes ip mask) mask)) := by
  unfold lastIP
  rw [ipMask_same ip mask h]
  simp only
  have hl := andBytes_length ip mask h
  rw [lastIPLoop_eq mask mask.length _ (by omega) (Nat.le_refl _)]
  rw [List.take_of_length_le (by omega), List.take_of_length_le (Nat.le_refl _),
    List.drop_of_length_le (by omega)]
  simp

/-- the v4-in-v6 form of the IP with a 4-byte mask: both functions answer in the 4-byte form -/
theorem ipMask_mapped (a mask : Bytes) (ha : a.length = 4) (hm : mask.length = 4) :
    ipMask (v4InV6Prefix ++ a) mask = some (andBytes a mask) := by
  unfold ipMask
  have h1 : ¬ (mask.length = 16 ∧ (v4InV6Prefix ++ a).length = 4 ∧ allFF (mask.take 12) = true) := by omega
  simp only [h1, if_false]
  have h2 : mask.length = 4 ∧ (v4InV6Prefix ++ a).length = 16 ∧ (v4InV6Prefix ++ a).take 12 = v4InV6Prefix := by
    refine ⟨hm, by simp [v4InV6Prefix, ha], ?_⟩
    rw [List.take_left' (by simp [v4InV6Prefix])]
  simp only [h2, and_self, if_true]
  rw [List.drop_left' (by simp [v4InV6Prefix])]
  simp [ha]

theorem lastIP_mapped (a mask : Bytes) (ha : a.length = 4) (hm : mask.length = 4) :
    lastIP (v4InV6Prefix ++ a) mask = .ok (some (orNotBytes (andBytes a mask) mask)) := by
  unfold lastIP
  rw [ipMask_mapped a mask ha hm]
  simp only
  have hl := andBytes_length a mask (by omega)
  rw [lastIPLoop_eq mask mask.length _ (by omega) (Nat.le_refl _)]
  rw [List.take_of_length_le (by omega), List.take_of_length_le (Nat.le_refl _),
    List.drop_of_length_le (by omega)]
  simp

theorem and_and_bytes : ∀ (a m : Bytes), andBytes (andBytes a m) m = andBytes a m := by
  intro a
  induction a with
  | nil => intro m; simp [andBytes]
  | cons x a ih =>
    intro m
    cases m with
    | nil => simp [andBytes]
    | cons y m =>
      have := ih m
      simp only [andBytes, List.zipWith_cons_cons] at this ⊢
      rw [this, and_and]

theorem orNot_and_bytes : ∀ (a m : Bytes), andBytes (orNotBytes (andBytes a m) m) m = andBytes a m := by
  intro a
  induction a with
  | nil => intro m; simp [andBytes, orNotBytes]
  | cons x a ih =>
    intro m
    cases m with
    | nil => simp [andBytes, orNotBytes]
    | cons y m =>
      have := ih m
      simp only [andBytes, orNotBytes, List.zipWith_cons_cons] at this ⊢
      rw [this, and_or_not_and]

theorem first_contained (ip mask : Bytes) (h : ip.length = mask.length) :
    contains ip mask (andBytes ip mask) :=
  ⟨andBytes_length ip mask h, and_and_bytes ip mask⟩

theorem last_contained (ip mask : Bytes) (h : ip.length = mask.length) :
    contains ip mask (orNotBytes (andBytes ip mask) mask) :=
  ⟨by simp [orNotBytes, andBytes, h], orNot_and_bytes ip mask⟩

/-- every address of the network lies bytewise between the first and the last one -/
theorem bounds_aux : ∀ (x m : Bytes), x.length = m.length →
    leAll (andBytes x m) x ∧ leAll x (orNotBytes (andBytes x m) m) := by
  intro x
  induction x with
  | nil => intro m h; cases m <;> simp_all [andBytes, orNotBytes, leAll]
  | cons a x ih =>
    intro m h
    cases m with
    | nil => simp at h
    | cons b m =>
      have := ih m (by simpa using h)
      simp only [andBytes, orNotBytes, List.zipWith_cons_cons, leAll] at this ⊢
      exact ⟨⟨and_le a b, this.1⟩, ⟨le_or_not a b, this.2⟩⟩

theorem bounds (ip mask x : Bytes) (h : ip.length = mask.length) (hx : contains ip mask x) :
    leAll (andBytes ip mask) x ∧ leAll x (orNotBytes (andBytes ip mask) mask) := by
  obtain ⟨hl, he⟩ := hx
  rw [← he]
  exact bounds_aux x mask (by omega)

theorem leAll_length : ∀ (a b : Bytes), leAll a b → a.length = b.length := by
  intro a
  induction a with
  | nil => intro b h; cases b <;> simp_all [leAll]
  | cons x a ih =>
    intro b h
    cases b with
    | nil => simp [leAll] at h
    | cons y b => simp only [leAll] at h; simp [ih b h.2]

theorem foldl_mono : ∀ (a b : Bytes), leAll a b → ∀ (p q : Nat), p ≤ q →
    a.foldl (fun acc x => acc * 256 + x.toNat) p ≤ b.foldl (fun acc x => acc * 256 + x.toNat) q := by
  intro a
  induction a with
  | nil => intro b h p q hpq; cases b <;> simp_all [leAll]
  | cons x a ih =>
    intro b h p q hpq
    cases b with
    | nil => simp [leAll] at h
    | cons y b =>
      simp only [leAll] at h
      simp only [List.foldl_cons]
      apply ih b h.2
      have := UInt8.le_iff_toNat_le.mp h.1
      omega

theorem leAll_beNat (a b : Bytes) (h : leAll a b) : beNat a ≤ beNat b :=
  foldl_mono a b h 0 0 (Nat.le_refl _)


/-! ### SplitHostPort -/

theorem lastColon_none (s : Bytes) : lastColon s = none ↔ colon ∉ s := by
  induction s with
  | nil => simp [lastColon]
  | cons c s ih =>
    simp only [lastColon, List.mem_cons, not_or]
    cases h : lastColon s with
    | some j =>
      have : ¬ (colon ∉ s) := fun hn => by rw [ih.mpr hn] at h; cases h
      simp [this]
    | none =>
      have := ih.mp h
      by_cases hc : c = colon <;> simp [hc, this, Ne.symm]

theorem lastColon_append (h p : Bytes) (hp : colon ∉ p) : lastColon (h ++ colon :: p) = some h.length := by
  induction h with
  | nil => simp [lastColon, (lastColon_none p).mpr hp]
  | cons c h ih => simp [lastColon, ih]

theorem lastColon_some (s : Bytes) (i : Nat) (h : lastColon s = some i) :
    ∃ a p, s = a ++ colon :: p ∧ a.length = i ∧ colon ∉ p := by
  induction s generalizing i with
  | nil => simp [lastColon] at h
  | cons c s ih =>
    simp only [lastColon] at h
    cases hs : lastColon s with
    | some j =>
      rw [hs] at h
      simp at h
      obtain ⟨a, p, rfl, ha, hp⟩ := ih j hs
      exact ⟨c :: a, p, by simp, by simp [ha, h], hp⟩
    | none =>
      rw [hs] at h
      by_cases hc : c = colon
      · simp [hc] at h
        exact ⟨[], s, by simp [hc], by simp [h], (lastColon_none s).mp hs⟩
      · simp [hc] at h

theorem slice_left (h r : Bytes) : slice? (h ++ r) 0 h.length = .ok h := by
  simp [slice?]

theorem slice_right (h : Bytes) (c : UInt8) (p : Bytes) :
    slice? (h ++ c :: p) (h.length + 1) (h ++ c :: p).length = .ok p := by
  unfold slice?
  rw [if_pos (by simp)]
  have : List.drop (h.length + 1) (h ++ c :: p) = p := by
    rw [← List.drop_drop, List.drop_left']
    · simp
    · rfl
  rw [this]
  simp only [List.length_append, List.length_cons]
  rw [List.take_of_length_le (by omega)]

theorem slice_mid (a : UInt8) (g r : Bytes) : slice? (a :: g ++ r) 1 (g.length + 1) = .ok g := by
  unfold slice?
  rw [if_pos (by simp)]
  simp

theorem idx_at (h : Bytes) (c : UInt8) (p : Bytes) : idx? (h ++ c :: p) h.length = .ok c := by
  simp [idx?]

theorem lbr_ne_rbr : lbr ≠ rbr := by decide
theorem colon_ne_lbr : colon ≠ lbr := by decide

theorem split_nocolon (addr : Bytes) (h : colon ∉ addr) : splitHostPort addr = .ok (addr, []) := by
  simp [splitHostPort, (lastColon_none addr).mpr h]

/-- an unbracketed decomposition at the last colon -/
theorem split_plain (h p : Bytes) (hp : colon ∉ p) (hb : ¬ Bracketed h) :
    splitHostPort (h ++ colon :: p) = .ok (h, p) := by
  have tail : (do
      let a ← slice? (h ++ colon :: p) 0 h.length
      let b ← slice? (h ++ colon :: p) (h.length + 1) (h ++ colon :: p).length
      pure (a, b) : Except GoPanic (Bytes × Bytes)) = .ok (h, p) := by
    rw [slice_left, slice_right]; rfl
  unfold splitHostPort
  rw [lastColon_append h p hp]
  simp only
  cases h with
  | nil =>
    have : idx? ([] ++ colon :: p) 0 = .ok colon := by simp [idx?]
    rw [this]
    simp only [bind, Except.bind, colon_ne_lbr, if_false, pure, Except.pure]
    exact tail
  | cons c h' =>
    have : idx? (c :: h' ++ colon :: p) 0 = .ok c := by simp [idx?]
    rw [this]
    by_cases hc : c = lbr
    · subst hc
      -- the byte before the colon is the last byte of the host
      have hne : (lbr :: h') ≠ [] := by simp
      have hlast : idxPred? (lbr :: h' ++ colon :: p) (lbr :: h').length = .ok ((lbr :: h').getLast hne) := by
        have hd : lbr :: h' = (lbr :: h').dropLast ++ [(lbr :: h').getLast hne] :=
          (List.dropLast_concat_getLast hne).symm
        have hlen : (lbr :: h').length = (lbr :: h').dropLast.length + 1 := by simp
        unfold idxPred?
        rw [if_neg (by simp)]
        generalize (lbr :: h').getLast hne = z at hd
        generalize hdl : (lbr :: h').dropLast = dl at hd hlen
        rw [hlen, hd]
        simp only [Nat.add_sub_cancel, List.append_assoc, List.singleton_append]
        exact idx_at dl z _
      have hz : (lbr :: h').getLast hne ≠ rbr := by
        intro e
        apply hb
        cases h' with
        | nil => simp at e; exact absurd e lbr_ne_rbr
        | cons y ys =>
          refine ⟨(y :: ys).dropLast, ?_⟩
          have hne2 : (y :: ys) ≠ [] := by simp
          have e2 : (y :: ys).getLast hne2 = rbr := by simpa using e
          rw [← e2]
          simp [List.dropLast_concat_getLast hne2]
      rw [hlast]
      simp only [bind, Except.bind, if_true, pure, Except.pure, hz, decide_false]
      exact tail
    · simp only [bind, Except.bind, hc, if_false, pure, Except.pure]
      exact tail

/-- a bracketed host in front of the last colon loses its brackets -/
theorem split_bracket (g p : Bytes) (hp : colon ∉ p) :
    splitHostPort (lbr :: g ++ rbr :: colon :: p) = .ok (g, p) := by
  have e : lbr :: g ++ rbr :: colon :: p = (lbr :: g ++ [rbr]) ++ colon :: p := by simp
  have hlen : (lbr :: g ++ [rbr]).length = g.length + 2 := by simp
  unfold splitHostPort
  rw [e, lastColon_append _ p hp]
  simp only
  have h0 : idx? ((lbr :: g ++ [rbr]) ++ colon :: p) 0 = .ok lbr := by simp [idx?]
  have h1 : idxPred? ((lbr :: g ++ [rbr]) ++ colon :: p) (lbr :: g ++ [rbr]).length = .ok rbr := by
    unfold idxPred?
    rw [if_neg (by simp)]
    have : (lbr :: g ++ [rbr]) ++ colon :: p = (lbr :: g) ++ rbr :: (colon :: p) := by simp
    rw [this, hlen]
    exact idx_at (lbr :: g) rbr _
  have h2 : slicePred? ((lbr :: g ++ [rbr]) ++ colon :: p) 1 (lbr :: g ++ [rbr]).length = .ok g := by
    unfold slicePred?
    rw [if_neg (by simp), hlen]
    have : (lbr :: g ++ [rbr]) ++ colon :: p = lbr :: g ++ (rbr :: colon :: p) := by simp
    rw [this]
    exact slice_mid lbr g _
  rw [h0, h1, h2, slice_right]
  rfl

theorem split_total (addr : Bytes) : ∃ h p, splitHostPort addr = .ok (h, p) := by
  cases hc : lastColon addr with
  | none => exact ⟨addr, [], split_nocolon addr ((lastColon_none addr).mp hc)⟩
  | some i =>
    obtain ⟨a, p, rfl, _, hp⟩ := lastColon_some addr i hc
    by_cases hb : Bracketed a
    · obtain ⟨g, rfl⟩ := hb
      refine ⟨g, p, ?_⟩
      have := split_bracket g p hp
      simpa using this
    · exact ⟨a, p, split_plain a p hp hb⟩

/-- full characterisation -/
theorem split_spec (addr h p : Bytes) (hs : splitHostPort addr = .ok (h, p)) :
    (colon ∉ addr ∧ h = addr ∧ p = []) ∨
    (colon ∉ p ∧ ((addr = h ++ colon :: p ∧ ¬ Bracketed h) ∨ addr = lbr :: h ++ rbr :: colon :: p)) := by
  cases hc : lastColon addr with
  | none =>
    have hn := (lastColon_none addr).mp hc
    rw [split_nocolon addr hn] at hs
    cases hs
    exact .inl ⟨hn, rfl, rfl⟩
  | some i =>
    obtain ⟨a, q, rfl, _, hq⟩ := lastColon_some addr i hc
    right
    by_cases hb : Bracketed a
    · obtain ⟨g, rfl⟩ := hb
      have := split_bracket g q hq
      have e : lbr :: g ++ rbr :: colon :: q = (lbr :: g ++ [rbr]) ++ colon :: q := by simp
      rw [e, hs] at this
      cases this
      exact ⟨hq, .inr (by simp)⟩
    · rw [split_plain a q hq hb] at hs
      cases hs
      exact ⟨hq, .inl ⟨rfl, hb⟩⟩

theorem split_join (host port : Bytes) (hp : colon ∉ port) (hh : colon ∈ host ∨ ¬ Bracketed host) :
    splitHostPort (joinHostPort host port) = .ok (host, port) := by
  unfold joinHostPort
  by_cases hc : colon ∈ host
  · rw [if_pos hc]; exact split_bracket host port hp
  · rw [if_neg hc]
    rcases hh with hh | hh
    · exact absurd hh hc
    · exact split_plain host port hp hh

end Glb.Aux.Net
