/-
  Helper lemmas for C18: how path resolution reacts to the three ways CopyFile/MoveFile change
  the name space (create an entry at a missing name, move an entry, remove an entry), and a
  closed form of `copyFile`.
-/
import Glb.Model.Files

namespace Glb.Files
open Glb.Generated

/-! ## resolution -/

theorem resolveN_file_entry (e : Name → Entry) (fuel : Nat) (n x : Name) (i : Ino)
    (h : resolveN e fuel n = .file x i) : e x = .file i := by
  induction fuel generalizing n with
  | zero => simp [resolveN] at h
  | succ f ih =>
    simp only [resolveN] at h
    split at h
    · simp at h; obtain ⟨rfl, rfl⟩ := h; assumption
    · simp at h
    · simp at h
    · exact ih _ h

theorem resolveN_missing_entry (e : Name → Entry) (fuel : Nat) (n m : Name) (p : PState)
    (h : resolveN e fuel n = .missing m p) : e m = .missing p := by
  induction fuel generalizing n with
  | zero => simp [resolveN] at h
  | succ f ih =>
    simp only [resolveN] at h
    split at h
    · simp at h
    · simp at h
    · simp at h; obtain ⟨rfl, rfl⟩ := h; assumption
    · exact ih _ h

/-- changing an entry that was missing does not disturb names that resolved to a file -/
theorem resolveN_upd_missing_file (e : Name → Entry) (m : Name) (p : PState) (v : Entry)
    (hm : e m = .missing p) (fuel : Nat) (n x : Name) (i : Ino)
    (h : resolveN e fuel n = .file x i) : resolveN (upd e m v) fuel n = .file x i := by
  induction fuel generalizing n with
  | zero => simp [resolveN] at h
  | succ f ih =>
    simp only [resolveN] at h ⊢
    by_cases hn : n = m
    · subst hn; simp [hm] at h
    · simp only [upd, hn, if_false]
      split at h <;> simp_all

/-- … and names that resolved to that missing entry now resolve to what was put there -/
theorem resolveN_upd_missing_target (e : Name → Entry) (m : Name) (p : PState) (j : Ino)
    (fuel : Nat) (n : Name) (h : resolveN e fuel n = .missing m p) :
    resolveN (upd e m (.file j)) fuel n = .file m j := by
  induction fuel generalizing n with
  | zero => simp [resolveN] at h
  | succ f ih =>
    simp only [resolveN] at h ⊢
    by_cases hn : n = m
    · subst hn; simp [upd]
    · simp only [upd, hn, if_false]
      split at h <;> simp_all

/-- removing a name that is not a symbolic link does not disturb names resolving elsewhere -/
theorem resolveN_upd_other (e : Name → Entry) (r : Name) (v : Entry)
    (hr : ∀ t, e r ≠ .symlink t) (fuel : Nat) (n y : Name) (k : Ino) (hy : y ≠ r)
    (h : resolveN e fuel n = .file y k) : resolveN (upd e r v) fuel n = .file y k := by
  induction fuel generalizing n with
  | zero => simp [resolveN] at h
  | succ f ih =>
    simp only [resolveN] at h ⊢
    by_cases hn : n = r
    · subst hn
      split at h <;> simp_all
    · simp only [upd, hn, if_false]
      split at h <;> simp_all

/-- a result other than "too many links" does not depend on the remaining fuel -/
theorem resolveN_mono (e : Name → Entry) (f : Nat) (n : Name) (r : Res)
    (h : resolveN e f n = r) (hr : r ≠ .loop) (g : Nat) (hg : f ≤ g) : resolveN e g n = r := by
  induction f generalizing n g with
  | zero => simp [resolveN] at h; exact absurd h.symm hr
  | succ f ih =>
    cases g with
    | zero => omega
    | succ g =>
      simp only [resolveN] at h ⊢
      split <;> simp_all

/-- if every existing entry is kept, names that resolved to a file still do -/
theorem resolveN_entries_kept (e e' : Name → Entry)
    (hk : ∀ nm, (∀ p, e nm ≠ .missing p) → e' nm = e nm) (fuel : Nat) (n x : Name) (i : Ino)
    (h : resolveN e fuel n = .file x i) : resolveN e' fuel n = .file x i := by
  induction fuel generalizing n with
  | zero => simp [resolveN] at h
  | succ f ih =>
    simp only [resolveN] at h ⊢
    cases he : e n with
    | missing p => simp [he] at h
    | file i' => rw [hk n (by simp [he]), he]; simpa [he] using h
    | dir => simp [he] at h
    | symlink t => rw [hk n (by simp [he]), he]; simp [he] at h; exact ih t h

/-- changing a name that the resolution of `n` never reaches does not disturb it -/
theorem resolveN_upd_unreached (e : Name → Entry) (r : Name) (v : Entry) (fuel : Nat)
    (n y : Name) (k : Ino) (h : resolveN e fuel n = .file y k)
    (hu : ∀ f', f' ≤ fuel → resolveN e f' r ≠ .file y k) :
    resolveN (upd e r v) fuel n = .file y k := by
  induction fuel generalizing n with
  | zero => simp [resolveN] at h
  | succ f ih =>
    by_cases hn : n = r
    · subst hn; exact absurd h (hu _ (Nat.le_refl _))
    · simp only [resolveN] at h ⊢
      simp only [upd, hn, if_false]
      split at h <;> simp_all
      exact ih _ h (fun f' hf' => hu f' (by omega))

/-! ## closed-form facts about `copyFile` and `rename` -/

/-- what a successful copy leaves behind -/
def CopyOk (fs fs' : FS) (dst : Name) (i : Ino) (n : Nat) : Prop :=
  n = (fs.data i).length ∧ fs'.data i = fs.data i ∧ fs'.dev = fs.dev ∧
  (∀ nm, (∀ p, fs.entry nm ≠ .missing p) → fs'.entry nm = fs.entry nm) ∧
  ∃ y k, k ≠ i ∧ resolve fs' dst = .file y k ∧ fs'.data k = fs.data i

theorem copyFile_spec (fs : FS) (src dst : Name) (x : Name) (i : Ino) (hf : Fresh fs)
    (hsrc : resolve fs src = .file x i) :
    match copyFile fs src dst with
    | (fs', .ok n) => CopyOk fs fs' dst i n
    | (fs', .error _) => fs' = fs := by
  cases hdst : resolve fs dst with
  | file y k =>
    by_cases hik : i = k
    · simp [copyFile, runCopy, copyProg, List.foldl, copyStep, openRead, hsrc, fstat, stat, hdst, hik]
    · simp [copyFile, runCopy, copyProg, List.foldl, copyStep, openRead, hsrc, fstat, stat, hdst, hik, creat, copyData]
      simp only [resolve] at hsrc hdst
      refine ⟨by simp [upd, hik], by simp [upd, hik], rfl, fun _ _ => rfl, y, k, fun h => hik h.symm, ?_, ?_⟩
      · simp [resolve, hdst]
      · simp [upd, hik]
  | dir y =>
    simp [copyFile, runCopy, copyProg, List.foldl, copyStep, openRead, hsrc, fstat, stat, hdst, creat]
  | missing m p =>
    cases p with
    | ok =>
      simp [copyFile, runCopy, copyProg, List.foldl, copyStep, openRead, hsrc, fstat, stat, hdst, creat, copyData, resErr]
      simp only [resolve] at hsrc hdst
      have hm := resolveN_missing_entry _ _ _ _ _ hdst
      have hx := resolveN_file_entry _ _ _ _ _ hsrc
      have hlt : i < fs.next := hf x i hx
      have hne : i ≠ fs.next := Nat.ne_of_lt hlt
      have h2 := resolveN_upd_missing_target fs.entry m .ok fs.next _ _ hdst
      refine ⟨by simp [upd, hne], by simp [upd, hne], rfl, ?_, m, fs.next, fun h => hne h.symm, ?_, ?_⟩
      · intro nm hnm
        have : nm ≠ m := fun h => hnm .ok (h ▸ hm)
        simp [upd, this]
      · simp [resolve, h2]
      · simp [upd, hne]
    | noParent =>
      simp [copyFile, runCopy, copyProg, List.foldl, copyStep, openRead, hsrc, fstat, stat, hdst, creat, resErr]
    | parentNotDir =>
      simp [copyFile, runCopy, copyProg, List.foldl, copyStep, openRead, hsrc, fstat, stat, hdst, creat, resErr]
  | loop =>
    simp [copyFile, runCopy, copyProg, List.foldl, copyStep, openRead, hsrc, fstat, stat, hdst, creat, resErr]


/-- a successful rename of a regular-file entry leaves its bytes reachable through `dst` -/
theorem rename_file_ok (fs fs1 : FS) (src dst : Name) (i : Ino) (hsrc : fs.entry src = .file i)
    (hr : rename fs src dst = .ok fs1) : content fs1 dst = some (fs.data i) := by
  unfold rename at hr
  rw [hsrc] at hr
  by_cases hdev : fs.dev src = fs.dev dst
  · cases hd : fs.entry dst with
    | file k =>
      simp [hd, hdev] at hr
      by_cases h : src = dst ∨ i = k
      · simp [h] at hr; subst hr
        rcases h with h | h
        · subst h; simp [content, resolve, resolveN, hsrc]
        · subst h; simp [content, resolve, resolveN, hd]
      · simp [h] at hr; subst hr
        have hne : dst ≠ src := fun e => h (Or.inl e.symm)
        simp [content, resolve, resolveN, moveEntry, upd, hsrc, hne]
    | dir => simp [hd, hdev] at hr
    | symlink t =>
      have hne : dst ≠ src := by intro e; subst e; simp [hsrc] at hd
      have hne' : src ≠ dst := fun e => hne e.symm
      simp [hd, hdev, hne'] at hr
      subst hr
      simp [content, resolve, resolveN, moveEntry, upd, hsrc, hne]
    | missing p =>
      have hne : dst ≠ src := by intro e; subst e; simp [hsrc] at hd
      have hne' : src ≠ dst := fun e => hne e.symm
      cases p <;> simp [hd, hdev, hne'] at hr
      subst hr
      simp [content, resolve, resolveN, moveEntry, upd, hsrc, hne]
  · cases hd : fs.entry dst with
    | missing p => cases p <;> simp [hd, hdev] at hr
    | _ => simp [hd, hdev] at hr

/-- removing (or replacing) a symbolic link `r → t` does not disturb what its target `t`
    resolves to: the resolution of `t` cannot pass through `r` again without looping -/
theorem resolveN_upd_symlink_source (e : Name → Entry) (r t : Name) (v : Entry)
    (hr : e r = .symlink t) (x : Name) (i : Ino) (g : Nat)
    (h : resolveN e g t = .file x i) : resolveN (upd e r v) g t = .file x i := by
  induction g using Nat.strongRecOn with
  | _ g ih =>
    by_cases hex : ∃ f', f' ≤ g ∧ resolveN e f' r = .file x i
    · obtain ⟨f', hle, hf'⟩ := hex
      cases f' with
      | zero => simp [resolveN] at hf'
      | succ f'' =>
        simp only [resolveN, hr] at hf'
        have := ih f'' (by omega) hf'
        exact resolveN_mono _ _ _ _ this (by simp) g (by omega)
    · exact resolveN_upd_unreached e r v g t x i h (fun f' hle hf' => hex ⟨f', hle, hf'⟩)

/-- a successful rename of a symbolic link to another name moves the link -/
theorem rename_symlink_ok (fs fs1 : FS) (src dst t : Name) (hsrc : fs.entry src = .symlink t)
    (hne : src ≠ dst) (hr : rename fs src dst = .ok fs1) : fs1 = moveEntry fs src dst := by
  unfold rename at hr
  rw [hsrc] at hr
  by_cases hdev : fs.dev src = fs.dev dst
  · cases hd : fs.entry dst with
    | missing p => cases p <;> simp [hd, hdev, hne] at hr <;> exact hr.symm
    | dir => simp [hd, hdev] at hr
    | file k => simp [hd, hdev, hne] at hr; exact hr.symm
    | symlink t' => simp [hd, hdev, hne] at hr; exact hr.symm
  · cases hd : fs.entry dst with
    | missing p => cases p <;> simp [hd, hdev] at hr
    | _ => simp [hd, hdev] at hr

/-- renaming a symlink source onto a destination that does not resolve to the source's inode
    leaves the bytes reachable through `dst` -/
theorem rename_symlink_content (fs fs1 : FS) (src dst t x : Name) (i : Ino)
    (hsrc : fs.entry src = .symlink t) (hres : resolve fs src = .file x i)
    (hnd : ∀ y, resolve fs dst ≠ .file y i)
    (hr : rename fs src dst = .ok fs1) : content fs1 dst = some (fs.data i) := by
  have hne : src ≠ dst := by
    intro h; subst h; exact hnd x hres
  have := rename_symlink_ok fs fs1 src dst t hsrc hne hr
  subst this
  simp only [resolve] at hres hnd
  -- t resolves to inode i with one link less of fuel
  have ht : resolveN fs.entry maxLinks t = .file x i := by
    simpa [resolveN, hsrc] using hres
  -- step 1: put the link at dst — dst is not on t's chain (it would resolve to inode i)
  have h1 : resolveN (upd fs.entry dst (.symlink t)) maxLinks t = .file x i := by
    apply resolveN_upd_unreached _ _ _ _ _ _ _ ht
    intro f' hf' h
    exact hnd x (resolveN_mono _ _ _ _ h (by simp) _ (by omega))
  -- step 2: remove the link at src
  have h2 := resolveN_upd_symlink_source (upd fs.entry dst (.symlink t)) src t (.missing .ok)
    (by simp [upd, hne, hsrc]) x i maxLinks h1
  have hne' : dst ≠ src := fun h => hne h.symm
  simp [content, resolve, resolveN, moveEntry, upd, hne', hsrc]
  rw [h2]

/-! ## MoveFile without its guard (`moveFilePinned`): the three ways it can go -/

/-- source name is a regular-file entry: rename path or fall-back, content preserved -/
theorem movePinned_direct (fs : FS) (src dst : Name) (i : Ino) (hf : Fresh fs)
    (hsrc : fs.entry src = .file i) :
    match moveFilePinned fs src dst with
    | (fs', .ok _) => content fs' dst = some (fs.data i)
    | (fs', .error _) => fs' = fs := by
  have hres : resolve fs src = .file src i := by simp [resolve, resolveN, hsrc]
  cases hr : rename fs src dst with
  | ok fs1 =>
    simp [moveFilePinned, runMove, pinnedMoveProg, List.foldl, moveStep, hr]
    exact rename_file_ok fs fs1 src dst i hsrc hr
  | error e =>
    have hspec := copyFile_spec fs src dst src i hf hres
    cases hc : copyFile fs src dst with
    | mk fs1 r =>
      rw [hc] at hspec
      cases r with
      | error e2 =>
        simp only at hspec
        simp [moveFilePinned, runMove, pinnedMoveProg, List.foldl, moveStep, hr, hc, hspec]
      | ok n =>
        simp only [CopyOk] at hspec
        obtain ⟨_, hdi, _, hent, y, k, hki, hy, hdk⟩ := hspec
        have hs1 : fs1.entry src = .file i := by rw [hent src (by simp [hsrc]), hsrc]
        simp [moveFilePinned, runMove, pinnedMoveProg, List.foldl, moveStep, hr, hc, unlink, hs1]
        simp only [resolve] at hy
        have hyk := resolveN_file_entry _ _ _ _ _ hy
        have hne : y ≠ src := by
          intro e; subst e; rw [hs1] at hyk; simp at hyk; exact hki hyk.symm
        have := resolveN_upd_other fs1.entry src (.missing .ok) (by simp [hs1]) _ _ _ _ hne hy
        simp [content, resolve, this, hdk]

/-- whenever rename fails, for a source reached through any chain of symlinks -/
theorem movePinned_fallback (fs : FS) (src dst : Name) (b : Bytes) (e : Err) (hf : Fresh fs)
    (hs : content fs src = some b) (hr : rename fs src dst = .error e) :
    match moveFilePinned fs src dst with
    | (fs', .ok _) => content fs' dst = some b
    | (fs', .error _) => fs' = fs := by
  unfold content at hs
  cases hsrc : resolve fs src with
  | file x i =>
    simp [hsrc] at hs
    subst hs
    have hspec := copyFile_spec fs src dst x i hf hsrc
    cases hc : copyFile fs src dst with
    | mk fs1 r =>
      rw [hc] at hspec
      cases r with
      | error e2 =>
        simp only at hspec
        simp [moveFilePinned, runMove, pinnedMoveProg, List.foldl, moveStep, hr, hc, hspec]
      | ok n =>
        simp only [CopyOk] at hspec
        obtain ⟨_, hdi, _, hent, y, k, hki, hy, hdk⟩ := hspec
        simp only [resolve] at hsrc hy
        have hsrc1 := resolveN_entries_kept fs.entry fs1.entry hent _ _ _ _ hsrc
        -- dst's chain never reaches the name `src`: it would end in inode i, not k
        have hunreached : ∀ f', f' ≤ maxLinks + 1 → resolveN fs1.entry f' src ≠ .file y k := by
          intro f' hf' h
          have := resolveN_mono fs1.entry f' src _ h (by simp) (maxLinks + 1) hf'
          rw [hsrc1] at this
          simp at this
          exact hki this.2.symm
        have hdst2 := resolveN_upd_unreached fs1.entry src (.missing .ok) _ _ _ _ hy hunreached
        -- the source name exists in fs1 (it resolves), so `os.Remove` succeeds
        cases hes : fs.entry src with
        | missing p => simp [resolveN, hes] at hsrc
        | dir => simp [resolveN, hes] at hsrc
        | file i' =>
          have hs1 : fs1.entry src = .file i' := by rw [hent src (by simp [hes]), hes]
          simp [moveFilePinned, runMove, pinnedMoveProg, List.foldl, moveStep, hr, hc, unlink, hs1]
          simp [content, resolve, hdst2, hdk]
        | symlink t =>
          have hs1 : fs1.entry src = .symlink t := by rw [hent src (by simp [hes]), hes]
          simp [moveFilePinned, runMove, pinnedMoveProg, List.foldl, moveStep, hr, hc, unlink, hs1]
          simp [content, resolve, hdst2, hdk]
  | _ => simp [hsrc] at hs

/-! ## MoveFile with its guard = guard, then the unguarded order -/

/-- the outcome of the unguarded event list does not depend on the identities / error left
    behind by the guard statements -/
theorem movePinned_eval (fs : FS) (src dst : Name) (sid did : Option Ident) (e0 : Option Err) :
    let st := pinnedMoveProg.foldl (moveStep copyFile src dst)
      { fs := fs, srcId := sid, dstId := did, err := e0 }
    (st.fs, st.ret.getD (.error .other)) = moveFilePinned fs src dst := by
  cases hr : rename fs src dst with
  | ok fs1 => simp [moveFilePinned, runMove, pinnedMoveProg, List.foldl, moveStep, hr]
  | error e =>
    cases hc : copyFile fs src dst with
    | mk fs1 r =>
      cases r with
      | error e2 => simp [moveFilePinned, runMove, pinnedMoveProg, List.foldl, moveStep, hr, hc]
      | ok n =>
        cases hu : unlink fs1 src <;>
          simp [moveFilePinned, runMove, pinnedMoveProg, List.foldl, moveStep, hr, hc, hu]

/-- `moveFile` is: same-file check on `stat src`/`stat dst`, otherwise `moveFilePinned` -/
theorem moveFile_guard (fs : FS) (src dst : Name) :
    moveFile fs src dst =
      match stat fs src, stat fs dst with
      | .ok a, .ok b => if a = b then (fs, .error .sameFile) else moveFilePinned fs src dst
      | _, _ => moveFilePinned fs src dst := by
  have key : ∀ st : MSt, moveProg.foldl (moveStep copyFile src dst) st =
      pinnedMoveProg.foldl (moveStep copyFile src dst)
        ([FsEv.statSrc, .statDst, .guardSameFile].foldl (moveStep copyFile src dst) st) := by
    intro st; rfl
  simp only [moveFile, runMove, key]
  cases hs : stat fs src <;> cases hd : stat fs dst
  all_goals simp only [List.foldl, moveStep, hs, hd]
  · exact movePinned_eval fs src dst _ _ _
  · exact movePinned_eval fs src dst _ _ _
  · exact movePinned_eval fs src dst _ _ _
  · rename_i a b
    by_cases hab : a = b
    · subst hab; simp [pinnedMoveProg, List.foldl, moveStep]
    · simp only [hab, if_false]
      exact movePinned_eval fs src dst _ _ _
end Glb.Files
