/-
  Helper lemmas for C18: how path resolution reacts to the three ways CopyFile/MoveFile change
  the name space (create an entry at a missing name, move an entry, remove an entry), and a
  closed form of `copyFile`.
-/
import Glb.Model.Files

namespace Glb.Files
open Glb.Generated

/-! ## resolution -/

theorem resolveN_file_entry (e : Name → Entry) (fuel : Nat) (n x : Name) (i : Ino)
    (h : resolveN e fuel n = .file x i) : e x = .file i := by
  induction fuel generalizing n with
  | zero => simp [resolveN] at h
  | succ f ih =>
    simp only [resolveN] at h
    split at h
    · simp at h; obtain ⟨rfl, rfl⟩ := h; assumption
    · simp at h
    · simp at h
    · exact ih _ h

theorem resolveN_missing_entry (e : Name → Entry) (fuel : Nat) (n m : Name) (p : PState)
    (h : resolveN e fuel n = .missing m p) : e m = .missing p := by
  induction fuel generalizing n with
  | zero => simp [resolveN] at h
  | succ f ih =>
    simp only [resolveN] at h
    split at h
    · simp at h
    · simp at h
    · simp at h; obtain ⟨rfl, rfl⟩ := h; assumption
    · exact ih _ h

/-- changing an entry that was missing does not disturb names that resolved to a file -/
theorem resolveN_upd_missing_file (e : Name → Entry) (m : Name) (p : PState) (v : Entry)
    (hm : e m = .missing p) (fuel : Nat) (n x : Name) (i : Ino)
    (h : resolveN e fuel n = .file x i) : resolveN (upd e m v) fuel n = .file x i := by
  induction fuel generalizing n with
  | zero => simp [resolveN] at h
  | succ f ih =>
    simp only [resolveN] at h ⊢
    by_cases hn : n = m
    · subst hn; simp [hm] at h
    · simp only [upd, hn, if_false]
      split at h <;> simp_all

/-- … and names that resolved to that missing entry now resolve to what was put there -/
theorem resolveN_upd_missing_target (e : Name → Entry) (m : Name) (p : PState) (j : Ino)
    (fuel : Nat) (n : Name) (h : resolveN e fuel n = .missing m p) :
    resolveN (upd e m (.file j)) fuel n = .file m j := by
  induction fuel generalizing n with
  | zero => simp [resolveN] at h
  | succ f ih =>
    simp only [resolveN] at h ⊢
    by_cases hn : n = m
    · subst hn; simp [upd]
    · simp only [upd, hn, if_false]
      split at h <;> simp_all

/-- removing a name that is not a symbolic link does not disturb names resolving elsewhere -/
theorem resolveN_upd_other (e : Name → Entry) (r : Name) (v : Entry)
    (hr : ∀ t, e r ≠ .symlink t) (fuel : Nat) (n y : Name) (k : Ino) (hy : y ≠ r)
    (h : resolveN e fuel n = .file y k) : resolveN (upd e r v) fuel n = .file y k := by
  induction fuel generalizing n with
  | zero => simp [resolveN] at h
  | succ f ih =>
    simp only [resolveN] at h ⊢
    by_cases hn : n = r
    · subst hn
      split at h <;> simp_all
    · simp only [upd, hn, if_false]
      split at h <;> simp_all

/-- a result other than "too many links" does not depend on the remaining fuel -/
theorem resolveN_mono (e : Name → Entry) (f : Nat) (n : Name) (r : Res)
    (h : resolveN e f n = r) (hr : r ≠ .loop) (g : Nat) (hg : f ≤ g) : resolveN e g n = r := by
  induction f generalizing n g with
  | zero => simp [resolveN] at h; exact absurd h.symm hr
  | succ f ih =>
    cases g with
    | zero => omega
    | succ g =>
      simp only [resolveN] at h ⊢
      split <;> simp_all

/-- if every existing entry is kept, names that resolved to a file still do -/
theorem resolveN_entries_kept (e e' : Name → Entry)
    (hk : ∀ nm, (∀ p, e nm ≠ .missing p) → e' nm = e nm) (fuel : Nat) (n x : Name) (i : Ino)
    (h : resolveN e fuel n = .file x i) : resolveN e' fuel n = .file x i := by
  induction fuel generalizing n with
  | zero => simp [resolveN] at h
  | succ f ih =>
    simp only [resolveN] at h ⊢
    cases he : e n with
    | missing p => simp [he] at h
    | file i' => rw [hk n (by simp [he]), he]; simpa [he] using h
    | dir => simp [he] at h
    | symlink t => rw [hk n (by simp [he]), he]; simp [he] at h; exact ih t h

/-- changing a name that the resolution of `n` never reaches does not disturb it -/
theorem resolveN_upd_unreached (e : Name → Entry) (r : Name) (v : Entry) (fuel : Nat)
    (n y : Name) (k : Ino) (h : resolveN e fuel n = .file y k)
    (hu : ∀ f', f' ≤ fuel → resolveN e f' r ≠ .file y k) :
    resolveN (upd e r v) fuel n = .file y k := by
  induction fuel generalizing n with
  | zero => simp [resolveN] at h
  | succ f ih =>
    by_cases hn : n = r
    · subst hn; exact absurd h (hu _ (Nat.le_refl _))
    · simp only [resolveN] at h ⊢
      simp only [upd, hn, if_false]
      split at h <;> simp_all
      exact ih _ h (fun f' hf' => hu f' (by omega))

/-! ## closed-form facts about `copyFile` and `rename` -/

/-- what a successful copy leaves behind -/
def CopyOk (fs fs' : FS) (dst : Name) (i : Ino) (n : Nat) : Prop :=
  n = (fs.data i).length ∧ fs'.data i = fs.data i ∧ fs'.dev = fs.dev ∧
  (∀ nm, (∀ p, fs.entry nm ≠ .missing p) → fs'.entry nm = fs.entry nm) ∧
  ∃ y k, k ≠ i ∧ resolve fs' dst = .file y k ∧ fs'.data k = fs.data i

theorem copyFile_spec (fs : FS) (src dst : Name) (x : Name) (i : Ino) (hf : Fresh fs)
    (hsrc : resolve fs src = .file x i) :
    match copyFile fs src dst with
    | (fs', .ok n) => CopyOk fs fs' dst i n
    | (fs', .error _) => fs' = fs := by
  cases hdst : resolve fs dst with
  | file y k =>
    by_cases hik : i = k
    · simp [copyFile, runCopy, copyProg, List.foldl, copyStep, openRead, hsrc, fstat, stat, hdst, hik]
    · simp [copyFile, runCopy, copyProg, List.foldl, copyStep, openRead, hsrc, fstat, stat, hdst, hik, creat, copyData]
      simp only [resolve] at hsrc hdst
      refine ⟨by simp [upd, hik], by simp [upd, hik], rfl, fun _ _ => rfl, y, k, fun h => hik h.symm, ?_, ?_⟩
      · simp [resolve, hdst]
      · simp [upd, hik]
  | dir y =>
    simp [copyFile, runCopy, copyProg, List.foldl, copyStep, openRead, hsrc, fstat, stat, hdst, creat]
  | missing m p =>
    cases p with
    | ok =>
      simp [copyFile, runCopy, copyProg, List.foldl, copyStep, openRead, hsrc, fstat, stat, hdst, creat, copyData, resErr]
      simp only [resolve] at hsrc hdst
      have hm := resolveN_missing_entry _ _ _ _ _ hdst
      have hx := resolveN_file_entry _ _ _ _ _ hsrc
      have hlt : i < fs.next := hf x i hx
      have hne : i ≠ fs.next := Nat.ne_of_lt hlt
      have h2 := resolveN_upd_missing_target fs.entry m .ok fs.next _ _ hdst
      refine ⟨by simp [upd, hne], by simp [upd, hne], rfl, ?_, m, fs.next, fun h => hne h.symm, ?_, ?_⟩
      · intro nm hnm
        have : nm ≠ m := fun h => hnm .ok (h ▸ hm)
        simp [upd, this]
      · simp [resolve, h2]
      · simp [upd, hne]
    | noParent =>
      simp [copyFile, runCopy, copyProg, List.foldl, copyStep, openRead, hsrc, fstat, stat, hdst, creat, resErr]
    | parentNotDir =>
      simp [copyFile, runCopy, copyProg, List.foldl, copyStep, openRead, hsrc, fstat, stat, hdst, creat, resErr]
  | loop =>
    simp [copyFile, runCopy, copyProg, List.foldl, copyStep, openRead, hsrc, fstat, stat, hdst, creat, resErr]


/-- a successful rename of a regular-file entry leaves its bytes reachable through `dst` -/
theorem rename_file_ok (fs fs1 : FS) (src dst : Name) (i : Ino) (hsrc : fs.entry src = .file i)
    (hr : rename fs src dst = .ok fs1) : content fs1 dst = some (fs.data i) := by
  unfold rename at hr
  rw [hsrc] at hr
  by_cases hdev : fs.dev src = fs.dev dst
  · cases hd : fs.entry dst with
    | file k =>
      simp [hd, hdev] at hr
      by_cases h : src = dst ∨ i = k
      · simp [h] at hr; subst hr
        rcases h with h | h
        · subst h; simp [content, resolve, resolveN, hsrc]
        · subst h; simp [content, resolve, resolveN, hd]
      · simp [h] at hr; subst hr
        have hne : dst ≠ src := fun e => h (Or.inl e.symm)
        simp [content, resolve, resolveN, moveEntry, upd, hsrc, hne]
    | dir => simp [hd, hdev] at hr
    | symlink t =>
      have hne : dst ≠ src := by intro e; subst e; simp [hsrc] at hd
      have hne' : src ≠ dst := fun e => hne e.symm
      simp [hd, hdev, hne'] at hr
      subst hr
      simp [content, resolve, resolveN, moveEntry, upd, hsrc, hne]
    | missing p =>
      have hne : dst ≠ src := by intro e; subst e; simp [hsrc] at hd
      have hne' : src ≠ dst := fun e => hne e.symm
      cases p <;> simp [hd, hdev, hne'] at hr
      subst hr
      simp [content, resolve, resolveN, moveEntry, upd, hsrc, hne]
  · cases hd : fs.entry dst with
    | missing p => cases p <;> simp [hd, hdev] at hr
    | _ => simp [hd, hdev] at hr

end Glb.Files
