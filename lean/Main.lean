/-
  Line-protocol driver: `driver <stream>` reads operations from stdin (one per line, hex fields)
  and prints the model's answer per line.  Core Lean only (no Mathlib), compiled as `lean_exe`.
-/
import Glb.Driver.Filter
import Glb.Driver.Strutil
import Glb.Driver.Fsutil
import Glb.Driver.Config
import Glb.Driver.Text
import Glb.Driver.Quote
import Glb.Driver.Relay
import Glb.Driver.Progress
import Glb.Driver.Files
import Glb.Driver.Json
import Glb.Driver.Derive
import Glb.Driver.LogSys
import Glb.Driver.Router
import Glb.Driver.Store
import Glb.Driver.Nano
import Glb.Driver.TaskLaneTrace
import Glb.Driver.AuxFns
import Glb.Driver.Daemon
import Glb.Driver.TrSelf

open Glb.Driver

def main (args : List String) : IO UInt32 := do
  let stdin ← IO.getStdin
  let stdout ← IO.getStdout
  match args with
  | ["filter"] => loop stdin stdout ({} : Filter.DSt) Filter.step; return 0
  | ["strutil"] => loop stdin stdout () Strutil.step; return 0
  | ["fsutil"] => loop stdin stdout () Fsutil.step; return 0
  | ["argv"] => loop stdin stdout ({} : Config.ArgvSt) Config.argvStep; return 0
  | ["text"] => loop stdin stdout () Text.step; return 0
  | ["quote"] => loop stdin stdout () Quote.step; return 0
  | ["relay"] => loop stdin stdout () Relay.step; return 0
  | ["daemon"] => loop stdin stdout () Daemon.step; return 0
  | ["progress"] => loop stdin stdout () Progress.step; return 0
  | ["files"] => loop stdin stdout () Files.step; return 0
  | ["config"] => loop stdin stdout ({} : Config.CfgSt) Config.cfgStep; return 0
  | ["json"] => loop stdin stdout () Json.step; return 0
  | ["utf8"] => loop stdin stdout () Json.step; return 0
  | ["derive"] => loop stdin stdout ({} : Derive.DSt) Derive.step; return 0
  | ["logsys"] => loop stdin stdout ({} : LogSys.DSt) LogSys.step; return 0
  | ["router"] => loop stdin stdout ({} : Router.DSt) Router.step; return 0
  | ["store"] => loop stdin stdout ({} : Store.DSt) Store.step; return 0
  | ["nano"] => loop stdin stdout () Nano.step; return 0
  | ["tltrace"] => loop stdin stdout (0 : Nat) TaskLaneTrace.step; return 0
  | ["aux"] => loop stdin stdout () AuxFns.step; return 0
  | ["trself"] => loop stdin stdout () TrSelf.step; return 0
  | _ => IO.eprintln "usage: driver <stream>"; return 2
