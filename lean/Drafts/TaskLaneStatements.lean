/-
  DRAFT — theorem statements for C06, C07, C08, C14 over Glb.Model.TaskLane (to be proved; the
  finished theorems go to Glb/Props/C06.lean, C07.lean, C08.lean, C14.lean, helper lemmas to
  Glb/Proofs/TaskLane*.lean).  All statements are about `cfg L Q` for ARBITRARY L and Q and
  quantify over all reachable states = all interleavings.
-/
import Glb.Model.TaskLane

namespace Glb.TaskLane

/-- reflexive-transitive closure of `Step` -/
inductive Steps (c : Cfg) : St → St → Prop where
  | refl (s) : Steps c s s
  | tail (s l s' s'') : Steps c s s' → Step c s' l s'' → Steps c s s''

def allExited (L : Nat) (s : St) : Prop := ∀ i, i < L → (s.qs i).pc = 6 ∧ (s.ws i).pc = 4

variable (L Q : Nat)

/-! ## C06 -/

/-- no task is ever started twice — cancelled or not -/
theorem C06_started_nodup (s : St) (h : Reachable (cfg L Q) s) : s.started.Nodup := sorry

/-- every pending or started task was accepted, and none appears twice among them -/
theorem C06_exactly_once (s : St) (h : Reachable (cfg L Q) s) :
    (s.pending (cfg L Q) ++ s.started).Nodup ∧
    ∀ t, t ∈ s.pending (cfg L Q) ++ s.started → t ∈ s.accepted := sorry

/-- while the context is live no accepted task is lost -/
theorem C06_no_loss (s : St) (h : Reachable (cfg L Q) s) (hc : s.cancelled = false) :
    ∀ t, t ∈ s.accepted → t ∈ s.pending (cfg L Q) ++ s.started := sorry

/-- PushTask returned nil ⇒ the task was accepted; returned an error ⇒ it was not, and never starts -/
theorem C06_results (s : St) (h : Reachable (cfg L Q) s) (t : Tid) (r : PushResult)
    (hr : (t, r) ∈ s.results) :
    (r = .nil → t ∈ s.accepted) ∧ (r ≠ .nil → t ∉ s.accepted ∧ t ∉ s.started) := sorry

/-- liveness core: live context, nothing more the lane can do by itself, no task running ⇒ every
    accepted task has been started (fairness of the scheduler is the only assumption) -/
theorem C06_eventually_started (s : St) (h : Reachable (cfg L Q) s) (hc : s.cancelled = false)
    (hq : Quiescent (cfg L Q) s) (hr : ∀ i, i < L → ¬ s.running i) :
    ∀ t, t ∈ s.accepted → t ∈ s.started := sorry

/-! ## C07 -/

/-- a PushTask call that begins after cancellation returns the context error and enqueues nothing -/
theorem C07_push_after_cancel (s s' : St) (h : Reachable (cfg L Q) s) (hc : s.cancelled = true)
    (k : Nat) (hk : k < s.np) (h0 : (s.ps k).pc = 0) (hs : Steps (cfg L Q) s s') :
    (s.ps k).held ∉ s'.accepted ∧ ∀ r, ((s.ps k).held, r) ∈ s'.results → r = .ctxErr := sorry

/-- after cancellation every goroutine of the lane that has not exited and is not inside a task,
    and every blocked producer, has an enabled step of its own -/
theorem C07_cancel_progress (s : St) (h : Reachable (cfg L Q) s) (hc : s.cancelled = true) :
    (∀ i, i < L → (s.qs i).pc ≠ 6 → ∃ l s', Step (cfg L Q) s l s' ∧ internal l = true) ∧
    (∀ i, i < L → (s.ws i).pc ≠ 4 → ¬ s.running i → ∃ l s', Step (cfg L Q) s l s' ∧ internal l = true) ∧
    (∀ k, k < s.np → (s.ps k).pc ≠ 5 → ∃ l s', Step (cfg L Q) s l s' ∧ internal l = true) := sorry

/-- Wait returns: cancelled, nothing enabled, every started task has returned ⇒ all 2L goroutines exited,
    whatever is still queued or held -/
theorem C07_wait_returns (s : St) (h : Reachable (cfg L Q) s) (hc : s.cancelled = true)
    (hq : Quiescent (cfg L Q) s) (hr : ∀ i, i < L → ¬ s.running i) : allExited L s := sorry

/-- after Wait has returned no task is ever started -/
theorem C07_nothing_after_wait (s s' : St) (h : Reachable (cfg L Q) s) (he : allExited L s)
    (hs : Steps (cfg L Q) s s') : s'.started = s.started := sorry

/-! ## C08 -/

/-- at most L tasks are between entry and exit of Start() -/
theorem C08_at_most_L_running (s : St) (h : Reachable (cfg L Q) s) :
    s.started.length ≤ s.finished.length + L := sorry

/-- no head-of-line blocking: live context, nothing enabled, something pending ⇒ every worker is busy -/
theorem C08_no_head_of_line_blocking (s : St) (h : Reachable (cfg L Q) s) (hc : s.cancelled = false)
    (hq : Quiescent (cfg L Q) s) (hp : s.pending (cfg L Q) ≠ []) : ∀ i, i < L → s.running i := sorry

/-! ## C14 -/

theorem C14_lastPanic (s : St) (h : Reachable (cfg L Q) s) :
    (∀ v, s.lastPanic = some v → v ∈ s.panics) ∧ (s.panics ≠ [] → s.lastPanic = s.panics.getLast?) := sorry

/-- buffer lengths and the counter are bounded in every reachable state, hence any non-atomic sequence
    of reads adds up to at most L·(Q+1) -/
theorem C14_pending_bounds (s : St) (h : Reachable (cfg L Q) s) :
    (∀ i, i < L → (s.buf i).length ≤ Q) ∧ s.cnt ≤ L := sorry

theorem C14_status_bound (ss : Nat → St) (s' : St) (h : ∀ i, Reachable (cfg L Q) (ss i))
    (h' : Reachable (cfg L Q) s') :
    sumTo L (fun i => ((ss i).buf i).length) + s'.cnt ≤ L * (Q + 1) := sorry

/-- at rest (no internal step enabled) the reported number is exactly the number of
    accepted-but-not-started tasks -/
theorem C14_pending_exact_at_rest (s : St) (h : Reachable (cfg L Q) s) (hc : s.cancelled = false)
    (hq : Quiescent (cfg L Q) s) :
    s.statusPending (cfg L Q) = (s.pending (cfg L Q)).length ∧
    (s.pending (cfg L Q)).length + s.started.length = s.accepted.length := sorry

/-- the same under the weaker syntactic notion of rest: no queue goroutine between take and
    increment or between hand-over and decrement, no worker between receive and Start() -/
theorem C14_pending_exact_at_rest' (s : St) (h : Reachable (cfg L Q) s) (hc : s.cancelled = false)
    (hrest : ∀ i, i < L → (s.qs i).pc ≠ 1 ∧ (s.qs i).pc ≠ 5 ∧ ¬ ((s.ws i).pc = 3 ∧ (s.ws i).parked = false)) :
    s.statusPending (cfg L Q) = (s.pending (cfg L Q)).length ∧
    (s.pending (cfg L Q)).length + s.started.length = s.accepted.length := sorry

end Glb.TaskLane
