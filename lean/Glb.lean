-- Root of the `Glb` library: everything that must build (models, specs, proofs, property theorems, ties).
import Glb.Basic
import Glb.Model.Filter
import Glb.Model.Utf8
import Glb.Model.TaskLane
import Glb.Generated.Logger
import Glb.Proofs.Filter
import Glb.Props.C11
import Glb.Tie.Filter
import Glb.Driver.Filter
import Glb.Tie.TaskLane
import Glb.Model.Strutil
import Glb.Spec.PosixWords
import Glb.Proofs.Strutil
import Glb.Tie.Strutil
import Glb.Props.C16
import Glb.Driver.Strutil
