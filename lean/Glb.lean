-- Root of the `Glb` library: everything that must build (models, specs, proofs, property theorems, ties).
import Glb.Basic
import Glb.Model.Filter
import Glb.Model.Utf8
import Glb.Model.TaskLane
import Glb.Generated.Logger
import Glb.Proofs.Filter
import Glb.Props.C11
import Glb.Tie.Filter
import Glb.Driver.Filter
