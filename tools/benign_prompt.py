#!/usr/bin/env python3
"""benign_prompt.py <Cxx> — creates a scratch git worktree of /repo for a fresh sub-agent and prints the
prompt for the SOUNDNESS test of the machinery: three changes that keep the property true although they
alter the implementation (and possibly behaviour the property does not speak about). A check that then
reports a concrete failing input demands more than the property states (a false alarm to be corrected);
a report ending in no-failing-input-found (tie broken, nothing found) is the expected answer to a rewrite."""
import json, subprocess, sys, os
pid = sys.argv[1]
p = [json.loads(l) for l in open('/verif/properties.jsonl') if l.strip()]
p = [x for x in p if x['id'] == pid][0]
wt = f"/tmp/seed/{pid}-b"
out = f"/tmp/benign-out/{pid}"
if not os.path.exists(wt):
    subprocess.run(["git", "-C", "/repo", "worktree", "add", "--detach", wt, "HEAD"], check=True, capture_output=True)
os.makedirs(out, exist_ok=True)
print(f"""You are testing a verification setup for FALSE ALARMS. You work ONLY in the scratch git worktree {wt} (a checkout of the Go library whoisnian/glb) and write results ONLY to {out}. Do not read or touch /verif or /repo, and do not look for checkers on this machine: what you write must be independent of them. Never use `git stash`.

Environment for every shell call: `export GOFLAGS=-mod=mod GOPROXY=off GOSUMDB=off GOTOOLCHAIN=local` (no network). Run the existing test suite with `cd {wt} && go test -count=1 ./...` (it passes on the unchanged tree; `TestWaitForInterrupt` in util/osutil is known to be flaky and may be ignored).

The property (a semantic property the library satisfies):

  id: {p['id']}
  title: {p['title']}
  statement: {p['statement']}
  quantified over: {p['quantifier']['text']}
  code anchors: {json.dumps(p['anchors'].get('files'))}; mechanisms: {json.dumps([m['name'] for m in p['anchors'].get('mechanism', [])])}

Your task: produce THREE different, independent source changes to the code this property is about (each as its own patch against the unchanged worktree) such that each change
  (a) KEEPS this property TRUE for every input / schedule / history - argue carefully why; if in doubt, pick another change,
  (b) still COMPILES and PASSES the whole existing test suite (unedited),
  (c) is a change a maintainer could plausibly make: a real refactoring or optimisation that changes HOW the result is computed (different data structure, loop restructured, buffering/chunking, a different but equivalent locking or channel discipline, early exits, a helper inlined or extracted, different internal ordering), or a change of behaviour the property does NOT constrain (wording of an error message, an extra field, a different but still legal choice where the statement leaves freedom, different internal capacity / timing),
  (d) is NOT a mere renaming or comment change: at least one of the three should change something externally observable that the property leaves open, and at least one should restructure the central mechanism named above.
Only edit non-test .go files of the library (no test files, no files with a `//go:build verif` tag, no go.mod). Keep exported signatures as they are.

For each change k = 1, 2, 3 write into {out}/k/:
  * `patch.diff` - `git -C {wt} diff` of that change alone (reset the worktree with `git -C {wt} checkout -- .` between changes);
  * `meta.json`: {{"property": "{pid}", "summary": "...what was changed...", "why_property_still_holds": "...the argument...", "observable_difference": "...what a caller could notice, or 'none'...", "tests_pass": true}}.
Confirm for each change that `go build ./... && go vet ./... && go test -count=1 ./...` passes in the worktree with the change applied.

Finish by resetting the worktree (`git -C {wt} checkout -- . && git -C {wt} clean -fd`) and reply with a short list of the three changes.""")
