#!/usr/bin/env python3
"""seedtest.py <Cxx> <seed-out-dir/k> [name]

Confirms a seeded change independently and runs our checks against it:
  1. in a scratch worktree of /repo: the patch applies, `go build ./... && go test ./...` pass with it,
     the demonstration FAILS with it and PASSES without it;
  2. applies the patch to /repo, runs `./check Cxx quick` (and `thorough` if quick misses it), and
     undoes it straight afterwards (`git -C /repo checkout -- .`);
  3. prints the result as JSON; tools/collect_seeds.py stores confirmed seeds under /verif/seeded/.
"""
import time
import json, os, shutil, subprocess, sys, time

ENV = dict(os.environ, GOFLAGS="-mod=mod", GOPROXY="off", GOSUMDB="off", GOTOOLCHAIN="local")
pid, src = sys.argv[1], sys.argv[2].rstrip("/")
name = sys.argv[3] if len(sys.argv) > 3 else f"{pid}-{os.path.basename(os.path.dirname(src))}-{os.path.basename(src)}"
patch = os.path.join(src, "patch.diff")
meta = json.load(open(os.path.join(src, "meta.json")))
WT = f"/tmp/seedchk-{os.getpid()}"
VDIR = os.environ.get("SEED_VERIF", "/verif")   # which copy of the verification tree runs the checks


def sh(cmd, cwd=None, timeout=1800):
    p = subprocess.run(cmd, shell=True, cwd=cwd, env=ENV, capture_output=True, text=True, timeout=timeout)
    return p.returncode, (p.stdout + p.stderr)[-3000:]


def run_demo(wt):
    """returns (passed, output)"""
    if os.path.exists(os.path.join(src, "demo_test.go")):
        pkg = meta.get("package_dir", "").strip("./") or "."
        pkg = pkg.replace(wt + "/", "")
        for pre in ("/tmp/seed/",):
            if pkg.startswith(pre.strip("/")) or pkg.startswith(pre):
                pkg = "/".join(pkg.split("/")[4:])
        # keep the demonstration's own file name (it may check the caller's file name in a source attribute)
        dst = os.path.join(wt, pkg, "demo_test.go")
        if os.path.exists(dst):
            dst = os.path.join(wt, pkg, "zz_demo_seed_test.go")
        shutil.copyfile(os.path.join(src, "demo_test.go"), dst)
        # a demonstration may need the repository's own verif hooks (e.g. the launcher pause point)
        tags = "-tags verif " if "-tags verif" in (meta.get("demo") or "") + (meta.get("needs") or "") else ""
        rc, out = sh(f"go test {tags}-count=1 ./{pkg}", cwd=wt)
        os.remove(dst)
        return rc == 0, out
    if os.path.isdir(os.path.join(src, "demo")):
        d = f"/tmp/seeddemo-{os.getpid()}"
        shutil.rmtree(d, ignore_errors=True)
        shutil.copytree(os.path.join(src, "demo"), d)
        with open(os.path.join(d, "go.mod"), "w") as f:
            f.write("module seeddemo\n\ngo 1.22.5\n\nrequire github.com/whoisnian/glb v0.0.0\n\nrequire golang.org/x/sys v0.21.0 // indirect\n\nreplace github.com/whoisnian/glb => " + wt + "\n")
        shutil.copyfile(os.path.join(wt, "go.sum"), os.path.join(d, "go.sum"))
        rc, out = sh("go run .", cwd=d)
        shutil.rmtree(d, ignore_errors=True)
        return rc == 0, out
    return None, "no demonstration found"


res = {"property": pid, "name": name, "summary": meta.get("summary"), "needs": meta.get("needs")}
# SEED_PREV=<earlier result json>: the change was confirmed before (it is the same patch against the same commit);
# the final pass only re-runs the checks with the machinery as it is now
PREV = os.environ.get("SEED_PREV")
prev = None
if PREV and os.path.exists(PREV):
    try:
        prev = json.load(open(PREV))
    except Exception:
        prev = None
if prev and prev.get("confirmed"):
    for k in ("applies", "tests_pass_with_patch", "demo_without_patch_passes", "demo_with_patch_passes", "demo_output_with_patch"):
        res[k] = prev.get(k)
    res["confirmation_reused_from_earlier_run"] = True
subprocess.run(["git", "-C", "/repo", "worktree", "add", "--detach", WT, "HEAD"], check=True, capture_output=True)
try:
  if not (prev and prev.get("confirmed")):
      ok0, out0 = run_demo(WT)
      res["demo_without_patch_passes"] = ok0
      rc, out = sh(f"git apply {patch}", cwd=WT)
      res["applies"] = rc == 0
      if rc != 0:
          res["apply_error"] = out
      else:
          rc, out = sh("go build ./... && flock /tmp/seedtest-suite.lock go test -count=1 ./...", cwd=WT)
          for _ in range(2):
              if rc == 0:
                  break
              # the suite has known timing-flaky tests (util/osutil signal tests, tasklane TestPushTask under load): retry
              failed = [l.split()[1] for l in out.split("\n") if l.startswith("FAIL\t")]
              time.sleep(2)
              rc, out2 = sh("flock /tmp/seedtest-suite.lock go test -count=1 " + " ".join("./" + f.replace("github.com/whoisnian/glb/", "") for f in failed) if failed else "go test -count=1 ./...", cwd=WT)
              out += "\n--- retry ---\n" + out2
          res["tests_pass_with_patch"] = rc == 0
          if rc != 0:
              res["test_output"] = out[-1500:]
          ok1, out1 = run_demo(WT)
          res["demo_with_patch_passes"] = ok1
          res["demo_output_with_patch"] = out1[-800:]
finally:
    subprocess.run(["git", "-C", "/repo", "worktree", "remove", "--force", WT], capture_output=True)
    shutil.rmtree(WT, ignore_errors=True)

confirmed = res.get("applies") and res.get("tests_pass_with_patch") and res.get("demo_without_patch_passes") and res.get("demo_with_patch_passes") is False
res["confirmed"] = bool(confirmed)
ON_REPO = os.environ.get("SEED_ON_REPO") == "1"   # apply to /repo itself (final confirmation pass) or to a scratch worktree
if confirmed:
    if ON_REPO:
        st = subprocess.run(["git", "-C", "/repo", "status", "--porcelain"], capture_output=True, text=True).stdout.strip()
        assert st == "", "/repo is dirty: " + st
        target, env = "/repo", dict(os.environ)
    else:
        target = WT + "-run"
        subprocess.run(["git", "-C", "/repo", "worktree", "add", "--detach", target, "HEAD"], check=True, capture_output=True)
        env = dict(os.environ, VERIF_REPO=target)
    try:
        subprocess.run(["git", "-C", target, "apply", patch], check=True)
        runs = []
        for tier in ("quick", "thorough"):
            t0 = time.time()
            p = subprocess.run(["./check", pid, tier], cwd=VDIR, capture_output=True, text=True, timeout=7200, env=env)
            lines = [l for l in p.stdout.split("\n") if l.startswith("VIOLATION") or l.startswith("KNOWN")]
            runs.append({"tier": tier, "rc": p.returncode, "lines": lines, "stderr": p.stderr[-600:], "wall_s": round(time.time() - t0, 1),
                         "on": "/repo (git apply, undone afterwards)" if ON_REPO else "scratch worktree via VERIF_REPO"})
            if p.returncode != 0:
                break
        res["checks"] = runs
        res["detected"] = any(r["rc"] != 0 for r in runs)
        res["detected_with_input"] = any(r["rc"] != 0 and not any("no-failing-input-found" in l for l in r["lines"]) for r in runs)
    finally:
        if ON_REPO:
            subprocess.run(["git", "-C", "/repo", "checkout", "--", "."], check=True)
            subprocess.run(["git", "-C", "/repo", "clean", "-fdq"], check=True)
        else:
            subprocess.run(["git", "-C", "/repo", "worktree", "remove", "--force", target], capture_output=True)
            shutil.rmtree(target, ignore_errors=True)
    # restore evidence and generated files of the unchanged tree
    subprocess.run(["./check", pid, "quick"], cwd=VDIR, capture_output=True, text=True, timeout=3600)
    # storing under /verif/seeded/<Cxx>-r<round>-<k>/ is done by tools/collect_seeds.py from the result files
print(json.dumps(res, indent=1))
