package main

import (
	"fmt"
	"go/ast"
	"go/token"
	"os"
	"path/filepath"
	"sort"
	"strconv"
	"strings"
)

// C15: logger/httpd.go (*Logger).Relay and httpd/store.go (*ResponseWriter).Write/WriteHeader.
//
// The function bodies are flattened to event lists (strings) by one small statement walker:
//
//	guard:Enabled:<level>      if <x>.Enabled(<Level>) {        … closed by "end"
//	if:Status==<n>             if <x>.Status == <n> {           … closed by "end"
//	if:<expr>                  any other if                     … closed by "end" ("else" in between)
//	recover / cond:<expr>      if err := recover(); a && b {    … closed by "end"
//	set:Status=<v>             <x>.Status = <v>
//	log:<level>:<k=v,...>      <x>.Handle(ctx, r) with the attrs added to r since slog.NewRecord
//	httpError:<code>           http.Error(store.W, …, code)
//	callHandler                store.I.HandlerFunc(store)
//	defer:end / defer:recover  defer func() {…}() (classified by REQ_END literal / recover() call)
//	WriteHeader:<v> origin.WriteHeader:<v> origin.Write
//	call:<expr> / stmt:<kind>  anything else that is not a plain assignment or declaration
//
// plus the handful of parameters the model interprets (levels, guards, codes, statement order).

var relayHTTPConsts = map[string]int64{"StatusOK": 200, "StatusInternalServerError": 500, "StatusNotFound": 404}

type relayWalker struct {
	levels map[string]int64
	ev     []string
	// record under construction
	recLevel string
	recAttrs []string
	logAttrs [][]string      // attrs of each emitted log event, in order
	asserted map[string]bool // variables bound by `x, ok := w.Origin.(T)` in an if header
	// deferred function literals in order of appearance
	deferred map[string]*ast.FuncLit
}

func relayExprStr(e ast.Expr) string {
	switch x := e.(type) {
	case nil:
		return ""
	case *ast.Ident:
		return x.Name
	case *ast.BasicLit:
		return x.Value
	case *ast.SelectorExpr:
		return relayExprStr(x.X) + "." + x.Sel.Name
	case *ast.ParenExpr:
		return "(" + relayExprStr(x.X) + ")"
	case *ast.StarExpr:
		return "*" + relayExprStr(x.X)
	case *ast.UnaryExpr:
		return x.Op.String() + relayExprStr(x.X)
	case *ast.BinaryExpr:
		return relayExprStr(x.X) + x.Op.String() + relayExprStr(x.Y)
	case *ast.CallExpr:
		args := make([]string, len(x.Args))
		for i, a := range x.Args {
			args[i] = relayExprStr(a)
		}
		return relayExprStr(x.Fun) + "(" + strings.Join(args, ",") + ")"
	case *ast.CompositeLit:
		args := make([]string, len(x.Elts))
		for i, a := range x.Elts {
			args[i] = relayExprStr(a)
		}
		return relayExprStr(x.Type) + "{" + strings.Join(args, ",") + "}"
	case *ast.FuncLit:
		return "func"
	case *ast.IndexExpr:
		return relayExprStr(x.X) + "[" + relayExprStr(x.Index) + "]"
	case *ast.SliceExpr:
		return relayExprStr(x.X) + "[:]"
	case *ast.TypeAssertExpr:
		return relayExprStr(x.X) + ".(" + relayExprStr(x.Type) + ")"
	case *ast.InterfaceType:
		var ms []string
		if x.Methods != nil {
			for _, f := range x.Methods.List {
				for _, n := range f.Names {
					ms = append(ms, n.Name)
				}
			}
		}
		return "interface{" + strings.Join(ms, ",") + "}"
	}
	return fmt.Sprintf("<%T>", e)
}

// intOf resolves integer literals, http.StatusX and LevelX.
func (w *relayWalker) intOf(e ast.Expr) (int64, bool) {
	if v, ok := evalInt(e); ok {
		return v, true
	}
	switch x := e.(type) {
	case *ast.SelectorExpr:
		if id, ok := x.X.(*ast.Ident); ok && id.Name == "http" {
			v, ok := relayHTTPConsts[x.Sel.Name]
			return v, ok
		}
	case *ast.Ident:
		v, ok := w.levels[x.Name]
		return v, ok
	}
	return 0, false
}

func (w *relayWalker) valStr(e ast.Expr) string {
	if v, ok := w.intOf(e); ok {
		return strconv.FormatInt(v, 10)
	}
	s := relayExprStr(e)
	if strings.HasSuffix(s, ".Status") {
		return "Status"
	}
	return s
}

func relaySelName(e ast.Expr) string {
	if s, ok := e.(*ast.SelectorExpr); ok {
		return s.Sel.Name
	}
	return ""
}

func relaySplitAnd(e ast.Expr) []ast.Expr {
	if b, ok := e.(*ast.BinaryExpr); ok && b.Op == token.LAND {
		return append(relaySplitAnd(b.X), relaySplitAnd(b.Y)...)
	}
	return []ast.Expr{e}
}

func relayContainsCall(n ast.Node, name string) bool {
	found := false
	ast.Inspect(n, func(m ast.Node) bool {
		if c, ok := m.(*ast.CallExpr); ok {
			if id, ok := c.Fun.(*ast.Ident); ok && id.Name == name {
				found = true
			}
		}
		return !found
	})
	return found
}

func relayContainsString(n ast.Node, lit string) bool {
	found := false
	ast.Inspect(n, func(m ast.Node) bool {
		if b, ok := m.(*ast.BasicLit); ok && b.Kind == token.STRING && b.Value == strconv.Quote(lit) {
			found = true
		}
		return !found
	})
	return found
}

func (w *relayWalker) emit(format string, a ...any) { w.ev = append(w.ev, fmt.Sprintf(format, a...)) }

func (w *relayWalker) ifStmt(s *ast.IfStmt) {
	if as, ok := s.Init.(*ast.AssignStmt); ok && len(as.Rhs) == 1 {
		if c, ok := as.Rhs[0].(*ast.CallExpr); ok {
			if id, ok := c.Fun.(*ast.Ident); ok && id.Name == "recover" && len(c.Args) == 0 {
				w.emit("recover")
				for _, c := range relaySplitAnd(s.Cond) {
					w.emit("cond:%s", relayExprStr(c))
				}
				w.block(s.Body.List)
				w.elseOf(s)
				w.emit("end")
				return
			}
		}
	}
	if as, ok := s.Init.(*ast.AssignStmt); ok && len(as.Rhs) == 1 && len(as.Lhs) == 2 {
		// if x, ok := w.Origin.(T); ok { … }
		if ta, ok := as.Rhs[0].(*ast.TypeAssertExpr); ok && relayExprStr(s.Cond) == relayExprStr(as.Lhs[1]) && relaySelName(ta.X) == "Origin" {
			if w.asserted == nil {
				w.asserted = map[string]bool{}
			}
			w.asserted[relayExprStr(as.Lhs[0])] = true
			w.emit("if:isa:%s", relayExprStr(ta.Type))
			w.block(s.Body.List)
			w.elseOf(s)
			w.emit("end")
			return
		}
	}
	if s.Init != nil {
		w.stmt(s.Init)
	}
	if c, ok := s.Cond.(*ast.CallExpr); ok && relaySelName(c.Fun) == "Enabled" && len(c.Args) == 1 {
		if v, ok := w.intOf(c.Args[0]); ok {
			w.emit("guard:Enabled:%d", v)
		} else {
			w.emit("guard:Enabled:%s", relayExprStr(c.Args[0]))
		}
	} else if b, ok := s.Cond.(*ast.BinaryExpr); ok && b.Op == token.EQL && relaySelName(b.X) == "Status" {
		w.emit("if:Status==%s", w.valStr(b.Y))
	} else {
		w.emit("if:%s", relayExprStr(s.Cond))
	}
	w.block(s.Body.List)
	w.elseOf(s)
	w.emit("end")
}

func (w *relayWalker) elseOf(s *ast.IfStmt) {
	switch e := s.Else.(type) {
	case *ast.BlockStmt:
		w.emit("else")
		w.block(e.List)
	case *ast.IfStmt:
		w.emit("else")
		w.ifStmt(e)
	}
}

func (w *relayWalker) call(c *ast.CallExpr) {
	fun := relayExprStr(c.Fun)
	switch {
	case relaySelName(c.Fun) == "Handle" && len(c.Args) == 2:
		tag := ""
		for _, a := range w.recAttrs {
			if strings.HasPrefix(a, "tag=") {
				tag = a[4:]
			}
		}
		w.emit("log:%s:%s", w.recLevel, tag)
		w.logAttrs = append(w.logAttrs, w.recAttrs)
		w.recLevel, w.recAttrs = "", nil
	case relaySelName(c.Fun) == "AddAttrs":
		for _, a := range c.Args {
			ac, ok := a.(*ast.CallExpr)
			if !ok || len(ac.Args) != 2 {
				w.recAttrs = append(w.recAttrs, "?"+relayExprStr(a))
				continue
			}
			key, _ := evalString(ac.Args[0], nil)
			val := w.valStr(ac.Args[1])
			if key == "tag" {
				// "REQ_BEG" or AnsiString{colour, "REQ_END"}
				val = "?"
				ast.Inspect(ac.Args[1], func(m ast.Node) bool {
					if b, ok := m.(*ast.BasicLit); ok && b.Kind == token.STRING {
						val, _ = strconv.Unquote(b.Value)
					}
					return true
				})
			}
			w.recAttrs = append(w.recAttrs, key+"="+val)
		}
	case fun == "http.Error" && len(c.Args) == 3:
		w.emit("httpError:%s", w.valStr(c.Args[2]))
	case fun == "store.I.HandlerFunc":
		w.emit("callHandler")
	case strings.HasSuffix(fun, ".Origin.WriteHeader") && len(c.Args) == 1:
		w.emit("origin.WriteHeader:%s", w.valStr(c.Args[0]))
	case strings.HasSuffix(fun, ".Origin.Write"):
		w.emit("origin.Write")
	case relaySelName(c.Fun) == "WriteHeader" && len(c.Args) == 1:
		w.emit("WriteHeader:%s", w.valStr(c.Args[0]))
	case relaySelName(c.Fun) == "markFlushed" && len(c.Args) == 0:
		w.emit("markFlushed")
	case (relaySelName(c.Fun) == "Flush" || relaySelName(c.Fun) == "FlushError") && len(c.Args) == 0 &&
		w.asserted[relayExprStr(c.Fun.(*ast.SelectorExpr).X)]:
		w.emit("origin.%s", relaySelName(c.Fun))
	default:
		w.emit("call:%s", fun)
	}
}

func (w *relayWalker) stmt(s ast.Stmt) {
	switch x := s.(type) {
	case *ast.IfStmt:
		w.ifStmt(x)
	case *ast.AssignStmt:
		if len(x.Lhs) == 1 && relaySelName(x.Lhs[0]) == "Status" && len(x.Rhs) == 1 {
			w.emit("set:Status=%s", w.valStr(x.Rhs[0]))
			return
		}
		// r := slog.NewRecord(t, LEVEL, msg, pc) starts a record; other assignments carry no event
		for _, r := range x.Rhs {
			if c, ok := r.(*ast.CallExpr); ok {
				if relayExprStr(c.Fun) == "slog.NewRecord" && len(c.Args) == 4 {
					w.recLevel, w.recAttrs = w.valStr(c.Args[1]), nil
				} else if relayContainsCall(c, "recover") {
					w.emit("recover-outside-if")
				} else if relayExprStr(c.Fun) == "store.I.HandlerFunc" {
					w.emit("callHandler")
				}
			}
		}
	case *ast.ExprStmt:
		if c, ok := x.X.(*ast.CallExpr); ok {
			w.call(c)
		} else {
			w.emit("stmt:expr")
		}
	case *ast.ReturnStmt:
		for _, r := range x.Results {
			if c, ok := r.(*ast.CallExpr); ok {
				w.call(c)
			}
		}
	case *ast.DeferStmt:
		fl, ok := x.Call.Fun.(*ast.FuncLit)
		if !ok {
			w.emit("defer:%s", relayExprStr(x.Call.Fun))
			return
		}
		kind := "other"
		switch {
		case relayContainsCall(fl.Body, "recover"):
			kind = "recover"
		case relayContainsString(fl.Body, "REQ_END"):
			kind = "end"
		}
		if _, dup := w.deferred[kind]; dup {
			kind += "-dup"
		}
		w.deferred[kind] = fl
		w.emit("defer:%s", kind)
	case *ast.DeclStmt, *ast.EmptyStmt:
	case *ast.BlockStmt:
		w.block(x.List)
	case *ast.GoStmt:
		w.emit("stmt:go")
	default:
		w.emit("stmt:%T", s)
	}
}

func (w *relayWalker) block(l []ast.Stmt) {
	for _, s := range l {
		w.stmt(s)
	}
}

func relayLeanStrList(l []string) string {
	q := make([]string, len(l))
	for i, s := range l {
		q[i] = strconv.Quote(s)
	}
	return "[" + strings.Join(q, ", ") + "]"
}

func relayLeanOptPair(ok bool, a, b int64) string {
	if !ok {
		return "none"
	}
	return fmt.Sprintf("some (%d, %d)", a, b)
}

// relayEnclosing returns the if/guard events that are open at position i of the event list.
func relayEnclosing(ev []string, i int) []string {
	var st []string
	for j := 0; j < i; j++ {
		e := ev[j]
		switch {
		case e == "end":
			if len(st) > 0 {
				st = st[:len(st)-1]
			}
		case e == "else":
			if len(st) > 0 {
				st[len(st)-1] = "not:" + st[len(st)-1]
			}
		case strings.HasPrefix(e, "guard:") || strings.HasPrefix(e, "if:") || e == "recover":
			st = append(st, e)
		}
	}
	return st
}

func relayIndexPrefix(ev []string, prefix string) int {
	for i, e := range ev {
		if strings.HasPrefix(e, prefix) {
			return i
		}
	}
	return -1
}

func relayAtoiSuffix(s, prefix string) (int64, bool) {
	if !strings.HasPrefix(s, prefix) {
		return 0, false
	}
	v, err := strconv.ParseInt(s[len(prefix):], 10, 64)
	return v, err == nil
}

// relayGuardLevel: the level of the innermost Enabled guard around event i (ok=false when unguarded).
func relayGuardLevel(ev []string, i int) (int64, bool) {
	enc := relayEnclosing(ev, i)
	for k := len(enc) - 1; k >= 0; k-- {
		if v, ok := relayAtoiSuffix(enc[k], "guard:Enabled:"); ok {
			return v, true
		}
	}
	return 0, false
}

func relayStatusGuard(ev []string, i int) (int64, bool) {
	enc := relayEnclosing(ev, i)
	for k := len(enc) - 1; k >= 0; k-- {
		if v, ok := relayAtoiSuffix(enc[k], "if:Status=="); ok {
			return v, true
		}
	}
	return 0, false
}

// relayMethodSet lists the methods declared with receiver T or *T in the non-test Go files of a
// package directory (store.go first, then the other files in name order), and T's fields.
func relayMethodSet(dir, typ string) (methods, embedded, fields []string) {
	entries, err := os.ReadDir(filepath.Join(repo, dir))
	if err != nil {
		die("read %s: %v", dir, err)
	}
	var files []string
	for _, e := range entries {
		n := e.Name()
		if e.IsDir() || !strings.HasSuffix(n, ".go") || strings.HasSuffix(n, "_test.go") {
			continue
		}
		files = append(files, n)
	}
	sort.SliceStable(files, func(i, j int) bool {
		if (files[i] == "store.go") != (files[j] == "store.go") {
			return files[i] == "store.go"
		}
		return files[i] < files[j]
	})
	for _, n := range files {
		f := parseFile(filepath.Join(dir, n))
		for _, d := range f.Decls {
			switch x := d.(type) {
			case *ast.FuncDecl:
				if x.Recv == nil || len(x.Recv.List) != 1 {
					continue
				}
				t := x.Recv.List[0].Type
				if st, ok := t.(*ast.StarExpr); ok {
					t = st.X
				}
				if id, ok := t.(*ast.Ident); ok && id.Name == typ {
					methods = append(methods, x.Name.Name)
				}
			case *ast.GenDecl:
				for _, sp := range x.Specs {
					ts, ok := sp.(*ast.TypeSpec)
					if !ok || ts.Name.Name != typ {
						continue
					}
					st, ok := ts.Type.(*ast.StructType)
					if !ok {
						fields = append(fields, "not-a-struct:"+relayExprStr(ts.Type))
						continue
					}
					for _, fl := range st.Fields.List {
						if len(fl.Names) == 0 {
							embedded = append(embedded, relayExprStr(fl.Type))
						}
						for _, nm := range fl.Names {
							fields = append(fields, nm.Name+" "+relayExprStr(fl.Type))
						}
					}
				}
			}
		}
	}
	return
}

func extractRelay() {
	const src = "logger/httpd.go"
	lf := parseFile("logger/level.go")
	levels := map[string]int64{}
	for _, name := range []string{"LevelDebug", "LevelInfo", "LevelWarn", "LevelError", "LevelFatal"} {
		v, ok := evalInt(findValue(lf, name))
		if !ok {
			die("%s is not an integer constant", name)
		}
		levels[name] = v
	}
	f := parseFile(src)
	fd := findFunc(f, "Logger", "Relay")
	if fd == nil {
		die("%s: (*Logger).Relay not found", src)
	}
	walk := func(stmts []ast.Stmt) (*relayWalker, []string) {
		w := &relayWalker{levels: levels, deferred: map[string]*ast.FuncLit{}}
		w.block(stmts)
		return w, w.ev
	}
	firstAttrs := func(w *relayWalker) []string {
		if w != nil && len(w.logAttrs) > 0 {
			return w.logAttrs[0]
		}
		return nil
	}
	top, body := walk(fd.Body.List)
	var endEv, recEv []string
	var endW, recW *relayWalker
	if fl := top.deferred["end"]; fl != nil {
		endW, endEv = walk(fl.Body.List)
	}
	if fl := top.deferred["recover"]; fl != nil {
		recW, recEv = walk(fl.Body.List)
		// recover() only stops a panic when the deferred function itself calls it
		for _, s := range fl.Body.List {
			ast.Inspect(s, func(n ast.Node) bool {
				if inner, ok := n.(*ast.FuncLit); ok && relayContainsCall(inner, "recover") {
					recEv = append(recEv, "recover-in-nested-func")
				}
				return true
			})
		}
	}

	// statement order the model interprets
	var order []string
	for i, e := range body {
		switch {
		case strings.HasPrefix(e, "log:") && strings.HasSuffix(e, ":REQ_BEG"):
			order = append(order, "logBeg")
		case e == "defer:end":
			order = append(order, "deferEnd")
		case e == "defer:recover":
			order = append(order, "deferRecover")
		case e == "callHandler":
			if len(relayEnclosing(body, i)) > 0 {
				order = append(order, "callHandler-conditional")
			} else {
				order = append(order, "callHandler")
			}
		case strings.HasPrefix(e, "guard:"), strings.HasPrefix(e, "if:"), e == "end", e == "else":
		default:
			order = append(order, "other:"+e)
		}
	}

	l := newLean("Relay", "logger/httpd.go, httpd/store.go, logger/level.go")
	l.printf("/-- top-level statements of `(*Logger).Relay`, in source order -/\n")
	l.printf("def relayEvents : List String := %s\n\n", relayLeanStrList(body))
	l.printf("/-- the first deferred function (REQ_END) -/\n")
	l.printf("def relayEndEvents : List String := %s\n\n", relayLeanStrList(endEv))
	l.printf("/-- the second deferred function (recover) -/\n")
	l.printf("def relayRecoverEvents : List String := %s\n\n", relayLeanStrList(recEv))
	l.printf("/-- statement order interpreted by `Glb.Relay.relay` -/\n")
	l.printf("def relayBody : List String := %s\n\n", relayLeanStrList(order))

	has := func(ev []string, s string) bool {
		for _, e := range ev {
			if e == s {
				return true
			}
		}
		return false
	}
	l.printf("/-- attributes (key=expression) of the REQ_BEG, REQ_END and Error records -/\n")
	l.printf("def relayBegAttrs : List String := %s\n", relayLeanStrList(firstAttrs(top)))
	l.printf("def relayEndAttrs : List String := %s\n", relayLeanStrList(firstAttrs(endW)))
	l.printf("def relayErrAttrs : List String := %s\n\n", relayLeanStrList(firstAttrs(recW)))

	// parameters
	begLevel, begGuarded := int64(0), false
	if i := relayIndexPrefix(body, "log:"); i >= 0 && strings.HasSuffix(body[i], ":REQ_BEG") {
		begLevel, begGuarded = relayGuardLevel(body, i)
	}
	endLevel, endGuarded := int64(0), false
	endLogsStatus := false
	endDefA, endDefB, endDef := int64(0), int64(0), false
	if i := relayIndexPrefix(endEv, "log:"); i >= 0 {
		endLevel, endGuarded = relayGuardLevel(endEv, i)
		endLogsStatus = strings.HasSuffix(endEv[i], ":REQ_END") && has(firstAttrs(endW), "code=Status")
		if j := relayIndexPrefix(endEv, "set:Status="); j >= 0 && j < i {
			if b, ok := relayAtoiSuffix(endEv[j], "set:Status="); ok {
				if a, ok := relayStatusGuard(endEv, j); ok {
					endDefA, endDefB, endDef = a, b, true
				}
			}
		}
	}
	errLevel, errGuarded := int64(0), false
	errHasValueAndID := false
	if i := relayIndexPrefix(recEv, "log:"); i >= 0 {
		errLevel, errGuarded = relayGuardLevel(recEv, i)
		errHasValueAndID = has(firstAttrs(recW), "panic=err") && has(firstAttrs(recW), "tid=store.GetID()")
	}
	code500, has500 := int64(0), false
	g500, guarded500 := int64(0), false
	if i := relayIndexPrefix(recEv, "httpError:"); i >= 0 {
		code500, has500 = relayAtoiSuffix(recEv[i], "httpError:")
		g500, guarded500 = relayStatusGuard(recEv, i)
	}
	lvl := func(v int64, ok bool) string {
		if !ok {
			return "none"
		}
		return fmt.Sprintf("some %d", v)
	}
	l.printf("/-- `Enabled` guards of the three records (`none` = unguarded) -/\n")
	l.printf("def relayBegLevel : Option Nat := %s\n", lvl(begLevel, begGuarded))
	l.printf("def relayEndLevel : Option Nat := %s\n", lvl(endLevel, endGuarded))
	l.printf("def relayErrLevel : Option Nat := %s\n", lvl(errLevel, errGuarded))
	l.printf("/-- REQ_END: `if Status == a { Status = b }` before the record, which logs `code = Status` -/\n")
	l.printf("def relayEndDefault : Option (Nat × Nat) := %s\n", relayLeanOptPair(endDef, endDefA, endDefB))
	l.printf("def relayEndLogsStatus : Bool := %v\n", endLogsStatus)
	l.printf("/-- recover: `err != nil && err != http.ErrAbortHandler` -/\n")
	l.printf("def relayRecovers : Bool := %v\n", has(recEv, "recover"))
	l.printf("def relayNilExcluded : Bool := %v\n", has(recEv, "cond:err!=nil"))
	l.printf("def relayAbortExcluded : Bool := %v\n", has(recEv, "cond:err!=http.ErrAbortHandler"))
	l.printf("def relayErrHasValueAndID : Bool := %v\n", errHasValueAndID)
	l.printf("/-- `http.Error(store.W, …, code)` under `if Status == g` (`none` = unguarded) -/\n")
	l.printf("def relay500Code : Option Nat := %s\n", lvl(code500, has500))
	l.printf("def relay500Guard : Option Nat := %s\n\n", lvl(g500, guarded500))

	// httpd/store.go
	sf := parseFile("httpd/store.go")
	wf := findFunc(sf, "ResponseWriter", "Write")
	whf := findFunc(sf, "ResponseWriter", "WriteHeader")
	if wf == nil || whf == nil {
		die("httpd/store.go: ResponseWriter.Write/WriteHeader not found")
	}
	_, wEv := walk(wf.Body.List)
	_, whEv := walk(whf.Body.List)
	l.printf("/-- `(*ResponseWriter).Write` and `WriteHeader` -/\n")
	l.printf("def storeWriteEvents : List String := %s\n", relayLeanStrList(wEv))
	l.printf("def storeWriteHeaderEvents : List String := %s\n", relayLeanStrList(whEv))
	impA, impB, imp := int64(0), int64(0), false
	if i := relayIndexPrefix(wEv, "WriteHeader:"); i >= 0 {
		if b, ok := relayAtoiSuffix(wEv[i], "WriteHeader:"); ok {
			if a, ok := relayStatusGuard(wEv, i); ok {
				if j := relayIndexPrefix(wEv, "origin.Write"); j > i {
					impA, impB, imp = a, b, true
				}
			}
		}
	}
	l.printf("/-- `Write`: `if Status == a { WriteHeader(b) }` before `Origin.Write` -/\n")
	l.printf("def storeWriteImplicit : Option (Nat × Nat) := %s\n", relayLeanOptPair(imp, impA, impB))
	records := relayIndexPrefix(whEv, "set:Status=code") >= 0 && relayIndexPrefix(whEv, "origin.WriteHeader:code") >= 0
	l.printf("/-- `WriteHeader(code)`: forwards to the origin and records `Status = code` -/\n")
	l.printf("def storeWriteHeaderRecords : Bool := %v\n", records)

	// Flush / FlushError: the implicit 200 net/http sends on a flush must be recorded first
	var mfEv []string
	if mf := findFunc(sf, "ResponseWriter", "markFlushed"); mf != nil {
		_, mfEv = walk(mf.Body.List)
	}
	inline := func(ev []string) []string {
		var out []string
		for _, e := range ev {
			if e == "markFlushed" {
				out = append(out, mfEv...)
			} else {
				out = append(out, e)
			}
		}
		return out
	}
	// flushImplicit: every origin flush of the function is preceded, in its own branch, by
	// `if Status == a { WriteHeader(b) }` (the same a, b everywhere)
	flushA, flushB, flushOK := int64(0), int64(0), true
	nFlush := 0
	var flushEvs [][]string
	for _, name := range []string{"Flush", "FlushError"} {
		fn := findFunc(sf, "ResponseWriter", name)
		if fn == nil {
			die("httpd/store.go: ResponseWriter.%s not found", name)
		}
		_, ev := walk(fn.Body.List)
		flushEvs = append(flushEvs, ev)
		full := inline(ev)
		for i, e := range full {
			if e != "origin.Flush" && e != "origin.FlushError" {
				continue
			}
			nFlush++
			encI := strings.Join(relayEnclosing(full, i), "|")
			found := false
			for j := 0; j < i; j++ {
				b, ok := relayAtoiSuffix(full[j], "WriteHeader:")
				if !ok {
					continue
				}
				a, ok := relayStatusGuard(full, j)
				if !ok {
					continue
				}
				encJ := relayEnclosing(full, j)
				if len(encJ) > 0 && strings.Join(encJ[:len(encJ)-1], "|") == encI && encJ[len(encJ)-1] == fmt.Sprintf("if:Status==%d", a) {
					if nFlush > 1 && (a != flushA || b != flushB) {
						flushOK = false
					}
					flushA, flushB, found = a, b, true
				}
			}
			if !found {
				flushOK = false
			}
		}
	}
	l.printf("\n/-- `(*ResponseWriter).Flush`, `FlushError` and `markFlushed` -/\n")
	l.printf("def storeFlushEvents : List String := %s\n", relayLeanStrList(flushEvs[0]))
	l.printf("def storeFlushErrorEvents : List String := %s\n", relayLeanStrList(flushEvs[1]))
	l.printf("def storeMarkFlushedEvents : List String := %s\n", relayLeanStrList(mfEv))
	l.printf("/-- every flush of the origin is preceded in its branch by `if Status == a { WriteHeader(b) }` -/\n")
	l.printf("def storeFlushImplicit : Option (Nat × Nat) := %s\n", relayLeanOptPair(flushOK && nFlush > 0, flushA, flushB))

	// the complete method set of ResponseWriter over all non-test files of package httpd, and its
	// fields (an embedded field would promote further methods)
	methods, embedded, fields := relayMethodSet("httpd", "ResponseWriter")
	sorted := append([]string{}, methods...)
	sort.Strings(sorted)
	l.printf("\n/-- every method declared on `ResponseWriter` / `*ResponseWriter` in package httpd (source order,\n    and sorted), its struct fields, and its embedded fields -/\n")
	l.printf("def storeRWMethods : List String := %s\n", relayLeanStrList(methods))
	l.printf("def storeRWMethodsSorted : List String := %s\n", relayLeanStrList(sorted))
	l.printf("def storeRWFields : List String := %s\n", relayLeanStrList(fields))
	l.printf("def storeRWEmbedded : List String := %s\n", relayLeanStrList(embedded))
	l.write()
	facts["relay.storeRWMethods"] = methods
	facts["relay.storeRWFields"] = fields
	facts["relay.storeRWEmbedded"] = embedded

	facts["relay.events"] = body
	facts["relay.endEvents"] = endEv
	facts["relay.recoverEvents"] = recEv
	facts["relay.body"] = order
	facts["relay.attrs"] = [][]string{firstAttrs(top), firstAttrs(endW), firstAttrs(recW)}
	facts["relay.storeWrite"] = wEv
	facts["relay.storeWriteHeader"] = whEv
	facts["relay.storeFlush"] = flushEvs
	facts["relay.storeMarkFlushed"] = mfEv
}
