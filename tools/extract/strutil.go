package main

import (
	"go/ast"
	"go/token"
)

// util/strutil/strutil.go (C16): the literals of
//
//	func ShellEscape(s string) string { return "'" + strings.Replace(s, "'", `'"'"'`, -1) + "'" }
//	func ShellEscapeExceptTilde(s string) string {
//		if strings.HasPrefix(s, "~/") { return "~/" + ShellEscape(s[2:]) }
//		return ShellEscape(s)
//	}
//
// Only this shape is recognised (strings.ReplaceAll(s, old, new) is accepted as count -1).
// Anything else stops the extraction: the model in Glb/Model/Strutil.lean is written for
// exactly this shape and must be revisited by a human when the shape changes.
func extractStrutil() {
	const src = "util/strutil/strutil.go"
	f := parseFile(src)
	l := newLean("Strutil", src)
	bad := func(fn, what string) { die("%s: %s: unrecognised shape: %s", src, fn, what) }

	paramName := func(fd *ast.FuncDecl) string {
		if fd == nil {
			return ""
		}
		ps := fd.Type.Params.List
		if len(ps) != 1 || len(ps[0].Names) != 1 {
			return ""
		}
		return ps[0].Names[0].Name
	}
	isIdent := func(e ast.Expr, name string) bool {
		id, ok := e.(*ast.Ident)
		return ok && id.Name == name
	}
	// pkgCall matches pkg.fn(args...) and returns the arguments.
	pkgCall := func(e ast.Expr, pkg, fn string) ([]ast.Expr, bool) {
		c, ok := e.(*ast.CallExpr)
		if !ok {
			return nil, false
		}
		sel, ok := c.Fun.(*ast.SelectorExpr)
		if !ok || !isIdent(sel.X, pkg) || sel.Sel.Name != fn {
			return nil, false
		}
		return c.Args, true
	}
	strLit := func(e ast.Expr) (string, bool) {
		if _, ok := e.(*ast.BasicLit); !ok {
			return "", false
		}
		return evalString(e, nil)
	}
	intConst := func(e ast.Expr) (int64, bool) {
		if u, ok := e.(*ast.UnaryExpr); ok && u.Op == token.SUB {
			v, ok := evalInt(u.X)
			return -v, ok
		}
		return evalInt(e)
	}

	// ---- ShellEscape ----
	fd := findFunc(f, "", "ShellEscape")
	p := paramName(fd)
	if p == "" || fd.Body == nil || len(fd.Body.List) != 1 {
		bad("ShellEscape", "want one string parameter and a body of a single return statement")
	}
	ret, ok := fd.Body.List[0].(*ast.ReturnStmt)
	if !ok || len(ret.Results) != 1 {
		bad("ShellEscape", "body is not `return <expr>`")
	}
	outer, ok := ret.Results[0].(*ast.BinaryExpr) // (prefix + call) + suffix
	if !ok || outer.Op != token.ADD {
		bad("ShellEscape", "result is not prefix + strings.Replace(...) + suffix")
	}
	inner, ok := outer.X.(*ast.BinaryExpr)
	if !ok || inner.Op != token.ADD {
		bad("ShellEscape", "result is not prefix + strings.Replace(...) + suffix")
	}
	prefix, ok1 := strLit(inner.X)
	suffix, ok2 := strLit(outer.Y)
	if !ok1 || !ok2 {
		bad("ShellEscape", "prefix/suffix are not string literals")
	}
	var args []ast.Expr
	count := int64(-1)
	if a, ok := pkgCall(inner.Y, "strings", "Replace"); ok && len(a) == 4 {
		args = a
		c, ok := intConst(a[3])
		if !ok {
			bad("ShellEscape", "count argument of strings.Replace is not an integer constant")
		}
		count = c
	} else if a, ok := pkgCall(inner.Y, "strings", "ReplaceAll"); ok && len(a) == 3 {
		args = a
	} else {
		bad("ShellEscape", "middle operand is not strings.Replace(s, old, new, n) / strings.ReplaceAll(s, old, new)")
	}
	if !isIdent(args[0], p) {
		bad("ShellEscape", "first argument of strings.Replace is not the parameter "+p)
	}
	old, ok1 := strLit(args[1])
	repl, ok2 := strLit(args[2])
	if !ok1 || !ok2 {
		bad("ShellEscape", "old/new arguments of strings.Replace are not string literals")
	}

	// ---- ShellEscapeExceptTilde ----
	fd = findFunc(f, "", "ShellEscapeExceptTilde")
	p = paramName(fd)
	if p == "" || fd.Body == nil || len(fd.Body.List) != 2 {
		bad("ShellEscapeExceptTilde", "want one string parameter and a body `if …{return …}; return …`")
	}
	ifs, ok := fd.Body.List[0].(*ast.IfStmt)
	if !ok || ifs.Init != nil || ifs.Else != nil || len(ifs.Body.List) != 1 {
		bad("ShellEscapeExceptTilde", "first statement is not a plain if with a single statement")
	}
	hp, ok := pkgCall(ifs.Cond, "strings", "HasPrefix")
	if !ok || len(hp) != 2 || !isIdent(hp[0], p) {
		bad("ShellEscapeExceptTilde", "condition is not strings.HasPrefix("+p+", <literal>)")
	}
	tildePrefix, ok := strLit(hp[1])
	if !ok {
		bad("ShellEscapeExceptTilde", "HasPrefix argument is not a string literal")
	}
	ret, ok = ifs.Body.List[0].(*ast.ReturnStmt)
	if !ok || len(ret.Results) != 1 {
		bad("ShellEscapeExceptTilde", "if body is not `return <expr>`")
	}
	cat, ok := ret.Results[0].(*ast.BinaryExpr)
	if !ok || cat.Op != token.ADD {
		bad("ShellEscapeExceptTilde", "if body does not return <literal> + ShellEscape(s[n:])")
	}
	tildeKeep, ok := strLit(cat.X)
	if !ok {
		bad("ShellEscapeExceptTilde", "prepended operand is not a string literal")
	}
	call, ok := cat.Y.(*ast.CallExpr)
	if !ok || !isIdent(call.Fun, "ShellEscape") || len(call.Args) != 1 {
		bad("ShellEscapeExceptTilde", "second operand is not ShellEscape(…)")
	}
	sl, ok := call.Args[0].(*ast.SliceExpr)
	if !ok || !isIdent(sl.X, p) || sl.High != nil || sl.Max != nil || sl.Slice3 || sl.Low == nil {
		bad("ShellEscapeExceptTilde", "argument is not "+p+"[n:]")
	}
	off, ok := evalInt(sl.Low)
	if !ok || off < 0 {
		bad("ShellEscapeExceptTilde", "slice offset is not a non-negative integer constant")
	}
	ret, ok = fd.Body.List[1].(*ast.ReturnStmt)
	if !ok || len(ret.Results) != 1 {
		bad("ShellEscapeExceptTilde", "last statement is not `return ShellEscape(s)`")
	}
	call, ok = ret.Results[0].(*ast.CallExpr)
	if !ok || !isIdent(call.Fun, "ShellEscape") || len(call.Args) != 1 || !isIdent(call.Args[0], p) {
		bad("ShellEscapeExceptTilde", "last statement is not `return ShellEscape("+p+")`")
	}

	l.printf("/-- ShellEscape: prefix + strings.Replace(s, old, new, count) + suffix -/\n")
	l.printf("def shellEscapePrefix : List UInt8 := %s\n", leanBytes(prefix))
	l.printf("def shellEscapeOld : List UInt8 := %s\n", leanBytes(old))
	l.printf("def shellEscapeNew : List UInt8 := %s\n", leanBytes(repl))
	l.printf("def shellEscapeCount : Int := %d\n", count)
	l.printf("def shellEscapeSuffix : List UInt8 := %s\n\n", leanBytes(suffix))
	l.printf("/-- ShellEscapeExceptTilde: if HasPrefix(s, tildePrefix) { return tildeKeep + ShellEscape(s[tildeSliceLow:]) } -/\n")
	l.printf("def tildePrefix : List UInt8 := %s\n", leanBytes(tildePrefix))
	l.printf("def tildeKeep : List UInt8 := %s\n", leanBytes(tildeKeep))
	l.printf("def tildeSliceLow : Nat := %d\n", off)
	l.write()

	facts["strutil.shellEscape.prefix"] = prefix
	facts["strutil.shellEscape.old"] = old
	facts["strutil.shellEscape.new"] = repl
	facts["strutil.shellEscape.count"] = count
	facts["strutil.shellEscape.suffix"] = suffix
	facts["strutil.tilde.hasPrefix"] = tildePrefix
	facts["strutil.tilde.keep"] = tildeKeep
	facts["strutil.tilde.sliceLow"] = off
}
