package main

import (
	"go/ast"
	"go/types"
	"strings"
)

// C02 — ordering / locking facts of the write path (logger/{json,text,nano}_handler.go,
// logger/logger.go, logger/buffer.go):
//
//   - per Handle: the protocol events in source order — newBuffer, deferFreeBuffer, lock,
//     deferUnlock, unlock, write:<arg>, otherWrite:<expr> — and whether lock / write sit at the
//     top level of the function body (not under an if / for / closure);
//   - Logger.log / logf / logAttrs: the first statement is `if !l.h.Enabled(level) { return nil }`;
//   - freeBuffer: condition, guarded statements, anything else; bufferPool.New: the fresh
//     buffer's length expression;
//   - NewXHandler allocates the mutex (`outMu: &sync.Mutex{}`); clone() copies the pointer
//     (`outMu: h.outMu`) and the writer (`out: h.out`).
//
// Predicates over these are proved by `decide` in lean/Glb/Tie/LoggerHandle.lean.

const loggerHandleHeader = `/-- the write path of one ` + "`Handle`" + ` method -/
structure HandleFact where
  handler : String
  events : List String        -- protocol events in source order
  lockTopLevel : Bool         -- ` + "`h.outMu.Lock()`" + ` is a statement of the function body itself
  writeTopLevel : Bool        -- so is the statement containing ` + "`h.out.Write(...)`" + `
  newAllocatesMutex : Bool    -- constructor: ` + "`outMu: &sync.Mutex{}`" + `
  cloneCopiesOutMu : Bool     -- clone(): ` + "`outMu: h.outMu`" + `
  cloneCopiesOut : Bool       -- clone(): ` + "`out: h.out`" + `
  deriving Repr, DecidableEq

`

type lhHandleFact struct {
	Handler           string   `json:"handler"`
	Events            []string `json:"events"`
	LockTopLevel      bool     `json:"lockTopLevel"`
	WriteTopLevel     bool     `json:"writeTopLevel"`
	NewAllocatesMutex bool     `json:"newAllocatesMutex"`
	CloneCopiesOutMu  bool     `json:"cloneCopiesOutMu"`
	CloneCopiesOut    bool     `json:"cloneCopiesOut"`
}

func lhContainsNode(root ast.Node, pred func(ast.Node) bool) bool {
	found := false
	ast.Inspect(root, func(n ast.Node) bool {
		if n != nil && pred(n) {
			found = true
		}
		return !found
	})
	return found
}

func lhHandleFacts(f *ast.File, typ string) lhHandleFact {
	hf := lhHandleFact{Handler: typ}
	fd := findFunc(f, typ, "Handle")
	if fd == nil || fd.Body == nil {
		die("%s.Handle not found", typ)
	}
	recv := cloneRecvName(fd)
	isCall := func(n ast.Node, fun string) (*ast.CallExpr, bool) {
		c, ok := n.(*ast.CallExpr)
		if ok && types.ExprString(c.Fun) == fun {
			return c, true
		}
		return nil, false
	}
	deferred := map[*ast.CallExpr]bool{}
	ast.Inspect(fd.Body, func(n ast.Node) bool {
		switch x := n.(type) {
		case *ast.DeferStmt:
			deferred[x.Call] = true
		case *ast.CallExpr:
			fun := types.ExprString(x.Fun)
			switch {
			case fun == "newBuffer":
				hf.Events = append(hf.Events, "newBuffer")
			case fun == "freeBuffer" && deferred[x]:
				hf.Events = append(hf.Events, "deferFreeBuffer")
			case fun == "freeBuffer":
				hf.Events = append(hf.Events, "freeBuffer")
			case fun == recv+".outMu.Lock":
				hf.Events = append(hf.Events, "lock")
			case fun == recv+".outMu.Unlock" && deferred[x]:
				hf.Events = append(hf.Events, "deferUnlock")
			case fun == recv+".outMu.Unlock":
				hf.Events = append(hf.Events, "unlock")
			case fun == recv+".out.Write":
				arg := ""
				if len(x.Args) == 1 {
					arg = types.ExprString(x.Args[0])
				}
				hf.Events = append(hf.Events, "write:"+arg)
			case strings.HasSuffix(fun, ".Write") || strings.HasSuffix(fun, ".WriteString") || strings.HasPrefix(fun, "fmt.Fprint") || strings.HasPrefix(fun, "io."):
				hf.Events = append(hf.Events, "otherWrite:"+fun)
			default:
				// any other use of the writer (passing h.out somewhere) counts as a write as well
				for _, a := range x.Args {
					if types.ExprString(a) == recv+".out" {
						hf.Events = append(hf.Events, "otherWrite:"+fun)
					}
				}
			}
		}
		return true
	})
	for _, st := range fd.Body.List {
		if es, ok := st.(*ast.ExprStmt); ok {
			if _, ok := isCall(es.X, recv+".outMu.Lock"); ok {
				hf.LockTopLevel = true
			}
		}
		switch st.(type) {
		case *ast.ExprStmt, *ast.AssignStmt, *ast.ReturnStmt:
			if lhContainsNode(st, func(n ast.Node) bool { _, ok := isCall(n, recv+".out.Write"); return ok }) {
				hf.WriteTopLevel = true
			}
		}
	}
	// constructor
	ctor := findFunc(f, "", "New"+typ)
	if ctor != nil && ctor.Body != nil {
		ast.Inspect(ctor.Body, func(n ast.Node) bool {
			if kv, ok := n.(*ast.KeyValueExpr); ok && types.ExprString(kv.Key) == "outMu" {
				v := types.ExprString(kv.Value)
				if v == "&sync.Mutex{}" || v == "new(sync.Mutex)" {
					hf.NewAllocatesMutex = true
				}
			}
			return true
		})
	}
	cf := cloneFacts(f, typ)
	for _, v := range cf.Verbatim {
		if v == "outMu" {
			hf.CloneCopiesOutMu = true
		}
		if v == "out" {
			hf.CloneCopiesOut = true
		}
	}
	return hf
}

// lhGateFirst: the first statement of Logger.<name> is `if !l.h.Enabled(level) { return nil }`.
func lhGateFirst(f *ast.File, name string) bool {
	fd := findFunc(f, "Logger", name)
	if fd == nil || fd.Body == nil || len(fd.Body.List) == 0 {
		return false
	}
	recv := cloneRecvName(fd)
	is, ok := fd.Body.List[0].(*ast.IfStmt)
	if !ok || is.Init != nil || is.Else != nil || len(is.Body.List) != 1 {
		return false
	}
	if types.ExprString(is.Cond) != "!"+recv+".h.Enabled(level)" {
		return false
	}
	rs, ok := is.Body.List[0].(*ast.ReturnStmt)
	return ok && len(rs.Results) == 1 && types.ExprString(rs.Results[0]) == "nil"
}

func lhStmtString(st ast.Stmt) string {
	switch x := st.(type) {
	case *ast.AssignStmt:
		l := make([]string, len(x.Lhs))
		for i, e := range x.Lhs {
			l[i] = types.ExprString(e)
		}
		r := make([]string, len(x.Rhs))
		for i, e := range x.Rhs {
			r[i] = types.ExprString(e)
		}
		return strings.Join(l, ", ") + " " + x.Tok.String() + " " + strings.Join(r, ", ")
	case *ast.ExprStmt:
		return types.ExprString(x.X)
	case *ast.ReturnStmt:
		r := make([]string, len(x.Results))
		for i, e := range x.Results {
			r[i] = types.ExprString(e)
		}
		return strings.TrimSpace("return " + strings.Join(r, ", "))
	case *ast.IfStmt:
		return "if " + types.ExprString(x.Cond)
	}
	return "<stmt>"
}

func extractLoggerHandle() {
	l := newLean("LoggerHandle", "logger/{json_handler,text_handler,nano_handler,logger,buffer}.go")
	l.printf("namespace LoggerHandle\n\n%s", loggerHandleHeader)
	files := map[string]string{
		"JsonHandler": "logger/json_handler.go",
		"TextHandler": "logger/text_handler.go",
		"NanoHandler": "logger/nano_handler.go",
	}
	short := map[string]string{"JsonHandler": "json", "TextHandler": "text", "NanoHandler": "nano"}
	for _, typ := range []string{"JsonHandler", "TextHandler", "NanoHandler"} {
		hf := lhHandleFacts(parseFile(files[typ]), typ)
		l.printf("def %sHandle : HandleFact := {\n  handler := %s,\n  events := %s,\n  lockTopLevel := %v, writeTopLevel := %v,\n  newAllocatesMutex := %v, cloneCopiesOutMu := %v, cloneCopiesOut := %v }\n\n",
			short[typ], cloneLeanStr(hf.Handler), cloneLeanStrList(hf.Events), hf.LockTopLevel, hf.WriteTopLevel,
			hf.NewAllocatesMutex, hf.CloneCopiesOutMu, hf.CloneCopiesOut)
		facts["loggerHandle."+short[typ]+"Handle"] = hf
	}
	lf := parseFile("logger/logger.go")
	for _, name := range []string{"log", "logf", "logAttrs"} {
		g := lhGateFirst(lf, name)
		l.printf("/-- `Logger.%s` starts with `if !l.h.Enabled(level) { return nil }` -/\ndef %sGateFirst : Bool := %v\n\n", name, name, g)
		facts["loggerHandle."+name+"GateFirst"] = g
	}
	// Options.Enabled: `return l >= opts.level`
	hfile := parseFile("logger/handler.go")
	enabledBody := ""
	if fd := findFunc(hfile, "Options", "Enabled"); fd != nil && fd.Body != nil && len(fd.Body.List) == 1 {
		enabledBody = lhStmtString(fd.Body.List[0])
	}
	l.printf("def optionsEnabledBody : String := %s\n\n", cloneLeanStr(enabledBody))
	facts["loggerHandle.optionsEnabledBody"] = enabledBody

	bf := parseFile("logger/buffer.go")
	cond, thenS, other := "", []string{}, []string{}
	hasElse := false
	if fd := findFunc(bf, "", "freeBuffer"); fd != nil && fd.Body != nil {
		for i, st := range fd.Body.List {
			if is, ok := st.(*ast.IfStmt); ok && i == 0 && is.Init == nil {
				cond = types.ExprString(is.Cond)
				hasElse = is.Else != nil
				for _, t := range is.Body.List {
					thenS = append(thenS, lhStmtString(t))
				}
				continue
			}
			other = append(other, lhStmtString(st))
		}
	} else {
		die("freeBuffer not found")
	}
	l.printf("def freeBufferCond : String := %s\ndef freeBufferThen : List String := %s\ndef freeBufferHasElse : Bool := %v\ndef freeBufferOther : List String := %s\n\n",
		cloneLeanStr(cond), cloneLeanStrList(thenS), hasElse, cloneLeanStrList(other))
	facts["loggerHandle.freeBuffer"] = map[string]any{"cond": cond, "then": thenS, "else": hasElse, "other": other}
	// newBuffer / bufferPool.New
	newBody := []string{}
	if fd := findFunc(bf, "", "newBuffer"); fd != nil && fd.Body != nil {
		for _, st := range fd.Body.List {
			newBody = append(newBody, lhStmtString(st))
		}
	}
	freshMake, freshLen := "", ""
	if cl, ok := findValue(bf, "bufferPool").(*ast.CompositeLit); ok {
		ast.Inspect(cl, func(n ast.Node) bool {
			if c, ok := n.(*ast.CallExpr); ok {
				if id, ok := c.Fun.(*ast.Ident); ok && id.Name == "make" && freshMake == "" {
					freshMake = types.ExprString(c)
					if len(c.Args) >= 2 {
						freshLen = types.ExprString(c.Args[1])
					}
				}
			}
			return true
		})
	}
	l.printf("def newBufferBody : List String := %s\ndef freshBufferMake : String := %s\n/-- length argument of the fresh buffer's make() -/\ndef freshBufferLenArg : String := %s\n", cloneLeanStrList(newBody), cloneLeanStr(freshMake), cloneLeanStr(freshLen))
	facts["loggerHandle.newBuffer"] = map[string]any{"body": newBody, "freshMake": freshMake}
	l.printf("\nend LoggerHandle\n")
	l.write()
}
