package main

import (
	"go/ast"
	"go/token"
	"strconv"
	"strings"
)

// ansiEnv resolves ansi.X selector expressions to the string constants of /repo/ansi/color.go.
func ansiEnv() func(ast.Expr) (string, bool) {
	f := parseFile("ansi/color.go")
	consts := map[string]string{}
	for _, d := range f.Decls {
		gd, ok := d.(*ast.GenDecl)
		if !ok || gd.Tok != token.CONST {
			continue
		}
		for _, s := range gd.Specs {
			vs := s.(*ast.ValueSpec)
			for i, n := range vs.Names {
				if i < len(vs.Values) {
					if v, ok := evalString(vs.Values[i], nil); ok {
						consts[n.Name] = v
					}
				}
			}
		}
	}
	return func(e ast.Expr) (string, bool) {
		if sel, ok := e.(*ast.SelectorExpr); ok {
			if id, ok := sel.X.(*ast.Ident); ok && id.Name == "ansi" {
				v, ok := consts[sel.Sel.Name]
				return v, ok
			}
		}
		return "", false
	}
}

// logger/json_handler.go: safeSet, hex; logger/level.go: labelList and the level constants;
// logger/buffer.go: buffer sizes, smallsString.
func extractLogger() {
	l := newLean("Logger", "logger/{json_handler,level,buffer}.go")

	jf := parseFile("logger/json_handler.go")
	cl, ok := findValue(jf, "safeSet").(*ast.CompositeLit)
	if !ok {
		die("safeSet is not a composite literal")
	}
	var safe [128]bool
	for _, e := range cl.Elts {
		kv, ok := e.(*ast.KeyValueExpr)
		if !ok {
			die("safeSet element without key")
		}
		k, ok := evalInt(kv.Key)
		if !ok || k < 0 || k > 127 {
			die("safeSet key not a byte constant")
		}
		id, ok := kv.Value.(*ast.Ident)
		if !ok || (id.Name != "true" && id.Name != "false") {
			die("safeSet value not a boolean literal")
		}
		safe[k] = id.Name == "true"
	}
	parts := make([]string, 128)
	for i, b := range safe {
		parts[i] = strconv.FormatBool(b)
	}
	l.printf("/-- `safeSet[b]` for b < 128 -/\ndef safeSet : List Bool := [\n  %s]\n\n", strings.Join(parts, ", "))
	hexs, ok := evalString(findValue(jf, "hex"), nil)
	if !ok {
		die("hex is not a string constant")
	}
	l.printf("def hex : List UInt8 := %s\n\n", leanBytes(hexs))

	lf := parseFile("logger/level.go")
	ll, ok := findValue(lf, "labelList").(*ast.CompositeLit)
	if !ok {
		die("labelList is not a composite literal")
	}
	env := ansiEnv()
	var labels []string
	var labelsRaw []string
	for _, e := range ll.Elts {
		v, ok := evalString(e, env)
		if !ok {
			die("labelList element is not a constant string")
		}
		labelsRaw = append(labelsRaw, v)
		labels = append(labels, leanBytes(v))
	}
	l.printf("def labelList : List (List UInt8) := [\n  %s]\n\n", strings.Join(labels, ",\n  "))
	levels := map[string]int64{}
	for _, name := range []string{"LevelDebug", "LevelInfo", "LevelWarn", "LevelError", "LevelFatal"} {
		v, ok := evalInt(findValue(lf, name))
		if !ok {
			die("%s is not an integer constant", name)
		}
		levels[name] = v
		l.printf("def %s : Int := %d\n", strings.ToLower(name[:1])+name[1:], v)
	}

	bf := parseFile("logger/buffer.go")
	for _, name := range []string{"initBufferSize", "maxBufferSize"} {
		v, ok := evalInt(findValue(bf, name))
		if !ok {
			die("%s is not an integer constant", name)
		}
		l.printf("def %s : Nat := %d\n", name, v)
		facts["logger."+name] = v
	}
	ss, ok := evalString(findValue(bf, "smallsString"), nil)
	if !ok {
		die("smallsString is not a string constant")
	}
	l.printf("def smallsString : List UInt8 := %s\n", leanBytes(ss))
	l.write()
	facts["logger.safeSet"] = safe[:]
	facts["logger.hex"] = hexs
	facts["logger.labelList"] = labelsRaw
	facts["logger.levels"] = levels
}
