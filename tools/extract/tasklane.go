package main

import (
	"bytes"
	"fmt"
	"go/ast"
	"go/printer"
	"go/token"
	"sort"
	"strings"
)

// A tiny compiler from the goroutine bodies of tasklane.go to the select-programs of
// Glb.Model.TaskLane: instructions are numbered in DFS pre-order, `return <value>` instructions
// come after the body in order of first appearance, `halt` (plain return / end) is last.

type tref struct {
	idx   int
	alias *tref
}

func (r *tref) get() int {
	for r.alias != nil {
		r = r.alias
	}
	return r.idx
}

type tcase struct {
	kind string // done | timeout | recv X | send X
	to   *tref
}

type tins struct {
	kind  string // select | act | halt
	cases []tcase
	dflt  *tref
	act   string
	next  *tref
}

type tcomp struct {
	src     string
	ins     []*tins
	halt    *tref
	rets    map[string]*tref
	retList []string
	skipped []string
	hooks   []thook
}

func exprString(e ast.Node) string {
	var b bytes.Buffer
	printer.Fprint(&b, fset, e)
	return b.String()
}

func (c *tcomp) emit(i *tins) *tref {
	c.ins = append(c.ins, i)
	return &tref{idx: len(c.ins) - 1}
}

func (c *tcomp) chanOf(e ast.Expr) string {
	s := exprString(e)
	switch {
	case strings.HasPrefix(s, "tl.bufferedQueueList["):
		return "buf"
	case strings.HasPrefix(s, "tl.blockingQueueList["):
		return "own"
	case s == "tl.universalQueue":
		return "uni"
	}
	die("%s: unknown channel expression %s", c.src, s)
	return ""
}

func (c *tcomp) retRef(kind string) *tref {
	if kind == "" {
		return c.halt
	}
	if r, ok := c.rets[kind]; ok {
		return r
	}
	r := &tref{idx: -1}
	c.rets[kind] = r
	c.retList = append(c.retList, kind)
	return r
}

// stmts compiles a statement list; cont is where control goes after the last statement.
func (c *tcomp) stmts(list []ast.Stmt, cont *tref) *tref {
	var real []ast.Stmt
	hooksBefore := map[int][]string{} // verifAt points sitting right before real statement i (len(real) = before cont)
	for _, s := range list {
		if name, ok := hookName(s); ok {
			hooksBefore[len(real)] = append(hooksBefore[len(real)], name)
			continue
		}
		if c.skip(s) {
			continue
		}
		real = append(real, s)
	}
	entries := make([]*tref, len(real)+1)
	for i := range real {
		entries[i] = &tref{idx: -1}
	}
	entries[len(real)] = cont
	for i, names := range hooksBefore {
		for _, n := range names {
			c.hooks = append(c.hooks, thook{n, entries[i]})
		}
	}
	if len(real) == 0 {
		return cont
	}
	for i, s := range real {
		e := c.stmt(s, entries[i+1])
		entries[i].alias = e
	}
	return entries[0]
}

type thook struct {
	name string
	at   *tref // the instruction control reaches right after the hook call
}

// hookName recognises `verifAt("<point>", …)`.
func hookName(s ast.Stmt) (string, bool) {
	es, ok := s.(*ast.ExprStmt)
	if !ok {
		return "", false
	}
	call, ok := es.X.(*ast.CallExpr)
	if !ok {
		return "", false
	}
	if id, ok := call.Fun.(*ast.Ident); !ok || id.Name != "verifAt" || len(call.Args) == 0 {
		return "", false
	}
	if v, ok := evalString(call.Args[0], nil); ok {
		return v, true
	}
	return "?", true
}

func (c *tcomp) skip(s ast.Stmt) bool {
	switch x := s.(type) {
	case *ast.DeferStmt:
		c.skipped = append(c.skipped, "defer "+exprString(x.Call))
		return true
	case *ast.DeclStmt:
		c.skipped = append(c.skipped, exprString(x))
		return true
	case *ast.ExprStmt:
		if call, ok := x.X.(*ast.CallExpr); ok {
			if id, ok := call.Fun.(*ast.Ident); ok && id.Name == "verifAt" {
				return true // verification hook, no effect
			}
		}
	}
	return false
}

func (c *tcomp) stmt(s ast.Stmt, cont *tref) *tref {
	switch x := s.(type) {
	case *ast.ForStmt:
		if x.Init != nil || x.Cond != nil || x.Post != nil {
			die("%s: only `for {}` loops are supported", c.src)
		}
		loop := &tref{idx: -1}
		e := c.stmts(x.Body.List, loop)
		loop.alias = e
		return e
	case *ast.SelectStmt:
		in := &tins{kind: "select"}
		ref := c.emit(in)
		for _, cl := range x.Body.List {
			cc := cl.(*ast.CommClause)
			if cc.Comm == nil {
				in.dflt = c.stmts(cc.Body, cont)
				continue
			}
			kind := ""
			switch comm := cc.Comm.(type) {
			case *ast.ExprStmt:
				u, ok := comm.X.(*ast.UnaryExpr)
				if !ok || u.Op != token.ARROW {
					die("%s: unsupported select case %s", c.src, exprString(comm))
				}
				switch es := exprString(u.X); {
				case es == "tl.ctx.Done()":
					kind = "done"
				case strings.HasPrefix(es, "time.After("):
					kind = "timeout"
				default:
					die("%s: unsupported receive case %s", c.src, es)
				}
			case *ast.AssignStmt:
				u, ok := comm.Rhs[0].(*ast.UnaryExpr)
				if !ok || u.Op != token.ARROW || exprString(comm.Lhs[0]) != "task" {
					die("%s: unsupported select case %s", c.src, exprString(comm))
				}
				kind = "recv " + c.chanOf(u.X)
			case *ast.SendStmt:
				if exprString(comm.Value) != "task" {
					die("%s: send of something other than task", c.src)
				}
				kind = "send " + c.chanOf(comm.Chan)
			default:
				die("%s: unsupported select case", c.src)
			}
			in.cases = append(in.cases, tcase{kind, c.stmts(cc.Body, cont)})
		}
		return ref
	case *ast.ReturnStmt:
		if len(x.Results) == 0 {
			return c.retRef("")
		}
		switch r := exprString(x.Results[0]); r {
		case "nil":
			return c.retRef("retNil")
		case "tl.ctx.Err()":
			return c.retRef("retCtxErr")
		case "ErrTimeout":
			return c.retRef("retTimeout")
		default:
			die("%s: unsupported return value %s", c.src, r)
		}
	case *ast.ExprStmt:
		call, ok := x.X.(*ast.CallExpr)
		if !ok {
			break
		}
		if fl, ok := call.Fun.(*ast.FuncLit); ok {
			// func() { defer func(){ recover… }(); task.Start() }()
			body := exprString(fl.Body)
			if !strings.Contains(body, "task.Start()") {
				die("%s: function literal without task.Start()", c.src)
			}
			facts["tasklane.runRecovers"] = strings.Contains(body, "recover()")
			facts["tasklane.runStoresLastPanic"] = strings.Contains(body, "tl.lastPanic.Store(")
			return c.emit(&tins{kind: "act", act: "run", next: cont})
		}
		switch es := exprString(call); es {
		case "tl.blockingTaskCnt.Add(1)":
			return c.emit(&tins{kind: "act", act: "incCnt", next: cont})
		case "tl.blockingTaskCnt.Add(^uint32(0))":
			return c.emit(&tins{kind: "act", act: "decCnt", next: cont})
		default:
			die("%s: unsupported call statement %s", c.src, es)
		}
	}
	die("%s: unsupported statement %s", c.src, exprString(s))
	return nil
}

func compileTL(fd *ast.FuncDecl, name string) (string, []string, string) {
	c := &tcomp{src: "tasklane.go:" + name, halt: &tref{idx: -1}, rets: map[string]*tref{}}
	entry := c.stmts(fd.Body.List, c.halt)
	for _, k := range c.retList {
		r := c.emit(&tins{kind: "act", act: k, next: c.halt})
		c.rets[k].idx = r.idx
	}
	h := c.emit(&tins{kind: "halt"})
	c.halt.idx = h.idx
	if entry.get() != 0 {
		die("%s: entry is not instruction 0", c.src)
	}
	leanCase := func(k string) string {
		switch {
		case k == "done" || k == "timeout":
			return "." + k
		default:
			p := strings.Split(k, " ")
			return fmt.Sprintf(".%s .%s", p[0], p[1])
		}
	}
	var lines []string
	for _, in := range c.ins {
		switch in.kind {
		case "select":
			var cs []string
			for _, k := range in.cases {
				cs = append(cs, fmt.Sprintf("(%s, %d)", leanCase(k.kind), k.to.get()))
			}
			d := "none"
			if in.dflt != nil {
				d = fmt.Sprintf("(some %d)", in.dflt.get())
			}
			lines = append(lines, fmt.Sprintf(".select [%s] %s", strings.Join(cs, ", "), d))
		case "act":
			lines = append(lines, fmt.Sprintf(".act .%s %d", in.act, in.next.get()))
		case "halt":
			lines = append(lines, ".halt")
		}
	}
	sort.SliceStable(c.hooks, func(i, j int) bool { return c.hooks[i].at.get() < c.hooks[j].at.get() })
	var hk []string
	for _, h := range c.hooks {
		hk = append(hk, fmt.Sprintf("(%q, %d)", h.name, h.at.get()))
	}
	return "[\n  " + strings.Join(lines, ",\n  ") + "]", c.skipped, "[" + strings.Join(hk, ", ") + "]"
}

func extractTaskLane() {
	const src = "tasklane/tasklane.go"
	f := parseFile(src)
	var b strings.Builder
	fmt.Fprintf(&b, "-- GENERATED by /verif/tools/extract from /repo/%s — do not edit; rewritten on every run.\n", src)
	b.WriteString("import Glb.Model.TaskLane\n\nnamespace Glb.Generated.TaskLane\nopen Glb.TaskLane\n\n")
	for _, fn := range [][2]string{{"startQueue", "queueProg"}, {"startWorker", "workerProg"}, {"PushTask", "pushProg"}} {
		fd := findFunc(f, "TaskLane", fn[0])
		if fd == nil {
			die("%s: func %s not found", src, fn[0])
		}
		prog, skipped, hooks := compileTL(fd, fn[0])
		fmt.Fprintf(&b, "/-- compiled from `%s` -/\ndef %s : Prog := %s\n\n", fn[0], fn[1], prog)
		fmt.Fprintf(&b, "/-- verification hook points of `%s`: (point, instruction reached right after the hook) -/\ndef %sHooks : List (String × Nat) := %s\n\n", fn[0], fn[1], hooks)
		facts["tasklane."+fn[0]+".hooks"] = hooks
		facts["tasklane."+fn[0]+".prog"] = strings.Split(strings.Trim(prog, "[]\n "), ",\n  ")
		facts["tasklane."+fn[0]+".skipped"] = skipped
		deferDone := false
		for _, s := range skipped {
			if s == "defer tl.wg.Done()" {
				deferDone = true
			}
		}
		if fn[0] != "PushTask" {
			fmt.Fprintf(&b, "def %sDefersWgDone : Bool := %v\n\n", fn[0], deferDone)
		}
	}
	// New: what is spawned and how the WaitGroup / channels are set up
	nf := findFunc(f, "", "New")
	if nf == nil {
		die("%s: func New not found", src)
	}
	var spawns []string
	wgAdd := ""
	chans := map[string]string{}
	ast.Inspect(nf.Body, func(n ast.Node) bool {
		switch x := n.(type) {
		case *ast.GoStmt:
			spawns = append(spawns, exprString(x.Call))
		case *ast.CallExpr:
			if s := exprString(x.Fun); s == "tl.wg.Add" {
				wgAdd = exprString(x.Args[0])
			}
		case *ast.AssignStmt:
			if len(x.Lhs) == 1 && len(x.Rhs) == 1 {
				chans[exprString(x.Lhs[0])] = exprString(x.Rhs[0])
			}
		case *ast.KeyValueExpr:
			chans[exprString(x.Key)] = exprString(x.Value)
		}
		return true
	})
	leanStrs := func(xs []string) string {
		q := make([]string, len(xs))
		for i, x := range xs {
			q[i] = fmt.Sprintf("%q", x)
		}
		return "[" + strings.Join(q, ", ") + "]"
	}
	fmt.Fprintf(&b, "/-- `go` statements inside the per-lane loop of `New` -/\ndef newSpawns : List String := %s\n", leanStrs(spawns))
	fmt.Fprintf(&b, "def newWgAdd : String := %q\n", wgAdd)
	fmt.Fprintf(&b, "def newBufferedChan : String := %q\n", chans["bufferedQueueList[i]"])
	fmt.Fprintf(&b, "def newBlockingChan : String := %q\n", chans["blockingQueueList[i]"])
	fmt.Fprintf(&b, "def newUniversalChan : String := %q\n", chans["universalQueue"])
	// lastPanic field type, Status reads
	lastPanicType := ""
	ast.Inspect(f, func(n ast.Node) bool {
		if fld, ok := n.(*ast.Field); ok && len(fld.Names) == 1 && fld.Names[0].Name == "lastPanic" {
			lastPanicType = exprString(fld.Type)
		}
		return true
	})
	fmt.Fprintf(&b, "def lastPanicType : String := %q\n", lastPanicType)
	sf := findFunc(f, "TaskLane", "Status")
	status := exprString(sf.Body)
	fmt.Fprintf(&b, "def statusReadsLenPerLane : Bool := %v\n", strings.Contains(status, "pending += len(tl.bufferedQueueList[i])"))
	fmt.Fprintf(&b, "def statusReadsCounter : Bool := %v\n", strings.Contains(status, "pending += int(tl.blockingTaskCnt.Load())"))
	fmt.Fprintf(&b, "def statusLoadsLastPanic : Bool := %v\n", strings.Contains(status, "tl.lastPanic.Load()"))
	wf := findFunc(f, "TaskLane", "Wait")
	fmt.Fprintf(&b, "def waitBody : String := %q\n", strings.Join(strings.Fields(exprString(wf.Body)), " "))
	b.WriteString("\nend Glb.Generated.TaskLane\n")
	writeIfChanged("TaskLane", b.String())
	facts["tasklane.New.spawns"] = spawns
	facts["tasklane.New.wgAdd"] = wgAdd
	facts["tasklane.lastPanicType"] = lastPanicType
}
