package main

import (
	"fmt"
	"go/ast"
	"go/token"
	"strconv"
	"strings"
)

// util/fsutil/path.go: shape of ResolveUrlPath (guard, prepended literal, return expression).
//
// Expressions are flattened to prefix token lists.  Parameters are written by position ($0, $1)
// so that renaming them keeps the tie; everything else (operators, literals, the qualified names
// of the called functions and their arity, what the qualifiers are imported as) is recorded
// verbatim.  Tie/Fsutil.lean proves by `decide` that these are the shapes the model assumes.
func extractFsutil() {
	const src = "util/fsutil/path.go"
	f := parseFile(src)
	l := newLean("Fsutil", src)

	// A function that no longer has the expected shape must not stop the extractor (the other
	// properties still need their files): whatever is missing is emitted empty / `none`, and the
	// `decide` lemmas of Tie/Fsutil.lean fail instead.
	fd := findFunc(f, "", "ResolveUrlPath")
	if fd == nil || fd.Body == nil {
		fd = &ast.FuncDecl{Type: &ast.FuncType{Params: &ast.FieldList{}}, Body: &ast.BlockStmt{}}
		facts["fsutil.ResolveUrlPath.missing"] = true
	}
	// parameters by position
	params := map[string]string{}
	var ptypes []string
	n := 0
	for _, fl := range fd.Type.Params.List {
		for _, nm := range fl.Names {
			params[nm.Name] = "$" + strconv.Itoa(n)
			n++
			ptypes = append(ptypes, flatName(fl.Type))
		}
	}
	var rtypes []string
	if fd.Type.Results != nil {
		for _, fl := range fd.Type.Results.List {
			rtypes = append(rtypes, flatName(fl.Type))
		}
	}
	sig := append(append(ptypes, "->"), rtypes...)

	// imports: local qualifier -> import path
	imports := map[string]string{}
	for _, im := range f.Imports {
		p, _ := strconv.Unquote(im.Path.Value)
		name := p[strings.LastIndex(p, "/")+1:]
		if im.Name != nil {
			name = im.Name.Name
		}
		imports[name] = p
	}

	var stmts []string
	var guard, assign, ret, calls, quals []string
	prefix := ""
	seenQual := map[string]bool{}
	var flat func(e ast.Expr) []string
	flat = func(e ast.Expr) []string {
		switch x := e.(type) {
		case *ast.ParenExpr:
			return flat(x.X)
		case *ast.Ident:
			if p, ok := params[x.Name]; ok {
				return []string{p}
			}
			return []string{"id:" + x.Name}
		case *ast.BasicLit:
			switch x.Kind {
			case token.STRING:
				s, err := strconv.Unquote(x.Value)
				if err != nil {
					return []string{"lit:" + x.Value}
				}
				return []string{"str:" + s}
			case token.CHAR, token.INT:
				v, ok := evalInt(x)
				if !ok {
					return []string{"lit:" + x.Value}
				}
				if x.Kind == token.CHAR {
					return []string{"char:" + strconv.FormatInt(v, 10)}
				}
				return []string{"int:" + strconv.FormatInt(v, 10)}
			}
			return []string{"lit:" + x.Value}
		case *ast.BinaryExpr:
			return append(append([]string{x.Op.String()}, flat(x.X)...), flat(x.Y)...)
		case *ast.UnaryExpr:
			return append([]string{"unary" + x.Op.String()}, flat(x.X)...)
		case *ast.IndexExpr:
			return append(append([]string{"index"}, flat(x.X)...), flat(x.Index)...)
		case *ast.SelectorExpr:
			return []string{"sel:" + flatName(x)}
		case *ast.CallExpr:
			name := flatName(x.Fun)
			out := []string{fmt.Sprintf("call:%s/%d", name, len(x.Args))}
			calls = append(calls, name)
			if sel, ok := x.Fun.(*ast.SelectorExpr); ok {
				if id, ok := sel.X.(*ast.Ident); ok && !seenQual[id.Name] {
					seenQual[id.Name] = true
					quals = append(quals, id.Name)
				}
			}
			for _, a := range x.Args {
				out = append(out, flat(a)...)
			}
			return out
		}
		return []string{fmt.Sprintf("other:%T", e)}
	}

	for _, st := range fd.Body.List {
		switch x := st.(type) {
		case *ast.IfStmt:
			stmts = append(stmts, "if")
			if x.Init != nil {
				stmts = append(stmts, "if.init")
			}
			if x.Else != nil {
				stmts = append(stmts, "if.else")
			}
			if guard == nil {
				guard = flat(x.Cond)
				calls = nil // calls inside the guard are part of the guard tokens
				for _, bs := range x.Body.List {
					as, ok := bs.(*ast.AssignStmt)
					if !ok || len(as.Lhs) != 1 || len(as.Rhs) != 1 {
						stmts = append(stmts, fmt.Sprintf("if.body:%T", bs))
						continue
					}
					stmts = append(stmts, "if.body:assign")
					assign = append(append([]string{as.Tok.String()}, flat(as.Lhs[0])...), flat(as.Rhs[0])...)
					calls = nil
					// the literal prepended: `"<lit>" + param`
					if be, ok := as.Rhs[0].(*ast.BinaryExpr); ok && be.Op == token.ADD {
						if s, ok := evalString(be.X, nil); ok {
							prefix = s
						}
					}
				}
			}
		case *ast.ReturnStmt:
			stmts = append(stmts, fmt.Sprintf("return/%d", len(x.Results)))
			if ret == nil && len(x.Results) == 1 {
				calls = nil
				ret = flat(x.Results[0])
			}
		default:
			stmts = append(stmts, fmt.Sprintf("%T", st))
		}
	}
	// the byte the guard compares the first byte with (last char literal of the guard)
	guardByte := int64(-1)
	for _, t := range guard {
		if strings.HasPrefix(t, "char:") {
			guardByte, _ = strconv.ParseInt(t[5:], 10, 64)
		}
	}
	guardByteLean := "none"
	if guardByte >= 0 && guardByte <= 255 {
		guardByteLean = fmt.Sprintf("some %d", guardByte)
	}
	var imps []string
	impFacts := map[string]string{}
	for _, q := range quals {
		imps = append(imps, fmt.Sprintf("(%s, %s)", leanStr(q), leanStr(imports[q])))
		impFacts[q] = imports[q]
	}

	l.printf("/-- parameter and result types of ResolveUrlPath -/\n")
	l.printf("def resolveSig : List String := %s\n\n", leanStrs(sig))
	l.printf("/-- top-level statements of the body -/\n")
	l.printf("def resolveStmts : List String := %s\n\n", leanStrs(stmts))
	l.printf("/-- the guard condition (prefix form, parameters by position) -/\n")
	l.printf("def resolveGuard : List String := %s\n\n", leanStrs(guard))
	l.printf("def resolveGuardByte : Option UInt8 := %s\n\n", guardByteLean)
	l.printf("/-- the guarded assignment and the literal it prepends -/\n")
	l.printf("def resolveAssign : List String := %s\n\n", leanStrs(assign))
	l.printf("def resolvePrefix : List UInt8 := %s\n\n", leanBytes(prefix))
	l.printf("/-- the return expression (prefix form) and the calls in it, outermost first -/\n")
	l.printf("def resolveReturn : List String := %s\n\n", leanStrs(ret))
	l.printf("def resolveCalls : List String := %s\n\n", leanStrs(calls))
	l.printf("/-- what the qualifiers of those calls are imported as -/\n")
	l.printf("def resolveImports : List (String × String) := [%s]\n", strings.Join(imps, ", "))
	l.write()

	facts["fsutil.ResolveUrlPath.sig"] = sig
	facts["fsutil.ResolveUrlPath.stmts"] = stmts
	facts["fsutil.ResolveUrlPath.guard"] = guard
	facts["fsutil.ResolveUrlPath.assign"] = assign
	facts["fsutil.ResolveUrlPath.prefix"] = prefix
	facts["fsutil.ResolveUrlPath.return"] = ret
	facts["fsutil.ResolveUrlPath.calls"] = calls
	facts["fsutil.ResolveUrlPath.imports"] = impFacts
}

// flatName renders identifiers and selector chains ("filepath.Join", "string").
func flatName(e ast.Expr) string {
	switch x := e.(type) {
	case *ast.Ident:
		return x.Name
	case *ast.SelectorExpr:
		return flatName(x.X) + "." + x.Sel.Name
	case *ast.ParenExpr:
		return flatName(x.X)
	case *ast.StarExpr:
		return "*" + flatName(x.X)
	}
	return fmt.Sprintf("other:%T", e)
}

// leanStr renders a Lean string literal (printable ASCII kept, everything else as \xHH).
func leanStr(s string) string {
	var b strings.Builder
	b.WriteByte('"')
	for i := 0; i < len(s); i++ {
		c := s[i]
		switch {
		case c == '"' || c == '\\':
			b.WriteByte('\\')
			b.WriteByte(c)
		case c >= 0x20 && c < 0x7f:
			b.WriteByte(c)
		default:
			fmt.Fprintf(&b, "\\x%02x", c)
		}
	}
	b.WriteByte('"')
	return b.String()
}

func leanStrs(xs []string) string {
	parts := make([]string, len(xs))
	for i, x := range xs {
		parts[i] = leanStr(x)
	}
	return "[" + strings.Join(parts, ", ") + "]"
}
