package main

import (
	"go/ast"
	"strings"
)

// C20: daemon/daemon.go. From `launch` the order of signal.Notify / cmd.Start / binary.Write(pid) /
// go cmd.Wait / select (the `verifPause(...)` hook call is skipped), the channels of the select
// and what is written to stderr; from `Launch` that stdout is read only after cmd.Run() returned
// and that non-empty stderr is a failure; from `Done` that the signal Notify listens for is the
// one sent to the parent.
func extractDaemon() {
	const src = "daemon/daemon.go"
	f := parseFile(src)
	l := newLean("Daemon", src)

	launch := findFunc(f, "", "launch")
	if launch == nil {
		die("%s: launch not found", src)
	}
	var order, selCases, stderrIn []string
	notifySig := ""
	var visit func(n ast.Node, ctx string)
	visit = func(n ast.Node, ctx string) {
		ast.Inspect(n, func(m ast.Node) bool {
			switch x := m.(type) {
			case *ast.GoStmt:
				if fl, ok := x.Call.Fun.(*ast.FuncLit); ok && daemonContainsSel(fl, "cmd.Wait") {
					order = append(order, "spawnWaiter")
					visit(fl.Body, "waiter")
				} else {
					order = append(order, "other:go")
				}
				return false
			case *ast.DeferStmt:
				if relayExprStr(x.Call.Fun) == "signal.Stop" {
					order = append(order, "deferStop")
				} else {
					order = append(order, "other:defer:"+relayExprStr(x.Call.Fun))
				}
				return false
			case *ast.SelectStmt:
				order = append(order, "select")
				for _, c := range x.Body.List {
					cc := c.(*ast.CommClause)
					if cc.Comm == nil {
						selCases = append(selCases, "default")
						continue
					}
					s := "?"
					if es, ok := cc.Comm.(*ast.ExprStmt); ok {
						if u, ok := es.X.(*ast.UnaryExpr); ok {
							s = relayExprStr(u.X)
						}
					}
					selCases = append(selCases, s)
					if len(cc.Body) > 0 {
						selCases = append(selCases, "body:"+s)
					}
				}
				return false
			case *ast.CallExpr:
				switch fn := relayExprStr(x.Fun); fn {
				case "signal.Notify":
					if ctx == "" {
						order = append(order, "notify")
					}
					if len(x.Args) == 2 {
						notifySig = relayExprStr(x.Args[1])
					}
				case "cmd.Start":
					order = append(order, "start")
				case "binary.Write":
					if len(x.Args) == 3 && relayExprStr(x.Args[0]) == "os.Stdout" && strings.Contains(relayExprStr(x.Args[2]), "cmd.Process.Pid") {
						order = append(order, "printPid")
					} else {
						order = append(order, "other:binary.Write")
					}
				case "os.Stderr.Write":
					where := ctx
					if where == "" {
						where = "launch"
					}
					stderrIn = append(stderrIn, where)
				case "verifPause":
					return false
				case "cmd.Wait":
					if ctx == "" {
						order = append(order, "other:cmd.Wait-inline")
					}
				}
			}
			return true
		})
	}
	visit(launch.Body, "")
	var steps []string
	for _, e := range order {
		if e != "deferStop" {
			steps = append(steps, e)
		}
	}
	l.printf("/-- `launch`: the launcher's steps in source order (`verifPause` skipped) -/\n")
	l.printf("def launchOrder : List String := %s\n", relayLeanStrList(steps))
	l.printf("/-- all events of `launch` including the deferred signal.Stop -/\n")
	l.printf("def launchEvents : List String := %s\n", relayLeanStrList(order))
	l.printf("/-- channels of the final `select` -/\n")
	l.printf("def launchSelect : List String := %s\n", relayLeanStrList(selCases))
	l.printf("/-- where `launch` writes to stderr (start error; waiter when cmd.Wait fails) -/\n")
	l.printf("def launchStderr : List String := %s\n", relayLeanStrList(stderrIn))
	l.printf("def launchNotifySignal : String := %q\n\n", notifySig)

	// Launch
	lf := findFunc(f, "", "Launch")
	if lf == nil {
		die("%s: Launch not found", src)
	}
	var lev []string
	ast.Inspect(lf.Body, func(m ast.Node) bool {
		switch x := m.(type) {
		case *ast.CallExpr:
			switch fn := relayExprStr(x.Fun); fn {
			case "cmd.Run":
				lev = append(lev, "run")
			case "cmd.Start", "cmd.Wait", "cmd.Output", "cmd.CombinedOutput":
				lev = append(lev, "other:"+fn)
			case "stderr.Len":
				lev = append(lev, "checkStderr")
			case "binary.Read":
				if len(x.Args) == 3 && relayExprStr(x.Args[0]) == "&stdout" {
					lev = append(lev, "readStdout")
				}
			case "errors.New":
				if len(x.Args) == 1 && relayExprStr(x.Args[0]) == "stderr.String()" {
					lev = append(lev, "stderrIsError")
				}
			}
		case *ast.AssignStmt:
			if len(x.Lhs) == 1 && len(x.Rhs) == 1 {
				switch relayExprStr(x.Lhs[0]) + "=" + relayExprStr(x.Rhs[0]) {
				case "cmd.Stdout=&stdout":
					lev = append(lev, "captureStdout")
				case "cmd.Stderr=&stderr":
					lev = append(lev, "captureStderr")
				}
			}
		}
		return true
	})
	l.printf("/-- `Launch`: events in source order -/\n")
	l.printf("def callerEvents : List String := %s\n\n", relayLeanStrList(lev))

	// Done
	df := findFunc(f, "", "Done")
	if df == nil {
		die("%s: Done not found", src)
	}
	var dev []string
	ast.Inspect(df.Body, func(m ast.Node) bool {
		if x, ok := m.(*ast.CallExpr); ok {
			switch fn := relayExprStr(x.Fun); fn {
			case "os.FindProcess":
				if len(x.Args) == 1 {
					dev = append(dev, "find:"+relayExprStr(x.Args[0]))
				}
			case "p.Signal":
				if len(x.Args) == 1 {
					dev = append(dev, "signal:"+relayExprStr(x.Args[0]))
				}
			}
		}
		return true
	})
	l.printf("/-- `Done`: whom it signals and with what -/\n")
	l.printf("def doneEvents : List String := %s\n", relayLeanStrList(dev))
	l.write()
	facts["daemon.launchOrder"] = steps
	facts["daemon.launchEvents"] = order
	facts["daemon.launchSelect"] = selCases
	facts["daemon.launchStderr"] = stderrIn
	facts["daemon.callerEvents"] = lev
	facts["daemon.doneEvents"] = dev
}

func daemonContainsSel(n ast.Node, name string) bool {
	found := false
	ast.Inspect(n, func(m ast.Node) bool {
		if c, ok := m.(*ast.CallExpr); ok && relayExprStr(c.Fun) == name {
			found = true
		}
		return !found
	})
	return found
}
