package main

import (
	"go/ast"
	"strconv"
)

// The nine method names of net/http (`http.MethodGet` ...). They are constants of the standard
// library, not of the repository, so they are resolved here (hard-coded, as the Go spec of
// net/http fixes them); `MethodAll` is read from the repository's own const.
var httpdNetHTTPMethods = map[string]string{
	"MethodGet":     "GET",
	"MethodHead":    "HEAD",
	"MethodPost":    "POST",
	"MethodPut":     "PUT",
	"MethodPatch":   "PATCH",
	"MethodDelete":  "DELETE",
	"MethodConnect": "CONNECT",
	"MethodOptions": "OPTIONS",
	"MethodTrace":   "TRACE",
}

// httpd/httpd.go: methodTagMap, MethodAll; httpd/tree.go: routeParam, routeParamAny.
func extractHttpd() {
	l := newLean("Httpd", "httpd/{httpd,tree}.go")

	hf := parseFile("httpd/httpd.go")
	methodAll, ok := evalString(findValue(hf, "MethodAll"), nil)
	if !ok {
		die("httpd/httpd.go: MethodAll is not a string constant")
	}
	env := func(e ast.Expr) (string, bool) {
		switch x := e.(type) {
		case *ast.SelectorExpr:
			if id, ok := x.X.(*ast.Ident); ok && id.Name == "http" {
				v, ok := httpdNetHTTPMethods[x.Sel.Name]
				return v, ok
			}
		case *ast.Ident:
			if x.Name == "MethodAll" {
				return methodAll, true
			}
		}
		return "", false
	}
	cl, ok := findValue(hf, "methodTagMap").(*ast.CompositeLit)
	if !ok {
		die("httpd/httpd.go: methodTagMap is not a composite literal")
	}
	type kv struct{ K, V string }
	var table []kv
	seen := map[string]bool{}
	for _, e := range cl.Elts {
		p, ok := e.(*ast.KeyValueExpr)
		if !ok {
			die("httpd/httpd.go: methodTagMap element without key")
		}
		k, ok1 := evalString(p.Key, env)
		v, ok2 := evalString(p.Value, env)
		if !ok1 || !ok2 {
			die("httpd/httpd.go: methodTagMap entry is not a pair of string constants")
		}
		if seen[k] {
			die("httpd/httpd.go: methodTagMap has the duplicate key %q (does not compile in Go)", k)
		}
		seen[k] = true
		table = append(table, kv{k, v})
	}
	l.printf("/-- `MethodAll` -/\ndef methodAll : List UInt8 := %s  -- %s\n\n", leanBytes(methodAll), strconv.Quote(methodAll))
	l.printf("/-- `methodTagMap` in source order (a Go map: keys are distinct, order is irrelevant). -/\n")
	l.printf("def methodTagMap : List (List UInt8 × List UInt8) := [\n")
	for i, e := range table {
		sep := ","
		if i == len(table)-1 {
			sep = ""
		}
		l.printf("  (%s, %s)%s  -- %s: %s\n", leanBytes(e.K), leanBytes(e.V), sep, strconv.Quote(e.K), strconv.Quote(e.V))
	}
	l.printf("]\n\n")

	tf := parseFile("httpd/tree.go")
	rp, ok := evalString(findValue(tf, "routeParam"), nil)
	if !ok {
		die("httpd/tree.go: routeParam is not a string constant")
	}
	ra, ok := evalString(findValue(tf, "routeParamAny"), nil)
	if !ok {
		die("httpd/tree.go: routeParamAny is not a string constant")
	}
	l.printf("def routeParam : List UInt8 := %s  -- %s\n", leanBytes(rp), strconv.Quote(rp))
	l.printf("def routeParamAny : List UInt8 := %s  -- %s\n", leanBytes(ra), strconv.Quote(ra))
	l.write()

	facts["httpd.MethodAll"] = methodAll
	facts["httpd.methodTagMap"] = table
	facts["httpd.routeParam"] = rp
	facts["httpd.routeParamAny"] = ra
}
