package main

import (
	"go/ast"
	"strconv"
	"strings"
)

// The nine method names of net/http (`http.MethodGet` ...). They are constants of the standard
// library, not of the repository, so they are resolved here (hard-coded, as the Go spec of
// net/http fixes them); `MethodAll` is read from the repository's own const.
var httpdNetHTTPMethods = map[string]string{
	"MethodGet":     "GET",
	"MethodHead":    "HEAD",
	"MethodPost":    "POST",
	"MethodPut":     "PUT",
	"MethodPatch":   "PATCH",
	"MethodDelete":  "DELETE",
	"MethodConnect": "CONNECT",
	"MethodOptions": "OPTIONS",
	"MethodTrace":   "TRACE",
}

// httpd/httpd.go: methodTagMap, MethodAll; httpd/tree.go: routeParam, routeParamAny.
func extractHttpd() {
	l := newLean("Httpd", "httpd/{httpd,tree}.go")

	hf := parseFile("httpd/httpd.go")
	methodAll, ok := evalString(findValue(hf, "MethodAll"), nil)
	if !ok {
		die("httpd/httpd.go: MethodAll is not a string constant")
	}
	env := func(e ast.Expr) (string, bool) {
		switch x := e.(type) {
		case *ast.SelectorExpr:
			if id, ok := x.X.(*ast.Ident); ok && id.Name == "http" {
				v, ok := httpdNetHTTPMethods[x.Sel.Name]
				return v, ok
			}
		case *ast.Ident:
			if x.Name == "MethodAll" {
				return methodAll, true
			}
		}
		return "", false
	}
	cl, ok := findValue(hf, "methodTagMap").(*ast.CompositeLit)
	if !ok {
		die("httpd/httpd.go: methodTagMap is not a composite literal")
	}
	type kv struct{ K, V string }
	var table []kv
	seen := map[string]bool{}
	for _, e := range cl.Elts {
		p, ok := e.(*ast.KeyValueExpr)
		if !ok {
			die("httpd/httpd.go: methodTagMap element without key")
		}
		k, ok1 := evalString(p.Key, env)
		v, ok2 := evalString(p.Value, env)
		if !ok1 || !ok2 {
			die("httpd/httpd.go: methodTagMap entry is not a pair of string constants")
		}
		if seen[k] {
			die("httpd/httpd.go: methodTagMap has the duplicate key %q (does not compile in Go)", k)
		}
		seen[k] = true
		table = append(table, kv{k, v})
	}
	l.printf("/-- `MethodAll` -/\ndef methodAll : List UInt8 := %s  -- %s\n\n", leanBytes(methodAll), strconv.Quote(methodAll))
	l.printf("/-- `methodTagMap` in source order (a Go map: keys are distinct, order is irrelevant). -/\n")
	l.printf("def methodTagMap : List (List UInt8 × List UInt8) := [\n")
	for i, e := range table {
		sep := ","
		if i == len(table)-1 {
			sep = ""
		}
		l.printf("  (%s, %s)%s  -- %s: %s\n", leanBytes(e.K), leanBytes(e.V), sep, strconv.Quote(e.K), strconv.Quote(e.V))
	}
	l.printf("]\n\n")

	tf := parseFile("httpd/tree.go")
	rp, ok := evalString(findValue(tf, "routeParam"), nil)
	if !ok {
		die("httpd/tree.go: routeParam is not a string constant")
	}
	ra, ok := evalString(findValue(tf, "routeParamAny"), nil)
	if !ok {
		die("httpd/tree.go: routeParamAny is not a string constant")
	}
	l.printf("def routeParam : List UInt8 := %s  -- %s\n", leanBytes(rp), strconv.Quote(rp))
	l.printf("def routeParamAny : List UInt8 := %s  -- %s\n", leanBytes(ra), strconv.Quote(ra))

	// the request counter behind Store ids: width of the field, the atomic operation and its step, the base
	// the number is written in (ServeHTTP: strconv.AppendUint(id, atomic.AddUint64(&mux.storeID, 1), 36))
	bits, addFn, step, base := httpdIDCounter(hf)
	l.printf("\n/-- width in bits of `Mux.storeID`, the atomic add applied to it (`%s`), its step, and the base of the id text -/\n", addFn)
	l.printf("def storeIDBits : Nat := %d\ndef storeIDAddBits : Nat := %d\ndef storeIDStep : Nat := %d\ndef storeIDBase : Nat := %d\n", bits, httpdBitsOf(addFn), step, base)
	l.write()
	facts["httpd.storeID"] = map[string]any{"field_bits": bits, "atomic": addFn, "step": step, "base": base}

	facts["httpd.MethodAll"] = methodAll
	facts["httpd.methodTagMap"] = table
	facts["httpd.routeParam"] = rp
	facts["httpd.routeParamAny"] = ra
}

func httpdBitsOf(name string) int {
	switch {
	case strings.HasSuffix(name, "64"):
		return 64
	case strings.HasSuffix(name, "32"):
		return 32
	}
	return 0
}

// httpdIDCounter reads the declaration of Mux.storeID and the one place in ServeHTTP where the id is drawn.
func httpdIDCounter(f *ast.File) (bits int, addFn string, step int64, base int64) {
	ast.Inspect(f, func(n ast.Node) bool {
		ts, ok := n.(*ast.TypeSpec)
		if !ok || ts.Name.Name != "Mux" {
			return true
		}
		st, ok := ts.Type.(*ast.StructType)
		if !ok {
			return false
		}
		for _, fl := range st.Fields.List {
			for _, nm := range fl.Names {
				if nm.Name == "storeID" {
					if id, ok := fl.Type.(*ast.Ident); ok {
						bits = httpdBitsOf(id.Name)
						if id.Name == "uint" || id.Name == "int" || id.Name == "uintptr" {
							bits = 0
						}
					}
				}
			}
		}
		return false
	})
	if bits == 0 {
		die("httpd/httpd.go: Mux.storeID is not a fixed-width 32/64-bit integer field")
	}
	fn := findFunc(f, "Mux", "ServeHTTP")
	if fn == nil {
		die("httpd/httpd.go: Mux.ServeHTTP not found")
	}
	found := 0
	ast.Inspect(fn.Body, func(n ast.Node) bool {
		call, ok := n.(*ast.CallExpr)
		if !ok {
			return true
		}
		sel, ok := call.Fun.(*ast.SelectorExpr)
		if !ok {
			return true
		}
		pkg, _ := sel.X.(*ast.Ident)
		if pkg != nil && pkg.Name == "strconv" && sel.Sel.Name == "AppendUint" && len(call.Args) == 3 {
			inner, ok := call.Args[1].(*ast.CallExpr)
			if !ok {
				return true
			}
			if _, conv := inner.Fun.(*ast.Ident); conv && len(inner.Args) == 1 { // uint64(atomic.Add…(…)): look inside the conversion
				if in2, ok := inner.Args[0].(*ast.CallExpr); ok {
					inner = in2
				}
			}
			isel, ok := inner.Fun.(*ast.SelectorExpr)
			if !ok || len(inner.Args) != 2 {
				return true
			}
			ipkg, _ := isel.X.(*ast.Ident)
			if ipkg == nil || ipkg.Name != "atomic" {
				return true
			}
			un, ok := inner.Args[0].(*ast.UnaryExpr)
			if !ok {
				return true
			}
			fsel, ok := un.X.(*ast.SelectorExpr)
			if !ok || fsel.Sel.Name != "storeID" {
				return true
			}
			st, ok1 := evalInt(inner.Args[1])
			bs, ok2 := evalInt(call.Args[2])
			if !ok1 || !ok2 {
				die("httpd/httpd.go: the id counter's step or base is not an integer constant")
			}
			addFn, step, base = isel.Sel.Name, st, bs
			found++
		}
		return true
	})
	if found != 1 {
		die("httpd/httpd.go: ServeHTTP does not draw the id as strconv.AppendUint(id, atomic.Add…(&mux.storeID, n), base) exactly once (found %d)", found)
	}
	return
}
